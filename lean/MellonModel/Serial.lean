/-
  MellonModel.Serial — `mellon.util.make_serializable / deserialize`, CPython `json.dumps / loads`
  (as a contract with an executable implementation), and
  `Covariance.__getstate__ / __setstate__ / from_dict`, `CovariancePair.__getstate__ / __setstate__`
  of `mellon/base_cov.py`, over a syntax of Python values.

  Everything here is exact (no rounding): floats are IEEE-754 bit patterns (`UInt64`).
  Core Lean only.
-/
import MellonModel.Kernel
namespace Mellon

/-! ### Python values -/

/-- Array element types the library stores (`str(x.dtype)`). -/
inductive Dtype where
  | f64 | i64 | bool
  deriving DecidableEq, Repr, Inhabited

def Dtype.name : Dtype → String
  | .f64 => "float64"
  | .i64 => "int64"
  | .bool => "bool"

def Dtype.ofName? (s : String) : Option Dtype :=
  if s = "float64" then some .f64 else if s = "int64" then some .i64
  else if s = "bool" then some .bool else none

/-- One array element. -/
inductive Scalar where
  | f (bits : UInt64)
  | i (n : Int)
  | b (v : Bool)
  deriving DecidableEq, Repr, Inhabited

def Scalar.dtype : Scalar → Dtype
  | .f _ => .f64
  | .i _ => .i64
  | .b _ => .bool

/-- Python values: the attribute values Mellon stores, plus what `make_serializable` produces
    from them (dicts with string keys, lists, strings, numbers).  `tuple` and `opaque` (any other
    object: bytes, complex, frozenset, …) are values JSON cannot keep. -/
inductive PyVal where
  | none
  | bool (b : Bool)
  | int (i : Int)
  | float (bits : UInt64)
  | str (s : String)
  | npInt (i : Int)            -- numpy.integer scalar
  | npFloat (bits : UInt64)    -- numpy.floating scalar (value as a double)
  | npBool (b : Bool)          -- numpy.bool_ scalar
  | arr (dt : Dtype) (shape : List Nat) (data : List Scalar)   -- jax / numpy array, flat row-major data
  | slice (start stop step : PyVal)
  | dict (kvs : List (String × PyVal))
  | set (xs : List PyVal)
  | list (xs : List PyVal)
  | tuple (xs : List PyVal)
  | opaque (tag : String)
  deriving Repr, Inhabited

/-- Outcome classes of the real code (`common.exc_class`), plus `unmodelled` for inputs outside the
    fragment the model covers (never produced by the serialisers themselves). -/
inductive PyErr where
  | valueError (kind : String)
  | typeError (kind : String)
  | internal (name : String)
  | unmodelled (what : String)
  deriving DecidableEq, Repr, Inhabited

abbrev PyM := Except PyErr

def alookup (k : String) : List (String × PyVal) → Option PyVal
  | [] => Option.none
  | (k', v) :: rest => if k' = k then some v else alookup k rest

/-! ### structural equality (Python `==` restricted to equal types; used by set construction) -/

mutual
def PyVal.beq : PyVal → PyVal → Bool
  | .none, .none => true
  | .bool a, .bool b => a == b
  | .int a, .int b => a == b
  | .float a, .float b => a == b
  | .str a, .str b => a == b
  | .npInt a, .npInt b => a == b
  | .npFloat a, .npFloat b => a == b
  | .npBool a, .npBool b => a == b
  | .arr d s x, .arr d' s' x' => d == d' && s == s' && x == x'
  | .slice a b c, .slice a' b' c' => PyVal.beq a a' && PyVal.beq b b' && PyVal.beq c c'
  | .dict k, .dict k' => PyVal.beqK k k'
  | .set a, .set b => PyVal.beqL a b
  | .list a, .list b => PyVal.beqL a b
  | .tuple a, .tuple b => PyVal.beqL a b
  | .opaque a, .opaque b => a == b
  | _, _ => false
def PyVal.beqL : List PyVal → List PyVal → Bool
  | [], [] => true
  | a :: as, b :: bs => PyVal.beq a b && PyVal.beqL as bs
  | _, _ => false
def PyVal.beqK : List (String × PyVal) → List (String × PyVal) → Bool
  | [], [] => true
  | (k, a) :: as, (k', b) :: bs => k == k' && PyVal.beq a b && PyVal.beqK as bs
  | _, _ => false
end

mutual
/-- `hash(v)` succeeds (Python 3.12: slices are hashable; lists, dicts, sets and arrays are not). -/
def PyVal.hashable : PyVal → Bool
  | .list _ | .dict _ | .set _ | .arr _ _ _ => false
  | .tuple xs => PyVal.hashableL xs
  | .slice a b c => PyVal.hashable a && PyVal.hashable b && PyVal.hashable c
  | _ => true
def PyVal.hashableL : List PyVal → Bool
  | [] => true
  | x :: xs => PyVal.hashable x && PyVal.hashableL xs
end

/-- `{… for v in data}`: later elements equal to an earlier one are dropped. -/
def dedupPy : List PyVal → List PyVal
  | [] => []
  | x :: xs => x :: (dedupPy xs).filter fun y => !(PyVal.beq x y)

/-! ### floats as bit patterns -/

/-- NaN: exponent all ones, mantissa non-zero. -/
def isNaNBits (b : UInt64) : Bool := (b &&& 0x7fffffffffffffff) > 0x7ff0000000000000

/-- What the JSON text keeps of a double: everything, except that every NaN is written as the token
    `NaN` and read back as the one quiet NaN `0x7ff8000000000000`. -/
def canonNaN (b : UInt64) : UInt64 := if isNaNBits b then 0x7ff8000000000000 else b

def Scalar.mapF (g : UInt64 → UInt64) : Scalar → Scalar
  | .f x => .f (g x)
  | s => s

def Scalar.toPy : Scalar → PyVal
  | .f x => .float x
  | .i n => .int n
  | .b v => .bool v

/-! ### `ndarray.tolist()` and `jnp.array(nested)` -/

def prodL : List Nat → Nat
  | [] => 1
  | n :: r => n * prodL r

/-- `n` consecutive chunks of length `k`. -/
def chunk {β : Type} : Nat → Nat → List β → List (List β)
  | 0, _, _ => []
  | n+1, k, xs => xs.take k :: chunk n k (xs.drop k)

/-- `x.tolist()`: nested lists by shape, a bare scalar for rank 0. -/
def nest : List Nat → List Scalar → PyVal
  | [], d => match d with
    | x :: _ => x.toPy
    | [] => .none
  | n :: rest, d => .list ((chunk n (prodL rest) d).map (nest rest))

mutual
/-- Shape inference and flattening of `jnp.array(nested)`; `none` for ragged / non-numeric input. -/
def parseNested : PyVal → Option (List Nat × List Scalar)
  | .float b => some ([], [.f b])
  | .int i => some ([], [.i i])
  | .bool v => some ([], [.b v])
  | .npFloat b => some ([], [.f b])
  | .npInt i => some ([], [.i i])
  | .npBool v => some ([], [.b v])
  | .list xs => match parseNestedL xs with
    | some (Option.none, _, _) => some ([0], [])
    | some (some sh, n, d) => some (n :: sh, d)
    | Option.none => Option.none
  | .tuple xs => match parseNestedL xs with
    | some (Option.none, _, _) => some ([0], [])
    | some (some sh, n, d) => some (n :: sh, d)
    | Option.none => Option.none
  | _ => Option.none
/-- (common child shape if any child, number of children, concatenated data). -/
def parseNestedL : List PyVal → Option (Option (List Nat) × Nat × List Scalar)
  | [] => some (Option.none, 0, [])
  | x :: xs => match parseNested x, parseNestedL xs with
    | some (sh, d), some (Option.none, _, _) => some (some sh, 1, d)
    | some (sh, d), some (some sh', n, d') => if sh = sh' then some (some sh, n + 1, d ++ d') else Option.none
    | _, _ => Option.none
end

/-- IEEE-754 double of a small integer (exact for `|n| < 2^53`). -/
def intToF64Bits? (n : Int) : Option UInt64 :=
  if n = 0 then some 0 else
  let m := n.natAbs
  if m ≥ 2 ^ 53 then Option.none else
  let e := m.log2
  let frac := m * 2 ^ (52 - e) - 2 ^ 52
  let sign : Nat := if n < 0 then 2 ^ 63 else 0
  some (UInt64.ofNat (sign + (e + 1023) * 2 ^ 52 + frac))

/-- `astype(dt)` of one element; `none` where the model does not cover the conversion
    (float → int, large int → float). -/
def Scalar.cast (dt : Dtype) (s : Scalar) : Option Scalar :=
  match dt, s with
  | .f64, .f x => some (.f x)
  | .i64, .i n => some (.i n)
  | .bool, .b v => some (.b v)
  | .i64, .b v => some (.i (if v then 1 else 0))
  | .f64, .b v => some (.f (if v then 0x3ff0000000000000 else 0))
  | .f64, .i n => (intToF64Bits? n).map .f
  | .bool, .i n => some (.b (n != 0))
  | .bool, .f x => some (.b ((x &&& 0x7fffffffffffffff) != 0))
  | .i64, .f _ => Option.none

/-- dtype inferred by `jnp.array` (x64 enabled): float if any float, else int if any int, else bool;
    float64 for no elements. -/
def inferDtype (d : List Scalar) : Dtype :=
  if d.any (fun s => s.dtype == .f64) then .f64
  else if d.any (fun s => s.dtype == .i64) then .i64
  else if d.isEmpty then .f64 else .bool

def natsOfPy : List PyVal → Option (List Nat)
  | [] => some []
  | .int i :: r => if i < 0 then Option.none else (natsOfPy r).map (i.toNat :: ·)
  | _ => Option.none

/-! ### `make_serializable` -/

def noneToStr : PyVal → PyVal
  | .none => .str "None"
  | v => v

def strToNone : PyVal → PyVal
  | .str s => if s = "None" then .none else .str s
  | v => v

mutual
/-- `util.make_serializable` (as fixed: arrays carry dtype and shape; NumPy arrays accepted;
    `numpy.bool_` → `bool`; lists and tuples are rebuilt element-wise as NEW lists; slice members go
    through the same conversion).  Every other object falls through the `else` branch unchanged.
    A set has no order: the code lists its elements sorted when they can be ordered (repair of finding
    H3-C1; set-iteration order before), the model in the order of its input; the harness compares set
    records as unordered. -/
def makeSerializable : PyVal → PyVal
  | .arr dt sh d => .dict [("type", .str "jax.numpy"), ("data", nest sh d),
                           ("dtype", .str dt.name), ("shape", .list (sh.map fun n => .int (Int.ofNat n)))]
  | .npBool b => .bool b
  | .npInt i => .int i
  | .npFloat b => .float b
  | .slice a b c => .dict [("type", .str "slice"),
                           ("data", .list [makeSerializable a, makeSerializable b, makeSerializable c])]
  | .dict kvs => .dict [("type", .str "dict"), ("data", .dict (makeSerializableK kvs))]
  | .set xs => .dict [("type", .str "set"), ("data", .list (makeSerializableL xs))]
  | .list xs => .list (makeSerializableL xs)
  | .tuple xs => .list (makeSerializableL xs)
  | .none => .str "None"
  | v => v
def makeSerializableL : List PyVal → List PyVal
  | [] => []
  | x :: xs => makeSerializable x :: makeSerializableL xs
def makeSerializableK : List (String × PyVal) → List (String × PyVal)
  | [] => []
  | (k, v) :: r => (k, makeSerializable v) :: makeSerializableK r
end

/-! ### `deserialize` -/

/-- The `"jax.numpy"` branch: `array(data, dtype=dtype)` then `reshape(shape)` when present
    (both keys are absent in data written by older versions). -/
def deserArr (kvs : List (String × PyVal)) : PyM PyVal :=
  match alookup "data" kvs with
  | Option.none => .error (.internal "KeyError")
  | some data =>
    match parseNested data with
    | Option.none => .error (.unmodelled "array-of-ragged-or-non-numeric")
    | some (ish, flat) =>
      let dt? : PyM Dtype := match alookup "dtype" kvs with
        | Option.none => .ok (inferDtype flat)
        | some .none => .ok (inferDtype flat)
        | some (.str s) => match Dtype.ofName? s with
          | some dt => .ok dt
          | Option.none => .error (.unmodelled "dtype")
        | some _ => .error (.unmodelled "dtype")
      match dt? with
      | .error e => .error e
      | .ok dt =>
        match flat.mapM (Scalar.cast dt) with
        | Option.none => .error (.unmodelled "cast")
        | some cast =>
          match alookup "shape" kvs with
          | Option.none => .ok (.arr dt ish cast)
          | some .none => .ok (.arr dt ish cast)
          | some (.list dims) => match natsOfPy dims with
            | some sh => if prodL sh = cast.length then .ok (.arr dt sh cast)
                         else .error (.typeError "reshape")
            | Option.none => .error (.unmodelled "shape")
          | some _ => .error (.unmodelled "shape")

/-- `slice(*dat)`. -/
def mkSlice : List PyVal → PyM PyVal
  | [a] => .ok (.slice .none a .none)
  | [a, b] => .ok (.slice a b .none)
  | [a, b, c] => .ok (.slice a b c)
  | _ => .error (.typeError "slice")

/-- Set construction: `TypeError: unhashable type` for lists, dicts, sets, arrays. -/
def mkSet (ys : List PyVal) : PyM PyVal :=
  if PyVal.hashableL ys then .ok (.set (dedupPy ys)) else .error (.typeError "unhashable")

mutual
/-- `util.deserialize`.  A dict must have a `"type"` key (`KeyError` otherwise); an unknown type is
    refused with `ValueError` (it fell off the end of the function and yielded `None` before the
    repair of finding A7); a list is rebuilt element-wise (a tuple is not a list and falls through
    unchanged). -/
def deserialize : PyVal → PyM PyVal
  | .dict kvs =>
    match alookup "type" kvs with
    | Option.none => .error (.internal "KeyError")
    | some (.str t) =>
      if t = "jax.numpy" then deserArr kvs
      else if t = "slice" then deserSliceData kvs
      else if t = "dict" then deserDictData kvs
      else if t = "set" then deserSetData kvs
      else .error (.valueError "unknown-type")
    | some _ => .error (.valueError "unknown-type")
  | .list xs => (deserializeL xs).map .list
  | v => .ok (strToNone v)
/-- `slice(*[deserialize(v) for v in x["data"]])` -/
def deserSliceData : List (String × PyVal) → PyM PyVal
  | [] => .error (.internal "KeyError")
  | (k, v) :: rest =>
    if k = "data" then
      match v with
      | .list xs => (deserializeL xs).bind mkSlice
      | .tuple xs => (deserializeL xs).bind mkSlice
      | _ => .error (.unmodelled "slice-data")
    else deserSliceData rest
/-- `{k: deserialize(v) for k, v in x["data"].items()}` -/
def deserDictData : List (String × PyVal) → PyM PyVal
  | [] => .error (.internal "KeyError")
  | (k, v) :: rest =>
    if k = "data" then
      match v with
      | .dict d => (deserializeK d).map .dict
      | _ => .error (.internal "AttributeError")
    else deserDictData rest
/-- `{deserialize(v) for v in x["data"]}` -/
def deserSetData : List (String × PyVal) → PyM PyVal
  | [] => .error (.internal "KeyError")
  | (k, v) :: rest =>
    if k = "data" then
      match v with
      | .list xs => (deserializeL xs).bind mkSet
      | .tuple xs => (deserializeL xs).bind mkSet
      | _ => .error (.unmodelled "set-data")
    else deserSetData rest
def deserializeL : List PyVal → PyM (List PyVal)
  | [] => .ok []
  | x :: xs => match deserialize x, deserializeL xs with
    | .ok y, .ok ys => .ok (y :: ys)
    | .error e, _ => .error e
    | _, .error e => .error e
def deserializeK : List (String × PyVal) → PyM (List (String × PyVal))
  | [] => .ok []
  | (k, v) :: r => match deserialize v, deserializeK r with
    | .ok y, .ok ys => .ok ((k, y) :: ys)
    | .error e, _ => .error e
    | _, .error e => .error e
end

/-! ### JSON -/

inductive Json where
  | null
  | bool (b : Bool)
  | int (i : Int)
  | float (bits : UInt64)
  | str (s : String)
  | arr (xs : List Json)
  | obj (kvs : List (String × Json))
  deriving Repr, Inhabited

mutual
/-- The value-to-JSON half of `json.dumps` (`allow_nan=True`): lists and tuples become arrays, dicts
    objects; anything else is `TypeError: Object of type … is not JSON serializable`. -/
def toJson : PyVal → PyM Json
  | .none => .ok .null
  | .bool b => .ok (.bool b)
  | .int i => .ok (.int i)
  | .float b => .ok (.float b)
  | .str s => .ok (.str s)
  | .list xs => (toJsonL xs).map .arr
  | .tuple xs => (toJsonL xs).map .arr
  | .dict kvs => (toJsonK kvs).map .obj
  | _ => .error (.typeError "not-json-serializable")
def toJsonL : List PyVal → PyM (List Json)
  | [] => .ok []
  | x :: xs => match toJson x, toJsonL xs with
    | .ok y, .ok ys => .ok (y :: ys)
    | .error e, _ => .error e
    | _, .error e => .error e
def toJsonK : List (String × PyVal) → PyM (List (String × Json))
  | [] => .ok []
  | (k, v) :: r => match toJson v, toJsonK r with
    | .ok y, .ok ys => .ok ((k, y) :: ys)
    | .error e, _ => .error e
    | _, .error e => .error e
end

mutual
/-- The JSON-to-value half of `json.loads`. -/
def ofJson : Json → PyVal
  | .null => .none
  | .bool b => .bool b
  | .int i => .int i
  | .float b => .float b
  | .str s => .str s
  | .arr xs => .list (ofJsonL xs)
  | .obj kvs => .dict (ofJsonK kvs)
def ofJsonL : List Json → List PyVal
  | [] => []
  | x :: xs => ofJson x :: ofJsonL xs
def ofJsonK : List (String × Json) → List (String × PyVal)
  | [] => []
  | (k, v) :: r => (k, ofJson v) :: ofJsonK r
end

mutual
/-- What survives the text: everything but NaN payloads. -/
def jsonCanon : Json → Json
  | .float b => .float (canonNaN b)
  | .arr xs => .arr (jsonCanonL xs)
  | .obj kvs => .obj (jsonCanonK kvs)
  | j => j
def jsonCanonL : List Json → List Json
  | [] => []
  | x :: xs => jsonCanon x :: jsonCanonL xs
def jsonCanonK : List (String × Json) → List (String × Json)
  | [] => []
  | (k, v) :: r => (k, jsonCanon v) :: jsonCanonK r
end

/-- Contract of the text layer of CPython's `json` (`float.__repr__` is the shortest string that
    reads back to the same double; `NaN`, `Infinity`, `-Infinity` tokens; arbitrary-precision ints;
    string escaping): decoding the encoding of a JSON value gives the value back, NaN payloads
    excepted. -/
structure JsonCodec (Text : Type) where
  enc : Json → Text
  dec : Text → Option Json
  spec : ∀ j, dec (enc j) = some (jsonCanon j)

/-- The executable implementation used by the driver: the text *is* the canonical JSON value. -/
def idCodec : JsonCodec Json := ⟨jsonCanon, some, fun _ => rfl⟩

/-- `json.loads(json.dumps(v))`. -/
def jsonPass {Text : Type} (C : JsonCodec Text) (v : PyVal) : PyM PyVal :=
  match toJson v with
  | .error e => .error e
  | .ok j => match C.dec (C.enc j) with
    | some j' => .ok (ofJson j')
    | Option.none => .error (.internal "JSONDecodeError")

/-- `deserialize(json.loads(json.dumps(make_serializable(v))))`, for any codec meeting the contract. -/
def roundTripJsonWith {Text : Type} (C : JsonCodec Text) (v : PyVal) : PyM PyVal :=
  match jsonPass C (makeSerializable v) with
  | .ok w => deserialize w
  | .error e => .error e

/-- … with the executable codec (what the driver runs). -/
def roundTripJson (v : PyVal) : PyM PyVal := roundTripJsonWith idCodec v

/-- `deserialize(make_serializable(v))` (the `to_dict` / `copy` path, no text in between). -/
def roundTripDict (v : PyVal) : PyM PyVal := deserialize (makeSerializable v)

/-! ### the normal form a value comes back in -/

mutual
/-- NumPy scalars come back as Python scalars of equal value, tuples as lists; `f` is what the
    transport does to float bits (`canonNaN` through JSON text, `id` on the dict path). -/
def PyVal.normF (f : UInt64 → UInt64) : PyVal → PyVal
  | .float b => .float (f b)
  | .npFloat b => .float (f b)
  | .npInt i => .int i
  | .npBool b => .bool b
  | .arr dt sh d => .arr dt sh (d.map (Scalar.mapF f))
  | .slice a b c => .slice (PyVal.normF f a) (PyVal.normF f b) (PyVal.normF f c)
  | .dict kvs => .dict (PyVal.normFK f kvs)
  | .set xs => .set (PyVal.normFL f xs)
  | .list xs => .list (PyVal.normFL f xs)
  | .tuple xs => .list (PyVal.normFL f xs)
  | v => v
def PyVal.normFL (f : UInt64 → UInt64) : List PyVal → List PyVal
  | [] => []
  | x :: xs => PyVal.normF f x :: PyVal.normFL f xs
def PyVal.normFK (f : UInt64 → UInt64) : List (String × PyVal) → List (String × PyVal)
  | [] => []
  | (k, v) :: r => (k, PyVal.normF f v) :: PyVal.normFK f r
end

abbrev PyVal.norm : PyVal → PyVal := PyVal.normF canonNaN

/-! ### well-formed values: what the property quantifies over -/

/-- Hashable scalars a set may hold. -/
def PyVal.atom : PyVal → Bool
  | .none | .bool _ | .int _ | .float _ | .npInt _ | .npFloat _ | .npBool _ => true
  | .str s => s != "None"
  | _ => false

/-- No two elements coincide (structurally). -/
def nodupPy : List PyVal → Bool
  | [] => true
  | x :: xs => xs.all (fun y => !(PyVal.beq x y)) && nodupPy xs

def nodupKeys : List (String × PyVal) → Bool
  | [] => true
  | (k, _) :: r => r.all (fun p => p.1 != k) && nodupKeys r

mutual
/-- The value grammar of the property.  Excluded is only what the property itself excludes: the
    reserved string `"None"` (anywhere), objects of foreign types, and — through the normal form,
    which maps a tuple to a list — tuple-vs-list identity. `f` as in `normF`: a set must still be
    duplicate-free after its elements have come back. -/
def PyVal.WF (f : UInt64 → UInt64) : PyVal → Bool
  | .none | .bool _ | .int _ | .float _ | .npInt _ | .npFloat _ | .npBool _ => true
  | .str s => s != "None"
  | .arr dt sh d => d.length == prodL sh && d.all (fun s => s.dtype == dt)
  | .slice a b c => PyVal.WF f a && PyVal.WF f b && PyVal.WF f c
  | .dict kvs => PyVal.WFK f kvs && nodupKeys kvs
  | .set xs => xs.all PyVal.atom && nodupPy (PyVal.normFL f xs)
  | .list xs => PyVal.WFL f xs
  | .tuple xs => PyVal.WFL f xs
  | .opaque _ => false
def PyVal.WFL (f : UInt64 → UInt64) : List PyVal → Bool
  | [] => true
  | x :: xs => PyVal.WF f x && PyVal.WFL f xs
def PyVal.WFK (f : UInt64 → UInt64) : List (String × PyVal) → Bool
  | [] => true
  | (_, v) :: r => PyVal.WF f v && PyVal.WFK f r
end

/-! ### covariance functions: `Covariance.__getstate__` / `from_dict` -/

/-- Version / timestamp strings written into every `metadata` block. -/
structure Meta where
  version : String
  date : String
  python : String
  deriving Repr, Inhabited, DecidableEq

def optIntToPy : Option Int → PyVal
  | Option.none => .none
  | some z => .int z

/-- The Python object an `ActiveDims` stands for (a boolean mask is a NumPy bool array). -/
def adToPy : ActiveDims → PyVal
  | .none => .none
  | .idx z => .int z
  | .list zs => .list (zs.map .int)
  | .mask bs => .arr .bool [bs.length] (bs.map .b)
  | .slice a b c => .slice (optIntToPy a) (optIntToPy b) (optIntToPy c)

def intsOfPy : List PyVal → Option (List Int)
  | [] => some []
  | .int i :: r => (intsOfPy r).map (i :: ·)
  | .npInt i :: r => (intsOfPy r).map (i :: ·)
  | _ => Option.none

def boolsOfPy : List PyVal → Option (List Bool)
  | [] => some []
  | .bool b :: r => (boolsOfPy r).map (b :: ·)
  | .npBool b :: r => (boolsOfPy r).map (b :: ·)
  | _ => Option.none

def intsOfScalars : List Scalar → Option (List Int)
  | [] => some []
  | .i n :: r => (intsOfScalars r).map (n :: ·)
  | _ => Option.none

def boolsOfScalars : List Scalar → Option (List Bool)
  | [] => some []
  | .b v :: r => (boolsOfScalars r).map (v :: ·)
  | _ => Option.none

def pyToOptInt : PyVal → Option (Option Int)
  | .none => some Option.none
  | .int z => some (some z)
  | .npInt z => some (some z)
  | _ => Option.none

/-- How `select_active_dims` reads a stored `active_dims` object: integer (Python, NumPy or rank-0
    array), list / tuple / rank-1 integer array, boolean mask (list or rank-1 bool array), slice. -/
def pyToAd : PyVal → Option ActiveDims
  | .none => some .none
  | .int z => some (.idx z)
  | .npInt z => some (.idx z)
  | .list xs => match intsOfPy xs with
    | some zs => some (.list zs)
    | Option.none => (boolsOfPy xs).map .mask
  | .tuple xs => match intsOfPy xs with
    | some zs => some (.list zs)
    | Option.none => (boolsOfPy xs).map .mask
  | .arr .i64 [] [.i z] => some (.idx z)
  | .arr .i64 [_] d => (intsOfScalars d).map .list
  | .arr .bool [_] d => (boolsOfScalars d).map .mask
  | .slice a b c => match pyToOptInt a, pyToOptInt b, pyToOptInt c with
    | some a, some b, some c => some (.slice a b c)
    | _, _, _ => Option.none
  | _ => Option.none

def metaDict (m : Meta) (cls module : String) : PyVal :=
  .dict [("classname", .str cls), ("module_name", .str module), ("module_version", .str m.version),
         ("serialization_date", .str m.date), ("python_version", .str m.python)]

def leafState (m : Meta) (cls : String) (data : List (String × PyVal)) : PyVal :=
  .dict [("type", .str "mellon.Covariance"), ("data", .dict data), ("metadata", metaDict m cls "mellon.cov")]

def pairState (m : Meta) (cls : String) (l r : PyVal) (ad : ActiveDims) : PyVal :=
  .dict [("type", .str "mellon.Covariance"), ("left_data", l), ("right_data", r),
         ("active_dims", makeSerializable (adToPy ad)), ("metadata", metaDict m cls "mellon")]

def leafData (ad : ActiveDims) (ls : PyVal) : List (String × PyVal) :=
  [("active_dims", makeSerializable (adToPy ad)), ("ls", makeSerializable ls)]

/-- `Covariance.__getstate__` / `CovariancePair.__getstate__` (= `to_dict`): kernel parameters are
    Python values (float, int, NumPy scalar, rank-0 array …). -/
def covToDict (m : Meta) : Cov PyVal → PyVal
  | .matern32 ls ad => leafState m "Matern32" (leafData ad ls)
  | .matern52 ls ad => leafState m "Matern52" (leafData ad ls)
  | .expquad ls ad => leafState m "ExpQuad" (leafData ad ls)
  | .exponential ls ad => leafState m "Exponential" (leafData ad ls)
  | .ratquad a ls ad => leafState m "RatQuad" (leafData ad ls ++ [("alpha", makeSerializable a)])
  | .linear ls ad => leafState m "Linear" (leafData ad ls)
  | .add l r ad => pairState m "Add" (covToDict m l) (covToDict m r) ad
  | .addC l c ad => pairState m "Add" (covToDict m l) (makeSerializable c) ad
  | .mul l r ad => pairState m "Mul" (covToDict m l) (covToDict m r) ad
  | .mulC l c ad => pairState m "Mul" (covToDict m l) (makeSerializable c) ad
  | .pow l p ad => pairState m "Pow" (covToDict m l) (makeSerializable p) ad

inductive LeafKind where
  | matern32 | matern52 | expquad | exponential | ratquad | linear
  deriving DecidableEq, Repr

inductive PairKind where
  | add | mul | pow
  deriving DecidableEq, Repr

inductive CovClass where
  | leaf (k : LeafKind)
  | pair (k : PairKind)
  deriving DecidableEq, Repr

/-- Names bound in the module `base_cov` that are not kernel classes that can be instantiated (imports,
    helpers, the abstract base class): found by the `globals()` lookup and refused. -/
def baseCovNonKernelGlobals : List String :=
  ["Covariance", "ABC", "abstractmethod", "sys", "logging", "json", "datetime", "import_module", "isabstract",
   "vmap", "jacfwd", "expand_dims", "reshape", "where", "make_serializable", "deserialize",
   "select_active_dims", "expand_to_inactive", "MELLON_NAME", "logger", "_state_field", "_deserialize_field"]

/-- Class lookup by name: `globals()` of `base_cov` first (`Add`, `Mul`, `Pow`, whatever the module
    name says), otherwise `getattr(import_module(module_name), classname)`.  What is found must be a
    concrete subclass of `Covariance`; a name that is not found, is not a class, is not a kernel class or
    is abstract (`Covariance`) is refused with `ValueError`.  (`CovariancePair` itself can be
    instantiated; it is outside the kernel syntax of the model.) -/
def covClass (cls module : String) : PyM CovClass :=
  if cls = "Add" then .ok (.pair .add)
  else if cls = "Mul" then .ok (.pair .mul)
  else if cls = "Pow" then .ok (.pair .pow)
  else if cls = "CovariancePair" then .error (.unmodelled "class-lookup")
  else if baseCovNonKernelGlobals.contains cls then .error (.valueError "not-a-kernel-class")
  else if module = "mellon.cov" then
    if cls = "Matern32" then .ok (.leaf .matern32)
    else if cls = "Matern52" then .ok (.leaf .matern52)
    else if cls = "ExpQuad" then .ok (.leaf .expquad)
    else if cls = "Exponential" then .ok (.leaf .exponential)
    else if cls = "RatQuad" then .ok (.leaf .ratquad)
    else if cls = "Linear" then .ok (.leaf .linear)
    else .error (.valueError "class-lookup")
  else .error (.unmodelled "class-lookup")

def isKernelState : PyVal → Bool
  | .dict kvs => match alookup "type" kvs with
    | some (.str t) => t == "mellon.Covariance"
    | _ => false
  | _ => false

/-- `_state_field(state, key, kind)`: a required field that is missing or of the wrong type is
    refused with `ValueError`. -/
def strField (key : String) (kvs : List (String × PyVal)) : PyM String :=
  match alookup key kvs with
  | Option.none => .error (.valueError "missing-field")
  | some (.str s) => .ok s
  | some _ => .error (.valueError "field-type")

def stateClass (kvs : List (String × PyVal)) : PyM CovClass :=
  match alookup "metadata" kvs with
  | some (.dict md) =>
    match strField "classname" md with
    | .error e => .error e
    | .ok c =>
      match strField "module_name" md with
      | .error e => .error e
      | .ok mo => covClass c mo
  | Option.none => .error (.valueError "missing-field")
  | some _ => .error (.valueError "field-type")

/-- `_deserialize_field`: whatever `deserialize` raises on a stored value (`KeyError` for a record
    without `"type"` / `"data"`, `TypeError`, `AttributeError`, …) is turned into `ValueError`.
    (`unmodelled` is not an outcome of the code but the model's mark for inputs it does not cover.) -/
def refuseMalformed {α : Type} : PyM α → PyM α
  | .ok a => .ok a
  | .error (.unmodelled w) => .error (.unmodelled w)
  | .error _ => .error (.valueError "malformed-value")

def deserAd (v : Option PyVal) : PyM ActiveDims :=
  match refuseMalformed (deserialize (v.getD .none)) with
  | .error e => .error e
  | .ok w => match pyToAd w with
    | some ad => .ok ad
    | Option.none => .error (.unmodelled "active_dims")

/-- `Covariance.__setstate__` of a leaf class: every item of `data` becomes an attribute. -/
def leafFromState (k : LeafKind) (kvs : List (String × PyVal)) : PyM (Cov PyVal) :=
  match alookup "data" kvs with
  | Option.none => .error (.valueError "missing-field")
  | some (.dict data) =>
    match refuseMalformed (deserializeK data) with
    | .error e => .error e
    | .ok attrs =>
      let need := if k = .ratquad then 3 else 2
      if attrs.length ≠ need then .error (.unmodelled "kernel-attributes") else
      match alookup "ls" attrs, alookup "active_dims" attrs with
      | some ls, some adv =>
        match pyToAd adv with
        | Option.none => .error (.unmodelled "active_dims")
        | some ad =>
          match k with
          | .matern32 => .ok (.matern32 ls ad)
          | .matern52 => .ok (.matern52 ls ad)
          | .expquad => .ok (.expquad ls ad)
          | .exponential => .ok (.exponential ls ad)
          | .linear => .ok (.linear ls ad)
          | .ratquad => match alookup "alpha" attrs with
            | some a => .ok (.ratquad a ls ad)
            | Option.none => .error (.unmodelled "kernel-attributes")
      | _, _ => .error (.unmodelled "kernel-attributes")
  | some _ => .error (.valueError "field-type")

def buildPair (k : PairKind) (l : Cov PyVal) (r : Sum (Cov PyVal) PyVal) (ad : ActiveDims) : PyM (Cov PyVal) :=
  match k, r with
  | .add, .inl r => .ok (.add l r ad)
  | .add, .inr c => .ok (.addC l c ad)
  | .mul, .inl r => .ok (.mul l r ad)
  | .mul, .inr c => .ok (.mulC l c ad)
  | .pow, .inr p => .ok (.pow l p ad)
  | .pow, .inl _ => .error (.unmodelled "pow-of-kernel")

mutual
/-- `Covariance.from_dict`: not a dict, or `type` is not `"mellon.Covariance"` → `ValueError`; so is a
    state with the marker in which a required field (`metadata`, `classname`, `module_name`, `data`,
    `left_data`, `right_data`) is missing or of the wrong type, whose class is not a concrete kernel
    class, or in which a stored value cannot be deserialised. -/
def covFromDict : PyVal → PyM (Cov PyVal)
  | .dict kvs =>
    if !(isKernelState (.dict kvs)) then .error (.valueError "not-a-kernel") else
    match stateClass kvs with
    | .error e => .error e
    | .ok (.leaf k) => leafFromState k kvs
    | .ok (.pair k) =>
      match covFromKey "left_data" kvs with
      | .error e => .error e
      | .ok l =>
        match covRightFromKey kvs with
        | .error e => .error e
        | .ok r =>
          match deserAd (alookup "active_dims" kvs) with
          | .error e => .error e
          | .ok ad => buildPair k l r ad
  | _ => .error (.valueError "not-a-kernel")
def covFromKey (key : String) : List (String × PyVal) → PyM (Cov PyVal)
  | [] => .error (.valueError "missing-field")
  | (k, v) :: rest => if k = key then covFromDict v else covFromKey key rest
/-- `right_data`: a nested kernel state, or a scalar through `deserialize`. -/
def covRightFromKey : List (String × PyVal) → PyM (Sum (Cov PyVal) PyVal)
  | [] => .error (.valueError "missing-field")
  | (k, v) :: rest =>
    if k = "right_data" then
      if isKernelState v then (covFromDict v).map Sum.inl
      else (refuseMalformed (deserialize v)).map Sum.inr
    else covRightFromKey rest
end

def Cov.mapP {α β : Type} (f : α → β) : Cov α → Cov β
  | .matern32 ls ad => .matern32 (f ls) ad
  | .matern52 ls ad => .matern52 (f ls) ad
  | .expquad ls ad => .expquad (f ls) ad
  | .exponential ls ad => .exponential (f ls) ad
  | .ratquad a ls ad => .ratquad (f a) (f ls) ad
  | .linear ls ad => .linear (f ls) ad
  | .add l r ad => .add (l.mapP f) (r.mapP f) ad
  | .addC l c ad => .addC (l.mapP f) (f c) ad
  | .mul l r ad => .mul (l.mapP f) (r.mapP f) ad
  | .mulC l c ad => .mulC (l.mapP f) (f c) ad
  | .pow l p ad => .pow (l.mapP f) (f p) ad

/-- Every parameter of the expression is a well-formed value. -/
def Cov.paramsWF (f : UInt64 → UInt64) : Cov PyVal → Bool
  | .matern32 ls _ | .matern52 ls _ | .expquad ls _ | .exponential ls _ | .linear ls _ => ls.WF f
  | .ratquad a ls _ => a.WF f && ls.WF f
  | .add l r _ | .mul l r _ => l.paramsWF f && r.paramsWF f
  | .addC l c _ | .mulC l c _ | .pow l c _ => l.paramsWF f && c.WF f

/-- `Covariance.from_json(c.to_json())`, for any codec meeting the contract. -/
def covRoundTripJsonWith {Text : Type} (C : JsonCodec Text) (m : Meta) (c : Cov PyVal) : PyM (Cov PyVal) :=
  match jsonPass C (covToDict m c) with
  | .ok w => covFromDict w
  | .error e => .error e

def covRoundTripJson (m : Meta) (c : Cov PyVal) : PyM (Cov PyVal) := covRoundTripJsonWith idCodec m c

/-- Kernel expressions whose parameters are Python floats given by their bits. -/
def covOfBits (c : Cov UInt64) : Cov PyVal := c.mapP PyVal.float

/-- `Covariance.from_dict(c.to_dict())`. -/
def covRoundTripDict (m : Meta) (c : Cov PyVal) : PyM (Cov PyVal) := covFromDict (covToDict m c)

end Mellon
