/-
  MellonModel.Validate — the validators of `mellon/validation.py`, the argument validation of
  `BaseEstimator.__init__` / `DensityEstimator.__init__`, `util.ensure_2d`, the feature-count check
  of `Predictor.mean/covariance/mean_covariance/uncertainty`, and `util.mle`.

  The logic has no rounding, so it is modelled over exact data:
  * `XF`      extended floats  (finite rational | +inf | -inf | NaN) with the IEEE comparisons;
  * `PyVal`   a syntax of Python values with CPython's `isinstance` / `float()` / `int()` coercion rules
              and `jax.numpy.asarray(·, dtype=float)` transcribed;
  * `Outcome` value | ValueError | TypeError | internal error (any other exception class).

  Core Lean only; everything is executable (driver: MellonDriver/Validate.lean).
-/
import MellonModel.Scalar
namespace Mellon.Validate

/-! ## extended floats -/

/-- A float64 value: a finite (dyadic) rational, ±∞ or NaN.  `-0.0` and `0.0` are both `fin 0`
    (no modelled decision depends on the sign of zero). -/
inductive XF where
  | fin (q : Rat)
  | pinf
  | ninf
  | nan
  deriving DecidableEq, Repr, Inhabited

namespace XF
def isNan : XF → Bool
  | nan => true
  | _ => false

def isInf : XF → Bool
  | pinf => true
  | ninf => true
  | _ => false

/-- IEEE `x <= 0` (false for NaN). -/
def le0 : XF → Bool
  | fin q => decide (q ≤ 0)
  | ninf => true
  | _ => false

/-- IEEE `x < 0` (false for NaN). -/
def lt0 : XF → Bool
  | fin q => decide (q < 0)
  | ninf => true
  | _ => false

/-- IEEE `x < y` (false when either side is NaN). -/
def lt : XF → XF → Bool
  | fin a, fin b => decide (a < b)
  | fin _, pinf => true
  | ninf, fin _ => true
  | ninf, pinf => true
  | _, _ => false

/-- finite and strictly positive: what a nearest-neighbour distance must be. -/
def finPos : XF → Bool
  | fin q => decide (0 < q)
  | _ => false

/-- positive, possibly `+inf` (what `validate_positive_float` lets through). -/
def pos : XF → Bool
  | fin q => decide (0 < q)
  | pinf => true
  | _ => false

def ofInt (i : Int) : XF := fin (i : Rat)
def ofBool (b : Bool) : XF := fin (if b then 1 else 0)
end XF

/-! ## outcomes -/

inductive Outcome (α : Type) where
  | ok (v : α)
  | valueError
  | typeError
  /-- any exception class other than ValueError / TypeError (OverflowError, AttributeError, …) -/
  | internal
  deriving DecidableEq, Repr

namespace Outcome
def isOk {α} : Outcome α → Bool
  | ok _ => true
  | _ => false

def isValueError {α} : Outcome α → Bool
  | valueError => true
  | _ => false

def isInternal {α} : Outcome α → Bool
  | internal => true
  | _ => false

/-- documented refusal: ValueError or TypeError -/
def isRefusal {α} : Outcome α → Bool
  | valueError => true
  | typeError => true
  | _ => false

def bind {α β} (o : Outcome α) (f : α → Outcome β) : Outcome β :=
  match o with
  | ok v => f v
  | valueError => valueError
  | typeError => typeError
  | internal => internal

def map {α β} (f : α → β) (o : Outcome α) : Outcome β := o.bind fun v => ok (f v)

instance : Monad Outcome where
  pure := ok
  bind := bind
end Outcome
open Outcome

/-! ## nearest-neighbour distance sanitation (`validate_nn_distances`) -/

/-- `isnan(x) | isinf(x) | x <= 0` -/
def nnBad (x : XF) : Bool := x.isNan || x.isInf || x.le0

/-- The minimum of the valid entries (`jax.numpy.min`, formerly Python's builtin `min`; both return the same
    value on finite positive numbers).  Written as the left fold "replace on `item < current`". -/
def minXF (m : XF) : List XF → XF
  | [] => m
  | x :: xs => minXF (if x.lt m then x else m) xs

/-- `validate_nn_distances` on the flat data of the array (the shape is carried through unchanged).
    `none` = Python `None`. -/
def validateNN (d : Option (List XF)) (optional : Bool) : Outcome (Option (List XF)) :=
  match d with
  | none => if optional then ok none else valueError
  | some xs =>
    if xs.all nnBad then valueError
    else
      match xs.filter (fun x => !nnBad x) with
      | [] => valueError
      | v :: vs =>
        let m := minXF v vs
        ok (some (xs.map fun x => if nnBad x then m else x))

/-! ## Python values -/

inductive Lib where
  | np
  | jax
  deriving DecidableEq, Repr

/-- How a NumPy / JAX *integer scalar* is packaged (`validation._is_integer_scalar`: `dtype.kind in "iu"`
    and `ndim == 0`): an instance of `numpy.integer` (`numpy.int64(5)`, `numpy.uint8(3)`: not an
    `Iterable`), or a 0-d integer array of NumPy / JAX (an `Iterable`, as every ndarray is). -/
inductive IntForm where
  | npScalar
  | arr0 (lib : Lib)
  deriving DecidableEq, Repr

/-- The value grammar of the property: None, bool, int, float (incl. NaN/±inf), str (text and the
    result of CPython's `float(text)`: `none` = it raises ValueError), NumPy / JAX integer scalars
    (`npint`: any integer dtype, `i` is the exact value — |i| < 2^64 for the dtypes that exist, which no
    definition relies on), numpy / jax ndarrays (`arr`: shape and row-major data after conversion to
    float; the dtype is immaterial for them — every validator converts with `float()` /
    `asarray(·, dtype=float)` — EXCEPT for 0-d arrays of an integer dtype, which are `npint`, never `arr`),
    scipy sparse matrices, lists (tuples behave alike), members of the `GaussianProcessType` enum, and
    any other non-iterable object. -/
inductive PyVal where
  | none
  | bool (b : Bool)
  | int (i : Int)
  | float (x : XF)
  | str (s : String) (num : Option XF)
  | npint (form : IntForm) (i : Int)
  | arr (lib : Lib) (shape : List Nat) (data : List XF)
  | sparse (rows cols : Nat) (data : List XF)
  | list (xs : List PyVal)
  | enum (tag : String)
  | obj
  deriving Repr, Inhabited

/-- smallest |int| for which CPython's `float(int)` raises OverflowError (2^1024 − 2^970). -/
def floatOverflowBound : Int := 2 ^ 1024 - 2 ^ 970

/-- Round-half-even of a natural number to 53 significant bits: CPython's correctly rounded
    `int → double` conversion. -/
def roundNat53 (n : Nat) : Nat :=
  let l := n.log2
  if l ≤ 52 then n
  else
    let sh := l - 52
    let q := n / 2 ^ sh
    let r := n % 2 ^ sh
    let half := 2 ^ (sh - 1)
    let q' := if half < r ∨ (r = half ∧ q % 2 = 1) then q + 1 else q
    q' * 2 ^ sh

/-- `float(i)`: the nearest double, OverflowError beyond the double range. -/
def intToFloat (i : Int) : Outcome XF :=
  if i.natAbs < floatOverflowBound.toNat then
    ok (XF.ofInt (if i < 0 then -(roundNat53 i.natAbs : Int) else (roundNat53 i.natAbs : Int)))
  else internal

/-- `isinstance(v, (float, int))`  (bool is an int; numpy.float64 is a float) -/
def PyVal.isFloatOrInt : PyVal → Bool
  | .bool _ => true
  | .int _ => true
  | .float _ => true
  | _ => false

/-- `isinstance(v, int)` -/
def PyVal.isInt : PyVal → Bool
  | .bool _ => true
  | .int _ => true
  | _ => false

/-- CPython / numpy 2 / jax `float(v)`: TypeError for None, containers, arrays that are not 0-d and
    arbitrary objects; ValueError for a non-numeric string; OverflowError for a huge int.  The integer
    dtypes convert like C (`(double) i`, round to nearest even): the same function as for a Python int. -/
def pyFloat : PyVal → Outcome XF
  | .none => typeError
  | .bool b => ok (XF.ofBool b)
  | .int i => intToFloat i
  | .float x => ok x
  | .str _ (some x) => ok x
  | .str _ Option.none => valueError
  | .npint _ i => intToFloat i
  | .arr _ [] [x] => ok x
  | .arr _ _ _ => typeError
  | .sparse _ _ _ => typeError
  | .list _ => typeError
  | .enum _ => typeError
  | .obj => typeError

/-- `validation._isnan_scalar(v)` for a Python scalar `v` that is a float or an int: `jnp.isnan` parses an
    int as int64 (x64 mode) and raises OverflowError outside [-2^63, 2^63), which is caught and re-raised
    as ValueError.  (Never called on anything else: the last line is unreachable.) -/
def isnanScalar : PyVal → Outcome Bool
  | .bool _ => ok false
  | .int i => if -(2 ^ 63 : Int) ≤ i ∧ i < (2 ^ 63 : Int) then ok false else valueError
  | .float x => ok x.isNan
  | _ => internal

/-- `try: float(v)  except (TypeError, OverflowError): raise ValueError(...)` — a ValueError raised by
    `float` itself (non-numeric string) propagates as the ValueError it is. -/
def floatCatch (v : PyVal) : Outcome XF :=
  match pyFloat v with
  | ok x => ok x
  | _ => valueError

/-- `try: asarray(v, dtype=float)  except OverflowError: raise ValueError(...)` -/
def catchOverflow {α : Type} : Outcome α → Outcome α
  | internal => valueError
  | o => o

/-! ### scalar validators -/

/-- `validate_float_or_int(value, name, optional)`:
    ```
    if not isinstance(value, (float, int)):
        try:    value = int(value) if _is_integer_scalar(value) else float(value)
        except (TypeError, OverflowError): raise ValueError
    if _isnan_scalar(value): raise ValueError
    return value
    ```
    A NumPy / JAX integer scalar stays an integer: `int(value)` is exact and cannot fail, and the Python
    int it yields then passes `_isnan_scalar` like any Python int (int64 range check; only a `uint64`
    above 2^63 − 1 can fall outside). -/
def validateFloatOrInt (v : PyVal) (optional : Bool) : Outcome PyVal :=
  match v, optional with
  | .none, true => ok .none
  | _, _ =>
    if v.isFloatOrInt then
      (isnanScalar v).bind fun b => if b then valueError else ok v
    else
      match v with
      | .npint _ i => (isnanScalar (.int i)).bind fun b => if b then valueError else ok (.int i)
      | _ => (floatCatch v).bind fun x => if x.isNan then valueError else ok (.float x)

/-- `validate_positive_float(value, name, optional, allow_inf)` -/
def validatePositiveFloat (v : PyVal) (optional : Bool) (allowInf : Bool := false) : Outcome PyVal :=
  match v, optional with
  | .none, true => ok .none
  | _, _ =>
    (floatCatch v).bind fun x =>
      if x.le0 then valueError else if x.isNan then valueError
      else if x.isInf && !allowInf then valueError else ok (.float x)

/-- `squeeze` of a one-element jax array (numpy arrays are not instances of `jax.numpy.ndarray`); a 0-d
    jax integer array is its own squeeze. -/
def squeezeJax1 : PyVal → PyVal
  | .arr .jax _ [x] => .arr .jax [] [x]
  | v => v

/-- `if isinf(value) and not allow_inf: raise ValueError` — the last test of `validate_float` (an int or
    bool is never infinite; `None` only arrives here when it was optional). -/
def infCheck (allowInf : Bool) (v : PyVal) : Outcome PyVal :=
  match v with
  | .float x => if x.isInf && !allowInf then valueError else ok v
  | _ => ok v

/-- `validate_float` up to and including its NaN test (the whole validator before the fix that made it
    refuse ±inf) — converts with `float()` only: a NumPy / JAX integer scalar comes back as a float here. -/
def validateFloatNan (v : PyVal) (optional : Bool) : Outcome PyVal :=
  match v with
  | .none => if optional then ok .none else valueError
  | _ =>
    let v := squeezeJax1 v
    if v.isFloatOrInt then
      (isnanScalar v).bind fun b => if b then valueError else ok v
    else
      (floatCatch v).bind fun x => if x.isNan then valueError else ok (.float x)

/-- `validate_float(value, name, optional, allow_inf=False)`: the NaN test is followed by
    `if isinf(value) and not allow_inf: raise ValueError` (mu, mu_dim, mu_dens: a FINITE float is required;
    only `derivatives.derivative` asks for `allow_inf=True`, for an evaluation point). -/
def validateFloat (v : PyVal) (optional : Bool) (allowInf : Bool := false) : Outcome PyVal :=
  (validateFloatNan v optional).bind (infCheck allowInf)

/-- `validate_positive_int(value, name, optional)` — note `value < 0`: zero is accepted. -/
def validatePositiveInt (v : PyVal) (optional : Bool) : Outcome PyVal :=
  match v, optional with
  | .none, true => ok .none
  | .bool b, _ => ok (.bool b)
  | .int i, _ => if i < 0 then valueError else ok (.int i)
  | _, _ => valueError

/-- `DimensionalityEstimator.__init__`: `self.k = validate_positive_int(k, "k")` followed by
    `if self.k < 1: raise ValueError` (`False < 1`, `True` is 1). -/
def validateK (v : PyVal) : Outcome PyVal :=
  (validatePositiveInt v false).bind fun r =>
    match r with
    | .int i => if i < 1 then valueError else ok r
    | .bool b => if b then ok r else valueError
    | _ => ok r

/-- `validate_bool(value, name, optional)` -/
def validateBool (v : PyVal) (optional : Bool) : Outcome PyVal :=
  match v with
  | .none => if optional then ok .none else typeError
  | .bool b => ok (.bool b)
  | _ => typeError

/-- `validate_string(value, name, choices)` (`if choices and value not in choices`) -/
def validateString (v : PyVal) (choices : List String) : Outcome PyVal :=
  match v with
  | .str s n => if !choices.isEmpty && !choices.contains s then valueError else ok (.str s n)
  | _ => typeError

/-! ### `jax.numpy.asarray(v, dtype=float)` -/

abbrev Arr := List Nat × List XF

mutual
/-- `None` anywhere in a nested list (jax refuses it before anything else). -/
def PyVal.hasNone : PyVal → Bool
  | .none => true
  | .list xs => hasNoneList xs
  | _ => false
def hasNoneList : List PyVal → Bool
  | [] => false
  | x :: xs => x.hasNone || hasNoneList xs
end

/-- stack equally shaped blocks along a new leading axis (ValueError when inhomogeneous). -/
def stack (rs : List Arr) : Outcome Arr :=
  match rs with
  | [] => ok ([0], [])
  | r :: rest =>
    if rest.all (fun r' => r'.1 == r.1) then
      ok (rs.length :: r.1, (rs.map (·.2)).flatten)
    else valueError

mutual
def toArrCore : PyVal → Outcome Arr
  | .none => valueError
  | .bool b => ok ([], [XF.ofBool b])
  | .int i => (intToFloat i).bind fun x => ok ([], [x])
  | .float x => ok ([], [x])
  | .str _ (some x) => ok ([], [x])
  | .str _ Option.none => valueError
  | .npint _ i => (intToFloat i).bind fun x => ok ([], [x])
  | .arr _ shape data => ok (shape, data)
  | .sparse _ _ _ => valueError      -- numpy sees a sequence of sparse rows
  | .list xs => (toArrList xs).bind stack
  | .enum _ => typeError
  | .obj => typeError
def toArrList : List PyVal → Outcome (List Arr)
  | [] => ok []
  | x :: xs => (toArrCore x).bind fun r => (toArrList xs).bind fun rs => ok (r :: rs)
end

def toArr (v : PyVal) : Outcome Arr :=
  if v.hasNone then valueError else toArrCore v

/-- `isinstance(v, Iterable)` -/
def PyVal.isIterable : PyVal → Bool
  | .str _ _ => true
  | .npint (.arr0 _) _ => true      -- ndarray / jax.Array define `__iter__`; `numpy.integer` does not
  | .arr _ _ _ => true
  | .sparse _ _ _ => true
  | .list _ => true
  | _ => false

def arrVal (a : Arr) : PyVal := .arr .jax a.1 a.2

/-- `validate_float_or_iterable_numerical(value, name, optional, positive, allow_inf=False)`: NaN is refused,
    an infinite value is refused unless `allow_inf` (`d`: finite; `sigma`: `allow_inf=True`), then the sign
    test of `positive`. -/
def validateFloatOrIterable (v : PyVal) (optional positive : Bool) (allowInf : Bool := false) : Outcome PyVal :=
  match v, optional with
  | .none, true => ok .none
  | _, _ =>
    if v.isFloatOrInt then
      (catchOverflow (pyFloat v)).bind fun x =>
        if x.isNan then valueError
        else if x.isInf && !allowInf then valueError
        else if positive && x.lt0 then valueError else ok (.float x)
    else
      match v with
      | .str _ _ => typeError
      | _ =>
        if v.isIterable then
          (catchOverflow (toArr v)).bind fun a =>
            if a.2.any XF.isNan then valueError
            else if !allowInf && a.2.any XF.isInf then valueError
            else if positive && a.2.any XF.lt0 then valueError else ok (arrVal a)
        else typeError

/-- `validate_array(iterable, name, optional, ndim)`; `ndim = none` means no dimension check. -/
def validateArray (v : PyVal) (optional : Bool) (ndim : Option (List Nat)) : Outcome PyVal :=
  match v with
  | .none => if optional then ok .none else typeError
  | _ =>
    let conv : Outcome Arr :=
      match v with
      | .sparse r c data => ok ([r, c], data)     -- `.todense()`
      | _ => if v.isIterable then catchOverflow (toArr v) else typeError
    conv.bind fun a =>
      match ndim with
      | Option.none => ok (arrVal a)
      | some ds => if ds.contains a.1.length then ok (arrVal a) else valueError

/-- `validate_1d(x)` -/
def validate1d (v : PyVal) : Outcome PyVal :=
  (catchOverflow (toArr v)).bind fun a =>
    match a.1 with
    | [] => ok (.arr .jax [1] a.2)
    | [_] => ok (arrVal a)
    | _ => valueError

/-! ### `util.ensure_2d` and the feature-count check of the predictors -/

/-- shape of `atleast_2d(X.T).T` -/
def ensure2d : List Nat → List Nat
  | [] => [1, 1]
  | [n] => [n, 1]
  | s => s

def arrShape : PyVal → List Nat
  | .arr _ shape _ => shape
  | _ => []

/-- `x = ensure_2d(x)` followed by `if x.shape[1] != self.n_input_features: raise ValueError`. -/
def featureCheck (shape : List Nat) (nFeatures : Nat) : Outcome (List Nat) :=
  if (ensure2d shape).getD 1 0 != nFeatures then valueError else ok (ensure2d shape)

/-- The part of `Predictor.mean(x, normalize)` before `_mean`: `validate_array`, `ensure_2d`,
    `validate_bool(normalize)`, the feature-count check, and the `n_obs` check of the normalisation.
    Returns the shape handed to `_mean`. -/
def predictorMeanInput (x normalize : PyVal) (nFeatures : Nat) (nObsMissing : Bool) : Outcome (List Nat) :=
  (validateArray x false Option.none).bind fun xv =>
    (validateBool normalize false).bind fun nb =>
      (featureCheck (arrShape xv) nFeatures).bind fun s =>
        match nb with
        | .bool true => if nObsMissing then valueError else ok s
        | _ => ok s

/-- The same for `covariance / mean_covariance / uncertainty` (no `normalize`). -/
def predictorCovInput (x : PyVal) (nFeatures : Nat) : Outcome (List Nat) :=
  (validateArray x false Option.none).bind fun xv => featureCheck (arrShape xv) nFeatures

/-! ### `validate_normalize_per_time_point` (the time-point normalisation target) -/

/-- What `validate_normalize_per_time_point` distinguishes in a value: `None`, a Python bool, a NumPy / JAX
    boolean scalar (`numpy.bool_`, 0-d array of dtype bool: `ndim == 0` and `dtype.kind == "b"`), a dict, a
    str, a sized container that is no str (list, tuple, array with `ndim >= 1`; `len` = number of entries), and
    every other scalar (Python int / float, NumPy scalar or 0-d array of a non-bool dtype, arbitrary object
    without `__len__`). -/
inductive NormVal where
  | none
  | bool (b : Bool)
  | npbool (b : Bool)
  | dict
  | str
  | sized (len : Nat)
  | scalar
  deriving DecidableEq, Repr

/-- ```
    if value is None or isinstance(value, (bool, dict)): return value
    if getattr(value, "ndim", None) == 0:
        if value.dtype.kind == "b": return bool(value)
    elif hasattr(value, "__len__") and not isinstance(value, str): return value
    raise TypeError
    ``` -/
def validateNormalize : NormVal → Outcome NormVal
  | .none => ok .none
  | .bool b => ok (.bool b)
  | .dict => ok .dict
  | .npbool b => ok (.bool b)
  | .sized n => ok (.sized n)
  | .str => typeError
  | .scalar => typeError

/-! ### the k-NN distance matrix of the `DimensionalityEstimator` -/

/-- `DimensionalityEstimator._compute_distances` / `__init__`: the `(n, k)` matrix goes through
    `validate_nn_distances` as a whole — the same function `validateNN` on the row-major flattening (every
    test in it is element-wise or a reduction over all entries); rows are rebuilt with the old lengths. -/
def sanitiseDistances (rows : List (List XF)) : Outcome (List XF) :=
  (validateNN (some rows.flatten) false).bind fun r =>
    match r with
    | some ys => ok ys
    | Option.none => internal

/-! ### `GaussianProcessType.from_string` -/

def gpTypeNames : List String := ["full", "full_nystroem", "sparse_cholesky", "sparse_nystroem", "fixed"]

def isInfixChars (p s : List Char) : Bool :=
  match s with
  | [] => p.isEmpty
  | c :: cs => p.isPrefixOf (c :: cs) || isInfixChars p cs

/-- ASCII `str.lower()` followed by `.replace(" ", "_")`. -/
def normalizeGp (s : String) : String :=
  String.ofList (s.toList.map fun c => if c == ' ' then '_' else c.toLower)

/-- `GaussianProcessType.from_string(s, optional=True)`; the result is the enum member's value. -/
def gpFromString (v : PyVal) : Outcome PyVal :=
  match v with
  | .none => ok .none
  | .enum t => ok (.enum t)
  | .str s _ =>
    let t := normalizeGp s
    match gpTypeNames.find? (· == t) with
    | some g => ok (.enum g)
    | Option.none =>
      match gpTypeNames.find? (fun g => isInfixChars t.toList g.toList) with
      | some g => ok (.enum g)
      | Option.none => valueError
  | _ => valueError        -- neither None, nor a member, nor a str

/-! ### `BaseEstimator.__init__` / `DensityEstimator.__init__` argument validation -/

/-- The validated constructor arguments (covariance-function arguments stay at their defaults). -/
structure CtorArgs where
  nLandmarks : PyVal := .none
  rank : PyVal := .none
  jitter : PyVal := .float (.fin (1 / 1000000))
  landmarks : PyVal := .none
  gpType : PyVal := .none
  nnDistances : PyVal := .none
  mu : PyVal := .int 0
  ls : PyVal := .none
  lsFactor : PyVal := .int 1
  lp : PyVal := .none
  l : PyVal := .none
  d : PyVal := .none
  initialValue : PyVal := .none
  optimizer : PyVal := .str "L-BFGS-B" Option.none
  nIter : PyVal := .int 100
  initLearnRate : PyVal := .int 1
  predictorWithUncertainty : PyVal := .bool false
  jit : PyVal := .bool false
  checkRank : PyVal := .none
  dMethod : PyVal := .str "embedding" Option.none
  deriving Repr

def optimizerChoices : List String := ["adam", "advi", "L-BFGS-B"]
def dMethodChoices : List String := ["fractal", "embedding"]

/-- `validate_array` followed by `validate_nn_distances` (base_model.py L93-94). -/
def ctorNN (v : PyVal) : Outcome PyVal :=
  (validateArray v true Option.none).bind fun a =>
    match a with
    | .none => ok .none
    | .arr lib shape data =>
      (validateNN (some data) true).bind fun r =>
        match r with
        | some data' => ok (.arr lib shape data')
        | Option.none => internal
    | _ => internal

/-- The validators of `BaseEstimator.__init__` in source order, then `d_method`
    (`DensityEstimator.__init__`); the first refusal wins. -/
def densityCtor (a : CtorArgs) : Outcome CtorArgs := do
  let nLandmarks ← validatePositiveInt a.nLandmarks true
  let rank ← validateFloatOrInt a.rank true
  let jitter ← validatePositiveFloat a.jitter false false
  let landmarks ← validateArray a.landmarks true Option.none
  let gpType ← gpFromString a.gpType
  let nnDistances ← ctorNN a.nnDistances
  let mu ← validateFloat a.mu true
  -- ls / ls_factor: `allow_inf=True` (the constant-kernel limit is a legal length scale)
  let ls ← validatePositiveFloat a.ls true true
  let lsFactor ← validatePositiveFloat a.lsFactor false true
  let lp ← validateArray a.lp true Option.none
  let l ← validateArray a.l true Option.none
  let d ← validateFloatOrIterable a.d true true
  let initialValue ← validateArray a.initialValue true Option.none
  let optimizer ← validateString a.optimizer optimizerChoices
  let nIter ← validatePositiveInt a.nIter false
  let initLearnRate ← validatePositiveFloat a.initLearnRate false false
  let pwu ← validateBool a.predictorWithUncertainty false
  let jit ← validateBool a.jit false
  let checkRank ← validateBool a.checkRank true
  let dMethod ← validateString a.dMethod dMethodChoices
  return { nLandmarks, rank, jitter, landmarks, gpType, nnDistances, mu, ls, lsFactor, lp, l, d,
           initialValue, optimizer, nIter, initLearnRate, predictorWithUncertainty := pwu, jit,
           checkRank, dMethod }

end Mellon.Validate

/-! ## `util.mle` (polymorphic scalar: runs at Float, theorems at ℝ) -/
namespace Mellon.Validate
open Mellon

section
variable {α : Type} [Add α] [Sub α] [Mul α] [Div α] [OfNat α 1] [OfScientific α] [Transc α]

/-- `gammaln(d / 2 + 1) - (d / 2) * log(pi) - d * log(nn_distances)` -/
def mle (r d : α) : α :=
  lgamma (d / 2.0 + 1) - (d / 2.0) * log Transc.pi - d * log r

end
end Mellon.Validate
