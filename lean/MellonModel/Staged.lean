/-
  MellonModel.Staged — the staged / cached estimator API of `base_model.py`, `density_estimator.py`,
  `time_sensitive_density_estimator.py`, `dimensionality_estimator.py` as a state machine.

  * The cacheable attributes are filled by `_prepare_attribute` (compute-if-None) in the fixed order of
    `prepare_inference`; each `_compute_<attr>` is an UNINTERPRETED function `F attr` of the bound data
    and of the attributes it reads (`Pipeline.reads`, transcribed from the `_compute_*` methods — the
    model hands `F` only that restricted view, so "F_mu nn d" is literal).  A compute function may
    return `None` (`compute_landmarks` for a full GP, `compute_Lp` for the Nyström types).
  * `run_inference` / `process_inference` / the predictor construction always recompute
    (`opt`, `post`, `cond` — uninterpreted as well).
  * Data identity is a token: `set_x` stores `validate_array(x)` (the very same object for a float64
    jax array, a fresh jax array otherwise) and every later call compares with `is`.
  * Every operation returns an outcome (ok | ValueError | any other exception, e.g. the TypeError /
    AttributeError raised when `run_inference` precedes `prepare_inference`) and the new state.

  Core Lean only; executable (the driver instantiates the value type by first-order terms).
-/
namespace Mellon.Staged

/-- A Python object holding a data set. -/
structure Tok where
  /-- object identity (`is`) -/
  id : Nat
  /-- a float64 jax array: `validate_array` returns the very same object -/
  jax : Bool
  /-- which data set it holds -/
  content : Nat
  deriving DecidableEq, Repr

inductive Outcome where
  | ok
  | valueError
  /-- any other exception class (TypeError / AttributeError on a `None` attribute, …) -/
  | error
  deriving DecidableEq, Repr

/-- Stage order and data flow of one estimator class. -/
structure Pipeline (Attr : Type) where
  /-- the `_prepare_attribute` calls of `prepare_inference`, in source order -/
  order : List Attr
  /-- the estimator attributes `_compute_<attr>` reads (besides `x` and never-cached constructor scalars) -/
  reads : Attr → List Attr
  /-- attributes `_run_inference` needs (loss_func, initial_value) -/
  optReads : List Attr
  /-- attributes `_set_log_density_x` needs (transform) -/
  postReads : List Attr
  /-- attributes the predictor construction needs to be set (mu, cov_func, L) -/
  condReq : List Attr
  /-- attributes the predictor construction reads (condReq and landmarks, Lp which may be None) -/
  condReads : List Attr

/-- The uninterpreted computations. -/
structure Funs (Attr V : Type) where
  /-- `_compute_<attr>`: data set → attributes read → value (or None) -/
  F : Attr → Nat → (Attr → Option V) → Option V
  /-- the optimiser applied to (loss_func, initial_value, …) -/
  opt : (Attr → Option V) → V
  /-- `compute_log_density_x(pre_transformation, transform)` -/
  post : (Attr → Option V) → V → V
  /-- does `compute_conditional` read the fitted values `y` for this configuration -/
  condNeedsY : (Attr → Option V) → Bool
  /-- `compute_conditional(x, landmarks, pre_transformation, …, y, mu, cov_func, L, Lp, …)` -/
  cond : Nat → (Attr → Option V) → V → Option V → V

abbrev Cache (Attr V : Type) := Attr → Option V

structure State (Attr V : Type) where
  x : Option Tok
  cache : Cache Attr V
  pre : Option V
  fitted : Option V
  predictor : Option V
  /-- allocation counter for fresh objects -/
  nextId : Nat

inductive Op where
  | setX (a : Option Tok)
  | prepare (a : Option Tok)
  | run
  | process (build : Bool)
  | fit (a : Option Tok) (build : Bool)
  | predict
  | fitPredict (a : Option Tok) (build : Bool)
  deriving DecidableEq, Repr

section
variable {Attr V : Type} [DecidableEq Attr]

/-- what a computation that reads `rs` sees of the cache -/
def view (rs : List Attr) (c : Cache Attr V) : Cache Attr V := fun b => if b ∈ rs then c b else none

/-- keep a value that is there, otherwise take the computed one -/
def orCompute (o : Option V) (f : Option V) : Option V :=
  match o with
  | some v => some v
  | none => f

/-- `_prepare_attribute(a)`: compute-if-None. -/
def stepAttr (P : Pipeline Attr) (Fn : Funs Attr V) (d : Nat) (a : Attr) (c : Cache Attr V) : Cache Attr V :=
  fun b => if b = a then orCompute (c a) (Fn.F a d (view (P.reads a) c)) else c b

def prepL (P : Pipeline Attr) (Fn : Funs Attr V) (d : Nat) : List Attr → Cache Attr V → Cache Attr V
  | [], c => c
  | a :: as, c => prepL P Fn d as (stepAttr P Fn d a c)

/-- all `_prepare_attribute` calls of `prepare_inference` -/
def prepAll (P : Pipeline Attr) (Fn : Funs Attr V) (d : Nat) (c : Cache Attr V) : Cache Attr V :=
  prepL P Fn d P.order c

/-- hand the values `R` of a fitted model for the attributes in `S` to a fresh estimator whose constructor
    arguments are `c` (an argument that is given stays) -/
def seed (S : List Attr) (c R : Cache Attr V) : Cache Attr V :=
  fun b => if b ∈ S then orCompute (c b) (R b) else c b

def allSet (rs : List Attr) (c : Cache Attr V) : Bool := rs.all fun a => (c a).isSome

/-- `validate_array(x)` at the level of identities. -/
def canon (s : State Attr V) (t : Tok) : Tok × Nat :=
  if t.jax then (t, s.nextId) else ({ id := s.nextId, jax := true, content := t.content }, s.nextId + 1)

/-- `self.x = validate_array(x)` on an estimator that is not bound yet. -/
def bindX (s : State Attr V) (t : Tok) : State Attr V :=
  let r := canon s t
  { s with x := some r.1, nextId := r.2 }

/-- `set_x(x)` -/
def doSetX (s : State Attr V) (a : Option Tok) : Outcome × State Attr V :=
  match s.x, a with
  | some b, some t => if b.id = t.id then (.ok, s) else (.valueError, s)
  | none, none => (.valueError, s)
  | some _, none => (.ok, s)
  | none, some t => (.ok, bindX s t)

/-- `prepare_inference(x)` -/
def doPrepare (P : Pipeline Attr) (Fn : Funs Attr V) (s : State Attr V) (a : Option Tok) :
    Outcome × State Attr V :=
  match doSetX s a with
  | (.ok, s1) =>
    match s1.x with
    | some b => (.ok, { s1 with cache := prepAll P Fn b.content s1.cache })
    | none => (.error, s1)
  | r => r

/-- `run_inference()` -/
def doRun (P : Pipeline Attr) (Fn : Funs Attr V) (s : State Attr V) : Outcome × State Attr V :=
  if allSet P.optReads s.cache then (.ok, { s with pre := some (Fn.opt (view P.optReads s.cache)) })
  else (.error, s)

/-- `_set_log_density_func()` -/
def buildPredictor (P : Pipeline Attr) (Fn : Funs Attr V) (s : State Attr V) : Outcome × State Attr V :=
  match s.x, s.pre with
  | some b, some p =>
    let cv := view P.condReads s.cache
    if allSet P.condReq s.cache && (!Fn.condNeedsY cv || s.fitted.isSome) then
      (.ok, { s with predictor := some (Fn.cond b.content cv p (if Fn.condNeedsY cv then s.fitted else none)) })
    else (.error, s)
  | _, _ => (.error, s)

/-- `process_inference(build_predict=…)` -/
def doProcess (P : Pipeline Attr) (Fn : Funs Attr V) (s : State Attr V) (build : Bool) :
    Outcome × State Attr V :=
  match s.pre with
  | some p =>
    if allSet P.postReads s.cache then
      let s1 := { s with fitted := some (Fn.post (view P.postReads s.cache) p) }
      -- without `build_predict` a predictor of an earlier latent state is dropped (rebuilt lazily on access)
      if build then buildPredictor P Fn s1 else (.ok, { s1 with predictor := none })
    else (.error, s)
  | none => (.error, s)

/-- `fit(x, build_predict)` = prepare_inference; run_inference; process_inference -/
def doFit (P : Pipeline Attr) (Fn : Funs Attr V) (s : State Attr V) (a : Option Tok) (build : Bool) :
    Outcome × State Attr V :=
  match doPrepare P Fn s a with
  | (.ok, s1) =>
    match doRun P Fn s1 with
    | (.ok, s2) => doProcess P Fn s2 build
    | r => r
  | r => r

/-- the lazy `predict` property -/
def doPredict (P : Pipeline Attr) (Fn : Funs Attr V) (s : State Attr V) : Outcome × State Attr V :=
  match s.predictor with
  | some _ => (.ok, s)
  | none => buildPredictor P Fn s

/-- `fit_predict(x, build_predict)`: the rebinding guard, `validate_array(x)`, then `fit`. -/
def doFitPredict (P : Pipeline Attr) (Fn : Funs Attr V) (s : State Attr V) (a : Option Tok) (build : Bool) :
    Outcome × State Attr V :=
  match s.x, a with
  | some b, some t => if b.id = t.id then doFit P Fn s a build else (.valueError, s)
  | none, none => (.valueError, s)
  | some _, none => doFit P Fn s none build
  | none, some t =>
    let r := canon s t
    doFit P Fn { s with nextId := r.2 } (some r.1) build

def step (P : Pipeline Attr) (Fn : Funs Attr V) (s : State Attr V) : Op → Outcome × State Attr V
  | .setX a => doSetX s a
  | .prepare a => doPrepare P Fn s a
  | .run => doRun P Fn s
  | .process b => doProcess P Fn s b
  | .fit a b => doFit P Fn s a b
  | .predict => doPredict P Fn s
  | .fitPredict a b => doFitPredict P Fn s a b

/-- run a history, ignoring the outcomes (a raised exception leaves the estimator as it is then) -/
def runOps (P : Pipeline Attr) (Fn : Funs Attr V) : State Attr V → List Op → State Attr V
  | s, [] => s
  | s, op :: ops => runOps P Fn (step P Fn s op).2 ops

/-- a freshly constructed estimator: the caches hold what the constructor was given -/
def initState (init : Cache Attr V) (nextId : Nat := 0) : State Attr V :=
  { x := none, cache := init, pre := none, fitted := none, predictor := none, nextId := nextId }

end

/-! ### the three inference estimators -/

inductive Attr where
  | nLandmarks | rank | gpType | distances | nnDistances | d | mu | ls | lsTime | covFunc | landmarks | lp | l
  | initialValue | transform | lossFunc
  deriving DecidableEq, Repr

open Attr

/-- `DensityEstimator.prepare_inference` -/
def densityPipeline : Pipeline Attr where
  order := [nLandmarks, rank, gpType, nnDistances, d, mu, ls, covFunc, landmarks, lp, l, initialValue,
            transform, lossFunc]
  reads
    | nLandmarks => [gpType, landmarks]
    | rank => [gpType]
    | gpType => [nLandmarks, rank]
    | nnDistances => []
    | d => []
    | mu => [nnDistances, d]
    | ls => [nnDistances]
    | covFunc => [ls]
    | landmarks => [gpType, nLandmarks]
    | lp => [covFunc, gpType, landmarks]
    | l => [covFunc, gpType, landmarks, lp, rank]
    | initialValue => [nnDistances, d, mu, l]
    | transform => [mu, l]
    | lossFunc => [nnDistances, d, transform, initialValue]
    | _ => []
  optReads := [lossFunc, initialValue]
  postReads := [transform]
  condReq := [mu, covFunc, l]
  condReads := [landmarks, mu, covFunc, l, lp]

/-- `TimeSensitiveDensityEstimator.prepare_inference`: `d` before `nn_distances` (the per-time-point
    normalisation reads it), `ls_time`, landmarks from the rescaled data. -/
def timePipeline : Pipeline Attr where
  order := [nLandmarks, rank, gpType, d, nnDistances, mu, ls, lsTime, covFunc, landmarks, lp, l, initialValue,
            transform, lossFunc]
  reads
    | nLandmarks => [gpType, landmarks]
    | rank => [gpType]
    | gpType => [nLandmarks, rank]
    | d => []
    | nnDistances => [d]
    | mu => [nnDistances, d]
    | ls => [nnDistances]
    | lsTime => [nnDistances, d, ls, mu]
    | covFunc => [ls, lsTime]
    | landmarks => [gpType, ls, lsTime, nLandmarks]
    | lp => [covFunc, gpType, landmarks]
    | l => [covFunc, gpType, landmarks, lp, rank]
    | initialValue => [nnDistances, d, mu, l]
    | transform => [mu, l]
    | lossFunc => [nnDistances, d, transform, initialValue]
    | _ => []
  optReads := [lossFunc, initialValue]
  postReads := [transform]
  condReq := [mu, covFunc, l]
  condReads := [landmarks, mu, covFunc, l, lp]

/-- `DimensionalityEstimator.prepare_inference`: k-NN `distances` first, `mu` is `mu_dens`. -/
def dimensionalityPipeline : Pipeline Attr where
  order := [nLandmarks, rank, gpType, distances, nnDistances, d, mu, ls, covFunc, landmarks, lp, l, initialValue,
            transform, lossFunc]
  reads
    | nLandmarks => [gpType, landmarks]
    | rank => [gpType]
    | gpType => [nLandmarks, rank]
    | distances => []
    | nnDistances => [distances]
    | d => []
    | mu => [nnDistances, d]
    | ls => [nnDistances]
    | covFunc => [ls]
    | landmarks => [gpType, nLandmarks]
    | lp => [covFunc, gpType, landmarks]
    | l => [covFunc, gpType, landmarks, lp, rank]
    | initialValue => [d, nnDistances, mu, l]
    | transform => [mu, l]
    | lossFunc => [distances, transform, initialValue]
    | _ => []
  optReads := [lossFunc, initialValue]
  postReads := [transform]
  condReq := [covFunc, l]
  condReads := [landmarks, covFunc, l, lp]

/-- the nine intermediates a user can hand to a fresh estimator -/
def cacheables : List Attr := [nnDistances, d, mu, ls, covFunc, landmarks, lp, l, initialValue]

end Mellon.Staged
