/-
  MellonModel.Conditional — `mellon.conditional`: noise assembly (`_sigma_to_y_cov_factor`,
  `util.add_variance`, `util.stabilize`), `_get_L`, the three conditional families
  (`_FullConditional`, `_LandmarksConditional`, `_LandmarksConditionalCholesky`) with their
  `_mean`, `_covariance`, `_mean_covariance`, and the `Predictor` wrappers of
  `mellon.base_predictor` (normalize / logscale).
-/
import MellonModel.Linalg
import MellonModel.Kernel
namespace Mellon

variable {α : Type} [Add α] [Sub α] [Mul α] [Div α] [Neg α] [OfNat α 0] [OfNat α 1]
  [OfScientific α] [Max α] [LT α] [DecidableLT α] [Transc α]

/-- What can go wrong while building a predictor (all are `ValueError` in the implementation,
    except `internal`, which stands for `TypeError`/shape errors the code does not guard). -/
inductive CondErr where
  | noUncertaintyInput     -- "No input uncertainty specified."
  | bothSigmaAndFactor     -- "One can specify either `sigma` or `y_cov_factor` …"
  | notPosDef              -- "Covariance not positively definite with jitter=…"
  | noiseShape             -- "The input noise describes … points but there are … landmarks" (explicit factor);
                           -- "The per-cell `sigma` has … entries but there are … cells" (driver only: the type
                           -- `Sigma α n` of the landmark family cannot hold a vector of another length)
  | noCovariance           -- `_check_covariance`
  | noUncertainty          -- `_check_uncertainty`
  | internal
  deriving Repr, DecidableEq, Inhabited

/-- The `sigma` argument: `None`, a scalar or a per-observation vector. -/
inductive Sigma (α : Type) (n : Nat) where
  | none
  | scalar (s : α)
  | vec (s : Vector α n)

def Sigma.anyPos {n : Nat} : Sigma α n → Bool
  | .none => false
  | .scalar s => decide (0 < s)
  | .vec v => (List.range n).any fun i => decide (0 < v.nth i)

/-- `util.stabilize`: `A + jitter·I`. -/
def stabilize {n : Nat} (A : Mat α n n) (j : α) : Mat α n n :=
  Mat.ofFn fun i k => if i = k then A.el i k + j else A.el i k

/-- A matrix whose shape is only known at run time (noise factors: `eye(n)*sigma`, `diag(sigma)`,
    `L * std[None, :]`, `W`). -/
structure AnyMat (α : Type) where
  r : Nat
  c : Nat
  M : Mat α r c

def AnyMat.el (A : AnyMat α) (i k : Nat) : α := A.M.el i k

/-- `M Mᵀ` entry. -/
def AnyMat.gramEl (A : AnyMat α) (i k : Nat) : α := nsum A.c fun t => A.el i t * A.el k t

/-- `util.add_variance(K, M, jitter)`: `K + MMᵀ`, diagonal of `MMᵀ` floored at `jitter`;
    `M = None` is `stabilize`.  A factor with the wrong number of rows is a shape error in the
    implementation (`internal`). -/
def addVariance {n : Nat} (K : Mat α n n) (M : Option (AnyMat α)) (j : α) :
    Except CondErr (Mat α n n) :=
  match M with
  | Option.none => .ok (stabilize K j)
  | some M =>
    if M.r ≠ n then .error .internal else
    .ok (Mat.ofFn fun i k =>
      if i = k then
        let nd := M.gramEl i i
        K.el i k + nd + (if nd < j then j - nd else 0)
      else K.el i k + M.gramEl i k)

/-- `_sigma_to_y_cov_factor` for scalar / vector sigma (`eye(n)*sigma`, `diag(sigma)`). -/
def sigmaFactor {n : Nat} : Sigma α n → Option (AnyMat α)
  | .none => Option.none
  | .scalar s => some ⟨n, n, Mat.ofFn fun i k => if i = k then s else 0⟩
  | .vec v => some ⟨n, n, Mat.ofFn fun i k => if i = k then v.nth i else 0⟩

/-- `_sigma_to_y_cov_factor(sigma, None, rows)` for a sigma typed by the number of cells `n` but a factor
    requested with `rows` rows (the landmark count): a scalar gives `sigma·I_rows`, a vector always
    `diag(sigma)` (`n × n`). -/
def sigmaFactorRows {n : Nat} (rows : Nat) : Sigma α n → Option (AnyMat α)
  | .none => Option.none
  | .scalar s => some ⟨rows, rows, Mat.ofFn fun i k => if i = k then s else 0⟩
  | .vec v => some ⟨n, n, Mat.ofFn fun i k => if i = k then v.nth i else 0⟩

/-- `_sigma_to_y_cov_factor(sigma, y_cov_factor, n)`. -/
def sigmaToYCovFactor {n : Nat} (sigma : Sigma α n) (ycf : Option (AnyMat α)) :
    Except CondErr (AnyMat α) :=
  match sigma, ycf with
  | .none, Option.none => .error .noUncertaintyInput
  | s, some M => if s.anyPos then .error .bothSigmaAndFactor else .ok M
  | s, Option.none =>
    match sigmaFactor s with
    | some M => .ok M
    | Option.none => .error .noUncertaintyInput

/-- `_sigma_to_y_cov_factor(sigma, y_cov_factor, rows)` for a sigma typed by `n` and a requested size `rows`. -/
def sigmaToYCovFactorRows {n : Nat} (rows : Nat) (sigma : Sigma α n) (ycf : Option (AnyMat α)) :
    Except CondErr (AnyMat α) :=
  match sigma, ycf with
  | .none, Option.none => .error .noUncertaintyInput
  | s, some M => if s.anyPos then .error .bothSigmaAndFactor else .ok M
  | s, Option.none =>
    match sigmaFactorRows rows s with
    | some M => .ok M
    | Option.none => .error .noUncertaintyInput

/-- `_get_L(x, cov_func, jitter, y_cov_factor)`. -/
def getL {n d : Nat} (c : Cov α) (x : Mat α n d) (j : α) (F : Option (AnyMat α)) :
    Except CondErr (Mat α n n) := do
  let K' ← addVariance (gram c x x) F j
  match chol? K' with
  | some L => .ok L
  | Option.none => .error .notPosDef

/-- `solve(Lᵀ, solve(L, M))` / `solve(Lᵀ, M)` for a run-time shaped right-hand side with `n` rows. -/
def choSolveAny {n : Nat} (L : Mat α n n) (M : AnyMat α) : AnyMat α :=
  ⟨n, M.c, choSolveM L (Mat.ofFn fun i k => M.el i k)⟩

def solveUpperTAny {n : Nat} (L : Mat α n n) (M : AnyMat α) : AnyMat α :=
  ⟨n, M.c, solveUpperTM L (Mat.ofFn fun i k => M.el i k)⟩

/-- State shared by the three families: basis points `xb` (`x` or the landmarks), weights
    (`m × c`, one column per value column), and — only `with_uncertainty` — `L` and `W`. -/
structure CondState (α : Type) (m d c : Nat) where
  cov : Cov α
  xb : Mat α m d
  weights : Mat α m c
  mu : α
  jitter : α
  nObs : Nat
  L : Option (Mat α m m)
  W : Option (AnyMat α)

/-- `r = y − mu`. -/
def residual {n c : Nat} (y : Mat α n c) (mu : α) : Mat α n c := Mat.ofFn fun i k => y.el i k - mu

/-- First block of `_FullConditional.__init__` and `_LandmarksConditionalCholesky.__init__`: the
    factor `L` and what is left of `(sigma, y_cov_factor)` afterwards (`sigma = None` once it has
    been turned into a factor). -/
def condL {n d : Nat} (cov : Cov α) (x : Mat α n d) (Lgiven : Option (Mat α n n)) (sigma : Sigma α n)
    (jitter : α) (ycf : Option (AnyMat α)) (yIsMean : Bool) :
    Except CondErr (Mat α n n × Sigma α n × Option (AnyMat α)) :=
  match Lgiven with
  | some L => .ok (L, sigma, ycf)
  | Option.none =>
    if yIsMean then
      match getL cov x jitter Option.none with
      | .ok L => .ok (L, sigma, ycf)
      | .error e => .error e
    else
      match sigmaToYCovFactor sigma ycf with
      | .error e => .error e
      | .ok F =>
        match getL cov x jitter (some F) with
        | .ok L => .ok (L, Sigma.none, some F)
        | .error e => .error e

/-- `W = solve(Lᵀ, solve(L, y_cov_factor))` after the second `_sigma_to_y_cov_factor` call. -/
def fullUnc {n : Nat} (L : Mat α n n) (sigma' : Sigma α n) (ycf' : Option (AnyMat α)) :
    Except CondErr (AnyMat α) :=
  match sigmaToYCovFactor sigma' ycf' with
  | .error e => .error e
  | .ok F => if F.r ≠ n then .error .internal else .ok (choSolveAny L F)

/-- `_FullConditional.__init__`. `Lgiven` is the `L` argument (the estimators pass `Lp`). -/
def fullCondInit {n d c : Nat} (cov : Cov α) (x : Mat α n d) (y : Mat α n c) (mu : α)
    (Lgiven : Option (Mat α n n)) (sigma : Sigma α n) (jitter : α) (ycf : Option (AnyMat α))
    (yIsMean withUnc : Bool) : Except CondErr (CondState α n d c) :=
  match condL cov x Lgiven sigma jitter ycf yIsMean with
  | .error e => .error e
  | .ok (L, sigma', ycf') =>
    let weights := choSolveM L (residual y mu)
    if !withUnc then
      .ok { cov := cov, xb := x, weights := weights, mu := mu, jitter := jitter, nObs := n,
            L := Option.none, W := Option.none }
    else
      match fullUnc L sigma' ycf' with
      | .error e => .error e
      | .ok W =>
        .ok { cov := cov, xb := x, weights := weights, mu := mu, jitter := jitter, nObs := n,
              L := some L, W := some W }

/-- `A @ M` for a run-time shaped `M`; a row mismatch is a `TypeError` in the implementation. -/
def matMulAny {a b : Nat} (A : Mat α a b) (M : AnyMat α) : Except CondErr (AnyMat α) :=
  if M.r ≠ b then .error .internal
  else .ok ⟨a, M.c, Mat.ofFn fun i k => nsum b fun t => A.el i t * M.el t k⟩

/-- The per-cell branch of `_LandmarksConditional.__init__`: `not y_is_mean and y_cov_factor is None and
    sigma is not None and ndim(sigma) == 1`.  The vector is typed by the number of CELLS `n`: a vector of any
    other length is refused by the implementation ("The per-cell `sigma` has … entries but there are … cells",
    `ValueError`) and is not expressible here (the driver refuses it, `noiseShape`). -/
def lmPerCell {n : Nat} (sigma : Sigma α n) (ycf : Option (AnyMat α)) (yIsMean : Bool) : Option (Vector α n) :=
  if yIsMean then Option.none
  else
    match ycf, sigma with
    | Option.none, .vec v => some v
    | _, _ => Option.none

/-- `variances = where(square(sigma) < jitter, jitter, square(sigma))`. -/
def cellVariance {n : Nat} (v : Vector α n) (jitter : α) (i : Nat) : α :=
  let s2 := v.nth i * v.nth i
  if s2 < jitter then jitter else s2

/-- `scale = 1 / sqrt(variances)`: the whitening `D^-1/2`, `D = diag(max(sigmaᵢ², jitter))`. -/
def cellScale {n : Nat} (v : Vector α n) (jitter : α) : Vector α n :=
  vecOfFn fun i => 1 / sqrt (cellVariance v jitter i)

/-- `sigma * scale`: the stated noise in whitened units (1 unless `sigmaᵢ²` was raised to the jitter), the factor that is
    propagated for the uncertainty. -/
def cellNoise {n : Nat} (v : Vector α n) (jitter : α) : Vector α n :=
  vecOfFn fun i => v.nth i * (cellScale v jitter).nth i

/-- `A * scale[None, :]` (column `k` — cell `k` — times `scale[k]`). -/
def scaleCols {m n : Nat} (A : Mat α m n) (s : Vector α n) : Mat α m n :=
  Mat.ofFn fun i k => A.el i k * s.nth k

/-- `r * scale[:, None]` (row `i` — cell `i` — times `scale[i]`, every value column). -/
def scaleRows {n c : Nat} (R : Mat α n c) (s : Vector α n) : Mat α n c :=
  Mat.ofFn fun i k => R.el i k * s.nth i

/-- `LLB + eye(m)`. -/
def addEye {m : Nat} (A : Mat α m m) : Mat α m m :=
  Mat.ofFn fun i k => A.el i k + (if i = k then 1 else 0)

/-- `LLB = A Aᵀ + noise` of `_LandmarksConditional.__init__` outside the per-cell branch (a scalar sigma, an
    explicit factor, or `y_is_mean`).  The noise factor is sized by the number of landmarks `m`
    (`_sigma_to_y_cov_factor(sigma, y_cov_factor, xu.shape[0])`: `sigma·I_m` for a scalar); a supplied factor
    that does not describe `m` points is refused with a `ValueError`.  (`sigma` is typed by the number of
    cells `n`: a vector only gets here together with an explicit factor — refused if any entry is positive,
    ignored otherwise — or with `y_is_mean`, which ignores it.) -/
def lmLLB {n m : Nat} (AAt : Mat α m m) (sigma : Sigma α n) (jitter : α) (ycf : Option (AnyMat α))
    (yIsMean : Bool) : Except CondErr (Mat α m m) :=
  if yIsMean then .ok (stabilize AAt jitter)
  else
    match sigmaToYCovFactorRows m sigma ycf with
    | .error e => .error e
    | .ok F =>
      if F.r ≠ m then .error .noiseShape
      else addVariance AAt (some F) jitter

/-- DTC weights: `Lᵀ w = z`, `(A Aᵀ + noise) z = A r`. -/
def lmWeights {n m c : Nat} (L LB : Mat α m m) (A : Mat α m n) (r : Mat α n c) : Mat α m c :=
  solveUpperTM L (choSolveM LB (matMul A r))

/-- `W` of `_LandmarksConditional` (`with_uncertainty`): the input noise acts on the `n`
    observations, so the factor is `_sigma_to_y_cov_factor(noise_sigma, noise_factor, x.shape[0])` built from
    the *original* arguments (the supplied factor, `sigma·I_n`, or `diag(sigma)`; a missing noise
    specification is the documented `ValueError`) — in the per-cell branch from `(sigma * scale, None)`, the stated noise in whitened units
    of the whitened problem, with the whitened `A`; `dot(A, factor)` needs `n` rows. -/
def lmUnc {n m : Nat} (L LB : Mat α m m) (A : Mat α m n) (sigma : Sigma α n) (ycf : Option (AnyMat α)) :
    Except CondErr (AnyMat α) :=
  match sigmaToYCovFactor sigma ycf with
  | .error e => .error e
  | .ok F =>
    match matMulAny A F with
    | .error e => .error e
    | .ok AF => .ok (solveUpperTAny L (choSolveAny LB AF))

/-- Second half of `_LandmarksConditional.__init__`, shared by the two branches: `L_B = cholesky(LLB)`, the
    weights from `(A, r)`, and — only `with_uncertainty` — `W` from the noise arguments `(sigmaU, ycfU)` that
    are left for the uncertainty.  `cholesky(LLB)` is *not* followed by a NaN test in the implementation; the
    model reports `notPosDef` where the implementation would carry NaNs on. -/
def lmCore {n m d c : Nat} (cov : Cov α) (xu : Mat α m d) (mu jitter : α) (L : Mat α m m) (A : Mat α m n)
    (r : Mat α n c) (LLB? : Except CondErr (Mat α m m)) (sigmaU : Sigma α n) (ycfU : Option (AnyMat α))
    (withUnc : Bool) : Except CondErr (CondState α m d c) :=
  match LLB? with
  | .error e => .error e
  | .ok LLB =>
    match chol? LLB with
    | Option.none => .error .notPosDef
    | some LB =>
      let weights := lmWeights L LB A r
      if !withUnc then
        .ok { cov := cov, xb := xu, weights := weights, mu := mu, jitter := jitter, nObs := n,
              L := Option.none, W := Option.none }
      else
        match lmUnc L LB A sigmaU ycfU with
        | .error e => .error e
        | .ok W =>
          .ok { cov := cov, xb := xu, weights := weights, mu := mu, jitter := jitter, nObs := n,
                L := some L, W := some W }

/-- `_LandmarksConditional.__init__` (DTC).  `sigma` is typed by the number of CELLS.

    * per-cell branch (`lmPerCell`: a sigma vector, no explicit factor, values are not the mean): the
      observations are whitened with `D = diag(max(sigmaᵢ², jitter))` — `A ← A D^-1/2`, `r ← D^-1/2 (y − mu)` —
      and the unit-noise system `(I + A D⁻¹ Aᵀ) z = A D⁻¹ r` is solved; the uncertainty propagates the whitened stated noise `sigma * scale` (the unit
      factor of the whitened problem;
    * otherwise `LLB = A Aᵀ + noise` with the noise sized by the landmarks (`lmLLB`). -/
def lmCondInit {n m d c : Nat} (cov : Cov α) (x : Mat α n d) (xu : Mat α m d) (y : Mat α n c)
    (mu : α) (sigma : Sigma α n) (jitter : α) (ycf : Option (AnyMat α))
    (yIsMean withUnc : Bool) : Except CondErr (CondState α m d c) :=
  match getL cov xu jitter Option.none with
  | .error e => .error e
  | .ok L =>
    let A := solveLowerM L (gram cov xu x)      -- m × n
    let r := residual y mu
    match lmPerCell sigma ycf yIsMean with
    | some v =>
      let s := cellScale v jitter
      let Aw := scaleCols A s
      lmCore cov xu mu jitter L Aw (scaleRows r s) (.ok (addEye (matMulT Aw Aw))) (.vec (cellNoise v jitter))
        Option.none withUnc
    | Option.none =>
      lmCore cov xu mu jitter L A r (lmLLB (matMulT A A) sigma jitter ycf yIsMean) sigma ycf withUnc

/-- `_LandmarksConditionalCholesky.__init__`.  `sigma` doubles as the standard deviation of the
    latent vector (`Stds = diag(sigma)` or `eye(m)*sigma`); a missing `sigma` is the `ValueError` of
    `_sigma_to_y_cov_factor(None, None, m)`. -/
def lmCholCondInit {m d c : Nat} (cov : Cov α) (xu : Mat α m d) (z : Mat α m c) (mu : α) (nObs : Nat)
    (Lgiven : Option (Mat α m m)) (sigma : Sigma α m) (jitter : α)
    (yIsMean withUnc : Bool) : Except CondErr (CondState α m d c) :=
  match condL cov xu Lgiven sigma jitter Option.none yIsMean with
  | .error e => .error e
  | .ok (L, sigma', _) =>
    let weights := solveUpperTM L z
    if !withUnc then
      .ok { cov := cov, xb := xu, weights := weights, mu := mu, jitter := jitter, nObs := nObs,
            L := Option.none, W := Option.none }
    else
      match sigmaFactor sigma' with
      | Option.none => .error .noUncertaintyInput
      | some Stds =>
        .ok { cov := cov, xb := xu, weights := weights, mu := mu, jitter := jitter, nObs := nObs,
              L := some L, W := some (solveUpperTAny L Stds) }

/-! ### evaluation (identical code in the three families) -/

/-- `_mean` for one query row and one value column: `mu + Σⱼ k(x*, xbⱼ)·wⱼ`. -/
def CondState.mean1 {m d c : Nat} (s : CondState α m d c) (xq : List α) (col : Nat) : α :=
  s.mu + nsum m fun j => s.cov.k xq (s.xb.row j) * s.weights.el j col

/-- `_mean(Xnew)`: `mu + dot(cov_func(Xnew, xb), weights)`. -/
def CondState.mean {m d c q : Nat} (s : CondState α m d c) (Xq : Mat α q d) : Mat α q c :=
  Mat.ofFn fun i col => s.mean1 (Xq.row i) col

/-- `A = solve_triangular(L, cov_func(xb, Xnew), lower=True)` (`m × q`). -/
def CondState.covA {m d c q : Nat} (s : CondState α m d c) (L : Mat α m m) (Xq : Mat α q d) :
    Mat α m q :=
  solveLowerM L (gram s.cov s.xb Xq)

/-- `_covariance(Xnew, diag=False)`: `K** − AᵀA`. -/
def CondState.covariance {m d c q : Nat} (s : CondState α m d c) (Xq : Mat α q d) :
    Except CondErr (Mat α q q) :=
  match s.L with
  | Option.none => .error .noCovariance
  | some L =>
    let A := s.covA L Xq
    .ok (Mat.ofFn fun i k => s.cov.k (Xq.row i) (Xq.row k) - nsum m fun t => A.el t i * A.el t k)

/-- `_covariance(Xnew, diag=True)`: `cov_func.diag(Xnew) − Σ A²` (axis 0). -/
def CondState.variance {m d c q : Nat} (s : CondState α m d c) (Xq : Mat α q d) :
    Except CondErr (Vector α q) :=
  match s.L with
  | Option.none => .error .noCovariance
  | some L =>
    let A := s.covA L Xq
    .ok (vecOfFn fun i => s.cov.k (Xq.row i) (Xq.row i) - nsum m fun t => A.el t i * A.el t i)

/-- `cov_L = cov_func(Xnew, xb) @ W` (`q × cols W`). -/
def CondState.covL {m d c q : Nat} (s : CondState α m d c) (W : AnyMat α) (Xq : Mat α q d)
    (i k : Nat) : α :=
  nsum m fun t => s.cov.k (Xq.row i) (s.xb.row t) * W.el t k

/-- `_mean_covariance(Xnew, diag=False)`: `cov_L cov_Lᵀ`. -/
def CondState.meanCovariance {m d c q : Nat} (s : CondState α m d c) (Xq : Mat α q d) :
    Except CondErr (Mat α q q) :=
  match s.W with
  | Option.none => .error .noUncertainty
  | some W =>
    let CL : Mat α q (W.c) := Mat.ofFn fun i k => s.covL W Xq i k
    .ok (Mat.ofFn fun i k => nsum W.c fun t => CL.el i t * CL.el k t)

/-- `_mean_covariance(Xnew, diag=True)`. -/
def CondState.meanVariance {m d c q : Nat} (s : CondState α m d c) (Xq : Mat α q d) :
    Except CondErr (Vector α q) :=
  match s.W with
  | Option.none => .error .noUncertainty
  | some W =>
    let CL : Mat α q (W.c) := Mat.ofFn fun i k => s.covL W Xq i k
    .ok (vecOfFn fun i => nsum W.c fun t => CL.el i t * CL.el i t)

/-- `uncertainty = covariance + mean_covariance`. -/
def CondState.uncertainty {m d c q : Nat} (s : CondState α m d c) (Xq : Mat α q d) :
    Except CondErr (Mat α q q) := do
  let C ← s.covariance Xq
  let M ← s.meanCovariance Xq
  return Mat.ofFn fun i k => C.el i k + M.el i k

def CondState.uncertaintyDiag {m d c q : Nat} (s : CondState α m d c) (Xq : Mat α q d) :
    Except CondErr (Vector α q) := do
  let C ← s.variance Xq
  let M ← s.meanVariance Xq
  return vecOfFn fun i => C.nth i + M.nth i

/-! ### `Predictor` wrappers -/

variable [NatCast α]

/-- `Predictor.mean(x, normalize)`: subtracts `log(n_obs)` (n_obs as a scalar, possibly the
    per-time-point average). -/
def predictNormalized (v nObs : α) (normalize : Bool) : α :=
  if normalize then v - log nObs else v

/-- `ExpPredictor.mean(x, logscale)`. -/
def predictExp (v : α) (logscale : Bool) : α :=
  if logscale then v else exp v

end Mellon

namespace Mellon

/-- The three predictor families. -/
inductive CondFamily where
  | full | landmarks | landmarksCholesky
  deriving Repr, DecidableEq, Inhabited

/-- Dispatch of `inference.compute_conditional*`: no landmarks → full; a latent vector with as many
    rows as there are landmarks → Cholesky-latent; otherwise DTC. -/
def dispatchFamily (nLandmarks : Option Nat) (preRows : Option Nat) : CondFamily :=
  match nLandmarks with
  | Option.none => .full
  | some m =>
    match preRows with
    | some r => if r = m then .landmarksCholesky else .landmarks
    | Option.none => .landmarks

end Mellon
