/-
  MellonModel.Scalar — scalar interface of the model.

  All numeric model code is polymorphic in the scalar type `α`.  The arithmetic
  classes are taken as *separate* instance arguments (see `variable` blocks in the
  other files) so that at `α := ℝ` Lean finds Mathlib's own instances and at
  `α := Float` the IEEE ones.  Only the transcendental functions need a class of
  our own.
-/
namespace Mellon

/-- Transcendental functions used by Mellon (`jax.numpy.sqrt/exp/log`, `**`, `gammaln`). -/
class Transc (α : Type) where
  sqrt : α → α
  exp : α → α
  log : α → α
  rpow : α → α → α
  lgamma : α → α
  pi : α

export Transc (sqrt exp log rpow lgamma)

/-- Lanczos approximation (g = 7, n = 9) of `log Γ(x)` for `x > 0.5`, reflection otherwise.
    Only used by the executable (Float) instantiation. -/
def lgammaFloat (x : Float) : Float :=
  let c : Array Float := #[0.99999999999980993, 676.5203681218851, -1259.1392167224028,
    771.32342877765313, -176.61502916214059, 12.507343278686905,
    -0.13857109526572012, 9.9843695780195716e-6, 1.5056327351493116e-7]
  let piF : Float := 3.141592653589793
  let core (x : Float) : Float :=
    let x := x - 1.0
    let t := x + 7.5
    let a := (List.range 8).foldl (fun (acc : Float) i => acc + c[i+1]! / (x + (Float.ofNat (i+1)))) c[0]!
    0.5 * Float.log (2.0 * piF) + (x + 0.5) * Float.log t - t + Float.log a
  if x < 0.5 then
    Float.log (piF / Float.abs (Float.sin (piF * x))) - core (1.0 - x)
  else core x

instance : Transc Float where
  sqrt := Float.sqrt
  exp := Float.exp
  log := Float.log
  rpow := Float.pow
  lgamma := lgammaFloat
  pi := 3.141592653589793

instance : NatCast Float := ⟨Float.ofNat⟩

section
variable {α : Type} [Add α] [OfNat α 0]

/-- `nsum n f = f 0 + f 1 + … + f (n-1)` (left to right). -/
def nsum : Nat → (Nat → α) → α
  | 0, _ => 0
  | n+1, f => nsum n f + f n

/-- Total accessor of a vector: `v.nthD k d = v[k]` inside the bounds and `d` outside.  Executed
    paths never read outside the bounds; the totalisation only keeps index arithmetic out of the
    proofs. -/
@[inline] def _root_.Vector.nthD {β : Type} {n : Nat} (v : Vector β n) (k : Nat) (d : β) : β :=
  if h : k < n then v[k] else d

@[inline] def _root_.Vector.nth {n : Nat} (v : Vector α n) (k : Nat) : α := v.nthD k 0

/-- Build a vector whose `k`-th entry is computed from the entries before it
    (`f k prefix`); the common shape of forward substitution and of the Cholesky rows. -/
def buildD {β : Type} (d : β) (f : Nat → (Nat → β) → β) : (n : Nat) → Vector β n
  | 0 => #v[]
  | n+1 =>
    let v := buildD d f n
    let x := f n (fun k => v.nthD k d)
    v.push x

@[inline] def build (f : Nat → (Nat → α) → α) (n : Nat) : Vector α n := buildD 0 f n

end

/-- Matrices are data: `n` rows of length `m`. -/
abbrev Mat (α : Type) (n m : Nat) := Vector (Vector α m) n

section
variable {α : Type} [OfNat α 0]

@[inline] def Mat.el {n m : Nat} (A : Mat α n m) (i j : Nat) : α :=
  if h : i < n then (A[i]).nth j else 0

@[inline] def Mat.ofFn {n m : Nat} (f : Nat → Nat → α) : Mat α n m :=
  Vector.ofFn fun i : Fin n => Vector.ofFn fun j : Fin m => f i.val j.val

@[inline] def vecOfFn {n : Nat} (f : Nat → α) : Vector α n :=
  Vector.ofFn fun i : Fin n => f i.val

def Mat.transpose {n m : Nat} (A : Mat α n m) : Mat α m n := Mat.ofFn fun i j => A.el j i

def Mat.col {n m : Nat} (A : Mat α n m) (j : Nat) : Vector α n := vecOfFn fun i => A.el i j

def Mat.ofCols {n m : Nat} (c : Vector (Vector α n) m) : Mat α n m :=
  Mat.ofFn fun i j => if h : j < m then (c[j]).nth i else 0

end

end Mellon
