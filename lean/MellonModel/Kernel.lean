/-
  MellonModel.Kernel — `mellon.util.distance / distance_grad / select_active_dims /
  expand_to_inactive`, the six kernels of `mellon.cov` and the algebra nodes of `mellon.base_cov`
  (`Add`, `Mul`, `Pow`, scalar right operands), as one syntax tree `Cov` with `k`, `kGrad`.

  Points are `List α` because every node may select its own sub-list of columns, so the width
  changes along the tree.
-/
import MellonModel.Scalar
namespace Mellon

/-! ### active dimensions (NumPy/JAX index semantics for in-range indices) -/

inductive ActiveDims where
  | none
  | idx (z : Int)
  | list (zs : List Int)
  | mask (bs : List Bool)
  | slice (start stop step : Option Int)
  deriving Repr, DecidableEq, Inhabited

/-- A (possibly negative) index into a width-`d` axis. -/
def resolveIdx (d : Nat) (z : Int) : Option Nat :=
  if 0 ≤ z ∧ z < d then some z.toNat
  else if z < 0 ∧ -(d : Int) ≤ z then some (z + d).toNat
  else Option.none

/-- CPython `PySlice_AdjustIndices` for one bound. -/
def adjustBound (d : Nat) (neg : Bool) (v : Int) : Int :=
  if v < 0 then
    let v' := v + d
    if v' < 0 then (if neg then -1 else 0) else v'
  else if v ≥ d then (if neg then (d : Int) - 1 else d) else v

def rangeList (fuel : Nat) (cur stop step : Int) : List Nat :=
  match fuel with
  | 0 => []
  | fuel+1 =>
    if (step > 0 ∧ cur < stop) ∨ (step < 0 ∧ cur > stop) then
      cur.toNat :: rangeList fuel (cur + step) stop step
    else []

def sliceIndices (d : Nat) (start stop step : Option Int) : Option (List Nat) :=
  let st := step.getD 1
  if st = 0 then Option.none else
  let neg := decide (st < 0)
  let s := match start with
    | some v => adjustBound d neg v
    | Option.none => if neg then (d : Int) - 1 else 0
  let e := match stop with
    | some v => adjustBound d neg v
    | Option.none => if neg then -1 else d
  some (rangeList (d + 1) s e st)

def maskIndices : Nat → List Bool → List Nat
  | _, [] => []
  | i, b :: bs => if b then i :: maskIndices (i+1) bs else maskIndices (i+1) bs

def ActiveDims.indices (ad : ActiveDims) (d : Nat) : Option (List Nat) :=
  match ad with
  | .none => some (List.range d)
  | .idx z => (resolveIdx d z).map fun i => [i]
  | .list zs => zs.mapM (resolveIdx d)
  | .mask bs => if bs.length = d then some (maskIndices 0 bs) else Option.none
  | .slice a b c => sliceIndices d a b c

section
variable {α : Type} [Add α] [Sub α] [Mul α] [Div α] [Neg α] [OfNat α 0] [OfNat α 1]
  [OfScientific α] [Max α] [LT α] [DecidableLT α] [Transc α]

/-- `select_active_dims`: the sub-list of columns a node works on (`[]` when the index is out of
    range — the driver reports that case as an error instead of evaluating). -/
def select (ad : ActiveDims) (x : List α) : List α :=
  match ad with
  | .none => x
  | _ => match ad.indices x.length with
    | some is => is.map fun i => x.getD i 0
    | Option.none => []

/-- `zeros(d).at[..., active_dims].add(values)`: contributions of repeated indices accumulate. -/
def scatterAdd (d : Nat) (is : List Nat) (vals : List α) : List α :=
  (is.zip vals).foldl (fun acc (p : Nat × α) => acc.set p.1 (acc.getD p.1 0 + p.2)) (List.replicate d 0)

/-- `expand_to_inactive`. -/
def expand (ad : ActiveDims) (d : Nat) (vals : List α) : List α :=
  match ad with
  | .none => vals
  | _ => match ad.indices d with
    | some is => scatterAdd d is vals
    | Option.none => []

def dot : List α → List α → α
  | a :: as, b :: bs => a * b + dot as bs
  | _, _ => 0

/-- The squared-distance regulariser of `util.distance`. -/
def distEps : α := 1e-12

/-- `util.distance` for one pair: `sqrt(max(xx − 2·xy + yy + 1e-12, 0))`. -/
def distance (x y : List α) : α :=
  sqrt (max (dot x x - 2.0 * dot x y + dot y y + distEps) 0)

/-- `util.distance_grad` for one pair: `(dist, (y − x)/(dist + eps))`.  The implementation takes `dist` from the differences,
    `sqrt(Σ (yᵢ − xᵢ)² + 1e-12)` (numerically stable; fix `distance_grad takes the distance from the coordinate differences`),
    the model from the expanded form of `distance`: the same real number for points of equal width
    (`KernelLemmas.distance_eq`, `dot_expand`); at `Float` the two differ by the cancellation error that the checks' interval
    oracle budgets. -/
def distanceGrad (x y : List α) : α × List α :=
  let dist := distance x y
  (dist, List.zipWith (fun yi xi => (yi - xi) / (dist + distEps)) y x)

/-! ### kernel expressions -/

inductive Cov (α : Type) where
  | matern32 (ls : α) (ad : ActiveDims)
  | matern52 (ls : α) (ad : ActiveDims)
  | expquad (ls : α) (ad : ActiveDims)
  | exponential (ls : α) (ad : ActiveDims)
  | ratquad (alpha ls : α) (ad : ActiveDims)
  | linear (ls : α) (ad : ActiveDims)
  | add (l r : Cov α) (ad : ActiveDims)
  | addC (l : Cov α) (c : α) (ad : ActiveDims)
  | mul (l r : Cov α) (ad : ActiveDims)
  | mulC (l : Cov α) (c : α) (ad : ActiveDims)
  | pow (l : Cov α) (p : α) (ad : ActiveDims)
  deriving Repr, Inhabited

def Cov.ad : Cov α → ActiveDims
  | .matern32 _ ad | .matern52 _ ad | .expquad _ ad | .exponential _ ad | .ratquad _ _ ad
  | .linear _ ad | .add _ _ ad | .addC _ _ ad | .mul _ _ ad | .mulC _ _ ad | .pow _ _ ad => ad

/-- Radial profiles, as coded in `mellon/cov.py`. -/
def matern32Profile (ls dist : α) : α :=
  let r := sqrt 3.0 * dist / ls
  (r + 1) * exp (-r)

def matern52Profile (ls dist : α) : α :=
  let r := sqrt 5.0 * dist / ls
  (r + r * r / 3.0 + 1) * exp (-r)

def expquadProfile (ls dist : α) : α :=
  let r := dist / ls
  exp (-(r * r) / 2.0)

def exponentialProfile (ls dist : α) : α :=
  let r := dist / ls
  exp (-r / 2.0)

def ratquadProfile (alpha ls dist : α) : α :=
  let r := dist / ls
  rpow (r * r / (2.0 * alpha) + 1) (-alpha)

/-- `cov.k` for one pair of rows. -/
def Cov.k : Cov α → List α → List α → α
  | .matern32 ls ad, x, y => matern32Profile ls (distance (select ad x) (select ad y))
  | .matern52 ls ad, x, y => matern52Profile ls (distance (select ad x) (select ad y))
  | .expquad ls ad, x, y => expquadProfile ls (distance (select ad x) (select ad y))
  | .exponential ls ad, x, y => exponentialProfile ls (distance (select ad x) (select ad y))
  | .ratquad a ls ad, x, y => ratquadProfile a ls (distance (select ad x) (select ad y))
  | .linear ls ad, x, y => dot (select ad x) (select ad y) / ls
  | .add l r ad, x, y => l.k (select ad x) (select ad y) + r.k (select ad x) (select ad y)
  | .addC l c ad, x, y => l.k (select ad x) (select ad y) + c
  | .mul l r ad, x, y => l.k (select ad x) (select ad y) * r.k (select ad x) (select ad y)
  | .mulC l c ad, x, y => l.k (select ad x) (select ad y) * c
  | .pow l p ad, x, y => rpow (l.k (select ad x) (select ad y)) p

/-- `cov.k_grad(x)(y)` for one pair of rows: the vector `∂k(x,y)/∂y`, full width. -/
def Cov.kGrad : Cov α → List α → List α → List α
  | .matern32 ls ad, x, y =>
    let (dist, g) := distanceGrad (select ad x) (select ad y)
    let factor := sqrt 3.0 / ls
    let r := -factor * dist
    expand ad y.length (g.map fun gi => r * (factor * gi) * exp r)
  | .matern52 ls ad, x, y =>
    let (dist, g) := distanceGrad (select ad x) (select ad y)
    let factor := sqrt 5.0 / ls
    let r := factor * dist
    expand ad y.length (g.map fun gi => -1.0 / 3.0 * exp (-r) * r * (r + 1) * (factor * gi))
  | .expquad ls ad, x, y =>
    let (dist, g) := distanceGrad (select ad x) (select ad y)
    let r := dist / ls
    expand ad y.length (g.map fun gi => -r * (gi / ls) * exp (-(r * r) / 2.0))
  | .exponential ls ad, x, y =>
    let (dist, g) := distanceGrad (select ad x) (select ad y)
    let r := dist / ls
    expand ad y.length (g.map fun gi => -1.0 / 2.0 * (gi / ls) * exp (-r / 2.0))
  | .ratquad a ls ad, x, y =>
    let (dist, g) := distanceGrad (select ad x) (select ad y)
    let r := dist / ls
    expand ad y.length (g.map fun gi => -r * (gi / ls) * rpow (r * r / (2.0 * a) + 1) (-a - 1))
  | .linear ls ad, x, y =>
    expand ad y.length ((select ad x).map fun xi => xi / ls)
  | .add l r ad, x, y =>
    let xs := select ad x; let ys := select ad y
    expand ad y.length (List.zipWith (· + ·) (l.kGrad xs ys) (r.kGrad xs ys))
  | .addC l _ ad, x, y =>
    expand ad y.length (l.kGrad (select ad x) (select ad y))
  | .mul l r ad, x, y =>
    let xs := select ad x; let ys := select ad y
    let lk := l.k xs ys; let rk := r.k xs ys
    expand ad y.length (List.zipWith (fun lg rg => lg * rk + lk * rg) (l.kGrad xs ys) (r.kGrad xs ys))
  | .mulC l c ad, x, y =>
    expand ad y.length ((l.kGrad (select ad x) (select ad y)).map fun lg => lg * c)
  | .pow l p ad, x, y =>
    let xs := select ad x; let ys := select ad y
    let bk := l.k xs ys
    -- `where((base_k == 0) & (p < 1), 0.0, p * base_k ** (p - 1) * base_grad)`: only a base value that is
    -- exactly 0 (underflowed) under an exponent `p < 1` contributes 0 instead of `0 ** (p - 1) * 0 = nan`;
    -- every other base value — negative ones included — keeps the chain rule.
    -- `base_k == 0` is written `¬ (0 < bk) ∧ ¬ (bk < 0)` (the model has `LT` only); this differs from
    -- Python's `==` only for a NaN base value (there, for `p < 1`, the model gives 0 and the code NaN),
    -- which is outside the model: the theorems are at α = ℝ and the harness feeds finite values.
    expand ad y.length ((l.kGrad xs ys).map fun bg =>
      if (¬ (0 < bk) ∧ ¬ (bk < 0)) ∧ p < 1 then 0 else p * rpow bk (p - 1) * bg)

/-- Every index of every node is in range for the width it sees. -/
def Cov.WF : Cov α → Nat → Bool
  | .matern32 _ ad, d | .matern52 _ ad, d | .expquad _ ad, d | .exponential _ ad, d
  | .ratquad _ _ ad, d | .linear _ ad, d => (ad.indices d).isSome
  | .add l r ad, d | .mul l r ad, d =>
    match ad.indices d with
    | some is => l.WF is.length && r.WF is.length
    | Option.none => false
  | .addC l _ ad, d | .mulC l _ ad, d | .pow l _ ad, d =>
    match ad.indices d with
    | some is => l.WF is.length
    | Option.none => false

/-- `compute_cov_func(curry, ls, ls_time)`: state kernel on all but the last column times time
    kernel on the last. -/
def timeCov (base : α → ActiveDims → Cov α) (ls lsTime : α) : Cov α :=
  .mul (base ls (.slice Option.none (some (-1)) Option.none)) (base lsTime (.idx (-1))) .none

end

section
variable {α : Type} [Add α] [Sub α] [Mul α] [Div α] [Neg α] [OfNat α 0] [OfNat α 1]
  [OfScientific α] [Max α] [Transc α]

/-- Rows of a data matrix as points. -/
def Mat.row {n d : Nat} (X : Mat α n d) (i : Nat) : List α :=
  if h : i < n then X[i].toList else []

/-- `cov_func(X, Y)`. -/
def gram {n m d : Nat} (c : Cov α) (X : Mat α n d) (Y : Mat α m d) : Mat α n m :=
  Mat.ofFn fun i j => c.k (X.row i) (Y.row j)

/-- `cov_func.diag(X)`. -/
def gramDiag {n d : Nat} (c : Cov α) (X : Mat α n d) : Vector α n :=
  vecOfFn fun i => c.k (X.row i) (X.row i)

end

end Mellon
