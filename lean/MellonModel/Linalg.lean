/-
  MellonModel.Linalg — Cholesky factorisation and triangular solves, mirroring
  `jax.numpy.linalg.cholesky` (+ the NaN test of `conditional._get_L` / `decomposition._full_rank`)
  and `jax.scipy.linalg.solve_triangular`.
-/
import MellonModel.Scalar
namespace Mellon

variable {α : Type} [Add α] [Sub α] [Mul α] [Div α] [OfNat α 0] [LT α] [DecidableLT α] [Transc α]

def matVec {n m : Nat} (A : Mat α n m) (v : Vector α m) : Vector α n :=
  vecOfFn fun i => nsum m fun k => A.el i k * v.nth k

def matMul {n m p : Nat} (A : Mat α n m) (B : Mat α m p) : Mat α n p :=
  Mat.ofFn fun i j => nsum m fun k => A.el i k * B.el k j

/-- `A Bᵀ`. -/
def matMulT {n m p : Nat} (A : Mat α n m) (B : Mat α p m) : Mat α n p :=
  Mat.ofFn fun i j => nsum m fun k => A.el i k * B.el j k

/-- One row of the Cholesky factor (Cholesky–Banachiewicz); `prev j k = L[j][k]` for `j < i`. -/
def cholRow {n : Nat} (A : Mat α n n) (i : Nat) (prev : Nat → Nat → α) : Vector α n :=
  build (fun j r =>
    if j < i then (A.el i j - nsum j fun k => r k * prev j k) / prev j j
    else if j = i then sqrt (A.el i i - nsum i fun k => r k * r k)
    else 0) n

/-- Lower-triangular `L` with `L Lᵀ = A` when every pivot is positive (garbage otherwise). -/
def chol {n : Nat} (A : Mat α n n) : Mat α n n :=
  buildD (vecOfFn fun _ => 0) (fun i prev => cholRow A i (fun j k => (prev j).nth k)) n

/-- The pivot whose square root is `L[i][i]`. -/
def cholPivot {n : Nat} (A L : Mat α n n) (i : Nat) : α :=
  A.el i i - nsum i fun k => L.el i k * L.el i k

def allBelow (n : Nat) (p : Nat → Bool) : Bool :=
  match n with
  | 0 => true
  | n+1 => allBelow n p && p n

/-- `cholesky` followed by the implementation's `any(isnan(L))` test: `none` is the `ValueError`
    branch ("Covariance not positively definite …").  LAPACK's `potrf` fails exactly when a pivot
    is not positive, and JAX then returns an all-NaN matrix. -/
def chol? {n : Nat} (A : Mat α n n) : Option (Mat α n n) :=
  let L := chol A
  if allBelow n (fun i => decide (0 < cholPivot A L i)) then some L else none

/-- Forward substitution: solves `L x = b` for lower-triangular `L`
    (`solve_triangular(L, b, lower=True)`). -/
def solveLower {n : Nat} (L : Mat α n n) (b : Vector α n) : Vector α n :=
  build (fun i x => (b.nth i - nsum i fun k => L.el i k * x k) / L.el i i) n

/-- Back substitution on the transpose: solves `Lᵀ x = b` for lower-triangular `L`
    (`solve_triangular(L.T, b)`, upper triangular). -/
def solveUpperT {n : Nat} (L : Mat α n n) (b : Vector α n) : Vector α n :=
  let y := build (fun j y =>
      let i := n - 1 - j
      (b.nth i - nsum j fun t => L.el (n - 1 - t) i * y t) / L.el i i) n
  vecOfFn fun i => y.nth (n - 1 - i)

/-- Column-wise solves for matrix right-hand sides. -/
def solveLowerM {n p : Nat} (L : Mat α n n) (B : Mat α n p) : Mat α n p :=
  Mat.ofCols (Vector.ofFn fun j : Fin p => solveLower L (B.col j.val))

def solveUpperTM {n p : Nat} (L : Mat α n n) (B : Mat α n p) : Mat α n p :=
  Mat.ofCols (Vector.ofFn fun j : Fin p => solveUpperT L (B.col j.val))

/-- `cho_solve`: `(L Lᵀ)⁻¹ b`. -/
def choSolve {n : Nat} (L : Mat α n n) (b : Vector α n) : Vector α n :=
  solveUpperT L (solveLower L b)

def choSolveM {n p : Nat} (L : Mat α n n) (B : Mat α n p) : Mat α n p :=
  solveUpperTM L (solveLowerM L B)

end Mellon
