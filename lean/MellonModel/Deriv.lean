/-
  MellonModel.Deriv — `mellon.derivatives.gradient / hessian / hessian_log_determinant` and the
  derivative methods of `base_predictor.Predictor / ExpPredictor / PredictorTime`:
  WHICH function each method hands to JAX autodiff and how the result is sliced / reshaped.

  Differentiation itself is an external call (`jax.jacrev`, `jax.jacfwd`): it enters as the parameter
  `Diff` (one operator `jac`: scalar function of one row ↦ its gradient at a row) with the contract
  "returns derivatives" stated in `MellonProofs/DerivLemmas.lean`.  `slogdet` (LAPACK LU) is a
  parameter as well.

  The second half is executable: the three conditional families all evaluate
  `_mean(Xnew) = mu + dot(cov_func(Xnew, pts), weights)`, so the gradient of what `__call__` returns has
  the closed form `Σ_j w_j ∇k(x*, p_j)` (times `exp(mean)` for `ExpPredictor`), computed from
  `Cov.kGrad`; the driver op `pgrad` runs it against `p.gradient / p.time_derivative`.
-/
import MellonModel.Kernel
namespace Mellon

/-- The three wrapper families of `base_predictor` (× three conditional families = 9 classes). -/
inductive PredKind where
  | plain   -- Predictor:      __call__ = mean      = _mean
  | exp     -- ExpPredictor:   __call__ = mean      = exp ∘ _mean
  | time    -- PredictorTime:  __call__ = mean(Xnew, time) = _mean (x ++ [t])
  deriving DecidableEq, Repr, Inhabited

/-- JAX autodiff of a scalar function of one row (`jax.jacrev(f)(x[None, :])`, reshaped to the row). -/
structure Diff (α : Type) where
  jac : (List α → α) → List α → List α

section
variable {α : Type} [Add α] [Sub α] [Mul α] [Div α] [Neg α] [OfNat α 0] [OfNat α 1]
  [OfScientific α] [Max α] [LT α] [DecidableLT α] [Transc α]

/-- What the call operator evaluates on one row, given the family's `_mean` on one row
    (`normalize=False`, `logscale=False`: the defaults autodiff sees). -/
def callOf (kind : PredKind) (mean : List α → α) : List α → α :=
  match kind with
  | .exp => fun x => exp (mean x)
  | _ => mean

/-! ### `mellon.derivatives` (row-wise under `vmap`, reshaped to `x.shape (+ d)`) -/

/-- `derivatives.gradient(function, x)`: one gradient row per row of `x`. -/
def Deriv.gradient (D : Diff α) (f : List α → α) (X : List (List α)) : List (List α) :=
  X.map (D.jac f)

/-- `jax.jacfwd(jax.jacrev(f))` at one row: the Jacobian of the gradient, row `i` = gradient of the
    `i`-th partial derivative. -/
def Deriv.hessRow (D : Diff α) (f : List α → α) (x : List α) : List (List α) :=
  (List.range x.length).map fun i => D.jac (fun x' => (D.jac f x').getD i 0) x

/-- `derivatives.hessian(function, x)`: shape `x.shape + (d,)`. -/
def Deriv.hessian (D : Diff α) (f : List α → α) (X : List (List α)) : List (List (List α)) :=
  X.map (Deriv.hessRow D f)

/-- `derivatives.hessian_log_determinant`: `slogdet` of the same row Hessian; shape `(n,)` twice. -/
def Deriv.hld (D : Diff α) (slogdet : List (List α) → α × α) (f : List α → α) (X : List (List α)) :
    List (α × α) :=
  X.map fun x => slogdet (Deriv.hessRow D f x)

/-! ### several output columns (`weights` of shape `(n, k)`, e.g. `FunctionEstimator` on a 2-D `y`)

The differentiated function then returns `k` values per row.  `gradient` / `hessian` reshape with
`shape[::2]` to `(n, k, d)` / `(n, k, d, d)`; `hessian_log_determinant` reshapes the row Hessian to one
`(d, d)` block per output column (`reshape((-1, d, d))`), takes `slogdet` of every block and returns
`(n, k)` pairs — for every `k ≥ 0`, one column included: `(n, 1)`, like value `(n, 1)`, gradient
`(n, 1, d)` and Hessian `(n, 1, d, d)`.  Only a scalar output (1-D `weights`; the raw Hessian has no
column axis, `len(hess.shape) <= 5`) is returned unbatched, `(n,)`.  (Before the repair of finding
H3-C3 the test was `hess.shape[0] == 1`, which also unbatched a single column.) -/

/-- The value(s) the call operator returns per row: a scalar (1-D `weights`) or `k` columns. -/
inductive Outputs (α : Type) where
  | scalar (f : List α → α)
  | columns (fs : List (List α → α))

def Outputs.funs : Outputs α → List (List α → α)
  | .scalar f => [f]
  | .columns fs => fs

/-- Result of `hessian_log_determinant` for one row: one pair, or one pair per output column. -/
inductive HldRow (α : Type) where
  | single (p : α × α)
  | perColumn (ps : List (α × α))

/-- `gradient` for `k` output columns: shape `(n, k, d)`. -/
def Deriv.gradientCols (D : Diff α) (fs : List (List α → α)) (X : List (List α)) : List (List (List α)) :=
  X.map fun x => fs.map fun f => D.jac f x

/-- `hessian` for `k` output columns: shape `(n, k, d, d)`. -/
def Deriv.hessianCols (D : Diff α) (fs : List (List α → α)) (X : List (List α)) :
    List (List (List (List α))) :=
  X.map fun x => fs.map fun f => Deriv.hessRow D f x

/-- One row of `hessian_log_determinant` as patched: `reshape((-1, d, d))`, `slogdet` per block; the
    block of a scalar output is returned unbatched, the blocks of a 2-D output keep the column axis. -/
def Deriv.hldRow (D : Diff α) (slogdet : List (List α) → α × α) (o : Outputs α) (x : List α) : HldRow α :=
  match o with
  | .scalar f => .single (slogdet (Deriv.hessRow D f x))
  | .columns fs => .perColumn (fs.map fun f => slogdet (Deriv.hessRow D f x))

/-- `derivatives.hessian_log_determinant(function, x)` for any output form. -/
def Deriv.hldOut (D : Diff α) (slogdet : List (List α) → α × α) (o : Outputs α) (X : List (List α)) :
    List (HldRow α) :=
  X.map (Deriv.hldRow D slogdet o)

/-! ### `Predictor` / `ExpPredictor`: all three methods differentiate `self.__call__` -/

def Predictor.gradient (D : Diff α) (kind : PredKind) (mean : List α → α) (X : List (List α)) :=
  Deriv.gradient D (callOf kind mean) X

def Predictor.hessian (D : Diff α) (kind : PredKind) (mean : List α → α) (X : List (List α)) :=
  Deriv.hessian D (callOf kind mean) X

def Predictor.hld (D : Diff α) (sl : List (List α) → α × α) (kind : PredKind) (mean : List α → α)
    (X : List (List α)) :=
  Deriv.hld D sl (callOf kind mean) X

/-! ### `PredictorTime` -/

/-- `validate_time_x(x, time)`: time appended as the last column. -/
def mergeTime (X : List (List α)) (ts : List α) : List (List α) :=
  List.zipWith (fun x t => x ++ [t]) X ts

/-- `time_derivative`: `super().gradient(Xnew)[:, -1]` — the last column of the gradient of the call
    operator in the merged coordinates `(x, t)`. -/
def PredictorTime.timeDerivative (D : Diff α) (mean : List α → α) (X : List (List α)) (ts : List α) :
    List α :=
  (Predictor.gradient D .time mean (mergeTime X ts)).map fun g => g.getD (g.length - 1) 0

/-- `time_derivative` of a predictor with `k` value columns: `super().gradient(Xnew)[..., -1]` — the gradient has shape
    `(n, k, d + 1)` and the result `(n, k)`: for every row the time partial of EVERY column (repair `7168ef1`; the slice used
    to be `[:, -1]`, all partial derivatives of the last column). -/
def PredictorTime.timeDerivativeCols (D : Diff α) (means : List (List α → α)) (X : List (List α)) (ts : List α) :
    List (List α) :=
  (Deriv.gradientCols D (means.map (callOf .time)) (mergeTime X ts)).map fun row =>
    row.map fun g => g.getD (g.length - 1) 0

/-- `gradient(self.mean, X, time)`: autodiff w.r.t. the state row only, the row's time is a fixed
    extra argument. -/
def PredictorTime.gradient (D : Diff α) (mean : List α → α) (X : List (List α)) (ts : List α) :
    List (List α) :=
  List.zipWith (fun x t => D.jac (fun x' => callOf .time mean (x' ++ [t])) x) X ts

def PredictorTime.hessian (D : Diff α) (mean : List α → α) (X : List (List α)) (ts : List α) :
    List (List (List α)) :=
  List.zipWith (fun x t => Deriv.hessRow D (fun x' => callOf .time mean (x' ++ [t])) x) X ts

def PredictorTime.hld (D : Diff α) (sl : List (List α) → α × α) (mean : List α → α) (X : List (List α))
    (ts : List α) : List (α × α) :=
  List.zipWith (fun x t => sl (Deriv.hessRow D (fun x' => callOf .time mean (x' ++ [t])) x)) X ts

/-! ### the conditional mean shared by the three families, and its gradient in closed form -/

/-- State of `_FullConditional / _LandmarksConditional / _LandmarksConditionalCholesky` that `_mean`
    reads: kernel, `mu`, conditioning points (`x` or `landmarks`), `weights` (one output column). -/
structure GPMean (α : Type) where
  cov : Cov α
  mu : α
  pts : List (List α)
  weights : List α

/-- `Σ_j f(p_j)·w_j` (`dot(Kus, weights)` for one row). -/
def wsum : List (List α) → List α → (List α → α) → α
  | p :: ps, w :: ws, f => f p * w + wsum ps ws f
  | _, _, _ => 0

/-- `_mean` on one row: `mu + dot(cov_func(x*, pts), weights)`. -/
def GPMean.mean (p : GPMean α) (x : List α) : α :=
  p.mu + wsum p.pts p.weights (fun pt => p.cov.k x pt)

/-- `Σ_j w_j · g(p_j)` for vectors `g(p_j)` of width `d`. -/
def wvsum (d : Nat) : List (List α) → List α → (List α → List α) → List α
  | p :: ps, w :: ws, g => List.zipWith (· + ·) ((g p).map (· * w)) (wvsum d ps ws g)
  | _, _, _ => List.replicate d 0

/-- Closed-form gradient of `_mean` in the query row: `Σ_j w_j ∇_y k(p_j, y)|_{y = x*}` (the kernel is
    symmetric, so this is the gradient of `k(x*, p_j)` in `x*`). -/
def GPMean.meanGrad (p : GPMean α) (x : List α) : List α :=
  wvsum x.length p.pts p.weights (fun pt => p.cov.kGrad pt x)

/-- Closed-form gradient of what `__call__` returns (`exp`-chain for `ExpPredictor`). -/
def GPMean.callGrad (kind : PredKind) (p : GPMean α) (x : List α) : List α :=
  match kind with
  | .exp => (p.meanGrad x).map fun g => exp (p.mean x) * g
  | _ => p.meanGrad x

/-- The executable instance of autodiff for the call operator of a GP-mean predictor. -/
def GPMean.gradient (kind : PredKind) (p : GPMean α) (X : List (List α)) : List (List α) :=
  X.map (p.callGrad kind)

/-- `time_derivative` in closed form: last column of the merged-coordinate gradient. -/
def GPMean.timeDerivative (p : GPMean α) (X : List (List α)) (ts : List α) : List α :=
  (p.gradient .time (mergeTime X ts)).map fun g => g.getD (g.length - 1) 0

/-- Time-aware `gradient` in closed form: the state columns of the merged-coordinate gradient. -/
def GPMean.gradientTime (p : GPMean α) (X : List (List α)) (ts : List α) : List (List α) :=
  (p.gradient .time (mergeTime X ts)).map fun g => g.take (g.length - 1)

end
end Mellon
