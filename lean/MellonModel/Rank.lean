/-
  MellonModel.Rank — rank selection of `mellon.decomposition._eigendecomposition` (as fixed by
  aba3265) and the factor `L = v * sqrt(s)` of `_full_decomposition_low_rank`.

  The code works on the ASCENDING eigenvalues `s` returned by `eigh`; the model is written for the
  same spectrum listed in DESCENDING order (`desc = reverse s`), so that "the last p of s" is
  `desc.take p`:

      s, v   = eigh(A)
      p      = count_nonzero(s > 0)                       -- countPos
      summed = cumsum(s[:-p-1:-1])                        -- cumsum (desc.take p)
      if isinstance(rank, float):
          target = summed[-1] * rank                      -- IndexError when p = 0 (empty `summed`)
          p = min(searchsorted(summed, target) + 1, len(summed))
          if p == 0: p = 1
      else:
          p = min(rank, p)
      if (isinstance(rank, float) and rank < 1) or rank < len(summed):
          frac = summed[p - 1] / summed[-1]               -- logging only; IndexError when `summed` is empty
      s_, v_ = s[-p:], v[:, -p:]                          -- sliceLast: Python `[-p:]`

  Polymorphic in the scalar: at `Rat` (core) and at `Float` it runs in the driver; over any linearly
  ordered field it is the subject of the theorems of C10.
-/
import MellonModel.Scalar
namespace Mellon

/-- The `rank` argument after the `isinstance(rank, float)` dispatch (`1` is `.int 1`, `1.0` is
    `.frac 1`). -/
inductive RankReq (α : Type) where
  | int (r : Int)
  | frac (f : α)
  deriving Repr

section
variable {α : Type} [Add α] [Mul α] [OfNat α 0] [LT α] [DecidableLT α]

/-- `count_nonzero(s > 0)`. -/
def countPos : List α → Nat
  | [] => 0
  | x :: xs => (if 0 < x then 1 else 0) + countPos xs

/-- `cumsum` continued from an accumulator: `[a+x₀, a+x₀+x₁, …]`. -/
def cumsumFrom (a : α) : List α → List α
  | [] => []
  | x :: xs => (a + x) :: cumsumFrom (a + x) xs

/-- `jnp.cumsum`. -/
def cumsum (l : List α) : List α := cumsumFrom 0 l

/-- `searchsorted(xs, t)` (side = 'left') on a sorted array: the index of the first element that is
    not `< t` (`len` when there is none). -/
def searchLeft : List α → α → Nat
  | [], _ => 0
  | x :: xs, t => if x < t then searchLeft xs t + 1 else 0

/-- `len(s[-p:])` for an array of length `n` and a Python integer `p` (`-0 = 0` gives everything,
    a negative `p` drops `|p|` leading entries). -/
def sliceLast (n : Nat) (p : Int) : Nat :=
  if p = 0 then n else if 0 < p then min p.toNat n else n - (-p).toNat

/-- Number of eigen-directions `_eigendecomposition` keeps; `none` is the `ValueError` the routine raises
    when the matrix has no positive eigenvalue (nothing can be retained). -/
def selectRank (desc : List α) : RankReq α → Option Nat
  | .int r =>
    if countPos desc = 0 then none
    else some (sliceLast desc.length (min r (countPos desc : Int)))
  | .frac f =>
    let summed := cumsum (desc.take (countPos desc))
    match summed.getLast? with
    | none => none
    | some total =>
      let target := total * f
      let p := min (searchLeft summed target + 1) summed.length
      let p := if p = 0 then 1 else p
      some (sliceLast desc.length (p : Int))

/-- The retained eigenvalues `s_` (in descending order). -/
def selectEigs (desc : List α) (r : RankReq α) : Option (List α) :=
  (selectRank desc r).map fun p => desc.take p

/-- Sum of the first `p` entries (the retained variance). -/
def prefixSum (l : List α) (p : Nat) : α := (l.take p).foldr (· + ·) 0

/-- Sum of the positive eigenvalues (`summed[-1]`). -/
def posTotal (desc : List α) : α := prefixSum desc (countPos desc)

end

section
variable {α : Type} [Mul α] [OfNat α 0] [Transc α]

/-- `L = v_ * sqrt(s_)`: column `c` of the eigenvector matrix scaled by `√s_c`, for the `p` kept
    columns (columns listed in descending order of eigenvalue). -/
def lowRankFactor {n : Nat} (V : Mat α n n) (s : Vector α n) (p : Nat) : Mat α n p :=
  Mat.ofFn fun i c => V.el i c * sqrt (s.nth c)

end

end Mellon
