/-
  MellonModel.TimeNN — within-time-point nearest-neighbour distances and sampling normalisation
  (property C14).

  Mirrors the code of /repo AFTER the two C14 repairs (fix: every sized normalize target is
  length-checked and NumPy arrays / tuples are accepted like lists; fix: n_obs of a dict target
  averages only the time points present in the data):
    * `mellon.parameters.compute_nn_distances_within_time_points` (+ `_get_target_cell_count`,
      `compute_nn_distances`/`compute_distances`: KD/Ball tree = exact Euclidean nearest *other* point),
    * `mellon.parameter_validation.validate_normalize_parameter`,
    * `mellon.parameters.compute_average_cell_count`,
    * `mellon.parameters.compute_ls` and the time-sensitive estimator's `_compute_ls`,
      `_compute_nn_distances` (explicit `nn_distances` win) and `log_density_func.n_obs`.

  Two kinds of data:
    * numeric (`α`): coordinates, distances, target counts, `d` — polymorphic, `Float` in the driver,
      `ℝ` in the theorems;
    * time stamps (`θ`): only compared (`==`, sorted `unique`) — an exact type with decidable equality
      and order.  The merged matrix carries them as numbers, `key : α → θ` reads them
      (`id` at `ℝ`; an order-preserving integer code of the IEEE bits in the driver).

  The per-time-point step of the code is `x[mask]` → tree query → `out.at[mask].set(·)`.  NumPy's
  boolean indexing keeps the order of the selected rows, so the value that lands at cell `i` is the
  nearest-neighbour distance of cell `i` among the selected rows; the model writes this directly
  over the list of selected indices (`groupIdx`), the tree is brute force (`nnOf`).
-/
import MellonModel.Scalar
import MellonModel.TimeArgs
namespace Mellon

/-! ### outcome classes -/

inductive NNErr where
  | timex (e : Err)     -- refusals of `validate_time_x(x, times)`
  | noCells             -- ZeroDivisionError: `n_cells / len(unique_times)` with no rows
  | missingKey          -- ValueError "Missing time point(s) in normalization dictionary"
  | wrongLength         -- ValueError "Length of the normalize list or array must match …"
  | dNone               -- TypeError  "d should be of type int, float or iterable"
  | dNegative           -- ValueError "… should be non-negative"
  | dLength             -- ValueError "If `d` (length=…) is a vector then it needs to have one value per cell"
  | dZero               -- ZeroDivisionError: `1 / d` with a Python scalar `d == 0`
  | singleton           -- ValueError "Insufficient data: Only 1 sample(s) found at time point"
  | indexError          -- IndexError of `normalize[rank]` (unreachable after the length check: `index_error_unreachable`)
  deriving DecidableEq, Repr, Inhabited

def NNErr.cls : NNErr → String
  | .timex e => e.cls
  | .noCells | .dZero => "Internal:ZeroDivisionError"
  | .missingKey | .wrongLength | .dNegative | .dLength | .singleton => "ValueError"
  | .dNone => "TypeError"
  | .indexError => "Internal:IndexError"

/-! ### arguments -/

/-- Sequence-like normalisation targets: every sized, non-bool, non-dict object.  Since the repair
    all four forms are treated alike (`validate_normalize_parameter` tests `hasattr(normalize,
    "__len__")`, `compute_average_cell_count` accepts lists, tuples, JAX arrays and anything with
    `__array__`); the form is kept so that the theorems quantify over it. -/
inductive SeqKind where
  | list | jaxArray | tuple | numpyArray
  deriving DecidableEq, Repr, Inhabited

/-- The `normalize` / `normalize_per_time_point` argument. -/
inductive NormArg (α θ : Type) where
  | off                                   -- `False` or `None`
  | avg                                   -- `True`
  | seq (k : SeqKind) (vals : List α)     -- targets ordered from earliest to latest
  | dict (entries : List (θ × α))         -- time stamp ↦ target
  deriving Repr

def NormArg.isOn {α θ : Type} : NormArg α θ → Bool
  | .off => false
  | _ => true

/-- The `d` argument. -/
inductive DArg (α : Type) where
  | none
  | scalar (v : α)
  | perCell (vs : List α)
  deriving Repr

/-- The cells after the merge: state coordinates and time key per row. -/
structure Cells (α θ : Type) where
  pts : List (List α)
  times : List θ
  deriving Repr

/-! ### sorted unique time stamps (`jnp.unique`) -/

section uniq
variable {θ : Type} [DecidableEq θ] [LT θ] [DecidableLT θ]

def insertU (t : θ) : List θ → List θ
  | [] => [t]
  | u :: us => if t < u then t :: u :: us else if t = u then u :: us else u :: insertU t us

def uniqueSorted (l : List θ) : List θ := l.foldr insertU []

/-- Row indices of the cells at time `t` (the positions where `x[:, -1] == t`), ascending. -/
def groupIdx (times : List θ) (t : θ) : List Nat :=
  (List.range times.length).filter fun i => times[i]? = some t

end uniq

/-! ### distances -/

section numeric
variable {α : Type} [Add α] [Sub α] [Mul α] [Div α] [OfNat α 0] [OfNat α 1] [OfScientific α]
  [LT α] [DecidableLT α] [Transc α] [NatCast α]

/-- `Σₖ (xₖ − yₖ)²`. -/
def sqDist : List α → List α → α
  | a :: as, b :: bs => (a - b) * (a - b) + sqDist as bs
  | _, _ => 0

/-- The Euclidean metric of sklearn's KD/Ball tree. -/
def euclid (x y : List α) : α := sqrt (sqDist x y)

/-- Minimum of a non-empty list (`0` for the empty list, never evaluated: groups have ≥ 2 cells). -/
def minD : List α → α
  | [] => 0
  | a :: as => as.foldl (fun m b => if b < m then b else m) a

/-- Distance from cell `i` to the nearest *other* cell of the group `grp` (brute force; this is
    the contract of `tree.query(x, k=2)[0][:, 1]`). -/
def nnOf (pts : List (List α)) (grp : List Nat) (i : Nat) : α :=
  minD ((grp.filter (· ≠ i)).map fun j => euclid (pts.getD i []) (pts.getD j []))

/-- `out.at[mask].set(vals)` with `vals[p] = g (p-th selected index)`. -/
def scatterMap (out : List α) (idx : List Nat) (g : Nat → α) : List α :=
  idx.foldl (fun o i => o.set i (g i)) out

/-! ### normalisation -/

variable {θ : Type} [DecidableEq θ] [LT θ] [DecidableLT θ]

/-- `validate_normalize_parameter(normalize, unique_times)`. -/
def validateNormalize (norm : NormArg α θ) (uniq : List θ) : Except NNErr Unit :=
  match norm with
  | .dict es =>
    if uniq.all (fun t => es.any (fun e => e.1 = t)) then pure () else throw .missingKey
  | .seq _ vs =>
    if vs.length ≠ uniq.length then throw .wrongLength else pure ()
  | _ => pure ()

/-- `validate_float_or_iterable_numerical(d, optional=False, positive=True)` and the length test. -/
def validateD (n : Nat) : DArg α → Except NNErr Unit
  | .none => throw .dNone
  | .scalar v => if v < 0 then throw .dNegative else pure ()
  | .perCell vs =>
    if vs.any (fun v => v < 0) then throw .dNegative
    else if vs.length ≠ n then throw .dLength else pure ()

/-- `_get_target_cell_count(normalize, time, av_cells_per_tp, unique_times)`; `rank` is the position
    of `time` among the sorted unique time stamps. -/
def targetCount (norm : NormArg α θ) (t : θ) (rank : Nat) (avg : α) : Except NNErr α :=
  match norm with
  | .off => pure avg
  | .avg => pure avg
  | .dict es =>
    match es.find? (fun e => e.1 = t) with
    | some e => pure e.2
    | none => throw .missingKey
  | .seq _ vs =>
    match vs[rank]? with
    | some v => pure v
    | none => throw .indexError

/-- `d` of cell `i`. -/
def dAt (d : DArg α) (i : Nat) : α :=
  match d with
  | .none => 1
  | .scalar v => v
  | .perCell vs => vs.getD i 1

/-- `(n_t / N_t) ** (1 / d)`. -/
def normFactor (nt Nt d : α) : α := rpow (nt / Nt) (1 / d)

/-- A Python scalar `d == 0`: then `1 / d` raises `ZeroDivisionError`. -/
def dIsZero (d : DArg α) : Bool :=
  match d with
  | .scalar v => !(v < 0) && !(0 < v)
  | _ => false

/-- The body of the loop `for time in unique_times:` for the time stamp `t` (the `rank`-th
    smallest): refusals, and otherwise the value written to cell `i` of the group
    (`factor * nn_distances_at_time`, or the plain distance without normalisation). -/
def groupVals (c : Cells α θ) (d : DArg α) (norm : NormArg α θ) (avg : α) (t : θ) (rank : Nat) :
    Except NNErr (Nat → α) :=
  let idx := groupIdx c.times t
  if idx.length < 2 then throw .singleton
  else if norm.isOn then
    match targetCount norm t rank avg with
    | .error e => throw e
    | .ok Nt =>
      if dIsZero d then throw .dZero
      else pure fun i => normFactor (idx.length : α) Nt (dAt d i) * nnOf c.pts idx i
  else pure fun i => nnOf c.pts idx i

/-- The loop (ascending time stamps), with the running `rank` and output:
    `nn_distances = nn_distances.at[mask].set(nn_distances_at_time)`. -/
def nnLoop (c : Cells α θ) (d : DArg α) (norm : NormArg α θ) (avg : α) :
    List θ → Nat → List α → Except NNErr (List α)
  | [], _, out => pure out
  | t :: rest, rank, out =>
    match groupVals c d norm avg t rank with
    | .error e => throw e
    | .ok g => nnLoop c d norm avg rest (rank + 1) (scatterMap out (groupIdx c.times t) g)

/-- `compute_nn_distances_within_time_points` after the merge. -/
def nnCells (c : Cells α θ) (d : DArg α) (norm : NormArg α θ) : Except NNErr (List α) :=
  let n := c.times.length
  let uniq := uniqueSorted c.times
  if n = 0 then throw .noCells
  else
    let avg : α := (n : α) / (uniq.length : α)
    match validateNormalize norm uniq with
    | .error e => throw e
    | .ok _ =>
      match (if norm.isOn then validateD n d else pure ()) with
      | .error e => throw e
      | .ok _ => nnLoop c d norm avg uniq 0 (List.replicate n 0)

/-- Split the merged matrix into state columns and time keys. -/
def cellsOf (key : α → θ) (M : Merged α) : Cells α θ :=
  ⟨stateCols M.rows, (timeCol M.rows).map key⟩

/-- `compute_nn_distances_within_time_points(x, times, d, normalize)`. -/
def nnWithinTimePoints [IntCast α] (key : α → θ) (x : XArg α) (times : TimeArg α) (d : DArg α)
    (norm : NormArg α θ) : Except NNErr (List α) :=
  match validateTimeX x times none false with
  | .err e => throw (.timex e)
  | .ok M => nnCells (cellsOf key M) d norm

/-! ### `n_obs`, `ls` and the estimator wiring -/

def lsum : List α → α
  | [] => 0
  | a :: as => a + lsum as

/-- The dict entry of a time stamp (`normalize[t.item()]`; `0` for a missing key, never read:
    the dict is validated first). -/
def dictVal (es : List (θ × α)) (t : θ) : α :=
  match es.find? (fun e => e.1 = t) with
  | some e => e.2
  | none => 0

/-- `compute_average_cell_count(x, normalize)`: the target is validated first; a dict is averaged
    over the time points present in `x` only. -/
def avgCellCount (times : List θ) (norm : NormArg α θ) : Except NNErr α :=
  let uniq := uniqueSorted times
  let nu : α := (uniq.length : α)
  match validateNormalize norm uniq with
  | .error e => throw e
  | .ok _ =>
    match norm with
    | .off | .avg => pure ((times.length : α) / nu)
    | .dict es => pure (lsum (uniq.map (dictVal es)) / nu)
    | .seq _ vs => pure (lsum vs / (vs.length : α))

/-- `util.mle(nn_distances, d) = gammaln(d/2 + 1) − (d/2)·log π − d·log(nn_distances)`. -/
def mleNN (r d : α) : α := lgamma (d / 2.0 + 1) - (d / 2.0) * log Transc.pi - d * log r

/-- `compute_ls(nn_distances) = exp(mean(log nn) + 3)`. -/
def tsComputeLs (nn : List α) : α :=
  exp (lsum (nn.map log) / (nn.length : α) + 3.0)

/-- `TimeSensitiveDensityEstimator._compute_ls`: with normalisation on, the heuristic recomputes
    the un-normalised distances from `x`; `stored` is `self.nn_distances`. -/
def tsLs (c : Cells α θ) (norm : NormArg α θ) (stored : List α) (lsFactor : α) : Except NNErr α :=
  if norm.isOn then
    match nnCells c .none (.off : NormArg α θ) with
    | .error e => throw e
    | .ok raw => pure (tsComputeLs raw * lsFactor)
  else pure (tsComputeLs stored * lsFactor)

/-- `self.nn_distances`: explicitly supplied distances are used as they are, otherwise
    `_compute_nn_distances` (followed by `validate_nn_distances`, the identity on positive finite
    distances, which is all this model covers). -/
def tsNN (c : Cells α θ) (d : DArg α) (norm : NormArg α θ) (supplied : Option (List α)) :
    Except NNErr (List α) :=
  match supplied with
  | some v => pure v
  | none => nnCells c d norm

end numeric

end Mellon
