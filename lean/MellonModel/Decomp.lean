/-
  MellonModel.Decomp — `mellon.decomposition` (`_full_rank`, `_standard_low_rank`, and the assembly
  step of the two Nyström factors) and the dispatch of `mellon.parameters.compute_L / compute_Lp`.
  `eigh` and `qr` are external: their results enter as data with a stated contract
  (MellonProofs/C04.lean); rank selection is in MellonModel/RankSelect (property C10).
-/
import MellonModel.Conditional
import MellonModel.Params
namespace Mellon

variable {α : Type} [Add α] [Sub α] [Mul α] [Div α] [Neg α] [OfNat α 0] [OfNat α 1]
  [OfScientific α] [Max α] [LT α] [DecidableLT α] [Transc α]

/-- `sigma2 = where(sigma² < jitter, jitter, sigma²)`. -/
def regSigma2 (sigma jitter : α) : α :=
  if sigma * sigma < jitter then jitter else sigma * sigma

/-- `_full_rank(x, cov_func, sigma, jitter)`: Cholesky factor of `K + max(σ², jitter)·I`;
    `none` is the `ValueError` ("Covariance not positively definite"). -/
def fullRank {n d : Nat} (cov : Cov α) (x : Mat α n d) (sigma jitter : α) : Option (Mat α n n) :=
  chol? (stabilize (gram cov x x) (regSigma2 sigma jitter))

/-- `_standard_low_rank(x, cov_func, xu, Lp, sigma, jitter)`: `L = solve_triangular(Lp, Cᵀ, lower)ᵀ`
    with `C = cov(x, xu)`; `Lp` is computed by `_full_rank` on the landmarks when not supplied. -/
def standardLowRank {n m d : Nat} (cov : Cov α) (x : Mat α n d) (xu : Mat α m d)
    (Lp : Option (Mat α m m)) (sigma jitter : α) : Option (Mat α n m) :=
  let Lp? := match Lp with
    | some L => some L
    | Option.none => fullRank cov xu sigma jitter
  match Lp? with
  | Option.none => Option.none
  | some Lp => some (Mat.transpose (solveLowerM Lp (gram cov xu x)))

/-- Assembly of a Nyström factor from `p` eigen-pairs: `L = V_p · diag(√s_p)` (`v * sqrt(s)`).
    `V` holds the selected eigenvectors as columns (`n × p`), `s` the matching eigenvalues. -/
def nystroemFactor {n p : Nat} (V : Mat α n p) (s : Vector α p) : Mat α n p :=
  Mat.ofFn fun i k => V.el i k * sqrt (s.nth k)

/-- Assembly of the improved-Nyström factor `L = Q V √S` (`Q @ V * sqrt(S)`). -/
def modifiedFactor {n m p : Nat} (Q : Mat α n m) (V : Mat α m p) (S : Vector α p) : Mat α n p :=
  Mat.ofFn fun i k => (nsum m fun t => Q.el i t * V.el t k) * sqrt (S.nth k)

/-- The inner matrix of `_modified_low_rank`: `T/s @ Tᵀ` with `T = R @ v`. -/
def modifiedInner {m : Nat} (R v : Mat α m m) (s : Vector α m) : Mat α m m :=
  let T : Mat α m m := matMul R v
  Mat.ofFn fun i k => nsum m fun t => T.el i t / s.nth t * T.el k t

-- GP types (`util.GaussianProcessType`): `GPType` is defined in MellonModel/Params.lean.

/-- Which routine `compute_L` runs, and the shape of its result (`rows × cols`), given the number of
    cells `n`, of landmarks `m` and the retained rank `p` of the eigen-truncation. -/
inductive LRoutine where
  | fullRank | lpPassThrough | fullNystroem | standardLowRank | modifiedLowRank
  deriving Repr, DecidableEq

def computeLRoutine (gp : GPType) (lpGiven : Bool) : LRoutine :=
  match gp with
  | .full => if lpGiven then .lpPassThrough else .fullRank
  | .fullNystroem => .fullNystroem
  | .sparseCholesky | .fixed => .standardLowRank
  | .sparseNystroem => .modifiedLowRank

def computeLShape (gp : GPType) (n m p : Nat) : Nat × Nat :=
  match gp with
  | .full => (n, n)
  | .fullNystroem | .sparseNystroem => (n, p)
  | .sparseCholesky | .fixed => (n, m)

/-- The shape test on a user-supplied `Lp` in `validate_compute_L_input`: `true` = accepted. -/
def lpShapeOk (gp : GPType) (n m : Nat) (lpRows lpCols : Nat) : Bool :=
  match gp with
  | .full => lpRows == n && lpCols == n
  | .sparseCholesky | .fixed => lpRows == m && lpCols == m
  | _ => true

/-- `compute_Lp`: `None` for the Nyström types, the Cholesky factor on the cells (full) or on the
    landmarks (sparse_cholesky / fixed). -/
inductive LpRoutine where
  | none | fullRankCells | fullRankLandmarks
  deriving Repr, DecidableEq

def computeLpRoutine (gp : GPType) : LpRoutine :=
  match gp with
  | .fullNystroem | .sparseNystroem => .none
  | .full => .fullRankCells
  | .sparseCholesky | .fixed => .fullRankLandmarks

end Mellon
