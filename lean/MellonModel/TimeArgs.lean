/-
  MellonModel.TimeArgs — the time arguments of time-aware predictors (property C13).

  Mirrors, as they are in /repo NOW (after the `fix:` commits 924698a and a151203):
    * `mellon.validation.validate_time_x`   (with `validate_array` for `x` and `times`),
    * `mellon.util.make_multi_time_argument` (the `multi_time` wrapper: conflict test on the *bound*
      `time` argument, `validate_array(multi_time)`, `vmap(at_time, in_axes=0, out_axes=1)`),
    * the eight methods of `mellon.base_predictor.PredictorTime`
      (`mean/__call__`, `covariance`, `mean_covariance`, `uncertainty`, `time_derivative`,
       `gradient`, `hessian`, `hessian_log_determinant`).

  Everything here is data movement and decisions over shapes: no rounding is involved, so the model
  is exact.  It is polymorphic in the element type `τ` (only `IntCast τ` is used, for Python `int`
  time stamps that `asarray(..., dtype=float)` converts); the theorems hold for every `τ`.

  Design: JAX decides every refusal from *shapes* only (that is what makes the code traceable under
  `vmap`), so the model separates
    * `xtErr?`      — the refusal decision of `validate_time_x`, a function of shapes only, and
    * `mergedVal`   — the merged matrix that is built when nothing is refused.
  `vmap` traces `at_time` ONCE on an abstract row of `multi_time` (also when `multi_time` is empty),
  then evaluates it per row: `call` reproduces exactly that.
-/
namespace Mellon

/-! ### outcome classes -/

/-- Which `ValueError` (identified in the harness by a fragment of the message). -/
inductive VKind where
  | xNdim          -- "'x' must be a (2,)-dimensional array"
  | timesNdim      -- "'times' must be a (1, 2)-dimensional array"
  | timesCols      -- "'times' must be a 1D array or a 2D array with 1 column."
  | length         -- "'x' and 'times' must have the same number of samples."
  | missingTime    -- "Expected f features including 'times' in 'x' but only found …"
  | features       -- "Wrong number of features in 'x'."
  | bothTimeMulti  -- "Cannot specify both 'time' and 'multi_time' arguments"
  | noNObs         -- "Cannot normalize without n_obs."
  | vmapRank       -- jax: "vmap was requested to map its argument along axis 0, …" (0-d multi_time)
  deriving DecidableEq, Repr, Inhabited

/-- Which `TypeError`. -/
inductive TKind where
  | xNone             -- "'x' can't be None."
  | xNotIterable      -- "'x' should be iterable or sparse"
  | timesNotIterable  -- "'times' should be iterable or sparse"   (scalar without `cast_scalar`)
  | multiNotIterable  -- "'multi_time' should be iterable or sparse"
  | missingArg        -- Python: "missing 1 required positional argument: 'time'"
  | normalizeNotBool  -- "normalize should be of type bool"
  deriving DecidableEq, Repr, Inhabited

inductive Err where
  | value (k : VKind)
  | type (k : TKind)
  deriving DecidableEq, Repr, Inhabited

/-- The canonical outcome class of the harness (`common.exc_class`). -/
def Err.cls : Err → String
  | .value _ => "ValueError"
  | .type _ => "TypeError"

inductive TOutcome (β : Type) where
  | ok (v : β)
  | err (e : Err)
  deriving Repr, DecidableEq

def TOutcome.map {β γ : Type} (f : β → γ) : TOutcome β → TOutcome γ
  | .ok v => .ok (f v)
  | .err e => .err e

/-! ### arguments as the validators see them -/

/-- The `x` / `Xnew` argument. -/
inductive XArg (τ : Type) where
  | none                                      -- `None`
  | pyScalar                                  -- a Python / NumPy scalar (not `Iterable`)
  | other (ndim : Nat)                        -- an array-like whose rank is not 2 (and, for rank 1, see `vec`)
  | vec (data : List τ)                       -- a rank-1 array-like: one feature per cell when the time is given separately
  | mat (n c : Nat) (rows : List (List τ))    -- an `n × c` array-like
  deriving Repr

/-- The `time` / `times` argument. -/
inductive TimeArg (τ : Type) where
  | none
  | pyInt (v : Int)                               -- Python `int`, NumPy integer scalar, `bool`
  | pyFloat (v : τ)                               -- Python `float`, NumPy floating scalar
  | array (shape : List Nat) (data : List τ)      -- NumPy / JAX array of any rank (0-d: `shape = []`)
  | pyList (shape : List Nat) (data : List τ)     -- (nested) list / tuple of regular shape, rank ≥ 1
  deriving Repr

/-- What the shape tests see of `times`. -/
inductive TShape where
  | none
  | scalar
  | arr (shape : List Nat)
  deriving DecidableEq, Repr

def listProd : List Nat → Nat
  | [] => 1
  | a :: as => a * listProd as

section
variable {τ : Type}

def TimeArg.shape : TimeArg τ → TShape
  | .none => .none
  | .pyInt _ => .scalar
  | .pyFloat _ => .scalar
  | .array s _ => .arr s
  | .pyList s _ => .arr s

/-- The flat values, as floats (`asarray(times, dtype=float)`). -/
def TimeArg.data [IntCast τ] : TimeArg τ → List τ
  | .none => []
  | .pyInt v => [Int.cast v]
  | .pyFloat v => [v]
  | .array _ d => d
  | .pyList _ d => d

/-- `shape` and `data` agree (`data.length = prod shape`): every real array satisfies it. -/
def TimeArg.WF : TimeArg τ → Prop
  | .array s d => d.length = listProd s
  | .pyList s d => d.length = listProd s
  | _ => True

/-- `n × c` with `rows` really of that shape. -/
def XArg.WF : XArg τ → Prop
  | .mat n c rows => rows.length = n ∧ ∀ r ∈ rows, r.length = c
  | _ => True

/-! ### `validate_time_x` -/

/-- The `cast_scalar` block, on shapes:
    ```
    if not isscalar(times):
        times = asarray(times, dtype=float)
        if times.size == 1: times = times.reshape(())
    if isscalar(times) or times.ndim == 0: times = full(x.shape[0], times)
    ``` -/
def castShape (n : Nat) : TShape → TShape
  | .none => .none
  | .scalar => .arr [n]
  | .arr s => if listProd s = 1 then .arr [n] else .arr s

/-- `validate_array(times, optional=True, ndim=(1, 2))`, the column test and the length test. -/
def timesErr? (n : Nat) : TShape → Option Err
  | .none => Option.none
  | .scalar => some (.type .timesNotIterable)
  | .arr [k] => if k = n then Option.none else some (.value .length)
  | .arr [k, c] =>
    if c ≠ 1 then some (.value .timesCols)
    else if k = n then Option.none else some (.value .length)
  | .arr _ => some (.value .timesNdim)

/-- The final `n_features` test (`cols` = width after the merge). -/
def featErr? (cols : Nat) (hasTime : Bool) : Option Nat → Option Err
  | Option.none => Option.none
  | some f =>
    if cols + 1 = f ∧ hasTime = false then some (.value .missingTime)
    else if cols ≠ f then some (.value .features)
    else Option.none

def TShape.isNone : TShape → Bool
  | .none => true
  | _ => false

/-- Every refusal of `validate_time_x(x, times, n_features, cast_scalar)`, in the order of the code. -/
def xtErr? (x : XArg τ) (ts : TShape) (nf : Option Nat) (cast : Bool) : Option Err :=
  match x with
  | .none => some (.type .xNone)
  | .pyScalar => some (.type .xNotIterable)
  | .other _ => some (.value .xNdim)
  | .vec data =>
    -- `validate_array(x, ndim=(1, 2))` + `reshape(-1, 1)` when `times` is given, else `ndim=2`
    if ts.isNone then some (.value .xNdim)
    else
      let ts' := if cast then castShape data.length ts else ts
      match timesErr? data.length ts' with
      | some e => some e
      | Option.none => featErr? 2 true nf
  | .mat n c _ =>
    let ts' := if cast then castShape n ts else ts
    match timesErr? n ts' with
    | some e => some e
    | Option.none => featErr? (if ts.isNone then c else c + 1) (!ts.isNone) nf

/-- Does the `cast_scalar` block replace `times` by `full(n, times)`? -/
def TShape.broadcasts : TShape → Bool
  | .none => false
  | .scalar => true
  | .arr s => listProd s = 1

/-- The time column that is appended (`times.reshape(-1, 1)` after the optional broadcast). -/
def timesColumn [IntCast τ] (n : Nat) (cast : Bool) (t : TimeArg τ) : List τ :=
  if cast && t.shape.broadcasts then
    match t.data with
    | v :: _ => List.replicate n v
    | [] => []
  else t.data

/-- `concatenate((x, times), axis=1)`. -/
def appendCol (rows : List (List τ)) (col : List τ) : List (List τ) :=
  List.zipWith (fun r v => r ++ [v]) rows col

/-- A matrix given by its shape and rows. -/
structure Merged (τ : Type) where
  n : Nat
  c : Nat
  rows : List (List τ)
  deriving Repr, DecidableEq

/-- The array `validate_time_x` returns when it does not refuse. -/
def mergedVal [IntCast τ] (x : XArg τ) (t : TimeArg τ) (cast : Bool) : Merged τ :=
  match x with
  | .mat n c rows =>
    if t.shape.isNone then ⟨n, c, rows⟩ else ⟨n, c + 1, appendCol rows (timesColumn n cast t)⟩
  | .vec data =>
    if t.shape.isNone then ⟨0, 0, []⟩
    else ⟨data.length, 2, appendCol (data.map fun v => [v]) (timesColumn data.length cast t)⟩
  | _ => ⟨0, 0, []⟩

/-- `validate_time_x(x, times, n_features, cast_scalar)`. -/
def validateTimeX [IntCast τ] (x : XArg τ) (t : TimeArg τ) (nf : Option Nat) (cast : Bool) :
    TOutcome (Merged τ) :=
  match xtErr? x t.shape nf cast with
  | some e => .err e
  | Option.none => .ok (mergedVal x t cast)

/-! ### the eight methods of `PredictorTime` -/

inductive Meth where
  | mean | covariance | meanCovariance | uncertainty
  | timeDerivative | gradient | hessian | hessianLogDet
  deriving DecidableEq, Repr, Inhabited

def Meth.all : List Meth :=
  [.mean, .covariance, .meanCovariance, .uncertainty, .timeDerivative, .gradient, .hessian,
   .hessianLogDet]

/-- Every method declares `time=None` (the four derivative methods had no default before the repair of
    finding H3-C2: `p.gradient(Xt)` raised `TypeError: missing 1 required positional argument`). -/
def Meth.timeRequired : Meth → Bool
  | _ => false

/-- Keyword flags.  `normalize = none` stands for a value that is not a `bool`. -/
structure Flags where
  normalize : Option Bool := some false
  diag : Bool := true
  deriving Repr, DecidableEq

/-- The predictor family behind a `PredictorTime`: its routines are parameters (uninterpreted).
    `Out` is whatever they return. -/
structure Family (τ Out : Type) where
  nFeatures : Nat                                   -- `n_input_features` (state columns + 1)
  nObsOk : Bool                                     -- `n_obs` is neither `None` nor `0`
  mean : List (List τ) → Out                        -- `_mean(Xnew)`
  meanNormalized : List (List τ) → Out              -- `_mean(Xnew) - log(n_obs)`
  covariance : Bool → List (List τ) → Out           -- `_covariance(Xnew, diag)`
  meanCovariance : Bool → List (List τ) → Out       -- `_mean_covariance(Xnew, diag)`
  uncertainty : Bool → List (List τ) → Out          -- `_covariance + _mean_covariance`
  timeDerivative : List (List τ) → Out              -- `Predictor.gradient(Xnew)[:, -1]`
  gradient : List (List τ) → List τ → Out           -- `derivatives.gradient(self.mean, X, time)`
  hessian : List (List τ) → List τ → Out
  hessianLogDet : List (List τ) → List τ → Out

/-- `Xnew[:, :-1]`. -/
def stateCols (rows : List (List τ)) : List (List τ) := rows.map List.dropLast

/-- `Xnew[:, -1]` (rows are never empty here: the merged width is `n_input_features ≥ 1`). -/
def timeCol (rows : List (List τ)) : List τ := rows.filterMap List.getLast?

/-- Refusals after the merge (they do not depend on the data). -/
def routineErr? {Out : Type} (P : Family τ Out) (m : Meth) (fl : Flags) : Option Err :=
  match m with
  | .mean =>
    match fl.normalize with
    | Option.none => some (.type .normalizeNotBool)
    | some true => if P.nObsOk then Option.none else some (.value .noNObs)
    | some false => Option.none
  | _ => Option.none

/-- What the method computes from the merged matrix. -/
def routineVal {Out : Type} (P : Family τ Out) (m : Meth) (fl : Flags) (M : Merged τ) : Out :=
  match m with
  | .mean => if fl.normalize = some true then P.meanNormalized M.rows else P.mean M.rows
  | .covariance => P.covariance fl.diag M.rows
  | .meanCovariance => P.meanCovariance fl.diag M.rows
  | .uncertainty => P.uncertainty fl.diag M.rows
  | .timeDerivative => P.timeDerivative M.rows
  | .gradient => P.gradient (stateCols M.rows) (timeCol M.rows)
  | .hessian => P.hessian (stateCols M.rows) (timeCol M.rows)
  | .hessianLogDet => P.hessianLogDet (stateCols M.rows) (timeCol M.rows)

/-- Refusals of a method body: first `validate_time_x(…, n_features=self.n_input_features,
    cast_scalar=True)`, then the method's own. -/
def bodyErr? {Out : Type} (P : Family τ Out) (m : Meth) (fl : Flags) (x : XArg τ) (ts : TShape) :
    Option Err :=
  match xtErr? x ts (some P.nFeatures) true with
  | some e => some e
  | Option.none => routineErr? P m fl

def bodyVal [IntCast τ] {Out : Type} (P : Family τ Out) (m : Meth) (fl : Flags) (x : XArg τ)
    (t : TimeArg τ) : Out :=
  routineVal P m fl (mergedVal x t true)

/-- The undecorated method. -/
def body [IntCast τ] {Out : Type} (P : Family τ Out) (m : Meth) (fl : Flags) (x : XArg τ)
    (t : TimeArg τ) : TOutcome Out :=
  match bodyErr? P m fl x t.shape with
  | some e => .err e
  | Option.none => .ok (bodyVal P m fl x t)

/-! ### `make_multi_time_argument` -/

/-- How `time` reaches the wrapper. -/
inductive TimePass (τ : Type) where
  | absent
  | positional (t : TimeArg τ)
  | keyword (t : TimeArg τ)
  deriving Repr

def TimePass.value : TimePass τ → TimeArg τ
  | .absent => .none
  | .positional t => t
  | .keyword t => t

def TimePass.isAbsent : TimePass τ → Bool
  | .absent => true
  | _ => false

/-- The `multi_time` keyword. -/
inductive MultiArg (τ : Type) where
  | absent                                            -- not passed, or `None`
  | pyScalar                                          -- not `Iterable`
  | arr0                                              -- a 0-d array
  | arr (rowShape : List Nat) (rows : List (List τ))  -- shape `(k,) + rowShape`, `k = rows.length`
  deriving Repr

/-- Result of a call: a single value or, for `multi_time`, the values stacked along axis 1
    (`stacked outs` stands for the array `A` with `A[:, k] = outs[k]`). -/
inductive Res (Out : Type) where
  | single (v : Out)
  | stacked (outs : List Out)
  deriving Repr, DecidableEq

/-- A call `p.m(x, <time>, <flags>, multi_time=<mt>)` of the decorated method. -/
def call [IntCast τ] {Out : Type} (P : Family τ Out) (m : Meth) (fl : Flags) (x : XArg τ)
    (tp : TimePass τ) (mt : MultiArg τ) : TOutcome (Res Out) :=
  match mt with
  | .absent =>
    if m.timeRequired && tp.isAbsent then .err (.type .missingArg)
    else (body P m fl x tp.value).map .single
  | .pyScalar =>
    if !tp.value.shape.isNone then .err (.value .bothTimeMulti) else .err (.type .multiNotIterable)
  | .arr0 =>
    if !tp.value.shape.isNone then .err (.value .bothTimeMulti) else .err (.value .vmapRank)
  | .arr rs rows =>
    if !tp.value.shape.isNone then .err (.value .bothTimeMulti)
    else
      -- `vmap` traces `at_time` once on an abstract row of shape `rs` …
      match bodyErr? P m fl x (.arr rs) with
      | some e => .err e
      -- … and evaluates it for every row; `out_axes=1` stacks the results along axis 1
      | Option.none => .ok (.stacked (rows.map fun r => bodyVal P m fl x (.array rs r)))

end

end Mellon
