/-
  MellonModel.Persist — `Predictor.__getstate__ / __setstate__ / from_dict / copy / to_json / from_json`
  of `mellon/base_predictor.py` (as it is now), over the value and kernel syntax of `Serial.lean`:

  * a predictor object = class tag (one of the 9 classes of `mellon.conditional`) + instance attributes
    (`_state_variables`, the state arrays / scalars, `n_obs`, `n_input_features`) + nested kernel;
  * the legacy (< 1.4.0) upgrade path of `from_dict`;
  * the compression decision table of `to_json` / `from_json` as pure functions of
    (file name, is it a `str` or a path object, `compress` keyword), the file system being an abstract
    map name ↦ (format, text) — gzip / bz2 / open are byte round-trip contracts;
  * `copy` in an allocation-id model (as fixed: lists are rebuilt, nothing is shared).
  Core Lean only; exact.
-/
import MellonModel.Serial
namespace Mellon

/-! ### predictor objects -/

inductive PredClass where
  | full | expFull | fullTime
  | lm | expLm | lmTime
  | chol | expChol | cholTime
  deriving DecidableEq, Repr, Inhabited

def PredClass.name : PredClass → String
  | .full => "FullConditional"
  | .expFull => "ExpFullConditional"
  | .fullTime => "FullConditionalTime"
  | .lm => "LandmarksConditional"
  | .expLm => "ExpLandmarksConditional"
  | .lmTime => "LandmarksConditionalTime"
  | .chol => "LandmarksConditionalCholesky"
  | .expChol => "ExpLandmarksConditionalCholesky"
  | .cholTime => "LandmarksConditionalCholeskyTime"

def PredClass.all : List PredClass :=
  [.full, .expFull, .fullTime, .lm, .expLm, .lmTime, .chol, .expChol, .cholTime]

def PredClass.ofName? (s : String) : Option PredClass :=
  PredClass.all.find? fun c => c.name = s

/-- A predictor instance: its class, its `__dict__` without `cov_func`, and the kernel. -/
structure Pred where
  cls : PredClass
  attrs : List (String × PyVal)
  cov : Cov PyVal
  deriving Repr, Inhabited

def getAttr (attrs : List (String × PyVal)) (k : String) : PyM PyVal :=
  match alookup k attrs with
  | some v => .ok v
  | Option.none => .error (.internal "AttributeError")

def strsOfPy : List PyVal → Option (List String)
  | [] => some []
  | .str s :: r => (strsOfPy r).map (s :: ·)
  | _ => Option.none

/-- Iterating `_state_variables` (a set, or a list / tuple, of attribute names). -/
def stateVarNames : PyVal → PyM (List String)
  | .set xs => match strsOfPy xs with
    | some ns => .ok ns
    | Option.none => .error (.typeError "attribute-name")
  | .list xs => match strsOfPy xs with
    | some ns => .ok ns
    | Option.none => .error (.typeError "attribute-name")
  | .tuple xs => match strsOfPy xs with
    | some ns => .ok ns
    | Option.none => .error (.typeError "attribute-name")
  | _ => .error (.unmodelled "state-variables")

/-- `_data_dict`: `{key: getattr(self, key) for key in self._state_variables}` -/
def dataDict (attrs : List (String × PyVal)) : List String → PyM (List (String × PyVal))
  | [] => .ok []
  | k :: ks => match getAttr attrs k, dataDict attrs ks with
    | .ok v, .ok r => .ok ((k, v) :: r)
    | .error e, _ => .error e
    | _, .error e => .error e

/-- `d[k] = v` on an insertion-ordered dict. -/
def dictSet (k : String) (v : PyVal) : List (String × PyVal) → List (String × PyVal)
  | [] => [(k, v)]
  | (k', v') :: r => if k' = k then (k, v) :: r else (k', v') :: dictSet k v r

/-- The `data` dict of `__getstate__` before `make_serializable` is mapped over it. -/
def predData (p : Pred) : PyM (List (String × PyVal)) :=
  match getAttr p.attrs "_state_variables" with
  | .error e => .error e
  | .ok sv =>
    match stateVarNames sv with
    | .error e => .error e
    | .ok names =>
      match dataDict p.attrs names with
      | .error e => .error e
      | .ok d0 =>
        match getAttr p.attrs "n_input_features", getAttr p.attrs "n_obs" with
        | .ok nif, .ok nobs =>
          .ok (dictSet "_state_variables" sv (dictSet "n_obs" nobs (dictSet "n_input_features" nif d0)))
        | .error e, _ => .error e
        | _, .error e => .error e

def predModule : String := "mellon.conditional"

/-- `Predictor.__getstate__` (= `to_dict`). -/
def predGetState (m : Meta) (p : Pred) : PyM PyVal :=
  match predData p with
  | .error e => .error e
  | .ok data =>
    .ok (.dict [("data", .dict (makeSerializableK data)), ("cov_func", covToDict m p.cov),
                ("metadata", metaDict m p.cls.name predModule)])

/-- `Predictor.__setstate__` on a fresh instance of class `cls`. -/
def predSetState (cls : PredClass) : PyVal → PyM Pred
  | .dict kvs =>
    match alookup "data" kvs with
    | Option.none => .error (.internal "KeyError")
    | some (.dict d) =>
      match deserializeK d with
      | .error e => .error e
      | .ok attrs =>
        match alookup "cov_func" kvs with
        | Option.none => .error (.internal "KeyError")
        | some cs => match covFromDict cs with
          | .error e => .error e
          | .ok c => .ok ⟨cls, attrs, c⟩
    | some _ => .error (.internal "AttributeError")
  | _ => .error (.typeError "not-subscriptable")

/-! ### the legacy upgrade path -/

def digitVal? (c : Char) : Option Nat := if '0' ≤ c ∧ c ≤ '9' then some (c.toNat - 48) else Option.none

/-- Dotted-numeral version strings (`"1.3.1"`); anything else (pre-releases, local versions) is
    outside the model. `acc` = digits of the current segment read so far. -/
def parseVersionAux : List Char → Option Nat → Option (List Nat)
  | [], some n => some [n]
  | [], Option.none => Option.none
  | c :: cs, acc =>
    if c = '.' then
      match acc with
      | some n => (parseVersionAux cs Option.none).map (n :: ·)
      | Option.none => Option.none
    else match digitVal? c with
      | some d => parseVersionAux cs (some (acc.getD 0 * 10 + d))
      | Option.none => Option.none

def parseVersion (s : String) : Option (List Nat) := parseVersionAux s.toList Option.none

/-- Release-segment comparison of `packaging.version` (missing segments count as 0). -/
def releaseLt : List Nat → List Nat → Bool
  | [], [] => false
  | [], b :: bs => if 0 < b then true else if b = 0 then releaseLt [] bs else false
  | a :: as, [] => if a = 0 then releaseLt as [] else false
  | a :: as, b :: bs => if a < b then true else if a = b then releaseLt as bs else false

/-- `version.parse(module_version) < version.parse("1.4.0")` -/
def versionLt14 (s : String) : Option Bool := (parseVersion s).map fun v => releaseLt v [1, 4, 0]

/-- `str.replace(pat, rep)` on character lists (left to right, non-overlapping; `fuel` ≥ length). -/
def replaceAllF (pat rep : List Char) : Nat → List Char → List Char
  | 0, l => l
  | _+1, [] => []
  | n+1, c :: cs =>
    if pat.isPrefixOf (c :: cs) then rep ++ replaceAllF pat rep n ((c :: cs).drop pat.length)
    else c :: replaceAllF pat rep n cs

/-- `clsname.replace("ConditionalMean", "Conditional")` -/
def upgradeClassName (s : String) : String :=
  String.ofList (replaceAllF "ConditionalMean".toList "Conditional".toList s.length s.toList)

def keysOf : List (String × PyVal) → List String
  | [] => []
  | (k, _) :: r => k :: keysOf r

/-- The in-place patch `from_dict` applies to `data` of a dict written before 1.4.0:
    `n_obs` defaults to `None`; `_state_variables` defaults to every key but `n_input_features`
    (so it contains `n_obs`). -/
def legacyPatchData (d : List (String × PyVal)) : List (String × PyVal) :=
  let d1 := match alookup "n_obs" d with
    | some _ => d
    | Option.none => d ++ [("n_obs", .none)]
  match alookup "_state_variables" d1 with
  | some _ => d1
  | Option.none =>
    d1 ++ [("_state_variables", .set (((keysOf d1).filter (· != "n_input_features")).map .str))]

def metaStr (md : List (String × PyVal)) (k : String) : PyM String :=
  match alookup k md with
  | some (.str s) => .ok s
  | some _ => .error (.unmodelled "metadata")
  | Option.none => .error (.internal "KeyError")

/-- `getattr(import_module(module_name), clsname)` restricted to the predictor classes. -/
def predClassLookup (module cls : String) : PyM PredClass :=
  if module = predModule then
    match PredClass.ofName? cls with
    | some c => .ok c
    | Option.none => .error (.internal "AttributeError")
  else .error (.unmodelled "class-lookup")

/-- `Predictor.from_dict`. -/
def predFromDict : PyVal → PyM Pred
  | .dict kvs =>
    match alookup "metadata" kvs with
    | Option.none => .error (.internal "KeyError")
    | some (.dict md) =>
      match metaStr md "classname", metaStr md "module_name", metaStr md "module_version" with
      | .ok cls, .ok mo, .ok ver =>
        match versionLt14 ver with
        | Option.none => .error (.unmodelled "version")
        | some false =>
          match predClassLookup mo cls with
          | .error e => .error e
          | .ok c => predSetState c (.dict kvs)
        | some true =>
          let cls' := if mo = predModule then upgradeClassName cls else cls
          match alookup "data" kvs with
          | some (.dict d) =>
            match predClassLookup mo cls' with
            | .error e => .error e
            | .ok c => predSetState c (.dict (dictSet "data" (.dict (legacyPatchData d)) kvs))
          | some _ => .error (.internal "AttributeError")
          | Option.none => .error (.internal "KeyError")
      | .error e, _, _ => .error e
      | _, .error e, _ => .error e
      | _, _, .error e => .error e
    | some _ => .error (.unmodelled "metadata")
  | _ => .error (.typeError "not-subscriptable")

/-- `Predictor.from_dict(p.to_dict())` -/
def predRoundTripDict (m : Meta) (p : Pred) : PyM Pred :=
  match predGetState m p with
  | .ok s => predFromDict s
  | .error e => .error e

/-- `Predictor.from_json_str(p.to_json())` for any codec meeting the text contract. -/
def predRoundTripJsonWith {Text : Type} (C : JsonCodec Text) (m : Meta) (p : Pred) : PyM Pred :=
  match predGetState m p with
  | .error e => .error e
  | .ok s => match jsonPass C s with
    | .ok w => predFromDict w
    | .error e => .error e

def predRoundTripJson (m : Meta) (p : Pred) : PyM Pred := predRoundTripJsonWith idCodec m p

/-- `p.copy()`: state round trip on a new instance of the same class (no class lookup, no legacy path). -/
def predCopy (m : Meta) (p : Pred) : PyM Pred :=
  match predGetState m p with
  | .ok s => predSetState p.cls s
  | .error e => .error e

/-- The object a loaded / copied predictor is: attributes = the `data` dict in normal form. -/
def Pred.normalized (f : UInt64 → UInt64) (p : Pred) (data : List (String × PyVal)) : Pred :=
  ⟨p.cls, PyVal.normFK f data, p.cov.mapP (PyVal.normF f)⟩

/-! ### files: compression selection of `to_json` / `from_json` -/

inductive Fmt where
  | plain | gzip | bz2
  deriving DecidableEq, Repr, Inhabited

abbrev FName := List Char

def sfxGz : List Char := ['.', 'g', 'z']
def sfxBz2 : List Char := ['.', 'b', 'z', '2']

def endsWith (name suf : List Char) : Bool := suf.isSuffixOf name

/-- `to_json(filename, compress)`: which name is actually written and in which format.
    `isPath`: the name was given as a `pathlib.Path` (never extended) rather than a `str`. -/
def writeSelect (name : FName) (isPath : Bool) (compress : Option String) : PyM (FName × Fmt) :=
  let c : Option String := match compress with
    | some c => some c
    | Option.none =>
      if endsWith name sfxGz then some "gzip" else if endsWith name sfxBz2 then some "bz2" else Option.none
  match c with
  | Option.none => .ok (name, .plain)
  | some c =>
    if c = "gzip" then .ok (if !isPath && !endsWith name sfxGz then name ++ sfxGz else name, .gzip)
    else if c = "bz2" then .ok (if !isPath && !endsWith name sfxBz2 then name ++ sfxBz2 else name, .bz2)
    else .error (.valueError "compression-format")

/-- `from_json(filepath, compress)`: the opener. An explicit keyword wins; only without keyword
    does the extension decide (`"none"` as a keyword is the same as no keyword). -/
def readSelect (name : FName) (compress : Option String) : Fmt :=
  let c := compress.getD "none"
  if c = "gzip" || (c = "none" && endsWith name sfxGz) then .gzip
  else if c = "bz2" || (c = "none" && endsWith name sfxBz2) then .bz2
  else .plain

/-- File system: name ↦ (format the bytes were written in, text). -/
abbrev FS (Text : Type) := List (FName × Fmt × Text)

def fsLookup {Text : Type} (name : FName) : FS Text → Option (Fmt × Text)
  | [] => Option.none
  | (n, v) :: r => if n = name then some v else fsLookup name r

/-- What opening bytes of format `stored` with the opener for `opener` raises. -/
def openError (stored opener : Fmt) : PyErr :=
  match opener, stored with
  | .gzip, _ => .internal "BadGzipFile"
  | .bz2, _ => .internal "OSError"
  | .plain, _ => .internal "UnicodeDecodeError"

/-- `p.to_json(filename, compress)`: the new file system and the name written. -/
def predToJsonFile {Text : Type} (C : JsonCodec Text) (m : Meta) (fs : FS Text) (p : Pred)
    (name : FName) (isPath : Bool) (compress : Option String) : PyM (FS Text × FName) :=
  match predGetState m p with
  | .error e => .error e
  | .ok s => match toJson s with
    | .error e => .error e
    | .ok j => match writeSelect name isPath compress with
      | .error e => .error e
      | .ok (name', fmt) => .ok ((name', fmt, C.enc j) :: fs, name')

/-- `Predictor.from_json(filepath, compress)`. -/
def predFromJsonFile {Text : Type} (C : JsonCodec Text) (fs : FS Text) (name : FName)
    (compress : Option String) : PyM Pred :=
  match fsLookup name fs with
  | Option.none => .error (.internal "FileNotFoundError")
  | some (stored, text) =>
    let opener := readSelect name compress
    if opener = stored then
      match C.dec text with
      | some j => predFromDict (ofJson j)
      | Option.none => .error (.internal "JSONDecodeError")
    else .error (openError stored opener)

/-! ### `copy()` in an allocation-id model -/

/-- Values with an allocation id on every mutable container (NumPy arrays are mutable, JAX arrays
    are not; `atom` = immutable scalar, string, slice, JAX array …). -/
inductive LVal where
  | atom (v : PyVal)
  | nparr (id : Nat) (dt : Dtype) (shape : List Nat) (data : List Scalar)
  | dict (id : Nat) (kvs : List (String × LVal))
  | set (id : Nat) (xs : List PyVal)
  | list (id : Nat) (xs : List LVal)
  deriving Repr, Inhabited

mutual
/-- Ids of the mutable containers reachable from a value. -/
def LVal.ids : LVal → List Nat
  | .atom _ => []
  | .nparr i _ _ _ => [i]
  | .dict i kvs => i :: LVal.idsK kvs
  | .set i _ => [i]
  | .list i xs => i :: LVal.idsL xs
def LVal.idsL : List LVal → List Nat
  | [] => []
  | x :: xs => LVal.ids x ++ LVal.idsL xs
def LVal.idsK : List (String × LVal) → List Nat
  | [] => []
  | (_, v) :: r => LVal.ids v ++ LVal.idsK r
end

mutual
/-- The Python value a labelled value is. -/
def LVal.erase : LVal → PyVal
  | .atom v => v
  | .nparr _ dt sh d => .arr dt sh d
  | .dict _ kvs => .dict (LVal.eraseK kvs)
  | .set _ xs => .set xs
  | .list _ xs => .list (LVal.eraseL xs)
def LVal.eraseL : List LVal → List PyVal
  | [] => []
  | x :: xs => LVal.erase x :: LVal.eraseL xs
def LVal.eraseK : List (String × LVal) → List (String × PyVal)
  | [] => []
  | (k, v) :: r => (k, LVal.erase v) :: LVal.eraseK r
end

mutual
/-- What `deserialize(make_serializable(x))` allocates (`n` = next free id): arrays come back as
    new (immutable) JAX arrays; dicts, sets and — as fixed — lists are rebuilt element-wise, so every
    mutable container of the result is a new object. -/
def LVal.copy : LVal → Nat → LVal × Nat
  | .atom v, n => (.atom (PyVal.normF id v), n)
  | .nparr _ dt sh d, n => (.atom (.arr dt sh d), n)
  | .dict _ kvs, n => let (kvs', n') := LVal.copyK kvs (n + 1); (.dict n kvs', n')
  | .set _ xs, n => (.set n (dedupPy (PyVal.normFL id xs)), n + 1)
  | .list _ xs, n => let (xs', n') := LVal.copyL xs (n + 1); (.list n xs', n')
def LVal.copyL : List LVal → Nat → List LVal × Nat
  | [], n => ([], n)
  | v :: r, n =>
    let (v', n1) := LVal.copy v n
    let (r', n2) := LVal.copyL r n1
    (v' :: r', n2)
def LVal.copyK : List (String × LVal) → Nat → List (String × LVal) × Nat
  | [], n => ([], n)
  | (k, v) :: r, n =>
    let (v', n1) := LVal.copy v n
    let (r', n2) := LVal.copyK r n1
    ((k, v') :: r', n2)
end

/-- All attribute values of a predictor and of the nodes of its kernel (the objects `copy` has to
    duplicate), copied one after the other. -/
def copyAttrs : List LVal → Nat → List LVal × Nat
  | [], n => ([], n)
  | v :: r, n =>
    let (v', n1) := LVal.copy v n
    let (r', n2) := copyAttrs r n1
    (v' :: r', n2)

end Mellon
