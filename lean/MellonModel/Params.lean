/-
  MellonModel.Params — GP-type / rank / landmark option resolution (property C15), a transcription of

    util.GaussianProcessType.from_string            fromString
    parameters.compute_n_landmarks                  computeNLandmarks
    parameters.compute_rank                         computeRank
    parameters.compute_gp_type                      computeGpType   (+ its own argument validation)
    parameter_validation.validate_landmark_params   validateLandmarkParams
    parameter_validation.validate_gp_type           validateGpType
    parameter_validation.validate_rank_params       validateRankParams
    parameter_validation.validate_params            validateParams
    parameters.compute_landmarks                    computeLandmarks   (k-means = "some m rows")
    parameters.compute_Lp / compute_L dispatch      computeLp / computeL (shapes only)
    inference.compute_conditional* dispatch         predictorClass
    conditional._sigma_to_y_cov_factor requirement  uncertainty step of `resolve`
    BaseEstimator.__init__, prepare_inference order resolve

  as ONE total function `resolve : Config → Outcome` over unbounded integers.  Everything is exact
  data (`Nat`, `Int`, core `Rat`, `List Char`); no scalar `α`.
-/
namespace Mellon

/-! ### GaussianProcessType and `from_string` -/

inductive GPType where
  | full | fullNystroem | sparseCholesky | sparseNystroem | fixed
  deriving DecidableEq, Repr, Inhabited

/-- The enum values, in declaration order (the order `for gp_type in GaussianProcessType` visits). -/
def GPType.all : List GPType := [.full, .fullNystroem, .sparseCholesky, .sparseNystroem, .fixed]

def GPType.value : GPType → List Char
  | .full => ['f', 'u', 'l', 'l']
  | .fullNystroem => ['f', 'u', 'l', 'l', '_', 'n', 'y', 's', 't', 'r', 'o', 'e', 'm']
  | .sparseCholesky => ['s', 'p', 'a', 'r', 's', 'e', '_', 'c', 'h', 'o', 'l', 'e', 's', 'k', 'y']
  | .sparseNystroem => ['s', 'p', 'a', 'r', 's', 'e', '_', 'n', 'y', 's', 't', 'r', 'o', 'e', 'm']
  | .fixed => ['f', 'i', 'x', 'e', 'd']

/-- `c.lower()` then `' ' ↦ '_'` (ASCII). -/
def normChar (c : Char) : Char := if c = ' ' then '_' else c.toLower

/-- `s.lower().replace(" ", "_")`. -/
def normalize (s : List Char) : List Char := s.map normChar

def isPrefix : List Char → List Char → Bool
  | [], _ => true
  | _ :: _, [] => false
  | a :: as, b :: bs => a == b && isPrefix as bs

/-- Python `a in b` for strings. -/
def isInfix (a : List Char) : List Char → Bool
  | [] => isPrefix a []
  | b :: bs => isPrefix a (b :: bs) || isInfix a bs

/-- `GaussianProcessType.from_string(s)` for a string `s`: exact match of the normalised input,
    else the first member (in enum order) whose value contains it, else `none` (= ValueError). -/
def fromString (s : List Char) : Option GPType :=
  let t := normalize s
  match GPType.all.find? (fun g => g.value == t) with
  | some g => some g
  | none => GPType.all.find? (fun g => isInfix t g.value)

/-! ### values -/

/-- A validated rank (`validate_float_or_int`: Python int or float, not NaN). -/
inductive RankV where
  | int (r : Int)
  | flt (q : Rat)
  deriving Repr, DecidableEq

/-- The `rank` argument as the user passes it.  `npInt r` is a NumPy / JAX integer scalar (`numpy.int64(r)`,
    `numpy.uint8(r)`, a 0-d integer array of NumPy / JAX): `validate_float_or_int` converts it with `int()`,
    so it is the integer rank `r` (fix 4604925; before, `float()` turned it into the fraction `r.0`).
    (The int64 range check that follows — it can only hit a `uint64` above 2^63 − 1 — is part of C20, as it is
    for a Python int.) -/
inductive RankIn where
  | none
  | int (r : Int)
  | flt (q : Rat)
  | nan
  | npInt (r : Int)
  deriving Repr, DecidableEq

inductive GpIn where
  | none
  | str (s : List Char)
  | enum (g : GPType)
  deriving Repr, DecidableEq

inductive Refusal where
  | nLandmarksNotNonnegInt      -- validate_positive_int
  | rankNaN                     -- validate_float_or_int
  | unknownGpType               -- from_string
  | functionNystroem            -- FunctionEstimator.__init__
  | landmarkCount               -- validate_landmark_params
  | fullButFewerLandmarks       -- validate_gp_type, FULL / FULL_NYSTROEM
  | sparseButNoLandmarks        -- validate_gp_type, SPARSE_*  n_landmarks = 0
  | sparseButTooManyLandmarks   -- validate_gp_type, SPARSE_*  n_landmarks ≥ n
  | fixedButNoLandmarks         -- validate_gp_type, FIXED
  | nystroemNeedsReduction      -- validate_rank_params, full rank indicated for a Nyström type
  | rankIndicatesNystroem       -- validate_rank_params, reduction indicated for a non-Nyström type
  | rankNegative                -- validate_rank_params, rank < 0
  | nLandmarksOne               -- compute_landmarks
  | tooFewSamples               -- nearest-neighbour stage (KDTree k=2) with fewer than 2 cells
  | emptyFactor                 -- a factor without columns (Ridge refuses 0 features; unreachable since negative ranks are refused)
  | noInputUncertainty          -- _sigma_to_y_cov_factor(None, None, ·)
  | sigmaShape                  -- function estimator: negative / more than 1-D sigma, a vector whose length is not n
  deriving Repr, DecidableEq

inductive PredFamily where
  | full | landmarks | landmarksCholesky
  deriving Repr, DecidableEq

inductive Outcome where
  | ok (gp : GPType) (rows cols : Nat) (cls : PredFamily)
  | refused (why : Refusal)
  | internal
  deriving Repr, DecidableEq

def defaultNLandmarks : Nat := 5000

/-! ### defaults -/

/-- `compute_n_landmarks(gp_type, n_samples, landmarks)`. -/
def computeNLandmarks (gp : Option GPType) (n : Nat) (landmarks : Option Nat) : Nat :=
  match landmarks with
  | some m => m
  | none =>
    match gp with
    | none => min n defaultNLandmarks
    | some .fixed => min n defaultNLandmarks
    | some .full => n
    | some .fullNystroem => n
    | some .sparseCholesky => defaultNLandmarks
    | some .sparseNystroem => defaultNLandmarks

/-- `compute_rank(gp_type)`: 0.99 for the Nyström types, 1.0 otherwise. -/
def computeRank (gp : Option GPType) : RankV :=
  match gp with
  | some .fullNystroem => .flt (99 / 100)
  | some .sparseNystroem => .flt (99 / 100)
  | _ => .flt 1

/-- `rank is None or type(rank) is int and rank >= bound or type(rank) is float and rank >= 1.0
     or rank == 0`. -/
def fullRankIndicated (rank : Option RankV) (bound : Int) : Bool :=
  match rank with
  | none => true
  | some (.int r) => decide (r ≥ bound) || decide (r = 0)
  | some (.flt q) => decide (q ≥ 1) || decide (q = 0)

/-- The decision of `compute_gp_type` once its arguments are validated. -/
def gpTypeOf (nl : Nat) (rank : Option RankV) (n : Nat) : GPType :=
  if nl = 0 ∨ nl ≥ n then
    (if fullRankIndicated rank n then .full else .fullNystroem)
  else
    (if fullRankIndicated rank nl then .sparseCholesky else .sparseNystroem)

/-- `RankIn` after `validate_float_or_int(rank, optional=True)`. -/
def validateRankOpt : RankIn → Except Refusal (Option RankV)
  | .none => .ok none
  | .int r => .ok (some (.int r))
  | .flt q => .ok (some (.flt q))
  | .nan => .error .rankNaN
  | .npInt r => .ok (some (.int r))

/-- `validate_positive_int` on a Python int. -/
def validateNonnegInt (v : Int) : Except Refusal Nat :=
  if v < 0 then .error .nLandmarksNotNonnegInt else .ok v.toNat

/-- `compute_gp_type(n_landmarks, rank, n_samples)` including its argument validation. -/
def computeGpType (nl : Int) (rank : RankIn) (n : Int) : Except Refusal GPType := do
  let r ← validateRankOpt rank
  let nl ← validateNonnegInt nl
  let n ← validateNonnegInt n
  return gpTypeOf nl r n

/-! ### validators -/

def validateLandmarkParams (nl : Nat) (landmarks : Option Nat) : Except Refusal Unit :=
  match landmarks with
  | some m => if nl ≠ m then .error .landmarkCount else .ok ()
  | none => .ok ()

def validateGpType (gp : GPType) (n nl : Nat) : Except Refusal Unit :=
  match gp with
  | .full | .fullNystroem =>
    if nl ≠ 0 ∧ nl < n then .error .fullButFewerLandmarks else .ok ()
  | .sparseCholesky | .sparseNystroem =>
    if nl = 0 then .error .sparseButNoLandmarks
    else if nl ≥ n then .error .sparseButTooManyLandmarks
    else .ok ()
  | .fixed => if nl = 0 then .error .fixedButNoLandmarks else .ok ()

/-- First condition of `validate_rank_params` ("full rank is indicated"). -/
def rankIndicatesFull (gp : GPType) (n : Nat) (rank : RankV) (nl : Nat) : Bool :=
  match rank with
  | .int r =>
    (match gp with
      | .sparseCholesky => decide (r ≥ (nl : Int))
      | .sparseNystroem => decide (r ≥ (nl : Int))
      | .full => decide (r ≥ (n : Int))
      | .fullNystroem => decide (r ≥ (n : Int))
      | .fixed => false) || decide (r = 0)
  | .flt q => decide (q ≥ 1) || decide (q = 0)

/-- `rank < 0` for a validated rank. -/
def RankV.isNegative : RankV → Bool
  | .int r => decide (r < 0)
  | .flt q => decide (q < 0)

def validateRankParams (gp : GPType) (n : Nat) (rank : RankV) (nl : Nat) : Except Refusal Unit :=
  if rank.isNegative then .error .rankNegative
  else if rankIndicatesFull gp n rank nl then
    (match gp with
      | .fullNystroem => .error .nystroemNeedsReduction
      | .sparseNystroem => .error .nystroemNeedsReduction
      | _ => .ok ())
  else
    (match gp with
      | .fullNystroem => .ok ()
      | .sparseNystroem => .ok ()
      | _ => .error .rankIndicatesNystroem)

/-- `validate_params(rank, gp_type, n_samples, n_landmarks, landmarks)` for already typed arguments. -/
def validateParams (rank : RankV) (gp : GPType) (n nl : Nat) (landmarks : Option Nat) :
    Except Refusal Unit := do
  -- `fixed` with more requested landmarks than cells falls back to the cells as landmarks (`compute_landmarks`), which leaves
  -- `n` landmark rows next to `n_landmarks > n`: the state of every fitted model of that kind, accepted on re-validation
  if gp = .fixed ∧ landmarks = some n ∧ n < nl then pure () else validateLandmarkParams nl landmarks
  validateGpType gp n nl
  validateRankParams gp n rank nl

/-- `validate_params` as the public function: `n_landmarks` any Python int, `rank` possibly NaN / None
    (None is refused: `validate_float_or_int(rank, "rank")` is not optional). -/
def validateParamsPublic (rank : RankIn) (gp : GPType) (n : Nat) (nl : Int) (landmarks : Option Nat) :
    Except Refusal Unit := do
  let nl ← validateNonnegInt nl
  let r ← validateRankOpt rank
  match r with
  | none => .error .rankNaN
  | some r => validateParams r gp n nl landmarks

/-! ### landmarks, factors, predictor -/

inductive Est where
  | density | dimensionality | timeSensitive | function
  deriving Repr, DecidableEq

/-- `compute_landmarks(x, gp_type, n_landmarks)`: number of rows of the result (`none` = `None`).
    (Since fix 02e559e the time-sensitive estimator hands `gp_type` down as the others do.) -/
def computeLandmarks (gp : GPType) (n nl : Nat) : Except Refusal (Option Nat) :=
  if nl = 0 then .ok none
  else if nl ≤ 1 then .error .nLandmarksOne
  else if nl ≥ n then
    (if gp = .fixed then .ok (some n) else .ok none)
  else .ok (some nl)            -- k-means centroids

/-- Number of columns a Nyström factor keeps out of `bound` available directions (all eigenvalues
    of `K + jitter·I` positive).  An integer request `r` goes through Python's `s[-p:]` with
    `p = min(r, bound)`; a fractional request keeps `kept` directions, an input supplied by the
    spectrum (property C10), clipped to `[1, bound]`. -/
def nystroemCols (rank : RankV) (bound kept : Nat) : Nat :=
  match rank with
  | .int r =>
    if r = 0 then bound
    else if 0 < r then min r.toNat bound
    else bound - (-r).toNat
  | .flt _ => max 1 (min kept bound)

/-- Shape of `L` after `compute_Lp` / `compute_L` (incl. the second `validate_params` inside
    `validate_compute_L_input`); `.internal` is `_standard_low_rank(x, cov, None)`. -/
def computeL (gp : GPType) (n : Nat) (rank : RankV) (landmarks : Option Nat) (kept : Nat) :
    Outcome ⊕ (Nat × Nat) :=
  let nl' := landmarks.getD n
  match validateParams rank gp n nl' landmarks with
  | .error e => .inl (.refused e)
  | .ok () =>
    match gp with
    | .full => .inr (n, n)
    | .fullNystroem => .inr (n, nystroemCols rank n kept)
    | .sparseCholesky | .fixed =>
      (match landmarks with
        | none => .inl .internal
        | some m => .inr (n, m))
    | .sparseNystroem =>
      (match landmarks with
        | none => .inl .internal
        | some m => .inr (n, nystroemCols rank (min m n) kept))

/-- `compute_conditional*` dispatch as the three inference estimators call it: for `FULL` /
    `FULL_NYSTROEM` they pass `landmarks=None` (fix e3730dc), for `SPARSE_NYSTROEM` they withhold the
    latent vector (fix 8089bef); otherwise by `landmarks is None`, else by the coincidence
    `pre_transformation.shape[0] == landmarks.shape[0]`. -/
def predictorClass (gp : GPType) (landmarks : Option Nat) (cols : Nat) : PredFamily :=
  if gp = .full ∨ gp = .fullNystroem then .full
  else
    match landmarks with
    | none => .full
    | some m =>
      if gp = .sparseNystroem then .landmarks
      else if cols = m then .landmarksCholesky else .landmarks

/-- The predictor family that belongs to a GP type (the documented correspondence). -/
def GPType.family : GPType → PredFamily
  | .full => .full
  | .fullNystroem => .full
  | .sparseCholesky => .landmarksCholesky
  | .fixed => .landmarksCholesky
  | .sparseNystroem => .landmarks

inductive Opt where
  | adam | advi | lbfgsb
  deriving Repr, DecidableEq

/-- Form of the `sigma` argument of the function estimator. -/
inductive SigmaForm where
  | scalar            -- a non-negative float
  | negative          -- refused by the constructor
  | vecN              -- one value per cell
  | vecL (k : Nat)    -- a vector of `k` entries (`k = n`: the same as `vecN`; otherwise contradicts the number of cells)
  | matN (k : Nat)    -- (n, k) array
  deriving Repr, DecidableEq

def SigmaForm.isMat : SigmaForm → Bool
  | .matN _ => true
  | _ => false

/-- A one-dimensional `sigma` whose length is not the number of cells (refused when the predictor is built:
    `_sigma_to_y_cov_factor` / `_LandmarksConditional`). -/
def SigmaForm.wrongLength : SigmaForm → Nat → Bool
  | .vecL k, n => k ≠ n
  | _, _ => false

structure Config where
  est : Est
  n : Nat                         -- number of cells
  nLandmarks : Option Int         -- user `n_landmarks`
  landmarks : Option Nat          -- rows of user-supplied `landmarks`
  rank : RankIn
  gpType : GpIn
  withUnc : Bool                  -- predictor_with_uncertainty
  opt : Opt
  kept : Nat                      -- directions a fractional request keeps (spectrum dependent, C10)
  sigma : SigmaForm := .scalar    -- function estimator only
  lmCells : Bool := false         -- the user-supplied landmarks are the cells themselves (same rows, same order)
  deriving Repr

/-- `BaseEstimator.__init__`: `gp_type` through `from_string(optional=True)`. -/
def initGpType : GpIn → Except Refusal (Option GPType)
  | .none => .ok none
  | .enum g => .ok (some g)
  | .str s =>
    match fromString s with
    | some g => .ok (some g)
    | none => .error .unknownGpType

def initNLandmarks : Option Int → Except Refusal (Option Nat)
  | none => .ok none
  | some v => (validateNonnegInt v).map some

/-- What `BaseEstimator.__init__` + the first four steps of `prepare_inference` settle:
    `n_landmarks`, `rank`, `gp_type` (user value if given, else the computed default), validated. -/
structure Resolved where
  nl : Nat
  rank : RankV
  gp : GPType
  deriving Repr, DecidableEq

/-- `__init__` (validation of `n_landmarks`, `rank`, `gp_type`, in this order), then
    `_prepare_attribute("n_landmarks")`, `("rank")`, `("gp_type")`, `validate_parameter()`. -/
def prepare (c : Config) : Except Refusal Resolved :=
  match initNLandmarks c.nLandmarks with
  | .error e => .error e
  | .ok nlUser =>
    match validateRankOpt c.rank with
    | .error e => .error e
    | .ok rankUser =>
      match initGpType c.gpType with
      | .error e => .error e
      | .ok gpUser =>
        let nl := nlUser.getD (computeNLandmarks gpUser c.n c.landmarks)
        let rank := rankUser.getD (computeRank gpUser)
        let gp := gpUser.getD (gpTypeOf nl (some rank) c.n)
        -- `validate_parameter`: only the cells themselves may stand in for a larger number of requested landmarks
        if gp = .fixed ∧ c.landmarks = some c.n ∧ c.n < nl ∧ c.lmCells = false then .error .landmarkCount else
        match validateParams rank gp c.n nl c.landmarks with
        | .error e => .error e
        | .ok () => .ok ⟨nl, rank, gp⟩

/-- `_prepare_attribute("landmarks")`: user landmarks are kept, otherwise `compute_landmarks`. -/
def landmarksStep (landmarks : Option Nat) (gp : GPType) (n nl : Nat) : Except Refusal (Option Nat) :=
  match landmarks with
  | some m => .ok (some m)
  | none => computeLandmarks gp n nl

/-- Density-like estimators (`DensityEstimator`, `DimensionalityEstimator`,
    `TimeSensitiveDensityEstimator`): constructor, `prepare_inference`, inference, predictor. -/
def resolveDensityLike (c : Config) : Outcome :=
  match prepare c with
  | .error e => .refused e
  | .ok r =>
    if c.n < 2 then .refused .tooFewSamples else
    match landmarksStep c.landmarks r.gp c.n r.nl with
    | .error e => .refused e
    | .ok lm =>
      match computeL r.gp c.n r.rank lm c.kept with
      | .inl o => o
      | .inr (rows, cols) =>
        if cols = 0 then .refused .emptyFactor else
        if c.withUnc ∧ c.opt ≠ Opt.advi then .refused .noInputUncertainty
        else .ok r.gp rows cols (predictorClass r.gp lm cols)

/-- The predictor family that belongs to a GP type in the function estimator, which has no latent
    vector: the sparse types condition `LandmarksConditional` on `(x, y)` directly. -/
def GPType.functionFamily : GPType → PredFamily
  | .full => .full
  | .fullNystroem => .full
  | _ => .landmarks

/-- Family of the type for a given estimator. -/
def GPType.familyFor (est : Est) (gp : GPType) : PredFamily :=
  if est = .function then gp.functionFamily else gp.family

/-- `FunctionEstimator.compute_conditional`: for `FULL` (/`FULL_NYSTROEM`) `landmarks=None` is passed,
    so `FullConditional(x, y, …, sigma)`; otherwise `FullConditional` without landmarks and
    `LandmarksConditional(x, xu, y, …, sigma)` with `m` landmarks (never the Cholesky-latent class:
    there is no latent vector).  A scalar `sigma` fits every size; a per-cell `sigma` (one entry per cell) is the noise of
    the cells for every number of landmarks (`m < n`, `m = n`, `m > n`): `_LandmarksConditional`
    whitens the observations with it, so the form of `sigma` does not enter the outcome. -/
def functionPredictor (gp : GPType) (n : Nat) (lm : Option Nat) (_sigma : SigmaForm) : Outcome :=
  if gp = .full ∨ gp = .fullNystroem then .ok gp n n .full
  else
    match lm with
    | none => .ok gp n n .full
    | some m => .ok gp n m .landmarks

/-- `FunctionEstimator`: the constructor fixes `rank = 1.0`, refuses a negative or more than
    one-dimensional `sigma` and the Nyström types; `prepare_inference` resolves `n_landmarks`,
    `gp_type` and calls `validate_parameter()` like the other estimators; the predictor is built from
    `(x, y)` directly, so there is no latent factor (`cols` = number of conditioning points). -/
def resolveFunction (c : Config) : Outcome :=
  match initNLandmarks c.nLandmarks, initGpType c.gpType with
  | .error e, _ => .refused e
  | _, .error e => .refused e
  | .ok _, .ok gpUser =>
    if c.sigma = .negative ∨ c.sigma.isMat then .refused .sigmaShape else
    if gpUser = some .fullNystroem ∨ gpUser = some .sparseNystroem then .refused .functionNystroem else
    match prepare { c with rank := .flt 1 } with
    | .error e => .refused e
    | .ok r =>
      if c.n < 2 then .refused .tooFewSamples else
      match landmarksStep c.landmarks r.gp c.n r.nl with
      | .error e => .refused e
      | .ok lm =>
        if c.sigma.wrongLength c.n then .refused .sigmaShape else functionPredictor r.gp c.n lm c.sigma

/-- The configuration whose triple `prepare` resolves: the function estimator's rank is the
    constructor's `1.0`. -/
def effConfig (c : Config) : Config :=
  if c.est = .function then { c with rank := .flt 1 } else c

def resolve (c : Config) : Outcome :=
  match c.est with
  | .function => resolveFunction c
  | _ => resolveDensityLike c

end Mellon
