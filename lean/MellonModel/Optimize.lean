/-
  MellonModel.Optimize — optimiser wiring and loops (property C17).

  Mirrors, as the code stands in /repo:
    base_model.py  `BaseEstimator._run_inference` (which result lands in which estimator field,
                   unknown optimiser → ValueError)
    inference.py   `minimize_adam` (loop over an optimiser triple and `value_and_grad`),
                   `run_advi` (loop, `std = exp(log_std)`, initial `log_std = -10 * zeros_like`),
                   `minimize_lbfgsb` (result record)
    jax.example_libraries.optimizers.adam  (the update rule, as an executable instance of the
                   abstract optimiser triple) with mellon's schedule `exp(-1e-2·i)·init_learn_rate`

  External calls are parameters: `value_and_grad` (JAX AD; an analytic gradient of the density loss
  is provided as an executable instance and proved to be the derivative), the L-BFGS-B solver
  (scipy; contract only), the ADVI objective (PRNG; opaque step function).
-/
import MellonModel.Inference
namespace Mellon

/-! ### `_run_inference` wiring (exact logic, no rounding) -/

inductive Optimizer where
  | adam
  | advi
  | lbfgsb
  | unknown (name : String)
  deriving Repr, DecidableEq

/-- The three strings `_run_inference` recognises; anything else falls to the `else` branch. -/
def Optimizer.ofString (s : String) : Optimizer :=
  if s = "adam" then .adam else if s = "advi" then .advi else if s = "L-BFGS-B" then .lbfgsb else .unknown s

/-- `Results` of `minimize_adam`. -/
structure AdamResult (P S V : Type) where
  preTransformation : P
  optState : S
  losses : List V

/-- `Results` of `run_advi`. -/
structure AdviResult (P V : Type) where
  preTransformation : P
  preTransformationStd : P
  losses : List V

/-- `Results` of `minimize_lbfgsb`. -/
structure LbfgsResult (P S V : Type) where
  preTransformation : P
  optState : S
  loss : V

/-- What the estimator hands to every optimiser. -/
structure InferArgs (F P R : Type) where
  lossFunc : F
  initialValue : P
  nIter : Nat
  initLearnRate : R
  jit : Bool

/-- The three external optimisers as parameters.  L-BFGS-B receives neither `n_iter` nor the
    learn rate (the call passes `function, initial_value, jit` only). -/
structure Solvers (F P S R V : Type) where
  adam : InferArgs F P R → AdamResult P S V
  advi : InferArgs F P R → AdviResult P V
  lbfgsb : F → P → Bool → LbfgsResult P S V

/-- The estimator fields `_run_inference` writes. -/
structure InferState (P S V : Type) where
  preTransformation : Option P
  preTransformationStd : Option P
  optState : Option S
  losses : Option (List V)

/-- `BaseEstimator._run_inference`.  Note the `advi` branch does not assign `opt_state` (it keeps
    whatever was there). -/
def runInference {F P S R V : Type} (sv : Solvers F P S R V) (opt : Optimizer) (a : InferArgs F P R)
    (st : InferState P S V) : Except String (InferState P S V) :=
  match opt with
  | .adam =>
    let r := sv.adam a
    .ok { preTransformation := some r.preTransformation, preTransformationStd := none,
          optState := some r.optState, losses := some r.losses }
  | .advi =>
    let r := sv.advi a
    .ok { preTransformation := some r.preTransformation,
          preTransformationStd := some r.preTransformationStd,
          optState := st.optState, losses := some r.losses }
  | .lbfgsb =>
    let r := sv.lbfgsb a.lossFunc a.initialValue a.jit
    .ok { preTransformation := some r.preTransformation, preTransformationStd := none,
          optState := some r.optState, losses := some [r.loss] }
  | .unknown _ => .error "ValueError:unknown-optimizer"

/-! ### `minimize_adam`: the loop over an abstract optimiser triple -/

/-- `(opt_init, opt_update, get_params)` of `jax.example_libraries.optimizers`. -/
structure OptTriple (P S G : Type) where
  init : P → S
  update : Nat → G → S → S
  getParams : S → P

/-- The `for i in range(n_iter)` loop: `fuel` iterations left, `i` the current index, `acc` the
    losses appended so far.  Each pass evaluates `value_and_grad` at the current parameters, records
    the value, then updates. -/
def adamLoop {P S G V : Type} (o : OptTriple P S G) (valGrad : P → V × G) :
    Nat → Nat → S → List V → S × List V
  | 0, _, s, acc => (s, acc)
  | fuel + 1, i, s, acc =>
    let vg := valGrad (o.getParams s)
    adamLoop o valGrad fuel (i + 1) (o.update i vg.2 s) (acc ++ [vg.1])

/-- `minimize_adam(loss_func, initial_value, n_iter, …)` given the optimiser triple and
    `value_and_grad(loss_func)`. -/
def minimizeAdam {P S G V : Type} (o : OptTriple P S G) (valGrad : P → V × G) (x0 : P) (nIter : Nat) :
    AdamResult P S V :=
  let r := adamLoop o valGrad nIter 0 (o.init x0) []
  { preTransformation := o.getParams r.1, optState := r.1, losses := r.2 }

/-! ### `run_advi`: loop over an opaque update, then `std = exp(log_std)` -/

/-- The `for t in range(n_iter)` loop of `run_advi`; `update t state = (state', elbo)`. -/
def adviLoop {S V : Type} (update : Nat → S → S × V) : Nat → Nat → S → List V → S × List V
  | 0, _, s, acc => (s, acc)
  | fuel + 1, t, s, acc =>
    let r := update t s
    adviLoop update fuel (t + 1) r.1 (acc ++ [r.2])

section
variable {α : Type} [Add α] [Sub α] [Mul α] [Div α] [Neg α] [OfNat α 0] [OfNat α 1] [OfScientific α]
  [LT α] [DecidableLT α] [Transc α] [NatCast α]

/-- `init_mean, init_std = initial_parameters, -10 * zeros_like(initial_parameters)`. -/
def adviInit {m : Nat} (x0 : Vector α m) : Vector α m × Vector α m :=
  (x0, vecOfFn fun _ => -10.0 * (0 : α))

/-- `run_advi` with the optimiser state abstract: `getParams` yields `(params, log_stds)` and the
    result carries `stds = exp(log_stds)`. -/
def runAdvi {m : Nat} {S V : Type} (init : Vector α m × Vector α m → S)
    (update : Nat → S → S × V) (getParams : S → Vector α m × Vector α m)
    (x0 : Vector α m) (nIter : Nat) : AdviResult (Vector α m) V :=
  let r := adviLoop update nIter 0 (init (adviInit x0)) []
  let p := getParams r.1
  { preTransformation := p.1, preTransformationStd := vecOfFn fun i => exp (p.2.nth i), losses := r.2 }

/-! ### the Adam update rule and mellon's step-size schedule (executable instance) -/

/-- `learn_schedule(i) = exp(-1e-2 * i) * init_learn_rate`. -/
def learnSchedule (initLearnRate : α) (i : Nat) : α := exp (-1e-2 * (i : α)) * initLearnRate

/-- State of `optimizers.adam`: `(x, m, v)`. -/
abbrev AdamState (α : Type) (m : Nat) := Vector α m × Vector α m × Vector α m

/-- `optimizers.adam(step_size)` with the defaults `b1 = 0.9`, `b2 = 0.999`, `eps = 1e-8`. -/
def adamTriple (m : Nat) (stepSize : Nat → α) : OptTriple (Vector α m) (AdamState α m) (Vector α m) where
  init := fun x0 => (x0, vecOfFn fun _ => 0, vecOfFn fun _ => 0)
  update := fun i g st =>
    let x := st.1; let mo := st.2.1; let v := st.2.2
    let mo' : Vector α m := vecOfFn fun k => (1 - 0.9) * g.nth k + 0.9 * mo.nth k
    let v' : Vector α m := vecOfFn fun k => (1 - 0.999) * (g.nth k * g.nth k) + 0.999 * v.nth k
    let c1 : α := 1 - rpow 0.9 ((i + 1 : Nat) : α)
    let c2 : α := 1 - rpow 0.999 ((i + 1 : Nat) : α)
    let x' : Vector α m := vecOfFn fun k =>
      x.nth k - stepSize i * (mo'.nth k / c1) / (sqrt (v'.nth k / c2) + 1e-8)
    (x', mo', v')
  getParams := fun st => st.1

/-- Analytic gradient of the density loss: `∂loss/∂z_k = z_k − Σᵢ L_{ik}·(1 − exp(fᵢ + Vᵢ))` with
    `f = Lz + mu` (what `jax.value_and_grad` returns, by the AD contract). -/
def lossGrad {n m : Nat} (r : Vector α n) (d : DimArg α n) (mu : α) (L : Mat α n m) (z : Vector α m) :
    Vector α m :=
  let f := transform mu L z
  vecOfFn fun k => z.nth k - nsum n fun i => L.el i k * (1 - exp (f.nth i + nnLogV (r.nth i) (d.get i)))

/-- `minimize_adam` on the density loss with the analytic gradient. -/
def adamOnDensityLoss {n m : Nat} (r : Vector α n) (d : DimArg α n) (mu : α) (L : Mat α n m) (k : Nat)
    (z0 : Vector α m) (nIter : Nat) (initLearnRate : α) :
    AdamResult (Vector α m) (AdamState α m) α :=
  minimizeAdam (adamTriple m (learnSchedule initLearnRate))
    (fun z => (lossFunc r d mu L k z, lossGrad r d mu L z)) z0 nIter

end

end Mellon
