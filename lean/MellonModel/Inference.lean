/-
  MellonModel.Inference — the inference objective and its documented defaults (property C03).

  Mirrors, as the code stands in /repo:
    inference.py   `_normal`, `_multivariate`/`compute_transform`, `_nearest_neighbors`, `_poisson`,
                   `compute_dimensionality_transform`, `compute_loss_func`,
                   `compute_dimensionality_loss_func`
    util.py        `mle`
    parameters.py  `compute_distances`, `compute_nn_distances`, `compute_d`, `compute_mu`,
                   `compute_ls`, `compute_initial_value`, `compute_initial_dimensionalities`
    base_model.py  `_compute_ls`;  density_estimator.py `_compute_d` (refusal above 50 features)

  External calls and their executable stand-ins:
    KDTree/BallTree.query      contract: exact Euclidean k nearest neighbours; model = brute force + sort
    jnp.quantile (linear)      model = sort + the interpolation formula of jax/_src/numpy/reductions.py
    sklearn Ridge(alpha=1, fit_intercept=False)
                               contract: minimiser of ‖Lz−t‖²+‖z‖²; model = normal equations
                               (LᵀL+I) z = Lᵀt solved with `chol?`/`choSolve`
-/
import MellonModel.Linalg
namespace Mellon

section
variable {α : Type} [Add α] [Sub α] [Mul α] [Div α] [Neg α] [OfNat α 0] [OfNat α 1] [OfScientific α]
  [LT α] [DecidableLT α] [Transc α] [NatCast α]

/-! ### prior and transform -/

/-- Sum of squares of a vector (`arraysum(z**2)`). -/
def sumSq {m : Nat} (z : Vector α m) : α := nsum m fun i => z.nth i * z.nth i

/-- `_normal(k)` given `arraysum(z**2)`: `-(1/2)·Σz² − (k/2)·log(2π)`.  `k` is whatever the caller
    passes (`initial_value.shape[0]`), not necessarily the number of entries of `z`. -/
def normalLogpdfOf (k : Nat) (ss : α) : α :=
  -(1 / 2.0) * ss - ((k : α) / 2.0) * log (2.0 * Transc.pi)

/-- `_normal(k)(z)` for a vector `z`. -/
def normalLogpdf (k : Nat) {m : Nat} (z : Vector α m) : α := normalLogpdfOf k (sumSq z)

/-- `_multivariate(mu, L)(z) = L.dot(z) + mu`. -/
def transform {n m : Nat} (mu : α) (L : Mat α n m) (z : Vector α m) : Vector α n :=
  vecOfFn fun i => (nsum m fun k => L.el i k * z.nth k) + mu

/-! ### dimensionality argument: a scalar (broadcast) or one value per cell -/

inductive DimArg (α : Type) (n : Nat) where
  | scalar (d : α)
  | cells (v : Vector α n)

def DimArg.get {n : Nat} (d : DimArg α n) (i : Nat) : α :=
  match d with
  | .scalar d => d
  | .cells v => v.nth i

/-! ### nearest-neighbour likelihood -/

/-- `const = d·log(π)/2 − gammaln(d/2 + 1)`: the log-volume of the unit `d`-ball. -/
def ballConst (d : α) : α := d * log Transc.pi / 2.0 - lgamma (d / 2.0 + 1)

/-- `V = log(r)·d + const`: log-volume of the ball of radius `r`. -/
def nnLogV (r d : α) : α := log r * d + ballConst d

/-- `Vdr = log(d) + (d−1)·log(r) + const`: log of the derivative of the volume in `r`. -/
def nnLogVdr (r d : α) : α := log d + (d - 1) * log r + ballConst d

/-- One summand of `_nearest_neighbors(r, d)(log_density)`: `B − A`. -/
def nnTerm (r d ld : α) : α := (ld + nnLogVdr r d) - exp (ld + nnLogV r d)

/-- `_nearest_neighbors(r, d)(log_density)`. -/
def nnLoglik {n : Nat} (r : Vector α n) (d : DimArg α n) (ld : Vector α n) : α :=
  nsum n fun i => nnTerm (r.nth i) (d.get i) (ld.nth i)

/-- `compute_loss_func(nn_distances, d, compute_transform(mu, L), k)(z)`. -/
def lossFunc {n m : Nat} (r : Vector α n) (d : DimArg α n) (mu : α) (L : Mat α n m) (k : Nat)
    (z : Vector α m) : α :=
  -(normalLogpdf k z + nnLoglik r d (transform mu L z))

/-- `util.mle(nn_distances, d)` for one cell. -/
def mle (r d : α) : α := lgamma (d / 2.0 + 1) - (d / 2.0) * log Transc.pi - d * log r

def mleVec {n : Nat} (r : Vector α n) (d : DimArg α n) : Vector α n :=
  vecOfFn fun i => mle (r.nth i) (d.get i)

/-! ### sorting (stand-in for `jnp.sort`, the tree's ordered result lists) -/

/-- Ascending sort; `a` may precede `b` unless `b < a`. -/
def sortAsc (l : List α) : List α := l.mergeSort fun a b => !decide (b < a)

/-! ### kNN Poisson likelihood of the dimensionality estimator -/

/-- Row `i` of a matrix as a list. -/
def rowList {n m : Nat} (A : Mat α n m) (i : Nat) : List α :=
  if h : i < n then A[i].toList else []

/-- `pred` of `_poisson`: log expected count inside the ball through the `j`-th neighbour. -/
def poissonPred (dim ld s : α) : α :=
  ld + (dim * (log s + log Transc.pi / 2.0) - lgamma (dim / 2.0 + 1))

/-- One summand of `_poisson`: `pred·j − exp(pred) − gammaln(j)` for the count `j` (1-based). -/
def poissonTerm (dim ld s : α) (j : Nat) : α :=
  poissonPred dim ld s * (j : α) - exp (poissonPred dim ld s) - lgamma (j : α)

/-- `_poisson(distances)(dims, log_dens)`: rows are sorted first, counts are `1..k`. -/
def poissonLoglik {n k : Nat} (dist : Mat α n k) (dims ld : Vector α n) : α :=
  nsum n fun i =>
    let s := sortAsc (rowList dist i)
    nsum k fun j => poissonTerm (dims.nth i) (ld.nth i) (s.getD j 0) (j + 1)

/-- `compute_dimensionality_transform(mu_dim, mu_dens, L)(z)` with `z` of shape `(2, m)`. -/
def dimTransform {n m : Nat} (muDim muDens : α) (L : Mat α n m) (z : Mat α 2 m) :
    Vector α n × Vector α n :=
  let dims := transform muDim L (z.nthD 0 (vecOfFn fun _ => 0))
  let dens := transform muDens L (z.nthD 1 (vecOfFn fun _ => 0))
  ((vecOfFn fun i => exp (dims.nth i)), dens)

/-- `compute_dimensionality_loss_func(distances, transform, k)(z)`; the prior sums over all `2·m`
    entries of `z` and uses the constant of `_normal(k)` for the `k` the caller passes. -/
def dimLossFunc {n kk m : Nat} (dist : Mat α n kk) (muDim muDens : α) (L : Mat α n m) (k : Nat)
    (z : Mat α 2 m) : α :=
  let t := dimTransform muDim muDens L z
  let ss : α := nsum 2 (fun a => nsum m (fun j => z.el a j * z.el a j));
  -(normalLogpdfOf k ss + poissonLoglik dist t.1 t.2)

/-! ### defaults -/

/-- `jnp.quantile(v, 0.01)` (method "linear"): position `0.01·(n−1)` in the sorted values,
    `low = ⌊pos⌋`, `high = ⌈pos⌉`, result `s[low]·(1−w) + s[high]·w` with `w = pos − low`.
    The integer parts are computed exactly (`⌊(n−1)/100⌋`); `w` is computed in `α`. -/
def quantile01 (l : List α) : α :=
  let s := sortAsc l
  let n1 := l.length - 1
  let low := n1 / 100
  let high := if n1 % 100 = 0 then low else low + 1
  let w : α := 0.01 * (n1 : α) - (low : α)
  s.getD low 0 * (1 - w) + s.getD high 0 * w

/-- `compute_mu`: 1st percentile of the MLE log-densities minus 10. -/
def computeMu {n : Nat} (r : Vector α n) (d : DimArg α n) : α :=
  quantile01 (mleVec r d).toList - 10.0

/-- `compute_ls`: `exp(mean(log nn) + 3)`. -/
def computeLs {n : Nat} (r : Vector α n) : α :=
  exp ((nsum n fun i => log (r.nth i)) / (n : α) + 3.0)

/-- `BaseEstimator._compute_ls`: `compute_ls(nn) * ls_factor`. -/
def estimatorLs {n : Nat} (r : Vector α n) (lsFactor : α) : α := computeLs r * lsFactor

/-- Ridge regression without intercept, `alpha = 1`: solve `(LᵀL + I) z = Lᵀ t` by Cholesky.
    `none` only if the factorisation meets a non-positive pivot (impossible over ℝ up to rounding;
    never observed). -/
def ridgeGram {n m : Nat} (L : Mat α n m) : Mat α m m :=
  Mat.ofFn fun a b => (nsum n fun i => L.el i a * L.el i b) + (if a = b then 1 else 0)

def ridgeRhs {n m : Nat} (L : Mat α n m) (t : Vector α n) : Vector α m :=
  vecOfFn fun a => nsum n fun i => L.el i a * t.nth i

def ridgeInit {n m : Nat} (L : Mat α n m) (t : Vector α n) : Option (Vector α m) :=
  (chol? (ridgeGram L)).map fun C => choSolve C (ridgeRhs L t)

/-- `compute_initial_value(nn_distances, d, mu, L)`. -/
def computeInitialValue {n m : Nat} (r : Vector α n) (d : DimArg α n) (mu : α) (L : Mat α n m) :
    Option (Vector α m) :=
  ridgeInit L (vecOfFn fun i => mle (r.nth i) (d.get i) - mu)

/-- `compute_initial_dimensionalities`: row 0 regresses `log d − mu_dim`, row 1 is
    `compute_initial_value(nn, d, mu_dens, L)`. -/
def computeInitialDims {n m : Nat} (r : Vector α n) (d : DimArg α n) (muDim muDens : α)
    (L : Mat α n m) : Option (Vector α m × Vector α m) :=
  match ridgeInit L (vecOfFn fun i => log (d.get i) - muDim), computeInitialValue r d muDens L with
  | some a, some b => some (a, b)
  | _, _ => none

/-! ### nearest neighbours by brute force -/

/-- `Σ (aᵢ − bᵢ)²`. -/
def sqd : List α → List α → α
  | a :: as, b :: bs => (a - b) * (a - b) + sqd as bs
  | _, _ => 0

/-- The Euclidean distance the trees report. -/
def eucl (x y : List α) : α := sqrt (sqd x y)

/-- Distances from cell `i` to every *other* cell. -/
def othersDist {n d : Nat} (X : Mat α n d) (i : Nat) : List α :=
  ((List.range n).filter (· ≠ i)).map fun j => eucl (rowList X i) (rowList X j)

/-- `compute_distances(x, k)[i]`: the `k` smallest distances to other cells, ascending
    (`tree.query(x, k+1)[0][:, 1:]`).  The tree refuses `k + 1 > n` with a `ValueError`. -/
def knnDistances {n d : Nat} (X : Mat α n d) (k i : Nat) : List α := (sortAsc (othersDist X i)).take k

def computeDistances? {n d : Nat} (X : Mat α n d) (k : Nat) : Option (List (List α)) :=
  if n ≤ k then none else some ((List.range n).map fun i => knnDistances X k i)

/-- `compute_nn_distances(x)[i] = compute_distances(x, 1)[i, 0]`. -/
def nnDistance {n d : Nat} (X : Mat α n d) (i : Nat) : α := (knnDistances X 1 i).getD 0 0

end

/-! ### exact logic: the dimensionality default -/

/-- `compute_d(x)`: number of features, `1` for a 1-D array. -/
def computeD (shape : List Nat) : Nat := if shape.length < 2 then 1 else shape.getD 1 0

/-- `DensityEstimator._compute_d` with `d_method="embedding"`: refuses more than 50 features. -/
def estimatorD (shape : List Nat) : Except String Nat :=
  let d := computeD shape
  if d > 50 then .error "ValueError:d>50" else .ok d

end Mellon
