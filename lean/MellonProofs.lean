import MellonProofs.Real
import MellonProofs.LinalgProofs
