/-
  MellonProofs.TimeNNLemmas — helper lemmas for C14: sorted unique time stamps, the groups, the
  minimum, the scatter, the loop invariant of `nnLoop`, the MLE scaling law.
-/
import MellonModel.TimeNN
import MellonProofs.Real
import MellonProofs.TimeArgsLemmas
import MellonProofs.KernelLemmas

namespace Mellon

@[simp] theorem except_pure {ε β : Type} (x : β) : (pure x : Except ε β) = .ok x := rfl
@[simp] theorem except_throw {ε β : Type} (e : ε) : (throw e : Except ε β) = .error e := rfl

section uniq
variable {θ : Type} [LinearOrder θ]

theorem mem_insertU (t x : θ) (l : List θ) : x ∈ insertU t l ↔ x = t ∨ x ∈ l := by
  induction l with
  | nil => simp [insertU]
  | cons u us ih =>
    unfold insertU
    split_ifs with h1 h2
    · simp
    · subst h2; simp
    · simp [ih]; tauto

theorem sorted_insertU (t : θ) (l : List θ) (h : l.Pairwise (· < ·)) : (insertU t l).Pairwise (· < ·) := by
  induction l with
  | nil => simp [insertU]
  | cons u us ih =>
    unfold insertU
    have hu := List.pairwise_cons.mp h
    split_ifs with h1 h2
    · refine List.pairwise_cons.mpr ⟨?_, h⟩
      intro a ha
      rcases List.mem_cons.mp ha with rfl | ha
      · exact h1
      · exact lt_trans h1 (hu.1 a ha)
    · exact h
    · refine List.pairwise_cons.mpr ⟨?_, ih hu.2⟩
      intro a ha
      rcases (mem_insertU t a us).mp ha with rfl | ha
      · exact lt_of_le_of_ne (not_lt.mp h1) (Ne.symm h2)
      · exact hu.1 a ha

theorem mem_uniqueSorted (x : θ) (l : List θ) : x ∈ uniqueSorted l ↔ x ∈ l := by
  induction l with
  | nil => simp [uniqueSorted]
  | cons a as ih =>
    have : uniqueSorted (a :: as) = insertU a (uniqueSorted as) := rfl
    rw [this, mem_insertU, ih]; simp

theorem sorted_uniqueSorted (l : List θ) : (uniqueSorted l).Pairwise (· < ·) := by
  induction l with
  | nil => simp [uniqueSorted]
  | cons a as ih =>
    have : uniqueSorted (a :: as) = insertU a (uniqueSorted as) := rfl
    rw [this]; exact sorted_insertU a _ ih

theorem nodup_uniqueSorted (l : List θ) : (uniqueSorted l).Nodup :=
  (sorted_uniqueSorted l).imp (fun h => ne_of_lt h)

theorem mem_groupIdx (times : List θ) (t : θ) (i : Nat) :
    i ∈ groupIdx times t ↔ times[i]? = some t := by
  unfold groupIdx
  simp only [List.mem_filter, List.mem_range, decide_eq_true_eq]
  constructor
  · exact fun h => h.2
  · intro h
    refine ⟨?_, h⟩
    by_contra hlt
    rw [List.getElem?_eq_none (by omega)] at h
    cases h

theorem groupIdx_lt (times : List θ) (t : θ) (i : Nat) (h : i ∈ groupIdx times t) : i < times.length := by
  unfold groupIdx at h
  simp only [List.mem_filter, List.mem_range] at h
  exact h.1

theorem nodup_groupIdx (times : List θ) (t : θ) : (groupIdx times t).Nodup := by
  unfold groupIdx
  exact List.Nodup.filter _ List.nodup_range

theorem groupIdx_disjoint (times : List θ) (t t' : θ) (h : t ≠ t') (i : Nat)
    (hi : i ∈ groupIdx times t) : i ∉ groupIdx times t' := by
  rw [mem_groupIdx] at hi ⊢
  intro h'
  rw [hi] at h'
  exact h (Option.some.inj h')

/-- In a strictly increasing list the position of an element is the number of smaller elements. -/
theorem rank_eq_count_lt (l : List θ) (h : l.Pairwise (· < ·)) (k : Nat) (hk : k < l.length) :
    (l.filter (· < l[k])).length = k := by
  induction l generalizing k with
  | nil => simp at hk
  | cons a as ih =>
    have ha := List.pairwise_cons.mp h
    cases k with
    | zero =>
      simp only [List.getElem_cons_zero, List.filter_cons, lt_self_iff_false, decide_false]
      have : as.filter (fun x => decide (x < a)) = [] := by
        apply List.filter_eq_nil_iff.mpr
        intro x hx
        simp only [decide_eq_true_eq, not_lt]
        exact le_of_lt (ha.1 x hx)
      simp [this]
    | succ k =>
      have hk' : k < as.length := by simpa using hk
      simp only [List.getElem_cons_succ, List.filter_cons]
      have : a < as[k] := ha.1 _ (List.getElem_mem hk')
      simp [this, ih ha.2 k hk']

end uniq

section minD

theorem foldl_min_le_init (l : List ℝ) (a : ℝ) :
    l.foldl (fun m b => if b < m then b else m) a ≤ a := by
  induction l generalizing a with
  | nil => simp
  | cons b bs ih =>
    simp only [List.foldl_cons]
    split_ifs with h
    · exact le_trans (ih b) (le_of_lt h)
    · exact ih a

theorem foldl_min_le_mem (l : List ℝ) (a x : ℝ) (hx : x ∈ l) :
    l.foldl (fun m b => if b < m then b else m) a ≤ x := by
  induction l generalizing a with
  | nil => simp at hx
  | cons b bs ih =>
    simp only [List.foldl_cons]
    rcases List.mem_cons.mp hx with rfl | hx
    · split_ifs with h
      · exact foldl_min_le_init bs x
      · exact le_trans (foldl_min_le_init bs a) (not_lt.mp h)
    · exact ih _ hx

theorem foldl_min_mem (l : List ℝ) (a : ℝ) :
    l.foldl (fun m b => if b < m then b else m) a = a ∨ l.foldl (fun m b => if b < m then b else m) a ∈ l := by
  induction l generalizing a with
  | nil => simp
  | cons b bs ih =>
    simp only [List.foldl_cons]
    split_ifs with h
    · rcases ih b with h' | h'
      · right; rw [h']; simp
      · right; exact List.mem_cons_of_mem _ h'
    · rcases ih a with h' | h'
      · left; exact h'
      · right; exact List.mem_cons_of_mem _ h'

theorem minD_mem (l : List ℝ) (h : l ≠ []) : minD l ∈ l := by
  cases l with
  | nil => exact absurd rfl h
  | cons a as =>
    show as.foldl (fun m b => if b < m then b else m) a ∈ a :: as
    rcases foldl_min_mem as a with h' | h'
    · rw [h']; simp
    · exact List.mem_cons_of_mem _ h'

theorem minD_le (l : List ℝ) (x : ℝ) (hx : x ∈ l) : minD l ≤ x := by
  cases l with
  | nil => simp at hx
  | cons a as =>
    show as.foldl (fun m b => if b < m then b else m) a ≤ x
    rcases List.mem_cons.mp hx with rfl | hx
    · exact foldl_min_le_init as x
    · exact foldl_min_le_mem as a x hx

end minD

section scatter
variable {β : Type}

theorem scatterMap_nil (out : List ℝ) (g : Nat → ℝ) : scatterMap out [] g = out := rfl

theorem scatterMap_cons (out : List ℝ) (j : Nat) (js : List Nat) (g : Nat → ℝ) :
    scatterMap out (j :: js) g = scatterMap (out.set j (g j)) js g := rfl

theorem scatterMap_length (out : List ℝ) (idx : List Nat) (g : Nat → ℝ) :
    (scatterMap out idx g).length = out.length := by
  induction idx generalizing out with
  | nil => rfl
  | cons j js ih => rw [scatterMap_cons, ih]; simp

theorem scatterMap_get (out : List ℝ) (idx : List Nat) (g : Nat → ℝ) (i : Nat) (hi : i < out.length) :
    (scatterMap out idx g)[i]? = if i ∈ idx then some (g i) else out[i]? := by
  induction idx generalizing out with
  | nil => simp [scatterMap_nil]
  | cons j js ih =>
    rw [scatterMap_cons, ih _ (by simpa using hi)]
    by_cases h1 : i ∈ js
    · simp [h1]
    · simp only [h1, if_false, List.mem_cons, or_false]
      rw [List.getElem?_set]
      by_cases h2 : j = i
      · subst h2; simp [hi]
      · have : ¬ i = j := fun h => h2 h.symm
        simp [h2, this]

end scatter

/-- A duplicate-free list with at least two elements has an element different from any given one. -/
theorem exists_ne_of_nodup {l : List Nat} (hn : l.Nodup) (h2 : 2 ≤ l.length) (i : Nat) : ∃ j ∈ l, j ≠ i := by
  match l, hn, h2 with
  | a :: b :: _, hn, _ =>
    by_cases h : a = i
    · refine ⟨b, by simp, ?_⟩
      intro hb
      have : a ≠ b := by
        have := (List.nodup_cons.mp hn).1
        intro hab; apply this; simp [hab]
      exact this (h.trans hb.symm)
    · exact ⟨a, by simp, h⟩

/-- The model's metric is the Euclidean distance `√Σₖ(xₖ − yₖ)²`. -/
theorem sqDist_eq (x y : List ℝ) : sqDist x y = sqdist x y := by
  induction x generalizing y with
  | nil => cases y <;> simp [sqDist, sqdist]
  | cons a as ih =>
    cases y with
    | nil => simp [sqDist, sqdist]
    | cons b bs => simp only [sqDist, sqdist, ih bs]; ring

theorem euclid_eq (x y : List ℝ) : euclid x y = Real.sqrt (sqdist x y) := by
  simp [euclid, sqDist_eq]

theorem nnOf_spec (pts : List (List ℝ)) (grp : List Nat) (i : Nat) (hn : grp.Nodup) (h2 : 2 ≤ grp.length) :
    (∃ j ∈ grp, j ≠ i ∧ nnOf pts grp i = euclid (pts.getD i []) (pts.getD j []))
    ∧ ∀ j ∈ grp, j ≠ i → nnOf pts grp i ≤ euclid (pts.getD i []) (pts.getD j []) := by
  unfold nnOf
  set L := (grp.filter (· ≠ i)).map fun j => euclid (pts.getD i []) (pts.getD j []) with hL
  have hne : L ≠ [] := by
    obtain ⟨j, hj, hji⟩ := exists_ne_of_nodup hn h2 i
    intro h
    have : (grp.filter (· ≠ i)) = [] := by simpa [hL] using h
    have hmem : j ∈ grp.filter (· ≠ i) := by simp [hj, hji]
    rw [this] at hmem
    simp at hmem
  constructor
  · have := minD_mem L hne
    rw [hL, List.mem_map] at this
    obtain ⟨j, hj, hjv⟩ := this
    simp only [List.mem_filter, decide_eq_true_eq] at hj
    exact ⟨j, hj.1, hj.2, hjv.symm⟩
  · intro j hj hji
    apply minD_le
    rw [hL, List.mem_map]
    exact ⟨j, by simp [hj, hji], rfl⟩

section loop
variable {θ : Type} [LinearOrder θ]

theorem nnLoop_spec (c : Cells ℝ θ) (d : DArg ℝ) (norm : NormArg ℝ θ) (avg : ℝ) :
    ∀ (ts : List θ) (rank : Nat) (out res : List ℝ),
      nnLoop c d norm avg ts rank out = .ok res → ts.Nodup →
      res.length = out.length ∧
      ∀ i, i < out.length →
        (∀ k (hk : k < ts.length), c.times[i]? = some ts[k] →
            ∃ g, groupVals c d norm avg ts[k] (rank + k) = .ok g ∧ res[i]? = some (g i))
        ∧ ((∀ t ∈ ts, c.times[i]? ≠ some t) → res[i]? = out[i]?) := by
  intro ts
  induction ts with
  | nil =>
    intro rank out res h _
    have : res = out := by
      simp only [nnLoop, pure, Except.pure] at h
      injection h with h; exact h.symm
    subst this
    refine ⟨rfl, fun i _ => ⟨fun k hk => absurd hk (by simp), fun _ => rfl⟩⟩
  | cons t rest ih =>
    intro rank out res h hnd
    have hnd' := List.nodup_cons.mp hnd
    simp only [nnLoop] at h
    cases hg : groupVals c d norm avg t rank with
    | error e => simp [hg, throw, throwThe, MonadExceptOf.throw] at h
    | ok g =>
      simp only [hg] at h
      obtain ⟨hlen, hspec⟩ := ih (rank + 1) _ res h hnd'.2
      rw [scatterMap_length] at hlen
      refine ⟨hlen, ?_⟩
      intro i hi
      have hi' : i < (scatterMap out (groupIdx c.times t) g).length := by rw [scatterMap_length]; exact hi
      obtain ⟨h1, h2⟩ := hspec i hi'
      constructor
      · intro k hk hik
        cases k with
        | zero =>
          simp only [List.getElem_cons_zero] at hik ⊢
          refine ⟨g, by simpa using hg, ?_⟩
          have hnot : ∀ t' ∈ rest, c.times[i]? ≠ some t' := by
            intro t' ht' hh
            rw [hik] at hh
            have : t = t' := Option.some.inj hh
            exact hnd'.1 (this ▸ ht')
          rw [h2 hnot, scatterMap_get _ _ _ _ hi]
          simp [(mem_groupIdx c.times t i).mpr hik]
        | succ k =>
          simp only [List.getElem_cons_succ] at hik ⊢
          have hk' : k < rest.length := by simpa using hk
          obtain ⟨g', hg', hr⟩ := h1 k hk' hik
          refine ⟨g', ?_, hr⟩
          have : rank + 1 + k = rank + (k + 1) := by omega
          rw [← this]; exact hg'
      · intro hnone
        have hnot : ∀ t' ∈ rest, c.times[i]? ≠ some t' := fun t' ht' => hnone t' (List.mem_cons_of_mem _ ht')
        rw [h2 hnot, scatterMap_get _ _ _ _ hi]
        have : i ∉ groupIdx c.times t := by
          rw [mem_groupIdx]; exact hnone t (by simp)
        simp [this]

end loop

section cells
variable {θ : Type} [LinearOrder θ]

theorem groupVals_ok_size (c : Cells ℝ θ) (d : DArg ℝ) (norm : NormArg ℝ θ) (avg : ℝ) (t : θ) (k : Nat)
    (g : Nat → ℝ) (h : groupVals c d norm avg t k = .ok g) : 2 ≤ (groupIdx c.times t).length := by
  unfold groupVals at h
  by_contra hlt
  have : (groupIdx c.times t).length < 2 := by omega
  simp [this] at h

theorem groupVals_off (c : Cells ℝ θ) (d : DArg ℝ) (avg : ℝ) (t : θ) (k : Nat) (g : Nat → ℝ)
    (h : groupVals c d (.off : NormArg ℝ θ) avg t k = .ok g) :
    g = fun i => nnOf c.pts (groupIdx c.times t) i := by
  unfold groupVals at h
  have h2 := groupVals_ok_size c d .off avg t k g (by unfold groupVals; exact h)
  have : ¬ (groupIdx c.times t).length < 2 := by omega
  simp only [this, if_false, NormArg.isOn, Bool.false_eq_true, except_pure] at h
  injection h with h
  exact h.symm

theorem groupVals_off_of_size (c : Cells ℝ θ) (d : DArg ℝ) (avg : ℝ) (t : θ) (k : Nat)
    (h2 : 2 ≤ (groupIdx c.times t).length) :
    groupVals c d (.off : NormArg ℝ θ) avg t k = .ok (fun i => nnOf c.pts (groupIdx c.times t) i) := by
  unfold groupVals
  have : ¬ (groupIdx c.times t).length < 2 := by omega
  simp [this, NormArg.isOn]

theorem groupVals_off_err (c : Cells ℝ θ) (d : DArg ℝ) (avg : ℝ) (t : θ) (k : Nat) (e : NNErr)
    (h : groupVals c d (.off : NormArg ℝ θ) avg t k = .error e) : e = .singleton := by
  unfold groupVals at h
  by_cases hlt : (groupIdx c.times t).length < 2
  · simp only [hlt, if_true, except_throw] at h
    injection h with h
    exact h.symm
  · simp [hlt, NormArg.isOn] at h

theorem groupVals_on (c : Cells ℝ θ) (d : DArg ℝ) (norm : NormArg ℝ θ) (hon : norm.isOn = true) (avg : ℝ)
    (t : θ) (k : Nat) (g : Nat → ℝ) (h : groupVals c d norm avg t k = .ok g) :
    ∃ Nt, targetCount norm t k avg = .ok Nt ∧
      g = fun i => normFactor ((groupIdx c.times t).length : ℝ) Nt (dAt d i) * nnOf c.pts (groupIdx c.times t) i := by
  have h2 := groupVals_ok_size c d norm avg t k g h
  unfold groupVals at h
  have : ¬ (groupIdx c.times t).length < 2 := by omega
  simp only [this, if_false, hon, if_true] at h
  cases hN : targetCount norm t k avg with
  | error e => simp [hN] at h
  | ok Nt =>
    simp only [hN] at h
    refine ⟨Nt, rfl, ?_⟩
    by_cases hz : dIsZero d = true
    · simp [hz] at h
    · simp only [hz, Bool.false_eq_true, if_false, except_pure] at h
      injection h with h
      exact h.symm

theorem nnLoop_off_err (c : Cells ℝ θ) (d : DArg ℝ) (avg : ℝ) :
    ∀ (ts : List θ) (rank : Nat) (out : List ℝ) (e : NNErr),
      nnLoop c d (.off : NormArg ℝ θ) avg ts rank out = .error e → e = .singleton := by
  intro ts
  induction ts with
  | nil => intro rank out e h; simp [nnLoop] at h
  | cons t rest ih =>
    intro rank out e h
    simp only [nnLoop] at h
    cases hg : groupVals c d (.off : NormArg ℝ θ) avg t rank with
    | error e' =>
      simp only [hg, except_throw] at h
      injection h with h
      subst h
      exact groupVals_off_err c d avg t rank _ hg
    | ok g =>
      simp only [hg] at h
      exact ih _ _ _ h

theorem nnLoop_off_ok (c : Cells ℝ θ) (d : DArg ℝ) (avg : ℝ) :
    ∀ (ts : List θ) (rank : Nat) (out : List ℝ),
      (∀ t ∈ ts, 2 ≤ (groupIdx c.times t).length) →
      ∃ res, nnLoop c d (.off : NormArg ℝ θ) avg ts rank out = .ok res := by
  intro ts
  induction ts with
  | nil => intro rank out _; exact ⟨out, rfl⟩
  | cons t rest ih =>
    intro rank out h
    simp only [nnLoop, groupVals_off_of_size c d avg t rank (h t (by simp))]
    exact ih _ _ (fun t' ht' => h t' (List.mem_cons_of_mem _ ht'))

/-- Every group visited by a successful loop has at least two cells. -/
theorem nnLoop_ok_sizes (c : Cells ℝ θ) (d : DArg ℝ) (norm : NormArg ℝ θ) (avg : ℝ) :
    ∀ (ts : List θ) (rank : Nat) (out res : List ℝ),
      nnLoop c d norm avg ts rank out = .ok res → ∀ t ∈ ts, 2 ≤ (groupIdx c.times t).length := by
  intro ts
  induction ts with
  | nil => intro _ _ _ _ t ht; simp at ht
  | cons t rest ih =>
    intro rank out res h t' ht'
    simp only [nnLoop] at h
    cases hg : groupVals c d norm avg t rank with
    | error e => simp [hg] at h
    | ok g =>
      simp only [hg] at h
      rcases List.mem_cons.mp ht' with rfl | ht'
      · exact groupVals_ok_size c d norm avg _ rank g hg
      · exact ih _ _ _ h t' ht'

/-- The loop over the sorted unique time stamps, seen from cell `i`: its time stamp is the `k`-th
    smallest, the loop body for that stamp succeeded with values `g`, and `res[i] = g i`. -/
theorem nnCells_spec (c : Cells ℝ θ) (d : DArg ℝ) (norm : NormArg ℝ θ) (res : List ℝ)
    (h : nnCells c d norm = .ok res) :
    res.length = c.times.length ∧
    ∀ i (hi : i < c.times.length), ∃ k g, ∃ hk : k < (uniqueSorted c.times).length,
      (uniqueSorted c.times)[k] = c.times[i] ∧
      groupVals c d norm ((c.times.length : ℝ) / ((uniqueSorted c.times).length : ℝ)) c.times[i] k = .ok g ∧
      res[i]? = some (g i) := by
  unfold nnCells at h
  by_cases hn : c.times.length = 0
  · simp [hn] at h
  · simp only [hn, if_false] at h
    cases hv : validateNormalize norm (uniqueSorted c.times) with
    | error e => simp [hv] at h
    | ok u =>
      simp only [hv, except_pure, except_throw] at h
      cases hd : (if norm.isOn = true then validateD c.times.length d else Except.ok ()) with
      | error e => simp [hd] at h
      | ok u' =>
        simp only [hd] at h
        obtain ⟨hlen, hspec⟩ := nnLoop_spec c d norm _ _ 0 _ res h (nodup_uniqueSorted c.times)
        simp only [List.length_replicate] at hlen hspec
        refine ⟨hlen, ?_⟩
        intro i hi
        have hmem : c.times[i] ∈ uniqueSorted c.times := (mem_uniqueSorted _ _).mpr (List.getElem_mem hi)
        obtain ⟨k, hk, hkv⟩ := List.getElem_of_mem hmem
        obtain ⟨g, hg, hr⟩ := (hspec i hi).1 k hk (by rw [hkv]; exact List.getElem?_eq_getElem hi)
        refine ⟨k, g, hk, hkv, ?_, hr⟩
        rw [← hkv]
        simpa using hg

/-- A successful call has cells, and every time point has at least two of them. -/
theorem nnCells_ok_inv (c : Cells ℝ θ) (d : DArg ℝ) (norm : NormArg ℝ θ) (res : List ℝ)
    (h : nnCells c d norm = .ok res) :
    c.times.length ≠ 0 ∧ ∀ t ∈ uniqueSorted c.times, 2 ≤ (groupIdx c.times t).length := by
  unfold nnCells at h
  by_cases hn : c.times.length = 0
  · simp [hn] at h
  · refine ⟨hn, ?_⟩
    simp only [hn, if_false] at h
    cases hv : validateNormalize norm (uniqueSorted c.times) with
    | error e => simp [hv] at h
    | ok u =>
      simp only [hv, except_pure, except_throw] at h
      cases hd : (if norm.isOn = true then validateD c.times.length d else Except.ok ()) with
      | error e => simp [hd] at h
      | ok u' =>
        simp only [hd] at h
        exact nnLoop_ok_sizes c d norm _ _ 0 _ res h

/-- If every time point has at least two cells, the un-normalised call succeeds (whatever `d`). -/
theorem nnCells_off_ok (c : Cells ℝ θ) (d : DArg ℝ) (hn : c.times.length ≠ 0)
    (hsz : ∀ t ∈ uniqueSorted c.times, 2 ≤ (groupIdx c.times t).length) :
    ∃ raw, nnCells c d (.off : NormArg ℝ θ) = .ok raw := by
  unfold nnCells
  simp only [hn, if_false, validateNormalize, except_pure, NormArg.isOn, Bool.false_eq_true]
  exact nnLoop_off_ok c d _ _ 0 _ hsz

theorem missing_key_validate (es : List (θ × ℝ)) (uniq : List θ) (t : θ) (ht : t ∈ uniq)
    (hmiss : ∀ e ∈ es, e.1 ≠ t) :
    validateNormalize (.dict es : NormArg ℝ θ) uniq = .error .missingKey := by
  unfold validateNormalize
  have : (uniq.all fun t => es.any fun e => decide (e.1 = t)) = false := by
    rw [List.all_eq_false]
    refine ⟨t, ht, ?_⟩
    simp only [List.any_eq_true, decide_eq_true_eq, not_exists, not_and]
    intro e he
    exact hmiss e he
  simp [this]

theorem wrong_length_validate (k : SeqKind) (vs : List ℝ) (uniq : List θ)
    (h : vs.length ≠ uniq.length) :
    validateNormalize (.seq k vs : NormArg ℝ θ) uniq = .error .wrongLength := by
  simp [validateNormalize, h]

/-- A refusal of the loop is the refusal of the loop body at some position. -/
theorem nnLoop_err_position (c : Cells ℝ θ) (d : DArg ℝ) (norm : NormArg ℝ θ) (avg : ℝ) :
    ∀ (ts : List θ) (rank : Nat) (out : List ℝ) (e : NNErr),
      nnLoop c d norm avg ts rank out = .error e →
      ∃ k, ∃ hk : k < ts.length, groupVals c d norm avg ts[k] (rank + k) = .error e := by
  intro ts
  induction ts with
  | nil => intro rank out e h; simp [nnLoop] at h
  | cons t rest ih =>
    intro rank out e h
    simp only [nnLoop] at h
    cases hg : groupVals c d norm avg t rank with
    | error e' =>
      simp only [hg, except_throw] at h
      injection h with h
      subst h
      exact ⟨0, by simp, by simpa using hg⟩
    | ok g =>
      simp only [hg] at h
      obtain ⟨k, hk, hkv⟩ := ih _ _ _ h
      refine ⟨k + 1, by simpa using hk, ?_⟩
      have : rank + 1 + k = rank + (k + 1) := by omega
      simpa [this] using hkv

/-- The loop body only fails with `IndexError` when `normalize[rank]` is out of range. -/
theorem groupVals_indexError (c : Cells ℝ θ) (d : DArg ℝ) (norm : NormArg ℝ θ) (avg : ℝ) (t : θ) (k : Nat)
    (h : groupVals c d norm avg t k = .error .indexError) :
    ∃ kind vs, norm = .seq kind vs ∧ vs.length ≤ k := by
  unfold groupVals at h
  by_cases hlt : (groupIdx c.times t).length < 2
  · simp [hlt] at h
  · simp only [hlt, if_false] at h
    cases hon : norm.isOn with
    | false => simp [hon] at h
    | true =>
      simp only [hon, if_true] at h
      cases norm with
      | off => simp [NormArg.isOn] at hon
      | avg => simp [targetCount] at h; split at h <;> simp at h
      | dict es =>
        simp only [targetCount] at h
        cases hf : es.find? (fun e => decide (e.1 = t)) with
        | none => simp [hf] at h
        | some e => simp [hf] at h; split at h <;> simp at h
      | seq kind vs =>
        refine ⟨kind, vs, rfl, ?_⟩
        by_contra hk
        have hk' : k < vs.length := by omega
        simp only [targetCount, List.getElem?_eq_getElem hk', except_pure] at h
        by_cases hz : dIsZero d = true <;> simp [hz] at h

end cells

theorem mle_scaling (r q d : ℝ) (hr : 0 < r) (hq : 0 < q) (hd : d ≠ 0) :
    mleNN (rpow q (1 / d) * r) d = mleNN r d - Real.log q := by
  simp only [mleNN, rpow_real, log_real, lit2]
  have hp : 0 < q ^ (1 / d) := Real.rpow_pos_of_pos hq _
  rw [Real.log_mul (ne_of_gt hp) (ne_of_gt hr), Real.log_rpow hq]
  field_simp
  ring

theorem mle_norm (r nt Nt d : ℝ) (hr : 0 < r) (hnt : 0 < nt) (hNt : 0 < Nt) (hd : d ≠ 0) :
    mleNN (normFactor nt Nt d * r) d = mleNN r d + Real.log (Nt / nt) := by
  unfold normFactor
  rw [mle_scaling r (nt / Nt) d hr (div_pos hnt hNt) hd]
  rw [Real.log_div (ne_of_gt hnt) (ne_of_gt hNt), Real.log_div (ne_of_gt hNt) (ne_of_gt hnt)]
  ring

end Mellon
