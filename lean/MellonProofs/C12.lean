/-
  C12 — Derivative methods return true derivatives of what the predictor returns.
  Property theorems only (helpers: DerivLemmas, and C11's kernel-gradient lemmas).

  The model (`MellonModel/Deriv.lean`) records WHICH function each method hands to JAX autodiff and
  how the result is sliced; autodiff is the parameter `D : Diff ℝ` with the contract `DiffContract`
  ("returns the partial derivatives", satisfiable: `derivDiff_contract`).  `callOf kind mean` is what
  the call operator evaluates on one row: `mean` for `Predictor`/`PredictorTime`, `exp ∘ mean` for
  `ExpPredictor`.  A row of a time-aware predictor is `x ++ [t]`.

  On the pinned tree before the `fix:` commit 97b1def `Predictor.gradient` differentiated `_mean`
  (i.e. `callOf .plain`) for every class; `exp_gradient_differs_from_log_gradient` is why that was
  wrong for `ExpPredictor`.  The model mirrors the fixed code.
-/
import MellonProofs.DerivLemmas
import Mathlib.Analysis.Calculus.FDeriv.Symmetric
import Mathlib.Analysis.InnerProductSpace.PiL2

namespace Mellon.C12
open Mellon

/-! ### which function is differentiated (all 9 classes) -/

/-- **gradient_target.**  `p.gradient(x)[i, j]` is the partial derivative in `x_j` of the value the
    call operator returns on row `i` — for `ExpPredictor` of `exp ∘ _mean`, not of `_mean`. -/
theorem gradient_target (D : Diff ℝ) (hD : DiffContract D) (kind : PredKind) (mean : List ℝ → ℝ)
    (X : List (List ℝ)) (i j : Nat) (hi : i < X.length) (hj : j < (X.getD i []).length) (d : ℝ)
    (hd : HasDerivAt (fun t => callOf kind mean ((X.getD i []).set j t)) d ((X.getD i []).getD j 0)) :
    ((Predictor.gradient D kind mean X).getD i []).getD j 0 = d := by
  have hrow : (Predictor.gradient D kind mean X).getD i [] = D.jac (callOf kind mean) (X.getD i []) := by
    simp [Predictor.gradient, Deriv.gradient, List.getD_eq_getElem?_getD, hi]
  rw [hrow]
  exact hD.partialDeriv _ _ j d hj hd

/-- **hessian_target.**  Row `a` of the Hessian block of row `i` is the autodiff gradient of the
    `a`-th partial derivative of the call value (`jacfwd(jacrev(self.__call__))`) … -/
theorem hessian_target_def (D : Diff ℝ) (kind : PredKind) (mean : List ℝ → ℝ) (x : List ℝ) (a : Nat)
    (ha : a < x.length) :
    (Deriv.hessRow D (callOf kind mean) x).getD a []
      = D.jac (fun x' => (D.jac (callOf kind mean) x').getD a 0) x := by
  simp [Deriv.hessRow, List.getD_eq_getElem?_getD, ha]

/-- The row operator `jacfwd(jacrev(f))` under the contract: entry `(a, b)` is `∂_b ∂_a f`
    (`g` = the first partial derivative `∂_a f` as a function of the row). -/
theorem hessRow_target (D : Diff ℝ) (hD : DiffContract D) (f : List ℝ → ℝ)
    (x : List ℝ) (a b : Nat) (ha : a < x.length) (hb : b < x.length) (g : List ℝ → ℝ) (h : ℝ)
    (hg : ∀ x' : List ℝ, x'.length = x.length → HasDerivAt (fun t => f (x'.set a t)) (g x') (x'.getD a 0))
    (hh : HasDerivAt (fun t => g (x.set b t)) h (x.getD b 0)) :
    ((Deriv.hessRow D f x).getD a []).getD b 0 = h := by
  have hdef : (Deriv.hessRow D f x).getD a [] = D.jac (fun x' => (D.jac f x').getD a 0) x := by
    simp [Deriv.hessRow, List.getD_eq_getElem?_getD, ha]
  rw [hdef]
  apply hD.partialDeriv _ x b h hb
  have hfun : (fun t => (D.jac f (x.set b t)).getD a 0) = fun t => g (x.set b t) := by
    funext t
    have hl : (x.set b t).length = x.length := by simp
    exact hD.partialDeriv _ _ a _ (by rw [hl]; exact ha) (hg _ hl)
  rw [hfun]; exact hh

/-- … hence, under the contract, entry `(a, b)` of `p.hessian(x)[i]` is the second partial derivative
    `∂_b ∂_a` of the value the predictor returns. -/
theorem hessian_target (D : Diff ℝ) (hD : DiffContract D) (kind : PredKind) (mean : List ℝ → ℝ)
    (x : List ℝ) (a b : Nat) (ha : a < x.length) (hb : b < x.length) (g : List ℝ → ℝ) (h : ℝ)
    (hg : ∀ x' : List ℝ, x'.length = x.length →
      HasDerivAt (fun t => callOf kind mean (x'.set a t)) (g x') (x'.getD a 0))
    (hh : HasDerivAt (fun t => g (x.set b t)) h (x.getD b 0)) :
    ((Deriv.hessRow D (callOf kind mean) x).getD a []).getD b 0 = h :=
  hessRow_target D hD _ x a b ha hb g h hg hh

/-- `Predictor.hessian` applies that row Hessian to every row of `x`. -/
theorem hessian_rows (D : Diff ℝ) (kind : PredKind) (mean : List ℝ → ℝ) (X : List (List ℝ)) :
    Predictor.hessian D kind mean X = X.map (Deriv.hessRow D (callOf kind mean)) := rfl

/-- **hld_target / slogdet_pair.**  The sign / log-determinant pair is `slogdet` of exactly the
    Hessian block the `hessian` method returns for that row (same function, same operator). -/
theorem hld_target (D : Diff ℝ) (sl : List (List ℝ) → ℝ × ℝ) (kind : PredKind) (mean : List ℝ → ℝ)
    (X : List (List ℝ)) :
    Predictor.hld D sl kind mean X = (Predictor.hessian D kind mean X).map sl := by
  simp [Predictor.hld, Predictor.hessian, Deriv.hld, Deriv.hessian, List.map_map, Function.comp_def]

/-! ### the exponential wrapper -/

/-- **exp_chain.**  `∂_j (exp ∘ m) = exp(m) · ∂_j m`. -/
theorem exp_chain (m : List ℝ → ℝ) (x : List ℝ) (j : Nat) (m' : ℝ)
    (hm : HasDerivAt (fun t => m (x.set j t)) m' (x.getD j 0)) :
    HasDerivAt (fun t => callOf .exp m (x.set j t)) (Real.exp (m x) * m') (x.getD j 0) := by
  have h := hm.exp
  rw [set_getD_self] at h
  exact h

/-- The gradient of an `ExpPredictor` is `exp(_mean) · ∇_mean` (what the fixed code returns) … -/
theorem exp_gradient_target (D : Diff ℝ) (hD : DiffContract D) (mean : List ℝ → ℝ)
    (X : List (List ℝ)) (i j : Nat) (hi : i < X.length) (hj : j < (X.getD i []).length) (m' : ℝ)
    (hm : HasDerivAt (fun t => mean ((X.getD i []).set j t)) m' ((X.getD i []).getD j 0)) :
    ((Predictor.gradient D .exp mean X).getD i []).getD j 0 = Real.exp (mean (X.getD i [])) * m' :=
  gradient_target D hD .exp mean X i j hi hj _ (exp_chain mean _ j m' hm)

/-- … which differs from the gradient of the log-scale value `_mean` whenever that gradient entry is
    non-zero and the value is not `1` (`_mean ≠ 0`): differentiating `_mean` instead of `__call__` is
    wrong for `ExpPredictor`. -/
theorem exp_gradient_differs_from_log_gradient (mx m' : ℝ) (hm' : m' ≠ 0) (hmx : mx ≠ 0) :
    Real.exp mx * m' ≠ m' := by
  intro h
  have h1 : Real.exp mx = 1 := by
    have := mul_right_cancel₀ hm' (by rw [h, one_mul] : Real.exp mx * m' = 1 * m')
    exact this
  exact hmx (by simpa using (Real.exp_eq_one_iff mx).mp h1)

/-! ### time-aware predictors -/

/-- **time_derivative_eq.**  `p.time_derivative(x, t)[i]` is the derivative in `t` of `p(x_i, t)`:
    the last component of the gradient of `(x, t) ↦ mean`. -/
theorem time_derivative_eq (D : Diff ℝ) (hD : DiffContract D) (mean : List ℝ → ℝ)
    (X : List (List ℝ)) (ts : List ℝ) (i : Nat) (hX : i < X.length) (ht : i < ts.length) (d : ℝ)
    (hd : HasDerivAt (fun t => mean (X.getD i [] ++ [t])) d (ts.getD i 0)) :
    (PredictorTime.timeDerivative D mean X ts).getD i 0 = d := by
  have hlen : i < (mergeTime X ts).length := by simp [mergeTime, hX, ht]
  have hrow : (PredictorTime.timeDerivative D mean X ts).getD i 0
      = (D.jac (callOf .time mean) (X.getD i [] ++ [ts.getD i 0])).getD
          ((D.jac (callOf .time mean) (X.getD i [] ++ [ts.getD i 0])).length - 1) 0 := by
    have := mergeTime_getD X ts i hX ht
    simp only [List.getD_eq_getElem?_getD] at this ⊢
    simp only [PredictorTime.timeDerivative, Predictor.gradient, Deriv.gradient, List.getElem?_map]
    cases hmi : (mergeTime X ts)[i]? with
    | none => exact absurd (List.getElem?_eq_none_iff.mp hmi) (by omega)
    | some row =>
      simp only [hmi, Option.getD_some] at this
      simp [this]
  rw [hrow, hD.width]
  simp only [List.length_append, List.length_cons, List.length_nil, Nat.add_sub_cancel]
  apply hD.partialDeriv _ _ _ d (by simp)
  rw [getD_append_last]
  have hfun : (fun s => callOf .time mean ((X.getD i [] ++ [ts.getD i 0]).set (X.getD i []).length s))
      = fun s => mean (X.getD i [] ++ [s]) := by
    funext s; rw [set_append_last]; rfl
  rw [hfun]; exact hd

/-- **time_derivative of several value columns.**  Entry `(i, k)` of `p.time_derivative(x, t)` for a predictor with several
    value columns is the time derivative of column `k` alone — what the single-column predictor of that column returns
    (`time_derivative_eq` then identifies it with `∂/∂t`) — and the result has one entry per column in every row. -/
theorem time_derivative_columns (D : Diff ℝ) (means : List (List ℝ → ℝ)) (X : List (List ℝ)) (ts : List ℝ)
    (i k : Nat) (hk : k < means.length) :
    ((PredictorTime.timeDerivativeCols D means X ts).getD i []).getD k 0
        = (PredictorTime.timeDerivative D (means.getD k fun _ => 0) X ts).getD i 0
    ∧ (i < (mergeTime X ts).length →
        ((PredictorTime.timeDerivativeCols D means X ts).getD i []).length = means.length) := by
  simp only [PredictorTime.timeDerivativeCols, PredictorTime.timeDerivative, Predictor.gradient, Deriv.gradient,
    Deriv.gradientCols, List.map_map, List.getD_eq_getElem?_getD, List.getElem?_map]
  cases hmi : (mergeTime X ts)[i]? with
  | none => simp [List.getElem?_eq_none_iff.mp hmi |> fun h => by omega]
  | some row =>
    have hlt : i < (mergeTime X ts).length := by
      by_contra hge
      rw [List.getElem?_eq_none_iff.mpr (by omega)] at hmi
      cases hmi
    simp [hk, hlt]

/-- **time-aware gradient: `t` held fixed.**  `p.gradient(x, t)[i, j]` is the partial derivative in the
    state coordinate `x_j` of `p(·, t_i)` at `x_i`. -/
theorem time_gradient_fixes_time (D : Diff ℝ) (hD : DiffContract D) (mean : List ℝ → ℝ)
    (X : List (List ℝ)) (ts : List ℝ) (i j : Nat) (hX : i < X.length) (ht : i < ts.length)
    (hj : j < (X.getD i []).length) (d : ℝ)
    (hd : HasDerivAt (fun s => mean ((X.getD i []).set j s ++ [ts.getD i 0])) d ((X.getD i []).getD j 0)) :
    ((PredictorTime.gradient D mean X ts).getD i []).getD j 0 = d := by
  have hrow : (PredictorTime.gradient D mean X ts).getD i []
      = D.jac (fun x' => callOf .time mean (x' ++ [ts.getD i 0])) (X.getD i []) := by
    simp [PredictorTime.gradient, List.getD_eq_getElem?_getD, hX, ht]
  rw [hrow]
  exact hD.partialDeriv _ _ j d hj hd

/-- The state part of the merged gradient and the fixed-time gradient coincide: for `j` a state
    coordinate, `∂_j` of `(x, t) ↦ mean` is `∂_j` of `x ↦ mean(x, t)`. -/
theorem time_gradient_is_state_part (D : Diff ℝ) (hD : DiffContract D) (mean : List ℝ → ℝ)
    (X : List (List ℝ)) (ts : List ℝ) (i j : Nat) (hX : i < X.length) (ht : i < ts.length)
    (hj : j < (X.getD i []).length) (d : ℝ)
    (hd : HasDerivAt (fun s => mean ((X.getD i [] ++ [ts.getD i 0]).set j s)) d ((X.getD i []).getD j 0)) :
    ((PredictorTime.gradient D mean X ts).getD i []).getD j 0 = d
      ∧ ((Predictor.gradient D .time mean (mergeTime X ts)).getD i []).getD j 0 = d := by
  constructor
  · apply time_gradient_fixes_time D hD mean X ts i j hX ht hj d
    have hfun : (fun s => mean ((X.getD i []).set j s ++ [ts.getD i 0]))
        = fun s => mean ((X.getD i [] ++ [ts.getD i 0]).set j s) := by
      funext s; rw [set_append_left _ _ _ _ hj]
    rw [hfun]; exact hd
  · have hlen : i < (mergeTime X ts).length := by simp [mergeTime, hX, ht]
    have hm := mergeTime_getD X ts i hX ht
    apply gradient_target D hD .time mean (mergeTime X ts) i j hlen (by rw [hm, List.length_append]; omega) d
    rw [hm, getD_append_left _ _ _ hj]
    exact hd

/-- **time-aware Hessian: `t` held fixed.**  Block `i` of `p.hessian(x, t)` is the row operator applied to
    `x ↦ p(x, t_i)`; under the contract its entry `(a, b)` is `∂_b ∂_a` of that function of the state. -/
theorem time_hessian_target (D : Diff ℝ) (hD : DiffContract D) (mean : List ℝ → ℝ)
    (X : List (List ℝ)) (ts : List ℝ) (i a b : Nat) (hX : i < X.length) (ht : i < ts.length)
    (ha : a < (X.getD i []).length) (hb : b < (X.getD i []).length) (g : List ℝ → ℝ) (h : ℝ)
    (hg : ∀ x' : List ℝ, x'.length = (X.getD i []).length →
      HasDerivAt (fun s => mean (x'.set a s ++ [ts.getD i 0])) (g x') (x'.getD a 0))
    (hh : HasDerivAt (fun s => g ((X.getD i []).set b s)) h ((X.getD i []).getD b 0)) :
    (((PredictorTime.hessian D mean X ts).getD i []).getD a []).getD b 0 = h := by
  have hrow : (PredictorTime.hessian D mean X ts).getD i []
      = Deriv.hessRow D (fun x' => callOf .time mean (x' ++ [ts.getD i 0])) (X.getD i []) := by
    simp [PredictorTime.hessian, List.getD_eq_getElem?_getD, hX, ht]
  rw [hrow]
  exact hessRow_target D hD _ _ a b ha hb g h hg hh

/-- Time-aware log-determinant: the pair is `slogdet` of exactly the blocks `p.hessian(x, t)` returns. -/
theorem time_hld_target (D : Diff ℝ) (sl : List (List ℝ) → ℝ × ℝ) (mean : List ℝ → ℝ)
    (X : List (List ℝ)) (ts : List ℝ) :
    PredictorTime.hld D sl mean X ts = (PredictorTime.hessian D mean X ts).map sl := by
  simp [PredictorTime.hld, PredictorTime.hessian, List.map_zipWith]

/-! ### closed form for the three conditional families -/

/-- **Closed form from linearity.**  For `_mean(x*) = mu + Σ_i k(x*, p_i)·w_i` (all three conditional
    families): `∂_j mean(x*) = Σ_i w_i·(∇k(x*, p_i))_j`, with the exact kernel gradients of C11. -/
theorem mean_gradient_closed_form (p : GPMean ℝ) (x : List ℝ) (j : Nat) (hs : p.Smooth x) :
    HasDerivAt (fun t => p.mean (x.set j t)) ((p.meanGradE 0 x).getD j 0) (x.getD j 0) :=
  p.mean_partial x j hs

/-- What `p.gradient` returns for each of the 9 classes, in closed form (under the autodiff contract):
    `Σ_i w_i ∇k(x*, p_i)`, times `exp(mean)` for the `Exp…` classes. -/
theorem gradient_closed_form (D : Diff ℝ) (hD : DiffContract D) (kind : PredKind) (p : GPMean ℝ)
    (X : List (List ℝ)) (i j : Nat) (hi : i < X.length) (hj : j < (X.getD i []).length)
    (hs : p.Smooth (X.getD i [])) :
    ((Predictor.gradient D kind p.mean X).getD i []).getD j 0
      = (p.callGradE 0 kind (X.getD i [])).getD j 0 := by
  have hm := p.mean_partial (X.getD i []) j hs
  cases kind with
  | exp =>
    rw [exp_gradient_target D hD p.mean X i j hi hj _ hm]
    show _ = ((p.meanGradE 0 (X.getD i [])).map fun g => Real.exp (p.mean (X.getD i [])) * g).getD j 0
    rw [getD_map_mul_left]
  | plain => exact gradient_target D hD .plain p.mean X i j hi hj _ hm
  | time => exact gradient_target D hD .time p.mean X i j hi hj _ hm

/-- The executable closed form the driver runs is the same recursion with the kernel gradients of
    `cov.k_grad` (guard `1e-12`, see C11 for the factor this introduces per distance-based leaf). -/
theorem driver_closed_form_is_guarded (kind : PredKind) (p : GPMean ℝ) (x : List ℝ) :
    p.callGrad kind x = p.callGradE 1e-12 kind x := p.callGrad_eq kind x

/-- … and it stays within `1e-6 · Σ_i |w_i|·devBound_i` of the exact gradient of `_mean` (C11's bound,
    summed with the absolute weights); with query points at a margin from the conditioning points the
    factor is in fact `≤ 1e-12/margin` per leaf (`C11.gamma_far`). -/
theorem driver_closed_form_close (p : GPMean ℝ) (x : List ℝ) (j : Nat) (hs : p.Smooth x) :
    |(p.meanGrad x).getD j 0 - (p.meanGradE 0 x).getD j 0|
      ≤ 1e-6 * wsum p.pts (absL p.weights) (fun pt => (p.cov.devBound pt x).getD j 0) :=
  p.meanGrad_close x j hs

/-- Closed form of `time_derivative`: the last entry of the merged-coordinate closed-form gradient. -/
theorem time_derivative_closed_form (D : Diff ℝ) (hD : DiffContract D) (p : GPMean ℝ)
    (X : List (List ℝ)) (ts : List ℝ) (i : Nat) (hX : i < X.length) (ht : i < ts.length)
    (hs : p.Smooth (X.getD i [] ++ [ts.getD i 0])) :
    (PredictorTime.timeDerivative D p.mean X ts).getD i 0
      = (p.meanGradE 0 (X.getD i [] ++ [ts.getD i 0])).getD (X.getD i []).length 0 := by
  apply time_derivative_eq D hD p.mean X ts i hX ht
  have h := p.mean_partial (X.getD i [] ++ [ts.getD i 0]) (X.getD i []).length hs
  rw [getD_append_last] at h
  have hfun : (fun t => p.mean ((X.getD i [] ++ [ts.getD i 0]).set (X.getD i []).length t))
      = fun t => p.mean (X.getD i [] ++ [t]) := by
    funext t; rw [set_append_last]
  rw [hfun] at h; exact h

/-! ### symmetry of the Hessian -/

/-- **hessian_symm** (Mathlib's symmetry of second derivatives): if the call value is `C²` at the
    point, its second Fréchet derivative is symmetric, `D²f(x) u v = D²f(x) v u`; in coordinates
    `u = e_a`, `v = e_b` this is `H[a, b] = H[b, a]`. -/
theorem hessian_symm {d : Nat} (f : EuclideanSpace ℝ (Fin d) → ℝ) (x : EuclideanSpace ℝ (Fin d))
    (hf : ContDiffAt ℝ 2 f x) (u v : EuclideanSpace ℝ (Fin d)) :
    fderiv ℝ (fderiv ℝ f) x u v = fderiv ℝ (fderiv ℝ f) x v u :=
  (hf.isSymmSndFDerivAt (by simp)) u v

/-! ### shapes -/

/-- `gradient.shape == x.shape`. -/
theorem gradient_shape (D : Diff ℝ) (hD : DiffContract D) (kind : PredKind) (mean : List ℝ → ℝ)
    (X : List (List ℝ)) :
    (Predictor.gradient D kind mean X).length = X.length
      ∧ ∀ i, ((Predictor.gradient D kind mean X).getD i []).length = (X.getD i []).length := by
  refine ⟨by simp [Predictor.gradient, Deriv.gradient], fun i => ?_⟩
  simp only [Predictor.gradient, Deriv.gradient, List.getD_eq_getElem?_getD, List.getElem?_map]
  cases X[i]? with
  | none => simp
  | some row => simp [hD.width]

/-- `hessian.shape == x.shape + (d,)`. -/
theorem hessian_shape (D : Diff ℝ) (hD : DiffContract D) (kind : PredKind) (mean : List ℝ → ℝ)
    (X : List (List ℝ)) :
    (Predictor.hessian D kind mean X).length = X.length
      ∧ ∀ x ∈ X, (Deriv.hessRow D (callOf kind mean) x).length = x.length
          ∧ ∀ r ∈ Deriv.hessRow D (callOf kind mean) x, r.length = x.length := by
  refine ⟨by simp [Predictor.hessian, Deriv.hessian], fun x _ => ⟨by simp [Deriv.hessRow], ?_⟩⟩
  intro r hr
  simp only [Deriv.hessRow, List.mem_map] at hr
  obtain ⟨a, _, rfl⟩ := hr
  exact hD.width _ _

/-- `signs.shape == log_determinants.shape == (n,)`; `time_derivative.shape == (n,)`. -/
theorem hld_shape (D : Diff ℝ) (sl : List (List ℝ) → ℝ × ℝ) (kind : PredKind) (mean : List ℝ → ℝ)
    (X : List (List ℝ)) : (Predictor.hld D sl kind mean X).length = X.length := by
  simp [Predictor.hld, Deriv.hld]

theorem time_derivative_shape (D : Diff ℝ) (mean : List ℝ → ℝ) (X : List (List ℝ)) (ts : List ℝ)
    (h : ts.length = X.length) : (PredictorTime.timeDerivative D mean X ts).length = X.length := by
  simp [PredictorTime.timeDerivative, Predictor.gradient, Deriv.gradient, mergeTime, h]

theorem time_gradient_shape (D : Diff ℝ) (hD : DiffContract D) (mean : List ℝ → ℝ) (X : List (List ℝ))
    (ts : List ℝ) (h : ts.length = X.length) :
    (PredictorTime.gradient D mean X ts).length = X.length
      ∧ ∀ i, ((PredictorTime.gradient D mean X ts).getD i []).length = (X.getD i []).length
          ∨ X.length ≤ i := by
  refine ⟨by simp [PredictorTime.gradient, h], fun i => ?_⟩
  by_cases hi : i < X.length
  · left
    simp [PredictorTime.gradient, List.getD_eq_getElem?_getD, hi, h ▸ hi, hD.width]
  · right; omega

/-! ### several output columns (`hessian_log_determinant` after the fix) -/

/-- Scalar outputs: unchanged — one pair per row, `slogdet` of the row's Hessian block. -/
theorem hld_scalar_output (D : Diff ℝ) (sl : List (List ℝ) → ℝ × ℝ) (f : List ℝ → ℝ) (X : List (List ℝ)) :
    Deriv.hldOut D sl (.scalar f) X = (Deriv.hld D sl f X).map HldRow.single := by
  simp [Deriv.hldOut, Deriv.hldRow, Deriv.hld, List.map_map, Function.comp_def]

/-- **hld_target for `k` output columns** (any `k`, one column included): row `i`, column `c` of the
    result is `slogdet` of exactly the block `hessian(x)[i, c]` — the pair of the returned Hessian, per
    output column. -/
theorem hld_columns_target (D : Diff ℝ) (sl : List (List ℝ) → ℝ × ℝ) (fs : List (List ℝ → ℝ))
    (X : List (List ℝ)) :
    Deriv.hldOut D sl (.columns fs) X
      = (Deriv.hessianCols D fs X).map fun blocks => HldRow.perColumn (blocks.map sl) := by
  simp only [Deriv.hldOut, Deriv.hessianCols, List.map_map]
  apply List.map_congr_left
  intro x _
  simp only [Deriv.hldRow, Function.comp_def, List.map_map]

/-- A single output column keeps its column axis (repair of finding H3-C3; it was returned unbatched,
    shape `(n,)`, while value / gradient / Hessian have `(n, 1)`, `(n, 1, d)`, `(n, 1, d, d)`): one pair
    per row, in a column of length one — the same numbers as for the scalar output `f`. -/
theorem hld_one_column (D : Diff ℝ) (sl : List (List ℝ) → ℝ × ℝ) (f : List ℝ → ℝ) (X : List (List ℝ)) :
    Deriv.hldOut D sl (.columns [f]) X = (Deriv.hld D sl f X).map fun p => HldRow.perColumn [p] := by
  simp [Deriv.hldOut, Deriv.hldRow, Deriv.hld, List.map_map, Function.comp_def]

/-- **hld shape for `k` output columns**: `(n, k)` — one row per query row, one pair per column. -/
theorem hld_shape_columns (D : Diff ℝ) (sl : List (List ℝ) → ℝ × ℝ) (fs : List (List ℝ → ℝ))
    (X : List (List ℝ)) :
    (Deriv.hldOut D sl (.columns fs) X).length = X.length
      ∧ ∀ r ∈ Deriv.hldOut D sl (.columns fs) X, ∃ ps, r = HldRow.perColumn ps ∧ ps.length = fs.length := by
  rw [hld_columns_target D sl fs X]
  refine ⟨by simp [Deriv.hessianCols], fun r hr => ?_⟩
  simp only [Deriv.hessianCols, List.map_map, List.mem_map] at hr
  obtain ⟨x, _, rfl⟩ := hr
  exact ⟨_, rfl, by simp⟩

/-- `gradient` / `hessian` for `k` output columns: shapes `(n, k, d)` / `(n, k, d, d)`. -/
theorem gradient_shape_columns (D : Diff ℝ) (hD : DiffContract D) (fs : List (List ℝ → ℝ)) (X : List (List ℝ)) :
    (Deriv.gradientCols D fs X).length = X.length
      ∧ ∀ x ∈ X, ((fs.map fun f => D.jac f x).length = fs.length ∧ ∀ g ∈ fs.map (fun f => D.jac f x), g.length = x.length) := by
  refine ⟨by simp [Deriv.gradientCols], fun x _ => ⟨by simp, fun g hg => ?_⟩⟩
  obtain ⟨f, _, rfl⟩ := List.mem_map.mp hg
  exact hD.width f x

/-- Each output column is differentiated on its own: entry `(i, c, j)` of the gradient is the partial
    derivative of column `c` of the returned value. -/
theorem gradient_columns_target (D : Diff ℝ) (hD : DiffContract D) (fs : List (List ℝ → ℝ)) (x : List ℝ)
    (f : List ℝ → ℝ) (hf : f ∈ fs) (j : Nat) (hj : j < x.length) (d : ℝ)
    (hd : HasDerivAt (fun t => f (x.set j t)) d (x.getD j 0)) :
    D.jac f x ∈ (fs.map fun f => D.jac f x) ∧ (D.jac f x).getD j 0 = d :=
  ⟨List.mem_map.mpr ⟨f, hf, rfl⟩, hD.partialDeriv f x j d hj hd⟩

/-! ### non-vacuity -/

example : DiffContract derivDiff := derivDiff_contract
example : ([fun _ => (0:ℝ), fun _ => 1] : List (List ℝ → ℝ)).length ≠ 1 := by decide

/-- a concrete predictor state: one conditioning point, Matern-5/2, regular everywhere -/
noncomputable def exampleMean : GPMean ℝ :=
  { cov := .matern52 1 .none, mu := 0, pts := [[0, 0]], weights := [1] }

example : exampleMean.Smooth [1, 2] :=
  ⟨by intro pt hpt; simp [exampleMean] at hpt; subst hpt; rfl, by decide,
   by intro pt _; trivial⟩

example : Real.exp (1:ℝ) * 2 ≠ 2 := exp_gradient_differs_from_log_gradient 1 2 (by norm_num) (by norm_num)

end Mellon.C12
