/-
  MellonProofs.ValidateLemmas — helper lemmas for C20 (extended floats, nn sanitation, value syntax).
-/
import MellonModel.Validate
import MellonProofs.Real

namespace Mellon.Validate
open Outcome

/-! ### outcomes -/

theorem bind_eq_ok {α β : Type} {o : Outcome α} {f : α → Outcome β} {r : β} :
    o.bind f = ok r ↔ ∃ v, o = ok v ∧ f v = ok r := by
  cases o <;> simp [Outcome.bind]

theorem bind_isInternal {α β : Type} {o : Outcome α} {f : α → Outcome β}
    (h1 : o.isInternal = false) (h2 : ∀ v, o = ok v → (f v).isInternal = false) :
    (o.bind f).isInternal = false := by
  cases o <;> simp_all [Outcome.bind, Outcome.isInternal]

@[simp] theorem isInternal_ok {α : Type} (v : α) : (ok v : Outcome α).isInternal = false := rfl
@[simp] theorem isInternal_valueError {α : Type} : (valueError : Outcome α).isInternal = false := rfl
@[simp] theorem isInternal_typeError {α : Type} : (typeError : Outcome α).isInternal = false := rfl
@[simp] theorem isInternal_internal {α : Type} : (internal : Outcome α).isInternal = true := rfl

theorem floatCatch_eq_ok {v : PyVal} {x : XF} : floatCatch v = ok x ↔ pyFloat v = ok x := by
  unfold floatCatch; cases pyFloat v <;> simp

theorem floatCatch_of_not_ok {v : PyVal} (h : ∀ x, pyFloat v ≠ ok x) : floatCatch v = valueError := by
  unfold floatCatch
  cases hp : pyFloat v with
  | ok x => exact absurd hp (h x)
  | _ => rfl

theorem floatCatch_of_typeError {v : PyVal} (h : pyFloat v = typeError) : floatCatch v = valueError := by
  unfold floatCatch; rw [h]

theorem floatCatch_of_valueError {v : PyVal} (h : pyFloat v = valueError) : floatCatch v = valueError := by
  unfold floatCatch; rw [h]

/-- `float()` wrapped in the validators' try/except never leaks another exception class -/
theorem floatCatch_noInternal (v : PyVal) : (floatCatch v).isInternal = false := by
  unfold floatCatch; cases pyFloat v <;> rfl

theorem catchOverflow_noInternal {α : Type} (o : Outcome α) : (catchOverflow o).isInternal = false := by
  cases o <;> rfl

theorem catchOverflow_eq_ok {α : Type} {o : Outcome α} {v : α} : catchOverflow o = ok v ↔ o = ok v := by
  cases o <;> simp [catchOverflow]

/-! ### extended floats -/

theorem nnBad_eq_not_finPos (x : XF) : nnBad x = !x.finPos := by
  cases x with
  | fin q =>
    simp only [nnBad, XF.isNan, XF.isInf, XF.le0, XF.finPos, Bool.false_or]
    by_cases h : q ≤ 0
    · have : ¬ 0 < q := not_lt.mpr h
      simp [h, this]
    · have : 0 < q := not_le.mp h
      simp [h, this]
  | pinf => rfl
  | ninf => rfl
  | nan => rfl

theorem nnBad_false_iff (x : XF) : nnBad x = false ↔ x.finPos = true := by
  rw [nnBad_eq_not_finPos]; cases x.finPos <;> simp

theorem finPos_iff (x : XF) : x.finPos = true ↔ ∃ q : Rat, x = .fin q ∧ 0 < q := by
  cases x <;> simp [XF.finPos]

theorem finPos_pos {x : XF} (h : x.finPos = true) : x.pos = true := by
  cases x <;> simp_all [XF.finPos, XF.pos]

theorem finPos_not_nan {x : XF} (h : x.finPos = true) : x.isNan = false := by
  cases x <;> simp_all [XF.finPos, XF.isNan]

/-! ### Python's `min` on finite positive values -/

theorem minXF_mem (m : XF) (xs : List XF) : minXF m xs ∈ m :: xs := by
  induction xs generalizing m with
  | nil => simp [minXF]
  | cons x xs ih =>
    simp only [minXF]
    have := ih (if x.lt m then x else m)
    rcases List.mem_cons.mp this with h | h
    · rw [h]; split <;> simp
    · exact List.mem_cons_of_mem _ (List.mem_cons_of_mem _ h)

theorem lt_fin_fin (a b : Rat) : (XF.fin a).lt (XF.fin b) = decide (a < b) := rfl

/-- On finite values no element is `<` the result of `min`. -/
theorem minXF_le (m : XF) (xs : List XF) (hm : m.finPos = true) (hxs : ∀ x ∈ xs, x.finPos = true) :
    ∀ v ∈ m :: xs, v.lt (minXF m xs) = false := by
  induction xs generalizing m with
  | nil =>
    intro v hv
    obtain ⟨q, rfl, _⟩ := (finPos_iff m).mp hm
    simp only [List.mem_singleton] at hv
    subst hv
    simp [minXF, lt_fin_fin]
  | cons x xs ih =>
    intro v hv
    have hx : x.finPos = true := hxs x (List.mem_cons_self)
    have hxs' : ∀ y ∈ xs, y.finPos = true := fun y hy => hxs y (List.mem_cons_of_mem _ hy)
    obtain ⟨qm, rfl, hqm⟩ := (finPos_iff m).mp hm
    obtain ⟨qx, rfl, hqx⟩ := (finPos_iff x).mp hx
    simp only [minXF, lt_fin_fin]
    by_cases hlt : qx < qm
    · simp only [hlt, decide_true, if_true]
      have ih' := ih (XF.fin qx) hx hxs'
      rcases List.mem_cons.mp hv with rfl | hv'
      · -- v = m: min ≤ qx < qm
        have hmem := minXF_mem (XF.fin qx) xs
        have h1 := ih' (XF.fin qx) (List.mem_cons_self)
        -- the min is some finite value r with ¬ qx < r
        have hfin : (minXF (XF.fin qx) xs).finPos = true := by
          rcases List.mem_cons.mp hmem with h | h
          · rw [h]; exact hx
          · exact hxs' _ h
        obtain ⟨r, hr, _⟩ := (finPos_iff _).mp hfin
        rw [hr] at h1 ⊢
        simp only [lt_fin_fin, decide_eq_false_iff_not, not_lt] at h1 ⊢
        exact le_trans h1 (le_of_lt hlt)
      · rcases List.mem_cons.mp hv' with rfl | hv''
        · exact ih' _ (List.mem_cons_self)
        · exact ih' _ (List.mem_cons_of_mem _ hv'')
    · simp only [hlt, decide_false, Bool.false_eq_true, if_false]
      have ih' := ih (XF.fin qm) hm hxs'
      rcases List.mem_cons.mp hv with rfl | hv'
      · exact ih' _ (List.mem_cons_self)
      · rcases List.mem_cons.mp hv' with rfl | hv''
        · have hmem := minXF_mem (XF.fin qm) xs
          have h1 := ih' (XF.fin qm) (List.mem_cons_self)
          have hfin : (minXF (XF.fin qm) xs).finPos = true := by
            rcases List.mem_cons.mp hmem with h | h
            · rw [h]; exact hm
            · exact hxs' _ h
          obtain ⟨r, hr, _⟩ := (finPos_iff _).mp hfin
          rw [hr] at h1 ⊢
          simp only [lt_fin_fin, decide_eq_false_iff_not, not_lt] at h1 ⊢
          exact le_trans h1 (not_lt.mp hlt)
        · exact ih' _ (List.mem_cons_of_mem _ hv'')


/-! ### `validate_nn_distances` -/

theorem mem_filter_valid {xs : List XF} {x : XF} :
    x ∈ xs.filter (fun x => !nnBad x) ↔ x ∈ xs ∧ x.finPos = true := by
  rw [List.mem_filter]
  constructor
  · rintro ⟨h1, h2⟩
    refine ⟨h1, ?_⟩
    have : nnBad x = false := by simpa using h2
    exact (nnBad_false_iff x).mp this
  · rintro ⟨h1, h2⟩
    exact ⟨h1, by simp [(nnBad_false_iff x).mpr h2]⟩

theorem all_nnBad_iff (xs : List XF) : xs.all nnBad = true ↔ ∀ x ∈ xs, x.finPos = false := by
  rw [List.all_eq_true]
  constructor
  · intro h x hx
    have := h x hx
    rw [nnBad_eq_not_finPos] at this
    simpa using this
  · intro h x hx
    rw [nnBad_eq_not_finPos, h x hx]; rfl

/-- What an accepted call returns. -/
theorem validateNN_ok {xs ys : List XF} {o : Bool} (h : validateNN (some xs) o = ok (some ys)) :
    ∃ m, m ∈ xs ∧ m.finPos = true ∧ (∀ v ∈ xs, v.finPos = true → v.lt m = false) ∧
      ys = xs.map (fun x => if x.finPos then x else m) := by
  unfold validateNN at h
  simp only at h
  split at h
  · cases h
  · split at h
    · cases h
    · rename_i v vs hf
      have hmemf : ∀ y, y ∈ v :: vs ↔ y ∈ xs ∧ y.finPos = true := by
        intro y; rw [← hf]; exact mem_filter_valid
      have hv : v.finPos = true := ((hmemf v).mp List.mem_cons_self).2
      have hvs : ∀ y ∈ vs, y.finPos = true := fun y hy => ((hmemf y).mp (List.mem_cons_of_mem _ hy)).2
      have hm := minXF_mem v vs
      refine ⟨minXF v vs, ((hmemf _).mp hm).1, ((hmemf _).mp hm).2, ?_, ?_⟩
      · intro w hw hwp
        exact minXF_le v vs hv hvs w ((hmemf w).mpr ⟨hw, hwp⟩)
      · have : ys = xs.map (fun x => if nnBad x = true then minXF v vs else x) := by
          injection h with h; injection h with h; exact h.symm
        rw [this]
        apply List.map_congr_left
        intro x _
        rw [nnBad_eq_not_finPos]
        cases x.finPos <;> simp

theorem validateNN_refused_iff (xs : List XF) (o : Bool) :
    validateNN (some xs) o = valueError ↔ ∀ x ∈ xs, x.finPos = false := by
  unfold validateNN
  simp only
  constructor
  · intro h
    split at h
    · rename_i hall; exact (all_nnBad_iff xs).mp hall
    · rename_i hall
      split at h
      · rename_i hf
        -- filter empty means every entry is bad
        intro x hx
        by_contra hne
        have hp : x.finPos = true := by cases hx' : x.finPos <;> simp_all
        have : x ∈ xs.filter (fun x => !nnBad x) := mem_filter_valid.mpr ⟨hx, hp⟩
        rw [hf] at this; cases this
      · cases h
  · intro h
    rw [if_pos ((all_nnBad_iff xs).mpr h)]

theorem validateNN_some_cases (xs : List XF) (o : Bool) :
    validateNN (some xs) o = valueError ∨ ∃ ys, validateNN (some xs) o = ok (some ys) := by
  unfold validateNN
  simp only
  split
  · exact Or.inl rfl
  · split
    · exact Or.inl rfl
    · exact Or.inr ⟨_, rfl⟩


/-! ### scalar coercions -/

theorem pos_of_not_le0 {x : XF} (h1 : x.le0 = false) (h2 : x.isNan = false) : x.pos = true := by
  cases x with
  | fin q =>
    simp only [XF.le0, decide_eq_false_iff_not, not_le] at h1
    simp [XF.pos, h1]
  | pinf => rfl
  | ninf => simp [XF.le0] at h1
  | nan => simp [XF.isNan] at h2

theorem le0_of_not_pos {x : XF} (h : x.pos = false) (h2 : x.isNan = false) : x.le0 = true := by
  cases x with
  | fin q =>
    simp only [XF.pos, decide_eq_false_iff_not, not_lt] at h
    simp [XF.le0, h]
  | pinf => simp [XF.pos] at h
  | ninf => rfl
  | nan => simp [XF.isNan] at h2

theorem roundNat53_pos {n : Nat} (h : 0 < n) : 0 < roundNat53 n := by
  unfold roundNat53
  simp only
  split
  · exact h
  · rename_i hl
    have hsh : 2 ^ (n.log2 - 52) ≤ n := by
      have h1 : 2 ^ n.log2 ≤ n := Nat.log2_self_le (Nat.pos_iff_ne_zero.mp h)
      exact le_trans (Nat.pow_le_pow_right (by norm_num) (Nat.sub_le _ _)) h1
    have hq : 1 ≤ n / 2 ^ (n.log2 - 52) := (Nat.one_le_div_iff (Nat.pow_pos (by norm_num))).mpr hsh
    have hp : 0 < 2 ^ (n.log2 - 52) := Nat.pow_pos (by norm_num)
    split
    · exact Nat.mul_pos (by omega) hp
    · exact Nat.mul_pos (by omega) hp

theorem roundNat53_zero : roundNat53 0 = 0 := by decide

theorem int64_lt_overflowBound : (2 : Nat) ^ 63 < floatOverflowBound.toNat := by decide +kernel

/-- `float(i)` either overflows or is a finite value of the same sign as `i`. -/
theorem intToFloat_cases (i : Int) :
    intToFloat i = internal ∨
      ∃ q : Rat, intToFloat i = ok (XF.fin q) ∧ (0 < i → 0 < q) ∧ (i ≤ 0 → q ≤ 0) := by
  unfold intToFloat
  split
  · right
    refine ⟨_, rfl, ?_, ?_⟩
    · intro hi
      have h1 : ¬ i < 0 := by omega
      have h2 : 0 < roundNat53 i.natAbs := roundNat53_pos (by omega)
      simp only [h1, if_false]
      exact_mod_cast h2
    · intro hi
      by_cases h1 : i < 0
      · simp only [h1, if_true]
        have h2 : 0 < roundNat53 i.natAbs := roundNat53_pos (by omega)
        have : (0 : Int) ≤ (roundNat53 i.natAbs : Int) := by exact_mod_cast h2.le
        have h3 : -(roundNat53 i.natAbs : Int) ≤ 0 := by omega
        exact_mod_cast h3
      · have : i = 0 := by omega
        subst this
        simp [roundNat53_zero]
  · left; rfl

/-- A scalar that carries no NaN: what `validate_float_or_int` / `validate_float` return. -/
def cleanNumber : PyVal → Prop
  | .bool _ => True
  | .int _ => True
  | .float x => x.isNan = false
  | _ => False

theorem nanCheck_post {v r : PyVal} (hfi : v.isFloatOrInt = true)
    (h : ((isnanScalar v).bind fun b => if b then valueError else ok v) = ok r) : cleanNumber r := by
  cases v with
  | bool b =>
    simp only [isnanScalar, Outcome.bind] at h
    injection h with h; subst h; trivial
  | int i =>
    simp only [isnanScalar] at h
    split at h
    · simp only [Outcome.bind] at h
      injection h with h; subst h; trivial
    · simp [Outcome.bind] at h
  | float x =>
    simp only [isnanScalar, Outcome.bind] at h
    by_cases hx : x.isNan = true
    · simp [hx] at h
    · simp only [hx, if_false] at h
      injection h with h; subst h
      simpa [cleanNumber] using hx
  | _ => simp [PyVal.isFloatOrInt] at hfi

theorem floatCheck_post {v r : PyVal}
    (h : ((floatCatch v).bind fun x => if x.isNan then valueError else ok (.float x)) = ok r) :
    cleanNumber r := by
  obtain ⟨x, _, hx⟩ := bind_eq_ok.mp h
  by_cases hn : x.isNan = true
  · simp [hn] at hx
  · simp only [hn, if_false] at hx
    injection hx with hx; subst hx
    simpa [cleanNumber] using hn

theorem validateString_str (s : String) (n : Option XF) (choices : List String) :
    validateString (.str s n) choices
      = if choices ≠ [] ∧ s ∉ choices then valueError else ok (.str s n) := by
  unfold validateString
  cases choices with
  | nil => simp
  | cons c cs =>
    by_cases hm : s ∈ c :: cs
    · simp [hm]
    · have : (c :: cs).contains s = false := by
        cases hc : (c :: cs).contains s
        · rfl
        · exact absurd (List.contains_iff_mem.mp hc) hm
      simp [this, hm]

theorem intToFloat_int64 {i : Int} (h : i.natAbs ≤ 2 ^ 63) : intToFloat i ≠ internal := by
  unfold intToFloat
  have : i.natAbs < floatOverflowBound.toNat := lt_of_le_of_lt h int64_lt_overflowBound
  simp [this]

/-! ### outcomes, no internal errors -/

/-- every Python int (and NumPy / JAX integer scalar) inside the value lies in the int64 range -/
def inInt64 (i : Int) : Bool := decide (-(2 ^ 63 : Int) ≤ i ∧ i < (2 ^ 63 : Int))

mutual
def PyVal.intsInInt64 : PyVal → Bool
  | .int i => inInt64 i
  | .npint _ i => inInt64 i
  | .list xs => listIntsInInt64 xs
  | _ => true
def listIntsInInt64 : List PyVal → Bool
  | [] => true
  | x :: xs => x.intsInInt64 && listIntsInInt64 xs
end

theorem intToFloat_inInt64 {i : Int} (h : inInt64 i = true) : (intToFloat i).isInternal = false := by
  have hb : i.natAbs ≤ 2 ^ 63 := by
    simp only [inInt64, decide_eq_true_eq] at h; omega
  have := intToFloat_int64 hb
  cases hh : intToFloat i <;> simp_all [Outcome.isInternal]

mutual
theorem toArrCore_noInternal : ∀ v : PyVal, v.intsInInt64 = true → (toArrCore v).isInternal = false
  | .none, _ => rfl
  | .bool _, _ => rfl
  | .int i, h => by
    simp only [PyVal.intsInInt64] at h
    simp only [toArrCore]
    exact bind_isInternal (intToFloat_inInt64 h) (fun _ _ => rfl)
  | .float _, _ => rfl
  | .str _ (some _), _ => rfl
  | .str _ Option.none, _ => rfl
  | .npint _ i, h => by
    simp only [PyVal.intsInInt64] at h
    simp only [toArrCore]
    exact bind_isInternal (intToFloat_inInt64 h) (fun _ _ => rfl)
  | .arr _ _ _, _ => rfl
  | .sparse _ _ _, _ => rfl
  | .list xs, h => by
    simp only [PyVal.intsInInt64] at h
    simp only [toArrCore]
    refine bind_isInternal (toArrList_noInternal xs h) ?_
    intro rs _
    unfold stack
    split
    · rfl
    · split <;> rfl
  | .enum _, _ => rfl
  | .obj, _ => rfl
theorem toArrList_noInternal : ∀ xs : List PyVal, listIntsInInt64 xs = true → (toArrList xs).isInternal = false
  | [], _ => rfl
  | x :: xs, h => by
    simp only [listIntsInInt64, Bool.and_eq_true] at h
    simp only [toArrList]
    refine bind_isInternal (toArrCore_noInternal x h.1) ?_
    intro r _
    refine bind_isInternal (toArrList_noInternal xs h.2) ?_
    intro rs _; rfl
end

theorem toArr_noInternal {v : PyVal} (h : v.intsInInt64 = true) : (toArr v).isInternal = false := by
  unfold toArr
  split
  · rfl
  · exact toArrCore_noInternal v h

theorem isnanScalar_noInternal {v : PyVal} (hfi : v.isFloatOrInt = true) :
    (isnanScalar v).isInternal = false := by
  cases v with
  | bool b => rfl
  | int i =>
    show (if -(2 ^ 63 : Int) ≤ i ∧ i < (2 ^ 63 : Int) then (ok false : Outcome Bool) else valueError).isInternal = false
    split <;> rfl
  | float x => rfl
  | _ => simp [PyVal.isFloatOrInt] at hfi

theorem pyFloat_noInternal {v : PyVal} (h : v.intsInInt64 = true) : (pyFloat v).isInternal = false := by
  cases v with
  | int i => simp only [PyVal.intsInInt64] at h; exact intToFloat_inInt64 h
  | npint f i => simp only [PyVal.intsInInt64] at h; exact intToFloat_inInt64 h
  | str s n => cases n <;> rfl
  | arr lib shape data =>
    cases shape with
    | nil =>
      cases data with
      | nil => rfl
      | cons x xs => cases xs <;> rfl
    | cons a as => rfl
  | none => rfl
  | bool b => rfl
  | float x => rfl
  | sparse r c d => rfl
  | list xs => rfl
  | enum t => rfl
  | obj => rfl

theorem nanCheck_noInternal {v : PyVal} (hfi : v.isFloatOrInt = true) :
    ((isnanScalar v).bind fun b => if b then valueError else ok v).isInternal = false := by
  refine bind_isInternal (isnanScalar_noInternal hfi) ?_
  intro b _; cases b <;> rfl

theorem floatCheck_noInternal (v : PyVal) :
    ((floatCatch v).bind fun x => if x.isNan then valueError else ok (PyVal.float x)).isInternal = false := by
  refine bind_isInternal (floatCatch_noInternal v) ?_
  intro x _; split <;> rfl

theorem ensure2d_len (s : List Nat) : 2 ≤ (ensure2d s).length := by
  match s with
  | [] => simp [ensure2d]
  | [a] => simp [ensure2d]
  | a :: b :: t => simp [ensure2d]

theorem featureCheck_ok {shape s : List Nat} {nf : Nat} (h : featureCheck shape nf = ok s) :
    2 ≤ s.length ∧ s.getD 1 0 = nf := by
  unfold featureCheck at h
  by_cases hne : ((ensure2d shape).getD 1 0 != nf) = true
  · rw [if_pos hne] at h; cases h
  · rw [if_neg hne] at h
    injection h with h; subst h
    exact ⟨ensure2d_len shape, by simpa using hne⟩


theorem validateArray_arr (lib : Lib) (shape : List Nat) (data : List XF) :
    validateArray (.arr lib shape data) false none = ok (.arr .jax shape data) := rfl

end Mellon.Validate
