/-
  MellonProofs.PSDTree — positive semi-definiteness of whole kernel expressions (`Cov ℝ` trees).

  `PSDTree hyp c`: the tree `c` is built from ExpQuad / Linear leaves with positive length scale, leaves that
  satisfy the hypothesis `hyp` (the place of the Matérn / Exponential / RatQuad leaves, whose PSD-ness needs
  Bochner's theorem), sums, products, non-negative scalar operands and natural-number exponents, with any
  `active_dims` on any node.  Then every Gram matrix of `c.k` is positive semi-definite.
-/
import MellonProofs.PSDLemmas

open Mellon Matrix
open scoped BigOperators

namespace Mellon.PSD

/-- Width of `select ad x` as a function of the width of `x`. -/
def selWidth (ad : ActiveDims) (d : Nat) : Nat :=
  match ad with
  | .none => d
  | ad => match ad.indices d with
    | some is => is.length
    | Option.none => 0

theorem select_length (ad : ActiveDims) (x : List ℝ) : (select ad x).length = selWidth ad x.length := by
  cases ad <;> simp only [select, selWidth] <;> (try rfl) <;> split <;> simp_all

theorem select_length_of {ad : ActiveDims} {d : Nat} (x : List ℝ) (h : x.length = d) :
    (select ad x).length = selWidth ad d := by
  rw [select_length, h]

/-- The ExpQuad value on equal-width points in the expanded form of `psdOn_expquad_raw`. -/
theorem expquad_val {ls : ℝ} (x y : List ℝ) (h : x.length = y.length) :
    expquadProfile ls (distance x y)
      = Real.exp (-((dot x x - 2 * dot x y + dot y y + (distEps : ℝ)) / (ls * ls)) / 2) := by
  rw [expquadProfile_eq, distance_eq x y h, dot_expand x y h]
  have hnn : 0 ≤ sqdist x y + (distEps : ℝ) := by
    have := sqdist_nonneg x y; have := distEps_pos; linarith
  rw [Real.sq_sqrt hnn]
  congr 1
  by_cases hls : ls = 0
  · subst hls; simp
  · field_simp

theorem psdOn_congr {d} {k k' : List ℝ → List ℝ → ℝ} (h : PSDOn d k) (hs : ∀ x y, k' x y = k' y x)
    (he : ∀ x y, x.length = d → y.length = d → k' x y = k x y) : PSDOn d k' := by
  refine ⟨hs, fun n xs a hlen => ?_⟩
  refine le_of_le_of_eq (h.2 n xs a hlen) ?_
  apply Finset.sum_congr rfl; intro i _
  apply Finset.sum_congr rfl; intro j _
  rw [he _ _ (hlen i) (hlen j)]

/-- ExpQuad leaf (any `active_dims`, `ls > 0`). -/
theorem psdOn_expquad_leaf {ls : ℝ} (hls : 0 < ls) (ad : ActiveDims) (d : Nat) :
    PSDOn d (Cov.expquad ls ad).k := by
  have base := psdOn_comap (d := d) (psdOn_expquad_raw (d := selWidth ad d) hls) (select ad)
    (fun x hx => select_length_of x hx)
  refine psdOn_congr base (fun x y => cov_k_symm _ x y) fun x y hx hy => ?_
  simp only [Cov.k]
  exact expquad_val _ _ (by rw [select_length_of x hx, select_length_of y hy])

/-- Linear leaf (any `active_dims`, `ls > 0`). -/
theorem psdOn_linear_leaf {ls : ℝ} (hls : 0 < ls) (ad : ActiveDims) (d : Nat) :
    PSDOn d (Cov.linear ls ad).k := by
  have base := psdOn_comap (d := d) (psdOn_dot (d := selWidth ad d) hls) (select ad)
    (fun x hx => select_length_of x hx)
  exact psdOn_congr base (fun x y => cov_k_symm _ x y) fun x y _ _ => by simp only [Cov.k]

/-- Kernel expressions whose PSD-ness follows from that of the leaves admitted by `hyp`. -/
inductive PSDTree (hyp : Cov ℝ → Prop) : Cov ℝ → Prop
  | leaf {c} : hyp c → PSDTree hyp c
  | expquad {ls ad} : 0 < ls → PSDTree hyp (.expquad ls ad)
  | linear {ls ad} : 0 < ls → PSDTree hyp (.linear ls ad)
  | add {l r ad} : PSDTree hyp l → PSDTree hyp r → PSDTree hyp (.add l r ad)
  | addC {l c ad} : PSDTree hyp l → 0 ≤ c → PSDTree hyp (.addC l c ad)
  | mul {l r ad} : PSDTree hyp l → PSDTree hyp r → PSDTree hyp (.mul l r ad)
  | mulC {l c ad} : PSDTree hyp l → 0 ≤ c → PSDTree hyp (.mulC l c ad)
  | pow {l ad} (m : Nat) : PSDTree hyp l → PSDTree hyp (.pow l (m : ℝ) ad)

/-- **Every Gram matrix of a `PSDTree` kernel is positive semi-definite**, given that of the hypothesised
    leaves. -/
theorem psdTree_psdOn {hyp : Cov ℝ → Prop} (hleaf : ∀ c, hyp c → ∀ d, PSDOn d c.k) {c : Cov ℝ}
    (h : PSDTree hyp c) : ∀ d, PSDOn d c.k := by
  induction h with
  | leaf hc => exact hleaf _ hc
  | expquad hls => exact fun d => psdOn_expquad_leaf hls _ d
  | linear hls => exact fun d => psdOn_linear_leaf hls _ d
  | @add l r ad _ _ ihl ihr =>
    intro d
    have base := psdOn_comap (d := d) (psdOn_add (ihl (selWidth ad d)) (ihr (selWidth ad d))) (select ad)
      (fun x hx => select_length_of x hx)
    exact psdOn_congr base (fun x y => cov_k_symm _ x y) fun x y _ _ => by simp only [Cov.k]
  | @addC l c ad _ hc ih =>
    intro d
    have base := psdOn_comap (d := d) (psdOn_addC (ih (selWidth ad d)) hc) (select ad)
      (fun x hx => select_length_of x hx)
    exact psdOn_congr base (fun x y => cov_k_symm _ x y) fun x y _ _ => by simp only [Cov.k]
  | @mul l r ad _ _ ihl ihr =>
    intro d
    have base := psdOn_comap (d := d) (psdOn_mul (ihl (selWidth ad d)) (ihr (selWidth ad d))) (select ad)
      (fun x hx => select_length_of x hx)
    exact psdOn_congr base (fun x y => cov_k_symm _ x y) fun x y _ _ => by simp only [Cov.k]
  | @mulC l c ad _ hc ih =>
    intro d
    have base := psdOn_comap (d := d) (psdOn_mulC (ih (selWidth ad d)) hc) (select ad)
      (fun x hx => select_length_of x hx)
    exact psdOn_congr base (fun x y => cov_k_symm _ x y) fun x y _ _ => by simp only [Cov.k]
  | @pow l ad m _ ih =>
    intro d
    have base := psdOn_comap (d := d) (psdOn_pow (ih (selWidth ad d)) m) (select ad)
      (fun x hx => select_length_of x hx)
    exact psdOn_congr base (fun x y => cov_k_symm _ x y) fun x y _ _ => by
      simp only [Cov.k, rpow_real, Real.rpow_natCast]

/-- No hypothesis at all for trees over ExpQuad and Linear leaves. -/
theorem psdTree_psdOn_closed {c : Cov ℝ} (h : PSDTree (fun _ => False) c) (d : Nat) : PSDOn d c.k :=
  psdTree_psdOn (fun _ hc => hc.elim) h d

end Mellon.PSD
