/-
  MellonProofs.LinalgProofs — correctness of the model's Cholesky factorisation and triangular
  solves over ℝ (helper lemmas; property theorems live in the Cxx files).
-/
import MellonProofs.Real

open Finset

namespace Mellon

/-! ### forward substitution -/

theorem solveLower_nth {n : Nat} (L : Mat ℝ n n) (b : Vector ℝ n) {i : Nat} (hi : i < n) :
    (solveLower L b).nth i
      = (b.nth i - ∑ k ∈ range i, L.el i k * (solveLower L b).nth k) / L.el i i := by
  unfold solveLower
  rw [build_nth]
  simp only [hi, if_true]
  congr 2
  rw [nsum_eq_sum]
  apply Finset.sum_congr rfl
  intro k hk
  have hk' : k < i := Finset.mem_range.mp hk
  congr 1
  exact buildD_prefix 0 _ (Nat.le_of_lt hi) hk'

/-- `L x = b` row by row, for the rows whose diagonal entry is non-zero. -/
theorem solveLower_spec {n : Nat} (L : Mat ℝ n n) (b : Vector ℝ n) {i : Nat} (hi : i < n)
    (hd : L.el i i ≠ 0) :
    ∑ k ∈ range (i + 1), L.el i k * (solveLower L b).nth k = b.nth i := by
  rw [Finset.sum_range_succ, solveLower_nth L b hi]
  field_simp
  ring

/-! ### back substitution on the transpose -/

theorem solveUpperT_nth {n : Nat} (L : Mat ℝ n n) (b : Vector ℝ n) {i : Nat} (hi : i < n) :
    (solveUpperT L b).nth i
      = (b.nth i - ∑ k ∈ Ico (i + 1) n, L.el k i * (solveUpperT L b).nth k) / L.el i i := by
  -- name the auxiliary reversed vector
  set f : Nat → (Nat → ℝ) → ℝ := fun j y =>
      (b.nth (n - 1 - j) - nsum j fun t => L.el (n - 1 - t) (n - 1 - j) * y t) / L.el (n - 1 - j) (n - 1 - j)
    with hf
  have hx : ∀ k, k < n → (solveUpperT L b).nth k = (build f n).nth (n - 1 - k) := by
    intro k hk
    unfold solveUpperT
    simp [hk, hf]
  rw [hx i hi, build_nth]
  have h1 : n - 1 - i < n := by omega
  simp only [h1, if_true, hf]
  have h2 : n - 1 - (n - 1 - i) = i := by omega
  rw [h2]
  congr 2
  rw [nsum_eq_sum]
  -- reindex t ↦ n - 1 - t
  rw [Finset.sum_bij (fun (t : Nat) _ => n - 1 - t)
        (t := Ico (i + 1) n)
        (g := fun k => L.el k i * (solveUpperT L b).nth k)]
  · intro t ht
    simp only [Finset.mem_range] at ht
    simp only [Finset.mem_Ico]; omega
  · intro t1 ht1 t2 ht2 h
    simp only [Finset.mem_range] at ht1 ht2
    omega
  · intro k hk
    simp only [Finset.mem_Ico] at hk
    refine ⟨n - 1 - k, ?_, ?_⟩
    · simp only [Finset.mem_range]; omega
    · omega
  · intro t ht
    simp only [Finset.mem_range] at ht
    have ht' : n - 1 - t < n := by omega
    rw [hx (n - 1 - t) ht']
    have h3 : n - 1 - (n - 1 - t) = t := by omega
    rw [h3]
    congr 1
    have : t < n - 1 - i := ht
    exact buildD_prefix 0 f (Nat.le_of_lt h1) this

/-- `Lᵀ x = b` row by row. -/
theorem solveUpperT_spec {n : Nat} (L : Mat ℝ n n) (b : Vector ℝ n) {i : Nat} (hi : i < n)
    (hd : L.el i i ≠ 0) :
    ∑ k ∈ Ico i n, L.el k i * (solveUpperT L b).nth k = b.nth i := by
  rw [Finset.sum_eq_sum_Ico_succ_bot hi, solveUpperT_nth L b hi]
  field_simp
  ring

/-! ### Cholesky -/

theorem chol_el {n : Nat} (A : Mat ℝ n n) {i : Nat} (hi : i < n) (j : Nat) :
    (chol A).el i j =
      if j < i then (A.el i j - ∑ k ∈ range j, (chol A).el i k * (chol A).el j k) / (chol A).el j j
      else if j = i then Real.sqrt (A.el i i - ∑ k ∈ range i, (chol A).el i k * (chol A).el i k)
      else 0 := by
  -- the i-th row
  set d : Vector ℝ n := vecOfFn fun _ => (0:ℝ) with hd
  set F : Nat → (Nat → Vector ℝ n) → Vector ℝ n :=
    fun i prev => cholRow A i (fun j k => (prev j).nth k) with hF
  have hrow : ∀ i', i' < n → ∀ j', (chol A).el i' j'
      = (cholRow A i' (fun j k => ((buildD d F i').nthD j d).nth k)).nth j' := by
    intro i' hi' j'
    have := buildD_nthD d F n i'
    simp only [hi', if_true] at this
    unfold Mat.el
    simp only [hi', dite_true]
    have h2 : (chol A)[i'] = (buildD d F n).nthD i' d := by
      rw [nthD_of_lt _ hi']; rfl
    rw [h2, this]
  -- previous rows agree with the final matrix
  have hprev : ∀ j', j' < i → ∀ k, ((buildD d F i).nthD j' d).nth k = (chol A).el j' k := by
    intro j' hj' k
    have hj'n : j' < n := Nat.lt_trans hj' hi
    rw [buildD_prefix d F (Nat.le_of_lt hi) hj']
    unfold Mat.el
    simp only [hj'n, dite_true]
    rw [nthD_of_lt _ hj'n]; rfl
  rw [hrow i hi j]
  unfold cholRow
  rw [build_nth]
  by_cases hjn : j < n
  · simp only [hjn, if_true]
    -- prefix of the row agrees with the final row
    have hpre : ∀ k, k < j → (build (fun j r =>
          if j < i then (A.el i j - nsum j fun k => r k * ((buildD d F i).nthD j d).nth k)
              / ((buildD d F i).nthD j d).nth j
          else if j = i then sqrt (A.el i i - nsum i fun k => r k * r k) else 0) j).nth k
        = (chol A).el i k := by
      intro k hk
      rw [hrow i hi k]
      unfold cholRow
      exact buildD_prefix 0 _ (Nat.le_of_lt hjn) hk
    by_cases hji : j < i
    · simp only [hji, if_true]
      rw [hprev j hji j]
      congr 2
      rw [nsum_eq_sum]
      apply Finset.sum_congr rfl
      intro k hk
      have hk' : k < j := Finset.mem_range.mp hk
      rw [hpre k hk', hprev j hji k]
    · by_cases hje : j = i
      · subst hje
        simp only [lt_irrefl, if_false, if_true]
        rw [sqrt_real]
        congr 2
        rw [nsum_eq_sum]
        apply Finset.sum_congr rfl
        intro k hk
        have hk' : k < j := Finset.mem_range.mp hk
        rw [hpre k hk']
      · simp [hji, hje]
  · have : ¬ j < i := by omega
    have h2 : j ≠ i := by omega
    simp [hjn, this, h2]

theorem chol_upper_zero {n : Nat} (A : Mat ℝ n n) {i j : Nat} (hij : i < j) : (chol A).el i j = 0 := by
  by_cases hi : i < n
  · rw [chol_el A hi]
    have h1 : ¬ j < i := by omega
    have h2 : j ≠ i := by omega
    simp [h1, h2]
  · exact el_of_ge_row _ (Nat.le_of_not_lt hi) _

theorem allBelow_iff (n : Nat) (p : Nat → Bool) : allBelow n p = true ↔ ∀ i, i < n → p i = true := by
  induction n with
  | zero => simp [allBelow]
  | succ n ih =>
    simp only [allBelow, Bool.and_eq_true, ih]
    constructor
    · rintro ⟨h1, h2⟩ i hi
      rcases Nat.lt_succ_iff_lt_or_eq.mp hi with h | h
      · exact h1 i h
      · subst h; exact h2
    · intro h
      exact ⟨fun i hi => h i (Nat.lt_succ_of_lt hi), h n (Nat.lt_succ_self n)⟩

/-- Everything `chol?` promises when it succeeds. -/
structure IsCholOf {n : Nat} (L A : Mat ℝ n n) : Prop where
  diag_pos : ∀ i, i < n → 0 < L.el i i
  upper_zero : ∀ i j, i < j → L.el i j = 0
  /-- `(L Lᵀ)ᵢⱼ = Aᵢⱼ` on and below the diagonal -/
  prod_lower : ∀ i j, j ≤ i → i < n → ∑ k ∈ range (j + 1), L.el i k * L.el j k = A.el i j

theorem chol?_spec {n : Nat} {A L : Mat ℝ n n} (h : chol? A = some L) : IsCholOf L A := by
  unfold chol? at h
  simp only at h
  split at h
  · rename_i hall
    have hL : chol A = L := by simpa using h
    subst hL
    rw [allBelow_iff] at hall
    have hpiv : ∀ i, i < n → 0 < A.el i i - ∑ k ∈ range i, (chol A).el i k * (chol A).el i k := by
      intro i hi
      have := hall i hi
      simp only [decide_eq_true_eq, cholPivot, nsum_eq_sum] at this
      exact this
    have hdiag : ∀ i, i < n → (chol A).el i i
        = Real.sqrt (A.el i i - ∑ k ∈ range i, (chol A).el i k * (chol A).el i k) := by
      intro i hi
      rw [chol_el A hi i]; simp
    refine ⟨?_, fun i j hij => chol_upper_zero A hij, ?_⟩
    · intro i hi
      rw [hdiag i hi]; exact Real.sqrt_pos.mpr (hpiv i hi)
    · intro i j hji hi
      rw [Finset.sum_range_succ]
      rcases Nat.lt_or_eq_of_le hji with hlt | heq
      · have hjn : j < n := Nat.lt_trans hlt hi
        have hjj : (chol A).el j j ≠ 0 := by
          rw [hdiag j hjn]; exact ne_of_gt (Real.sqrt_pos.mpr (hpiv j hjn))
        conv_lhs => rw [chol_el A hi j]
        simp only [hlt, if_true]
        field_simp
        ring
      · subst heq
        rw [hdiag j hi, Real.mul_self_sqrt (le_of_lt (hpiv j hi))]
        ring
  · simp at h

end Mellon
