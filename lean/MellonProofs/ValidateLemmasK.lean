/-
  MellonProofs.ValidateLemmasK — helper lemmas for the C20 theorems about the validators repaired after
  hunt H3: `validate_float` refusing ±inf (`infCheck` after `validateFloatNan`), `validate_float_or_iterable_numerical`
  refusing NaN / inf, `k >= 1`.
-/
import MellonProofs.ValidateLemmas

namespace Mellon.Validate
open Outcome

/-- A scalar that carries neither NaN nor ±inf: what `validate_float` returns when a finite float is required. -/
def finiteNumber : PyVal → Prop
  | .bool _ => True
  | .int _ => True
  | .float x => x.isNan = false ∧ x.isInf = false
  | _ => False

theorem finiteNumber_clean {r : PyVal} (h : finiteNumber r) : cleanNumber r := by
  cases r <;> simp_all [finiteNumber, cleanNumber]

/-- a float that is neither NaN nor infinite is a finite rational -/
theorem fin_of_not_nan_inf {x : XF} (h1 : x.isNan = false) (h2 : x.isInf = false) : ∃ q, x = .fin q := by
  cases x <;> simp_all [XF.isNan, XF.isInf]

theorem infCheck_ok {ai : Bool} {v r : PyVal} (h : infCheck ai v = ok r) :
    r = v ∧ (ai = false → ∀ x, v = .float x → x.isInf = false) := by
  cases v with
  | float x =>
    simp only [infCheck] at h
    by_cases hx : (x.isInf && !ai) = true
    · simp [hx] at h
    · rw [if_neg hx] at h
      injection h with h
      refine ⟨h.symm, ?_⟩
      intro hai y hy
      injection hy with hy; subst hy; subst hai
      simpa using hx
  | _ =>
    simp only [infCheck] at h
    injection h with h
    exact ⟨h.symm, fun _ x hx => by cases hx⟩

theorem infCheck_noInternal (ai : Bool) (v : PyVal) : (infCheck ai v).isInternal = false := by
  cases v with
  | float x => simp only [infCheck]; split <;> rfl
  | _ => rfl

theorem infCheck_allow (v : PyVal) : infCheck true v = ok v := by
  cases v <;> simp [infCheck]

/-- `validate_float` up to its NaN test (the former `validate_float_post`). -/
theorem validateFloatNan_post {v r : PyVal} {o : Bool} (h : validateFloatNan v o = ok r) :
    (r = .none ∧ v = .none ∧ o = true) ∨ cleanNumber r := by
  unfold validateFloatNan at h
  split at h
  · left; cases o <;> simp_all
  · right
    simp only at h
    split at h
    · rename_i hfi; exact nanCheck_post hfi h
    · exact floatCheck_post h

theorem validateFloatNan_noInternal (v : PyVal) (o : Bool) : (validateFloatNan v o).isInternal = false := by
  unfold validateFloatNan
  split
  · split <;> rfl
  · simp only
    split
    · rename_i hfi; exact nanCheck_noInternal hfi
    · exact floatCheck_noInternal _

theorem validateFloatNan_float (x : XF) (o : Bool) :
    validateFloatNan (.float x) o = if x.isNan then valueError else ok (.float x) := by
  simp only [validateFloatNan, squeezeJax1, PyVal.isFloatOrInt, isnanScalar, Outcome.bind, if_true]

end Mellon.Validate
