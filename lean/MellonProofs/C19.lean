/-
  C19 — Covariance-function and value serialisation is a faithful inverse pair.
  Property theorems only (helpers are in SerialLemmas.lean).  All statements are about the exact
  model `MellonModel/Serial.lean` (Python values with floats as IEEE-754 bit patterns), for every
  value / kernel expression / JSON codec satisfying the text contract `JsonCodec`.

  Normal form.  `v.norm = v.normF canonNaN`: NumPy scalars become Python scalars of equal value, a
  tuple becomes the list of its elements (JSON has no tuple) and every NaN becomes the quiet NaN
  `0x7ff8000000000000` (JSON text has only the token `NaN`); everything else — dtype, shape, element
  bits, −0.0, ±inf, subnormals, strings, nesting — is kept.

  The model mirrors `mellon/util.py` with the repairs of the three defects found earlier
  (`numpy.bool_` → `bool`; lists / tuples / slice members serialised element-wise), so the value
  theorem is now stated at full strength: `WF` excludes only what the property itself excludes — the
  reserved string `"None"`, objects of foreign types — and tuple-vs-list identity is absorbed by the
  normal form.
-/
import MellonProofs.SerialLemmas
import MellonProofs.CovRefuseLemmas

namespace Mellon.C19
open Mellon

/-! ### values -/

/-- `deserialize(json.loads(json.dumps(make_serializable(v))))` returns the normal form of `v`,
    for every well-formed value and every JSON codec that meets the text contract. -/
theorem value_roundtrip {Text : Type} (C : JsonCodec Text) (v : PyVal) (h : v.WF canonNaN = true) :
    roundTripJsonWith C v = .ok v.norm := by
  unfold roundTripJsonWith
  rw [jsonPass_jsonLike C _ (jsonLike_ms canonNaN v h)]
  exact deser_ms canonNaN v h

/-- The `to_dict` / `copy` path (no text in between) keeps float bits untouched. -/
theorem value_roundtrip_dict (v : PyVal) (h : v.WF id = true) :
    roundTripDict v = .ok (v.normF id) := by
  have := deser_ms id v h
  rw [normF_id_jsonLike _ (jsonLike_ms id v h)] at this
  exact this

/-- The executable codec of the driver is an instance. -/
theorem value_roundtrip_driver (v : PyVal) (h : v.WF canonNaN = true) : roundTripJson v = .ok v.norm :=
  value_roundtrip idCodec v h

/-- `≈` of the property: equal normal forms (a NumPy scalar ≈ the Python scalar of equal value;
    arrays compare by dtype, shape and bits; NaNs as NaN). What comes back is `≈` the original. -/
theorem value_roundtrip_equiv {Text : Type} (C : JsonCodec Text) (v : PyVal) (h : v.WF canonNaN = true) :
    ∃ w, roundTripJsonWith C v = .ok w ∧ w.norm = v.norm :=
  ⟨v.norm, value_roundtrip C v h, norm_idem v⟩

/-- Every non-NaN double keeps its bits (−0.0, ±inf, subnormals included) … -/
theorem float_bits_preserved {Text : Type} (C : JsonCodec Text) (b : UInt64) (h : isNaNBits b = false) :
    roundTripJsonWith C (.float b) = .ok (.float b) := by
  rw [value_roundtrip C _ rfl]
  simp [PyVal.norm, PyVal.normF, canonNaN, h]

/-- … and a NaN comes back as a NaN. -/
theorem nan_stays_nan {Text : Type} (C : JsonCodec Text) (b : UInt64) (h : isNaNBits b = true) :
    ∃ b', roundTripJsonWith C (.float b) = .ok (.float b') ∧ isNaNBits b' = true := by
  refine ⟨0x7ff8000000000000, ?_, by decide⟩
  rw [value_roundtrip C _ rfl]
  simp [PyVal.norm, PyVal.normF, canonNaN, h]

/-- Arrays of any rank (empty ones included) keep dtype, shape and — NaN payloads apart — bits. -/
theorem array_roundtrip {Text : Type} (C : JsonCodec Text) (dt : Dtype) (sh : List Nat) (d : List Scalar)
    (hlen : d.length = prodL sh) (hdt : ∀ s ∈ d, s.dtype = dt) :
    roundTripJsonWith C (.arr dt sh d) = .ok (.arr dt sh (d.map (Scalar.mapF canonNaN))) := by
  rw [value_roundtrip C]
  · rfl
  · simp only [PyVal.WF, Bool.and_eq_true, beq_iff_eq, List.all_eq_true]
    exact ⟨hlen, hdt⟩

/-- int64 / bool arrays and NaN-free float arrays come back bit-identical. -/
theorem array_roundtrip_exact {Text : Type} (C : JsonCodec Text) (dt : Dtype) (sh : List Nat) (d : List Scalar)
    (hlen : d.length = prodL sh) (hdt : ∀ s ∈ d, s.dtype = dt)
    (hnan : ∀ b, Scalar.f b ∈ d → isNaNBits b = false) :
    roundTripJsonWith C (.arr dt sh d) = .ok (.arr dt sh d) := by
  rw [array_roundtrip C dt sh d hlen hdt]
  congr 2
  conv => rhs; rw [← List.map_id d]
  apply List.map_congr_left
  intro s hs
  cases s with
  | f b => simp [Scalar.mapF, canonNaN, hnan b hs]
  | i n => rfl
  | b v => rfl

/-- NumPy scalars come back as Python scalars of equal value. -/
theorem numpy_scalar_becomes_python {Text : Type} (C : JsonCodec Text) (i : Int) (b : UInt64) :
    roundTripJsonWith C (.npInt i) = .ok (.int i)
    ∧ roundTripJsonWith C (.npFloat b) = .ok (.float (canonNaN b)) :=
  ⟨value_roundtrip C _ rfl, value_roundtrip C _ rfl⟩

/-- The string `"None"` is the only string that does not survive: it reads back as `None`. -/
theorem reserved_token {Text : Type} (C : JsonCodec Text) :
    roundTripJsonWith C (.str "None") = .ok .none
    ∧ ∀ s : String, s ≠ "None" → roundTripJsonWith C (.str s) = .ok (.str s) := by
  constructor
  · unfold roundTripJsonWith
    rw [show makeSerializable (.str "None") = .str "None" from rfl, jsonPass_jsonLike C _ rfl]
    rfl
  · intro s hs
    exact value_roundtrip C (.str s) (by simpa [PyVal.WF] using hs)

/-- `None` itself is written as that token and comes back. -/
theorem none_roundtrip {Text : Type} (C : JsonCodec Text) : roundTripJsonWith C .none = .ok .none :=
  value_roundtrip C _ rfl

/-- A tuple is a container JSON cannot keep: it comes back as the list of its (normalised) elements. -/
theorem tuple_becomes_list {Text : Type} (C : JsonCodec Text) (xs : List PyVal) (h : PyVal.WFL canonNaN xs = true) :
    roundTripJsonWith C (.tuple xs) = .ok (.list (PyVal.normFL canonNaN xs)) :=
  value_roundtrip C (.tuple xs) (by simpa [PyVal.WF] using h)

/-- Regression of repaired defect F1: a `numpy.bool_` scalar comes back as the Python bool. -/
theorem numpy_bool_roundtrip {Text : Type} (C : JsonCodec Text) (b : Bool) :
    roundTripJsonWith C (.npBool b) = .ok (.bool b) := value_roundtrip C _ rfl

/-- Regression of repaired defect F2: NumPy scalars inside lists (`active_dims = list(np.arange(2))`)
    and slices are converted; in general a list round-trips element-wise. -/
theorem list_roundtrip {Text : Type} (C : JsonCodec Text) (xs : List PyVal) (h : PyVal.WFL canonNaN xs = true) :
    roundTripJsonWith C (.list xs) = .ok (.list (PyVal.normFL canonNaN xs)) :=
  value_roundtrip C (.list xs) (by simpa [PyVal.WF] using h)

theorem list_of_numpy_roundtrip :
    roundTripJson (.list [.npInt 0, .npInt 1]) = .ok (.list [.int 0, .int 1])
    ∧ roundTripJson (.slice (.npInt 0) (.npInt 2) .none) = .ok (.slice (.int 0) (.int 2) .none) := ⟨rfl, rfl⟩

/-- The reserved token is reserved everywhere: inside a list it reads back as `None` too. -/
theorem reserved_token_in_list : roundTripJson (.list [.str "None"]) = .ok (.list [.none]) := rfl

/-! ### kernel expressions -/

/-- `Covariance.from_json(c.to_json())` is `c` again (parameters in normal form), for every expression
    tree, every active-dims form, scalar operands on the right, every parameter value. -/
theorem cov_roundtrip {Text : Type} (C : JsonCodec Text) (m : Meta) (c : Cov PyVal)
    (h : c.paramsWF canonNaN = true) :
    covRoundTripJsonWith C m c = .ok (c.mapP PyVal.norm) := by
  unfold covRoundTripJsonWith
  rw [jsonPass_jsonLike C _ (jsonLike_covToDict canonNaN m c h)]
  exact covFromDict_covToDict canonNaN m c h

/-- `Covariance.from_dict(c.to_dict())`. -/
theorem cov_roundtrip_dict (m : Meta) (c : Cov PyVal) (h : c.paramsWF id = true) :
    covRoundTripDict m c = .ok (c.mapP (PyVal.normF id)) := by
  have := covFromDict_covToDict id m c h
  rw [normF_id_jsonLike _ (jsonLike_covToDict id m c h)] at this
  exact this

/-- With parameters given as Python floats (bit patterns): structural identity, NaN payloads apart. -/
theorem cov_roundtrip_bits {Text : Type} (C : JsonCodec Text) (m : Meta) (c : Cov UInt64) :
    covRoundTripJsonWith C m (covOfBits c) = .ok (covOfBits (c.mapP canonNaN)) := by
  rw [cov_roundtrip C m _ (paramsWF_covOfBits canonNaN c)]
  simp [covOfBits, mapP_mapP, PyVal.norm, PyVal.normF, Function.comp_def]

/-- … and exact identity `from_json (to_json c) = c` when no parameter is a NaN. -/
theorem cov_roundtrip_exact {Text : Type} (C : JsonCodec Text) (m : Meta) (c : Cov UInt64)
    (h : c.mapP canonNaN = c) :
    covRoundTripJsonWith C m (covOfBits c) = .ok (covOfBits c) := by
  rw [cov_roundtrip_bits, h]

/-- Hence the reloaded kernel evaluates and differentiates identically, for any reading `dec` of
    parameter objects as scalars that does not distinguish a NumPy scalar from the Python scalar of
    equal value. -/
theorem eval_after_roundtrip {α : Type} [Add α] [Sub α] [Mul α] [Div α] [Neg α] [OfNat α 0] [OfNat α 1]
    [OfScientific α] [Max α] [LT α] [DecidableLT α] [Transc α]
    {Text : Type} (C : JsonCodec Text) (m : Meta) (c : Cov PyVal) (h : c.paramsWF canonNaN = true)
    (dec : PyVal → α) (hdec : ∀ p, dec p.norm = dec p) :
    ∃ c', covRoundTripJsonWith C m c = .ok c'
      ∧ ∀ x y : List α, (c'.mapP dec).k x y = (c.mapP dec).k x y
          ∧ (c'.mapP dec).kGrad x y = (c.mapP dec).kGrad x y := by
  refine ⟨c.mapP PyVal.norm, cov_roundtrip C m c h, fun x y => ?_⟩
  have e : (c.mapP PyVal.norm).mapP dec = c.mapP dec := by
    rw [mapP_mapP]
    congr 1
    funext p
    exact hdec p
  rw [e]
  exact ⟨rfl, rfl⟩

/-- Anything that is not a serialised kernel (not a dict, no `type`, another `type`) is refused with
    `ValueError`. -/
theorem not_a_kernel_refused (v : PyVal) (h : isKernelState v = false) :
    covFromDict v = .error (.valueError "not-a-kernel") := by
  cases v <;> first | rfl | (simp [covFromDict, h])

/-- … also when it sits where the left operand of a sum / product / power should be. -/
theorem not_a_kernel_nested (kvs : List (String × PyVal)) (k : PairKind) (v : PyVal)
    (h1 : isKernelState (.dict kvs) = true) (h2 : stateClass kvs = .ok (.pair k))
    (h3 : alookup "left_data" kvs = some v) (h4 : isKernelState v = false) :
    covFromDict (.dict kvs) = .error (.valueError "not-a-kernel") := by
  simp [covFromDict, h1, h2, covFromKey_eq, h3, not_a_kernel_refused v h4]

/-- Class lookup is by name: `Add`, `Mul`, `Pow` resolve in `base_cov` whatever module the state
    names; the six kernels resolve in `mellon.cov`; an unknown name there is refused with `ValueError`
    (it was an `AttributeError` before the repair), and so is the abstract base class `Covariance`
    (it was a `TypeError`: "Can't instantiate abstract class"). -/
theorem class_lookup_by_name (mo : String) :
    covClass "Add" mo = .ok (.pair .add) ∧ covClass "Mul" mo = .ok (.pair .mul)
    ∧ covClass "Pow" mo = .ok (.pair .pow)
    ∧ covClass "Matern52" "mellon.cov" = .ok (.leaf .matern52)
    ∧ covClass "NoSuchKernel" "mellon.cov" = .error (.valueError "class-lookup")
    ∧ covClass "Covariance" mo = .error (.valueError "not-a-kernel-class") := by
  refine ⟨covClass_add mo, covClass_mul mo, covClass_pow mo, covClass_matern52, ?_, ?_⟩
  · simp [covClass, baseCovNonKernelGlobals]
  · simp [covClass, baseCovNonKernelGlobals]

/-! ### malformed kernel states (repair of finding A7)

  A dict that carries the marker `"type": "mellon.Covariance"` but is otherwise not what `to_dict`
  writes.  Before the repair these ended in `KeyError` / `AttributeError` / `TypeError`. -/

/-- TOTALITY OF THE REFUSAL.  Whatever the input — any Python value of the model, at any nesting depth —
    `Covariance.from_dict` ends in a kernel, in `ValueError`, or in the model's own `unmodelled` mark
    (input outside the modelled fragment: a class of another module, a kernel with another attribute
    set, an `active_dims` object of a foreign type, …; not an outcome of the code). -/
theorem malformed_kernel_refused (v : PyVal) :
    (∃ c, covFromDict v = .ok c) ∨ (∃ k, covFromDict v = .error (.valueError k))
      ∨ (∃ w, covFromDict v = .error (.unmodelled w)) := by
  have h := refusing_covFromDict v
  rcases hv : covFromDict v with e | c
  · rw [hv] at h
    cases e with
    | valueError k => exact .inr (.inl ⟨k, rfl⟩)
    | unmodelled w => exact .inr (.inr ⟨w, rfl⟩)
    | typeError k => simp [refusing, PyErr.refusal] at h
    | internal k => simp [refusing, PyErr.refusal] at h
  · exact .inl ⟨c, rfl⟩

/-- … in particular never an internal error (`KeyError`, `AttributeError`) and never a `TypeError`. -/
theorem never_internal_error (v : PyVal) (s : String) :
    covFromDict v ≠ .error (.internal s) ∧ covFromDict v ≠ .error (.typeError s) := by
  have h := refusing_covFromDict v
  constructor <;> intro hv <;> rw [hv] at h <;> simp [refusing, PyErr.refusal] at h

/-- A state without `metadata`, or whose `metadata` is not a dict. -/
theorem metadata_required (kvs : List (String × PyVal)) (h1 : isKernelState (.dict kvs) = true) :
    (alookup "metadata" kvs = none → covFromDict (.dict kvs) = .error (.valueError "missing-field"))
    ∧ (∀ v, alookup "metadata" kvs = some v → (∀ md, v ≠ .dict md) →
        covFromDict (.dict kvs) = .error (.valueError "field-type")) := by
  constructor
  · intro h; simp [covFromDict, h1, stateClass, h]
  · intro v h hv
    cases v with
    | dict md => exact absurd rfl (hv md)
    | _ => simp [covFromDict, h1, stateClass, h]

/-- `metadata` without `classname`, or without `module_name`. -/
theorem class_fields_required (kvs md : List (String × PyVal)) (h1 : isKernelState (.dict kvs) = true)
    (hm : alookup "metadata" kvs = some (.dict md)) :
    (alookup "classname" md = none → covFromDict (.dict kvs) = .error (.valueError "missing-field"))
    ∧ (∀ c, alookup "classname" md = some (.str c) → alookup "module_name" md = none →
        covFromDict (.dict kvs) = .error (.valueError "missing-field")) := by
  constructor
  · intro h; simp [covFromDict, h1, stateClass, hm, strField, h]
  · intro c hc h; simp [covFromDict, h1, stateClass, hm, strField, hc, h]

/-- `classname` / `module_name` that are not strings. -/
theorem class_fields_typed (kvs md : List (String × PyVal)) (v : PyVal) (h1 : isKernelState (.dict kvs) = true)
    (hm : alookup "metadata" kvs = some (.dict md)) (hv : ∀ s, v ≠ .str s) :
    (alookup "classname" md = some v → covFromDict (.dict kvs) = .error (.valueError "field-type"))
    ∧ (∀ c, alookup "classname" md = some (.str c) → alookup "module_name" md = some v →
        covFromDict (.dict kvs) = .error (.valueError "field-type")) := by
  constructor
  · intro h
    cases v with
    | str s => exact absurd rfl (hv s)
    | _ => simp [covFromDict, h1, stateClass, hm, strField, h]
  · intro c hc h
    cases v with
    | str s => exact absurd rfl (hv s)
    | _ => simp [covFromDict, h1, stateClass, hm, strField, hc, h]

/-- A name that is none of the nine classes `to_dict` writes (nor `CovariancePair`) does not resolve
    to a kernel class in `mellon.cov`: refused. -/
theorem unknown_class_refused (cls : String)
    (h : cls ∉ ["Add", "Mul", "Pow", "CovariancePair", "Matern32", "Matern52", "ExpQuad", "Exponential",
                "RatQuad", "Linear"]) :
    ∃ k, covClass cls "mellon.cov" = .error (.valueError k) := by
  simp only [List.mem_cons, List.not_mem_nil, or_false, not_or] at h
  obtain ⟨h1, h2, h3, h4, h5, h6, h7, h8, h9, h10⟩ := h
  unfold covClass
  simp only [h1, h2, h3, h4, h5, h6, h7, h8, h9, h10, if_false, if_true]
  split
  · exact ⟨_, rfl⟩
  · exact ⟨_, rfl⟩

/-- A kernel of a leaf class without `data`, or whose `data` is not a dict. -/
theorem data_required (kvs : List (String × PyVal)) (k : LeafKind) (h1 : isKernelState (.dict kvs) = true)
    (h2 : stateClass kvs = .ok (.leaf k)) :
    (alookup "data" kvs = none → covFromDict (.dict kvs) = .error (.valueError "missing-field"))
    ∧ (∀ v, alookup "data" kvs = some v → (∀ d, v ≠ .dict d) →
        covFromDict (.dict kvs) = .error (.valueError "field-type")) := by
  constructor
  · intro h; simp [covFromDict, h1, h2, leafFromState, h]
  · intro v h hv
    cases v with
    | dict d => exact absurd rfl (hv d)
    | _ => simp [covFromDict, h1, h2, leafFromState, h]

/-- A sum / product / power without its left operand … -/
theorem left_operand_required (kvs : List (String × PyVal)) (k : PairKind) (h1 : isKernelState (.dict kvs) = true)
    (h2 : stateClass kvs = .ok (.pair k)) (h3 : alookup "left_data" kvs = none) :
    covFromDict (.dict kvs) = .error (.valueError "missing-field") := by
  simp [covFromDict, h1, h2, covFromKey_eq, h3]

/-- … or without its right operand (the left one being a kernel). -/
theorem right_operand_required (kvs : List (String × PyVal)) (k : PairKind) (l : PyVal) (cl : Cov PyVal)
    (h1 : isKernelState (.dict kvs) = true) (h2 : stateClass kvs = .ok (.pair k))
    (h3 : alookup "left_data" kvs = some l) (h4 : covFromDict l = .ok cl) (h5 : alookup "right_data" kvs = none) :
    covFromDict (.dict kvs) = .error (.valueError "missing-field") := by
  simp [covFromDict, h1, h2, covFromKey_eq, h3, h4, covRightFromKey_none kvs h5]

/-- A parameter record, scalar operand or `active_dims` record that `deserialize` cannot read (a dict
    without `"type"` or `"data"`: `KeyError`; a bad shape: `TypeError`; …) is a `ValueError` of the kernel. -/
theorem malformed_value_refused {α : Type} (r : PyM α) (e : PyErr) (h : r = .error e)
    (hu : ∀ w, e ≠ .unmodelled w) : refuseMalformed r = .error (.valueError "malformed-value") := by
  subst h
  cases e with
  | unmodelled w => exact absurd rfl (hu w)
  | _ => rfl

/-- Witnesses of finding A7 (the reproducer's cases), on the model: marker only; a record without
    `"type"` as the scalar operand of a product. -/
theorem malformed_witnesses :
    covFromDict (.dict [("type", .str "mellon.Covariance")]) = .error (.valueError "missing-field")
    ∧ covFromDict (.dict [("type", .str "mellon.Covariance"),
        ("metadata", .dict [("classname", .str "ExpQuad"), ("module_name", .str "mellon.cov")])])
        = .error (.valueError "missing-field")
    ∧ covFromDict (.dict [("type", .str "mellon.Covariance"), ("data", .dict []),
        ("metadata", .dict [("classname", .str "Covariance"), ("module_name", .str "mellon.base_cov")])])
        = .error (.valueError "not-a-kernel-class")
    ∧ covFromDict (.dict [("type", .str "mellon.Covariance"), ("data", .dict [("ls", .dict [("data", .int 1)])]),
        ("metadata", .dict [("classname", .str "ExpQuad"), ("module_name", .str "mellon.cov")])])
        = .error (.valueError "malformed-value") := by
  refine ⟨?_, ?_, ?_, ?_⟩ <;>
    simp [covFromDict, isKernelState, alookup, stateClass, strField, covClass, baseCovNonKernelGlobals,
      leafFromState, refuseMalformed, deserializeK, deserialize]

/-- Every supported way of writing `active_dims` (integer, NumPy integer, list, tuple, integer or
    boolean array, slice) denotes the same selection after the round trip. -/
theorem active_dims_reading_preserved (p : PyVal) : pyToAd p.norm = pyToAd p := pyToAd_normF canonNaN p

/-- A tuple and a list of the same indices are the same selection (tuples come back as lists). -/
theorem active_dims_tuple_list (xs : List PyVal) : pyToAd (.tuple xs) = pyToAd (.list xs) := rfl

/-- The five forms of the kernel syntax are stored as, and recovered from, well-formed values. -/
theorem active_dims_roundtrip {Text : Type} (C : JsonCodec Text) (ad : ActiveDims) :
    roundTripJsonWith C (adToPy ad) = .ok (adToPy ad) ∧ pyToAd (adToPy ad) = some ad := by
  refine ⟨?_, pyToAd_adToPy ad⟩
  rw [value_roundtrip C _ (WF_adToPy canonNaN ad)]
  exact congrArg _ (normF_adToPy canonNaN ad)

/-! ### non-vacuity -/

example : (PyVal.dict [("a", .arr .f64 [0, 3] []), ("b", .set [.npInt 1, .float 0x7ff8000000000001, .npBool true]),
    ("c", .slice .none (.npInt (-1)) .none), ("None", .list [.none, .npFloat 0, .tuple [.arr .i64 [1] [.i 3]]])]).WF canonNaN
      = true := by decide

example : roundTripJson (.arr .i64 [0, 3] []) = .ok (.arr .i64 [0, 3] []) := rfl

example : (Cov.addC (.mul (.matern52 (.float 0x3ff8000000000000) (.list [0, -1]))
    (.ratquad (.npFloat 0x4000000000000000) (.int 3) (.mask [true, false])) (.slice none (some (-1)) none))
    (.arr .f64 [] [.f 0x4000000000000000]) .none).paramsWF canonNaN = true := by decide

example : ∃ dec : PyVal → Nat, ∀ p, dec p.norm = dec p := ⟨fun _ => 0, fun _ => rfl⟩

end Mellon.C19
