/-
  MellonProofs.LinearityLemmas — forward/back substitution are linear in the right-hand side
  (helper lemmas for C16, C06).
-/
import MellonProofs.ConditionalLemmas

open Finset

namespace Mellon

theorem solveLower_linear {n : Nat} (L : Mat ℝ n n) (a : ℝ) (b b1 b2 : Vector ℝ n)
    (hb : ∀ i, i < n → b.nth i = a * b1.nth i + b2.nth i) :
    ∀ i, i < n → (solveLower L b).nth i = a * (solveLower L b1).nth i + (solveLower L b2).nth i := by
  intro i
  induction i using Nat.strong_induction_on with
  | _ i ih =>
    intro hi
    rw [solveLower_nth L b hi, solveLower_nth L b1 hi, solveLower_nth L b2 hi, hb i hi]
    have hsum : ∑ k ∈ range i, L.el i k * (solveLower L b).nth k
        = a * ∑ k ∈ range i, L.el i k * (solveLower L b1).nth k
          + ∑ k ∈ range i, L.el i k * (solveLower L b2).nth k := by
      rw [Finset.mul_sum, ← Finset.sum_add_distrib]
      apply Finset.sum_congr rfl
      intro k hk
      have hk' : k < i := Finset.mem_range.mp hk
      rw [ih k hk' (Nat.lt_trans hk' hi)]; ring
    rw [hsum]
    ring

theorem solveUpperT_linear {n : Nat} (L : Mat ℝ n n) (a : ℝ) (b b1 b2 : Vector ℝ n)
    (hb : ∀ i, i < n → b.nth i = a * b1.nth i + b2.nth i) :
    ∀ i, i < n → (solveUpperT L b).nth i = a * (solveUpperT L b1).nth i + (solveUpperT L b2).nth i := by
  -- downward induction: on t = n - i
  have key : ∀ t i, n - i = t → i < n →
      (solveUpperT L b).nth i = a * (solveUpperT L b1).nth i + (solveUpperT L b2).nth i := by
    intro t
    induction t using Nat.strong_induction_on with
    | _ t ih =>
      intro i hti hi
      rw [solveUpperT_nth L b hi, solveUpperT_nth L b1 hi, solveUpperT_nth L b2 hi, hb i hi]
      have hsum : ∑ k ∈ Ico (i + 1) n, L.el k i * (solveUpperT L b).nth k
          = a * ∑ k ∈ Ico (i + 1) n, L.el k i * (solveUpperT L b1).nth k
            + ∑ k ∈ Ico (i + 1) n, L.el k i * (solveUpperT L b2).nth k := by
        rw [Finset.mul_sum, ← Finset.sum_add_distrib]
        apply Finset.sum_congr rfl
        intro k hk
        simp only [mem_Ico] at hk
        rw [ih (n - k) (by omega) k rfl hk.2]; ring
      rw [hsum]
      ring
  intro i hi
  exact key (n - i) i rfl hi

/-- Entry-wise scaling of a matrix right-hand side scales the solution. -/
theorem choSolveM_smul {n p : Nat} (L : Mat ℝ n n) (a : ℝ) (B B' : Mat ℝ n p)
    (hB : ∀ i j, i < n → j < p → B'.el i j = a * B.el i j) :
    ∀ i j, i < n → j < p → (choSolveM L B').el i j = a * (choSolveM L B).el i j := by
  intro i j hi hj
  unfold choSolveM
  rw [solveUpperTM_el _ _ i j hi hj, solveUpperTM_el _ _ i j hi hj]
  have hz : ∀ v : Vector ℝ n, (vecOfFn (n := n) fun _ => (0:ℝ)).nth i = 0 := by
    intro _; simp
  have h1 : ∀ k, k < n → ((solveLowerM L B').col j).nth k
      = a * ((solveLowerM L B).col j).nth k + (vecOfFn (n := n) fun _ => (0:ℝ)).nth k := by
    intro k hk
    simp only [col_nth, hk, if_true, nth_vecOfFn, ite_self, add_zero]
    rw [solveLowerM_el _ _ k j hk hj, solveLowerM_el _ _ k j hk hj]
    have := solveLower_linear L a (B'.col j) (B.col j) (vecOfFn fun _ => (0:ℝ))
      (by intro t ht; simp only [col_nth, ht, if_true, nth_vecOfFn, ite_self, add_zero]; exact hB t j ht hj) k hk
    rw [this]
    have hzero : ∀ t, t < n → (solveLower L (vecOfFn (n := n) fun _ => (0:ℝ))).nth t = 0 := by
      intro t
      induction t using Nat.strong_induction_on with
      | _ t iht =>
        intro ht
        rw [solveLower_nth L _ ht]
        have : ∑ k ∈ range t, L.el t k * (solveLower L (vecOfFn (n := n) fun _ => (0:ℝ))).nth k = 0 := by
          apply Finset.sum_eq_zero; intro k hk
          have hk' := Finset.mem_range.mp hk
          rw [iht k hk' (Nat.lt_trans hk' ht)]; ring
        rw [this]; simp
    rw [hzero k hk]; ring
  have := solveUpperT_linear L a ((solveLowerM L B').col j) ((solveLowerM L B).col j)
    (vecOfFn fun _ => (0:ℝ)) h1 i hi
  rw [this]
  have hzero : ∀ t, n - t ≤ n → t < n → (solveUpperT L (vecOfFn (n := n) fun _ => (0:ℝ))).nth t = 0 := by
    have key : ∀ s t, n - t = s → t < n →
        (solveUpperT L (vecOfFn (n := n) fun _ => (0:ℝ))).nth t = 0 := by
      intro s
      induction s using Nat.strong_induction_on with
      | _ s ihs =>
        intro t hts ht
        rw [solveUpperT_nth L _ ht]
        have : ∑ k ∈ Ico (t + 1) n, L.el k t * (solveUpperT L (vecOfFn (n := n) fun _ => (0:ℝ))).nth k = 0 := by
          apply Finset.sum_eq_zero; intro k hk
          simp only [mem_Ico] at hk
          rw [ihs (n - k) (by omega) k rfl hk.2]; ring
        rw [this]; simp
    intro t _ ht
    exact key (n - t) t rfl ht
  rw [hzero i (Nat.sub_le n i) hi]; ring

/-- The solution column `j` depends on column `j` of the right-hand side only. -/
theorem choSolveM_col {n p p' : Nat} (L : Mat ℝ n n) (B : Mat ℝ n p) (B' : Mat ℝ n p') (j j' : Nat)
    (hj : j < p) (hj' : j' < p') (hcol : ∀ i, i < n → B.el i j = B'.el i j') :
    ∀ i, i < n → (choSolveM L B).el i j = (choSolveM L B').el i j' := by
  intro i hi
  unfold choSolveM
  rw [solveUpperTM_el _ _ i j hi hj, solveUpperTM_el _ _ i j' hi hj']
  have hc : B.col j = B'.col j' := by
    unfold Mat.col vecOfFn
    congr 1
    funext k
    exact hcol k.val k.isLt
  have hc2 : (solveLowerM L B).col j = (solveLowerM L B').col j' := by
    unfold Mat.col vecOfFn
    congr 1
    funext k
    show (solveLowerM L B).el k.val j = (solveLowerM L B').el k.val j'
    rw [solveLowerM_el _ _ k.val j k.isLt hj, solveLowerM_el _ _ k.val j' k.isLt hj', hc]
  rw [hc2]

end Mellon

namespace Mellon
open Finset

/-- `cho_solve` is additive in the right-hand side. -/
theorem choSolveM_add {n p : Nat} (L : Mat ℝ n n) (B B1 B2 : Mat ℝ n p)
    (hB : ∀ i j, i < n → j < p → B.el i j = B1.el i j + B2.el i j) :
    ∀ i j, i < n → j < p → (choSolveM L B).el i j = (choSolveM L B1).el i j + (choSolveM L B2).el i j := by
  intro i j hi hj
  unfold choSolveM
  rw [solveUpperTM_el _ _ i j hi hj, solveUpperTM_el _ _ i j hi hj, solveUpperTM_el _ _ i j hi hj]
  have h1 : ∀ k, k < n → ((solveLowerM L B).col j).nth k
      = 1 * ((solveLowerM L B1).col j).nth k + ((solveLowerM L B2).col j).nth k := by
    intro k hk
    simp only [col_nth, hk, if_true]
    rw [solveLowerM_el _ _ k j hk hj, solveLowerM_el _ _ k j hk hj, solveLowerM_el _ _ k j hk hj]
    exact solveLower_linear L 1 (B.col j) (B1.col j) (B2.col j)
      (by intro t ht; simp only [col_nth, ht, if_true, one_mul]; exact hB t j ht hj) k hk
  have := solveUpperT_linear L 1 _ _ _ h1 i hi
  rw [this]; ring

end Mellon

namespace Mellon
open Finset

/-- Back substitution (matrix right-hand side) scales with the right-hand side. -/
theorem solveUpperTM_smul {n p : Nat} (L : Mat ℝ n n) (a : ℝ) (B B' : Mat ℝ n p)
    (hB : ∀ i j, i < n → j < p → B'.el i j = a * B.el i j) :
    ∀ i j, i < n → j < p → (solveUpperTM L B').el i j = a * (solveUpperTM L B).el i j := by
  intro i j hi hj
  rw [solveUpperTM_el _ _ i j hi hj, solveUpperTM_el _ _ i j hi hj]
  have h1 : ∀ k, k < n → (B'.col j).nth k = a * (B.col j).nth k + (vecOfFn (n := n) fun _ => (0:ℝ)).nth k := by
    intro k hk
    simp only [col_nth, hk, if_true, nth_vecOfFn, ite_self, add_zero]
    exact hB k j hk hj
  have := solveUpperT_linear L a (B'.col j) (B.col j) (vecOfFn fun _ => (0:ℝ)) h1 i hi
  rw [this]
  have key : ∀ s t, n - t = s → t < n → (solveUpperT L (vecOfFn (n := n) fun _ => (0:ℝ))).nth t = 0 := by
    intro s
    induction s using Nat.strong_induction_on with
    | _ s ihs =>
      intro t hts ht
      rw [solveUpperT_nth L _ ht]
      have : ∑ k ∈ Ico (t + 1) n, L.el k t * (solveUpperT L (vecOfFn (n := n) fun _ => (0:ℝ))).nth k = 0 := by
        apply Finset.sum_eq_zero; intro k hk
        simp only [mem_Ico] at hk
        rw [ihs (n - k) (by omega) k rfl hk.2]; ring
      rw [this]; simp
  rw [key (n - i) i rfl hi]; ring

/-- … and each solution column depends on the matching right-hand-side column only. -/
theorem solveUpperTM_col {n p p' : Nat} (L : Mat ℝ n n) (B : Mat ℝ n p) (B' : Mat ℝ n p') (j j' : Nat)
    (hj : j < p) (hj' : j' < p') (hcol : ∀ i, i < n → B.el i j = B'.el i j') :
    ∀ i, i < n → (solveUpperTM L B).el i j = (solveUpperTM L B').el i j' := by
  intro i hi
  rw [solveUpperTM_el _ _ i j hi hj, solveUpperTM_el _ _ i j' hi hj']
  have hc : B.col j = B'.col j' := by
    unfold Mat.col vecOfFn
    congr 1
    funext k
    exact hcol k.val k.isLt
  rw [hc]

/-- The DTC weights are linear in the right-hand side … -/
theorem lmWeights_smul {n m p : Nat} (L LB : Mat ℝ m m) (A : Mat ℝ m n) (a : ℝ) (R R' : Mat ℝ n p)
    (hR : ∀ i j, i < n → j < p → R'.el i j = a * R.el i j) :
    ∀ i j, i < m → j < p → (lmWeights L LB A R').el i j = a * (lmWeights L LB A R).el i j := by
  unfold lmWeights
  apply solveUpperTM_smul
  apply choSolveM_smul
  intro i j hi hj
  simp only [matMul, el_ofFn, hi, hj, and_self, if_true, nsum_eq_sum]
  rw [Finset.mul_sum]
  apply Finset.sum_congr rfl
  intro t ht
  rw [hR t j (Finset.mem_range.mp ht) hj]; ring

/-- … and column-wise. -/
theorem lmWeights_col {n m p p' : Nat} (L LB : Mat ℝ m m) (A : Mat ℝ m n) (R : Mat ℝ n p) (R' : Mat ℝ n p')
    (j j' : Nat) (hj : j < p) (hj' : j' < p') (hcol : ∀ i, i < n → R.el i j = R'.el i j') :
    ∀ i, i < m → (lmWeights L LB A R).el i j = (lmWeights L LB A R').el i j' := by
  unfold lmWeights
  apply solveUpperTM_col _ _ _ _ _ hj hj'
  apply choSolveM_col _ _ _ _ _ hj hj'
  intro i hi
  simp only [matMul, el_ofFn, hi, hj, hj', and_self, if_true, nsum_eq_sum]
  apply Finset.sum_congr rfl
  intro t ht
  rw [hcol t (Finset.mem_range.mp ht)]

/-! ### the shared second half of `_LandmarksConditional.__init__` (`lmCore`), without uncertainty -/

/-- Scaling the right-hand side by `a` and moving the prior mean to `a·mu + b` maps the prediction affinely. -/
theorem lmCore_affine {n m d c : Nat} {cov : Cov ℝ} {xu : Mat ℝ m d} {mu jitter : ℝ} {L : Mat ℝ m m}
    {A : Mat ℝ m n} {R : Mat ℝ n c} {LLB? : Except CondErr (Mat ℝ m m)} {sU : Sigma ℝ n} {ycfU : Option (AnyMat ℝ)}
    {s : CondState ℝ m d c} (R' : Mat ℝ n c) (a b : ℝ)
    (h : lmCore cov xu mu jitter L A R LLB? sU ycfU false = .ok s)
    (hR : ∀ i k, i < n → k < c → R'.el i k = a * R.el i k) :
    ∃ s', lmCore cov xu (a * mu + b) jitter L A R' LLB? sU ycfU false = .ok s'
      ∧ ∀ (xq : List ℝ) (col : Nat), col < c → s'.mean1 xq col = a * s.mean1 xq col + b := by
  obtain ⟨LLB, LB, hLLB, hLB, _, _, _, _, _, _, _⟩ := lmCore_ok h
  subst hLLB
  rw [lmCore_false_eq cov xu mu jitter L A R sU ycfU hLB] at h
  have hs := (Except.ok.inj h).symm; subst hs
  refine ⟨_, lmCore_false_eq cov xu (a * mu + b) jitter L A R' sU ycfU hLB, ?_⟩
  intro xq col hcol
  have hw := lmWeights_smul L LB A a R R' hR
  simp only [CondState.mean1, nsum_eq_sum]
  have : ∑ j ∈ range m, cov.k xq (xu.row j) * (lmWeights L LB A R').el j col
      = a * ∑ j ∈ range m, cov.k xq (xu.row j) * (lmWeights L LB A R).el j col := by
    rw [Finset.mul_sum]
    apply Finset.sum_congr rfl
    intro j hj
    rw [hw j col (Finset.mem_range.mp hj) hcol]; ring
  rw [this]; ring

/-- Each value column is treated on its own. -/
theorem lmCore_col {n m d c c' : Nat} {cov : Cov ℝ} {xu : Mat ℝ m d} {mu jitter : ℝ} {L : Mat ℝ m m}
    {A : Mat ℝ m n} {R : Mat ℝ n c} {R' : Mat ℝ n c'} {LLB? : Except CondErr (Mat ℝ m m)} {sU : Sigma ℝ n}
    {ycfU : Option (AnyMat ℝ)} {s : CondState ℝ m d c} {s' : CondState ℝ m d c'}
    (h : lmCore cov xu mu jitter L A R LLB? sU ycfU false = .ok s)
    (h' : lmCore cov xu mu jitter L A R' LLB? sU ycfU false = .ok s')
    (j j' : Nat) (hj : j < c) (hj' : j' < c') (hcol : ∀ i, i < n → R.el i j = R'.el i j') :
    ∀ xq : List ℝ, s.mean1 xq j = s'.mean1 xq j' := by
  obtain ⟨LLB, LB, hLLB, hLB, _, _, _, _, _, _, _⟩ := lmCore_ok h
  subst hLLB
  rw [lmCore_false_eq cov xu mu jitter L A R sU ycfU hLB] at h
  rw [lmCore_false_eq cov xu mu jitter L A R' sU ycfU hLB] at h'
  have hs := (Except.ok.inj h).symm; subst hs
  have hs' := (Except.ok.inj h').symm; subst hs'
  intro xq
  have hw := lmWeights_col L LB A R R' j j' hj hj' hcol
  simp only [CondState.mean1]
  congr 1
  apply nsum_congr
  intro t ht
  rw [hw t ht]

end Mellon
