/-
  MellonProofs.TimeArgsLemmas — helper lemmas for C13 (list plumbing of the time merge).
-/
import MellonModel.TimeArgs
import Mathlib.Tactic

namespace Mellon

variable {τ : Type}

/-- `Xnew[:, :-1]` of `[x | t]` is `x`. -/
theorem stateCols_appendCol (rows : List (List τ)) (ts : List τ) (h : rows.length = ts.length) :
    stateCols (appendCol rows ts) = rows := by
  induction rows generalizing ts with
  | nil => simp [stateCols, appendCol]
  | cons r rs ih =>
    cases ts with
    | nil => simp at h
    | cons v vs =>
      have h' : rs.length = vs.length := by simpa using h
      have := ih vs h'
      simp only [stateCols, appendCol] at this ⊢
      simp [this]

/-- `Xnew[:, -1]` of `[x | t]` is `t`. -/
theorem timeCol_appendCol (rows : List (List τ)) (ts : List τ) (h : rows.length = ts.length) :
    timeCol (appendCol rows ts) = ts := by
  induction rows generalizing ts with
  | nil =>
    cases ts with
    | nil => simp [timeCol, appendCol]
    | cons v vs => simp at h
  | cons r rs ih =>
    cases ts with
    | nil => simp at h
    | cons v vs =>
      have h' : rs.length = vs.length := by simpa using h
      have := ih vs h'
      simp only [timeCol, appendCol] at this ⊢
      simp [this]

theorem appendCol_length (rows : List (List τ)) (ts : List τ) :
    (appendCol rows ts).length = min rows.length ts.length := by
  simp [appendCol]

/-- Every row of `[x | t]` is one wider. -/
theorem appendCol_row_length (rows : List (List τ)) (ts : List τ) (c : Nat)
    (hc : ∀ r ∈ rows, r.length = c) : ∀ r ∈ appendCol rows ts, r.length = c + 1 := by
  induction rows generalizing ts with
  | nil => simp [appendCol]
  | cons r rs ih =>
    cases ts with
    | nil => simp [appendCol]
    | cons v vs =>
      intro q hq
      simp only [appendCol, List.zipWith_cons_cons, List.mem_cons] at hq
      rcases hq with rfl | hq
      · simp [hc r (by simp)]
      · exact ih vs (fun r' hr' => hc r' (by simp [hr'])) q hq

theorem listProd_singleton (k : Nat) : listProd [k] = k := by simp [listProd]
theorem listProd_pair (k c : Nat) : listProd [k, c] = k * c := by simp [listProd]

/-- The shape decision of a one-element array-like under `cast_scalar`: it is broadcast. -/
theorem castShape_of_prod_one (n : Nat) (s : List Nat) (h : listProd s = 1) :
    castShape n (.arr s) = .arr [n] := by simp [castShape, h]

theorem timesErr_vec (n : Nat) : timesErr? n (.arr [n]) = none := by simp [timesErr?]

theorem timesErr_col (n : Nat) : timesErr? n (.arr [n, 1]) = none := by simp [timesErr?]

end Mellon
