/-
  MellonProofs.InducingMonoLemmas — the explained variance `vᵀ M⁻¹ v` does not decrease when the
  (regularised, positive semi-definite) kernel matrix `M` is extended by further inducing points.
  Stated without inverses: `M u = v` on the extended set, `A z = v₁` on the original one.
-/
import Mathlib.LinearAlgebra.Matrix.PosDef
import Mathlib.Algebra.Order.Star.Real
import Mathlib.Data.Matrix.Block

open Matrix
open scoped BigOperators

namespace Mellon.InducingMono

theorem psd_quad {ι : Type} [Fintype ι] {M : Matrix ι ι ℝ} (hM : M.PosSemidef) (x : ι → ℝ) :
    0 ≤ x ⬝ᵥ (M *ᵥ x) := by
  have := hM.dotProduct_mulVec_nonneg x
  simpa using this

/-- Block form. -/
theorem quad_inv_mono_blocks {ι κ : Type} [Fintype ι] [Fintype κ] [DecidableEq ι] [DecidableEq κ]
    (A : Matrix ι ι ℝ) (B : Matrix ι κ ℝ) (D : Matrix κ κ ℝ)
    (hM : (Matrix.fromBlocks A B Bᵀ D).PosSemidef)
    (u v : ι ⊕ κ → ℝ) (hu : Matrix.fromBlocks A B Bᵀ D *ᵥ u = v)
    (z₁ : ι → ℝ) (hz : A *ᵥ z₁ = v ∘ Sum.inl) :
    z₁ ⬝ᵥ (v ∘ Sum.inl) ≤ u ⬝ᵥ v := by
  set M := Matrix.fromBlocks A B Bᵀ D with hMdef
  set z : ι ⊕ κ → ℝ := Sum.elim z₁ 0 with hzdef
  have hsymm : Mᵀ = M := by
    have := hM.1.eq
    rwa [Matrix.conjTranspose_eq_transpose_of_trivial] at this
  have hMz : M *ᵥ z = Sum.elim (A *ᵥ z₁) (Bᵀ *ᵥ z₁) := by
    rw [hMdef, hzdef, Matrix.fromBlocks_mulVec]
    simp
  have hzv : z ⬝ᵥ v = z₁ ⬝ᵥ (v ∘ Sum.inl) := by
    simp [hzdef, dotProduct, Fintype.sum_sum_type]
  have hzMz : z ⬝ᵥ (M *ᵥ z) = z₁ ⬝ᵥ (v ∘ Sum.inl) := by
    rw [hMz, hz]
    simp [hzdef, dotProduct, Fintype.sum_sum_type]
  have huMz : u ⬝ᵥ (M *ᵥ z) = z ⬝ᵥ v := by
    rw [Matrix.dotProduct_mulVec, ← Matrix.mulVec_transpose, hsymm, hu, dotProduct_comm]
  have hnn := psd_quad hM (u - z)
  have hexp : (u - z) ⬝ᵥ (M *ᵥ (u - z)) = u ⬝ᵥ v - z₁ ⬝ᵥ (v ∘ Sum.inl) := by
    rw [Matrix.mulVec_sub, dotProduct_sub, sub_dotProduct, sub_dotProduct, hu, huMz, hzMz, hzv]
    ring
  linarith [hexp ▸ hnn]

/-- Index form: `M` on `Fin (m + k)`, its leading `m × m` block `A`. -/
theorem quad_inv_mono {m k : Nat} (M : Matrix (Fin (m + k)) (Fin (m + k)) ℝ) (hM : M.PosSemidef)
    (A : Matrix (Fin m) (Fin m) ℝ) (hA : ∀ i j : Fin m, A i j = M (Fin.castAdd k i) (Fin.castAdd k j))
    (u v : Fin (m + k) → ℝ) (hu : M *ᵥ u = v) (z₁ : Fin m → ℝ)
    (hz : A *ᵥ z₁ = fun i => v (Fin.castAdd k i)) :
    z₁ ⬝ᵥ (fun i => v (Fin.castAdd k i)) ≤ u ⬝ᵥ v := by
  let e : Fin m ⊕ Fin k ≃ Fin (m + k) := finSumFinEquiv
  set Ms : Matrix (Fin m ⊕ Fin k) (Fin m ⊕ Fin k) ℝ := M.submatrix e e with hMs
  have hMsPSD : Ms.PosSemidef := hM.submatrix e
  have hblocks : Ms = Matrix.fromBlocks A Ms.toBlocks₁₂ Ms.toBlocks₁₂ᵀ Ms.toBlocks₂₂ := by
    have hsymm : Msᵀ = Ms := by
      have := hMsPSD.1.eq
      rwa [Matrix.conjTranspose_eq_transpose_of_trivial] at this
    have h11 : Ms.toBlocks₁₁ = A := by
      ext i j; simp [Matrix.toBlocks₁₁, hMs, hA, e, finSumFinEquiv_apply_left]
    have h21 : Ms.toBlocks₂₁ = Ms.toBlocks₁₂ᵀ := by
      ext i j
      have := congrFun (congrFun hsymm (Sum.inr i)) (Sum.inl j)
      simpa [Matrix.toBlocks₂₁, Matrix.toBlocks₁₂, Matrix.transpose_apply] using this.symm
    conv_lhs => rw [← Matrix.fromBlocks_toBlocks Ms]
    rw [h11, h21]
  have hue : Ms *ᵥ (u ∘ e) = v ∘ e := by
    rw [hMs, Matrix.submatrix_mulVec_equiv]
    have : (u ∘ ⇑e) ∘ ⇑e.symm = u := by funext i; simp
    rw [this, hu]
  have key := quad_inv_mono_blocks A Ms.toBlocks₁₂ Ms.toBlocks₂₂ (hblocks ▸ hMsPSD) (u ∘ e) (v ∘ e)
    (by rw [← hblocks]; exact hue) z₁
    (by rw [hz]; funext i; simp [e, finSumFinEquiv_apply_left])
  have h1 : (v ∘ e) ∘ Sum.inl = fun i => v (Fin.castAdd k i) := by
    funext i; simp [e, finSumFinEquiv_apply_left]
  have h2 : (u ∘ e) ⬝ᵥ (v ∘ e) = u ⬝ᵥ v := by
    simp only [dotProduct, Function.comp]
    exact Equiv.sum_comp e (fun i => u i * v i)
  rw [h1, h2] at key
  exact key

end Mellon.InducingMono
