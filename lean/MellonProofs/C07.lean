/-
  C07 — Predictor persistence (JSON, gzip, bz2, dict, copy) is lossless.
  Property theorems only (helpers are in PersistLemmas.lean / SerialLemmas.lean).  Statements are
  about the exact model `MellonModel/Persist.lean`:  a predictor object = class tag (9 classes) +
  attribute dict + kernel expression; values as in C19.

  Reading guide.  `predData p = .ok data` says that `p` has the attributes `__getstate__` needs and
  `data` is the dict it collects (state variables, `n_input_features`, `n_obs`, `_state_variables`).
  `p.normalized f data` is the object with that dict as attributes in normal form (`normF f`: NumPy
  scalars → Python scalars; `f = canonNaN` through JSON text, `f = id` on the dict path).
-/
import MellonProofs.PersistLemmas

namespace Mellon.C07
open Mellon

variable {Text : Type}

/-! ### dict / JSON / copy round trips -/

/-- `Predictor.from_dict(p.to_dict())`: same class, attributes = the data dict (bits untouched),
    same kernel — for every predictor object, whatever its state arrays contain. -/
theorem pred_roundtrip (m : Meta) (p : Pred) (data : List (String × PyVal))
    (hd : predData p = .ok data) (hwf : PyVal.WFK id data = true) (hc : p.cov.paramsWF id = true)
    (hv : versionLt14 m.version = some false) :
    predRoundTripDict m p = .ok (p.normalized id data) := by
  unfold predRoundTripDict
  rw [predGetState_eq m p data hd]
  have h := predFromDict_stateOf id m p.cls data p.cov hwf hc hv
  rw [normF_id_jsonLike _ (jsonLike_stateOf id m p.cls data p.cov hwf hc)] at h
  exact h

/-- `Predictor.from_json_str(p.to_json())`, for every JSON codec meeting the text contract. -/
theorem json_roundtrip (C : JsonCodec Text) (m : Meta) (p : Pred) (data : List (String × PyVal))
    (hd : predData p = .ok data) (hwf : PyVal.WFK canonNaN data = true) (hc : p.cov.paramsWF canonNaN = true)
    (hv : versionLt14 m.version = some false) :
    predRoundTripJsonWith C m p = .ok (p.normalized canonNaN data) := by
  unfold predRoundTripJsonWith
  rw [predGetState_eq m p data hd]
  simp only [jsonPass_jsonLike C _ (jsonLike_stateOf canonNaN m p.cls data p.cov hwf hc)]
  exact predFromDict_stateOf canonNaN m p.cls data p.cov hwf hc hv

/-- `p.copy()` is the same object again (value-wise). -/
theorem copy_equiv (m : Meta) (p : Pred) (data : List (String × PyVal))
    (hd : predData p = .ok data) (hwf : PyVal.WFK id data = true) (hc : p.cov.paramsWF id = true) :
    predCopy m p = .ok (p.normalized id data) := by
  unfold predCopy
  rw [predGetState_eq m p data hd]
  have h := predSetState_stateOf id m p.cls p.cls data p.cov hwf hc
  rw [normF_id_jsonLike _ (jsonLike_stateOf id m p.cls data p.cov hwf hc)] at h
  exact h

/-- The serialised form is plain JSON-compatible data: `json.dumps` accepts it. -/
theorem state_is_json (m : Meta) (p : Pred) (data : List (String × PyVal))
    (hd : predData p = .ok data) (hwf : PyVal.WFK canonNaN data = true) (hc : p.cov.paramsWF canonNaN = true) :
    ∃ s j, predGetState m p = .ok s ∧ s.jsonLike = true ∧ toJson s = .ok j := by
  refine ⟨stateOf m p.cls data p.cov, ?_⟩
  have hj := jsonLike_stateOf canonNaN m p.cls data p.cov hwf hc
  obtain ⟨j, h1, _⟩ := toJson_jsonLike _ hj
  exact ⟨j, predGetState_eq m p data hd, hj, h1⟩

/-- Training size, feature count and kernel are preserved (and so is the class). -/
theorem meta_preserved (f : UInt64 → UInt64) (p : Pred) (data : List (String × PyVal)) (hd : predData p = .ok data) :
    (p.normalized f data).cls = p.cls
    ∧ (p.normalized f data).cov = p.cov.mapP (PyVal.normF f)
    ∧ alookup "n_obs" (p.normalized f data).attrs = (alookup "n_obs" p.attrs).map (PyVal.normF f)
    ∧ alookup "n_input_features" (p.normalized f data).attrs
        = (alookup "n_input_features" p.attrs).map (PyVal.normF f) := by
  obtain ⟨g1, g2, _⟩ := predData_n_obs p data hd
  refine ⟨rfl, rfl, ?_, ?_⟩
  · simp [Pred.normalized, alookup_normFK, g1]
  · simp [Pred.normalized, alookup_normFK, g2]

/-- Integer metadata comes back as the same integer. -/
theorem n_obs_int_preserved (f : UInt64 → UInt64) (p : Pred) (data : List (String × PyVal)) (hd : predData p = .ok data)
    (n : Int) (h : alookup "n_obs" p.attrs = some (.int n)) :
    alookup "n_obs" (p.normalized f data).attrs = some (.int n) := by
  rw [(meta_preserved f p data hd).2.2.1, h]
  rfl

/-- Every state variable comes back as the normal form of its value. -/
theorem state_variable_preserved (f : UInt64 → UInt64) (p : Pred) (data : List (String × PyVal))
    (k : String) : alookup k (p.normalized f data).attrs = (alookup k data).map (PyVal.normF f) := by
  simp [Pred.normalized, alookup_normFK]

/-- Whatever is computed from (class, attributes, kernel) — mean, covariance, mean covariance,
    uncertainty, derivatives on any query — is the same for the reloaded predictor and for the
    normal form of the original. -/
theorem eval_congr {β : Type} (ev : Pred → β) (C : JsonCodec Text) (m : Meta) (p : Pred) (data : List (String × PyVal))
    (hd : predData p = .ok data) (hwf : PyVal.WFK canonNaN data = true) (hc : p.cov.paramsWF canonNaN = true)
    (hv : versionLt14 m.version = some false) :
    (predRoundTripJsonWith C m p).map ev = .ok (ev (p.normalized canonNaN data)) := by
  rw [json_roundtrip C m p data hd hwf hc hv]
  rfl

/-- Re-serialising the reloaded predictor gives the first serialisation in normal form, time stamp
    (the `Meta` argument) apart; for NaN-free states without NumPy scalars that is the same content. -/
theorem reserialise_stable (f : UInt64 → UInt64) (m' : Meta) (p : Pred) (data : List (String × PyVal))
    (hd : predData p = .ok data) (hwf : PyVal.WFK f data = true) (hc : p.cov.paramsWF f = true) :
    predGetState m' (p.normalized f data) = (predGetState m' p).map (PyVal.normF f)
    ∧ predData (p.normalized f data) = .ok (PyVal.normFK f data) := by
  have hd' := predData_normalized f p data hd (p.cov.mapP (PyVal.normF f))
  refine ⟨?_, hd'⟩
  rw [predGetState_eq m' p data hd, predGetState_eq m' (p.normalized f data) _ hd']
  simp only [Except.map, Pred.normalized, stateOf, msK_normFK f data hwf,
    covToDict_mapP_normF f m' p.cov hc, PyVal.normF, PyVal.normFK, normF_metaDict]

/-! ### files: the compression decision table -/

/-- What `to_json` does with (name, str|Path, keyword): the complete table. -/
theorem write_table (name : FName) (isPath : Bool) :
    writeSelect name isPath none
        = .ok (name, if endsWith name sfxGz then .gzip else if endsWith name sfxBz2 then .bz2 else .plain)
    ∧ writeSelect name isPath (some "gzip")
        = .ok (if !isPath && !endsWith name sfxGz then name ++ sfxGz else name, .gzip)
    ∧ writeSelect name isPath (some "bz2")
        = .ok (if !isPath && !endsWith name sfxBz2 then name ++ sfxBz2 else name, .bz2)
    ∧ ∀ c : String, c ≠ "gzip" → c ≠ "bz2" → writeSelect name isPath (some c) = .error (.valueError "compression-format") := by
  refine ⟨?_, ?_, ?_, ?_⟩
  · unfold writeSelect
    by_cases h1 : endsWith name sfxGz = true
    · simp [h1]
    · by_cases h2 : endsWith name sfxBz2 = true
      · simp [h1, h2]
      · simp [h1, h2]
  · simp [writeSelect]
  · simp [writeSelect]
  · intro c h1 h2
    simp [writeSelect, h1, h2]

/-- Reading with the SAME keyword as written (keyword or none) selects the format that was written,
    for every name, `str` or `Path`. -/
theorem compress_select_same (name name' : FName) (isPath : Bool) (c : Option String) (fmt : Fmt)
    (h : writeSelect name isPath c = .ok (name', fmt)) : readSelect name' c = fmt := by
  obtain ⟨t1, t2, t3, t4⟩ := write_table name isPath
  cases c with
  | none =>
    rw [t1] at h
    injection h with h
    injection h with h1 h2
    subst h1
    rw [← h2]
    by_cases g1 : endsWith name sfxGz = true
    · rw [if_pos g1]; exact readSelect_none_of_ext name .gzip g1
    · by_cases g2 : endsWith name sfxBz2 = true
      · rw [if_neg g1, if_pos g2]; exact readSelect_none_of_ext name .bz2 g2
      · rw [if_neg g1, if_neg g2]
        exact readSelect_none_of_ext name .plain (by simp [extMatches, g1, g2])
  | some s =>
    by_cases e1 : s = "gzip"
    · subst e1
      rw [t2] at h
      simp only [Except.ok.injEq, Prod.mk.injEq] at h
      rw [← h.2]
      exact (readSelect_keyword name').1
    · by_cases e2 : s = "bz2"
      · subst e2
        rw [t3] at h
        simp only [Except.ok.injEq, Prod.mk.injEq] at h
        rw [← h.2]
        exact (readSelect_keyword name').2
      · rw [t4 s e1 e2] at h
        exact nomatch h

/-- Reading WITHOUT keyword under the name actually written selects the written format whenever
    the name was a `str` (the suffix is appended), or no keyword was used, or the given name already
    carried the extension. -/
theorem compress_select_none (name name' : FName) (isPath : Bool) (c : Option String) (fmt : Fmt)
    (h : writeSelect name isPath c = .ok (name', fmt))
    (hcons : isPath = false ∨ c = none ∨ extMatches name fmt = true) : readSelect name' none = fmt := by
  obtain ⟨t1, t2, t3, t4⟩ := write_table name isPath
  cases c with
  | none => exact compress_select_same name name' isPath none fmt h
  | some s =>
    by_cases e1 : s = "gzip"
    · subst e1
      rw [t2] at h
      injection h with h
      injection h with h1 h2
      subst h2
      apply readSelect_none_of_ext
      subst h1
      by_cases g : endsWith name sfxGz = true
      · simp [extMatches, g]
      · rcases hcons with hp | hn | he
        · simp [extMatches, hp, g, endsWith_append]
        · exact nomatch hn
        · exact absurd he g
    · by_cases e2 : s = "bz2"
      · subst e2
        rw [t3] at h
        injection h with h
        injection h with h1 h2
        subst h2
        apply readSelect_none_of_ext
        subst h1
        by_cases g : endsWith name sfxBz2 = true
        · simp [extMatches, g]
        · rcases hcons with hp | hn | he
          · simp [extMatches, hp, g, endsWith_append]
          · exact nomatch hn
          · exact absurd he g
      · rw [t4 s e1 e2] at h
        exact nomatch h

/-
  Full-strength statement "read (write p f c) = p for EVERY (f, c) and read keyword ∈ {same, none}"
  is false by design of the tested API: a `Path` is never extended, so
  `to_json(Path('b.json'), compress='gzip')` followed by `from_json(Path('b.json'))` opens gzip bytes as
  text.  The excluded pairs are exactly: Path ∧ explicit keyword ∧ name without the matching extension
  ∧ read without keyword (hypothesis `hcons` above).  Not a finding (the test-suite pins it).
-/
theorem compress_select_excluded_pair :
    writeSelect "b.json".toList true (some "gzip") = .ok ("b.json".toList, .gzip)
    ∧ readSelect "b.json".toList none = .plain
    ∧ writeSelect "b.bz2".toList true (some "gzip") = .ok ("b.bz2".toList, .gzip)
    ∧ readSelect "b.bz2".toList none = .bz2 := ⟨rfl, by decide, rfl, by decide⟩

/-- Writing then reading a file (any file system, any codec): the predictor comes back whenever the
    opener selected on reading is the format written. -/
theorem file_roundtrip (C : JsonCodec Text) (m : Meta) (fs fs' : FS Text) (p : Pred) (data : List (String × PyVal))
    (name name' : FName) (isPath : Bool) (c rk : Option String)
    (hd : predData p = .ok data) (hwf : PyVal.WFK canonNaN data = true) (hc : p.cov.paramsWF canonNaN = true)
    (hv : versionLt14 m.version = some false)
    (hw : predToJsonFile C m fs p name isPath c = .ok (fs', name'))
    (hr : ∃ fmt n, writeSelect name isPath c = .ok (n, fmt) ∧ readSelect name' rk = fmt) :
    predFromJsonFile C fs' name' rk = .ok (p.normalized canonNaN data) := by
  obtain ⟨fmt, n, hws, hrs⟩ := hr
  have hj := jsonLike_stateOf canonNaN m p.cls data p.cov hwf hc
  obtain ⟨j, h1, h2⟩ := toJson_jsonLike _ hj
  unfold predToJsonFile at hw
  rw [predGetState_eq m p data hd] at hw
  simp only [h1, hws] at hw
  injection hw with hw
  injection hw with hfs hn
  subst hfs hn
  simp only [predFromJsonFile, fsLookup, if_true, hrs, C.spec, h2]
  exact predFromDict_stateOf canonNaN m p.cls data p.cov hwf hc hv

/-- The end-to-end statement for the consistent pairs: same keyword, or no keyword on reading when
    the written name carries the extension. -/
theorem compress_select (C : JsonCodec Text) (m : Meta) (fs fs' : FS Text) (p : Pred) (data : List (String × PyVal))
    (name name' : FName) (isPath : Bool) (c : Option String)
    (hd : predData p = .ok data) (hwf : PyVal.WFK canonNaN data = true) (hc : p.cov.paramsWF canonNaN = true)
    (hv : versionLt14 m.version = some false)
    (hw : predToJsonFile C m fs p name isPath c = .ok (fs', name')) :
    predFromJsonFile C fs' name' c = .ok (p.normalized canonNaN data)
    ∧ ((isPath = false ∨ c = none ∨ ∃ fmt n, writeSelect name isPath c = .ok (n, fmt) ∧ extMatches name fmt = true) →
        predFromJsonFile C fs' name' none = .ok (p.normalized canonNaN data)) := by
  -- recover the selection made by the write
  have hsel : ∃ fmt, writeSelect name isPath c = .ok (name', fmt) := by
    unfold predToJsonFile at hw
    rw [predGetState_eq m p data hd] at hw
    obtain ⟨j, h1, _⟩ := toJson_jsonLike _ (jsonLike_stateOf canonNaN m p.cls data p.cov hwf hc)
    simp only [h1] at hw
    cases hws : writeSelect name isPath c with
    | error e => simp [hws] at hw
    | ok r =>
      obtain ⟨n, fmt⟩ := r
      simp only [hws] at hw
      injection hw with hw
      injection hw with _ hn
      subst hn
      exact ⟨fmt, rfl⟩
  obtain ⟨fmt, hsel⟩ := hsel
  refine ⟨file_roundtrip C m fs fs' p data name name' isPath c c hd hwf hc hv hw
      ⟨fmt, name', hsel, compress_select_same name name' isPath c fmt hsel⟩, ?_⟩
  intro hcons
  refine file_roundtrip C m fs fs' p data name name' isPath c none hd hwf hc hv hw
      ⟨fmt, name', hsel, compress_select_none name name' isPath c fmt hsel ?_⟩
  rcases hcons with h | h | ⟨fmt2, n2, h3, h4⟩
  · exact Or.inl h
  · exact Or.inr (Or.inl h)
  · rw [hsel] at h3
    injection h3 with h3
    injection h3 with _ h5
    subst h5
    exact Or.inr (Or.inr h4)

/-- An unknown compression keyword is refused with `ValueError` and nothing is written. -/
theorem unknown_keyword_refused (C : JsonCodec Text) (m : Meta) (fs : FS Text) (p : Pred) (data : List (String × PyVal))
    (name : FName) (isPath : Bool) (c : String) (h1 : c ≠ "gzip") (h2 : c ≠ "bz2")
    (hd : predData p = .ok data) (hwf : PyVal.WFK canonNaN data = true) (hc : p.cov.paramsWF canonNaN = true) :
    predToJsonFile C m fs p name isPath (some c) = .error (.valueError "compression-format") := by
  obtain ⟨j, hj1, _⟩ := toJson_jsonLike _ (jsonLike_stateOf canonNaN m p.cls data p.cov hwf hc)
  unfold predToJsonFile
  rw [predGetState_eq m p data hd]
  simp [hj1, (write_table name isPath).2.2.2 c h1 h2]

/-- On reading an explicit keyword wins over the extension. -/
theorem read_keyword_wins (name : FName) :
    readSelect name (some "gzip") = .gzip ∧ readSelect name (some "bz2") = .bz2 := readSelect_keyword name

/-! ### copy shares no mutable state — in the allocation-id model -/

/-- Every mutable container of the copy is freshly allocated: the copy shares no list, dict, set or
    array with its source (full strength: for every labelled value, lists included — they are
    rebuilt element-wise since the fix). -/
theorem copy_fresh (v : LVal) (n : Nat) (hn : ∀ i ∈ v.ids, i < n) :
    ∀ i ∈ (v.copy n).1.ids, i ∉ v.ids := by
  intro i hi hmem
  have := (copy_ids_ge v n).2 i hi
  have := hn i hmem
  omega

/-- … and the copy is, value-wise, the state round trip of C19 (so the allocation model and the value
    model describe the same function). -/
theorem copy_value (v : LVal) (n : Nat) (h : v.erase.WF id = true) :
    roundTripDict v.erase = .ok (v.copy n).1.erase := by
  rw [copy_erase v n h]
  have := deser_ms id v.erase h
  rw [normF_id_jsonLike _ (jsonLike_ms id v.erase h)] at this
  exact this

/-- Regression of repaired defect F3: a list-valued attribute (`active_dims = [0, 1]`) of the copy
    is a new object. -/
theorem copy_fresh_list_regression :
    let v := LVal.list 7 [.atom (.int 0), .atom (.int 1)]
    (v.copy 100).1.ids = [100] ∧ 7 ∉ (v.copy 100).1.ids := by decide

/-- All attribute values of a predictor (own and of its kernel nodes), copied in sequence: every id
    of the copies is fresh. -/
theorem copy_fresh_attrs : ∀ (vs : List LVal) (n : Nat),
    n ≤ (copyAttrs vs n).2 ∧ ∀ w ∈ (copyAttrs vs n).1, ∀ i ∈ w.ids, n ≤ i
  | [], n => by simp [copyAttrs]
  | v :: r, n => by
    have h1 := copy_ids_ge v n
    have h2 := copy_fresh_attrs r (v.copy n).2
    simp only [copyAttrs, List.mem_cons]
    refine ⟨by omega, ?_⟩
    intro w hw i hi
    rcases hw with rfl | hw
    · exact (h1.2 i hi).1
    · have := h2.2 w hw i hi
      omega

/-! ### dicts written before 1.4.0 -/

/-- A pre-1.4.0 dict (old class name, no `n_obs`, no `_state_variables`) loads as the renamed
    class with `n_obs = None`, `_state_variables` = every key but `n_input_features` (so including
    `n_obs`), every other attribute and the kernel exactly as a current dict would give them. -/
theorem legacy_upgrade (kvs md d attrs : List (String × PyVal)) (cs : PyVal) (cov : Cov PyVal)
    (cls : PredClass) (oldName ver : String)
    (hmd : alookup "metadata" kvs = some (.dict md))
    (hn : metaStr md "classname" = .ok oldName) (hm : metaStr md "module_name" = .ok predModule)
    (hver : metaStr md "module_version" = .ok ver) (hlt : versionLt14 ver = some true)
    (hup : PredClass.ofName? (upgradeClassName oldName) = some cls)
    (hd : alookup "data" kvs = some (.dict d))
    (hno : alookup "n_obs" d = none) (hns : alookup "_state_variables" d = none)
    (hdes : deserializeK d = .ok attrs)
    (hcs : alookup "cov_func" kvs = some cs) (hcov : covFromDict cs = .ok cov) :
    predFromDict (.dict kvs)
      = .ok ⟨cls, attrs ++ [("n_obs", .none),
              ("_state_variables", .set (((keysOf d ++ ["n_obs"]).filter (· != "n_input_features")).map .str))], cov⟩ := by
  have hpatch : legacyPatchData d = d ++ [("n_obs", .none)]
      ++ [("_state_variables", .set (((keysOf d ++ ["n_obs"]).filter (· != "n_input_features")).map .str))] := by
    have h2 : alookup "_state_variables" (d ++ [("n_obs", PyVal.none)]) = none := by
      rw [alookup_append_none _ _ _ hns]; simp [alookup]
    simp [legacyPatchData, hno, h2, keysOf_append, keysOf]
  have hdes' : deserializeK (legacyPatchData d)
      = .ok (attrs ++ [("n_obs", .none),
              ("_state_variables", .set (((keysOf d ++ ["n_obs"]).filter (· != "n_input_features")).map .str))]) := by
    rw [hpatch, List.append_assoc]
    apply deserializeK_append _ _ _ _ hdes
    simp [deserializeK, deserialize, strToNone]
  simp only [predFromDict, hmd, hn, hm, hver, hlt, hd, if_true, predClassLookup, hup]
  simp [predSetState, alookup_dictSet_same, alookup_dictSet_other "data" "cov_func" _ (by decide), hcs, hcov, hdes']

/-- The renaming and the version test on the concrete strings old files carry. -/
theorem legacy_names_and_versions :
    PredClass.ofName? (upgradeClassName "FullConditionalMean") = some .full
    ∧ PredClass.ofName? (upgradeClassName "ExpLandmarksConditionalMean") = some .expLm
    ∧ PredClass.ofName? (upgradeClassName "LandmarksConditionalMeanCholeskyTime") = some .cholTime
    ∧ PredClass.ofName? (upgradeClassName "FullConditional") = some .full
    ∧ versionLt14 "1.3.1" = some true ∧ versionLt14 "0.9" = some true ∧ versionLt14 "1.3.99" = some true
    ∧ versionLt14 "1.4.0" = some false ∧ versionLt14 "1.4" = some false ∧ versionLt14 "1.4.3" = some false
    ∧ versionLt14 "1.10.0" = some false ∧ versionLt14 "2" = some false := by
  refine ⟨by decide, by decide, by decide, by decide, ?_⟩
  simp [versionLt14, parseVersion, parseVersionAux, digitVal?, releaseLt]

/-- A current dict is not touched by the legacy path: it loads through `__setstate__` directly. -/
theorem current_version_not_patched (kvs md : List (String × PyVal)) (cls : PredClass) (name ver : String)
    (hmd : alookup "metadata" kvs = some (.dict md))
    (hn : metaStr md "classname" = .ok name) (hm : metaStr md "module_name" = .ok predModule)
    (hver : metaStr md "module_version" = .ok ver) (hge : versionLt14 ver = some false)
    (hcls : PredClass.ofName? name = some cls) :
    predFromDict (.dict kvs) = predSetState cls (.dict kvs) := by
  simp [predFromDict, hmd, hn, hm, hver, hge, predClassLookup, hcls]

/-! ### non-vacuity -/

/-- A small but complete predictor object: all hypotheses of the round-trip theorems hold for it. -/
def demo : Pred :=
  ⟨.chol,
   [("landmarks", .arr .f64 [2, 1] [.f 0x3ff0000000000000, .f 0x7ff8000000000000]),
    ("weights", .arr .f64 [2] [.f 0x0000000000000001, .f 0x8000000000000000]),
    ("mu", .float 0xbff0000000000000), ("jitter", .npFloat 0x3eb0c6f7a0b5ed8d),
    ("n_input_features", .int 1), ("n_obs", .npInt 40),
    ("_state_variables", .set [.str "landmarks", .str "weights", .str "mu", .str "jitter"])],
   .mulC (.matern52 (.float 0x3ff8000000000000) (.slice none (some (-1)) none)) (.int 2) .none⟩

example : ∃ data, predData demo = .ok data ∧ PyVal.WFK canonNaN data = true ∧ PyVal.WFK id data = true
    ∧ demo.cov.paramsWF canonNaN = true ∧ versionLt14 "1.4.3" = some false :=
  ⟨_, rfl, by decide, by decide, by decide,
    by simp [versionLt14, parseVersion, parseVersionAux, digitVal?, releaseLt]⟩

example : ∀ i ∈ (LVal.dict 3 [("a", .nparr 4 .f64 [1] [.f 0]), ("b", .list 5 [.atom (.int 1)])]).ids, i < 6 := by decide

end Mellon.C07
