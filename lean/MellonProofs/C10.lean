/-
  C10 — Requested rank or variance fraction is honoured by the rank reduction.
  Property theorems only (helpers in RankLemmas.lean).  Statements are about the model
  `Mellon.selectRank` / `selectEigs` / `lowRankFactor` (MellonModel/Rank.lean, a transcription of
  `mellon.decomposition._eigendecomposition` as it is after fix aba3265).

  `K` is an arbitrary linearly ordered field (so everything holds verbatim over `ℚ`, the type the
  driver evaluates the model at, and over `ℝ`).  `s` is the spectrum in descending order (`Desc s`,
  what `eigh` returns read from the back) and has at least one positive eigenvalue
  (`0 < countPos s`): without one the property itself is contradictory ("min(r, #positive) = 0
  directions" versus "at least one is kept"); there code and model refuse (`ValueError`, theorem
  `no_positive_refused`).

  `posTotal s` — the sum of the positive eigenvalues — is the "total" of the property (it is what
  the code normalises by); `total_eq_sum_of_nonneg` identifies it with the trace for PSD input.
-/
import MellonProofs.RankLemmas

namespace Mellon.C10
open Mellon Finset

set_option linter.unusedSectionVars false

section field
variable {K : Type} [Field K] [LinearOrder K] [IsStrictOrderedRing K]

/-! ### integer requests -/

/-- An integer request `r ≥ 1` keeps exactly `min(r, #positive eigenvalues)` directions. -/
theorem int_rank (s : List K) (hpos : 0 < countPos s) (r : Int) (hr : 1 ≤ r) :
    selectRank s (.int r) = some (min r.toNat (countPos s)) := by
  have hle := countPos_le_length s
  unfold selectRank
  have h0 : ¬ (countPos s = 0) := by omega
  simp only [h0, if_false]
  congr 1
  unfold sliceLast
  have h1 : ¬ (min r (countPos s : Int) = 0) := by omega
  have h2 : 0 < min r (countPos s : Int) := by omega
  simp only [h1, if_false, h2, if_true]
  omega

/-! ### fractional requests -/

/-- A fractional request `f ≤ 1` keeps the least `p ≥ 1` whose leading eigenvalues sum to at least
    `f · total`: the prefix of length `p` reaches the target and no shorter non-empty prefix does.
    (`p ≤ #positive`, so only positive eigenvalues are ever kept.) -/
theorem frac_rank (s : List K) (hd : Desc s) (hpos : 0 < countPos s) (f : K) (hf : f ≤ 1) :
    ∃ p, selectRank s (.frac f) = some p ∧ 1 ≤ p ∧ p ≤ countPos s ∧
      posTotal s * f ≤ prefixSum s p ∧
      ∀ q, 1 ≤ q → q < p → prefixSum s q < posTotal s * f := by
  obtain ⟨h1, h2, h3⟩ := searchLeft_cumsum (0 : K) (posTotal s * f) (s.take (countPos s))
  have hlen := take_countPos_length s
  rw [hlen] at h2 h3
  have htot := posTotal_pos s hd hpos
  -- the search stops inside the array because the last cumulative sum is the total ≥ f·total
  have hk : searchLeft (cumsumFrom 0 (s.take (countPos s))) (posTotal s * f) < countPos s := by
    by_contra hge
    have := h1 (countPos s) hpos (not_lt.mp hge)
    rw [List.take_take, Nat.min_self, zero_add, ← posTotal_eq] at this
    have hle1 := mul_le_mul_of_nonneg_left hf (le_of_lt htot)
    rw [mul_one] at hle1
    linarith
  refine ⟨searchLeft (cumsumFrom 0 (s.take (countPos s))) (posTotal s * f) + 1, ?_, by omega, by omega,
    ?_, ?_⟩
  · rw [selectRank_frac_eq s f hpos]; unfold cumsum; congr 1; omega
  · have := h2 hk
    rw [List.take_take, zero_add, Nat.min_eq_left hk] at this
    rw [prefixSum_eq]
    exact this
  · intro q hq1 hq2
    have := h1 q hq1 (by omega)
    rw [List.take_take, zero_add, Nat.min_eq_left (by omega)] at this
    exact this

/-- The array handed to `searchsorted` is non-decreasing (cumulative sums of positive numbers), and
    on it the model's scan returns what NumPy specifies for `side='left'`: the number of entries
    `< target`.  (So binary search — what `jnp.searchsorted` runs — and the scan agree.) -/
theorem searchsorted_is_numpy_left (s : List K) (hd : Desc s) (t : K) :
    (cumsum (s.take (countPos s))).Pairwise (fun a b => a ≤ b) ∧
    searchLeft (cumsum (s.take (countPos s))) t
      = (cumsum (s.take (countPos s))).countP (fun x => decide (x < t)) := by
  have h : (cumsum (s.take (countPos s))).Pairwise (fun a b => a ≤ b) :=
    cumsumFrom_sorted 0 _ (fun x hx => le_of_lt (take_countPos_pos s hd x hx))
  exact ⟨h, searchLeft_eq_countP _ h t⟩

/-- A float request above 1 (e.g. `2.0`) keeps every positive eigenvalue. -/
theorem frac_rank_above_one (s : List K) (hd : Desc s) (hpos : 0 < countPos s) (f : K) (hf : 1 < f) :
    selectRank s (.frac f) = some (countPos s) := by
  obtain ⟨h1, h2, h3⟩ := searchLeft_cumsum (0 : K) (posTotal s * f) (s.take (countPos s))
  have hlen := take_countPos_length s
  rw [hlen] at h2 h3
  have htot := posTotal_pos s hd hpos
  rw [selectRank_frac_eq s f hpos]; congr 1
  have hk : ¬ searchLeft (cumsumFrom 0 (s.take (countPos s))) (posTotal s * f) < countPos s := by
    intro hk
    have := h2 hk
    rw [zero_add] at this
    have hmono := take_sum_mono (s.take (countPos s))
      (searchLeft (cumsumFrom 0 (s.take (countPos s))) (posTotal s * f) + 1) (countPos s) hk
      (fun x hx => le_of_lt (take_countPos_pos s hd x (List.mem_of_mem_take hx)))
    rw [List.take_take, List.take_take, Nat.min_self, ← posTotal_eq] at hmono
    rw [List.take_take] at this
    have hgt := mul_lt_mul_of_pos_left hf htot
    rw [mul_one] at hgt
    linarith
  unfold cumsum
  omega

/-- The fraction of the total retained is at least the requested one. -/
theorem retained_ge (s : List K) (hd : Desc s) (hpos : 0 < countPos s) (f : K) (hf : f ≤ 1)
    (p : Nat) (hp : selectRank s (.frac f) = some p) :
    f * posTotal s ≤ prefixSum s p := by
  obtain ⟨p', h, _, _, hge, _⟩ := frac_rank s hd hpos f hf
  rw [hp] at h; cases h
  rw [mul_comm]; exact hge

/-- Dropping one more direction falls below the requested fraction. -/
theorem one_less_falls_below (s : List K) (hd : Desc s) (hpos : 0 < countPos s) (f : K) (hf : f ≤ 1)
    (p : Nat) (hp : selectRank s (.frac f) = some p) (hp1 : 1 < p) :
    prefixSum s (p - 1) < f * posTotal s := by
  obtain ⟨p', h, _, _, _, hlt⟩ := frac_rank s hd hpos f hf
  rw [hp] at h; cases h
  rw [mul_comm]; exact hlt (p - 1) (by omega) (by omega)

/-- The kept count is the least one reaching the target: any `q ≥ 1` whose prefix reaches
    `f · total` is at least as long. -/
theorem frac_rank_least (s : List K) (hd : Desc s) (hpos : 0 < countPos s) (f : K) (hf : f ≤ 1)
    (p : Nat) (hp : selectRank s (.frac f) = some p) (q : Nat) (hq : 1 ≤ q)
    (hreach : f * posTotal s ≤ prefixSum s q) : p ≤ q := by
  obtain ⟨p', h, _, _, _, hlt⟩ := frac_rank s hd hpos f hf
  rw [hp] at h; cases h
  by_contra hlt'
  have := hlt q hq (by omega)
  rw [mul_comm] at hreach
  exact absurd hreach (not_le.mpr this)

/-- For positive semi-definite input the total is the sum of all eigenvalues (the trace). -/
theorem total_eq_sum_of_nonneg (s : List K) (hd : Desc s) (hnn : ∀ x ∈ s, 0 ≤ x) :
    posTotal s = s.sum := by
  rw [posTotal_eq]
  conv_rhs => rw [← List.take_append_drop (countPos s) s]
  rw [List.sum_append]
  have hz : ∀ x ∈ s.drop (countPos s), x = 0 := fun x hx =>
    le_antisymm (drop_countPos_nonpos s hd x hx) (hnn x (List.mem_of_mem_drop hx))
  have : (s.drop (countPos s)).sum = 0 := by
    generalize s.drop (countPos s) = l at hz
    induction l with
    | nil => simp
    | cons a as ih =>
      rw [List.sum_cons, hz a (by simp), ih (fun y hy => hz y (by simp [hy]))]; simp
  rw [this, add_zero]

/-! ### non-vacuity: the hypotheses hold for the spectrum of the (fixed) defect's witness, and the
    routine now keeps 2 directions for `f = 0.8` (80 % retained; the unfixed code kept 1) -/

example : Desc ([5, 3, 1, 1/2, 1/2] : List ℚ) ∧ 0 < countPos ([5, 3, 1, 1/2, 1/2] : List ℚ) := by
  constructor
  · unfold Desc; norm_num
  · norm_num [countPos]

example : selectRank ([5, 3, 1, 1/2, 1/2] : List ℚ) (.frac (4/5)) = some 2 := by
  norm_num [selectRank, countPos, cumsum, cumsumFrom, searchLeft, sliceLast]
  rfl

example : selectRank ([5, 3, 1, 1/2, 1/2] : List ℚ) (.frac (99/100)) = some 5 := by
  norm_num [selectRank, countPos, cumsum, cumsumFrom, searchLeft, sliceLast]
  rfl

example : selectRank ([5, 3, 0, -1] : List ℚ) (.int 3) = some 2 := by
  norm_num [selectRank, countPos, sliceLast]
  rfl

/-- A spectrum without a positive eigenvalue is refused whatever the request (the `ValueError` of
    `_eigendecomposition`): nothing is returned, in particular no non-positive "direction". -/
theorem no_positive_refused (s : List K) (h : countPos s = 0) (req : RankReq K) :
    selectRank s req = none := by
  cases req with
  | int r => simp [selectRank, h]
  | frac f => simp [selectRank, h, cumsum, cumsumFrom]

example : selectRank ([0, 0, -1] : List ℚ) (.int 2) = none ∧ selectRank ([0, 0, -1] : List ℚ) (.frac (1/2)) = none := by
  constructor <;> norm_num [selectRank, countPos, cumsum, cumsumFrom]

/-! ### at least one, never more than the positive ones, the largest ones -/

/-- Every request of the property's domain keeps at least one and at most `#positive` directions. -/
theorem at_least_one (s : List K) (hd : Desc s) (hpos : 0 < countPos s) (req : RankReq K)
    (hreq : match req with | .int r => 1 ≤ r | .frac _ => True) :
    ∃ p, selectRank s req = some p ∧ 1 ≤ p ∧ p ≤ countPos s := by
  cases req with
  | int r =>
    refine ⟨_, int_rank s hpos r hreq, ?_, ?_⟩ <;> omega
  | frac f =>
    by_cases hf : f ≤ 1
    · obtain ⟨p, h, h1, h2, _⟩ := frac_rank s hd hpos f hf
      exact ⟨p, h, h1, h2⟩
    · exact ⟨_, frac_rank_above_one s hd hpos f (not_le.mp hf), hpos, le_refl _⟩

/-- The retained eigenvalues are the leading block of the descending spectrum: all positive, and
    each at least as large as every dropped eigenvalue. -/
theorem largest_kept (s : List K) (hd : Desc s) (hpos : 0 < countPos s) (req : RankReq K)
    (hreq : match req with | .int r => 1 ≤ r | .frac _ => True) :
    ∃ p, selectEigs s req = some (s.take p) ∧ 1 ≤ p ∧
      (∀ x ∈ s.take p, 0 < x) ∧ (∀ x ∈ s.take p, ∀ y ∈ s.drop p, y ≤ x) := by
  obtain ⟨p, h, h1, h2⟩ := at_least_one s hd hpos req hreq
  refine ⟨p, by simp [selectEigs, h], h1, ?_, ?_⟩
  · intro x hx
    apply take_countPos_pos s hd x
    have : s.take p = (s.take (countPos s)).take p := by
      rw [List.take_take, Nat.min_eq_left h2]
    rw [this] at hx
    exact List.mem_of_mem_take hx
  · intro x hx y hy
    have hd' : (s.take p ++ s.drop p).Pairwise (fun a b => b ≤ a) := by
      rw [List.take_append_drop]; exact hd
    exact (List.pairwise_append.mp hd').2.2 x hx y hy

/-! ### a larger request never keeps less -/

theorem monotone_request_int (s : List K) (hpos : 0 < countPos s) (r r' : Int) (hr : 1 ≤ r)
    (hrr : r ≤ r') :
    ∃ p p', selectRank s (.int r) = some p ∧ selectRank s (.int r') = some p' ∧ p ≤ p' := by
  refine ⟨_, _, int_rank s hpos r hr, int_rank s hpos r' (by omega), ?_⟩
  omega

theorem monotone_request_frac (s : List K) (hd : Desc s) (hpos : 0 < countPos s) (f f' : K)
    (hff : f ≤ f') :
    ∃ p p', selectRank s (.frac f) = some p ∧ selectRank s (.frac f') = some p' ∧ p ≤ p' := by
  have htot := posTotal_pos s hd hpos
  by_cases hf' : f' ≤ 1
  · obtain ⟨p, h, _, _, _, _⟩ := frac_rank s hd hpos f (le_trans hff hf')
    obtain ⟨p', h', h1', _, hge', _⟩ := frac_rank s hd hpos f' hf'
    refine ⟨p, p', h, h', ?_⟩
    apply frac_rank_least s hd hpos f (le_trans hff hf') p h p' h1'
    have : f * posTotal s ≤ f' * posTotal s := mul_le_mul_of_nonneg_right hff (le_of_lt htot)
    rw [mul_comm f'] at this
    exact le_trans this hge'
  · obtain ⟨p, h, _, h2⟩ := at_least_one s hd hpos (.frac f) trivial
    exact ⟨p, _, h, frac_rank_above_one s hd hpos f' (not_le.mp hf'), h2⟩

/-- Keeping more (positive) directions retains at least as much variance, i.e. the dropped tail
    mass can only shrink. -/
theorem monotone_retained (s : List K) (hd : Desc s) (p p' : Nat) (hpp : p ≤ p')
    (hp' : p' ≤ countPos s) : prefixSum s p ≤ prefixSum s p' := by
  rw [prefixSum_eq, prefixSum_eq]
  apply take_sum_mono s p p' hpp
  intro x hx
  apply le_of_lt (take_countPos_pos s hd x _)
  have : s.take p' = (s.take (countPos s)).take p' := by
    rw [List.take_take, Nat.min_eq_left hp']
  rw [this] at hx
  exact List.mem_of_mem_take hx

end field

/-! ### the retained factor reproduces the kept eigenpairs (given the `eigh` contract) -/

section real

/-- Non-vacuity of the `eigh` contract: the identity matrix has orthonormal columns. -/
example : OrthoCols (Mat.ofFn (n := 2) (m := 2) fun i j => if i = j then (1 : ℝ) else 0) := by
  intro c k hc hk
  interval_cases c <;> interval_cases k <;> simp [Finset.sum_range_succ]

/-- `L Lᵀ vₖ = sₖ vₖ` for every kept `k < p`, where `L = V_p √S_p` (`lowRankFactor`), the columns of
    `V` are orthonormal and the kept eigenvalues are non-negative (they are positive by
    `largest_kept`). -/
theorem reproduces_eigenpairs {n : Nat} (V : Mat ℝ n n) (s : Vector ℝ n) (hV : OrthoCols V)
    (p : Nat) (hp : p ≤ n) (hs : ∀ c, c < p → 0 ≤ s.nth c) (i k : Nat) (hi : i < n) (hk : k < p) :
    ∑ j ∈ range n, gramLow V s p i j * V.el j k = s.nth k * V.el i k := by
  rw [← spectral_apply V s hV p hp i k hk]
  apply Finset.sum_congr rfl
  intro j hj
  rw [gramLow_eq V s p hs i j hi (mem_range.mp hj)]

/-- The same pairs are eigenpairs of `A` itself (this is just the `eigh` contract read column-wise),
    so `L Lᵀ` and `A` act identically on every kept eigenvector. -/
theorem same_eigenpairs_as_A {n : Nat} (A V : Mat ℝ n n) (s : Vector ℝ n) (hV : OrthoCols V)
    (hA : EigDecomp A V s) (p : Nat) (hp : p ≤ n) (hs : ∀ c, c < p → 0 ≤ s.nth c)
    (i k : Nat) (hi : i < n) (hk : k < p) :
    ∑ j ∈ range n, gramLow V s p i j * V.el j k = ∑ j ∈ range n, A.el i j * V.el j k := by
  rw [reproduces_eigenpairs V s hV p hp hs i k hi hk,
    ← spectral_apply V s hV n (le_refl n) i k (lt_of_lt_of_le hk hp)]
  apply Finset.sum_congr rfl
  intro j hj
  rw [hA i j hi (mem_range.mp hj)]

/-- What is lost is exactly the dropped tail: `A − L Lᵀ = ∑_{c ≥ p} s_c v_c v_cᵀ`. -/
theorem residual_eq_tail {n : Nat} (A V : Mat ℝ n n) (s : Vector ℝ n) (hA : EigDecomp A V s)
    (p : Nat) (hp : p ≤ n) (hs : ∀ c, c < p → 0 ≤ s.nth c) (i j : Nat) (hi : i < n) (hj : j < n) :
    A.el i j - gramLow V s p i j = ∑ c ∈ Ico p n, V.el i c * s.nth c * V.el j c := by
  rw [hA i j hi hj, gramLow_eq V s p hs i j hi hj, Finset.range_eq_Ico,
    ← Finset.sum_Ico_consecutive _ (Nat.zero_le p) hp, ← Finset.range_eq_Ico]
  ring

/-- The quadratic form of `L Lᵀ` is `∑_{c<p} s_c (v_c·x)²`. -/
theorem quadform_eq {n : Nat} (V : Mat ℝ n n) (s : Vector ℝ n) (p : Nat)
    (hs : ∀ c, c < p → 0 ≤ s.nth c) (x : Nat → ℝ) :
    ∑ i ∈ range n, ∑ j ∈ range n, x i * gramLow V s p i j * x j
      = ∑ c ∈ range p, s.nth c * (∑ i ∈ range n, V.el i c * x i) ^ 2 := by
  have e : ∀ i ∈ range n, ∀ j ∈ range n, x i * gramLow V s p i j * x j
      = ∑ c ∈ range p, s.nth c * ((V.el i c * x i) * (V.el j c * x j)) := by
    intro i hi j hj
    rw [gramLow_eq V s p hs i j (mem_range.mp hi) (mem_range.mp hj), Finset.mul_sum, Finset.sum_mul]
    apply Finset.sum_congr rfl; intro c _; ring
  rw [Finset.sum_congr rfl (fun i hi => Finset.sum_congr rfl (e i hi))]
  have : ∀ i ∈ range n, ∑ j ∈ range n, ∑ c ∈ range p, s.nth c * ((V.el i c * x i) * (V.el j c * x j))
      = ∑ c ∈ range p, ∑ j ∈ range n, s.nth c * ((V.el i c * x i) * (V.el j c * x j)) :=
    fun i _ => Finset.sum_comm
  rw [Finset.sum_congr rfl this, Finset.sum_comm]
  apply Finset.sum_congr rfl; intro c _
  rw [sq, Finset.sum_mul_sum, Finset.mul_sum]
  apply Finset.sum_congr rfl; intro i _
  rw [Finset.mul_sum]

/-- A larger request never yields a worse approximation: in the Loewner order
    `L_p L_pᵀ ⪯ L_p' L_p'ᵀ` whenever `p ≤ p'` and the added eigenvalues are non-negative (they are
    positive, `kept ≤ #positive`); together with `residual_eq_tail` the error `A − L Lᵀ` shrinks. -/
theorem monotone_approximation {n : Nat} (V : Mat ℝ n n) (s : Vector ℝ n) (p p' : Nat) (hpp : p ≤ p')
    (hs : ∀ c, c < p' → 0 ≤ s.nth c) (x : Nat → ℝ) :
    ∑ i ∈ range n, ∑ j ∈ range n, x i * gramLow V s p i j * x j
      ≤ ∑ i ∈ range n, ∑ j ∈ range n, x i * gramLow V s p' i j * x j := by
  rw [quadform_eq V s p (fun c hc => hs c (lt_of_lt_of_le hc hpp)) x, quadform_eq V s p' hs x]
  apply Finset.sum_le_sum_of_subset_of_nonneg
  · intro c hc; exact mem_range.mpr (lt_of_lt_of_le (mem_range.mp hc) hpp)
  · intro c hc _
    exact mul_nonneg (hs c (mem_range.mp hc)) (sq_nonneg _)

end real

end Mellon.C10
