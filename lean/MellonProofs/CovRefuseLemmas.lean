/-
  Helper lemmas for the refusal theorems of C19: `Covariance.from_dict` (model `covFromDict`) ends in a
  kernel, in `ValueError`, or — for inputs outside the fragment the model covers — in `unmodelled`;
  never in an internal error (`KeyError`, `AttributeError`) or a `TypeError`.
-/
import MellonProofs.SerialLemmas

namespace Mellon

/-- Outcomes allowed for a decoder of serialised kernels: success, `ValueError`, or the model's own
    `unmodelled` mark (which is not an outcome of the code). -/
def PyErr.refusal : PyErr → Bool
  | .valueError _ => true
  | .unmodelled _ => true
  | _ => false

def refusing {α : Type} : PyM α → Bool
  | .ok _ => true
  | .error e => e.refusal

theorem refusal_of {α : Type} {r : PyM α} {e : PyErr} (hr : refusing r = true) (h : r = .error e) :
    e.refusal = true := by
  subst h; exact hr

theorem refusing_refuseMalformed {α : Type} (r : PyM α) : refusing (refuseMalformed r) = true := by
  rcases r with e | a
  · cases e <;> rfl
  · rfl

theorem refusing_map {α β : Type} (f : α → β) (r : PyM α) : refusing (r.map f) = refusing r := by
  rcases r with e | a
  · cases e <;> rfl
  · rfl

theorem refusing_ite {α : Type} (c : Prop) [Decidable c] (a b : PyM α) (ha : refusing a = true)
    (hb : refusing b = true) : refusing (if c then a else b) = true := by
  split <;> assumption

theorem refusing_covClass (c mo : String) : refusing (covClass c mo) = true := by
  unfold covClass
  repeat' (first | apply refusing_ite | rfl)

theorem refusing_strField (key : String) (kvs : List (String × PyVal)) : refusing (strField key kvs) = true := by
  unfold strField
  split <;> rfl

theorem refusing_stateClass (kvs : List (String × PyVal)) : refusing (stateClass kvs) = true := by
  unfold stateClass
  split
  · split
    · next e h => exact refusal_of (refusing_strField "classname" _) h
    · split
      · next e h => exact refusal_of (refusing_strField "module_name" _) h
      · exact refusing_covClass _ _
  · rfl
  · rfl

theorem refusing_deserAd (v : Option PyVal) : refusing (deserAd v) = true := by
  unfold deserAd
  split
  · next e h => exact refusal_of (refusing_refuseMalformed (deserialize (v.getD .none))) h
  · split <;> rfl

theorem refusing_buildPair (k : PairKind) (l : Cov PyVal) (r : Sum (Cov PyVal) PyVal) (ad : ActiveDims) :
    refusing (buildPair k l r ad) = true := by
  unfold buildPair
  split <;> rfl

theorem refusing_leafFromState (k : LeafKind) (kvs : List (String × PyVal)) :
    refusing (leafFromState k kvs) = true := by
  unfold leafFromState
  split
  · rfl
  · split
    · next e h => exact refusal_of (refusing_refuseMalformed (deserializeK _)) h
    · dsimp only
      repeat' split
      all_goals rfl
  · rfl

mutual
theorem refusing_covFromDict : ∀ v : PyVal, refusing (covFromDict v) = true
  | .dict kvs => by
    unfold covFromDict
    split
    · rfl
    · split
      · next e h => exact refusal_of (refusing_stateClass kvs) h
      · exact refusing_leafFromState _ _
      · split
        · next e h => exact refusal_of (refusing_covFromKey "left_data" kvs) h
        · split
          · next e h => exact refusal_of (refusing_covRightFromKey kvs) h
          · split
            · next e h => exact refusal_of (refusing_deserAd (alookup "active_dims" kvs)) h
            · exact refusing_buildPair _ _ _ _
  | .none | .bool _ | .int _ | .float _ | .str _ | .npInt _ | .npFloat _ | .npBool _ | .arr _ _ _
  | .slice _ _ _ | .set _ | .list _ | .tuple _ | .opaque _ => rfl
theorem refusing_covFromKey (key : String) : ∀ kvs : List (String × PyVal), refusing (covFromKey key kvs) = true
  | [] => rfl
  | (k, v) :: rest => by
    unfold covFromKey
    split
    · exact refusing_covFromDict v
    · exact refusing_covFromKey key rest
theorem refusing_covRightFromKey : ∀ kvs : List (String × PyVal), refusing (covRightFromKey kvs) = true
  | [] => rfl
  | (k, v) :: rest => by
    unfold covRightFromKey
    split
    · split
      · rw [refusing_map]; exact refusing_covFromDict v
      · rw [refusing_map]; exact refusing_refuseMalformed _
    · exact refusing_covRightFromKey rest
end

end Mellon
