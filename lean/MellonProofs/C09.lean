/-
  C09 — All GP types approximate the same Gaussian process.
  Property theorems only (α = ℝ).  `K` is the kernel matrix on the cells, `K̃ = K + jitter·I`.
-/
import MellonProofs.C04
import MellonProofs.C06
import Mathlib.LinearAlgebra.Matrix.Trace

open Matrix Finset

namespace Mellon.C09
open Mellon

variable {n d c : Nat}

/-- **Cholesky-latent = full.** With inducing points = cells, the factor `L` of `K̃` and a latent
    vector `z` with `L z = y − mu` (what the estimators hand over: fitted values `L z + mu`), the
    latent predictor's weights solve the *same* normal equations `K̃ w = y − mu` as the full GP. -/
theorem latent_eq_full {cov : Cov ℝ} {x : Mat ℝ n d} {z r : Mat ℝ n c} {mu : ℝ} {nObs : Nat}
    {L K' : Mat ℝ n n} (hchol : IsCholOf L K') (hsym : (toM K').IsSymm)
    (hz : toM L * toM z = toM r) {sigma : Sigma ℝ n} {jitter : ℝ} {yIsMean : Bool}
    {s : CondState ℝ n d c}
    (h : lmCholCondInit cov x z mu nObs (some L) sigma jitter yIsMean false = .ok s) :
    toM K' * toM s.weights = toM r := by
  obtain ⟨hw, _, _⟩ := C01.latent_weights_solve_given hchol.lowerNonsing h
  rw [← hchol.mul_transpose hsym, Matrix.mul_assoc, hw, hz]

/-- **DTC vs full, inducing points = cells.** If `K̃ w_f = r` (full GP) and
    `(jitter·K̃ + K Kᵀ) w = K r` (DTC, `K` symmetric), then
    `(jitter·K̃ + K²)(w_f − w) = jitter² · w_f`: the two differ by an explicit `O(jitter²)` term. -/
theorem dtc_vs_full (K : Matrix (Fin n) (Fin n) ℝ) (hK : K.IsSymm) (j : ℝ)
    (wf w r : Matrix (Fin n) (Fin c) ℝ)
    (hfull : (K + j • (1 : Matrix (Fin n) (Fin n) ℝ)) * wf = r)
    (hdtc : (j • (K + j • (1 : Matrix (Fin n) (Fin n) ℝ)) + K * Kᵀ) * w = K * r) :
    (j • (K + j • (1 : Matrix (Fin n) (Fin n) ℝ)) + K * Kᵀ) * (wf - w) = (j * j) • wf := by
  have hKw : K * wf = r - j • wf := by
    have := hfull
    rw [Matrix.add_mul, Matrix.smul_mul, Matrix.one_mul] at this
    rw [← this]; abel
  rw [Matrix.mul_sub, hdtc, hK.eq]
  have : (j • (K + j • (1 : Matrix (Fin n) (Fin n) ℝ)) + K * K) * wf = K * r + (j * j) • wf := by
    rw [Matrix.add_mul, Matrix.smul_mul, hfull, Matrix.mul_assoc, hKw, Matrix.mul_sub, Matrix.mul_smul, hKw]
    rw [smul_sub, smul_smul]
    abel
  rw [this]; abel

/-- The DTC equation of `dtc_vs_full` is the one `_LandmarksConditional` solves when the inducing
    points are the cells and the values are the mean. -/
theorem dtc_U_eq_X {cov : Cov ℝ} {x : Mat ℝ n d} {y : Mat ℝ n c} {mu : ℝ} {sigma : Sigma ℝ n} {jitter : ℝ}
    {ycf : Option (AnyMat ℝ)} {withUnc : Bool} {s : CondState ℝ n d c}
    (h : lmCondInit cov x x y mu sigma jitter ycf true withUnc = .ok s) :
    (jitter • (toM (gram cov x x) + jitter • (1 : Matrix (Fin n) (Fin n) ℝ))
        + toM (gram cov x x) * (toM (gram cov x x))ᵀ) * toM s.weights
      = toM (gram cov x x) * toM (residual y mu) := by
  obtain ⟨L, N, hLLt, hN, hsolve, _, _, _⟩ := C01.dtc_weights_solve h (C01.perCell_mean sigma ycf)
  have hNj : N = jitter • (1 : Matrix (Fin n) (Fin n) ℝ) := by
    unfold C01.dtcNoise at hN
    simp only [if_true] at hN
    exact (Except.ok.inj hN).symm
  rw [hNj] at hsolve
  have hM : toM L * (jitter • (1 : Matrix (Fin n) (Fin n) ℝ)) * (toM L)ᵀ
      = jitter • (toM (gram cov x x) + jitter • (1 : Matrix (Fin n) (Fin n) ℝ)) := by
    rw [Matrix.mul_smul, Matrix.mul_one, Matrix.smul_mul, hLLt]
  rw [hM] at hsolve
  exact hsolve

/-- **DTC vs full GP with per-cell noise, inducing points = cells.**  With one noise level per cell,
    `D = diag(dᵢ)` (`dᵢ = max(σᵢ², jitter) ≠ 0`), the full weights `(K + D) w_f = r` and the inducing-point weights
    `(K̃ + K D⁻¹ K) w = K D⁻¹ r` (`K̃ = K + jitter·I`) satisfy `(K̃ + K D⁻¹ K)(w_f − w) = jitter · w_f`: the two models
    differ by an explicit `O(jitter)` term. -/
theorem dtc_percell_vs_full (K : Matrix (Fin n) (Fin n) ℝ) (hK : K.IsSymm) (j : ℝ) (D Dinv : Fin n → ℝ)
    (hD : ∀ i, Dinv i * D i = 1) (wf w r : Matrix (Fin n) (Fin c) ℝ)
    (hfull : (K + Matrix.diagonal D) * wf = r)
    (hdtc : (K + j • (1 : Matrix (Fin n) (Fin n) ℝ) + K * Matrix.diagonal Dinv * Kᵀ) * w
        = K * Matrix.diagonal Dinv * r) :
    (K + j • (1 : Matrix (Fin n) (Fin n) ℝ) + K * Matrix.diagonal Dinv * Kᵀ) * (wf - w) = j • wf := by
  have hDD : Matrix.diagonal Dinv * Matrix.diagonal D = (1 : Matrix (Fin n) (Fin n) ℝ) := by
    rw [Matrix.diagonal_mul_diagonal]
    have : (fun i => Dinv i * D i) = fun _ : Fin n => (1 : ℝ) := funext hD
    rw [this, Matrix.diagonal_one]
  have hKw : K * wf = r - Matrix.diagonal D * wf := by
    have := hfull
    rw [Matrix.add_mul] at this
    rw [← this]; abel
  rw [Matrix.mul_sub, hdtc, hK.eq]
  have : (K + j • (1 : Matrix (Fin n) (Fin n) ℝ) + K * Matrix.diagonal Dinv * K) * wf
      = K * Matrix.diagonal Dinv * r + j • wf := by
    rw [Matrix.add_mul, Matrix.add_mul, Matrix.smul_mul, Matrix.one_mul, Matrix.mul_assoc (K * Matrix.diagonal Dinv), hKw,
      Matrix.mul_sub, Matrix.mul_assoc K (Matrix.diagonal Dinv) (Matrix.diagonal D * wf), ← Matrix.mul_assoc (Matrix.diagonal Dinv),
      hDD, Matrix.one_mul, hKw]
    abel
  rw [this]; abel

/-- The inducing-point equation of `dtc_percell_vs_full` is the one `_LandmarksConditional` solves when the inducing
    points are the cells and `sigma` is a per-cell vector (`FunctionEstimator(gp_type='fixed', landmarks = cells,
    sigma = vector)`): instance of `C01.dtc_percell_weights_solve`. -/
theorem dtc_percell_U_eq_X {cov : Cov ℝ} {x : Mat ℝ n d} {y : Mat ℝ n c} {mu : ℝ} {v : Vector ℝ n} {jitter : ℝ}
    {withUnc : Bool} {s : CondState ℝ n d c}
    (h : lmCondInit cov x x y mu (.vec v) jitter Option.none false withUnc = .ok s) :
    (toM (gram cov x x) + jitter • (1 : Matrix (Fin n) (Fin n) ℝ)
        + toM (gram cov x x) * Matrix.diagonal (fun i : Fin n => (max (v.nth i * v.nth i) jitter)⁻¹)
            * (toM (gram cov x x))ᵀ) * toM s.weights
      = toM (gram cov x x) * Matrix.diagonal (fun i : Fin n => (max (v.nth i * v.nth i) jitter)⁻¹)
          * toM (residual y mu) :=
  (C01.dtc_percell_weights_solve h).1

/-- **'fixed' with landmarks = cells vs 'full'.** The inducing-point factor has
    `L Lᵀ = K K̃⁻¹ K`, so `K̃ − L Lᵀ = 2·jitter·I − jitter²·K̃⁻¹` (of norm at most `2·jitter`). -/
theorem fixed_vs_full (K : Matrix (Fin n) (Fin n) ℝ) (j : ℝ)
    (hdet : IsUnit (K + j • (1 : Matrix (Fin n) (Fin n) ℝ)).det) :
    (K + j • (1 : Matrix (Fin n) (Fin n) ℝ))
        - K * (K + j • (1 : Matrix (Fin n) (Fin n) ℝ))⁻¹ * K
      = (2 * j) • (1 : Matrix (Fin n) (Fin n) ℝ) - (j * j) • (K + j • (1 : Matrix (Fin n) (Fin n) ℝ))⁻¹ := by
  set Kt := K + j • (1 : Matrix (Fin n) (Fin n) ℝ) with hKt
  have hK : K = Kt - j • (1 : Matrix (Fin n) (Fin n) ℝ) := by rw [hKt]; abel
  have h1 : Kt * Kt⁻¹ = 1 := Matrix.mul_nonsing_inv _ hdet
  have h2 : Kt⁻¹ * Kt = 1 := Matrix.nonsing_inv_mul _ hdet
  rw [hK]
  simp only [Matrix.sub_mul, Matrix.mul_sub, Matrix.smul_mul, Matrix.mul_smul, Matrix.one_mul, Matrix.mul_one,
    h1, h2, Matrix.mul_assoc]
  rw [show (2 * j) • (1 : Matrix (Fin n) (Fin n) ℝ) = j • 1 + j • 1 by rw [two_mul, add_smul]]
  rw [smul_sub, smul_smul]
  abel

/-- The factor of `fixed_vs_full` is the one `compute_L(gp_type='fixed', landmarks = cells)`
    returns: `L Lᵀ = K K̃⁻¹ K` (instance of C04.inducing_LLt). -/
theorem fixed_LLt_U_eq_X {cov : Cov ℝ} {x : Mat ℝ n d} {jitter : ℝ} (hj : 0 ≤ jitter) {L : Mat ℝ n n}
    (h : standardLowRank cov x x Option.none 0 jitter = some L) :
    toM L * (toM L)ᵀ
      = toM (gram cov x x) * (toM (gram cov x x) + jitter • (1 : Matrix (Fin n) (Fin n) ℝ))⁻¹
          * toM (gram cov x x) := by
  have := C04.inducing_LLt h
  simpa [max_eq_right hj] using this

/-- **Posterior covariance.** The covariance routine is one and the same function of
    `(kernel, basis points, L)` in all three families — with identical basis points and factor the
    posterior covariances coincide. -/
theorem cov_same_expression {m : Nat} (s s' : CondState ℝ m d c) (hcov : s.cov = s'.cov) (hxb : s.xb = s'.xb)
    (hL : s.L = s'.L) {q : Nat} (Xq : Mat ℝ q d) : s.covariance Xq = s'.covariance Xq := by
  unfold CondState.covariance CondState.covA
  rw [hcov, hxb, hL]

/-- **Rank reduction.** With orthonormal eigenvectors the trace of the approximation error is the
    discarded eigenvalue mass … -/
theorem truncation_trace (V : Matrix (Fin n) (Fin n) ℝ) (s : Fin n → ℝ) (keep : Fin n → Bool)
    (horth : Vᵀ * V = 1) :
    Matrix.trace (V * Matrix.diagonal s * Vᵀ
        - V * Matrix.diagonal (fun i => if keep i then s i else 0) * Vᵀ)
      = ∑ i, if keep i then 0 else s i := by
  have e : V * Matrix.diagonal s * Vᵀ - V * Matrix.diagonal (fun i => if keep i then s i else 0) * Vᵀ
      = V * Matrix.diagonal (fun i => if keep i then 0 else s i) * Vᵀ := by
    rw [← Matrix.sub_mul, ← Matrix.mul_sub]
    congr 2
    ext i j
    simp only [Matrix.sub_apply, Matrix.diagonal_apply]
    by_cases hij : i = j
    · subst hij; cases keep i <;> simp
    · simp [hij]
  rw [e, Matrix.trace_mul_cycle, horth, Matrix.one_mul, Matrix.trace_diagonal]

/-- … so a full-rank request (nothing discarded) coincides with the un-reduced matrix. -/
theorem full_rank_request (V : Matrix (Fin n) (Fin n) ℝ) (s : Fin n → ℝ) :
    V * Matrix.diagonal (fun i => if (fun _ : Fin n => true) i then s i else 0) * Vᵀ
      = V * Matrix.diagonal s * Vᵀ := by
  simp

/-- **The projection does not depend on the order of the inducing points.**  If `xu'` lists the rows of `xu` in another
    order (`σ` a permutation), the inducing-point factors of the two runs have the same `L Lᵀ` — in particular
    `gp_type='fixed'` with the cells themselves as landmarks, in any order, is one and the same model. -/
theorem inducing_order_irrelevant {cov : Cov ℝ} {x : Mat ℝ n d} {xu xu' : Mat ℝ m d} {sigma jitter : ℝ}
    {L L' : Mat ℝ n m} (σ : Equiv.Perm (Fin m)) (hrows : ∀ i : Fin m, xu'.row i = xu.row (σ i))
    (h : standardLowRank cov x xu Option.none sigma jitter = some L)
    (h' : standardLowRank cov x xu' Option.none sigma jitter = some L') :
    toM L' * (toM L')ᵀ = toM L * (toM L)ᵀ := by
  rw [C04.inducing_LLt h, C04.inducing_LLt h']
  set s := max (sigma * sigma) jitter
  have hxu : toM (gram cov x xu') = (toM (gram cov x xu)).submatrix id σ := by
    ext i j
    simp only [toM_apply, Matrix.submatrix_apply, id]
    rw [gram_el cov x xu' i j i.isLt j.isLt, gram_el cov x xu i (σ j) i.isLt (σ j).isLt, hrows j]
  have hux : toM (gram cov xu' x) = (toM (gram cov xu x)).submatrix σ id := by
    ext i j
    simp only [toM_apply, Matrix.submatrix_apply, id]
    rw [gram_el cov xu' x i j i.isLt j.isLt, gram_el cov xu x (σ i) j (σ i).isLt j.isLt, hrows i]
  have huu : toM (gram cov xu' xu') + s • (1 : Matrix (Fin m) (Fin m) ℝ)
      = (toM (gram cov xu xu) + s • (1 : Matrix (Fin m) (Fin m) ℝ)).submatrix σ σ := by
    ext i j
    simp only [toM_apply, Matrix.submatrix_apply, Matrix.add_apply, Matrix.smul_apply, Matrix.one_apply,
      EmbeddingLike.apply_eq_iff_eq]
    rw [gram_el cov xu' xu' i j i.isLt j.isLt, gram_el cov xu xu (σ i) (σ j) (σ i).isLt (σ j).isLt, hrows i, hrows j]
  rw [hxu, hux, huu, Matrix.inv_submatrix_equiv, Matrix.submatrix_mul_equiv, Matrix.submatrix_mul_equiv]
  simp

end Mellon.C09
