/-
  C15 — GP-type / rank / landmark options resolve consistently and fail cleanly.
  Property theorems only (helpers in ParamsLemmas.lean).  All statements are about the total function
  `Mellon.resolve : Config → Outcome` of MellonModel/Params.lean (a transcription of the option
  resolution of /repo as of e3730dc), for ALL numbers of cells `n`, all integers `n_landmarks`,
  `rank`, all rational ranks, all `gp_type` strings, all landmark row counts.

  `prepare c = .ok r` is "constructor + n_landmarks/rank/gp_type defaults + validate_parameter()
  succeeded with the resolved triple r = (nl, rank, gp)".
-/
import MellonProofs.ParamsLemmas

namespace Mellon.C15
open Mellon

/-! ### totality and exclusivity of the three outcome classes -/

/-- Every configuration has exactly one of the outcomes: accepted (`ok`), refused with a ValueError
    (`refused`), internal error (`internal`). -/
theorem resolve_total_exclusive (c : Config) :
    ((∃ gp r k cls, resolve c = .ok gp r k cls) ∧ (∀ e, resolve c ≠ .refused e) ∧ resolve c ≠ .internal) ∨
    ((∀ gp r k cls, resolve c ≠ .ok gp r k cls) ∧ (∃ e, resolve c = .refused e) ∧ resolve c ≠ .internal) ∨
    ((∀ gp r k cls, resolve c ≠ .ok gp r k cls) ∧ (∀ e, resolve c ≠ .refused e) ∧ resolve c = .internal) := by
  cases h : resolve c <;> simp

/-! ### `from_string` -/

/-- Every enum value parses to itself. -/
theorem fromString_exact (g : GPType) : fromString g.value = some g := by
  cases g <;> decide

/-- A result of `from_string` is either the exact (normalised) name, or — when no name matches
    exactly — the FIRST member in enum order whose name contains the normalised input. -/
theorem fromString_rule (s : List Char) (g : GPType) (h : fromString s = some g) :
    g.value = normalize s ∨
    ((∀ g' ∈ GPType.all, g'.value ≠ normalize s) ∧ isInfix (normalize s) g.value = true ∧
      ∃ before after, GPType.all = before ++ g :: after ∧
        ∀ g' ∈ before, isInfix (normalize s) g'.value = false) := by
  unfold fromString at h
  simp only [] at h
  cases h1 : GPType.all.find? (fun g => g.value == normalize s) with
  | some g1 =>
    rw [h1] at h
    simp only [Option.some.injEq] at h
    subst h
    have := List.find?_some h1
    exact Or.inl (by simpa using this)
  | none =>
    rw [h1] at h
    simp only [] at h
    right
    rw [List.find?_eq_none] at h1
    rw [List.find?_eq_some_iff_append] at h
    obtain ⟨hp, as, bs, hall, hnot⟩ := h
    refine ⟨?_, by simpa using hp, as, bs, hall, ?_⟩
    · intro g' hg'
      have := h1 g' hg'
      simpa using this
    · intro g' hg'
      have := hnot g' hg'
      simpa using this

/-- `from_string` refuses (ValueError) exactly the strings that no name contains. -/
theorem fromString_none_iff (s : List Char) :
    fromString s = none ↔ ∀ g ∈ GPType.all, g.value ≠ normalize s ∧ isInfix (normalize s) g.value = false := by
  unfold fromString
  simp only []
  constructor
  · intro h
    cases h1 : GPType.all.find? (fun g => g.value == normalize s) with
    | some g1 => rw [h1] at h; simp at h
    | none =>
      rw [h1] at h
      simp only [] at h
      rw [List.find?_eq_none] at h1 h
      intro g hg
      exact ⟨by simpa using h1 g hg, by simpa using h g hg⟩
  · intro h
    have h1 : GPType.all.find? (fun g => g.value == normalize s) = none := by
      rw [List.find?_eq_none]; intro g hg; simpa using (h g hg).1
    rw [h1]
    simp only []
    rw [List.find?_eq_none]; intro g hg; simpa using (h g hg).2

/-- The partial names of the property's grid (and case / blank normalisation). -/
theorem fromString_examples :
    fromString ['s','p','a','r','s','e'] = some .sparseCholesky ∧
    fromString ['n','y','s','t','r','o','e','m'] = some .fullNystroem ∧
    fromString ['S','p','a','r','s','e',' ','N','y','s','t','r','o','e','m'] = some .sparseNystroem ∧
    fromString ['F','U','L','L'] = some .full ∧
    fromString ['b','o','g','u','s'] = none ∧
    fromString [] = some .full := by decide

/-! ### rules: an accepted configuration has the documented GP type -/

/-- An accepted configuration went through `prepare`, and its type is the prepared one. -/
theorem accepted_prepared (c : Config) (hest : c.est ≠ .function) {gp : GPType} {rows cols : Nat}
    {cls : PredFamily} (h : resolve c = .ok gp rows cols cls) : ∃ r, prepare c = .ok r ∧ r.gp = gp := by
  rw [resolve_densityLike hest] at h
  obtain ⟨r, lm, hp, _, _, _, _, _, hg, _⟩ := resolveDensityLike_ok h
  exact ⟨r, hp, hg.symm⟩

/-- The resolved triple is consistent with the documented rules: the full family only without
    landmarks or with at least `n` of them, the sparse family only with `0 < n_landmarks < n`, `fixed`
    only with landmarks, explicit landmarks fix `n_landmarks`, and the type is a Nyström type exactly
    when the rank request asks for a reduction. -/
theorem rules (c : Config) (r : Resolved) (h : prepare c = .ok r) :
    (r.gp.isFullFamily → r.nl = 0 ∨ c.n ≤ r.nl) ∧
    (r.gp.isSparseFamily → 0 < r.nl ∧ r.nl < c.n) ∧
    (r.gp = .fixed → r.nl ≠ 0) ∧
    (∀ m, c.landmarks = some m → r.nl = m) ∧
    (r.gp.isNystroem ↔ rankIndicatesFull r.gp c.n r.rank r.nl = false) := by
  obtain ⟨_, _, _, _, _, _, _, _, _, hv⟩ := prepare_ok h
  rw [validateParams_ok] at hv
  exact ⟨hv.2.1.1, hv.2.1.2.1, hv.2.1.2.2, hv.1, hv.2.2⟩

/-- Without an explicit `gp_type` the type is THE documented function of the inputs: full family iff
    there are no or at least `n` landmarks; Nyström variant iff the rank is not "full rank"
    (`None`, an integer ≥ the bound, a float ≥ 1, or 0). -/
theorem rules_default_type (c : Config) (r : Resolved) (h : prepare c = .ok r)
    (hg : initGpType c.gpType = .ok none) :
    r.gp = gpTypeOf r.nl (some r.rank) c.n ∧
    (r.gp.isFullFamily ↔ (r.nl = 0 ∨ c.n ≤ r.nl)) ∧
    (r.gp.isNystroem ↔
      fullRankIndicated (some r.rank) (if r.nl = 0 ∨ c.n ≤ r.nl then (c.n : Int) else (r.nl : Int)) = false) := by
  obtain ⟨nlU, rkU, gpU, _, _, h3, _, _, h6, _⟩ := prepare_ok h
  rw [hg] at h3
  simp only [Except.ok.injEq] at h3
  subst h3
  simp only [Option.getD_none] at h6
  refine ⟨h6, ?_, ?_⟩
  · rw [h6]; unfold gpTypeOf
    by_cases hc : r.nl = 0 ∨ c.n ≤ r.nl
    · have hc' : r.nl = 0 ∨ r.nl ≥ c.n := hc
      rw [if_pos hc']; split_ifs <;> simp [GPType.isFullFamily, hc]
    · have hc' : ¬ (r.nl = 0 ∨ r.nl ≥ c.n) := hc
      rw [if_neg hc']; split_ifs <;> simp [GPType.isFullFamily, hc]
  · rw [h6]; unfold gpTypeOf
    by_cases hc : r.nl = 0 ∨ c.n ≤ r.nl
    · have hc' : r.nl = 0 ∨ r.nl ≥ c.n := hc
      rw [if_pos hc', if_pos hc]
      cases hf : fullRankIndicated (some r.rank) (c.n : Int) <;> simp [GPType.isNystroem]
    · have hc' : ¬ (r.nl = 0 ∨ r.nl ≥ c.n) := hc
      rw [if_neg hc', if_neg hc]
      cases hf : fullRankIndicated (some r.rank) (r.nl : Int) <;> simp [GPType.isNystroem]

/-- An explicit `gp_type` (enum member or any string `from_string` accepts) is kept. -/
theorem rules_explicit_type_kept (c : Config) (r : Resolved) (h : prepare c = .ok r) (g : GPType)
    (hg : initGpType c.gpType = .ok (some g)) : r.gp = g := by
  obtain ⟨_, _, gpU, _, _, h3, _, _, h6, _⟩ := prepare_ok h
  rw [hg] at h3
  simp only [Except.ok.injEq] at h3
  subst h3
  simpa using h6

/-- Defaults of `n_landmarks`: a user value is kept; else the rows of explicit landmarks; else
    `n` for the full family, 5000 for the sparse family, `min(n, 5000)` for `fixed` / no type. -/
theorem n_landmarks_default (c : Config) (r : Resolved) (h : prepare c = .ok r) :
    (∀ v, c.nLandmarks = some v → (r.nl : Int) = v) ∧
    (c.nLandmarks = none → ∀ m, c.landmarks = some m → r.nl = m) ∧
    (c.nLandmarks = none → c.landmarks = none → ∀ gpU, initGpType c.gpType = .ok gpU →
      r.nl = match gpU with
        | none => min c.n 5000
        | some .fixed => min c.n 5000
        | some .full => c.n
        | some .fullNystroem => c.n
        | some .sparseCholesky => 5000
        | some .sparseNystroem => 5000) := by
  obtain ⟨nlU, rkU, gpU, h1, _, h3, h4, _, _, _⟩ := prepare_ok h
  refine ⟨?_, ?_, ?_⟩
  · intro v hv
    rw [hv] at h1
    unfold initNLandmarks validateNonnegInt at h1
    by_cases hneg : v < 0
    · simp [hneg, Except.map] at h1
    · simp only [hneg, if_false, Except.map] at h1
      simp only [Except.ok.injEq] at h1
      subst h1
      simp only [Option.getD_some] at h4
      rw [h4]; omega
  · intro hn m hm
    rw [hn] at h1
    simp only [initNLandmarks, Except.ok.injEq] at h1
    subst h1
    simp only [Option.getD_none, hm, computeNLandmarks] at h4
    exact h4
  · intro hn hl gpU' hg
    rw [hn] at h1
    simp only [initNLandmarks, Except.ok.injEq] at h1
    subst h1
    rw [hg] at h3
    simp only [Except.ok.injEq] at h3
    subst h3
    simp only [Option.getD_none, hl] at h4
    rw [h4]
    cases gpU' with
    | none => rfl
    | some g => cases g <;> rfl

/-- Default of `rank`: 0.99 for an explicit Nyström type, 1.0 otherwise; a user value is kept. -/
theorem rank_default (c : Config) (r : Resolved) (h : prepare c = .ok r) :
    (c.rank = .none → ∀ gpU, initGpType c.gpType = .ok gpU →
      r.rank = if gpU = some .fullNystroem ∨ gpU = some .sparseNystroem then .flt (99 / 100) else .flt 1) ∧
    (∀ k, c.rank = .int k → r.rank = .int k) ∧ (∀ q, c.rank = .flt q → r.rank = .flt q) := by
  obtain ⟨nlU, rkU, gpU, _, h2, h3, _, h5, _, _⟩ := prepare_ok h
  refine ⟨?_, ?_, ?_⟩
  · intro hr gpU' hg
    rw [hr] at h2
    simp only [validateRankOpt, Except.ok.injEq] at h2
    subst h2
    rw [hg] at h3
    simp only [Except.ok.injEq] at h3
    subst h3
    simp only [Option.getD_none] at h5
    rw [h5]
    cases gpU' with
    | none => simp [computeRank]
    | some g => cases g <;> simp [computeRank]
  · intro k hk
    rw [hk] at h2
    simp only [validateRankOpt, Except.ok.injEq] at h2
    subst h2
    simpa using h5
  · intro q hq
    rw [hq] at h2
    simp only [validateRankOpt, Except.ok.injEq] at h2
    subst h2
    simpa using h5

/-
  Full-strength statement of "Nyström type ⇒ the DOCUMENTED rank range" (NOT a theorem of the current
  code, see `negative_rank_counterexample`):
      prepare c = .ok r → r.gp.isNystroem →
        match r.rank with | .int k => 0 < k ∧ k < bound | .flt q => 0 < q ∧ q < 1
  The code only checks `rank < bound`, `rank ≠ 0`, so negative ranks pass.
-/

/-- For non-negative ranks a Nyström type means the documented range: fractional `0 < q < 1` or an
    integer `0 < k <` (number of cells, resp. landmarks). -/
theorem rules_nystroem_documented_partial (c : Config) (r : Resolved) (h : prepare c = .ok r)
    (hnn : match r.rank with | .int k => 0 ≤ k | .flt q => 0 ≤ q) (hN : r.gp.isNystroem) :
    match r.rank with
    | .int k => 0 < k ∧ k < (if r.gp = .fullNystroem then (c.n : Int) else (r.nl : Int))
    | .flt q => 0 < q ∧ q < 1 := by
  have hr := (rules c r h).2.2.2.2
  have hf := hr.mp hN
  cases hrk : r.rank with
  | int k =>
    rw [hrk] at hf hnn
    simp only [] at hnn
    cases hg : r.gp <;> rw [hg] at hN hf <;> simp [GPType.isNystroem] at hN <;>
      simp [rankIndicatesFull] at hf <;> simp <;> omega
  | flt q =>
    rw [hrk] at hf hnn
    simp only [] at hnn
    simp only [rankIndicatesFull, Bool.or_eq_false_iff, decide_eq_false_iff_not, not_le] at hf
    exact ⟨lt_of_le_of_ne hnn (Ne.symm hf.2), hf.1⟩

/-- Witness of the excluded region: `rank = -1` is accepted as a Nyström request and keeps `n-1`
    columns (replayed on the implementation by the harness; known finding
    `C15:negative-rank-accepted`). -/
theorem negative_rank_counterexample :
    resolve {
      est := .density, n := 12, nLandmarks := none, landmarks := none, rank := .int (-1),
      gpType := .none, withUnc := false, opt := .lbfgsb, kept := 1, sigma := .scalar }
      = .ok .fullNystroem 12 11 .full := by decide

/-! ### promised shape of `L`, predictor family -/

/-- An accepted configuration yields `L` with `n` rows and at least one column; `full`: `n` columns;
    `full_nystroem`: at most `n`; `sparse_cholesky` / `fixed`: one column per inducing point, which are
    the landmarks given, else `n_landmarks` k-means centres, else (for `fixed` with `n_landmarks ≥ n`)
    all `n` cells; `sparse_nystroem`: at most as many as landmarks, which are fewer than cells. -/
theorem shape_promise (c : Config) (hest : c.est ≠ .function) {gp : GPType} {rows cols : Nat}
    {cls : PredFamily} (h : resolve c = .ok gp rows cols cls) :
    rows = c.n ∧ 1 ≤ cols ∧
    (gp = .full → cols = c.n) ∧
    (gp = .fullNystroem → cols ≤ c.n) ∧
    (gp = .sparseCholesky ∨ gp = .fixed →
      ∃ r, prepare c = .ok r ∧ cols = c.landmarks.getD (if c.n ≤ r.nl then c.n else r.nl)) ∧
    (gp = .sparseNystroem → ∃ r, prepare c = .ok r ∧ cols ≤ r.nl ∧ r.nl < c.n) := by
  rw [resolve_densityLike hest] at h
  obtain ⟨r, lm, hp, hn, hl, hc, h0, _, hg, _⟩ := resolveDensityLike_ok h
  obtain ⟨hrows, _, hfull, hfn, hsc, hsn⟩ := computeL_inr hc
  have hrules := rules c r hp
  subst hg
  refine ⟨hrows, by omega, hfull, ?_, ?_, ?_⟩
  · intro hg
    rw [hfn hg]
    exact nystroemCols_le r.rank c.n c.kept (by omega)
  · intro hg
    obtain ⟨m, hm, hcm⟩ := hsc hg
    refine ⟨r, hp, ?_⟩
    rcases landmarksStep_ok hl with ⟨m', hu, hm'⟩ | ⟨hu, hcl⟩
    · rw [hu]; simp only [Option.getD_some]; rw [hm] at hm'; simp only [Option.some.injEq] at hm'; omega
    · rw [hu]; simp only [Option.getD_none]
      rcases computeLandmarks_ok hcl with ⟨_, hn'⟩ | ⟨_, h2, _, hn'⟩ | ⟨_, _, _, hn'⟩ | ⟨_, h2, hn'⟩
      · rw [hm] at hn'; simp at hn'
      · rw [hm] at hn'; simp only [Option.some.injEq] at hn'; rw [if_pos h2]; omega
      · rw [hm] at hn'; simp at hn'
      · rw [hm] at hn'; simp only [Option.some.injEq] at hn'; rw [if_neg (by omega)]; omega
  · intro hg
    obtain ⟨m, hm, hcm⟩ := hsn hg
    have hsp := hrules.2.1 (by rw [hg]; trivial)
    refine ⟨r, hp, ?_, hsp.2⟩
    have hmnl : m = r.nl := by
      rcases landmarksStep_ok hl with ⟨m', hu, hm'⟩ | ⟨hu, hcl⟩
      · rw [hm] at hm'; simp only [Option.some.injEq] at hm'
        have := hrules.2.2.2.1 m' hu; omega
      · rcases computeLandmarks_ok hcl with ⟨_, hn'⟩ | ⟨_, h2, _, hn'⟩ | ⟨_, _, _, hn'⟩ | ⟨_, h2, hn'⟩
        · rw [hm] at hn'; simp at hn'
        · omega
        · rw [hm] at hn'; simp at hn'
        · rw [hm] at hn'; simp only [Option.some.injEq] at hn'; exact hn'
    rw [hcm]
    have := nystroemCols_le r.rank (min m c.n) c.kept (by omega)
    omega

/-- `fixed` keeps the requested inducing points: the landmarks given, else all cells when
    `n_landmarks ≥ n`, else `n_landmarks` of them — never fewer, never none. -/
theorem fixed_keeps_points (c : Config) (hest : c.est ≠ .function) {rows cols : Nat} {cls : PredFamily}
    (h : resolve c = .ok .fixed rows cols cls) :
    ∃ r, prepare c = .ok r ∧ cols = c.landmarks.getD (if c.n ≤ r.nl then c.n else r.nl) ∧
      cls = .landmarksCholesky :=  by
  obtain ⟨r, hp, hc⟩ := (shape_promise c hest h).2.2.2.2.1 (Or.inr rfl)
  refine ⟨r, hp, hc, ?_⟩
  rw [resolve_densityLike hest] at h
  obtain ⟨r', lm, hp', _, _, hcl, _, _, hg, hcls⟩ := resolveDensityLike_ok h
  obtain ⟨_, _, _, _, hsc, _⟩ := computeL_inr hcl
  obtain ⟨m, hm, hcm⟩ := hsc (Or.inr hg.symm)
  rw [hcls, ← hg, hm]
  simp [predictorClass, hcm]

/-- The predictor family is the one that belongs to the type: `full`, `full_nystroem` → Full,
    `sparse_cholesky`, `fixed` → Landmarks-Cholesky (latent), `sparse_nystroem` → Landmarks. -/
theorem pred_matches_type (c : Config) (hest : c.est ≠ .function) {gp : GPType} {rows cols : Nat}
    {cls : PredFamily} (h : resolve c = .ok gp rows cols cls) : cls = gp.family := by
  rw [resolve_densityLike hest] at h
  obtain ⟨r, lm, hp, _, _, hcl, _, _, hg, hcls⟩ := resolveDensityLike_ok h
  obtain ⟨_, _, _, _, hsc, hsn⟩ := computeL_inr hcl
  subst hg
  rw [hcls]
  cases hgp : r.gp with
  | full => simp [predictorClass, GPType.family]
  | fullNystroem => simp [predictorClass, GPType.family]
  | sparseCholesky =>
    obtain ⟨m, hm, hcm⟩ := hsc (Or.inl hgp)
    simp [predictorClass, GPType.family, hm, hcm]
  | fixed =>
    obtain ⟨m, hm, hcm⟩ := hsc (Or.inr hgp)
    simp [predictorClass, GPType.family, hm, hcm]
  | sparseNystroem =>
    obtain ⟨m, hm, _⟩ := hsn hgp
    simp [predictorClass, GPType.family, hm]

/-- `predictor_with_uncertainty` is only accepted together with the optimizer that provides the
    input uncertainty (`advi`); with a point optimizer the configuration is refused. -/
theorem uncertainty_needs_advi (c : Config) (hest : c.est ≠ .function) {gp : GPType} {rows cols : Nat}
    {cls : PredFamily} (h : resolve c = .ok gp rows cols cls) (hu : c.withUnc = true) : c.opt = .advi := by
  rw [resolve_densityLike hest] at h
  obtain ⟨_, _, _, _, _, _, _, hunc, _, _⟩ := resolveDensityLike_ok h
  by_contra hne
  exact hunc ⟨hu, hne⟩

/-! ### clean failure -/

/-- The three inference estimators never end in an internal error, whatever the configuration. -/
theorem no_internal_inference_estimators (c : Config) (hest : c.est ≠ .function) :
    resolve c ≠ .internal := by
  intro h
  rw [resolve_densityLike hest] at h
  obtain ⟨r, lm, hp, hl, hc⟩ := resolveDensityLike_internal h
  obtain ⟨hlm, hgp, _⟩ := computeL_internal hc
  have hrules := rules c r hp
  subst hlm
  rcases landmarksStep_ok hl with ⟨m', _, hm'⟩ | ⟨_, hcl⟩
  · simp at hm'
  · rcases computeLandmarks_ok hcl with ⟨h0, _⟩ | ⟨_, _, _, hn'⟩ | ⟨_, h2, hnf, _⟩ | ⟨_, _, hn'⟩
    · rcases hgp with hg | hg | hg
      · have := hrules.2.1 (by rw [hg]; trivial); omega
      · exact hrules.2.2.1 hg h0
      · have := hrules.2.1 (by rw [hg]; trivial); omega
    · simp at hn'
    · rcases hgp with hg | hg | hg
      · have := hrules.2.1 (by rw [hg]; trivial); omega
      · exact hnf hg
      · have := hrules.2.1 (by rw [hg]; trivial); omega
    · simp at hn'

/-
  Full-strength statement (NOT a theorem of the current code, see the counterexamples below):
      theorem no_internal (c : Config) : resolve c ≠ .internal
-/

/-- An internal error can only come from the function estimator, and only from a noise array /
    uncertainty request whose size does not fit the number of conditioning points (`NoiseFits`). -/
theorem no_internal_partial (c : Config)
    (hfit : c.est = .function → ∀ lm, NoiseFits c.n lm c.withUnc c.sigma) : resolve c ≠ .internal := by
  by_cases hest : c.est = .function
  · intro h
    obtain ⟨gp, lm, hfp⟩ := resolveFunction_internal (by rw [resolve_function hest] at h; exact h)
    exact (functionPredictor_internal_iff.mp hfp) (hfit hest lm)
  · exact no_internal_inference_estimators c hest

/-- In particular the function estimator with a scalar noise level and without
    `predictor_with_uncertainty` never fails internally. -/
theorem no_internal_function_scalar (c : Config) (hs : c.sigma = .scalar) (hu : c.withUnc = false) :
    resolve c ≠ .internal := by
  apply no_internal_partial
  intro _ lm
  rw [hs, hu]
  cases lm <;> simp [NoiseFits]

theorem no_internal_counterexample_uncertainty :
    resolve {
      est := .function, n := 6, nLandmarks := none, landmarks := some 4, rank := .none,
      gpType := .none, withUnc := true, opt := .lbfgsb, kept := 1, sigma := .scalar } = .internal := by decide

theorem no_internal_counterexample_vector_sigma :
    resolve {
      est := .function, n := 6, nLandmarks := none, landmarks := some 4, rank := .none,
      gpType := .none, withUnc := false, opt := .lbfgsb, kept := 1, sigma := .vecN } = .internal := by decide

theorem no_internal_counterexample_matrix_sigma :
    resolve {
      est := .function, n := 6, nLandmarks := none, landmarks := none, rank := .none,
      gpType := .none, withUnc := false, opt := .lbfgsb, kept := 1, sigma := .matN 2 } = .internal := by decide

/-
  Full-strength statement of "no silent contradiction" for the function estimator (NOT a theorem of
  the current code): accepted ⇒ the consistency conditions of `rules`.  `FunctionEstimator` never
  calls `validate_params`.
-/

/-- Witness: `FunctionEstimator(gp_type='full', n_landmarks=2)` on 6 cells is accepted and conditions
    on 2 landmarks although the type says "full" (known finding `C15:function-no-validation`). -/
theorem function_silent_contradiction_counterexample :
    resolve {
      est := .function, n := 6, nLandmarks := some 2, landmarks := none, rank := .none,
      gpType := .str ['f','u','l','l'], withUnc := false, opt := .lbfgsb, kept := 1, sigma := .scalar }
      = .ok .full 6 2 .landmarks := by decide

/-! ### non-vacuity: accepted configurations of every type exist -/

example : resolve {
    est := .density, n := 12, nLandmarks := none, landmarks := none, rank := .none,
    gpType := .none, withUnc := false, opt := .lbfgsb, kept := 1, sigma := .scalar }
    = .ok .full 12 12 .full := by decide

example : resolve {
    est := .density, n := 12, nLandmarks := some 5, landmarks := none, rank := .int 2,
    gpType := .none, withUnc := true, opt := .advi, kept := 1, sigma := .scalar }
    = .ok .sparseNystroem 12 2 .landmarks := by decide

example : resolve {
    est := .timeSensitive, n := 12, nLandmarks := none, landmarks := none, rank := .none,
    gpType := .str ['f','i','x','e','d'], withUnc := false, opt := .adam, kept := 1, sigma := .scalar }
    = .ok .fixed 12 12 .landmarksCholesky := by decide

example : resolve {
    est := .density, n := 12, nLandmarks := some 1, landmarks := none, rank := .none,
    gpType := .none, withUnc := false, opt := .adam, kept := 1, sigma := .scalar }
    = .refused .nLandmarksOne := by decide

end Mellon.C15
