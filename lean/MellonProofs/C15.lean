/-
  C15 — GP-type / rank / landmark options resolve consistently and fail cleanly.
  Property theorems only (helpers in ParamsLemmas.lean).  All statements are about the total function
  `Mellon.resolve : Config → Outcome` of MellonModel/Params.lean (a transcription of the option
  resolution of /repo as of e3730dc plus the repairs F1–F6 of the function estimator and of the
  rank validation), for ALL numbers of cells `n`, all integers `n_landmarks`,
  `rank`, all rational ranks, all `gp_type` strings, all landmark row counts.

  `prepare c = .ok r` is "constructor + n_landmarks/rank/gp_type defaults + validate_parameter()
  succeeded with the resolved triple r = (nl, rank, gp)".  `effConfig c` is `c` itself for the three
  inference estimators and `c` with the constructor's fixed `rank = 1.0` for the function estimator.
  All theorems below hold for all four estimators unless an `est ≠ .function` hypothesis is shown.
-/
import MellonProofs.ParamsLemmas

namespace Mellon.C15
open Mellon

/-! ### totality and exclusivity of the three outcome classes -/

/-- Every configuration has exactly one of the outcomes: accepted (`ok`), refused with a ValueError
    (`refused`), internal error (`internal`). -/
theorem resolve_total_exclusive (c : Config) :
    ((∃ gp r k cls, resolve c = .ok gp r k cls) ∧ (∀ e, resolve c ≠ .refused e) ∧ resolve c ≠ .internal) ∨
    ((∀ gp r k cls, resolve c ≠ .ok gp r k cls) ∧ (∃ e, resolve c = .refused e) ∧ resolve c ≠ .internal) ∨
    ((∀ gp r k cls, resolve c ≠ .ok gp r k cls) ∧ (∀ e, resolve c ≠ .refused e) ∧ resolve c = .internal) := by
  cases h : resolve c <;> simp

/-! ### `from_string` -/

/-- Every enum value parses to itself. -/
theorem fromString_exact (g : GPType) : fromString g.value = some g := by
  cases g <;> decide

/-- A result of `from_string` is either the exact (normalised) name, or — when no name matches
    exactly — the FIRST member in enum order whose name contains the normalised input. -/
theorem fromString_rule (s : List Char) (g : GPType) (h : fromString s = some g) :
    g.value = normalize s ∨
    ((∀ g' ∈ GPType.all, g'.value ≠ normalize s) ∧ isInfix (normalize s) g.value = true ∧
      ∃ before after, GPType.all = before ++ g :: after ∧
        ∀ g' ∈ before, isInfix (normalize s) g'.value = false) := by
  unfold fromString at h
  simp only [] at h
  cases h1 : GPType.all.find? (fun g => g.value == normalize s) with
  | some g1 =>
    rw [h1] at h
    simp only [Option.some.injEq] at h
    subst h
    have := List.find?_some h1
    exact Or.inl (by simpa using this)
  | none =>
    rw [h1] at h
    simp only [] at h
    right
    rw [List.find?_eq_none] at h1
    rw [List.find?_eq_some_iff_append] at h
    obtain ⟨hp, as, bs, hall, hnot⟩ := h
    refine ⟨?_, by simpa using hp, as, bs, hall, ?_⟩
    · intro g' hg'
      have := h1 g' hg'
      simpa using this
    · intro g' hg'
      have := hnot g' hg'
      simpa using this

/-- `from_string` refuses (ValueError) exactly the strings that no name contains. -/
theorem fromString_none_iff (s : List Char) :
    fromString s = none ↔ ∀ g ∈ GPType.all, g.value ≠ normalize s ∧ isInfix (normalize s) g.value = false := by
  unfold fromString
  simp only []
  constructor
  · intro h
    cases h1 : GPType.all.find? (fun g => g.value == normalize s) with
    | some g1 => rw [h1] at h; simp at h
    | none =>
      rw [h1] at h
      simp only [] at h
      rw [List.find?_eq_none] at h1 h
      intro g hg
      exact ⟨by simpa using h1 g hg, by simpa using h g hg⟩
  · intro h
    have h1 : GPType.all.find? (fun g => g.value == normalize s) = none := by
      rw [List.find?_eq_none]; intro g hg; simpa using (h g hg).1
    rw [h1]
    simp only []
    rw [List.find?_eq_none]; intro g hg; simpa using (h g hg).2

/-- The partial names of the property's grid (and case / blank normalisation). -/
theorem fromString_examples :
    fromString ['s','p','a','r','s','e'] = some .sparseCholesky ∧
    fromString ['n','y','s','t','r','o','e','m'] = some .fullNystroem ∧
    fromString ['S','p','a','r','s','e',' ','N','y','s','t','r','o','e','m'] = some .sparseNystroem ∧
    fromString ['F','U','L','L'] = some .full ∧
    fromString ['b','o','g','u','s'] = none ∧
    fromString [] = some .full := by decide

/-! ### rules: an accepted configuration has the documented GP type -/

/-- An accepted configuration (any estimator) went through `prepare`, and its type is the prepared one. -/
theorem accepted_prepared (c : Config) {gp : GPType} {rows cols : Nat}
    {cls : PredFamily} (h : resolve c = .ok gp rows cols cls) :
    ∃ r, prepare (effConfig c) = .ok r ∧ r.gp = gp := by
  by_cases hest : c.est = .function
  · rw [resolve_function hest] at h
    obtain ⟨r, lm, hp, _, _, hf, _⟩ := resolveFunction_ok h
    rw [effConfig_function hest]
    exact ⟨r, hp, (functionPredictor_ok hf).1.symm⟩
  · rw [resolve_densityLike hest] at h
    obtain ⟨r, lm, hp, _, _, _, _, _, hg, _⟩ := resolveDensityLike_ok h
    rw [effConfig_other hest]
    exact ⟨r, hp, hg.symm⟩

/-- The resolved triple is consistent with the documented rules: the full family only without
    landmarks or with at least `n` of them, the sparse family only with `0 < n_landmarks < n`, `fixed`
    only with landmarks, explicit landmarks fix `n_landmarks` (except that `fixed` keeps the `n` cells as landmarks
    next to a larger request, the state its own fit leaves behind), the rank is not negative, and the type
    is a Nyström type exactly when the rank request asks for a reduction. -/
theorem rules (c : Config) (r : Resolved) (h : prepare c = .ok r) :
    (r.gp.isFullFamily → r.nl = 0 ∨ c.n ≤ r.nl) ∧
    (r.gp.isSparseFamily → 0 < r.nl ∧ r.nl < c.n) ∧
    (r.gp = .fixed → r.nl ≠ 0) ∧
    (∀ m, c.landmarks = some m → r.nl = m ∨ (r.gp = .fixed ∧ m = c.n ∧ c.n < r.nl)) ∧
    r.rank.isNegative = false ∧
    (r.gp.isNystroem ↔ rankIndicatesFull r.gp c.n r.rank r.nl = false) := by
  obtain ⟨_, _, _, _, _, _, _, _, _, hv⟩ := prepare_ok h
  rw [validateParams_ok] at hv
  exact ⟨hv.2.1.1, hv.2.1.2.1, hv.2.1.2.2, hv.1, hv.2.2.1, hv.2.2.2⟩

/-- Without an explicit `gp_type` the type is THE documented function of the inputs: full family iff
    there are no or at least `n` landmarks; Nyström variant iff the rank is not "full rank"
    (`None`, an integer ≥ the bound, a float ≥ 1, or 0). -/
theorem rules_default_type (c : Config) (r : Resolved) (h : prepare c = .ok r)
    (hg : initGpType c.gpType = .ok none) :
    r.gp = gpTypeOf r.nl (some r.rank) c.n ∧
    (r.gp.isFullFamily ↔ (r.nl = 0 ∨ c.n ≤ r.nl)) ∧
    (r.gp.isNystroem ↔
      fullRankIndicated (some r.rank) (if r.nl = 0 ∨ c.n ≤ r.nl then (c.n : Int) else (r.nl : Int)) = false) := by
  obtain ⟨nlU, rkU, gpU, _, _, h3, _, _, h6, _⟩ := prepare_ok h
  rw [hg] at h3
  simp only [Except.ok.injEq] at h3
  subst h3
  simp only [Option.getD_none] at h6
  refine ⟨h6, ?_, ?_⟩
  · rw [h6]; unfold gpTypeOf
    by_cases hc : r.nl = 0 ∨ c.n ≤ r.nl
    · have hc' : r.nl = 0 ∨ r.nl ≥ c.n := hc
      rw [if_pos hc']; split_ifs <;> simp [GPType.isFullFamily, hc]
    · have hc' : ¬ (r.nl = 0 ∨ r.nl ≥ c.n) := hc
      rw [if_neg hc']; split_ifs <;> simp [GPType.isFullFamily, hc]
  · rw [h6]; unfold gpTypeOf
    by_cases hc : r.nl = 0 ∨ c.n ≤ r.nl
    · have hc' : r.nl = 0 ∨ r.nl ≥ c.n := hc
      rw [if_pos hc', if_pos hc]
      cases hf : fullRankIndicated (some r.rank) (c.n : Int) <;> simp [GPType.isNystroem]
    · have hc' : ¬ (r.nl = 0 ∨ r.nl ≥ c.n) := hc
      rw [if_neg hc', if_neg hc]
      cases hf : fullRankIndicated (some r.rank) (r.nl : Int) <;> simp [GPType.isNystroem]

/-- An explicit `gp_type` (enum member or any string `from_string` accepts) is kept. -/
theorem rules_explicit_type_kept (c : Config) (r : Resolved) (h : prepare c = .ok r) (g : GPType)
    (hg : initGpType c.gpType = .ok (some g)) : r.gp = g := by
  obtain ⟨_, _, gpU, _, _, h3, _, _, h6, _⟩ := prepare_ok h
  rw [hg] at h3
  simp only [Except.ok.injEq] at h3
  subst h3
  simpa using h6

/-- Defaults of `n_landmarks`: a user value is kept; else the rows of explicit landmarks; else
    `n` for the full family, 5000 for the sparse family, `min(n, 5000)` for `fixed` / no type. -/
theorem n_landmarks_default (c : Config) (r : Resolved) (h : prepare c = .ok r) :
    (∀ v, c.nLandmarks = some v → (r.nl : Int) = v) ∧
    (c.nLandmarks = none → ∀ m, c.landmarks = some m → r.nl = m) ∧
    (c.nLandmarks = none → c.landmarks = none → ∀ gpU, initGpType c.gpType = .ok gpU →
      r.nl = match gpU with
        | none => min c.n 5000
        | some .fixed => min c.n 5000
        | some .full => c.n
        | some .fullNystroem => c.n
        | some .sparseCholesky => 5000
        | some .sparseNystroem => 5000) := by
  obtain ⟨nlU, rkU, gpU, h1, _, h3, h4, _, _, _⟩ := prepare_ok h
  refine ⟨?_, ?_, ?_⟩
  · intro v hv
    rw [hv] at h1
    unfold initNLandmarks validateNonnegInt at h1
    by_cases hneg : v < 0
    · simp [hneg, Except.map] at h1
    · simp only [hneg, if_false, Except.map] at h1
      simp only [Except.ok.injEq] at h1
      subst h1
      simp only [Option.getD_some] at h4
      rw [h4]; omega
  · intro hn m hm
    rw [hn] at h1
    simp only [initNLandmarks, Except.ok.injEq] at h1
    subst h1
    simp only [Option.getD_none, hm, computeNLandmarks] at h4
    exact h4
  · intro hn hl gpU' hg
    rw [hn] at h1
    simp only [initNLandmarks, Except.ok.injEq] at h1
    subst h1
    rw [hg] at h3
    simp only [Except.ok.injEq] at h3
    subst h3
    simp only [Option.getD_none, hl] at h4
    rw [h4]
    cases gpU' with
    | none => rfl
    | some g => cases g <;> rfl

/-- Default of `rank`: 0.99 for an explicit Nyström type, 1.0 otherwise; a user value is kept. -/
theorem rank_default (c : Config) (r : Resolved) (h : prepare c = .ok r) :
    (c.rank = .none → ∀ gpU, initGpType c.gpType = .ok gpU →
      r.rank = if gpU = some .fullNystroem ∨ gpU = some .sparseNystroem then .flt (99 / 100) else .flt 1) ∧
    (∀ k, c.rank = .int k → r.rank = .int k) ∧ (∀ q, c.rank = .flt q → r.rank = .flt q) := by
  obtain ⟨nlU, rkU, gpU, _, h2, h3, _, h5, _, _⟩ := prepare_ok h
  refine ⟨?_, ?_, ?_⟩
  · intro hr gpU' hg
    rw [hr] at h2
    simp only [validateRankOpt, Except.ok.injEq] at h2
    subst h2
    rw [hg] at h3
    simp only [Except.ok.injEq] at h3
    subst h3
    simp only [Option.getD_none] at h5
    rw [h5]
    cases gpU' with
    | none => simp [computeRank]
    | some g => cases g <;> simp [computeRank]
  · intro k hk
    rw [hk] at h2
    simp only [validateRankOpt, Except.ok.injEq] at h2
    subst h2
    simpa using h5
  · intro q hq
    rw [hq] at h2
    simp only [validateRankOpt, Except.ok.injEq] at h2
    subst h2
    simpa using h5

/-- An integer rank given as a NumPy / JAX integer scalar (`rank=numpy.int64(k)`, `numpy.int32(k)`, a 0-d integer
    array) is the integer rank `k`: the validated rank, the inferred type (`compute_gp_type`), the verdict of
    `validate_params` (so `compute_L`), the resolved triple and the whole outcome (type, shape of `L`, predictor
    family, refusal) are those of the Python int `k`.  (Before fix 4604925 the scalar became the float `k.0`,
    i.e. "no rank reduction" for every `k >= 1`.) -/
theorem numpy_integer_rank_is_integer_rank (k : Int) :
    validateRankOpt (.npInt k) = validateRankOpt (.int k) ∧
    (∀ nl n, computeGpType nl (.npInt k) n = computeGpType nl (.int k) n) ∧
    (∀ gp n nl lm, validateParamsPublic (.npInt k) gp n nl lm = validateParamsPublic (.int k) gp n nl lm) ∧
    (∀ c : Config, prepare { c with rank := .npInt k } = prepare { c with rank := .int k }) ∧
    (∀ c : Config, resolve { c with rank := .npInt k } = resolve { c with rank := .int k }) := by
  refine ⟨rfl, fun _ _ => rfl, fun _ _ _ _ => rfl, fun _ => rfl, ?_⟩
  rintro ⟨est, n, nl, lm, rank, gp, unc, opt, kept, sigma⟩
  cases est <;> rfl

/-- … in particular the type inferred from it is a Nyström type exactly when `0 < k <` bound (cells, resp.
    landmarks), and never because of `k.0 >= 1.0`. -/
theorem numpy_integer_rank_default_type (c : Config) (k : Int) (r : Resolved)
    (h : prepare { c with rank := .npInt k } = .ok r) :
    r.rank = .int k := by
  rw [(numpy_integer_rank_is_integer_rank k).2.2.2.1 c] at h
  exact (rank_default _ r h).2.1 k rfl

example :
    resolve {
      est := .density, n := 12, nLandmarks := none, landmarks := none, rank := .npInt 3,
      gpType := .none, withUnc := false, opt := .adam, kept := 3 }
      = .ok .fullNystroem 12 3 .full := by decide

/-- A Nyström type means the DOCUMENTED rank range: fractional `0 < q < 1` or an integer
    `0 < k <` (number of cells, resp. landmarks).  (Full strength since negative ranks are refused.) -/
theorem rules_nystroem_documented (c : Config) (r : Resolved) (h : prepare c = .ok r)
    (hN : r.gp.isNystroem) :
    match r.rank with
    | .int k => 0 < k ∧ k < (if r.gp = .fullNystroem then (c.n : Int) else (r.nl : Int))
    | .flt q => 0 < q ∧ q < 1 := by
  have hr := (rules c r h).2.2.2.2
  have hf := hr.2.mp hN
  have hneg := hr.1
  cases hrk : r.rank with
  | int k =>
    rw [hrk] at hf hneg
    simp only [RankV.isNegative, decide_eq_false_iff_not, not_lt] at hneg
    cases hg : r.gp <;> rw [hg] at hN hf <;> simp [GPType.isNystroem] at hN <;>
      simp [rankIndicatesFull] at hf <;> simp <;> omega
  | flt q =>
    rw [hrk] at hf hneg
    simp only [RankV.isNegative, decide_eq_false_iff_not, not_lt] at hneg
    simp only [rankIndicatesFull, Bool.or_eq_false_iff, decide_eq_false_iff_not, not_le] at hf
    exact ⟨lt_of_le_of_ne hneg (Ne.symm hf.2), hf.1⟩

/-- Regression witness of repaired defect F5: `rank = -1` is refused. -/
theorem negative_rank_refused :
    resolve {
      est := .density, n := 12, nLandmarks := none, landmarks := none, rank := .int (-1),
      gpType := .none, withUnc := false, opt := .lbfgsb, kept := 1, sigma := .scalar }
      = .refused .rankNegative := by decide

/-- The function estimator's constructor fixes `rank = 1.0`, so it never resolves to a Nyström type. -/
theorem function_never_nystroem (c : Config) (hest : c.est = .function) {gp : GPType} {rows cols : Nat}
    {cls : PredFamily} (h : resolve c = .ok gp rows cols cls) : ¬ gp.isNystroem := by
  rw [resolve_function hest] at h
  obtain ⟨r, lm, _, _, _, hf, hN, _⟩ := resolveFunction_ok h
  rw [(functionPredictor_ok hf).1]
  exact hN

/-! ### promised shape of `L`, predictor family -/

/-- An accepted configuration yields a factor (for the function estimator: a set of conditioning
    points) with `n` rows and at least one column; `full`: `n` columns; `full_nystroem`: at most `n`;
    `sparse_cholesky` / `fixed`: one column per inducing point, which are the landmarks given, else
    `n_landmarks` k-means centres, else (for `fixed` with `n_landmarks ≥ n`) all `n` cells;
    `sparse_nystroem`: at most as many as landmarks, which are fewer than cells. -/
theorem shape_promise (c : Config) {gp : GPType} {rows cols : Nat}
    {cls : PredFamily} (h : resolve c = .ok gp rows cols cls) :
    rows = c.n ∧ 1 ≤ cols ∧
    (gp = .full → cols = c.n) ∧
    (gp = .fullNystroem → cols ≤ c.n) ∧
    (gp = .sparseCholesky ∨ gp = .fixed →
      ∃ r, prepare (effConfig c) = .ok r ∧ cols = c.landmarks.getD (if c.n ≤ r.nl then c.n else r.nl)) ∧
    (gp = .sparseNystroem → ∃ r, prepare (effConfig c) = .ok r ∧ cols ≤ r.nl ∧ r.nl < c.n) := by
  by_cases hest : c.est = .function
  · -- function estimator
    have hN := function_never_nystroem c hest h
    rw [resolve_function hest] at h
    obtain ⟨r, lm, hp, hn, hl, hf, _⟩ := resolveFunction_ok h
    obtain ⟨hg, hrows, _, hcols⟩ := functionPredictor_ok hf
    rw [effConfig_function hest]
    subst hg
    refine ⟨hrows, ?_, ?_, ?_, ?_, ?_⟩
    · rw [hcols]
      by_cases hfull : r.gp = .full ∨ r.gp = .fullNystroem
      · rw [if_pos hfull]; omega
      · rw [if_neg hfull]
        have hsf : r.gp.isSparseFamily ∨ r.gp = .fixed := by
          cases hgp : r.gp <;> simp_all [GPType.isSparseFamily]
        obtain ⟨hlm, _, hpos⟩ := inducing_points hp hl hsf
        rw [hlm]
        simp only [Option.getD_some]
        have hr := (rules _ r hp).2.2.2.1
        cases hcl : c.landmarks with
        | none => simp only [Option.getD_none]; split_ifs <;> omega
        | some m =>
          simp only [Option.getD_some]
          rcases hr m hcl with this | ⟨_, this, _⟩
          · omega
          · have hm : m = c.n := this
            omega
    · intro hgp; rw [hcols, if_pos (Or.inl hgp)]
    · intro hgp; rw [hgp] at hN; exact absurd trivial hN
    · intro hgp
      refine ⟨r, hp, ?_⟩
      have hsf : r.gp.isSparseFamily ∨ r.gp = .fixed := by
        rcases hgp with hgp | hgp <;> rw [hgp] <;> simp [GPType.isSparseFamily]
      obtain ⟨hlm, _, _⟩ := inducing_points hp hl hsf
      have hnf : ¬ (r.gp = .full ∨ r.gp = .fullNystroem) := by
        rcases hgp with hgp | hgp <;> rw [hgp] <;> simp
      rw [hcols, if_neg hnf, hlm]
      rfl
    · intro hgp; rw [hgp] at hN; exact absurd trivial hN
  · -- inference estimators
    rw [resolve_densityLike hest] at h
    obtain ⟨r, lm, hp, hn, hl, hc, h0, _, hg, _⟩ := resolveDensityLike_ok h
    obtain ⟨hrows, _, hfull, hfn, hsc, hsn⟩ := computeL_inr hc
    rw [effConfig_other hest]
    subst hg
    refine ⟨hrows, by omega, hfull, ?_, ?_, ?_⟩
    · intro hg
      rw [hfn hg]
      exact nystroemCols_le r.rank c.n c.kept (by omega)
    · intro hg
      obtain ⟨m, hm, hcm⟩ := hsc hg
      have hsf : r.gp.isSparseFamily ∨ r.gp = .fixed := by
        rcases hg with hg | hg <;> rw [hg] <;> simp [GPType.isSparseFamily]
      obtain ⟨hlm, _, _⟩ := inducing_points hp hl hsf
      refine ⟨r, hp, ?_⟩
      rw [hm] at hlm
      simp only [Option.some.injEq] at hlm
      omega
    · intro hg
      obtain ⟨m, hm, hcm⟩ := hsn hg
      have hsp := (rules c r hp).2.1 (by rw [hg]; trivial)
      obtain ⟨_, hnl, _⟩ := inducing_points hp hl (Or.inl (by rw [hg]; trivial))
      have hmnl : m = r.nl := by
        have := hnl (by rw [hg]; trivial)
        rw [hm] at this
        simpa using this
      refine ⟨r, hp, ?_, hsp.2⟩
      rw [hcm]
      have := nystroemCols_le r.rank (min m c.n) c.kept (by omega)
      omega

/-- `fixed` keeps the requested inducing points: the landmarks given, else all cells when
    `n_landmarks ≥ n`, else `n_landmarks` of them — never fewer, never none. -/
theorem fixed_keeps_points (c : Config) {rows cols : Nat} {cls : PredFamily}
    (h : resolve c = .ok .fixed rows cols cls) :
    ∃ r, prepare (effConfig c) = .ok r ∧ cols = c.landmarks.getD (if c.n ≤ r.nl then c.n else r.nl) :=
  (shape_promise c h).2.2.2.2.1 (Or.inr rfl)

/-- The predictor family is the one that belongs to the type.  Inference estimators: `full`,
    `full_nystroem` → Full, `sparse_cholesky`, `fixed` → Landmarks-Cholesky (latent),
    `sparse_nystroem` → Landmarks.  Function estimator (no latent vector): `full` → Full,
    `sparse_cholesky`, `fixed` → Landmarks. -/
theorem pred_matches_type (c : Config) {gp : GPType} {rows cols : Nat}
    {cls : PredFamily} (h : resolve c = .ok gp rows cols cls) : cls = gp.familyFor c.est := by
  by_cases hest : c.est = .function
  · have hN := function_never_nystroem c hest h
    rw [resolve_function hest] at h
    obtain ⟨r, lm, hp, _, hl, hf, _⟩ := resolveFunction_ok h
    obtain ⟨hg, _, hcls, _⟩ := functionPredictor_ok hf
    subst hg
    rw [hcls]
    unfold GPType.familyFor
    rw [if_pos hest]
    by_cases hfull : r.gp = .full ∨ r.gp = .fullNystroem
    · rw [if_pos hfull]
      rcases hfull with hg | hg <;> rw [hg] <;> rfl
    · rw [if_neg hfull]
      have hsf : r.gp.isSparseFamily ∨ r.gp = .fixed := by
        cases hgp : r.gp <;> simp_all [GPType.isSparseFamily]
      obtain ⟨hlm, _, _⟩ := inducing_points hp hl hsf
      rw [hlm]
      simp only [Option.isSome_some, if_true]
      cases hgp : r.gp with
      | full => exact absurd (Or.inl hgp) hfull
      | fullNystroem => exact absurd (Or.inr hgp) hfull
      | sparseCholesky => rfl
      | sparseNystroem => rfl
      | fixed => rfl
  · rw [resolve_densityLike hest] at h
    obtain ⟨r, lm, hp, _, _, hcl, _, _, hg, hcls⟩ := resolveDensityLike_ok h
    obtain ⟨_, _, _, _, hsc, hsn⟩ := computeL_inr hcl
    subst hg
    rw [hcls]
    unfold GPType.familyFor
    rw [if_neg hest]
    cases hgp : r.gp with
    | full => simp [predictorClass, GPType.family]
    | fullNystroem => simp [predictorClass, GPType.family]
    | sparseCholesky =>
      obtain ⟨m, hm, hcm⟩ := hsc (Or.inl hgp)
      simp [predictorClass, GPType.family, hm, hcm]
    | fixed =>
      obtain ⟨m, hm, hcm⟩ := hsc (Or.inr hgp)
      simp [predictorClass, GPType.family, hm, hcm]
    | sparseNystroem =>
      obtain ⟨m, hm, _⟩ := hsn hgp
      simp [predictorClass, GPType.family, hm]

/-- `predictor_with_uncertainty` is only accepted together with the optimizer that provides the
    input uncertainty (`advi`); with a point optimizer the configuration is refused.  (The function
    estimator takes its input uncertainty from `sigma` instead.) -/
theorem uncertainty_needs_advi (c : Config) (hest : c.est ≠ .function) {gp : GPType} {rows cols : Nat}
    {cls : PredFamily} (h : resolve c = .ok gp rows cols cls) (hu : c.withUnc = true) : c.opt = .advi := by
  rw [resolve_densityLike hest] at h
  obtain ⟨_, _, _, _, _, _, _, hunc, _, _⟩ := resolveDensityLike_ok h
  by_contra hne
  exact hunc ⟨hu, hne⟩

/-! ### clean failure -/

/-- No configuration of any of the four estimators ends in an internal error: every outcome is
    either an accepted fit or a ValueError. -/
theorem no_internal (c : Config) : resolve c ≠ .internal := by
  by_cases hest : c.est = .function
  · rw [resolve_function hest]; exact resolveFunction_ne_internal c
  · intro h
    rw [resolve_densityLike hest] at h
    obtain ⟨r, lm, hp, hl, hc⟩ := resolveDensityLike_internal h
    obtain ⟨hlm, hgp, _⟩ := computeL_internal hc
    have hsf : r.gp.isSparseFamily ∨ r.gp = .fixed := by
      rcases hgp with hg | hg | hg <;> rw [hg] <;> simp [GPType.isSparseFamily]
    obtain ⟨hsome, _, _⟩ := inducing_points hp hl hsf
    rw [hlm] at hsome
    simp at hsome

/-- Hence every configuration is either accepted or refused with a ValueError. -/
theorem accepted_or_refused (c : Config) :
    (∃ gp r k cls, resolve c = .ok gp r k cls) ∨ (∃ e, resolve c = .refused e) := by
  cases h : resolve c with
  | ok gp r k cls => exact Or.inl ⟨gp, r, k, cls, rfl⟩
  | refused e => exact Or.inr ⟨e, rfl⟩
  | internal => exact absurd h (no_internal c)

/-! ### regression witnesses of the repaired function-estimator defects (F1–F4, F6) -/

/-- F1: `FunctionEstimator(gp_type='full', n_landmarks=2)` on 6 cells is refused. -/
theorem function_contradiction_refused :
    resolve {
      est := .function, n := 6, nLandmarks := some 2, landmarks := none, rank := .none,
      gpType := .str ['f','u','l','l'], withUnc := false, opt := .lbfgsb, kept := 1, sigma := .scalar }
      = .refused .fullButFewerLandmarks := by decide

/-- F2: 4 landmarks on 6 cells with `predictor_with_uncertainty` fit (sparse type, Landmarks family). -/
theorem function_uncertainty_landmarks_ok :
    resolve {
      est := .function, n := 6, nLandmarks := none, landmarks := some 4, rank := .none,
      gpType := .none, withUnc := true, opt := .lbfgsb, kept := 1, sigma := .scalar }
      = .ok .sparseCholesky 6 4 .landmarks := by decide

/-- F3 (after /repo 20d7957): a per-cell `sigma` with 4 landmarks on 6 cells is accepted — the vector is
    the noise of the cells, whatever the number of landmarks — and gives the Landmarks predictor. -/
theorem function_vector_sigma_landmarks_ok :
    resolve {
      est := .function, n := 6, nLandmarks := none, landmarks := some 4, rank := .none,
      gpType := .none, withUnc := false, opt := .lbfgsb, kept := 1, sigma := .vecN }
      = .ok .sparseCholesky 6 4 .landmarks := by decide

/-- The form of a valid `sigma` (a scalar or one entry per cell) does not enter the outcome of the function
    estimator: every number of landmarks (`m < n`, `m = n`, `m > n`), every type, with or without
    predictive uncertainty. -/
theorem function_sigma_form_irrelevant (c : Config) (hest : c.est = .function) :
    resolve { c with sigma := .vecN } = resolve { c with sigma := .scalar } := by
  have h1 : ({ c with sigma := SigmaForm.vecN } : Config).est = .function := hest
  have h2 : ({ c with sigma := SigmaForm.scalar } : Config).est = .function := hest
  rw [resolve_function h1, resolve_function h2]
  unfold resolveFunction functionPredictor
  simp [SigmaForm.isMat]
  rfl

/-- With the cells as landmarks (`gp_type='fixed'`, 6 landmarks on 6 cells) and with more landmarks than
    cells under a forced sparse type, the per-cell `sigma` is accepted as well. -/
theorem function_vector_sigma_fixed_ok :
    resolve {
      est := .function, n := 6, nLandmarks := none, landmarks := some 6, rank := .none,
      gpType := .str ['f','i','x','e','d'], withUnc := true, opt := .lbfgsb, kept := 1, sigma := .vecN }
      = .ok .fixed 6 6 .landmarks ∧
    resolve {
      est := .function, n := 6, nLandmarks := none, landmarks := some 8, rank := .none,
      gpType := .str ['f','i','x','e','d'], withUnc := true, opt := .lbfgsb, kept := 1, sigma := .vecN }
      = .ok .fixed 6 8 .landmarks := by decide

/-- F4: a two-dimensional `sigma` is refused. -/
theorem function_matrix_sigma_refused :
    resolve {
      est := .function, n := 6, nLandmarks := none, landmarks := none, rank := .none,
      gpType := .none, withUnc := false, opt := .lbfgsb, kept := 1, sigma := .matN 2 }
      = .refused .sigmaShape := by decide

/-- A one-dimensional `sigma` whose length is not the number of cells is never accepted, whatever the other options
    (it used to be broadcast for one entry and to die with an internal shape error otherwise). -/
theorem function_wrong_length_sigma_never_accepted (c : Config) (hest : c.est = .function) (k : Nat)
    (hs : c.sigma = .vecL k) (hk : k ≠ c.n) {gp : GPType} {rows cols : Nat} {cls : PredFamily} :
    resolve c ≠ .ok gp rows cols cls := by
  intro h
  rw [resolve_function hest] at h
  obtain ⟨_, _, _, _, _, _, _, hw⟩ := resolveFunction_ok h
  rw [hs] at hw
  simp [SigmaForm.wrongLength, hk] at hw

/-- … and, everything else being acceptable, the refusal names `sigma`; a vector of the right length is the
    per-cell vector. -/
theorem function_wrong_length_sigma_refused :
    resolve {
      est := .function, n := 6, nLandmarks := none, landmarks := none, rank := .none,
      gpType := .none, withUnc := false, opt := .lbfgsb, kept := 1, sigma := .vecL 1 }
      = .refused .sigmaShape ∧
    resolve {
      est := .function, n := 6, nLandmarks := none, landmarks := some 4, rank := .none,
      gpType := .none, withUnc := true, opt := .lbfgsb, kept := 1, sigma := .vecL 7 }
      = .refused .sigmaShape ∧
    resolve {
      est := .function, n := 6, nLandmarks := none, landmarks := some 4, rank := .none,
      gpType := .none, withUnc := true, opt := .lbfgsb, kept := 1, sigma := .vecL 6 }
      = .ok .sparseCholesky 6 4 .landmarks := by decide

/-- `fixed` with more requested landmarks than cells keeps the `n` cells as landmarks; handing these landmarks back
    together with the same request (what every repeated `fit` of such a model does, and what a fresh model given the
    fitted model's landmarks — the cells, `lmCells` — does) is accepted and resolves exactly as the first fit. -/
theorem fixed_overrequest_refit (c : Config) (hl : c.landmarks = none) (r : Resolved)
    (hp : prepare c = .ok r) (hg : r.gp = .fixed) (hn : c.n < r.nl) (hnl : c.nLandmarks = some (r.nl : Int)) :
    prepare { c with landmarks := some c.n, lmCells := true } = .ok r := by
  obtain ⟨nlU, rkU, gpU, h1, h2, h3, h4, h5, h6, hv⟩ := prepare_ok hp
  have hnlU : nlU = some r.nl := by
    rw [hnl] at h1
    simp only [initNLandmarks, validateNonnegInt] at h1
    have hneg : ¬ ((r.nl : Int) < 0) := by omega
    rw [if_neg hneg] at h1
    simp [Except.map] at h1
    exact h1.symm
  subst hnlU
  unfold prepare
  dsimp only
  rw [h1, h2, h3]
  simp only [Option.getD_some] at h5 h6 ⊢
  rw [← h5, ← h6]
  have hv' : validateParams r.rank r.gp c.n r.nl (some c.n) = .ok () := by
    rw [validateParams_ok] at hv ⊢
    refine ⟨fun m hm => Or.inr ⟨hg, (Option.some.inj hm).symm, hn⟩, hv.2⟩
  rw [hv']
  simp

/-- … but only the cells themselves: `n` other landmark rows next to a larger request are a contradiction like any other. -/
theorem fixed_overrequest_foreign_landmarks_refused :
    resolve {
      est := .density, n := 12, nLandmarks := some 13, landmarks := some 12, rank := .none,
      gpType := .str ['f','i','x','e','d'], withUnc := false, opt := .lbfgsb, kept := 12, sigma := .scalar, lmCells := false }
      = .refused .landmarkCount := by decide

example :
    resolve {
      est := .density, n := 12, nLandmarks := some 13, landmarks := some 12, rank := .none,
      gpType := .str ['f','i','x','e','d'], withUnc := false, opt := .lbfgsb, kept := 12, sigma := .scalar, lmCells := true }
      = .ok .fixed 12 12 .landmarksCholesky ∧
    resolve {
      est := .density, n := 12, nLandmarks := some 13, landmarks := some 11, rank := .none,
      gpType := .str ['f','i','x','e','d'], withUnc := false, opt := .lbfgsb, kept := 11, sigma := .scalar }
      = .refused .landmarkCount := by decide

/-- F6: explicit landmarks (8 rows ≥ 6 cells) resolve to `full` and the Full predictor. -/
theorem function_full_with_landmarks_is_full :
    resolve {
      est := .function, n := 6, nLandmarks := none, landmarks := some 8, rank := .none,
      gpType := .none, withUnc := false, opt := .lbfgsb, kept := 1, sigma := .scalar }
      = .ok .full 6 6 .full := by decide

/-! ### non-vacuity: accepted configurations of every type exist -/

example : resolve {
    est := .density, n := 12, nLandmarks := none, landmarks := none, rank := .none,
    gpType := .none, withUnc := false, opt := .lbfgsb, kept := 1, sigma := .scalar }
    = .ok .full 12 12 .full := by decide

example : resolve {
    est := .density, n := 12, nLandmarks := some 5, landmarks := none, rank := .int 2,
    gpType := .none, withUnc := true, opt := .advi, kept := 1, sigma := .scalar }
    = .ok .sparseNystroem 12 2 .landmarks := by decide

example : resolve {
    est := .timeSensitive, n := 12, nLandmarks := none, landmarks := none, rank := .none,
    gpType := .str ['f','i','x','e','d'], withUnc := false, opt := .adam, kept := 1, sigma := .scalar }
    = .ok .fixed 12 12 .landmarksCholesky := by decide

example : resolve {
    est := .density, n := 12, nLandmarks := some 1, landmarks := none, rank := .none,
    gpType := .none, withUnc := false, opt := .adam, kept := 1, sigma := .scalar }
    = .refused .nLandmarksOne := by decide

end Mellon.C15
