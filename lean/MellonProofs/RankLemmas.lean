/-
  MellonProofs.RankLemmas — helper lemmas about `countPos`, `cumsumFrom`, `searchLeft`, `sliceLast`,
  `prefixSum` over a linearly ordered field (C10).
-/
import MellonProofs.Real
import MellonModel.Rank

namespace Mellon

set_option linter.unusedSectionVars false

section field
variable {K : Type} [Field K] [LinearOrder K] [IsStrictOrderedRing K]

/-- Descending order (what reversing `eigh`'s ascending eigenvalues gives). -/
def Desc (l : List K) : Prop := l.Pairwise (fun a b => b ≤ a)

theorem prefixSum_eq (l : List K) (p : Nat) : prefixSum l p = (l.take p).sum := rfl

theorem countPos_le_length (l : List K) : countPos l ≤ l.length := by
  induction l with
  | nil => simp [countPos]
  | cons x xs ih => simp only [countPos, List.length_cons]; split <;> omega

theorem countPos_eq_zero_of_nonpos (l : List K) (h : ∀ y ∈ l, y ≤ 0) : countPos l = 0 := by
  induction l with
  | nil => rfl
  | cons x xs ih =>
    have hx : ¬ (0 < x) := not_lt.mpr (h x (by simp))
    simp [countPos, hx, ih (fun y hy => h y (by simp [hy]))]

/-- In a descending list the first `countPos` entries are exactly the positive ones. -/
theorem take_countPos_pos (l : List K) (hd : Desc l) : ∀ x ∈ l.take (countPos l), 0 < x := by
  induction l with
  | nil => simp [countPos]
  | cons x xs ih =>
    have hd' : Desc xs := (List.pairwise_cons.mp hd).2
    by_cases hx : 0 < x
    · intro y hy
      have e : countPos (x :: xs) = countPos xs + 1 := by simp [countPos, hx, Nat.add_comm]
      rw [e, List.take_succ_cons, List.mem_cons] at hy
      rcases hy with rfl | hy
      · exact hx
      · exact ih hd' y hy
    · have hall : ∀ y ∈ xs, y ≤ 0 := fun y hy =>
        le_trans ((List.pairwise_cons.mp hd).1 y hy) (not_lt.mp hx)
      have e : countPos (x :: xs) = 0 := by
        simp [countPos, hx, countPos_eq_zero_of_nonpos xs hall]
      simp [e]

theorem drop_countPos_nonpos (l : List K) (hd : Desc l) : ∀ x ∈ l.drop (countPos l), x ≤ 0 := by
  induction l with
  | nil => simp [countPos]
  | cons x xs ih =>
    have hd' : Desc xs := (List.pairwise_cons.mp hd).2
    by_cases hx : 0 < x
    · have e : countPos (x :: xs) = countPos xs + 1 := by simp [countPos, hx, Nat.add_comm]
      rw [e, List.drop_succ_cons]; exact ih hd'
    · have hall : ∀ y ∈ xs, y ≤ 0 := fun y hy =>
        le_trans ((List.pairwise_cons.mp hd).1 y hy) (not_lt.mp hx)
      have e : countPos (x :: xs) = 0 := by
        simp [countPos, hx, countPos_eq_zero_of_nonpos xs hall]
      intro y hy
      rw [e, List.drop_zero, List.mem_cons] at hy
      rcases hy with rfl | hy
      · exact not_lt.mp hx
      · exact hall y hy

theorem sum_pos_of_pos (l : List K) (h : ∀ x ∈ l, 0 < x) (hne : l ≠ []) : 0 < l.sum := by
  induction l with
  | nil => exact absurd rfl hne
  | cons x xs ih =>
    rw [List.sum_cons]
    have hx : 0 < x := h x (by simp)
    by_cases hxs : xs = []
    · subst hxs; simpa using hx
    · have := ih (fun y hy => h y (by simp [hy])) hxs
      linarith

theorem sum_nonneg_of_nonneg (l : List K) (h : ∀ x ∈ l, 0 ≤ x) : 0 ≤ l.sum := by
  induction l with
  | nil => simp
  | cons x xs ih =>
    rw [List.sum_cons]
    have := ih (fun y hy => h y (by simp [hy]))
    have := h x (by simp)
    linarith

/-- Prefix sums grow as long as the added entries are non-negative. -/
theorem take_sum_mono (l : List K) (p q : Nat) (hpq : p ≤ q) (h : ∀ x ∈ l.take q, 0 ≤ x) :
    (l.take p).sum ≤ (l.take q).sum := by
  induction l generalizing p q with
  | nil => simp
  | cons x xs ih =>
    cases p with
    | zero => simpa using sum_nonneg_of_nonneg _ h
    | succ p' =>
      cases q with
      | zero => omega
      | succ q' =>
        simp only [List.take_succ_cons, List.sum_cons]
        have := ih p' q' (by omega) (fun y hy => h y (by simp [List.take_succ_cons, hy]))
        linarith

/-! ### cumsum -/

theorem cumsumFrom_length (a : K) (l : List K) : (cumsumFrom a l).length = l.length := by
  induction l generalizing a with
  | nil => rfl
  | cons x xs ih => simp [cumsumFrom, ih]

theorem cumsumFrom_getLast? (a : K) (l : List K) (hne : l ≠ []) :
    (cumsumFrom a l).getLast? = some (a + l.sum) := by
  induction l generalizing a with
  | nil => exact absurd rfl hne
  | cons x xs ih =>
    cases xs with
    | nil => simp [cumsumFrom]
    | cons y ys =>
      have := ih (a + x) (by simp)
      simp only [cumsumFrom] at this ⊢
      rw [List.getLast?_cons_cons, this, List.sum_cons, List.sum_cons, List.sum_cons]
      congr 1; ring

theorem cumsumFrom_nil_iff (a : K) (l : List K) : cumsumFrom a l = [] ↔ l = [] := by
  cases l <;> simp [cumsumFrom]

/-! ### searchsorted (left) on a cumulative sum -/

/-- `k = searchLeft (cumsumFrom a l) t`: every non-empty prefix of length `≤ k` stays below `t`, and
    the prefix of length `k+1` (if there is one) reaches `t`. -/
theorem searchLeft_cumsum (a t : K) (l : List K) :
    (∀ q, 1 ≤ q → q ≤ searchLeft (cumsumFrom a l) t → a + (l.take q).sum < t) ∧
    (searchLeft (cumsumFrom a l) t < l.length →
        t ≤ a + (l.take (searchLeft (cumsumFrom a l) t + 1)).sum) ∧
    searchLeft (cumsumFrom a l) t ≤ l.length := by
  induction l generalizing a with
  | nil =>
    refine ⟨fun q h1 h2 => ?_, fun h => ?_, ?_⟩
    · simp only [cumsumFrom, searchLeft] at h2; omega
    · simp [cumsumFrom, searchLeft] at h
    · simp [cumsumFrom, searchLeft]
  | cons x xs ih =>
    by_cases hlt : a + x < t
    · have e : searchLeft (cumsumFrom a (x :: xs)) t = searchLeft (cumsumFrom (a + x) xs) t + 1 := by
        simp [cumsumFrom, searchLeft, hlt]
      obtain ⟨h1, h2, h3⟩ := ih (a + x)
      rw [e]
      refine ⟨?_, ?_, ?_⟩
      · intro q hq1 hq2
        cases q with
        | zero => omega
        | succ q' =>
          rw [List.take_succ_cons, List.sum_cons]
          by_cases hq0 : q' = 0
          · subst hq0; simpa using hlt
          · have := h1 q' (by omega) (by omega)
            linarith
      · intro hk
        have := h2 (by simpa using hk)
        rw [List.take_succ_cons, List.sum_cons]
        linarith
      · simpa using h3
    · have e : searchLeft (cumsumFrom a (x :: xs)) t = 0 := by
        simp [cumsumFrom, searchLeft, hlt]
      rw [e]
      refine ⟨?_, ?_, ?_⟩
      · intro q hq1 hq2; omega
      · intro _
        simpa using not_lt.mp hlt
      · omega

/-- On a non-decreasing array the linear scan equals NumPy's specification of
    `searchsorted(side='left')`: the number of elements `< t`. -/
theorem searchLeft_eq_countP (l : List K) (hs : l.Pairwise (fun a b => a ≤ b)) (t : K) :
    searchLeft l t = l.countP (fun x => decide (x < t)) := by
  induction l with
  | nil => rfl
  | cons x xs ih =>
    have hs' := (List.pairwise_cons.mp hs).2
    by_cases hlt : x < t
    · simp [searchLeft, hlt, ih hs']
    · have hall : ∀ y ∈ xs, ¬ (y < t) := fun y hy =>
        not_lt.mpr (le_trans (not_lt.mp hlt) ((List.pairwise_cons.mp hs).1 y hy))
      have : xs.countP (fun x => decide (x < t)) = 0 := by
        rw [List.countP_eq_zero]; intro y hy; simpa using hall y hy
      simp [searchLeft, hlt, this]

theorem le_of_mem_cumsumFrom (a : K) (l : List K) (h : ∀ x ∈ l, 0 ≤ x) :
    ∀ y ∈ cumsumFrom a l, a ≤ y := by
  induction l generalizing a with
  | nil => simp [cumsumFrom]
  | cons x xs ih =>
    intro y hy
    have hx := h x (by simp)
    simp only [cumsumFrom, List.mem_cons] at hy
    rcases hy with rfl | hy
    · linarith
    · have := ih (a + x) (fun z hz => h z (by simp [hz])) y hy
      linarith

theorem cumsumFrom_sorted (a : K) (l : List K) (h : ∀ x ∈ l, 0 ≤ x) :
    (cumsumFrom a l).Pairwise (fun a b => a ≤ b) := by
  induction l generalizing a with
  | nil => simp [cumsumFrom]
  | cons x xs ih =>
    simp only [cumsumFrom, List.pairwise_cons]
    exact ⟨le_of_mem_cumsumFrom (a + x) xs (fun z hz => h z (by simp [hz])),
      ih (a + x) (fun z hz => h z (by simp [hz]))⟩

/-! ### `[-p:]` -/

theorem sliceLast_of_pos (n p : Nat) (h1 : 1 ≤ p) (h2 : p ≤ n) : sliceLast n (p : Int) = p := by
  unfold sliceLast
  have : ¬ ((p : Int) = 0) := by omega
  have h0 : (0 : Int) < p := by omega
  simp only [this, if_false, h0, if_true, Int.toNat_natCast]
  omega

theorem take_countPos_length (s : List K) : (s.take (countPos s)).length = countPos s := by
  rw [List.length_take]; exact Nat.min_eq_left (countPos_le_length s)

theorem posTotal_eq (s : List K) : posTotal s = (s.take (countPos s)).sum := rfl

theorem posTotal_pos (s : List K) (hd : Desc s) (hpos : 0 < countPos s) : 0 < posTotal s := by
  rw [posTotal_eq]
  apply sum_pos_of_pos _ (take_countPos_pos s hd)
  intro h
  have := take_countPos_length s
  rw [h] at this
  simp at this
  omega

/-- Closed form of the fractional branch when there is a positive eigenvalue. -/
theorem selectRank_frac_eq (s : List K) (f : K) (hpos : 0 < countPos s) :
    selectRank s (.frac f)
      = some (min (searchLeft (cumsum (s.take (countPos s))) (posTotal s * f) + 1) (countPos s)) := by
  have hlen := take_countPos_length s
  have hne : s.take (countPos s) ≠ [] := by
    intro h; rw [h] at hlen; simp at hlen; omega
  have hlast : (cumsum (s.take (countPos s))).getLast? = some (posTotal s) := by
    unfold cumsum
    rw [cumsumFrom_getLast? 0 _ hne, posTotal_eq, zero_add]
  have hcl : (cumsum (s.take (countPos s))).length = countPos s := by
    unfold cumsum; rw [cumsumFrom_length, hlen]
  unfold selectRank
  simp only [hlast, hcl]
  have hle := countPos_le_length s
  have hp1 : 1 ≤ min (searchLeft (cumsum (s.take (countPos s))) (posTotal s * f) + 1) (countPos s) := by
    omega
  have hp0 : ¬ (min (searchLeft (cumsum (s.take (countPos s))) (posTotal s * f) + 1) (countPos s) = 0) := by
    omega
  simp only [hp0, if_false]
  rw [sliceLast_of_pos _ _ hp1 (by omega)]

end field

/-! ### the factor `L = V_p √S_p` over ℝ -/

section real
open Finset

/-- `eigh` contract, part 1: the columns of `V` are orthonormal. -/
def OrthoCols {n : Nat} (V : Mat ℝ n n) : Prop :=
  ∀ c k, c < n → k < n → ∑ j ∈ range n, V.el j c * V.el j k = if c = k then 1 else 0

/-- `eigh` contract, part 2: `A = V diag(s) Vᵀ`. -/
def EigDecomp {n : Nat} (A V : Mat ℝ n n) (s : Vector ℝ n) : Prop :=
  ∀ i j, i < n → j < n → A.el i j = ∑ c ∈ range n, V.el i c * s.nth c * V.el j c

/-- `(L Lᵀ)ᵢⱼ` for the rank-`p` factor. -/
noncomputable def gramLow {n : Nat} (V : Mat ℝ n n) (s : Vector ℝ n) (p : Nat) (i j : Nat) : ℝ :=
  ∑ c ∈ range p, (lowRankFactor V s p).el i c * (lowRankFactor V s p).el j c

theorem gramLow_eq {n : Nat} (V : Mat ℝ n n) (s : Vector ℝ n) (p : Nat)
    (hs : ∀ c, c < p → 0 ≤ s.nth c) (i j : Nat) (hi : i < n) (hj : j < n) :
    gramLow V s p i j = ∑ c ∈ range p, V.el i c * s.nth c * V.el j c := by
  unfold gramLow
  apply Finset.sum_congr rfl
  intro c hc
  have hc' := mem_range.mp hc
  simp only [lowRankFactor, el_ofFn, hi, hj, hc', and_self, if_true, sqrt_real]
  have := Real.mul_self_sqrt (hs c hc')
  calc V.el i c * Real.sqrt (s.nth c) * (V.el j c * Real.sqrt (s.nth c))
      = V.el i c * (Real.sqrt (s.nth c) * Real.sqrt (s.nth c)) * V.el j c := by ring
    _ = V.el i c * s.nth c * V.el j c := by rw [this]

/-- `∑ⱼ (∑_{c<p} V_ic s_c V_jc) V_jk = s_k V_ik` for `k < p` (orthonormal columns). -/
theorem spectral_apply {n : Nat} (V : Mat ℝ n n) (s : Vector ℝ n) (hV : OrthoCols V) (p : Nat)
    (hp : p ≤ n) (i k : Nat) (hk : k < p) :
    ∑ j ∈ range n, (∑ c ∈ range p, V.el i c * s.nth c * V.el j c) * V.el j k
      = s.nth k * V.el i k := by
  calc ∑ j ∈ range n, (∑ c ∈ range p, V.el i c * s.nth c * V.el j c) * V.el j k
      = ∑ c ∈ range p, V.el i c * s.nth c * ∑ j ∈ range n, V.el j c * V.el j k := by
        simp_rw [Finset.sum_mul]
        rw [Finset.sum_comm]
        apply Finset.sum_congr rfl; intro c _
        rw [Finset.mul_sum]
        apply Finset.sum_congr rfl; intro j _
        ring
    _ = ∑ c ∈ range p, V.el i c * s.nth c * (if c = k then 1 else 0) := by
        apply Finset.sum_congr rfl; intro c hc
        rw [hV c k (lt_of_lt_of_le (mem_range.mp hc) hp) (lt_of_lt_of_le hk hp)]
    _ = s.nth k * V.el i k := by
        rw [Finset.sum_eq_single k]
        · simp [mul_comm]
        · intro c _ hck; simp [hck]
        · intro hk'; exact absurd (mem_range.mpr hk) hk'

end real

end Mellon
