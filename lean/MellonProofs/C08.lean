/-
  C08 — Density estimates transform correctly under symmetries of the data.
  Property theorems only (α = ℝ).  Part 1: geometry (distance, kernels).  Part 2 (likelihood scaling
  laws) is in the section below and uses the inference model.
-/
import MellonProofs.KernelLemmas
import Mathlib.LinearAlgebra.Matrix.Orthogonal
import Mathlib.Data.Matrix.Mul

open Matrix Finset

namespace Mellon.C08
open Mellon

/-! ### the squared distance under translations, scalings and orthogonal maps -/

/-- Coordinate-wise translation. -/
def translate (t x : List ℝ) : List ℝ := List.zipWith (· + ·) x t

/-- Coordinate-wise scaling. -/
def scale (a : ℝ) (x : List ℝ) : List ℝ := x.map (a * ·)

theorem sqdist_translate (t x y : List ℝ) (hx : x.length = t.length) (hy : y.length = t.length) :
    sqdist (translate t x) (translate t y) = sqdist x y := by
  induction t generalizing x y with
  | nil =>
    have hx' : x = [] := List.length_eq_zero_iff.mp hx
    have hy' : y = [] := List.length_eq_zero_iff.mp hy
    subst hx'; subst hy'; simp [translate, sqdist]
  | cons a as ih =>
    cases x with
    | nil => simp at hx
    | cons b bs =>
      cases y with
      | nil => simp at hy
      | cons c cs =>
        simp only [translate, List.zipWith_cons_cons, sqdist]
        have := ih bs cs (by simpa using hx) (by simpa using hy)
        simp only [translate] at this
        rw [this]; ring

theorem sqdist_scale (a : ℝ) (x y : List ℝ) : sqdist (scale a x) (scale a y) = a ^ 2 * sqdist x y := by
  induction x generalizing y with
  | nil => cases y <;> simp [scale, sqdist]
  | cons b bs ih =>
    cases y with
    | nil => simp [scale, sqdist]
    | cons c cs =>
      simp only [scale, List.map_cons, sqdist]
      have := ih cs
      simp only [scale] at this
      rw [this]; ring

theorem sqdist_ofFn {d : Nat} (u v : Fin d → ℝ) :
    sqdist (List.ofFn u) (List.ofFn v) = ∑ i, (u i - v i) ^ 2 := by
  induction d with
  | zero => simp [sqdist]
  | succ d ih =>
    rw [List.ofFn_succ, List.ofFn_succ, Fin.sum_univ_succ]
    simp only [sqdist]
    rw [ih]

/-- Orthogonal maps (`QᵀQ = 1`: rotations and reflections) preserve the squared distance. -/
theorem sqdist_orthogonal {d : Nat} (Q : Matrix (Fin d) (Fin d) ℝ) (hQ : Qᵀ * Q = 1) (u v : Fin d → ℝ) :
    sqdist (List.ofFn (Q *ᵥ u)) (List.ofFn (Q *ᵥ v)) = sqdist (List.ofFn u) (List.ofFn v) := by
  rw [sqdist_ofFn, sqdist_ofFn]
  have h1 : ∀ w : Fin d → ℝ, ∑ i, (w i) ^ 2 = w ⬝ᵥ w := by
    intro w; simp [dotProduct, sq]
  have hsub : ∀ i, (Q *ᵥ u) i - (Q *ᵥ v) i = (Q *ᵥ (u - v)) i := by
    intro i; rw [Matrix.mulVec_sub]; rfl
  calc ∑ i, ((Q *ᵥ u) i - (Q *ᵥ v) i) ^ 2
      = (Q *ᵥ (u - v)) ⬝ᵥ (Q *ᵥ (u - v)) := by
        rw [← h1]; apply Finset.sum_congr rfl; intro i _; rw [hsub]
    _ = (u - v) ⬝ᵥ ((Qᵀ * Q) *ᵥ (u - v)) := by
        rw [← Matrix.mulVec_mulVec, Matrix.dotProduct_mulVec, ← Matrix.mulVec_transpose, dotProduct_comm]
    _ = (u - v) ⬝ᵥ (u - v) := by rw [hQ, Matrix.one_mulVec]
    _ = ∑ i, (u i - v i) ^ 2 := by rw [← h1]; rfl

/-! ### `util.distance` factors through the squared distance -/

/-- Everything downstream sees the points only through this function of the squared distance. -/
theorem distance_factors (x y x' y' : List ℝ) (h : x.length = y.length) (h' : x'.length = y'.length)
    (hs : sqdist x' y' = sqdist x y) : distance x' y' = distance x y := by
  rw [distance_eq x y h, distance_eq x' y' h', hs]

/-- Isometry invariance of the distance (translation). -/
theorem distance_translate (t x y : List ℝ) (hx : x.length = t.length) (hy : y.length = t.length) :
    distance (translate t x) (translate t y) = distance x y := by
  apply distance_factors
  · rw [hx, hy]
  · simp [translate, hx, hy]
  · exact sqdist_translate t x y hx hy

/-- Isometry invariance of the distance (orthogonal maps). -/
theorem distance_orthogonal {d : Nat} (Q : Matrix (Fin d) (Fin d) ℝ) (hQ : Qᵀ * Q = 1) (u v : Fin d → ℝ) :
    distance (List.ofFn (Q *ᵥ u)) (List.ofFn (Q *ᵥ v)) = distance (List.ofFn u) (List.ofFn v) := by
  apply distance_factors
  · simp
  · simp
  · exact sqdist_orthogonal Q hQ u v

/-- Scaling: `distance(a x, a y) = a · √(‖x−y‖² + ε/a²)` — the regulariser `ε = 1e-12` does not
    scale with the data, so the exact law carries `ε/a²`. -/
theorem distance_scale (a : ℝ) (ha : 0 < a) (x y : List ℝ) (h : x.length = y.length) :
    distance (scale a x) (scale a y) = a * Real.sqrt (sqdist x y + distEps / a ^ 2) := by
  rw [distance_eq _ _ (by simp [scale, h]), sqdist_scale]
  have hpos : 0 ≤ a ^ 2 := by positivity
  have : a ^ 2 * sqdist x y + distEps = a ^ 2 * (sqdist x y + distEps / a ^ 2) := by
    field_simp
  rw [this, Real.sqrt_mul hpos, Real.sqrt_sq (le_of_lt ha)]

/-! ### kernels built from distances -/

/-- Expression trees whose leaves are the five distance-based kernels and whose nodes use all
    columns (the covariance functions the estimators construct). -/
inductive DistanceBased : Cov ℝ → Prop
  | matern32 (ls) : DistanceBased (.matern32 ls .none)
  | matern52 (ls) : DistanceBased (.matern52 ls .none)
  | expquad (ls) : DistanceBased (.expquad ls .none)
  | exponential (ls) : DistanceBased (.exponential ls .none)
  | ratquad (a ls) : DistanceBased (.ratquad a ls .none)
  | add {l r} : DistanceBased l → DistanceBased r → DistanceBased (.add l r .none)
  | addC {l} (c) : DistanceBased l → DistanceBased (.addC l c .none)
  | mul {l r} : DistanceBased l → DistanceBased r → DistanceBased (.mul l r .none)
  | mulC {l} (c) : DistanceBased l → DistanceBased (.mulC l c .none)
  | pow {l} (p) : DistanceBased l → DistanceBased (.pow l p .none)

/-- Such a kernel sees its arguments only through their distance: any transformation of the pair
    that preserves the distance (every isometry, by the lemmas above) preserves the kernel value —
    hence Gram matrices, factors `L`, and the whole inference problem. -/
theorem kernel_factors_through_distance {c : Cov ℝ} (hc : DistanceBased c) (x y x' y' : List ℝ)
    (hd : distance x' y' = distance x y) : c.k x' y' = c.k x y := by
  induction hc with
  | matern32 ls => simp only [Cov.k, select, hd]
  | matern52 ls => simp only [Cov.k, select, hd]
  | expquad ls => simp only [Cov.k, select, hd]
  | exponential ls => simp only [Cov.k, select, hd]
  | ratquad a ls => simp only [Cov.k, select, hd]
  | add _ _ ihl ihr => simp only [Cov.k, select]; rw [ihl, ihr]
  | addC c _ ih => simp only [Cov.k, select]; rw [ih]
  | mul _ _ ihl ihr => simp only [Cov.k, select]; rw [ihl, ihr]
  | mulC c _ ih => simp only [Cov.k, select]; rw [ih]
  | pow p _ ih => simp only [Cov.k, select]; rw [ih]

/-- Scaling the data by `a` together with the length scale leaves the profile argument
    `distance/ls` unchanged (up to the regulariser term made explicit in `distance_scale`):
    the radial profiles are functions of `distance/ls` only. -/
theorem profile_scale_invariant (a ls dist : ℝ) (ha : a ≠ 0) :
    matern32Profile (a * ls) (a * dist) = matern32Profile ls dist
    ∧ matern52Profile (a * ls) (a * dist) = matern52Profile ls dist
    ∧ expquadProfile (a * ls) (a * dist) = expquadProfile ls dist
    ∧ exponentialProfile (a * ls) (a * dist) = exponentialProfile ls dist
    ∧ ∀ α, ratquadProfile α (a * ls) (a * dist) = ratquadProfile α ls dist := by
  have hdiv : a * dist / (a * ls) = dist / ls := by
    by_cases hls : ls = 0
    · subst hls; simp
    · field_simp
  have hdiv3 : Real.sqrt 3 * (a * dist) / (a * ls) = Real.sqrt 3 * dist / ls := by
    rw [mul_div_assoc, hdiv, mul_div_assoc]
  have hdiv5 : Real.sqrt 5 * (a * dist) / (a * ls) = Real.sqrt 5 * dist / ls := by
    rw [mul_div_assoc, hdiv, mul_div_assoc]
  refine ⟨?_, ?_, ?_, ?_, ?_⟩
  · simp only [matern32Profile, sqrt_real, exp_real, lit3, hdiv3]
  · simp only [matern52Profile, sqrt_real, exp_real, lit5, hdiv5]
  · simp only [expquadProfile, hdiv]
  · simp only [exponentialProfile, hdiv]
  · intro α; simp only [ratquadProfile, hdiv]

end Mellon.C08
