/-
  C08 — Density estimates transform correctly under symmetries of the data.
  Property theorems only (α = ℝ).  Part 1: geometry (distance, kernels).  Part 2 (likelihood scaling
  laws) is in the section below and uses the inference model.
-/
import MellonProofs.KernelLemmas
import MellonProofs.MatrixBridge
import MellonModel.Inference
import MellonProofs.InferenceLemmas
import Mathlib.Data.List.FinRange
import Mathlib.LinearAlgebra.Matrix.Orthogonal
import Mathlib.Data.Matrix.Mul

open Matrix Finset

namespace Mellon.C08
open Mellon

/-! ### the squared distance under translations, scalings and orthogonal maps -/

/-- Coordinate-wise translation. -/
def translate (t x : List ℝ) : List ℝ := List.zipWith (· + ·) x t

/-- Coordinate-wise scaling. -/
def scale (a : ℝ) (x : List ℝ) : List ℝ := x.map (a * ·)

theorem sqdist_translate (t x y : List ℝ) (hx : x.length = t.length) (hy : y.length = t.length) :
    sqdist (translate t x) (translate t y) = sqdist x y := by
  induction t generalizing x y with
  | nil =>
    have hx' : x = [] := List.length_eq_zero_iff.mp hx
    have hy' : y = [] := List.length_eq_zero_iff.mp hy
    subst hx'; subst hy'; simp [translate, sqdist]
  | cons a as ih =>
    cases x with
    | nil => simp at hx
    | cons b bs =>
      cases y with
      | nil => simp at hy
      | cons c cs =>
        simp only [translate, List.zipWith_cons_cons, sqdist]
        have := ih bs cs (by simpa using hx) (by simpa using hy)
        simp only [translate] at this
        rw [this]; ring

theorem sqdist_scale (a : ℝ) (x y : List ℝ) : sqdist (scale a x) (scale a y) = a ^ 2 * sqdist x y := by
  induction x generalizing y with
  | nil => cases y <;> simp [scale, sqdist]
  | cons b bs ih =>
    cases y with
    | nil => simp [scale, sqdist]
    | cons c cs =>
      simp only [scale, List.map_cons, sqdist]
      have := ih cs
      simp only [scale] at this
      rw [this]; ring

theorem sqdist_ofFn {d : Nat} (u v : Fin d → ℝ) :
    sqdist (List.ofFn u) (List.ofFn v) = ∑ i, (u i - v i) ^ 2 := by
  induction d with
  | zero => simp [sqdist]
  | succ d ih =>
    rw [List.ofFn_succ, List.ofFn_succ, Fin.sum_univ_succ]
    simp only [sqdist]
    rw [ih]

/-- Orthogonal maps (`QᵀQ = 1`: rotations and reflections) preserve the squared distance. -/
theorem sqdist_orthogonal {d : Nat} (Q : Matrix (Fin d) (Fin d) ℝ) (hQ : Qᵀ * Q = 1) (u v : Fin d → ℝ) :
    sqdist (List.ofFn (Q *ᵥ u)) (List.ofFn (Q *ᵥ v)) = sqdist (List.ofFn u) (List.ofFn v) := by
  rw [sqdist_ofFn, sqdist_ofFn]
  have h1 : ∀ w : Fin d → ℝ, ∑ i, (w i) ^ 2 = w ⬝ᵥ w := by
    intro w; simp [dotProduct, sq]
  have hsub : ∀ i, (Q *ᵥ u) i - (Q *ᵥ v) i = (Q *ᵥ (u - v)) i := by
    intro i; rw [Matrix.mulVec_sub]; rfl
  calc ∑ i, ((Q *ᵥ u) i - (Q *ᵥ v) i) ^ 2
      = (Q *ᵥ (u - v)) ⬝ᵥ (Q *ᵥ (u - v)) := by
        rw [← h1]; apply Finset.sum_congr rfl; intro i _; rw [hsub]
    _ = (u - v) ⬝ᵥ ((Qᵀ * Q) *ᵥ (u - v)) := by
        rw [← Matrix.mulVec_mulVec, Matrix.dotProduct_mulVec, ← Matrix.mulVec_transpose, dotProduct_comm]
    _ = (u - v) ⬝ᵥ (u - v) := by rw [hQ, Matrix.one_mulVec]
    _ = ∑ i, (u i - v i) ^ 2 := by rw [← h1]; rfl

/-! ### `util.distance` factors through the squared distance -/

/-- Everything downstream sees the points only through this function of the squared distance. -/
theorem distance_factors (x y x' y' : List ℝ) (h : x.length = y.length) (h' : x'.length = y'.length)
    (hs : sqdist x' y' = sqdist x y) : distance x' y' = distance x y := by
  rw [distance_eq x y h, distance_eq x' y' h', hs]

/-- Isometry invariance of the distance (translation). -/
theorem distance_translate (t x y : List ℝ) (hx : x.length = t.length) (hy : y.length = t.length) :
    distance (translate t x) (translate t y) = distance x y := by
  apply distance_factors
  · rw [hx, hy]
  · simp [translate, hx, hy]
  · exact sqdist_translate t x y hx hy

/-- Isometry invariance of the distance (orthogonal maps). -/
theorem distance_orthogonal {d : Nat} (Q : Matrix (Fin d) (Fin d) ℝ) (hQ : Qᵀ * Q = 1) (u v : Fin d → ℝ) :
    distance (List.ofFn (Q *ᵥ u)) (List.ofFn (Q *ᵥ v)) = distance (List.ofFn u) (List.ofFn v) := by
  apply distance_factors
  · simp
  · simp
  · exact sqdist_orthogonal Q hQ u v

/-- Scaling: `distance(a x, a y) = a · √(‖x−y‖² + ε/a²)` — the regulariser `ε = 1e-12` does not
    scale with the data, so the exact law carries `ε/a²`. -/
theorem distance_scale (a : ℝ) (ha : 0 < a) (x y : List ℝ) (h : x.length = y.length) :
    distance (scale a x) (scale a y) = a * Real.sqrt (sqdist x y + distEps / a ^ 2) := by
  rw [distance_eq _ _ (by simp [scale, h]), sqdist_scale]
  have hpos : 0 ≤ a ^ 2 := by positivity
  have : a ^ 2 * sqdist x y + distEps = a ^ 2 * (sqdist x y + distEps / a ^ 2) := by
    field_simp
  rw [this, Real.sqrt_mul hpos, Real.sqrt_sq (le_of_lt ha)]

/-- The recorded finding `C08:regulariser-scale`, as a theorem about the model: because the regulariser is absolute, the
    distance is NOT homogeneous — at coincident points `distance(a x, a x) = √ε` whatever `a`, while `a · distance(x, x) = a √ε`.
    (Exact scale covariance of kernel values therefore fails by the `ε/a²` term of `distance_scale`; the checks budget it.) -/
theorem distance_not_homogeneous (a : ℝ) (ha : 0 < a) (ha1 : a ≠ 1) (x : List ℝ) :
    distance (scale a x) (scale a x) ≠ a * distance x x := by
  rw [distance_eq _ _ rfl, distance_eq _ _ rfl, sqdist_self, sqdist_self, zero_add]
  have he : 0 < Real.sqrt (distEps : ℝ) := Real.sqrt_pos.mpr distEps_pos
  intro h
  have : (1 : ℝ) * Real.sqrt distEps = a * Real.sqrt distEps := by rw [one_mul]; exact h
  exact ha1 (mul_right_cancel₀ (ne_of_gt he) this).symm

/-! ### kernels built from distances -/

/-- Expression trees whose leaves are the five distance-based kernels and whose nodes use all
    columns (the covariance functions the estimators construct). -/
inductive DistanceBased : Cov ℝ → Prop
  | matern32 (ls) : DistanceBased (.matern32 ls .none)
  | matern52 (ls) : DistanceBased (.matern52 ls .none)
  | expquad (ls) : DistanceBased (.expquad ls .none)
  | exponential (ls) : DistanceBased (.exponential ls .none)
  | ratquad (a ls) : DistanceBased (.ratquad a ls .none)
  | add {l r} : DistanceBased l → DistanceBased r → DistanceBased (.add l r .none)
  | addC {l} (c) : DistanceBased l → DistanceBased (.addC l c .none)
  | mul {l r} : DistanceBased l → DistanceBased r → DistanceBased (.mul l r .none)
  | mulC {l} (c) : DistanceBased l → DistanceBased (.mulC l c .none)
  | pow {l} (p) : DistanceBased l → DistanceBased (.pow l p .none)

/-- Such a kernel sees its arguments only through their distance: any transformation of the pair
    that preserves the distance (every isometry, by the lemmas above) preserves the kernel value —
    hence Gram matrices, factors `L`, and the whole inference problem. -/
theorem kernel_factors_through_distance {c : Cov ℝ} (hc : DistanceBased c) (x y x' y' : List ℝ)
    (hd : distance x' y' = distance x y) : c.k x' y' = c.k x y := by
  induction hc with
  | matern32 ls => simp only [Cov.k, select, hd]
  | matern52 ls => simp only [Cov.k, select, hd]
  | expquad ls => simp only [Cov.k, select, hd]
  | exponential ls => simp only [Cov.k, select, hd]
  | ratquad a ls => simp only [Cov.k, select, hd]
  | add _ _ ihl ihr => simp only [Cov.k, select]; rw [ihl, ihr]
  | addC c _ ih => simp only [Cov.k, select]; rw [ih]
  | mul _ _ ihl ihr => simp only [Cov.k, select]; rw [ihl, ihr]
  | mulC c _ ih => simp only [Cov.k, select]; rw [ih]
  | pow p _ ih => simp only [Cov.k, select]; rw [ih]

/-- Scaling the data by `a` together with the length scale leaves the profile argument
    `distance/ls` unchanged (up to the regulariser term made explicit in `distance_scale`):
    the radial profiles are functions of `distance/ls` only. -/
theorem profile_scale_invariant (a ls dist : ℝ) (ha : a ≠ 0) :
    matern32Profile (a * ls) (a * dist) = matern32Profile ls dist
    ∧ matern52Profile (a * ls) (a * dist) = matern52Profile ls dist
    ∧ expquadProfile (a * ls) (a * dist) = expquadProfile ls dist
    ∧ exponentialProfile (a * ls) (a * dist) = exponentialProfile ls dist
    ∧ ∀ α, ratquadProfile α (a * ls) (a * dist) = ratquadProfile α ls dist := by
  have hdiv : a * dist / (a * ls) = dist / ls := by
    by_cases hls : ls = 0
    · subst hls; simp
    · field_simp
  have hdiv3 : Real.sqrt 3 * (a * dist) / (a * ls) = Real.sqrt 3 * dist / ls := by
    rw [mul_div_assoc, hdiv, mul_div_assoc]
  have hdiv5 : Real.sqrt 5 * (a * dist) / (a * ls) = Real.sqrt 5 * dist / ls := by
    rw [mul_div_assoc, hdiv, mul_div_assoc]
  refine ⟨?_, ?_, ?_, ?_, ?_⟩
  · simp only [matern32Profile, sqrt_real, exp_real, lit3, hdiv3]
  · simp only [matern52Profile, sqrt_real, exp_real, lit5, hdiv5]
  · simp only [expquadProfile, hdiv]
  · simp only [exponentialProfile, hdiv]
  · intro α; simp only [ratquadProfile, hdiv]

/-! ### scaling laws of the likelihood (part 2) -/

/-- The closed-form MLE log-density shifts by `−d·log a` when distances are multiplied by `a`. -/
theorem mle_scale (a r d : ℝ) (ha : 0 < a) (hr : 0 < r) :
    mle (a * r) d = mle r d - d * Real.log a := by
  simp only [mle, log_real, lit2, lgamma_real, pi_real, Real.log_mul (ne_of_gt ha) (ne_of_gt hr)]
  ring

/-- One likelihood term: with distances scaled by `a` and the log-density shifted by `−d·log a`
    the term changes by exactly `−log a`. -/
theorem nnTerm_scale (a r d ld : ℝ) (ha : 0 < a) (hr : 0 < r) :
    nnTerm (a * r) d (ld - d * Real.log a) = nnTerm r d ld - Real.log a := by
  have hV : nnLogV (a * r) d = nnLogV r d + d * Real.log a := by
    simp only [nnLogV, log_real, Real.log_mul (ne_of_gt ha) (ne_of_gt hr)]; ring
  have hVdr : nnLogVdr (a * r) d = nnLogVdr r d + (d - 1) * Real.log a := by
    simp only [nnLogVdr, log_real, Real.log_mul (ne_of_gt ha) (ne_of_gt hr)]; ring
  simp only [nnTerm, hV, hVdr, exp_real]
  have e : ld - d * Real.log a + (nnLogV r d + d * Real.log a) = ld + nnLogV r d := by ring
  rw [e]; ring

/-- The whole nearest-neighbour log-likelihood shifts by `−n·log a` (scalar dimensionality `d`). -/
theorem nnLoglik_scale {n : Nat} (a d : ℝ) (ha : 0 < a) (r r' ld ld' : Vector ℝ n)
    (hr : ∀ i, i < n → 0 < r.nth i) (hr' : ∀ i, i < n → r'.nth i = a * r.nth i)
    (hld : ∀ i, i < n → ld'.nth i = ld.nth i - d * Real.log a) :
    nnLoglik r' (.scalar d) ld' = nnLoglik r (.scalar d) ld - n * Real.log a := by
  unfold nnLoglik
  rw [nsum_eq_sum, nsum_eq_sum]
  have : ∀ i ∈ Finset.range n, nnTerm (r'.nth i) ((DimArg.scalar d : DimArg ℝ n).get i) (ld'.nth i)
      = nnTerm (r.nth i) ((DimArg.scalar d : DimArg ℝ n).get i) (ld.nth i) - Real.log a := by
    intro i hi
    have hi' := Finset.mem_range.mp hi
    simp only [DimArg.get]
    rw [hr' i hi', hld i hi', nnTerm_scale a _ d _ ha (hr i hi')]
  rw [Finset.sum_congr rfl this, Finset.sum_sub_distrib]
  simp

/-- **The auto-selected length scale scales with the data**: with all nearest-neighbour distances
    multiplied by `a > 0`, `compute_ls` (and the estimator's `ls = compute_ls · ls_factor`) is multiplied
    by `a` — so `distance / ls`, hence every Gram matrix and the factor `L`, is unchanged
    (`profile_scale_invariant`), which is the hypothesis "same `L`" of `loss_scale`. -/
theorem ls_scale {n : Nat} (hn : 0 < n) (a : ℝ) (ha : 0 < a) (r r' : Vector ℝ n)
    (hr : ∀ i, i < n → 0 < r.nth i) (hr' : ∀ i, i < n → r'.nth i = a * r.nth i) (lsFactor : ℝ) :
    computeLs r' = a * computeLs r ∧ estimatorLs r' lsFactor = a * estimatorLs r lsFactor := by
  have h : computeLs r' = a * computeLs r := by
    unfold computeLs
    simp only [exp_real, log_real, lit3, nsum_eq_sum]
    have hs : ∑ i ∈ range n, Real.log (r'.nth i)
        = (n : ℝ) * Real.log a + ∑ i ∈ range n, Real.log (r.nth i) := by
      rw [Finset.sum_congr rfl (fun i hi => by
        rw [hr' i (mem_range.mp hi), Real.log_mul ha.ne' (hr i (mem_range.mp hi)).ne'])]
      rw [Finset.sum_add_distrib]; simp
    rw [hs]
    have hn' : (n : ℝ) ≠ 0 := by exact_mod_cast hn.ne'
    have e : ((n : ℝ) * Real.log a + ∑ i ∈ range n, Real.log (r.nth i)) / (n : ℝ) + 3
        = Real.log a + ((∑ i ∈ range n, Real.log (r.nth i)) / (n : ℝ) + 3) := by
      field_simp; ring
    rw [e, Real.exp_add, Real.exp_log ha]
  exact ⟨h, by unfold estimatorLs; rw [h]; ring⟩

/-- **The auto-selected length scale follows no order of the cells**: reordering the cells (their
    nearest-neighbour distances permute) leaves `compute_ls` unchanged. -/
theorem ls_perm {n : Nat} (σ : Equiv.Perm (Fin n)) (r r' : Vector ℝ n)
    (hr' : ∀ i : Fin n, r'.nth i = r.nth (σ i)) (lsFactor : ℝ) :
    computeLs r' = computeLs r ∧ estimatorLs r' lsFactor = estimatorLs r lsFactor := by
  have hs : ∑ i ∈ range n, Real.log (r'.nth i) = ∑ i ∈ range n, Real.log (r.nth i) := by
    rw [← sum_fin_eq_range (fun i => Real.log (r'.nth i)), ← sum_fin_eq_range (fun i => Real.log (r.nth i))]
    simp only [hr']
    exact Equiv.sum_comp σ (fun i : Fin n => Real.log (r.nth i))
  have h : computeLs r' = computeLs r := by
    unfold computeLs
    simp only [exp_real, log_real, lit3, nsum_eq_sum]
    rw [hs]
  exact ⟨h, by unfold estimatorLs; rw [h]⟩

/-- **The auto-selected prior mean shifts with the data**: with all nearest-neighbour distances
    multiplied by `a > 0` (scalar dimensionality `d`), `compute_mu` — the interpolated 1st percentile of
    the MLE log-densities minus 10 — shifts by exactly `−d·log a`, which is the hypothesis on `mu` of
    `loss_scale` (every order statistic shifts: `sortAsc_map_sub`, `quantile01_map_sub`). -/
theorem mu_scale {n : Nat} (hn : 0 < n) (a d : ℝ) (ha : 0 < a) (r r' : Vector ℝ n)
    (hr : ∀ i, i < n → 0 < r.nth i) (hr' : ∀ i, i < n → r'.nth i = a * r.nth i) :
    computeMu r' (.scalar d) = computeMu r (.scalar d) - d * Real.log a := by
  unfold computeMu
  have hv : (mleVec r' (.scalar d)).toList
      = ((mleVec r (.scalar d)).toList).map (· - d * Real.log a) := by
    unfold mleVec
    rw [toList_vecOfFn, toList_vecOfFn, List.map_map]
    apply List.map_congr_left
    intro i hi
    have hi' : i < n := List.mem_range.mp hi
    simp only [Function.comp, DimArg.get]
    rw [hr' i hi', mle_scale a _ d ha (hr i hi')]
  rw [hv, quantile01_map_sub _ (by unfold mleVec; rw [toList_vecOfFn]; simpa using hn)]
  exact sub_right_comm _ _ _

private theorem range_map_eq_ofFn {n : Nat} (F : Nat → ℝ) :
    (List.range n).map F = List.ofFn (fun i : Fin n => F i) := by
  rw [List.ofFn_eq_map, ← List.map_coe_finRange_eq_range, List.map_map]
  rfl

/-- **The auto-selected prior mean follows no order of the cells**: reordering the cells leaves
    `compute_mu` unchanged (the sorted MLE log-densities are the same list). -/
theorem mu_perm {n : Nat} (σ : Equiv.Perm (Fin n)) (d : ℝ) (r r' : Vector ℝ n)
    (hr' : ∀ i : Fin n, r'.nth i = r.nth (σ i)) :
    computeMu r' (.scalar d) = computeMu r (.scalar d) := by
  have hp : ((mleVec r' (.scalar d)).toList).Perm ((mleVec r (.scalar d)).toList) := by
    unfold mleVec
    rw [toList_vecOfFn, toList_vecOfFn, range_map_eq_ofFn, range_map_eq_ofFn]
    simp only [DimArg.get, hr']
    exact Equiv.Perm.ofFn_comp_perm σ (fun i : Fin n => mle (r.nth i) d)
  have hs : sortAsc (mleVec r' (.scalar d)).toList = sortAsc (mleVec r (.scalar d)).toList := by
    apply List.Perm.eq_of_pairwise (le := (· ≤ ·))
    · intro x y _ _ h1 h2; exact le_antisymm h1 h2
    · exact sortAsc_sorted _
    · exact sortAsc_sorted _
    · exact (sortAsc_perm _).trans (hp.trans (sortAsc_perm _).symm)
  unfold computeMu
  rw [quantile01_eq, quantile01_eq, hs, hp.length_eq]

/-- Non-vacuity: distances `[1, 2]` scaled by `a = 2` satisfy the hypotheses of `ls_scale` / `mu_scale`. -/
example : (∀ i, i < 2 → 0 < (#v[(1:ℝ), 2] : Vector ℝ 2).nth i) := by
  intro i hi
  interval_cases i <;> norm_num [Vector.nth, Vector.nthD]

/-- **Scale covariance of the inference problem.** With distances scaled by `a`, the same factor
    `L` (Gram matrices are unchanged when the length scale scales with the data) and the prior mean
    shifted by `−d·log a`, the loss at every latent vector `z` is the old loss plus `n·log a`:
    same minimiser, fitted log-densities shifted by exactly `−d·log a`. -/
theorem loss_scale {n m : Nat} (a d mu : ℝ) (ha : 0 < a) (r r' : Vector ℝ n) (L : Mat ℝ n m) (k : Nat)
    (z : Vector ℝ m) (hr : ∀ i, i < n → 0 < r.nth i) (hr' : ∀ i, i < n → r'.nth i = a * r.nth i) :
    lossFunc r' (.scalar d) (mu - d * Real.log a) L k z = lossFunc r (.scalar d) mu L k z + n * Real.log a
    ∧ ∀ i, i < n → (transform (mu - d * Real.log a) L z).nth i = (transform mu L z).nth i - d * Real.log a := by
  have htr : ∀ i, i < n →
      (transform (mu - d * Real.log a) L z).nth i = (transform mu L z).nth i - d * Real.log a := by
    intro i hi
    simp only [transform, nth_vecOfFn, hi, if_true]; ring
  refine ⟨?_, htr⟩
  unfold lossFunc
  rw [nnLoglik_scale a d ha r r' (transform mu L z) (transform (mu - d * Real.log a) L z) hr hr' htr]
  ring

/-- **Only `L Lᵀ` matters.** Two factors related by an orthogonal matrix (`L' = L Q`, `QᵀQ = 1` — any
    two square factors of the same positive definite matrix are) give the same loss landscape up to the
    reparametrisation `z ↦ Q z`: same attainable (loss, fitted values) pairs, hence the same MAP
    fitted values.  This is why fitted values follow a permutation of the cells although Cholesky
    factors do not. -/
theorem loss_orthogonal_reparam {n m : Nat} (r : Vector ℝ n) (d : DimArg ℝ n) (mu : ℝ)
    (L L' : Mat ℝ n m) (Q : Matrix (Fin m) (Fin m) ℝ) (hQ : Qᵀ * Q = 1) (hL : toM L' = toM L * Q)
    (k : Nat) (z z' : Vector ℝ m) (hz : toV z' = Q *ᵥ toV z) :
    lossFunc r d mu L' k z = lossFunc r d mu L k z'
    ∧ ∀ i, i < n → (transform mu L' z).nth i = (transform mu L z').nth i := by
  have htr : ∀ i, i < n → (transform mu L' z).nth i = (transform mu L z').nth i := by
    intro i hi
    simp only [transform, nth_vecOfFn, hi, if_true, nsum_eq_sum]
    congr 1
    have h1 : (toM L' *ᵥ toV z) ⟨i, hi⟩ = (toM L *ᵥ toV z') ⟨i, hi⟩ := by
      rw [hL, hz, Matrix.mulVec_mulVec]
    simp only [Matrix.mulVec, dotProduct, toM_apply, toV_apply] at h1
    rw [sum_fin_eq_range (fun t => L'.el i t * z.nth t), sum_fin_eq_range (fun t => L.el i t * z'.nth t)] at h1
    exact h1
  have hss : sumSq z' = sumSq z := by
    unfold sumSq
    rw [nsum_eq_sum, nsum_eq_sum, ← sum_fin_eq_range (fun i => z'.nth i * z'.nth i),
      ← sum_fin_eq_range (fun i => z.nth i * z.nth i)]
    have e1 : ∑ i : Fin m, z'.nth i * z'.nth i = toV z' ⬝ᵥ toV z' := by simp [dotProduct]
    have e2 : ∑ i : Fin m, z.nth i * z.nth i = toV z ⬝ᵥ toV z := by simp [dotProduct]
    rw [e1, e2, hz, Matrix.dotProduct_mulVec, ← Matrix.mulVec_transpose, dotProduct_comm,
      Matrix.mulVec_mulVec, hQ, Matrix.one_mulVec]
  refine ⟨?_, htr⟩
  unfold lossFunc normalLogpdf nnLoglik
  rw [hss]
  congr 2
  apply nsum_congr
  intro i hi
  rw [htr i hi]

end Mellon.C08
