/-
  MellonProofs.KernelGradZeroLemmas — exact zeros of the gradient recursion (helpers of C11):
  columns no leaf can reach, and coincident points of distance-based expressions; the guard factor.
-/
import MellonProofs.KernelGradTreeLemmas

namespace Mellon

/-! ### entries of a scatter-add that stay zero -/

theorem getD_foldl_set_zero (ps : List (Nat × ℝ)) (acc : List ℝ) (j : Nat)
    (hacc : acc.getD j 0 = 0) (hps : ∀ p ∈ ps, p.1 = j → p.2 = 0) :
    (ps.foldl (fun acc (p : Nat × ℝ) => acc.set p.1 (acc.getD p.1 0 + p.2)) acc).getD j 0 = 0 := by
  induction ps generalizing acc with
  | nil => simpa using hacc
  | cons p ps ih =>
    rw [List.foldl_cons]
    apply ih
    · by_cases hpj : p.1 = j
      · have hp2 : p.2 = 0 := hps p (by simp) hpj
        subst hpj
        by_cases hlt : p.1 < acc.length
        · have h0 : acc[p.1] = 0 := by simpa [List.getD_eq_getElem?_getD, hlt] using hacc
          simp [List.getD_eq_getElem?_getD, hlt, hp2, h0]
        · have : acc.set p.1 (acc.getD p.1 0 + p.2) = acc := by
            apply List.set_eq_of_length_le; omega
          rw [this]; exact hacc
      · have h0 : acc[j]?.getD 0 = 0 := by simpa [List.getD_eq_getElem?_getD] using hacc
        simp [List.getD_eq_getElem?_getD, hpj, h0]
    · intro q hq; exact hps q (by simp [hq])

theorem getD_replicate_zero (d j : Nat) : (List.replicate d (0:ℝ)).getD j 0 = 0 := by
  by_cases h : j < d <;> simp [List.getD_eq_getElem?_getD, h]

theorem scatterAdd_getD_zero (d : Nat) (is : List Nat) (vals : List ℝ) (j : Nat)
    (h : ∀ p ∈ is.zip vals, p.1 = j → p.2 = 0) : (scatterAdd d is vals).getD j 0 = 0 :=
  getD_foldl_set_zero _ _ j (getD_replicate_zero d j) h

/-- `is[k] = j` only at positions `k` whose value is `0`. -/
theorem scatterAdd_getD_zero' (d : Nat) (is : List Nat) (vals : List ℝ) (j : Nat)
    (h : ∀ k, is[k]? = some j → vals.getD k 0 = 0) : (scatterAdd d is vals).getD j 0 = 0 := by
  apply scatterAdd_getD_zero
  intro p hp hpj
  obtain ⟨k, hk⟩ := List.mem_iff_getElem?.mp hp
  rw [List.getElem?_zip_eq_some] at hk
  have := h k (by rw [hk.1, hpj])
  simpa [List.getD_eq_getElem?_getD, hk.2] using this

theorem getD_of_length_le (l : List ℝ) (j : Nat) (h : l.length ≤ j) : l.getD j 0 = 0 := by
  simp [List.getD_eq_getElem?_getD, h]

theorem getD_zipWith_zero (f : ℝ → ℝ → ℝ) (hf : f 0 0 = 0) (a b : List ℝ) (k : Nat)
    (ha : a.getD k 0 = 0) (hb : b.getD k 0 = 0) : (List.zipWith f a b).getD k 0 = 0 := by
  simp only [List.getD_eq_getElem?_getD, List.getElem?_zipWith] at *
  cases hak : a[k]? with
  | none => simp
  | some av =>
    cases hbk : b[k]? with
    | none => simp
    | some bv =>
      simp only [hak, hbk, Option.getD_some] at ha hb ⊢
      rw [ha, hb, hf]

theorem getD_map_zero (f : ℝ → ℝ) (hf : f 0 = 0) (a : List ℝ) (k : Nat) (ha : a.getD k 0 = 0) :
    (a.map f).getD k 0 = 0 := by
  simp only [List.getD_eq_getElem?_getD, List.getElem?_map] at *
  cases hak : a[k]? with
  | none => simp
  | some av =>
    simp only [hak, Option.getD_some, Option.map_some] at ha ⊢
    rw [ha, hf]

/-! ### reachable columns -/

/-- Column `j` of a width-`d` input can influence the value of `c`: some leaf selects it through the
    chain of column selections above it. -/
def Cov.Reaches : Cov ℝ → Nat → Nat → Prop
  | .matern32 _ ad, d, j => ∃ is, ad.indices d = some is ∧ j ∈ is
  | .matern52 _ ad, d, j => ∃ is, ad.indices d = some is ∧ j ∈ is
  | .expquad _ ad, d, j => ∃ is, ad.indices d = some is ∧ j ∈ is
  | .exponential _ ad, d, j => ∃ is, ad.indices d = some is ∧ j ∈ is
  | .ratquad _ _ ad, d, j => ∃ is, ad.indices d = some is ∧ j ∈ is
  | .linear _ ad, d, j => ∃ is, ad.indices d = some is ∧ j ∈ is
  | .add l r ad, d, j => ∃ is, ad.indices d = some is ∧
      ∃ k, is[k]? = some j ∧ (l.Reaches is.length k ∨ r.Reaches is.length k)
  | .addC l _ ad, d, j => ∃ is, ad.indices d = some is ∧ ∃ k, is[k]? = some j ∧ l.Reaches is.length k
  | .mul l r ad, d, j => ∃ is, ad.indices d = some is ∧
      ∃ k, is[k]? = some j ∧ (l.Reaches is.length k ∨ r.Reaches is.length k)
  | .mulC l _ ad, d, j => ∃ is, ad.indices d = some is ∧ ∃ k, is[k]? = some j ∧ l.Reaches is.length k
  | .pow l _ ad, d, j => ∃ is, ad.indices d = some is ∧ ∃ k, is[k]? = some j ∧ l.Reaches is.length k

/-- Wrapper: the expanded vector is `0` at `j` when every position `k` mapped to `j` carries `0`. -/
theorem expand_getD_zero (ad : ActiveDims) (d : Nat) (V : List ℝ) (j : Nat) {is : List Nat}
    (hi : ad.indices d = some is) (hV : V.length = is.length)
    (h : ∀ k, is[k]? = some j → V.getD k 0 = 0) : (expand ad d V).getD j 0 = 0 := by
  by_cases hn : ad = .none
  · subst hn
    rw [indices_none] at hi
    have his : is = List.range d := by simpa using hi.symm
    subst his
    rw [expand_none]
    by_cases hj : j < d
    · exact h j (by simp [hj])
    · exact getD_of_length_le V j (by simp at hV; omega)
  · rw [expand_of_indices hn hi]
    exact scatterAdd_getD_zero' d is V j h

theorem leaf_unreached_zero (ad : ActiveDims) (d : Nat) (V : List ℝ) (j : Nat) {is : List Nat}
    (hi : ad.indices d = some is) (hV : V.length = is.length) (hj : j ∉ is) :
    (expand ad d V).getD j 0 = 0 := by
  apply expand_getD_zero ad d V j hi hV
  intro k hk
  exact absurd (List.mem_iff_getElem?.mpr ⟨k, hk⟩) hj

/-- **Exact zeros in inactive dimensions**, for every tree and every guard `e`. -/
theorem kGradE_unreached_zero (e : ℝ) (c : Cov ℝ) (x y : List ℝ) (j : Nat) (hxy : x.length = y.length)
    (hwf : c.WF y.length = true) (hj : ¬ c.Reaches y.length j) : (c.kGradE e x y).getD j 0 = 0 := by
  induction c generalizing x y j with
  | matern32 ls ad =>
    obtain ⟨is, hi⟩ := wf_leaf_indices hwf
    simp only [Cov.kGradE]
    apply leaf_unreached_zero ad _ _ j hi
    · rw [List.length_map, distanceGradE_length e _ _ (select_length_eq ad x y hxy), select_length_of_indices ad y hi]
    · intro hm; exact hj ⟨is, hi, hm⟩
  | matern52 ls ad =>
    obtain ⟨is, hi⟩ := wf_leaf_indices hwf
    simp only [Cov.kGradE]
    apply leaf_unreached_zero ad _ _ j hi
    · rw [List.length_map, distanceGradE_length e _ _ (select_length_eq ad x y hxy), select_length_of_indices ad y hi]
    · intro hm; exact hj ⟨is, hi, hm⟩
  | expquad ls ad =>
    obtain ⟨is, hi⟩ := wf_leaf_indices hwf
    simp only [Cov.kGradE]
    apply leaf_unreached_zero ad _ _ j hi
    · rw [List.length_map, distanceGradE_length e _ _ (select_length_eq ad x y hxy), select_length_of_indices ad y hi]
    · intro hm; exact hj ⟨is, hi, hm⟩
  | exponential ls ad =>
    obtain ⟨is, hi⟩ := wf_leaf_indices hwf
    simp only [Cov.kGradE]
    apply leaf_unreached_zero ad _ _ j hi
    · rw [List.length_map, distanceGradE_length e _ _ (select_length_eq ad x y hxy), select_length_of_indices ad y hi]
    · intro hm; exact hj ⟨is, hi, hm⟩
  | ratquad a ls ad =>
    obtain ⟨is, hi⟩ := wf_leaf_indices hwf
    simp only [Cov.kGradE]
    apply leaf_unreached_zero ad _ _ j hi
    · rw [List.length_map, distanceGradE_length e _ _ (select_length_eq ad x y hxy), select_length_of_indices ad y hi]
    · intro hm; exact hj ⟨is, hi, hm⟩
  | linear ls ad =>
    obtain ⟨is, hi⟩ := wf_leaf_indices hwf
    simp only [Cov.kGradE]
    apply leaf_unreached_zero ad _ _ j hi
    · rw [List.length_map, select_length_eq ad x y hxy, select_length_of_indices ad y hi]
    · intro hm; exact hj ⟨is, hi, hm⟩
  | add l r ad ihl ihr =>
    obtain ⟨is, hi, hl, hr⟩ := wf_pair hwf
    have hw := select_length_of_indices ad y hi
    have hs := select_length_eq ad x y hxy
    simp only [Cov.kGradE]
    apply expand_getD_zero ad _ _ j hi
    · rw [List.length_zipWith, kGradE_length e l _ _ hs (hw ▸ hl), kGradE_length e r _ _ hs (hw ▸ hr), hw]; simp
    · intro k hk
      apply getD_zipWith_zero _ (by ring)
      · exact ihl _ _ k hs (hw ▸ hl) (by rw [hw]; intro h; exact hj ⟨is, hi, k, hk, Or.inl h⟩)
      · exact ihr _ _ k hs (hw ▸ hr) (by rw [hw]; intro h; exact hj ⟨is, hi, k, hk, Or.inr h⟩)
  | addC l c ad ih =>
    obtain ⟨is, hi, hl⟩ := wf_single hwf
    have hw := select_length_of_indices ad y hi
    have hs := select_length_eq ad x y hxy
    simp only [Cov.kGradE]
    apply expand_getD_zero ad _ _ j hi
    · rw [kGradE_length e l _ _ hs (hw ▸ hl), hw]
    · intro k hk
      exact ih _ _ k hs (hw ▸ hl) (by rw [hw]; intro h; exact hj ⟨is, hi, k, hk, h⟩)
  | mul l r ad ihl ihr =>
    obtain ⟨is, hi, hl, hr⟩ := wf_pair hwf
    have hw := select_length_of_indices ad y hi
    have hs := select_length_eq ad x y hxy
    simp only [Cov.kGradE]
    apply expand_getD_zero ad _ _ j hi
    · rw [List.length_zipWith, kGradE_length e l _ _ hs (hw ▸ hl), kGradE_length e r _ _ hs (hw ▸ hr), hw]; simp
    · intro k hk
      apply getD_zipWith_zero _ (by ring)
      · exact ihl _ _ k hs (hw ▸ hl) (by rw [hw]; intro h; exact hj ⟨is, hi, k, hk, Or.inl h⟩)
      · exact ihr _ _ k hs (hw ▸ hr) (by rw [hw]; intro h; exact hj ⟨is, hi, k, hk, Or.inr h⟩)
  | mulC l c ad ih =>
    obtain ⟨is, hi, hl⟩ := wf_single hwf
    have hw := select_length_of_indices ad y hi
    have hs := select_length_eq ad x y hxy
    simp only [Cov.kGradE]
    apply expand_getD_zero ad _ _ j hi
    · rw [List.length_map, kGradE_length e l _ _ hs (hw ▸ hl), hw]
    · intro k hk
      apply getD_map_zero _ (by ring)
      exact ih _ _ k hs (hw ▸ hl) (by rw [hw]; intro h; exact hj ⟨is, hi, k, hk, h⟩)
  | pow l p ad ih =>
    obtain ⟨is, hi, hl⟩ := wf_single hwf
    have hw := select_length_of_indices ad y hi
    have hs := select_length_eq ad x y hxy
    simp only [Cov.kGradE]
    apply expand_getD_zero ad _ _ j hi
    · rw [List.length_map, kGradE_length e l _ _ hs (hw ▸ hl), hw]
    · intro k hk
      apply getD_map_zero _ (by simp)
      exact ih _ _ k hs (hw ▸ hl) (by rw [hw]; intro h; exact hj ⟨is, hi, k, hk, h⟩)

/-! ### coincident points -/

def AllZero (l : List ℝ) : Prop := ∀ v ∈ l, v = 0

theorem AllZero.map {l : List ℝ} (h : AllZero l) (f : ℝ → ℝ) (hf : f 0 = 0) : AllZero (l.map f) := by
  intro v hv
  obtain ⟨a, ha, rfl⟩ := List.mem_map.mp hv
  rw [h a ha, hf]

theorem AllZero.zipWith {a b : List ℝ} (ha : AllZero a) (hb : AllZero b) (f : ℝ → ℝ → ℝ) (hf : f 0 0 = 0) :
    AllZero (List.zipWith f a b) := by
  induction a generalizing b with
  | nil => intro v hv; simp at hv
  | cons p ps ih =>
    cases b with
    | nil => intro v hv; simp at hv
    | cons q qs =>
      intro v hv
      rw [List.zipWith_cons_cons, List.mem_cons] at hv
      rcases hv with h | h
      · rw [h, ha p (by simp), hb q (by simp), hf]
      · exact ih (fun w hw => ha w (by simp [hw])) (fun w hw => hb w (by simp [hw])) v h

theorem AllZero.getD {l : List ℝ} (h : AllZero l) (k : Nat) : l.getD k 0 = 0 := by
  simp only [List.getD_eq_getElem?_getD]
  cases hk : l[k]? with
  | none => rfl
  | some v => exact h v (List.mem_of_getElem? hk)

theorem allZero_foldl_set (ps : List (Nat × ℝ)) (acc : List ℝ) (hacc : AllZero acc)
    (hps : ∀ p ∈ ps, p.2 = 0) :
    AllZero (ps.foldl (fun acc (p : Nat × ℝ) => acc.set p.1 (acc.getD p.1 0 + p.2)) acc) := by
  induction ps generalizing acc with
  | nil => simpa using hacc
  | cons p ps ih =>
    rw [List.foldl_cons]
    apply ih
    · intro v hv
      rcases List.mem_or_eq_of_mem_set hv with h | h
      · exact hacc v h
      · rw [h, hacc.getD, hps p (by simp)]; ring
    · intro q hq; exact hps q (by simp [hq])

theorem AllZero.scatterAdd {vals : List ℝ} (h : AllZero vals) (d : Nat) (is : List Nat) :
    AllZero (scatterAdd d is vals) := by
  apply allZero_foldl_set
  · intro v hv; exact (List.mem_replicate.mp hv).2
  · intro p hp
    have : (p.1, p.2) ∈ is.zip vals := hp
    exact h p.2 (List.of_mem_zip this).2

theorem AllZero.expand {vals : List ℝ} (h : AllZero vals) (ad : ActiveDims) (d : Nat) :
    AllZero (expand ad d vals) := by
  by_cases hn : ad = .none
  · subst hn; exact h
  · cases hi : ad.indices d with
    | none => rw [expand_of_invalid hn hi]; intro v hv; simp at hv
    | some is => rw [expand_of_indices hn hi]; exact h.scatterAdd d is

theorem allZero_diff_self (D : ℝ) (x : List ℝ) :
    AllZero (List.zipWith (fun yi xi => (yi - xi) / D) x x) := by
  induction x with
  | nil => intro v hv; simp at hv
  | cons a as ih =>
    intro v hv
    rw [List.zipWith_cons_cons, List.mem_cons] at hv
    rcases hv with h | h
    · rw [h, sub_self, zero_div]
    · exact ih v h

theorem allZero_distanceGradE_self (e : ℝ) (x : List ℝ) : AllZero (distanceGradE e x x) :=
  allZero_diff_self _ x

/-- No `Linear` leaf: the expression is built from the five distance-based kernels. -/
def Cov.NoLinear : Cov ℝ → Prop
  | .linear _ _ => False
  | .add l r _ => l.NoLinear ∧ r.NoLinear
  | .addC l _ _ => l.NoLinear
  | .mul l r _ => l.NoLinear ∧ r.NoLinear
  | .mulC l _ _ => l.NoLinear
  | .pow l _ _ => l.NoLinear
  | _ => True

/-- At coincident points (`y = x`) the gradient of a distance-based expression is exactly `0`,
    for every guard `e` (no hypothesis on widths or indices is needed). -/
theorem kGradE_coincident_zero (e : ℝ) (c : Cov ℝ) (hc : c.NoLinear) (x : List ℝ) :
    AllZero (c.kGradE e x x) := by
  induction c generalizing x with
  | matern32 ls ad =>
    simp only [Cov.kGradE]
    exact ((allZero_distanceGradE_self e _).map _ (by simp)).expand ad _
  | matern52 ls ad =>
    simp only [Cov.kGradE]
    exact ((allZero_distanceGradE_self e _).map _ (by simp)).expand ad _
  | expquad ls ad =>
    simp only [Cov.kGradE]
    exact ((allZero_distanceGradE_self e _).map _ (by simp)).expand ad _
  | exponential ls ad =>
    simp only [Cov.kGradE]
    exact ((allZero_distanceGradE_self e _).map _ (by simp)).expand ad _
  | ratquad a ls ad =>
    simp only [Cov.kGradE]
    exact ((allZero_distanceGradE_self e _).map _ (by simp)).expand ad _
  | linear ls ad => exact absurd hc (by simp [Cov.NoLinear])
  | add l r ad ihl ihr =>
    simp only [Cov.kGradE]
    exact ((ihl hc.1 _).zipWith (ihr hc.2 _) _ (by ring)).expand ad _
  | addC l c ad ih =>
    simp only [Cov.kGradE]
    exact (ih hc _).expand ad _
  | mul l r ad ihl ihr =>
    simp only [Cov.kGradE]
    exact ((ihl hc.1 _).zipWith (ihr hc.2 _) _ (by ring)).expand ad _
  | mulC l c ad ih =>
    simp only [Cov.kGradE]
    exact ((ih hc _).map _ (by ring)).expand ad _
  | pow l p ad ih =>
    simp only [Cov.kGradE]
    exact ((ih hc _).map _ (by simp)).expand ad _

/-- **The guard of `Pow.k_grad`** (`where((base_k == 0) & (p < 1), 0.0, …)`): where the base value is
    exactly `0` (in float64: underflowed to 0) and the exponent is `< 1`, the gradient of the power node is
    exactly `0`, for every operand and guard — instead of `p · 0^(p−1) · 0 = ∞ · 0`. -/
theorem kGradE_pow_zero_lt1_zero (e : ℝ) (l : Cov ℝ) (p : ℝ) (ad : ActiveDims) (x y : List ℝ)
    (h0 : l.k (select ad x) (select ad y) = 0) (hp : p < 1) : AllZero ((Cov.pow l p ad).kGradE e x y) := by
  simp only [Cov.kGradE, if_pos ((powGuard_iff _ p).mpr ⟨h0, hp⟩)]
  apply AllZero.expand
  intro v hv
  obtain ⟨a, _, rfl⟩ := List.mem_map.mp hv
  rfl

/-! ### the guard factor on radial leaves -/

def Cov.isRadial : Cov ℝ → Bool
  | .matern32 _ _ | .matern52 _ _ | .expquad _ _ | .exponential _ _ | .ratquad _ _ _ => true
  | _ => false

/-- `γ = dist/(dist + e)` with `dist` the regularised distance of the leaf's own columns. -/
noncomputable def guardFactor (e : ℝ) (c : Cov ℝ) (x y : List ℝ) : ℝ :=
  distance (select c.ad x) (select c.ad y) / (distance (select c.ad x) (select c.ad y) + e)

/-- `leaf_gamma` for a homogeneous coded map (`C = f 1`). -/
theorem leaf_gamma_hom (f : ℝ → ℝ) (hf : ∀ a gi, f (a * gi) = a * f gi) (e : ℝ) (he : 0 ≤ e)
    (xs ys us : List ℝ) (hxy : xs.length = ys.length) :
    dot ((distanceGradE e xs ys).map f) us
      = distance xs ys / (distance xs ys + e) * dot ((distanceGradE 0 xs ys).map f) us := by
  apply leaf_gamma f (f 1) _ e he xs ys us hxy
  intro gi
  have := hf gi 1
  rw [mul_one] at this
  rw [this]; ring

theorem kGradE_radial_dot (e : ℝ) (he : 0 ≤ e) (c : Cov ℝ) (hc : c.isRadial = true) (x y u : List ℝ)
    (hxy : x.length = y.length) (hu : u.length = y.length) :
    dot (c.kGradE e x y) u = guardFactor e c x y * dot (c.kGradE 0 x y) u := by
  have hs := fun ad => select_length_eq ad x y hxy
  cases c with
  | matern32 ls ad =>
    simp only [Cov.kGradE, guardFactor, Cov.ad]
    rw [dot_expand_select ad y u _ hu, dot_expand_select ad y u _ hu]
    exact leaf_gamma_hom _ (fun a gi => by simp only [lit1, lit2, lit3, lit5]; ring) e he _ _ _ (hs ad)
  | matern52 ls ad =>
    simp only [Cov.kGradE, guardFactor, Cov.ad]
    rw [dot_expand_select ad y u _ hu, dot_expand_select ad y u _ hu]
    exact leaf_gamma_hom _ (fun a gi => by simp only [lit1, lit2, lit3, lit5]; ring) e he _ _ _ (hs ad)
  | expquad ls ad =>
    simp only [Cov.kGradE, guardFactor, Cov.ad]
    rw [dot_expand_select ad y u _ hu, dot_expand_select ad y u _ hu]
    exact leaf_gamma_hom _ (fun a gi => by simp only [lit1, lit2, lit3, lit5]; ring) e he _ _ _ (hs ad)
  | exponential ls ad =>
    simp only [Cov.kGradE, guardFactor, Cov.ad]
    rw [dot_expand_select ad y u _ hu, dot_expand_select ad y u _ hu]
    exact leaf_gamma_hom _ (fun a gi => by simp only [lit1, lit2, lit3, lit5]; ring) e he _ _ _ (hs ad)
  | ratquad a ls ad =>
    simp only [Cov.kGradE, guardFactor, Cov.ad]
    rw [dot_expand_select ad y u _ hu, dot_expand_select ad y u _ hu]
    exact leaf_gamma_hom _ (fun a gi => by simp only [lit1, lit2, lit3, lit5]; ring) e he _ _ _ (hs ad)
  | linear ls ad => simp [Cov.isRadial] at hc
  | add l r ad => simp [Cov.isRadial] at hc
  | addC l c ad => simp [Cov.isRadial] at hc
  | mul l r ad => simp [Cov.isRadial] at hc
  | mulC l c ad => simp [Cov.isRadial] at hc
  | pow l p ad => simp [Cov.isRadial] at hc

/-- `1/(1+1e-6) ≤ dist/(dist+1e-12) < 1` because `dist ≥ √1e-12 = 1e-6`. -/
theorem guard_bounds (x y : List ℝ) (h : x.length = y.length) :
    1 / (1 + 1e-6) ≤ distance x y / (distance x y + distEps)
      ∧ distance x y / (distance x y + distEps) < 1 := by
  have hp := distance_pos x y h
  have he := distEps_pos
  have hge : (1e-6 : ℝ) ≤ distance x y := by
    rw [distance_eq x y h]
    have h6 : (1e-6 : ℝ) = Real.sqrt distEps := by
      rw [distEps_eq]
      have : (1e-12 : ℝ) = (1e-6) ^ 2 := by norm_num
      rw [this, Real.sqrt_sq (by norm_num)]
    rw [h6]
    exact Real.sqrt_le_sqrt (by have := sqdist_nonneg x y; linarith)
  constructor
  · rw [div_le_div_iff₀ (by norm_num) (by linarith), distEps_eq]
    nlinarith
  · rw [div_lt_one (by linarith)]; linarith

/-! ### expressions the guard does not enter -/

/-- The guard does not enter expressions without a distance-based leaf. -/
def Cov.GuardFree : Cov ℝ → Prop
  | .linear _ _ => True
  | .add l r _ => l.GuardFree ∧ r.GuardFree
  | .addC l _ _ => l.GuardFree
  | .mul l r _ => l.GuardFree ∧ r.GuardFree
  | .mulC l _ _ => l.GuardFree
  | .pow l _ _ => l.GuardFree
  | _ => False

theorem Cov.GuardFree.kGradE_eq (c : Cov ℝ) (hc : c.GuardFree) (e e' : ℝ) (x y : List ℝ) :
    c.kGradE e x y = c.kGradE e' x y := by
  induction c generalizing x y with
  | matern32 ls ad => exact absurd hc (by simp [Cov.GuardFree])
  | matern52 ls ad => exact absurd hc (by simp [Cov.GuardFree])
  | expquad ls ad => exact absurd hc (by simp [Cov.GuardFree])
  | exponential ls ad => exact absurd hc (by simp [Cov.GuardFree])
  | ratquad a ls ad => exact absurd hc (by simp [Cov.GuardFree])
  | linear ls ad => rfl
  | add l r ad ihl ihr => simp only [Cov.kGradE, ihl hc.1, ihr hc.2]
  | addC l c ad ih => simp only [Cov.kGradE, ih hc]
  | mul l r ad ihl ihr => simp only [Cov.kGradE, ihl hc.1, ihr hc.2]
  | mulC l c ad ih => simp only [Cov.kGradE, ih hc]
  | pow l p ad ih => simp only [Cov.kGradE, ih hc]

end Mellon
