/-
  C02 — Predictor reproduces the fitted training values; normalisation is exact.
  Property theorems only (α = ℝ; all sizes, data, kernels, latent vectors — the identities do not
  depend on the optimiser).
-/
import MellonProofs.C04
import MellonProofs.C16
import MellonProofs.ShrinkLemmas

open Matrix Finset

namespace Mellon.C02
open Mellon

variable {n m d c : Nat}

/-- **Inducing-point Cholesky models reproduce the fitted values exactly.**  When the same factor
    `Lp` is used for `L = K_xu Lp⁻ᵀ` (`_standard_low_rank`) and for the predictor weights
    `Lp⁻ᵀ z` (`_LandmarksConditionalCholesky`), the prediction at training cell `i` is
    `mu + (L z)ᵢ` — the fitted value — with no approximation. -/
theorem latent_insample_exact {cov : Cov ℝ} {x : Mat ℝ n d} {xu : Mat ℝ m d} {z : Mat ℝ m c} {mu : ℝ}
    {nObs : Nat} {Lp : Mat ℝ m m} (hLp : LowerNonsing Lp) {sigma : Sigma ℝ m} {sigma' jitter jitter' : ℝ}
    {yIsMean : Bool} {L : Mat ℝ n m} {s : CondState ℝ m d c}
    (hL : standardLowRank cov x xu (some Lp) sigma' jitter' = some L)
    (hs : lmCholCondInit cov xu z mu nObs (some Lp) sigma jitter yIsMean false = .ok s)
    (i col : Nat) (hi : i < n) (hc : col < c) :
    s.mean1 (x.row i) col = mu + ∑ k ∈ range m, L.el i k * z.el k col := by
  have h1 := C04.lp_passthrough hLp hL                 -- L Lpᵀ = K_xu
  obtain ⟨h2, _, hxb⟩ := C01.latent_weights_solve_given hLp hs   -- Lpᵀ W = Z
  have hcov : s.cov = cov ∧ s.mu = mu := by
    unfold lmCholCondInit condL at hs
    simp only [Bool.not_false, if_true] at hs
    have := (Except.ok.inj hs).symm; subst this; exact ⟨rfl, rfl⟩
  rw [C01.mean_formula, hxb, hcov.1, hcov.2]
  congr 1
  have hmat : toM (gram cov x xu) * toM s.weights = toM L * toM z := by
    rw [← h1, Matrix.mul_assoc, h2]
  have hentry := congrFun (congrFun hmat ⟨i, hi⟩) ⟨col, hc⟩
  simp only [Matrix.mul_apply, toM_apply] at hentry
  rw [sum_fin_eq_range (fun k => (gram cov x xu).el i k * s.weights.el k col),
    sum_fin_eq_range (fun k => L.el i k * z.el k col)] at hentry
  rw [← hentry]
  apply Finset.sum_congr rfl
  intro k hk
  rw [gram_el cov x xu i k hi (Finset.mem_range.mp hk)]

/-- **Full models** (also `full_nystroem`, whose predictor is a full conditional on the fitted
    values): the in-sample prediction misses the fitted value by exactly `−jitter · wᵢ`. -/
theorem full_insample_jitter {cov : Cov ℝ} {x : Mat ℝ n d} {y : Mat ℝ n c} {mu : ℝ} {sigma : Sigma ℝ n}
    {jitter : ℝ} {ycf : Option (AnyMat ℝ)} {withUnc : Bool} {s : CondState ℝ n d c}
    (h : fullCondInit cov x y mu Option.none sigma jitter ycf true withUnc = .ok s)
    (i col : Nat) (hi : i < n) (hc : col < c) :
    s.mean1 (x.row i) col - y.el i col = -(jitter * s.weights.el i col) :=
  C16.interp_y_is_mean h i col hi hc

/-- **The jitter-proportional bound for full models.**  If the kernel matrix on the cells dominates `λ·I` (`λ ≥ 0`; `λ = 0` for
    any positive semi-definite kernel, `PSD.gram_psd`), the in-sample errors of every value column satisfy
    `Σᵢ (predictor(xᵢ) − fittedᵢ)² ≤ (jitter/(λ + jitter))² · Σᵢ (fittedᵢ − mu)²`: at most the size of the fitted values
    themselves, and proportional to the jitter once the kernel matrix is well conditioned. -/
theorem full_insample_bound {cov : Cov ℝ} {x : Mat ℝ n d} {y : Mat ℝ n c} {mu : ℝ} {sigma : Sigma ℝ n}
    {jitter lam : ℝ} {ycf : Option (AnyMat ℝ)} {withUnc : Bool} {s : CondState ℝ n d c}
    (h : fullCondInit cov x y mu Option.none sigma jitter ycf true withUnc = .ok s)
    (hK : (toM (gram cov x x) - lam • (1 : Matrix (Fin n) (Fin n) ℝ)).PosSemidef) (hlam : 0 ≤ lam) (hj : 0 < jitter)
    (col : Nat) (hc : col < c) :
    (lam + jitter) ^ 2 * ∑ i ∈ range n, (s.mean1 (x.row i) col - y.el i col) ^ 2
      ≤ jitter ^ 2 * ∑ i ∈ range n, (y.el i col - mu) ^ 2 := by
  obtain ⟨K', hK', hW, _, _, _⟩ := C01.full_weights_solve h
  obtain ⟨K'', hK'', hN⟩ := C01.noise_mean cov x sigma jitter ycf
  have e : K' = K'' := Except.ok.inj (hK'.symm.trans hK'')
  subst e
  let w : Fin n → ℝ := fun j => s.weights.el j col
  let r : Fin n → ℝ := fun i => (residual y mu).el i col
  have hw : (toM (gram cov x x) + jitter • (1 : Matrix (Fin n) (Fin n) ℝ)) *ᵥ w = r := by
    rw [← hN]
    funext i
    have := congrFun (congrFun hW i) ⟨col, hc⟩
    simpa [Matrix.mul_apply, Matrix.mulVec, dotProduct, r, w] using this
  have key := Shrink.ridge_error_bound (toM (gram cov x x)) hK hlam hj w r hw
  have hL : ∑ i ∈ range n, (s.mean1 (x.row i) col - y.el i col) ^ 2 = jitter ^ 2 * (w ⬝ᵥ w) := by
    rw [← sum_fin_eq_range (fun i => (s.mean1 (x.row i) col - y.el i col) ^ 2)]
    simp only [dotProduct, Finset.mul_sum]
    apply Finset.sum_congr rfl
    intro i _
    rw [full_insample_jitter h i col i.isLt hc]
    simp only [w]; ring
  have hR : ∑ i ∈ range n, (y.el i col - mu) ^ 2 = r ⬝ᵥ r := by
    rw [← sum_fin_eq_range (fun i => (y.el i col - mu) ^ 2)]
    simp only [dotProduct]
    apply Finset.sum_congr rfl
    intro i _
    simp only [r, residual, el_ofFn, i.isLt, hc, and_self, if_true]; ring
  rw [hL, hR]
  nlinarith [key, sq_nonneg jitter]

/-- **DTC models** (`sparse_nystroem`): if the fitted values lie in the range of `K_xu`
    (`y − mu = K_xu c`, true for `L = Q V √S` with `Q` from the QR of `K_xu`), the weights differ from
    `c` by a jitter-proportional term: `M (w − c) = −jitter · K̃_uu c` with
    `M = jitter·K̃_uu + K_uf K_fu`; hence the in-sample error `K_xu (w − c)` is `O(jitter)`. -/
theorem dtc_insample_jitter {cov : Cov ℝ} {x : Mat ℝ n d} {xu : Mat ℝ m d} {y : Mat ℝ n c} {mu : ℝ}
    {sigma : Sigma ℝ n} {jitter : ℝ} {ycf : Option (AnyMat ℝ)} {withUnc : Bool} {s : CondState ℝ m d c}
    (h : lmCondInit cov x xu y mu sigma jitter ycf true withUnc = .ok s)
    (C : Matrix (Fin m) (Fin c) ℝ) (hrange : toM (residual y mu) = (toM (gram cov xu x))ᵀ * C) :
    (jitter • (toM (gram cov xu xu) + jitter • (1 : Matrix (Fin m) (Fin m) ℝ))
        + toM (gram cov xu x) * (toM (gram cov xu x))ᵀ) * (toM s.weights - C)
      = -(jitter • ((toM (gram cov xu xu) + jitter • (1 : Matrix (Fin m) (Fin m) ℝ)) * C)) := by
  obtain ⟨L, N, hLLt, hN, hsolve, _, _, _⟩ := C01.dtc_weights_solve h (C01.perCell_mean sigma ycf)
  have hNj : N = jitter • (1 : Matrix (Fin m) (Fin m) ℝ) := by
    unfold C01.dtcNoise at hN
    simp only [if_true] at hN
    exact (Except.ok.inj hN).symm
  rw [hNj] at hsolve
  have hM : toM L * (jitter • (1 : Matrix (Fin m) (Fin m) ℝ)) * (toM L)ᵀ
      = jitter • (toM (gram cov xu xu) + jitter • (1 : Matrix (Fin m) (Fin m) ℝ)) := by
    rw [Matrix.mul_smul, Matrix.mul_one, Matrix.smul_mul, hLLt]
  rw [hM, hrange] at hsolve
  rw [Matrix.mul_sub, hsolve]
  rw [Matrix.add_mul, Matrix.smul_mul, Matrix.mul_assoc]
  abel

/-- `normalize=True` lowers the value by exactly `log n_obs`. -/
theorem normalize_exact (v nObs : ℝ) :
    predictNormalized v nObs true = v - Real.log nObs ∧ predictNormalized v nObs false = v := by
  simp [predictNormalized]

/-- Positive-valued predictors return exactly `exp` of their log-scale output, which is `> 0`. -/
theorem exp_pos (v : ℝ) :
    predictExp v false = Real.exp (predictExp v true) ∧ 0 < predictExp v false := by
  simp [predictExp, Real.exp_pos]

/-- The full / DTC predictors store the number of training cells as `n_obs`. -/
theorem n_obs_full {cov : Cov ℝ} {x : Mat ℝ n d} {y : Mat ℝ n c} {mu : ℝ} {Lg : Option (Mat ℝ n n)}
    {sigma : Sigma ℝ n} {jitter : ℝ} {ycf : Option (AnyMat ℝ)} {yIsMean withUnc : Bool}
    {s : CondState ℝ n d c}
    (h : fullCondInit cov x y mu Lg sigma jitter ycf yIsMean withUnc = .ok s) : s.nObs = n := by
  unfold fullCondInit at h
  split at h
  · cases h
  · simp only at h
    split at h
    · have := (Except.ok.inj h).symm; subst this; rfl
    · split at h
      · cases h
      · have := (Except.ok.inj h).symm; subst this; rfl

end Mellon.C02
