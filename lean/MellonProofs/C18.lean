/-
  C18 — Staged, cached and repeated use is equivalent to one-shot fitting.
  Property theorems only (helpers: StagedLemmas.lean).  The statements are about the state machine
  `Mellon.Staged` for ANY stage pipeline `P` that is well staged, ANY interpretation `Fn` of the compute
  functions (deterministic by being functions), any constructor arguments `init`, any data set `d` and any
  history of operations; the three inference estimators are instances (`density_wellStaged`, …).
-/
import MellonProofs.StagedLemmas

namespace Mellon.C18
open Mellon.Staged
variable {Attr V : Type} [DecidableEq Attr]
variable (P : Pipeline Attr) (Fn : Funs Attr V) (d : Nat) (init : Cache Attr V)

/-- A freshly constructed estimator satisfies the invariant. -/
theorem inv_init (n : Nat) : Inv P Fn d init (initState init n) := Staged.inv_init P Fn d init n

/-- Every operation of the staged API, whatever its outcome, preserves the invariant. -/
theorem inv_step (hW : WellStaged P Fn) (hN : NotPreparedAtInit P init) {s : State Attr V}
    (hI : Inv P Fn d init s) (op : Op) (hop : op.onData d) : Inv P Fn d init (step P Fn s op).2 :=
  inv_step' P Fn d init hW hN hI op hop

/-- … hence every history does (induction over the list of operations). -/
theorem inv_history (hW : WellStaged P Fn) (hN : NotPreparedAtInit P init) (ops : List Op)
    (hops : ∀ op ∈ ops, op.onData d) {s : State Attr V} (hI : Inv P Fn d init s) :
    Inv P Fn d init (runOps P Fn s ops) := by
  induction ops generalizing s with
  | nil => exact hI
  | cons op ops ih =>
    simp only [runOps]
    exact ih (fun o ho => hops o (List.mem_cons_of_mem _ ho))
      (inv_step P Fn d init hW hN hI op (hops op List.mem_cons_self))

/-- One-shot fitting: `Estimator(**params).fit(x)` on a fresh estimator succeeds on a legal configuration
    and leaves exactly the reference values. -/
theorem one_shot_fit (hL : Legal P Fn d init) (t : Tok) (ht : t.content = d) (n : Nat) :
    (step P Fn (initState init n) (.fit (some t) true)).1 = .ok ∧
    (step P Fn (initState init n) (.fit (some t) true)).2.cache = refCache P Fn d init ∧
    (step P Fn (initState init n) (.fit (some t) true)).2.pre = some (refPre P Fn d init) ∧
    (step P Fn (initState init n) (.fit (some t) true)).2.fitted = some (refFit P Fn d init) ∧
    (step P Fn (initState init n) (.fit (some t) true)).2.predictor = some (refPred P Fn d init) := by
  have hprep : doPrepare P Fn (initState init n) (some t) =
      (.ok, { x := some (canon (initState init n) t).1, cache := refCache P Fn d init, pre := none, fitted := none,
              predictor := none, nextId := (canon (initState init n) t).2 }) := by
    simp only [doPrepare, doSetX, initState, bindX]
    rw [canon_content, ht]; rfl
  have := doFit_after_prepare P Fn d init true hprep rfl rfl (by rw [canon_content, ht]) hL
  simp [step, this]


/-- **Staged use refines one-shot fitting.**  After ANY history of staged operations on the data set `d`
    (legal or not, whatever raised in between), every filled cache, the optimised parameters, the fitted
    values and the predictor of the estimator are those that a single `fit` on a fresh estimator with the
    same constructor arguments computes. -/
theorem staged_refines_fit (hW : WellStaged P Fn) (hN : NotPreparedAtInit P init) (hL : Legal P Fn d init)
    (ops : List Op) (hops : ∀ op ∈ ops, op.onData d) (t : Tok) (ht : t.content = d) (n m : Nat) :
    let sN := runOps P Fn (initState init n) ops
    let s1 := (step P Fn (initState init m) (.fit (some t) true)).2
    (∀ v, sN.fitted = some v → s1.fitted = some v) ∧ (∀ v, sN.predictor = some v → s1.predictor = some v) ∧
    (∀ v, sN.pre = some v → s1.pre = some v) ∧ (∀ a v, sN.cache a = some v → s1.cache a = some v) := by
  intro sN s1
  have hI : Inv P Fn d init sN := inv_history P Fn d init hW hN ops hops (inv_init P Fn d init n)
  obtain ⟨_, h2, h3, h4, h5⟩ := one_shot_fit P Fn d init hL t ht m
  refine ⟨?_, ?_, ?_, ?_⟩
  · intro v hv; rw [(hI.fitted_ok v hv).1]; exact h4
  · intro v hv; rw [hI.pred_ok v hv]; exact h5
  · intro v hv; rw [(hI.pre_ok v hv).1]; exact h3
  · intro a v hv
    show s1.cache a = some v
    rw [h2]
    rcases hI.cache_ok with h | ⟨h, _⟩
    · rw [h] at hv
      exact prepL_keeps P Fn d P.order init a v hv
    · rw [h] at hv; exact hv

/-- A `fit` (with or without new data, with or without building the predictor) that goes through ends with
    the reference caches, parameters and fitted values, and with the reference predictor when asked for. -/
theorem fit_completes (hW : WellStaged P Fn) (hL : Legal P Fn d init) {s : State Attr V}
    (hI : Inv P Fn d init s) (a : Option Tok) (ha : ∀ t, a = some t → t.content = d) (b : Bool)
    (hok : (doPrepare P Fn s a).1 = .ok) :
    (step P Fn s (.fit a b)).1 = .ok ∧
    (step P Fn s (.fit a b)).2.cache = refCache P Fn d init ∧
    (step P Fn s (.fit a b)).2.pre = some (refPre P Fn d init) ∧
    (step P Fn s (.fit a b)).2.fitted = some (refFit P Fn d init) ∧
    (b = true → (step P Fn s (.fit a b)).2.predictor = some (refPred P Fn d init)) := by
  cases hp : doPrepare P Fn s a with
  | mk o s1 =>
    rw [hp] at hok
    simp only at hok
    subst hok
    obtain ⟨hc, b0, hx, hb⟩ := doPrepare_ok_spec P Fn d init hW hI ha hp
    have := doFit_after_prepare P Fn d init b hp hc hx hb hL
    simp only [step, this, hc, true_and]
    intro hb; simp [hb]

/-- a fitted estimator is a fixed point of `fit()` (with `build_predict=False` the state has no predictor: it is dropped
    and rebuilt lazily) -/
theorem fit_fixed (hW : WellStaged P Fn) (hL : Legal P Fn d init) (s : State Attr V) (b0 : Tok)
    (hx : s.x = some b0) (hb0 : b0.content = d) (hc : s.cache = refCache P Fn d init)
    (hp : s.pre = some (refPre P Fn d init)) (hf : s.fitted = some (refFit P Fn d init)) (b : Bool)
    (hq : s.predictor = if b then some (refPred P Fn d init) else none) :
    doFit P Fn s none b = (.ok, s) := by
  have hprep : doPrepare P Fn s none = (.ok, s) := by
    rw [doPrepare_bound P Fn hx, hb0, hc]
    have : prepAll P Fn d (refCache P Fn d init) = refCache P Fn d init := prepAll_idem P Fn hW d init
    rw [this, ← hc]
  rw [doFit_after_prepare P Fn d init b hprep hc hx hb0 hL]
  cases s with
  | mk x cache pre fitted predictor nextId =>
    simp only at hp hf hq
    subst hp hf hq
    cases b <;> rfl

/-- Repeated `fit()` / `fit_predict()` without new data: the second call changes nothing at all. -/
theorem refit_idempotent (hW : WellStaged P Fn) (hL : Legal P Fn d init) {s : State Attr V}
    (hI : Inv P Fn d init s) (b0 : Tok) (hx : s.x = some b0) (b : Bool) :
    (step P Fn s (.fit none b)).1 = .ok ∧
    step P Fn (step P Fn s (.fit none b)).2 (.fit none b) = (.ok, (step P Fn s (.fit none b)).2) ∧
    step P Fn (step P Fn s (.fitPredict none b)).2 (.fitPredict none b) = step P Fn s (.fitPredict none b) := by
  have hp := doPrepare_bound P Fn hx
  have hb := (hI.x_ok b0 hx).1
  have hc : prepAll P Fn b0.content s.cache = refCache P Fn d init := by
    rw [hb]
    rcases hI.cache_ok with h | ⟨h, _⟩
    · rw [h]; rfl
    · rw [h]; exact prepAll_idem P Fn hW d init
  have h1 := doFit_after_prepare P Fn d init b hp hc hx hb hL
  have hfix : doFit P Fn (doFit P Fn s none b).2 none b = (.ok, (doFit P Fn s none b).2) := by
    apply fit_fixed P Fn d init hW hL _ b0 (by rw [h1]; exact hx) hb (by rw [h1]; exact hc) (by rw [h1])
      (by rw [h1]) b
    rw [h1]
  have hfp : ∀ s' : State Attr V, s'.x = some b0 → doFitPredict P Fn s' none b = doFit P Fn s' none b := by
    intro s' hx'; simp [doFitPredict, hx']
  refine ⟨by simp [step, h1], by simpa [step] using hfix, ?_⟩
  simp only [step]
  rw [hfp s hx, hfp _ (by rw [h1]; exact hx), hfix, h1]

/-- **No stale predictor.** `process_inference(build_predict=False)` drops whatever predictor the estimator holds — for ANY
    state, in particular one whose latent vector was set by hand — so the next lazy access to `predict` builds the
    predictor from the current latent state and fitted values (repaired defect a939bd9: the old predictor used to
    survive and `predict` evaluated it). -/
theorem process_drops_predictor (s : State Attr V) {p : V} (hp : s.pre = some p)
    (hpost : allSet P.postReads s.cache = true) :
    (step P Fn s (.process false)).1 = .ok ∧
    (step P Fn s (.process false)).2.predictor = none ∧
    (step P Fn s (.process false)).2.fitted = some (Fn.post (view P.postReads s.cache) p) ∧
    step P Fn (step P Fn s (.process false)).2 .predict
      = buildPredictor P Fn (step P Fn s (.process false)).2 := by
  have h : doProcess P Fn s false
      = (.ok, { s with fitted := some (Fn.post (view P.postReads s.cache) p), predictor := none }) := by
    unfold doProcess
    rw [hp]
    simp only [hpost, if_true, Bool.false_eq_true, if_false]
  simp only [step, h, doPredict, true_and]

/-- Lazy access to `predict` after `fit(build_predict=False)` / `fit_predict`: it succeeds and yields the
    predictor of one-shot fitting. -/
theorem lazy_predict (hL : Legal P Fn d init) {s : State Attr V} (hI : Inv P Fn d init s)
    (hf : s.fitted ≠ none) :
    (step P Fn s .predict).1 = .ok ∧ (step P Fn s .predict).2.predictor = some (refPred P Fn d init) ∧
    (step P Fn s .predict).2.fitted = s.fitted ∧ (step P Fn s .predict).2.cache = s.cache := by
  simp only [step, doPredict]
  cases hp : s.predictor with
  | some v => exact ⟨rfl, by rw [hp, hI.pred_ok v hp], rfl, rfl⟩
  | none =>
    simp only
    cases hfit : s.fitted with
    | none => exact absurd hfit hf
    | some w =>
      obtain ⟨hw, hpre⟩ := hI.fitted_ok w hfit
      cases hpr : s.pre with
      | none => exact absurd hpr hpre
      | some p =>
        obtain ⟨hp1, hc, hx⟩ := hI.pre_ok p hpr
        cases hxx : s.x with
        | none => exact absurd hxx hx
        | some b0 =>
          have hb := (hI.x_ok b0 hxx).1
          rw [buildPredictor_ok P Fn hxx hpr (by rw [hc]; exact hL.2.2) (by intro _; rw [hfit]; rfl)]
          refine ⟨rfl, ?_, hfit, rfl⟩
          simp only [hc, hb, hp1, hfit, hw]
          rfl

/-- **Precomputed intermediates.**  For EVERY subset `S` of attributes: a fresh estimator that is handed the
    fitted model's values on `S` (on top of the same constructor arguments) has the same reference caches,
    so that its one-shot fit gives exactly the same optimised parameters, fitted values and predictor.
    Side condition (exact): no compute function reads a seeded attribute before that attribute's own turn
    unless the original arguments already contained it or its own value was given (for the three
    estimators this concerns `landmarks`, read by `compute_n_landmarks`). -/
theorem precomputed_subset (hW : WellStaged P Fn) (S : List Attr)
    (hS : ∀ pre a post, P.order = pre ++ a :: post → ∀ b ∈ P.reads a, b ∉ pre → b ∈ S →
      init b = refCache P Fn d init b ∨ (init a).isSome = true) :
    refCache P Fn d (seed S init (refCache P Fn d init)) = refCache P Fn d init ∧
    refPre P Fn d (seed S init (refCache P Fn d init)) = refPre P Fn d init ∧
    refFit P Fn d (seed S init (refCache P Fn d init)) = refFit P Fn d init ∧
    refPred P Fn d (seed S init (refCache P Fn d init)) = refPred P Fn d init ∧
    (Legal P Fn d init → ∀ t : Tok, t.content = d → ∀ n m,
      (step P Fn (initState (seed S init (refCache P Fn d init)) n) (.fit (some t) true)).2.fitted
        = (step P Fn (initState init m) (.fit (some t) true)).2.fitted ∧
      (step P Fn (initState (seed S init (refCache P Fn d init)) n) (.fit (some t) true)).2.predictor
        = (step P Fn (initState init m) (.fit (some t) true)).2.predictor) := by
  have hc : refCache P Fn d (seed S init (refCache P Fn d init)) = refCache P Fn d init :=
    prepAll_seed P Fn hW d init S hS
  have hp : refPre P Fn d (seed S init (refCache P Fn d init)) = refPre P Fn d init := by
    unfold refPre; rw [hc]
  have hf : refFit P Fn d (seed S init (refCache P Fn d init)) = refFit P Fn d init := by
    unfold refFit; rw [hc, hp]
  have hq : refPred P Fn d (seed S init (refCache P Fn d init)) = refPred P Fn d init := by
    unfold refPred; rw [hc, hp, hf]
  refine ⟨hc, hp, hf, hq, ?_⟩
  intro hL t ht n m
  have hL' : Legal P Fn d (seed S init (refCache P Fn d init)) := by
    unfold Legal; rw [hc]; exact hL
  obtain ⟨_, _, _, a4, a5⟩ := one_shot_fit P Fn d _ hL' t ht n
  obtain ⟨_, _, _, b4, b5⟩ := one_shot_fit P Fn d init hL t ht m
  exact ⟨by rw [a4, b4, hf], by rw [a5, b5, hq]⟩

/-- **Rebinding is refused.**  Offering a different object to an estimator that is bound to data raises
    ValueError from `set_x`, `prepare_inference`, `fit` and `fit_predict`, and leaves the estimator exactly
    as it was. -/
theorem rebind_refused (s : State Attr V) (b t : Tok) (hx : s.x = some b) (hne : b.id ≠ t.id) (bp : Bool) :
    step P Fn s (.setX (some t)) = (.valueError, s) ∧ step P Fn s (.prepare (some t)) = (.valueError, s) ∧
    step P Fn s (.fit (some t) bp) = (.valueError, s) ∧ step P Fn s (.fitPredict (some t) bp) = (.valueError, s) := by
  have h1 : doSetX s (some t) = (.valueError, s) := by simp [doSetX, hx, hne]
  have h2 : doPrepare P Fn s (some t) = (.valueError, s) := by simp [doPrepare, h1]
  refine ⟨h1, h2, ?_, ?_⟩
  · simp [step, doFit, h2]
  · simp [step, doFitPredict, hx, hne]

/-- … and an estimator without data refuses to go on without any (`x=None`). -/
theorem unbound_refused (s : State Attr V) (hx : s.x = none) (bp : Bool) :
    step P Fn s (.setX none) = (.valueError, s) ∧ step P Fn s (.prepare none) = (.valueError, s) ∧
    step P Fn s (.fit none bp) = (.valueError, s) ∧ step P Fn s (.fitPredict none bp) = (.valueError, s) := by
  have h1 : doSetX s none = (.valueError, s) := by simp [doSetX, hx]
  have h2 : doPrepare P Fn s none = (.valueError, s) := by simp [doPrepare, h1]
  refine ⟨h1, h2, ?_, ?_⟩
  · simp [step, doFit, h2]
  · simp [step, doFitPredict, hx]


/-! ### the three inference estimators -/

section concrete
variable {W : Type} (Fc : Funs Staged.Attr W)

/-- the attributes whose compute function reads attributes prepared later: `compute_n_landmarks`
    (reads gp_type, landmarks) and `compute_rank` (reads gp_type); both always return a number -/
def lateReaders : List Staged.Attr := [.nLandmarks, .rank]

/-- `compute_n_landmarks` and `compute_rank` never return None -/
def LateTotal : Prop := ∀ a ∈ lateReaders, ∀ d vw, (Fc.F a d vw).isSome = true

theorem density_wellStaged (h : LateTotal Fc) : WellStaged densityPipeline Fc :=
  wellStaged_of_check densityPipeline Fc lateReaders (by decide) (by decide) h

theorem time_wellStaged (h : LateTotal Fc) : WellStaged timePipeline Fc :=
  wellStaged_of_check timePipeline Fc lateReaders (by decide) (by decide) h

theorem dimensionality_wellStaged (h : LateTotal Fc) : WellStaged dimensionalityPipeline Fc :=
  wellStaged_of_check dimensionalityPipeline Fc lateReaders (by decide) (by decide) h

/-- For the three estimators the side condition of `precomputed_subset` only concerns `landmarks`: every
    subset `S` of the nine documented intermediates qualifies as soon as the inducing points were given to the
    original model, or were not computed by it (`n_landmarks=0`, full GP), or `n_landmarks` was given. -/
theorem cacheable_subsets_qualify (Pc : Pipeline Staged.Attr)
    (hP : Pc = densityPipeline ∨ Pc = timePipeline ∨ Pc = dimensionalityPipeline)
    (d : Nat) (init : Cache Staged.Attr W) (S : List Staged.Attr) (hSub : ∀ b ∈ S, b ∈ cacheables)
    (hLm : Staged.Attr.landmarks ∈ S →
      init .landmarks = refCache Pc Fc d init .landmarks ∨ (init .nLandmarks).isSome = true) :
    ∀ pre a post, Pc.order = pre ++ a :: post → ∀ b ∈ Pc.reads a, b ∉ pre → b ∈ S →
      init b = refCache Pc Fc d init b ∨ (init a).isSome = true := by
  intro pre a post ho b hb hbp hbS
  have hck : checkFrom Pc lateReaders [] Pc.order = true := by
    rcases hP with rfl | rfl | rfl <;> decide
  rcases checkFrom_sound Pc lateReaders Pc.order [] hck pre a post ho with h | h
  · exact absurd (by simpa using h b hb) hbp
  · have hbc := hSub b hbS
    simp only [lateReaders, List.mem_cons, List.not_mem_nil, or_false] at h
    rcases h with rfl | rfl
    · -- compute_n_landmarks reads gp_type (not a cacheable) and landmarks
      have : b = .gpType ∨ b = .landmarks := by
        rcases hP with rfl | rfl | rfl <;> simpa [densityPipeline, timePipeline, dimensionalityPipeline] using hb
      rcases this with rfl | rfl
      · simp [cacheables] at hbc
      · exact hLm hbS
    · have : b = .gpType := by
        rcases hP with rfl | rfl | rfl <;> simpa [densityPipeline, timePipeline, dimensionalityPipeline] using hb
      subst this
      simp [cacheables] at hbc

end concrete

/-! ### non-vacuity: an interpretation in which a one-shot fit goes through -/

/-- every compute function returns 1 + the sum of what it read -/
def demoFuns : Funs Staged.Attr Nat where
  F := fun _ d vw => some (d + 1 + (vw .nnDistances).getD 0 + (vw .mu).getD 0)
  opt := fun vw => (vw .lossFunc).getD 0 + 7
  post := fun vw p => (vw .transform).getD 0 + p
  condNeedsY := fun _ => true
  cond := fun d vw p y => d + (vw .l).getD 0 + p + y.getD 0

example : LateTotal demoFuns := by intro a _ d vw; rfl
example : Legal densityPipeline demoFuns 3 (fun _ => none) := by unfold Legal; decide
example : NotPreparedAtInit densityPipeline (fun _ => (none : Option Nat)) := by unfold NotPreparedAtInit; decide
example : (step densityPipeline demoFuns (initState (fun _ => none))
    (.fit (some { id := 1, jax := true, content := 3 }) true)).1 = .ok := by decide

end Mellon.C18
