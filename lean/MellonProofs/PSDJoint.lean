/-
  MellonProofs.PSDJoint — from "the kernel is PSD" (`PSD.PSDOn`) to the matrix hypotheses used by the
  C04 / C06 theorems: Gram matrices of data matrices, joint Gram matrices of two point sets, and the
  regularised joint matrices `[[K_uu + N, K_ux], [K_xu, K_xx + N']]` with positive semi-definite `N`, `N'`.
-/
import MellonProofs.PSDTree
import MellonProofs.ConditionalLemmas

open Mellon Matrix
open scoped BigOperators

namespace Mellon.PSD

theorem row_length {n d : Nat} (X : Mat ℝ n d) (i : Fin n) : (X.row i).length = d := by
  simp [Mat.row, i.isLt]

/-- Gram matrix on any finite index type. -/
theorem gramM_psd_fintype {ι : Type} [Fintype ι] [DecidableEq ι] {d : Nat} {k : List ℝ → List ℝ → ℝ}
    (h : PSDOn d k) (xs : ι → List ℝ) (hlen : ∀ i, (xs i).length = d) :
    (Matrix.of fun i j => k (xs i) (xs j)).PosSemidef := by
  let e := Fintype.equivFin ι
  have hp := (gramM_psd h (fun i => xs (e.symm i)) (fun i => hlen _)).submatrix e
  have eq : (Matrix.of fun i j => k (xs i) (xs j)) = (gramM k fun i => xs (e.symm i)).submatrix e e := by
    ext i j; simp [gramM]
  rw [eq]; exact hp

/-- `cov_func(X, X)` is positive semi-definite. -/
theorem gram_psd {cov : Cov ℝ} {d n : Nat} (hk : PSDOn d cov.k) (X : Mat ℝ n d) :
    (toM (gram cov X X)).PosSemidef := by
  have := gramM_psd hk (fun i : Fin n => X.row i) (row_length X)
  have eq : toM (gram cov X X) = gramM cov.k (fun i : Fin n => X.row i) := by
    ext i j; simp only [toM_apply, gramM, Matrix.of_apply]; exact gram_el cov X X i j i.isLt j.isLt
  rw [eq]; exact this

/-- The joint Gram matrix of two point sets. -/
theorem joint_gram_psd {cov : Cov ℝ} {d m q : Nat} (hk : PSDOn d cov.k) (A : Mat ℝ m d) (B : Mat ℝ q d) :
    (Matrix.fromBlocks (toM (gram cov A A)) (toM (gram cov A B)) (toM (gram cov A B))ᵀ
      (toM (gram cov B B))).PosSemidef := by
  let pts : Fin m ⊕ Fin q → List ℝ := Sum.elim (fun i => A.row i) (fun j => B.row j)
  have hlen : ∀ i, (pts i).length = d := by
    intro i; cases i <;> simp [pts, row_length]
  have hp := gramM_psd_fintype hk pts hlen
  have eq : Matrix.fromBlocks (toM (gram cov A A)) (toM (gram cov A B)) (toM (gram cov A B))ᵀ
      (toM (gram cov B B)) = Matrix.of fun i j => cov.k (pts i) (pts j) := by
    ext i j
    rcases i with i | i <;> rcases j with j | j <;>
      simp only [Matrix.fromBlocks_apply₁₁, Matrix.fromBlocks_apply₁₂, Matrix.fromBlocks_apply₂₁,
        Matrix.fromBlocks_apply₂₂, Matrix.of_apply, Matrix.transpose_apply, toM_apply, pts, Sum.elim_inl,
        Sum.elim_inr]
    · exact gram_el cov A A i j i.isLt j.isLt
    · exact gram_el cov A B i j i.isLt j.isLt
    · rw [gram_el cov A B j i j.isLt i.isLt, cov_k_symm]
    · exact gram_el cov B B i j i.isLt j.isLt
  rw [eq]; exact hp

/-- `diag(N, N')` of two positive semi-definite blocks. -/
theorem blockDiag_psd {m q : Nat} {N : Matrix (Fin m) (Fin m) ℝ} {N' : Matrix (Fin q) (Fin q) ℝ}
    (hN : N.PosSemidef) (hN' : N'.PosSemidef) : (Matrix.fromBlocks N 0 0 N').PosSemidef := by
  refine Matrix.PosSemidef.of_dotProduct_mulVec_nonneg ?_ fun x => ?_
  · rw [Matrix.IsHermitian, Matrix.fromBlocks_conjTranspose]
    simp only [Matrix.conjTranspose_zero, Matrix.fromBlocks_inj, and_true, true_and]
    exact ⟨hN.1.eq, hN'.1.eq⟩
  · have h1 := hN.dotProduct_mulVec_nonneg (fun i => x (Sum.inl i))
    have h2 := hN'.dotProduct_mulVec_nonneg (fun i => x (Sum.inr i))
    have e : star x ⬝ᵥ (Matrix.fromBlocks N 0 0 N' *ᵥ x)
        = star (fun i => x (Sum.inl i)) ⬝ᵥ (N *ᵥ fun i => x (Sum.inl i))
          + star (fun i => x (Sum.inr i)) ⬝ᵥ (N' *ᵥ fun i => x (Sum.inr i)) := by
      simp [dotProduct, Matrix.mulVec, Fintype.sum_sum_type, Matrix.fromBlocks_apply₁₁]
    rw [e]; exact add_nonneg h1 h2

/-- The regularised joint matrix `[[K_AA + N, K_AB], [K_BA, K_BB + N']]`. -/
theorem joint_reg_psd {cov : Cov ℝ} {d m q : Nat} (hk : PSDOn d cov.k) (A : Mat ℝ m d) (B : Mat ℝ q d)
    {N : Matrix (Fin m) (Fin m) ℝ} {N' : Matrix (Fin q) (Fin q) ℝ} (hN : N.PosSemidef)
    (hN' : N'.PosSemidef) :
    (Matrix.fromBlocks (toM (gram cov A A) + N) (toM (gram cov A B)) (toM (gram cov A B))ᵀ
      (toM (gram cov B B) + N')).PosSemidef := by
  have e : Matrix.fromBlocks (toM (gram cov A A) + N) (toM (gram cov A B)) (toM (gram cov A B))ᵀ
      (toM (gram cov B B) + N')
      = Matrix.fromBlocks (toM (gram cov A A)) (toM (gram cov A B)) (toM (gram cov A B))ᵀ (toM (gram cov B B))
        + Matrix.fromBlocks N 0 0 N' := by
    rw [Matrix.fromBlocks_add]; simp
  rw [e]
  exact (joint_gram_psd hk A B).add (blockDiag_psd hN hN')

theorem smul_one_psd {n : Nat} {c : ℝ} (hc : 0 ≤ c) : (c • (1 : Matrix (Fin n) (Fin n) ℝ)).PosSemidef := by
  have : c • (1 : Matrix (Fin n) (Fin n) ℝ) = Matrix.diagonal fun _ => c := by
    ext i j; simp [Matrix.diagonal, Matrix.one_apply]
  rw [this]
  exact Matrix.PosSemidef.diagonal fun _ => hc

end Mellon.PSD
