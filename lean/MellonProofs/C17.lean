/-
  C17 — Optimisation never degrades the objective and is reproducible  (PARTIAL by nature).
  Property theorems only (helpers in OptimizeLemmas.lean).

  What a theorem can carry here: the wiring of `_run_inference`, the loop semantics of
  `minimize_adam` / `run_advi` for every `n_iter`, positivity and shape of the ADVI standard
  deviations, strict convexity of the density loss (so "the optimum" is well defined: at most one
  minimiser), the analytic gradient, and "L-BFGS-B contract ⇒ property".  What it cannot: that
  scipy's L-BFGS-B meets its contract, gradient-norm reduction, bitwise reproducibility, jit
  agreement — runtime behaviour of scipy/XLA, covered by tests in harness/props/c17.py.
-/
import MellonProofs.OptimizeLemmas

open Finset

namespace Mellon.C17
open Mellon

/-! ### `_run_inference`: which result lands where -/

/-- The optimiser names recognised are exactly `"adam"`, `"advi"`, `"L-BFGS-B"`. -/
theorem optimizer_names (s : String) :
    Optimizer.ofString "adam" = .adam ∧ Optimizer.ofString "advi" = .advi
    ∧ Optimizer.ofString "L-BFGS-B" = .lbfgsb
    ∧ (s ≠ "adam" → s ≠ "advi" → s ≠ "L-BFGS-B" → Optimizer.ofString s = .unknown s) := by
  refine ⟨by decide, by decide, by decide, ?_⟩
  intro h1 h2 h3
  simp [Optimizer.ofString, h1, h2, h3]

/-- **Wiring**: `adam` stores parameters, optimiser state and the loss trace and clears the
    standard deviations; `advi` stores parameters, standard deviations and the ELBO trace (and
    leaves `opt_state` as it was); `L-BFGS-B` stores parameters, state, the one-element list
    `[final loss]` and clears the standard deviations; each solver receives the estimator's own
    `loss_func`, `initial_value`, `n_iter`, `init_learn_rate`, `jit` (L-BFGS-B: the first two and
    `jit`). -/
theorem run_inference_wiring {F P S R V : Type} (sv : Solvers F P S R V) (a : InferArgs F P R)
    (st : InferState P S V) :
    runInference sv (Optimizer.ofString "adam") a st
      = .ok { preTransformation := some (sv.adam a).preTransformation, preTransformationStd := none,
              optState := some (sv.adam a).optState, losses := some (sv.adam a).losses }
    ∧ runInference sv (Optimizer.ofString "advi") a st
      = .ok { preTransformation := some (sv.advi a).preTransformation,
              preTransformationStd := some (sv.advi a).preTransformationStd,
              optState := st.optState, losses := some (sv.advi a).losses }
    ∧ runInference sv (Optimizer.ofString "L-BFGS-B") a st
      = .ok { preTransformation := some (sv.lbfgsb a.lossFunc a.initialValue a.jit).preTransformation,
              preTransformationStd := none,
              optState := some (sv.lbfgsb a.lossFunc a.initialValue a.jit).optState,
              losses := some [(sv.lbfgsb a.lossFunc a.initialValue a.jit).loss] } := by
  have h1 : Optimizer.ofString "adam" = .adam := by decide
  have h2 : Optimizer.ofString "advi" = .advi := by decide
  have h3 : Optimizer.ofString "L-BFGS-B" = .lbfgsb := by decide
  rw [h1, h2, h3]
  exact ⟨rfl, rfl, rfl⟩

/-- Any other optimiser name is refused with the `ValueError` branch, whatever the state. -/
theorem run_inference_unknown {F P S R V : Type} (sv : Solvers F P S R V) (a : InferArgs F P R)
    (st : InferState P S V) (s : String) (h1 : s ≠ "adam") (h2 : s ≠ "advi") (h3 : s ≠ "L-BFGS-B") :
    runInference sv (Optimizer.ofString s) a st = .error "ValueError:unknown-optimizer" := by
  rw [(optimizer_names s).2.2.2 h1 h2 h3]; rfl

/-! ### `minimize_adam`: trace semantics for every `n_iter` -/

/-- **Adam trace**: for the loop as coded over any optimiser triple and any `value_and_grad`,
    `losses` has length `n_iter`, `lossesᵢ` is the loss at the `i`-th iterate *before* the `i`-th
    update, the returned parameters are those of iterate `n_iter`, and `opt_state` is that iterate. -/
theorem adam_trace {P S G V : Type} (o : OptTriple P S G) (valGrad : P → V × G) (x0 : P) (nIter : ℕ) :
    let res := minimizeAdam o valGrad x0 nIter
    res.losses.length = nIter
    ∧ (∀ i, i < nIter → res.losses[i]? = some (valGrad (o.getParams (adamIter o valGrad x0 i))).1)
    ∧ res.preTransformation = o.getParams (adamIter o valGrad x0 nIter)
    ∧ res.optState = adamIter o valGrad x0 nIter := by
  intro res
  have h := adamLoop_spec o valGrad x0 nIter 0 []
  have hinit : adamIter o valGrad x0 0 = o.init x0 := rfl
  rw [hinit] at h
  simp only [Nat.zero_add, List.nil_append] at h
  have hl : res.losses = (List.range nIter).map fun j => (valGrad (o.getParams (adamIter o valGrad x0 j))).1 := by
    show (adamLoop o valGrad nIter 0 (o.init x0) []).2 = _
    rw [h]
  have hs : res.optState = adamIter o valGrad x0 nIter := by
    show (adamLoop o valGrad nIter 0 (o.init x0) []).1 = _
    rw [h]
  refine ⟨by rw [hl]; simp, ?_, ?_, hs⟩
  · intro i hi
    rw [hl]; simp [hi]
  · show o.getParams (adamLoop o valGrad nIter 0 (o.init x0) []).1 = _
    rw [h]

/-- The first recorded loss is the loss at the starting point; with `n_iter = 0` nothing moves. -/
theorem adam_first_loss {P S G V : Type} (o : OptTriple P S G) (valGrad : P → V × G) (x0 : P) (nIter : ℕ)
    (h : 0 < nIter) :
    (minimizeAdam o valGrad x0 nIter).losses[0]? = some (valGrad (o.getParams (o.init x0))).1 :=
  (adam_trace o valGrad x0 nIter).2.1 0 h

/-! ### `run_advi` -/

/-- **ADVI trace and standard deviations**: the ELBO trace has length `n_iter`; the returned
    standard deviations are `exp(log_std)` of the final state — strictly positive, one per latent
    variable (the shape of the initial value, by type). -/
theorem advi_std_pos {m : ℕ} {S V : Type} (init : Vector ℝ m × Vector ℝ m → S)
    (update : ℕ → S → S × V) (getParams : S → Vector ℝ m × Vector ℝ m) (x0 : Vector ℝ m) (nIter : ℕ) :
    let res := runAdvi init update getParams x0 nIter
    res.losses.length = nIter
    ∧ (∀ i, i < m → 0 < res.preTransformationStd.nth i)
    ∧ (∀ i, i < m → res.preTransformationStd.nth i
          = Real.exp ((getParams (adviIter update (init (adviInit x0)) nIter)).2.nth i))
    ∧ res.preTransformation = (getParams (adviIter update (init (adviInit x0)) nIter)).1 := by
  intro res
  have h := adviLoop_spec update (init (adviInit x0)) nIter 0 []
  have h0 : adviIter update (init (adviInit x0)) 0 = init (adviInit x0) := rfl
  rw [h0] at h
  simp only [Nat.zero_add, List.nil_append] at h
  have hstd : ∀ i, i < m → res.preTransformationStd.nth i
      = Real.exp ((getParams (adviIter update (init (adviInit x0)) nIter)).2.nth i) := by
    intro i hi
    show (vecOfFn fun i => exp ((getParams (adviLoop update nIter 0 (init (adviInit x0)) []).1).2.nth i)).nth i = _
    rw [nth_vecOfFn, h]; simp [hi]
  refine ⟨?_, ?_, hstd, ?_⟩
  · show (adviLoop update nIter 0 (init (adviInit x0)) []).2.length = nIter
    rw [h]; simp
  · intro i hi; rw [hstd i hi]; exact Real.exp_pos _
  · show (getParams (adviLoop update nIter 0 (init (adviInit x0)) []).1).1 = _
    rw [h]

/-- The variational family starts at the given mean with `log_std = -10·0 = 0`, i.e. unit standard
    deviations (as coded: `-10 * zeros_like(initial_parameters)`). -/
theorem advi_init {m : ℕ} (x0 : Vector ℝ m) {i : ℕ} (hi : i < m) :
    (adviInit x0).1 = x0 ∧ (adviInit x0).2.nth i = 0 ∧ Real.exp ((adviInit x0).2.nth i) = 1 := by
  have h : (adviInit x0).2.nth i = 0 := by
    unfold adviInit; rw [nth_vecOfFn]; simp [hi]
  exact ⟨rfl, h, by rw [h, Real.exp_zero]⟩

/-! ### the density objective is well posed: strictly convex, at most one minimiser -/

/-- **Strict convexity in `z`** of the density loss (prior `½‖z‖²` strictly convex, `exp∘affine`
    convex, `−affine` convex), for all data, scalar or per-cell `d`, any `mu`, `L`. -/
theorem loss_strictly_convex {n m : ℕ} (r : Vector ℝ n) (d : DimArg ℝ n) (mu : ℝ) (L : Mat ℝ n m) (k : ℕ) :
    StrictConvexOn ℝ Set.univ (fun w : Fin m → ℝ => lossFunc r d mu L k (Vector.ofFn w)) := by
  refine ⟨convex_univ, ?_⟩
  intro x _ y _ hxy a b ha hb hab
  simp only [lossFunc_ofFn, smul_eq_mul]
  have hq := sumsq_strict x y hxy ha hb hab
  have hterm : ∀ i ∈ range n,
      Real.exp (affRow mu L i (a • x + b • y) + nnLogV (r.nth i) (d.get i))
        - (affRow mu L i (a • x + b • y) + nnLogVdr (r.nth i) (d.get i))
      ≤ a * (Real.exp (affRow mu L i x + nnLogV (r.nth i) (d.get i))
              - (affRow mu L i x + nnLogVdr (r.nth i) (d.get i)))
        + b * (Real.exp (affRow mu L i y + nnLogV (r.nth i) (d.get i))
              - (affRow mu L i y + nnLogVdr (r.nth i) (d.get i))) := by
    intro i _
    rw [affRow_combo mu L i x y hab]
    set p := affRow mu L i x + nnLogV (r.nth i) (d.get i) with hp
    set q := affRow mu L i y + nnLogV (r.nth i) (d.get i) with hq'
    have harg : a * affRow mu L i x + b * affRow mu L i y + nnLogV (r.nth i) (d.get i) = a * p + b * q := by
      have : nnLogV (r.nth i) (d.get i) = a * nnLogV (r.nth i) (d.get i) + b * nnLogV (r.nth i) (d.get i) := by
        rw [← add_mul, hab, one_mul]
      rw [hp, hq']; linarith
    rw [harg]
    have hexp : Real.exp (a * p + b * q) ≤ a * Real.exp p + b * Real.exp q := by
      have := convexOn_exp.2 (Set.mem_univ p) (Set.mem_univ q) (le_of_lt ha) (le_of_lt hb) hab
      simpa [smul_eq_mul] using this
    have hlin : nnLogVdr (r.nth i) (d.get i)
        = a * nnLogVdr (r.nth i) (d.get i) + b * nnLogVdr (r.nth i) (d.get i) := by
      rw [← add_mul, hab, one_mul]
    linarith
  have hsum := Finset.sum_le_sum hterm
  rw [Finset.sum_add_distrib, ← Finset.mul_sum, ← Finset.mul_sum] at hsum
  have hc : (k / 2 : ℝ) * Real.log (2 * Real.pi)
      = a * ((k / 2 : ℝ) * Real.log (2 * Real.pi)) + b * ((k / 2 : ℝ) * Real.log (2 * Real.pi)) := by
    rw [← add_mul, hab, one_mul]
  nlinarith [hq, hsum, hc]

/-- Hence the optimisation problem has **at most one minimiser** ("the" MAP estimate is well
    defined; reruns that converge, converge to the same point). -/
theorem loss_minimiser_unique {n m : ℕ} (r : Vector ℝ n) (d : DimArg ℝ n) (mu : ℝ) (L : Mat ℝ n m) (k : ℕ)
    (x y : Fin m → ℝ)
    (hx : ∀ w, lossFunc r d mu L k (Vector.ofFn x) ≤ lossFunc r d mu L k (Vector.ofFn w))
    (hy : ∀ w, lossFunc r d mu L k (Vector.ofFn y) ≤ lossFunc r d mu L k (Vector.ofFn w)) : x = y :=
  (loss_strictly_convex r d mu L k).eq_of_isMinOn
    (fun w _ => hx w) (fun w _ => hy w) (Set.mem_univ x) (Set.mem_univ y)

/-- **Well-posedness**: the density loss is continuous and coercive (`loss z ≥ ¼‖z‖² − K`), hence
    attains its minimum; with strict convexity there is **exactly one** minimiser, for all data. -/
theorem loss_exists_unique_minimiser {n m : ℕ} (r : Vector ℝ n) (d : DimArg ℝ n) (mu : ℝ) (L : Mat ℝ n m) (k : ℕ) :
    ∃! x : Fin m → ℝ, ∀ w, lossFunc r d mu L k (Vector.ofFn x) ≤ lossFunc r d mu L k (Vector.ofFn w) := by
  obtain ⟨x, hx⟩ := lossFunc_exists_min r d mu L k
  exact ⟨x, hx, fun y hy => loss_minimiser_unique r d mu L k y x hy hx⟩

/-- The analytic gradient used by the model's executable Adam instance (`lossGrad`, standing in for
    `jax.value_and_grad`) is the true partial derivative of the loss in every coordinate:
    `∂loss/∂z_j = z_j − Σᵢ L_{ij}·(1 − exp((Lz+μ)ᵢ + log V_{dᵢ} rᵢ^{dᵢ}))`. -/
theorem loss_grad_correct {n m : ℕ} (r : Vector ℝ n) (d : DimArg ℝ n) (mu : ℝ) (L : Mat ℝ n m) (k : ℕ)
    (w : Fin m → ℝ) (j : Fin m) :
    HasDerivAt (fun t => lossFunc r d mu L k (Vector.ofFn (Function.update w j t)))
      ((lossGrad r d mu L (Vector.ofFn w)).nth j.val) (w j) := lossGrad_hasDerivAt r d mu L k w j

/-! ### L-BFGS-B: contract ⇒ property -/

/-- **If** the external solver meets its contract — it returns `(z*, f)` with `f = loss z*` and
    `loss z* ≤ loss z₀` — **then** after `_run_inference` the estimator state satisfies the property:
    the stored parameters have an objective value not larger than at the starting point, equal to
    the single reported loss, and no standard deviations are stored. -/
theorem lbfgs_contract_implies_property {F P S R : Type} (eval : F → P → ℝ) (sv : Solvers F P S R ℝ)
    (contract : ∀ (f : F) (z0 : P) (jit : Bool),
      (sv.lbfgsb f z0 jit).loss = eval f (sv.lbfgsb f z0 jit).preTransformation
      ∧ eval f (sv.lbfgsb f z0 jit).preTransformation ≤ eval f z0)
    (a : InferArgs F P R) (st : InferState P S ℝ) :
    ∃ st' zs, runInference sv (Optimizer.ofString "L-BFGS-B") a st = .ok st'
      ∧ st'.preTransformation = some zs
      ∧ st'.losses = some [eval a.lossFunc zs]
      ∧ eval a.lossFunc zs ≤ eval a.lossFunc a.initialValue
      ∧ st'.preTransformationStd = none := by
  obtain ⟨hl, hle⟩ := contract a.lossFunc a.initialValue a.jit
  refine ⟨_, (sv.lbfgsb a.lossFunc a.initialValue a.jit).preTransformation,
    (run_inference_wiring sv a st).2.2, rfl, ?_, hle, rfl⟩
  simp only [hl]

/-! ### non-vacuity -/

/-- The L-BFGS-B contract is satisfiable (a solver that returns its starting point). -/
example : ∃ sv : Solvers (ℝ → ℝ) ℝ Unit ℝ ℝ, ∀ (f : ℝ → ℝ) (z0 : ℝ) (jit : Bool),
    (sv.lbfgsb f z0 jit).loss = f (sv.lbfgsb f z0 jit).preTransformation
    ∧ f (sv.lbfgsb f z0 jit).preTransformation ≤ f z0 :=
  ⟨{ adam := fun a => ⟨a.initialValue, (), []⟩, advi := fun a => ⟨a.initialValue, a.initialValue, []⟩,
     lbfgsb := fun f z0 _ => ⟨z0, (), f z0⟩ }, fun _ _ _ => ⟨rfl, le_refl _⟩⟩

/-- `adam_trace` on a concrete loop: two passes of "subtract the gradient" on `x ↦ (x², 2x)`. -/
example : (minimizeAdam (P := Int) (S := Int) (G := Int) (V := Int)
    ⟨id, fun _ g s => s - g, id⟩ (fun x => (x * x, 2 * x)) 3 2).losses = [9, 9] := by decide

end Mellon.C17
