/-
  MellonProofs.OptimizeLemmas — helper lemmas for C17 (optimiser loops, convexity of the density
  loss, its gradient).
-/
import MellonProofs.InferenceLemmas
import MellonModel.Optimize
import Mathlib.Analysis.Convex.SpecificFunctions.Basic
import Mathlib.Analysis.Calculus.Deriv.Add
import Mathlib.Analysis.Calculus.Deriv.Mul
import Mathlib.Analysis.SpecialFunctions.ExpDeriv
import Mathlib.Topology.Order.Compact
import Mathlib.Analysis.Normed.Group.Bounded
import Mathlib.Analysis.Normed.Group.Constructions
import Mathlib.Topology.MetricSpace.ProperSpace

open Finset Filter

namespace Mellon

/-! ### the iterates of `minimize_adam` -/

/-- Optimiser state after `i` passes of the loop (specification recurrence). -/
def adamIter {P S G V : Type} (o : OptTriple P S G) (valGrad : P → V × G) (x0 : P) : ℕ → S
  | 0 => o.init x0
  | i + 1 => o.update i (valGrad (o.getParams (adamIter o valGrad x0 i))).2 (adamIter o valGrad x0 i)

theorem adamLoop_spec {P S G V : Type} (o : OptTriple P S G) (valGrad : P → V × G) (x0 : P) :
    ∀ (fuel i : ℕ) (acc : List V),
      adamLoop o valGrad fuel i (adamIter o valGrad x0 i) acc
        = (adamIter o valGrad x0 (i + fuel),
           acc ++ (List.range fuel).map fun j => (valGrad (o.getParams (adamIter o valGrad x0 (i + j)))).1) := by
  intro fuel
  induction fuel with
  | zero => intro i acc; simp [adamLoop]
  | succ f ih =>
    intro i acc
    have hstep : o.update i (valGrad (o.getParams (adamIter o valGrad x0 i))).2 (adamIter o valGrad x0 i)
        = adamIter o valGrad x0 (i + 1) := rfl
    simp only [adamLoop]
    rw [hstep, ih (i + 1)]
    congr 1
    · congr 1; omega
    · rw [List.range_succ_eq_map, List.map_cons, List.map_map, List.append_assoc]
      simp only [List.singleton_append, Nat.add_zero]
      congr 2
      apply List.map_congr_left
      intro j _
      simp only [Function.comp]
      congr 4
      omega

/-! ### the iterates of `run_advi` -/

def adviIter {S V : Type} (update : ℕ → S → S × V) (s0 : S) : ℕ → S
  | 0 => s0
  | t + 1 => (update t (adviIter update s0 t)).1

theorem adviLoop_spec {S V : Type} (update : ℕ → S → S × V) (s0 : S) :
    ∀ (fuel t : ℕ) (acc : List V),
      adviLoop update fuel t (adviIter update s0 t) acc
        = (adviIter update s0 (t + fuel),
           acc ++ (List.range fuel).map fun j => (update (t + j) (adviIter update s0 (t + j))).2) := by
  intro fuel
  induction fuel with
  | zero => intro t acc; simp [adviLoop]
  | succ f ih =>
    intro t acc
    have hstep : (update t (adviIter update s0 t)).1 = adviIter update s0 (t + 1) := rfl
    simp only [adviLoop]
    rw [hstep, ih (t + 1)]
    congr 1
    · congr 1; omega
    · rw [List.range_succ_eq_map, List.map_cons, List.map_map, List.append_assoc]
      simp only [List.singleton_append, Nat.add_zero]
      congr 2
      apply List.map_congr_left
      intro j _
      simp only [Function.comp]
      have : t + 1 + j = t + (j + 1) := by omega
      rw [this]

/-! ### the density loss as a function on `Fin m → ℝ` -/

theorem nth_ofFn_fin {m : ℕ} (w : Fin m → ℝ) (j : Fin m) : (Vector.ofFn w).nth j.val = w j := by
  unfold Vector.nth; rw [nthD_ofFn]; simp

/-- The affine map `w ↦ (L w + mu)ᵢ`. -/
def affRow {n m : ℕ} (mu : ℝ) (L : Mat ℝ n m) (i : ℕ) (w : Fin m → ℝ) : ℝ := ∑ c : Fin m, L.el i c * w c + mu

theorem transform_ofFn {n m : ℕ} (mu : ℝ) (L : Mat ℝ n m) (w : Fin m → ℝ) {i : ℕ} (hi : i < n) :
    (transform mu L (Vector.ofFn w)).nth i = affRow mu L i w := by
  unfold transform affRow
  rw [nth_vecOfFn]; simp only [hi, if_true, nsum_eq_sum]
  rw [Finset.sum_range fun c => L.el i c * (Vector.ofFn w).nth c]
  simp only [nth_ofFn_fin]

/-- Explicit form of the loss: quadratic + constant + Σᵢ (exp(affine) − affine). -/
theorem lossFunc_ofFn {n m : ℕ} (r : Vector ℝ n) (d : DimArg ℝ n) (mu : ℝ) (L : Mat ℝ n m) (k : ℕ)
    (w : Fin m → ℝ) :
    lossFunc r d mu L k (Vector.ofFn w)
      = (1 / 2) * (∑ c : Fin m, w c * w c) + (k / 2) * Real.log (2 * Real.pi)
        + ∑ i ∈ range n, (Real.exp (affRow mu L i w + nnLogV (r.nth i) (d.get i))
                          - (affRow mu L i w + nnLogVdr (r.nth i) (d.get i))) := by
  unfold lossFunc normalLogpdf nnLoglik
  rw [normalLogpdfOf_eq, sumSq_eq, nsum_eq_sum]
  rw [Finset.sum_range fun c => (Vector.ofFn w).nth c * (Vector.ofFn w).nth c]
  simp only [nth_ofFn_fin]
  have e : ∑ i ∈ range n, nnTerm (r.nth i) (d.get i) ((transform mu L (Vector.ofFn w)).nth i)
      = -∑ i ∈ range n, (Real.exp (affRow mu L i w + nnLogV (r.nth i) (d.get i))
                          - (affRow mu L i w + nnLogVdr (r.nth i) (d.get i))) := by
    rw [← Finset.sum_neg_distrib]
    apply Finset.sum_congr rfl
    intro i hi
    rw [transform_ofFn mu L w (Finset.mem_range.mp hi)]
    unfold nnTerm; rw [exp_real]; ring
  rw [e]; ring

theorem affRow_combo {n m : ℕ} (mu : ℝ) (L : Mat ℝ n m) (i : ℕ) (x y : Fin m → ℝ) {a b : ℝ} (hab : a + b = 1) :
    affRow mu L i (a • x + b • y) = a * affRow mu L i x + b * affRow mu L i y := by
  unfold affRow
  simp only [Pi.add_apply, Pi.smul_apply, smul_eq_mul]
  have : ∑ c : Fin m, L.el i c * (a * x c + b * y c)
      = a * ∑ c : Fin m, L.el i c * x c + b * ∑ c : Fin m, L.el i c * y c := by
    rw [Finset.mul_sum, Finset.mul_sum, ← Finset.sum_add_distrib]
    apply Finset.sum_congr rfl; intro c _; ring
  rw [this]
  have hmu : mu = a * mu + b * mu := by rw [← add_mul, hab, one_mul]
  linarith

/-- `½‖w‖²` is strictly convex (explicit defect `½·a·b·‖x−y‖²`). -/
theorem sumsq_strict {m : ℕ} (x y : Fin m → ℝ) (hxy : x ≠ y) {a b : ℝ} (ha : 0 < a) (hb : 0 < b) (hab : a + b = 1) :
    ∑ c : Fin m, (a • x + b • y) c * (a • x + b • y) c
      < a * ∑ c : Fin m, x c * x c + b * ∑ c : Fin m, y c * y c := by
  have hdiff : a * ∑ c : Fin m, x c * x c + b * ∑ c : Fin m, y c * y c
      - ∑ c : Fin m, (a • x + b • y) c * (a • x + b • y) c
      = ∑ c : Fin m, a * b * (x c - y c) ^ 2 := by
    rw [Finset.mul_sum, Finset.mul_sum, ← Finset.sum_add_distrib, ← Finset.sum_sub_distrib]
    apply Finset.sum_congr rfl
    intro c _
    simp only [Pi.add_apply, Pi.smul_apply, smul_eq_mul]
    have hb' : b = 1 - a := by linarith
    subst hb'; ring
  have hpos : 0 < ∑ c : Fin m, a * b * (x c - y c) ^ 2 := by
    obtain ⟨c, hc⟩ := Function.ne_iff.mp hxy
    apply Finset.sum_pos'
    · intro c _; positivity
    · refine ⟨c, Finset.mem_univ c, ?_⟩
      have : x c - y c ≠ 0 := sub_ne_zero.mpr hc
      positivity
  linarith

/-! ### the analytic gradient of the density loss -/

theorem affRow_update {n m : ℕ} (mu : ℝ) (L : Mat ℝ n m) (i : ℕ) (w : Fin m → ℝ) (j : Fin m) (t : ℝ) :
    affRow mu L i (Function.update w j t) = affRow mu L i w + L.el i j * (t - w j) := by
  unfold affRow
  have h : ∑ c : Fin m, L.el i c * Function.update w j t c - ∑ c : Fin m, L.el i c * w c
      = L.el i j * (t - w j) := by
    rw [← Finset.sum_sub_distrib, Finset.sum_eq_single j]
    · simp only [Function.update_self]; ring
    · intro c _ hc; rw [Function.update_of_ne hc]; ring
    · intro hj; exact absurd (Finset.mem_univ j) hj
  linarith

theorem sumsq_update {m : ℕ} (w : Fin m → ℝ) (j : Fin m) (t : ℝ) :
    ∑ c : Fin m, Function.update w j t c * Function.update w j t c
      = ∑ c : Fin m, w c * w c + (t * t - w j * w j) := by
  have h : ∑ c : Fin m, Function.update w j t c * Function.update w j t c - ∑ c : Fin m, w c * w c
      = t * t - w j * w j := by
    rw [← Finset.sum_sub_distrib, Finset.sum_eq_single j]
    · simp only [Function.update_self]
    · intro c _ hc; rw [Function.update_of_ne hc]; ring
    · intro hj; exact absurd (Finset.mem_univ j) hj
  linarith

theorem lossGrad_nth {n m : ℕ} (r : Vector ℝ n) (d : DimArg ℝ n) (mu : ℝ) (L : Mat ℝ n m)
    (w : Fin m → ℝ) (j : Fin m) :
    (lossGrad r d mu L (Vector.ofFn w)).nth j.val
      = w j - ∑ i ∈ range n, L.el i j * (1 - Real.exp (affRow mu L i w + nnLogV (r.nth i) (d.get i))) := by
  unfold lossGrad
  simp only
  rw [nth_vecOfFn]
  simp only [j.isLt, if_true, nsum_eq_sum, nth_ofFn_fin]
  congr 1
  apply Finset.sum_congr rfl
  intro i hi
  rw [transform_ofFn mu L w (Finset.mem_range.mp hi), exp_real]

/-- `lossGrad` is the partial derivative of the loss in every coordinate (what JAX AD returns by
    its contract). -/
theorem lossGrad_hasDerivAt {n m : ℕ} (r : Vector ℝ n) (d : DimArg ℝ n) (mu : ℝ) (L : Mat ℝ n m) (k : ℕ)
    (w : Fin m → ℝ) (j : Fin m) :
    HasDerivAt (fun t => lossFunc r d mu L k (Vector.ofFn (Function.update w j t)))
      ((lossGrad r d mu L (Vector.ofFn w)).nth j.val) (w j) := by
  have hform : (fun t => lossFunc r d mu L k (Vector.ofFn (Function.update w j t)))
      = fun t => (1 / 2) * (∑ c : Fin m, w c * w c + (t * t - w j * w j)) + (k / 2) * Real.log (2 * Real.pi)
          + ∑ i ∈ range n, (Real.exp (affRow mu L i w + L.el i j * (t - w j) + nnLogV (r.nth i) (d.get i))
                            - (affRow mu L i w + L.el i j * (t - w j) + nnLogVdr (r.nth i) (d.get i))) := by
    funext t
    rw [lossFunc_ofFn, sumsq_update]
    simp only [affRow_update]
  rw [hform, lossGrad_nth]
  have hquad : HasDerivAt (fun t : ℝ => (1 / 2) * (∑ c : Fin m, w c * w c + (t * t - w j * w j))
      + (k / 2) * Real.log (2 * Real.pi)) (w j) (w j) := by
    have h1 : HasDerivAt (fun t : ℝ => t * t) (1 * w j + w j * 1) (w j) :=
      (hasDerivAt_id' (w j)).fun_mul (hasDerivAt_id' (w j))
    have h2 : HasDerivAt (fun t : ℝ => (1 / 2) * (∑ c : Fin m, w c * w c + (t * t - w j * w j))
        + (k / 2) * Real.log (2 * Real.pi)) ((1 / 2) * (1 * w j + w j * 1)) (w j) :=
      (((h1.sub_const (w j * w j)).const_add (∑ c : Fin m, w c * w c)).const_mul (1 / 2 : ℝ)).add_const _
    exact h2.congr_deriv (by ring)
  have hterm : ∀ i ∈ range n, HasDerivAt
      (fun t : ℝ => Real.exp (affRow mu L i w + L.el i j * (t - w j) + nnLogV (r.nth i) (d.get i))
                      - (affRow mu L i w + L.el i j * (t - w j) + nnLogVdr (r.nth i) (d.get i)))
      (-(L.el i j * (1 - Real.exp (affRow mu L i w + nnLogV (r.nth i) (d.get i))))) (w j) := by
    intro i _
    have hlin : HasDerivAt (fun t : ℝ => L.el i j * (t - w j)) (L.el i j * 1) (w j) :=
      ((hasDerivAt_id' (w j)).sub_const (w j)).const_mul (L.el i j)
    have ha : HasDerivAt (fun t : ℝ => affRow mu L i w + L.el i j * (t - w j) + nnLogV (r.nth i) (d.get i))
        (L.el i j * 1) (w j) := (hlin.const_add _).add_const _
    have hb : HasDerivAt (fun t : ℝ => affRow mu L i w + L.el i j * (t - w j) + nnLogVdr (r.nth i) (d.get i))
        (L.el i j * 1) (w j) := (hlin.const_add _).add_const _
    have he := ha.exp
    have hd := he.fun_sub hb
    refine hd.congr_deriv ?_
    simp only [sub_self, mul_zero, add_zero]
    ring
  have hsum := HasDerivAt.fun_sum hterm
  have hall := hquad.fun_add hsum
  refine hall.congr_deriv ?_
  rw [Finset.sum_neg_distrib]
  ring

/-! ### coercivity: the density loss attains its minimum -/

/-- Quadratic lower bound: the loss dominates `¼‖w‖₂² − K`. -/
theorem lossFunc_lower_bound {n m : ℕ} (r : Vector ℝ n) (d : DimArg ℝ n) (mu : ℝ) (L : Mat ℝ n m) (k : ℕ) :
    ∃ K : ℝ, ∀ w : Fin m → ℝ, (1 / 4) * (∑ c : Fin m, w c * w c) - K ≤ lossFunc r d mu L k (Vector.ofFn w) := by
  -- b_c = Σᵢ L_{ic}
  set b : Fin m → ℝ := fun c => ∑ i ∈ range n, L.el i c with hb
  refine ⟨(∑ c : Fin m, b c * b c) + (n * mu + ∑ i ∈ range n, nnLogVdr (r.nth i) (d.get i))
            - (k / 2) * Real.log (2 * Real.pi), ?_⟩
  intro w
  rw [lossFunc_ofFn]
  have hexp : ∑ i ∈ range n, (Real.exp (affRow mu L i w + nnLogV (r.nth i) (d.get i))
        - (affRow mu L i w + nnLogVdr (r.nth i) (d.get i)))
      ≥ -(∑ i ∈ range n, affRow mu L i w) - ∑ i ∈ range n, nnLogVdr (r.nth i) (d.get i) := by
    rw [ge_iff_le, ← Finset.sum_neg_distrib, ← Finset.sum_sub_distrib]
    apply Finset.sum_le_sum
    intro i _
    have := Real.exp_pos (affRow mu L i w + nnLogV (r.nth i) (d.get i))
    linarith
  have haff : ∑ i ∈ range n, affRow mu L i w = ∑ c : Fin m, b c * w c + n * mu := by
    unfold affRow
    rw [Finset.sum_add_distrib, Finset.sum_const, Finset.card_range, nsmul_eq_mul, Finset.sum_comm]
    congr 1
    apply Finset.sum_congr rfl
    intro c _
    simp only [hb]; rw [Finset.sum_mul]
  have hsq : ∑ c : Fin m, b c * w c ≤ (1 / 4) * (∑ c : Fin m, w c * w c) + ∑ c : Fin m, b c * b c := by
    rw [Finset.mul_sum, ← Finset.sum_add_distrib]
    apply Finset.sum_le_sum
    intro c _
    nlinarith [sq_nonneg (w c / 2 - b c)]
  rw [haff] at hexp
  linarith

theorem pi_norm_sq_le_sum {m : ℕ} (w : Fin m → ℝ) : ‖w‖ ^ 2 ≤ ∑ c : Fin m, w c * w c := by
  have hs : 0 ≤ ∑ c : Fin m, w c * w c := Finset.sum_nonneg fun c _ => mul_self_nonneg _
  have h : ‖w‖ ≤ Real.sqrt (∑ c : Fin m, w c * w c) := by
    rw [pi_norm_le_iff_of_nonneg (Real.sqrt_nonneg _)]
    intro c
    rw [Real.norm_eq_abs]
    apply Real.abs_le_sqrt
    rw [sq]
    exact Finset.single_le_sum (f := fun c => w c * w c) (fun c _ => mul_self_nonneg _) (Finset.mem_univ c)
  calc ‖w‖ ^ 2 ≤ Real.sqrt (∑ c : Fin m, w c * w c) ^ 2 := by
        exact pow_le_pow_left₀ (norm_nonneg _) h 2
    _ = ∑ c : Fin m, w c * w c := Real.sq_sqrt hs

theorem lossFunc_continuous {n m : ℕ} (r : Vector ℝ n) (d : DimArg ℝ n) (mu : ℝ) (L : Mat ℝ n m) (k : ℕ) :
    Continuous fun w : Fin m → ℝ => lossFunc r d mu L k (Vector.ofFn w) := by
  have : (fun w : Fin m → ℝ => lossFunc r d mu L k (Vector.ofFn w)) = fun w =>
      (1 / 2) * (∑ c : Fin m, w c * w c) + (k / 2) * Real.log (2 * Real.pi)
        + ∑ i ∈ range n, (Real.exp ((∑ c : Fin m, L.el i c * w c + mu) + nnLogV (r.nth i) (d.get i))
                          - ((∑ c : Fin m, L.el i c * w c + mu) + nnLogVdr (r.nth i) (d.get i))) := by
    funext w; rw [lossFunc_ofFn]; rfl
  rw [this]
  fun_prop

/-- The density loss attains its minimum. -/
theorem lossFunc_exists_min {n m : ℕ} (r : Vector ℝ n) (d : DimArg ℝ n) (mu : ℝ) (L : Mat ℝ n m) (k : ℕ) :
    ∃ x : Fin m → ℝ, ∀ w, lossFunc r d mu L k (Vector.ofFn x) ≤ lossFunc r d mu L k (Vector.ofFn w) := by
  obtain ⟨K, hK⟩ := lossFunc_lower_bound r d mu L k
  apply (lossFunc_continuous r d mu L k).exists_forall_le
  have hg : Tendsto (fun w : Fin m → ℝ => (1 / 4) * ‖w‖ ^ 2 - K) (cocompact (Fin m → ℝ)) atTop := by
    have h1 : Tendsto (fun w : Fin m → ℝ => ‖w‖) (cocompact (Fin m → ℝ)) atTop := tendsto_norm_cocompact_atTop
    have h2 : Tendsto (fun t : ℝ => (1 / 4) * t ^ 2 - K) atTop atTop := by
      apply tendsto_atTop_add_const_right
      exact (tendsto_pow_atTop (n := 2) (by norm_num)).const_mul_atTop (by norm_num)
    exact h2.comp h1
  apply tendsto_atTop_mono _ hg
  intro w
  have := pi_norm_sq_le_sum w
  have := hK w
  linarith

end Mellon
