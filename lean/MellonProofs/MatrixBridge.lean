/-
  MellonProofs.MatrixBridge — the model's data matrices as Mathlib matrices, and the linear-algebra
  specs of LinalgProofs restated as matrix equations.
-/
import MellonProofs.LinalgProofs
import Mathlib.Data.Matrix.Mul
import Mathlib.LinearAlgebra.Matrix.Symmetric

open Finset Matrix

namespace Mellon

/-- A data matrix as a Mathlib matrix. -/
def toM {n m : Nat} (A : Mat ℝ n m) : Matrix (Fin n) (Fin m) ℝ := fun i j => A.el i j

def toV {n : Nat} (v : Vector ℝ n) : Fin n → ℝ := fun i => v.nth i

@[simp] theorem toM_apply {n m : Nat} (A : Mat ℝ n m) (i : Fin n) (j : Fin m) : toM A i j = A.el i j := rfl
@[simp] theorem toV_apply {n : Nat} (v : Vector ℝ n) (i : Fin n) : toV v i = v.nth i := rfl

theorem toM_ofFn {n m : Nat} (f : Nat → Nat → ℝ) :
    toM (Mat.ofFn (n := n) (m := m) f) = Matrix.of fun (i : Fin n) (j : Fin m) => f i j := by
  ext i j; simp [i.isLt, j.isLt]

theorem sum_fin_eq_range {n : Nat} (f : Nat → ℝ) : ∑ k : Fin n, f k = ∑ k ∈ range n, f k :=
  Fin.sum_univ_eq_sum_range f n

theorem matMul_toM {n m p : Nat} (A : Mat ℝ n m) (B : Mat ℝ m p) :
    toM (matMul A B) = toM A * toM B := by
  ext i j
  simp only [toM_apply, matMul, el_ofFn, i.isLt, j.isLt, and_self, if_true, nsum_eq_sum, Matrix.mul_apply]
  exact (sum_fin_eq_range (fun k => A.el i k * B.el k j)).symm

theorem matMulT_toM {n m p : Nat} (A : Mat ℝ n m) (B : Mat ℝ p m) :
    toM (matMulT A B) = toM A * (toM B)ᵀ := by
  ext i j
  simp only [toM_apply, matMulT, el_ofFn, i.isLt, j.isLt, and_self, if_true, nsum_eq_sum, Matrix.mul_apply,
    Matrix.transpose_apply]
  exact (sum_fin_eq_range (fun k => A.el i k * B.el j k)).symm

theorem matVec_toV {n m : Nat} (A : Mat ℝ n m) (v : Vector ℝ m) :
    toV (matVec A v) = toM A *ᵥ toV v := by
  ext i
  simp only [toV_apply, matVec, nth_vecOfFn, i.isLt, if_true, nsum_eq_sum, Matrix.mulVec, dotProduct,
    toM_apply]
  exact (sum_fin_eq_range (fun k => A.el i k * v.nth k)).symm

/-- Two data matrices with the same in-range entries are equal. -/
theorem mat_ext {a b : Nat} {M M' : Mat ℝ a b} (h : ∀ i k, i < a → k < b → M.el i k = M'.el i k) : M = M' := by
  apply Vector.ext
  intro i hi
  apply Vector.ext
  intro k hk
  have := h i k hi hk
  simpa [Mat.el, Vector.nth, Vector.nthD, hi, hk] using this

theorem ofFn_el {a b : Nat} (M : Mat ℝ a b) : (Mat.ofFn fun i k => M.el i k) = M :=
  mat_ext (fun i k hi hk => by simp [hi, hk])

/-! ### columns -/

theorem col_nth {n m : Nat} (A : Mat ℝ n m) (j i : Nat) :
    (A.col j).nth i = if i < n then A.el i j else 0 := by
  simp [Mat.col]

theorem ofCols_el {n m : Nat} (c : Vector (Vector ℝ n) m) (i j : Nat) (hi : i < n) (hj : j < m) :
    (Mat.ofCols c).el i j = (c[j]).nth i := by
  simp [Mat.ofCols, hi, hj]

theorem solveLowerM_el {n p : Nat} (L : Mat ℝ n n) (B : Mat ℝ n p) (i j : Nat) (hi : i < n) (hj : j < p) :
    (solveLowerM L B).el i j = (solveLower L (B.col j)).nth i := by
  unfold solveLowerM
  rw [ofCols_el _ _ _ hi hj]
  simp

theorem solveUpperTM_el {n p : Nat} (L : Mat ℝ n n) (B : Mat ℝ n p) (i j : Nat) (hi : i < n) (hj : j < p) :
    (solveUpperTM L B).el i j = (solveUpperT L (B.col j)).nth i := by
  unfold solveUpperTM
  rw [ofCols_el _ _ _ hi hj]
  simp

/-! ### triangular solves as matrix equations -/

/-- Lower-triangular with non-zero diagonal. -/
structure LowerNonsing {n : Nat} (L : Mat ℝ n n) : Prop where
  upper_zero : ∀ i j, i < j → L.el i j = 0
  diag_ne : ∀ i, i < n → L.el i i ≠ 0

theorem IsCholOf.lowerNonsing {n : Nat} {L A : Mat ℝ n n} (h : IsCholOf L A) : LowerNonsing L :=
  ⟨h.upper_zero, fun i hi => ne_of_gt (h.diag_pos i hi)⟩

theorem solveLower_mulVec {n : Nat} {L : Mat ℝ n n} (hL : LowerNonsing L) (b : Vector ℝ n) :
    toM L *ᵥ toV (solveLower L b) = toV b := by
  ext i
  simp only [Matrix.mulVec, dotProduct, toM_apply, toV_apply]
  rw [sum_fin_eq_range (fun k => L.el i k * (solveLower L b).nth k)]
  have hi := i.isLt
  have hsplit : range n = range (i + 1) ∪ Ico (i + 1) n := by
    ext k; simp only [mem_range, mem_union, mem_Ico]; omega
  have hdisj : Disjoint (range (i.val + 1)) (Ico (i.val + 1) n) := by
    rw [Finset.disjoint_left]; intro k hk hk2
    simp only [mem_range] at hk; simp only [mem_Ico] at hk2; omega
  rw [hsplit, Finset.sum_union hdisj, solveLower_spec L b hi (hL.diag_ne i hi)]
  have : ∑ k ∈ Ico (i.val + 1) n, L.el i k * (solveLower L b).nth k = 0 := by
    apply Finset.sum_eq_zero
    intro k hk
    simp only [mem_Ico] at hk
    rw [hL.upper_zero i k (by omega)]; ring
  rw [this, add_zero]

theorem solveUpperT_mulVec {n : Nat} {L : Mat ℝ n n} (hL : LowerNonsing L) (b : Vector ℝ n) :
    (toM L)ᵀ *ᵥ toV (solveUpperT L b) = toV b := by
  ext i
  simp only [Matrix.mulVec, dotProduct, toM_apply, toV_apply, Matrix.transpose_apply]
  rw [sum_fin_eq_range (fun k => L.el k i * (solveUpperT L b).nth k)]
  have hi := i.isLt
  have hsplit : range n = range i ∪ Ico i n := by
    ext k; simp only [mem_range, mem_union, mem_Ico]; omega
  have hdisj : Disjoint (range i.val) (Ico i.val n) := by
    rw [Finset.disjoint_left]; intro k hk hk2
    simp only [mem_range] at hk; simp only [mem_Ico] at hk2; omega
  rw [hsplit, Finset.sum_union hdisj, solveUpperT_spec L b hi (hL.diag_ne i hi)]
  have : ∑ k ∈ range i.val, L.el k i * (solveUpperT L b).nth k = 0 := by
    apply Finset.sum_eq_zero
    intro k hk
    simp only [mem_range] at hk
    rw [hL.upper_zero k i hk]; ring
  rw [this, zero_add]

theorem toV_col {n p : Nat} (B : Mat ℝ n p) (j : Fin p) : toV (B.col j) = fun i => toM B i j := by
  ext i; simp [col_nth, i.isLt]

theorem solveLowerM_mul {n p : Nat} {L : Mat ℝ n n} (hL : LowerNonsing L) (B : Mat ℝ n p) :
    toM L * toM (solveLowerM L B) = toM B := by
  ext i j
  have := congrFun (solveLower_mulVec hL (B.col j)) i
  rw [toV_col] at this
  simp only at this
  rw [← this]
  simp only [Matrix.mul_apply, Matrix.mulVec, dotProduct, toM_apply, toV_apply]
  apply Finset.sum_congr rfl
  intro k _
  rw [solveLowerM_el L B k j k.isLt j.isLt]

theorem solveUpperTM_mul {n p : Nat} {L : Mat ℝ n n} (hL : LowerNonsing L) (B : Mat ℝ n p) :
    (toM L)ᵀ * toM (solveUpperTM L B) = toM B := by
  ext i j
  have := congrFun (solveUpperT_mulVec hL (B.col j)) i
  rw [toV_col] at this
  simp only at this
  rw [← this]
  simp only [Matrix.mul_apply, Matrix.mulVec, dotProduct, toM_apply, toV_apply, Matrix.transpose_apply]
  apply Finset.sum_congr rfl
  intro k _
  rw [solveUpperTM_el L B k j k.isLt j.isLt]

/-! ### Cholesky as a matrix equation -/

theorem IsCholOf.mul_transpose {n : Nat} {L A : Mat ℝ n n} (h : IsCholOf L A) (hA : (toM A).IsSymm) :
    toM L * (toM L)ᵀ = toM A := by
  have key : ∀ (i j : Fin n), j.val ≤ i.val → (toM L * (toM L)ᵀ) i j = toM A i j := by
    intro i j hji
    simp only [Matrix.mul_apply, Matrix.transpose_apply, toM_apply]
    rw [sum_fin_eq_range (fun k => L.el i k * L.el j k)]
    have hsplit : range n = range (j + 1) ∪ Ico (j + 1) n := by
      ext k; simp only [mem_range, mem_union, mem_Ico]; have := j.isLt; omega
    have hdisj : Disjoint (range (j.val + 1)) (Ico (j.val + 1) n) := by
      rw [Finset.disjoint_left]; intro k hk hk2
      simp only [mem_range] at hk; simp only [mem_Ico] at hk2; omega
    rw [hsplit, Finset.sum_union hdisj, h.prod_lower i j hji i.isLt]
    have : ∑ k ∈ Ico (j.val + 1) n, L.el i k * L.el j k = 0 := by
      apply Finset.sum_eq_zero
      intro k hk
      simp only [mem_Ico] at hk
      rw [h.upper_zero j k (by omega)]; ring
    rw [this, add_zero]
  ext i j
  by_cases hji : j.val ≤ i.val
  · exact key i j hji
  · have hij : i.val ≤ j.val := by omega
    have h1 := key j i hij
    have hsym : (toM L * (toM L)ᵀ) i j = (toM L * (toM L)ᵀ) j i := by
      simp only [Matrix.mul_apply, Matrix.transpose_apply]
      apply Finset.sum_congr rfl; intro k _; ring
    rw [hsym, h1]
    exact (congrFun (congrFun hA j) i).symm ▸ rfl

/-- `cho_solve`: `A · choSolveM L B = B` when `L` is the Cholesky factor of the symmetric `A`. -/
theorem choSolveM_mul {n p : Nat} {L A : Mat ℝ n n} (h : IsCholOf L A) (hA : (toM A).IsSymm)
    (B : Mat ℝ n p) : toM A * toM (choSolveM L B) = toM B := by
  unfold choSolveM
  rw [← h.mul_transpose hA, Matrix.mul_assoc, solveUpperTM_mul h.lowerNonsing,
    solveLowerM_mul h.lowerNonsing]

end Mellon
