/-
  MellonProofs.KernelGradTreeLemmas — the gradient recursion with the denominator guard as a
  parameter, and its analysis by structural induction over kernel expressions (helpers of C11).

  `Cov.kGradE e` is `Cov.kGrad` with `distance_grad`'s `dist + 1e-12` replaced by `dist + e`:
    * `kGrad_eq_kGradE : kGrad = kGradE 1e-12`                      (what the code computes)
    * `kGradE_zero_line` : `kGradE 0` is the true directional derivative of `k` in every direction,
      for every expression tree and every active-dims form (repeated indices included)
    * `leaf_gamma` : on a distance-based leaf `kGradE e = dist/(dist+e) · kGradE 0`.
-/
import MellonProofs.KernelGradLemmas
import Mathlib.Analysis.Calculus.Deriv.Shift

namespace Mellon

/-- The gradient part of `util.distance_grad` with the guard `e` explicit: `(y − x)/(dist + e)`. -/
noncomputable def distanceGradE (e : ℝ) (x y : List ℝ) : List ℝ :=
  List.zipWith (fun yi xi => (yi - xi) / (distance x y + e)) y x

theorem distanceGrad_eq (x y : List ℝ) :
    distanceGrad x y = (distance x y, distanceGradE distEps x y) := rfl

/-- `Cov.kGrad` with the guard of `distance_grad` as a parameter. -/
noncomputable def Cov.kGradE (e : ℝ) : Cov ℝ → List ℝ → List ℝ → List ℝ
  | .matern32 ls ad, x, y =>
    let dist := distance (select ad x) (select ad y)
    let g := distanceGradE e (select ad x) (select ad y)
    let factor := sqrt 3.0 / ls
    let r := -factor * dist
    expand ad y.length (g.map fun gi => r * (factor * gi) * exp r)
  | .matern52 ls ad, x, y =>
    let dist := distance (select ad x) (select ad y)
    let g := distanceGradE e (select ad x) (select ad y)
    let factor := sqrt 5.0 / ls
    let r := factor * dist
    expand ad y.length (g.map fun gi => -1.0 / 3.0 * exp (-r) * r * (r + 1) * (factor * gi))
  | .expquad ls ad, x, y =>
    let dist := distance (select ad x) (select ad y)
    let g := distanceGradE e (select ad x) (select ad y)
    let r := dist / ls
    expand ad y.length (g.map fun gi => -r * (gi / ls) * exp (-(r * r) / 2.0))
  | .exponential ls ad, x, y =>
    let dist := distance (select ad x) (select ad y)
    let g := distanceGradE e (select ad x) (select ad y)
    let r := dist / ls
    expand ad y.length (g.map fun gi => -1.0 / 2.0 * (gi / ls) * exp (-r / 2.0))
  | .ratquad a ls ad, x, y =>
    let dist := distance (select ad x) (select ad y)
    let g := distanceGradE e (select ad x) (select ad y)
    let r := dist / ls
    expand ad y.length (g.map fun gi => -r * (gi / ls) * rpow (r * r / (2.0 * a) + 1) (-a - 1))
  | .linear ls ad, x, y =>
    expand ad y.length ((select ad x).map fun xi => xi / ls)
  | .add l r ad, x, y =>
    let xs := select ad x; let ys := select ad y
    expand ad y.length (List.zipWith (· + ·) (l.kGradE e xs ys) (r.kGradE e xs ys))
  | .addC l _ ad, x, y =>
    expand ad y.length (l.kGradE e (select ad x) (select ad y))
  | .mul l r ad, x, y =>
    let xs := select ad x; let ys := select ad y
    let lk := l.k xs ys; let rk := r.k xs ys
    expand ad y.length (List.zipWith (fun lg rg => lg * rk + lk * rg) (l.kGradE e xs ys) (r.kGradE e xs ys))
  | .mulC l c ad, x, y =>
    expand ad y.length ((l.kGradE e (select ad x) (select ad y)).map fun lg => lg * c)
  | .pow l p ad, x, y =>
    let xs := select ad x; let ys := select ad y
    let bk := l.k xs ys
    expand ad y.length ((l.kGradE e xs ys).map fun bg =>
      if (¬ (0 < bk) ∧ ¬ (bk < 0)) ∧ p < 1 then 0 else p * rpow bk (p - 1) * bg)

/-- The model of `cov.k_grad` is the recursion with guard `1e-12`. -/
theorem kGrad_eq_kGradE (c : Cov ℝ) (x y : List ℝ) : c.kGrad x y = c.kGradE distEps x y := by
  induction c generalizing x y with
  | matern32 ls ad => simp only [Cov.kGrad, Cov.kGradE, distanceGrad_eq]
  | matern52 ls ad => simp only [Cov.kGrad, Cov.kGradE, distanceGrad_eq]
  | expquad ls ad => simp only [Cov.kGrad, Cov.kGradE, distanceGrad_eq]
  | exponential ls ad => simp only [Cov.kGrad, Cov.kGradE, distanceGrad_eq]
  | ratquad a ls ad => simp only [Cov.kGrad, Cov.kGradE, distanceGrad_eq]
  | linear ls ad => simp only [Cov.kGrad, Cov.kGradE]
  | add l r ad ihl ihr => simp only [Cov.kGrad, Cov.kGradE, ihl, ihr]
  | addC l c ad ih => simp only [Cov.kGrad, Cov.kGradE, ih]
  | mul l r ad ihl ihr => simp only [Cov.kGrad, Cov.kGradE, ihl, ihr]
  | mulC l c ad ih => simp only [Cov.kGrad, Cov.kGradE, ih]
  | pow l p ad ih => simp only [Cov.kGrad, Cov.kGradE, ih]

/-! ### the guard of `Pow.k_grad` -/

/-- The model's `¬ 0 < b ∧ ¬ b < 0` is `b = 0` (over ℝ; in float64 it differs only for NaN). -/
theorem powGuard_iff (b p : ℝ) : ((¬ (0 < b) ∧ ¬ (b < 0)) ∧ p < 1) ↔ (b = 0 ∧ p < 1) := by
  constructor
  · rintro ⟨⟨h1, h2⟩, h3⟩; exact ⟨le_antisymm (not_lt.mp h1) (not_lt.mp h2), h3⟩
  · rintro ⟨rfl, h3⟩; exact ⟨⟨lt_irrefl 0, lt_irrefl 0⟩, h3⟩

/-- The guard is inactive for every non-zero base value and for every exponent `≥ 1`. -/
theorem powGuard_inactive {b p : ℝ} (h : b ≠ 0 ∨ 1 ≤ p) : ¬ ((¬ (0 < b) ∧ ¬ (b < 0)) ∧ p < 1) := by
  rw [powGuard_iff]
  rintro ⟨h0, hp⟩
  rcases h with h | h
  · exact h h0
  · exact absurd hp (not_lt.mpr h)

/-- Where the float power `base ** p` is the real power and `u ↦ u^p` is differentiable at the base value:
    a positive base (any exponent), or a natural-number exponent `m ≥ 1` (any base: negative, zero, positive).
    (A negative base under a non-integer exponent is `nan` in float64; a zero base under `p < 1` is not
    differentiable.) -/
def PowOK (b p : ℝ) : Prop := 0 < b ∨ ∃ m : ℕ, 1 ≤ m ∧ p = (m : ℝ)

theorem PowOK.ne_or_one_le {b p : ℝ} (h : PowOK b p) : b ≠ 0 ∨ 1 ≤ p := by
  rcases h with h | ⟨m, hm, rfl⟩
  · exact Or.inl (ne_of_gt h)
  · exact Or.inr (by exact_mod_cast hm)

/-! ### regularity: what the chain rule needs -/

/-- `RatQuad` has `α > 0`, and every power node either has a positive base value at the point or a
    natural-number exponent `m ≥ 1` (`PowOK`: `u ↦ u^p` is not differentiable at `0` for `p < 1`, and
    `base ** p` is `nan` for a negative base under a non-integer `p`). -/
def Cov.Regular : Cov ℝ → List ℝ → List ℝ → Prop
  | .matern32 _ _, _, _ => True
  | .matern52 _ _, _, _ => True
  | .expquad _ _, _, _ => True
  | .exponential _ _, _, _ => True
  | .ratquad a _ _, _, _ => 0 < a
  | .linear _ _, _, _ => True
  | .add l r ad, x, y => l.Regular (select ad x) (select ad y) ∧ r.Regular (select ad x) (select ad y)
  | .addC l _ ad, x, y => l.Regular (select ad x) (select ad y)
  | .mul l r ad, x, y => l.Regular (select ad x) (select ad y) ∧ r.Regular (select ad x) (select ad y)
  | .mulC l _ ad, x, y => l.Regular (select ad x) (select ad y)
  | .pow l p ad, x, y => l.Regular (select ad x) (select ad y) ∧ PowOK (l.k (select ad x) (select ad y)) p

/-- A syntactic sufficient condition: expressions whose value is positive everywhere (the five
    stationary kernels with positive parameters, closed under `+`, `*`, `+c`, `*c` with `c > 0`, powers). -/
def Cov.Positive : Cov ℝ → Prop
  | .matern32 ls _ => 0 < ls
  | .matern52 ls _ => 0 < ls
  | .expquad ls _ => 0 < ls
  | .exponential ls _ => 0 < ls
  | .ratquad a ls _ => 0 < a ∧ 0 < ls
  | .linear _ _ => False
  | .add l r _ => l.Positive ∧ r.Positive
  | .addC l c _ => l.Positive ∧ 0 < c
  | .mul l r _ => l.Positive ∧ r.Positive
  | .mulC l c _ => l.Positive ∧ 0 < c
  | .pow l _ _ => l.Positive

theorem Cov.Positive.k_pos {c : Cov ℝ} (h : c.Positive) (x y : List ℝ) : 0 < c.k x y := by
  induction c generalizing x y with
  | matern32 ls ad => exact (matern32Profile_range h (distance_nonneg _ _)).1
  | matern52 ls ad => exact (matern52Profile_range h (distance_nonneg _ _)).1
  | expquad ls ad => exact (expquadProfile_range h (distance_nonneg _ _)).1
  | exponential ls ad => exact (exponentialProfile_range h (distance_nonneg _ _)).1
  | ratquad a ls ad => exact (ratquadProfile_range h.1 h.2 (distance_nonneg _ _)).1
  | linear ls ad => exact absurd h (by simp [Cov.Positive])
  | add l r ad ihl ihr => simp only [Cov.k]; exact add_pos (ihl h.1 _ _) (ihr h.2 _ _)
  | addC l c ad ih => simp only [Cov.k]; exact add_pos (ih h.1 _ _) h.2
  | mul l r ad ihl ihr => simp only [Cov.k]; exact mul_pos (ihl h.1 _ _) (ihr h.2 _ _)
  | mulC l c ad ih => simp only [Cov.k]; exact mul_pos (ih h.1 _ _) h.2
  | pow l p ad ih => simp only [Cov.k, rpow_real]; exact Real.rpow_pos_of_pos (ih h _ _) _

theorem Cov.Positive.regular {c : Cov ℝ} (h : c.Positive) (x y : List ℝ) : c.Regular x y := by
  induction c generalizing x y with
  | matern32 ls ad => trivial
  | matern52 ls ad => trivial
  | expquad ls ad => trivial
  | exponential ls ad => trivial
  | ratquad a ls ad => exact h.1
  | linear ls ad => trivial
  | add l r ad ihl ihr => exact ⟨ihl h.1 _ _, ihr h.2 _ _⟩
  | addC l c ad ih => exact ih h.1 _ _
  | mul l r ad ihl ihr => exact ⟨ihl h.1 _ _, ihr h.2 _ _⟩
  | mulC l c ad ih => exact ih h.1 _ _
  | pow l p ad ih => exact ⟨ih h _ _, Or.inl (Cov.Positive.k_pos (c := l) h _ _)⟩

/-- A wider syntactic sufficient condition that admits `Linear` (values of any sign): every `RatQuad` has
    `α > 0`, and every power node has either an everywhere-positive base (`Positive`) or a natural-number
    exponent `m ≥ 1` over ANY base of the class — e.g. `Linear ** 2`, `(Linear + c) ** 3`,
    `(Linear * Matern52) ** 2`, nested under sums and products. -/
def Cov.Smooth : Cov ℝ → Prop
  | .matern32 _ _ => True
  | .matern52 _ _ => True
  | .expquad _ _ => True
  | .exponential _ _ => True
  | .ratquad a _ _ => 0 < a
  | .linear _ _ => True
  | .add l r _ => l.Smooth ∧ r.Smooth
  | .addC l _ _ => l.Smooth
  | .mul l r _ => l.Smooth ∧ r.Smooth
  | .mulC l _ _ => l.Smooth
  | .pow l p _ => l.Smooth ∧ (l.Positive ∨ ∃ m : ℕ, 1 ≤ m ∧ p = (m : ℝ))

theorem Cov.Smooth.regular {c : Cov ℝ} (h : c.Smooth) (x y : List ℝ) : c.Regular x y := by
  induction c generalizing x y with
  | matern32 ls ad => trivial
  | matern52 ls ad => trivial
  | expquad ls ad => trivial
  | exponential ls ad => trivial
  | ratquad a ls ad => exact h
  | linear ls ad => trivial
  | add l r ad ihl ihr => exact ⟨ihl h.1 _ _, ihr h.2 _ _⟩
  | addC l c ad ih => exact ih h _ _
  | mul l r ad ihl ihr => exact ⟨ihl h.1 _ _, ihr h.2 _ _⟩
  | mulC l c ad ih => exact ih h _ _
  | pow l p ad ih =>
    refine ⟨ih h.1 _ _, ?_⟩
    rcases h.2 with hp | hm
    · exact Or.inl (Cov.Positive.k_pos (c := l) hp _ _)
    · exact Or.inr hm

/-! ### well-formedness gives the operand widths -/

theorem wf_leaf_indices {ad : ActiveDims} {d : Nat} (h : (ad.indices d).isSome = true) :
    ∃ is, ad.indices d = some is := Option.isSome_iff_exists.mp h

theorem wf_pair {ad : ActiveDims} {d : Nat} {l r : Cov ℝ}
    (h : (match ad.indices d with
          | some is => l.WF is.length && r.WF is.length
          | Option.none => false) = true) :
    ∃ is, ad.indices d = some is ∧ l.WF is.length = true ∧ r.WF is.length = true := by
  cases hi : ad.indices d with
  | none => simp [hi] at h
  | some is =>
    simp only [hi, Bool.and_eq_true] at h
    exact ⟨is, rfl, h.1, h.2⟩

theorem wf_single {ad : ActiveDims} {d : Nat} {l : Cov ℝ}
    (h : (match ad.indices d with
          | some is => l.WF is.length
          | Option.none => false) = true) :
    ∃ is, ad.indices d = some is ∧ l.WF is.length = true := by
  cases hi : ad.indices d with
  | none => simp [hi] at h
  | some is =>
    simp only [hi] at h
    exact ⟨is, rfl, h⟩

theorem distanceGradE_length (e : ℝ) (x y : List ℝ) (h : x.length = y.length) :
    (distanceGradE e x y).length = y.length := by
  simp [distanceGradE, h]

/-- Shape: the gradient has the width of `y`. -/
theorem kGradE_length (e : ℝ) (c : Cov ℝ) (x y : List ℝ) (hxy : x.length = y.length)
    (hwf : c.WF y.length = true) : (c.kGradE e x y).length = y.length := by
  induction c generalizing x y with
  | matern32 ls ad =>
    obtain ⟨is, hi⟩ := wf_leaf_indices hwf
    simp only [Cov.kGradE]
    apply expand_length ad _ _ hi
    rw [List.length_map, distanceGradE_length e _ _ (select_length_eq ad x y hxy), select_length_of_indices ad y hi]
  | matern52 ls ad =>
    obtain ⟨is, hi⟩ := wf_leaf_indices hwf
    simp only [Cov.kGradE]
    apply expand_length ad _ _ hi
    rw [List.length_map, distanceGradE_length e _ _ (select_length_eq ad x y hxy), select_length_of_indices ad y hi]
  | expquad ls ad =>
    obtain ⟨is, hi⟩ := wf_leaf_indices hwf
    simp only [Cov.kGradE]
    apply expand_length ad _ _ hi
    rw [List.length_map, distanceGradE_length e _ _ (select_length_eq ad x y hxy), select_length_of_indices ad y hi]
  | exponential ls ad =>
    obtain ⟨is, hi⟩ := wf_leaf_indices hwf
    simp only [Cov.kGradE]
    apply expand_length ad _ _ hi
    rw [List.length_map, distanceGradE_length e _ _ (select_length_eq ad x y hxy), select_length_of_indices ad y hi]
  | ratquad a ls ad =>
    obtain ⟨is, hi⟩ := wf_leaf_indices hwf
    simp only [Cov.kGradE]
    apply expand_length ad _ _ hi
    rw [List.length_map, distanceGradE_length e _ _ (select_length_eq ad x y hxy), select_length_of_indices ad y hi]
  | linear ls ad =>
    obtain ⟨is, hi⟩ := wf_leaf_indices hwf
    simp only [Cov.kGradE]
    apply expand_length ad _ _ hi
    rw [List.length_map, select_length_eq ad x y hxy, select_length_of_indices ad y hi]
  | add l r ad ihl ihr =>
    obtain ⟨is, hi, hl, hr⟩ := wf_pair hwf
    have hw := select_length_of_indices ad y hi
    have hs := select_length_eq ad x y hxy
    simp only [Cov.kGradE]
    apply expand_length ad _ _ hi
    rw [List.length_zipWith, ihl _ _ hs (hw ▸ hl), ihr _ _ hs (hw ▸ hr), hw]; simp
  | addC l c ad ih =>
    obtain ⟨is, hi, hl⟩ := wf_single hwf
    have hw := select_length_of_indices ad y hi
    have hs := select_length_eq ad x y hxy
    simp only [Cov.kGradE]
    apply expand_length ad _ _ hi
    rw [ih _ _ hs (hw ▸ hl), hw]
  | mul l r ad ihl ihr =>
    obtain ⟨is, hi, hl, hr⟩ := wf_pair hwf
    have hw := select_length_of_indices ad y hi
    have hs := select_length_eq ad x y hxy
    simp only [Cov.kGradE]
    apply expand_length ad _ _ hi
    rw [List.length_zipWith, ihl _ _ hs (hw ▸ hl), ihr _ _ hs (hw ▸ hr), hw]; simp
  | mulC l c ad ih =>
    obtain ⟨is, hi, hl⟩ := wf_single hwf
    have hw := select_length_of_indices ad y hi
    have hs := select_length_eq ad x y hxy
    simp only [Cov.kGradE]
    apply expand_length ad _ _ hi
    rw [List.length_map, ih _ _ hs (hw ▸ hl), hw]
  | pow l p ad ih =>
    obtain ⟨is, hi, hl⟩ := wf_single hwf
    have hw := select_length_of_indices ad y hi
    have hs := select_length_eq ad x y hxy
    simp only [Cov.kGradE]
    apply expand_length ad _ _ hi
    rw [List.length_map, ih _ _ hs (hw ▸ hl), hw]

/-! ### the node wrapper and the leaves -/

theorem hasDerivAt_node (ad : ActiveDims) (F : List ℝ → List ℝ → ℝ) (G x y u : List ℝ)
    (hu : u.length = y.length)
    (h : HasDerivAt (fun t => F (select ad x) (lineAt (select ad y) (select ad u) t))
          (dot G (select ad u)) 0) :
    HasDerivAt (fun t => F (select ad x) (select ad (lineAt y u t))) (dot (expand ad y.length G) u) 0 := by
  rw [dot_expand_select ad y u G hu]
  simpa only [select_lineAt ad y u hu] using h

/-- A radial leaf: if `φ` has derivative `φ'` at the distance and the coded map is `gi ↦ φ'·gi`,
    then the coded gradient with exact division is the directional derivative. -/
theorem leaf_line (φ : ℝ → ℝ) (φ' : ℝ) (f : ℝ → ℝ) (xs ys us : List ℝ)
    (hxy : xs.length = ys.length) (hu : us.length = ys.length)
    (hφ : HasDerivAt φ φ' (distance xs ys)) (hf : ∀ gi, f gi = φ' * gi) :
    HasDerivAt (fun t => φ (distance xs (lineAt ys us t)))
      (dot ((distanceGradE 0 xs ys).map f) us) 0 := by
  have hδ := distance_line_hasDerivAt xs ys us hxy hu
  have h0 : distance xs (lineAt ys us 0) = distance xs ys := by rw [lineAt_zero ys us hu]
  have hφ0 : HasDerivAt φ φ' (distance xs (lineAt ys us 0)) := by rw [h0]; exact hφ
  have h := hφ0.comp 0 hδ
  refine h.congr_deriv ?_
  rw [dot_map_left f φ' hf, distanceGradE, dot_distanceGrad, add_zero]

/-- On a radial leaf the guard only rescales: `⟨G_e, u⟩ = dist/(dist+e) · ⟨G_0, u⟩`. -/
theorem leaf_gamma (f : ℝ → ℝ) (C : ℝ) (hf : ∀ gi, f gi = C * gi) (e : ℝ) (he : 0 ≤ e)
    (xs ys us : List ℝ) (hxy : xs.length = ys.length) :
    dot ((distanceGradE e xs ys).map f) us
      = distance xs ys / (distance xs ys + e) * dot ((distanceGradE 0 xs ys).map f) us := by
  have hp := distance_pos xs ys hxy
  rw [dot_map_left f C hf, dot_map_left f C hf, distanceGradE, distanceGradE, dot_distanceGrad,
    dot_distanceGrad, add_zero]
  have : distance xs ys + e ≠ 0 := by linarith
  field_simp

/-! ### the exact-division recursion is the derivative, for every expression tree -/

/-- **Main induction.**  For every kernel expression (any depth, any active-dims form at every
    node, repeated indices included), every pair of points of equal width and every direction `u`:
    `d/dt k(x, y + t·u)|_{t=0} = ⟨kGradE 0 c x y, u⟩`. -/
theorem kGradE_zero_line (c : Cov ℝ) (x y u : List ℝ) (hxy : x.length = y.length)
    (hu : u.length = y.length) (hwf : c.WF y.length = true) (hreg : c.Regular x y) :
    HasDerivAt (fun t => c.k x (lineAt y u t)) (dot (c.kGradE 0 x y) u) 0 := by
  induction c generalizing x y u with
  | matern32 ls ad =>
    simp only [Cov.k, Cov.kGradE]
    apply hasDerivAt_node ad (fun xs ys => matern32Profile ls (distance xs ys)) _ x y u hu
    apply leaf_line (fun s => matern32Profile ls s) _ _ _ _ _ (select_length_eq ad x y hxy)
      (select_length_eq ad u y hu) (matern32Profile_hasDerivAt ls _)
    intro gi; simp only [sqrt_real, exp_real, lit3]; ring
  | matern52 ls ad =>
    simp only [Cov.k, Cov.kGradE]
    apply hasDerivAt_node ad (fun xs ys => matern52Profile ls (distance xs ys)) _ x y u hu
    apply leaf_line (fun s => matern52Profile ls s) _ _ _ _ _ (select_length_eq ad x y hxy)
      (select_length_eq ad u y hu) (matern52Profile_hasDerivAt ls _)
    intro gi; simp only [sqrt_real, exp_real, lit5, lit3, lit1]; ring
  | expquad ls ad =>
    simp only [Cov.k, Cov.kGradE]
    apply hasDerivAt_node ad (fun xs ys => expquadProfile ls (distance xs ys)) _ x y u hu
    apply leaf_line (fun s => expquadProfile ls s) _ _ _ _ _ (select_length_eq ad x y hxy)
      (select_length_eq ad u y hu) (expquadProfile_hasDerivAt ls _)
    intro gi; simp only [exp_real, lit2]; ring
  | exponential ls ad =>
    simp only [Cov.k, Cov.kGradE]
    apply hasDerivAt_node ad (fun xs ys => exponentialProfile ls (distance xs ys)) _ x y u hu
    apply leaf_line (fun s => exponentialProfile ls s) _ _ _ _ _ (select_length_eq ad x y hxy)
      (select_length_eq ad u y hu) (exponentialProfile_hasDerivAt ls _)
    intro gi; simp only [exp_real, lit2, lit1]; ring
  | ratquad a ls ad =>
    simp only [Cov.k, Cov.kGradE]
    apply hasDerivAt_node ad (fun xs ys => ratquadProfile a ls (distance xs ys)) _ x y u hu
    apply leaf_line (fun s => ratquadProfile a ls s) _ _ _ _ _ (select_length_eq ad x y hxy)
      (select_length_eq ad u y hu) (ratquadProfile_hasDerivAt a ls _ hreg)
    intro gi; simp only [rpow_real, lit2]; ring
  | linear ls ad =>
    simp only [Cov.k, Cov.kGradE]
    apply hasDerivAt_node ad (fun xs ys => dot xs ys / ls) _ x y u hu
    -- `t ↦ ⟨xs, ys + t·us⟩/ls` is affine
    have hlin : ∀ (xs ys us : List ℝ), us.length = ys.length →
        HasDerivAt (fun t => dot xs (lineAt ys us t)) (dot xs us) 0 := by
      intro xs
      induction xs with
      | nil => intro ys us _; simpa using hasDerivAt_const (0:ℝ) (0:ℝ)
      | cons a as ih =>
        intro ys us hl
        cases ys with
        | nil =>
          have : us = [] := List.length_eq_zero_iff.mp (by simpa using hl)
          subst this; simpa [lineAt] using hasDerivAt_const (0:ℝ) (0:ℝ)
        | cons b bs =>
          cases us with
          | nil => simp at hl
          | cons c cs =>
            have hl' : cs.length = bs.length := by simpa using hl
            have h1 : HasDerivAt (fun t : ℝ => a * (b + t * c)) (a * c) 0 := by
              have := (((hasDerivAt_id (0:ℝ)).mul_const c).const_add b).const_mul a
              simpa using this
            exact h1.add (ih bs cs hl')
    have h := (hlin (select ad x) (select ad y) (select ad u) (select_length_eq ad u y hu)).div_const ls
    refine h.congr_deriv ?_
    rw [dot_map_left (fun xi => xi / ls) (1 / ls) (by intro gi; ring)]; ring
  | add l r ad ihl ihr =>
    obtain ⟨is, hi, hl, hr⟩ := wf_pair hwf
    have hw := select_length_of_indices ad y hi
    have hs := select_length_eq ad x y hxy
    have hus := select_length_eq ad u y hu
    simp only [Cov.k, Cov.kGradE]
    apply hasDerivAt_node ad (fun xs ys => l.k xs ys + r.k xs ys) _ x y u hu
    have h := (ihl _ _ _ hs hus (hw ▸ hl) hreg.1).add (ihr _ _ _ hs hus (hw ▸ hr) hreg.2)
    refine h.congr_deriv ?_
    rw [dot_zipWith_left (· + ·) 1 1 (by intro p q; ring) _ _ _
      (by rw [kGradE_length 0 l _ _ hs (hw ▸ hl), kGradE_length 0 r _ _ hs (hw ▸ hr)])]
    ring
  | addC l c ad ih =>
    obtain ⟨is, hi, hl⟩ := wf_single hwf
    have hw := select_length_of_indices ad y hi
    have hs := select_length_eq ad x y hxy
    have hus := select_length_eq ad u y hu
    simp only [Cov.k, Cov.kGradE]
    apply hasDerivAt_node ad (fun xs ys => l.k xs ys + c) _ x y u hu
    exact (ih _ _ _ hs hus (hw ▸ hl) hreg).add_const c
  | mul l r ad ihl ihr =>
    obtain ⟨is, hi, hl, hr⟩ := wf_pair hwf
    have hw := select_length_of_indices ad y hi
    have hs := select_length_eq ad x y hxy
    have hus := select_length_eq ad u y hu
    simp only [Cov.k, Cov.kGradE]
    apply hasDerivAt_node ad (fun xs ys => l.k xs ys * r.k xs ys) _ x y u hu
    have h := (ihl _ _ _ hs hus (hw ▸ hl) hreg.1).mul (ihr _ _ _ hs hus (hw ▸ hr) hreg.2)
    refine h.congr_deriv ?_
    rw [lineAt_zero _ _ hus,
      dot_zipWith_left _ (r.k (select ad x) (select ad y)) (l.k (select ad x) (select ad y))
        (by intro p q; ring) _ _ _
        (by rw [kGradE_length 0 l _ _ hs (hw ▸ hl), kGradE_length 0 r _ _ hs (hw ▸ hr)])]
    ring
  | mulC l c ad ih =>
    obtain ⟨is, hi, hl⟩ := wf_single hwf
    have hw := select_length_of_indices ad y hi
    have hs := select_length_eq ad x y hxy
    have hus := select_length_eq ad u y hu
    simp only [Cov.k, Cov.kGradE]
    apply hasDerivAt_node ad (fun xs ys => l.k xs ys * c) _ x y u hu
    have h := (ih _ _ _ hs hus (hw ▸ hl) hreg).mul_const c
    refine h.congr_deriv ?_
    rw [dot_map_left (fun lg => lg * c) c (by intro gi; ring)]; ring
  | pow l p ad ih =>
    obtain ⟨is, hi, hl⟩ := wf_single hwf
    have hw := select_length_of_indices ad y hi
    have hs := select_length_eq ad x y hxy
    have hus := select_length_eq ad u y hu
    have hok := hreg.2.ne_or_one_le
    simp only [Cov.k, Cov.kGradE, rpow_real, if_neg (powGuard_inactive hok)]
    apply hasDerivAt_node ad (fun xs ys => l.k xs ys ^ p) _ x y u hu
    -- `u ↦ u^p` has derivative `p·u^(p−1)` at every `u ≠ 0`, and at every `u` when `p ≥ 1`
    have hb : l.k (select ad x) (lineAt (select ad y) (select ad u) 0) ≠ 0 ∨ 1 ≤ p := by
      rw [lineAt_zero _ _ hus]; exact hok
    have h := (ih _ _ _ hs hus (hw ▸ hl) hreg.1).rpow_const (p := p) hb
    refine h.congr_deriv ?_
    rw [lineAt_zero _ _ hus,
      dot_map_left (fun bg => p * l.k (select ad x) (select ad y) ^ (p - 1) * bg)
        (p * l.k (select ad x) (select ad y) ^ (p - 1)) (by intro gi; ring)]
    ring

/-- Coordinate form: the `j`-th entry of the exact-division gradient is the partial derivative
    `∂k(x, y)/∂y_j`. -/
theorem kGradE_zero_partial (c : Cov ℝ) (x y : List ℝ) (j : Nat) (hxy : x.length = y.length)
    (hwf : c.WF y.length = true) (hreg : c.Regular x y) :
    HasDerivAt (fun t => c.k x (y.set j t)) ((c.kGradE 0 x y).getD j 0) (y.getD j 0) := by
  have h := kGradE_zero_line c x y (basis y.length j) hxy (basis_length _ _) hwf hreg
  rw [dot_basis _ _ _ (kGradE_length 0 c x y hxy hwf)] at h
  have h0 : HasDerivAt (fun t => c.k x (lineAt y (basis y.length j) t)) ((c.kGradE 0 x y).getD j 0)
      (y.getD j 0 - y.getD j 0) := by rw [sub_self]; exact h
  have hc := HasDerivAt.comp_sub_const (y.getD j 0) (y.getD j 0) h0
  have hfun : (fun t => c.k x (lineAt y (basis y.length j) (t - y.getD j 0)))
      = fun t => c.k x (y.set j t) := by
    funext t
    rw [lineAt_basis]
    congr 2; ring
  rw [hfun] at hc
  exact hc

end Mellon
