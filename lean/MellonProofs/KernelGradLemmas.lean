/-
  MellonProofs.KernelGradLemmas — helper lemmas for C11 (analytic kernel gradients).

  * `lineAt y u t = y + t·u` on lists, `basis d j` (coordinate direction);
  * `dot` is bilinear, `scatterAdd` is the transpose of the gather `is.map (u.getD · 0)`;
  * derivative of `sqdist`/`distance` along a line;
  * derivatives of the five radial profiles;
  * `Cov.kGradE e`: the gradient recursion of `Cov.kGrad` with the denominator guard of
    `distance_grad` as a parameter (`kGrad = kGradE 1e-12`, `kGradE 0` = exact division).
-/
import MellonProofs.KernelLemmas
import Mathlib.Analysis.SpecialFunctions.Pow.Deriv
import Mathlib.Analysis.SpecialFunctions.Sqrt
import Mathlib.Analysis.SpecialFunctions.ExpDeriv

namespace Mellon

/-! ### lines and coordinate directions in list space -/

/-- `y + t·u`, coordinatewise. -/
def lineAt (y u : List ℝ) (t : ℝ) : List ℝ := List.zipWith (fun a b => a + t * b) y u

/-- The `j`-th coordinate direction of width `d`. -/
def basis (d j : Nat) : List ℝ := (List.range d).map fun i => if i = j then 1 else 0

@[simp] theorem lineAt_length (y u : List ℝ) (t : ℝ) : (lineAt y u t).length = min y.length u.length := by
  simp [lineAt]

@[simp] theorem basis_length (d j : Nat) : (basis d j).length = d := by simp [basis]

theorem lineAt_zero (y u : List ℝ) (h : u.length = y.length) : lineAt y u 0 = y := by
  induction y generalizing u with
  | nil => simp [lineAt]
  | cons a as ih =>
    cases u with
    | nil => simp at h
    | cons b bs =>
      have h' : bs.length = as.length := by simpa using h
      show (a + 0 * b) :: lineAt as bs 0 = a :: as
      rw [ih bs h']; simp

theorem getD_lineAt (y u : List ℝ) (h : u.length = y.length) (t : ℝ) (i : Nat) :
    (lineAt y u t).getD i 0 = y.getD i 0 + t * u.getD i 0 := by
  induction y generalizing u i with
  | nil =>
    have : u = [] := List.length_eq_zero_iff.mp (by simpa using h)
    subst this; simp [lineAt]
  | cons a as ih =>
    cases u with
    | nil => simp at h
    | cons b bs =>
      have h' : bs.length = as.length := by simpa using h
      cases i with
      | zero => simp [lineAt]
      | succ i =>
        have := ih bs h' i
        simp only [lineAt] at this
        simpa [lineAt] using this

theorem map_getD_lineAt (is : List Nat) (y u : List ℝ) (h : u.length = y.length) (t : ℝ) :
    is.map (fun i => (lineAt y u t).getD i 0)
      = lineAt (is.map fun i => y.getD i 0) (is.map fun i => u.getD i 0) t := by
  induction is with
  | nil => simp [lineAt]
  | cons i is ih =>
    rw [List.map_cons, List.map_cons, List.map_cons, ih, getD_lineAt y u h]
    rfl

/-! ### `dot` is bilinear -/

@[simp] theorem dot_nil_left (y : List ℝ) : dot [] y = 0 := by simp [dot]
@[simp] theorem dot_nil_right (x : List ℝ) : dot x [] = 0 := by cases x <;> simp [dot]
@[simp] theorem dot_cons (a b : ℝ) (as bs : List ℝ) : dot (a :: as) (b :: bs) = a * b + dot as bs := rfl

theorem dot_map_mul_left (c : ℝ) (g u : List ℝ) : dot (g.map fun gi => c * gi) u = c * dot g u := by
  induction g generalizing u with
  | nil => simp
  | cons a as ih =>
    cases u with
    | nil => simp
    | cons b bs => simp only [List.map_cons, dot_cons, ih]; ring

theorem dot_map_left (f : ℝ → ℝ) (c : ℝ) (hf : ∀ gi, f gi = c * gi) (g u : List ℝ) :
    dot (g.map f) u = c * dot g u := by
  have : g.map f = g.map fun gi => c * gi := List.map_congr_left (fun gi _ => hf gi)
  rw [this, dot_map_mul_left]

theorem dot_zipWith_left (f : ℝ → ℝ → ℝ) (a b : ℝ) (hf : ∀ p q, f p q = a * p + b * q)
    (g h u : List ℝ) (hl : g.length = h.length) :
    dot (List.zipWith f g h) u = a * dot g u + b * dot h u := by
  induction g generalizing h u with
  | nil =>
    have : h = [] := List.length_eq_zero_iff.mp (by simpa using hl.symm)
    subst this; simp
  | cons p ps ih =>
    cases h with
    | nil => simp at hl
    | cons q qs =>
      have hl' : ps.length = qs.length := by simpa using hl
      cases u with
      | nil => simp
      | cons c cs =>
        simp only [List.zipWith_cons_cons, dot_cons, ih qs cs hl', hf]; ring

theorem dot_replicate_zero (d : Nat) (u : List ℝ) : dot (List.replicate d (0:ℝ)) u = 0 := by
  induction d generalizing u with
  | zero => simp
  | succ d ih =>
    cases u with
    | nil => simp
    | cons b bs => simp [List.replicate_succ, ih]

theorem dot_set (acc u : List ℝ) (i : Nat) (v : ℝ) (h : u.length = acc.length) :
    dot (acc.set i v) u = dot acc u + (v - acc.getD i 0) * u.getD i 0 := by
  induction acc generalizing u i with
  | nil =>
    have : u = [] := List.length_eq_zero_iff.mp (by simpa using h)
    subst this; simp
  | cons a as ih =>
    cases u with
    | nil => simp at h
    | cons b bs =>
      have h' : bs.length = as.length := by simpa using h
      cases i with
      | zero => simp; ring
      | succ i => simp [ih bs i h']; ring

theorem dot_basis (g : List ℝ) (d j : Nat) (h : g.length = d) : dot g (basis d j) = g.getD j 0 := by
  subst h
  unfold basis
  induction g generalizing j with
  | nil => simp
  | cons a as ih =>
    show dot (a :: as) (List.map (fun i => if i = j then (1:ℝ) else 0) (List.range (as.length + 1))) = _
    rw [List.range_succ_eq_map]
    cases j with
    | zero =>
      simp only [List.length_cons, List.map_cons, List.map_map, dot_cons, if_true, mul_one,
        List.getD_cons_zero]
      have : dot as (List.map ((fun i => if i = 0 then (1:ℝ) else 0) ∘ Nat.succ) (List.range as.length)) = 0 := by
        have e : (List.map ((fun i => if i = 0 then (1:ℝ) else 0) ∘ Nat.succ) (List.range as.length))
            = List.replicate as.length 0 := by
          apply List.ext_getElem <;> simp
        rw [e, dot_comm, dot_replicate_zero]
      rw [this]; ring
    | succ j =>
      simp only [List.length_cons, List.map_cons, List.map_map, dot_cons, List.getD_cons_succ]
      have e : (List.map ((fun i => if i = j + 1 then (1:ℝ) else 0) ∘ Nat.succ) (List.range as.length))
          = List.map (fun i => if i = j then (1:ℝ) else 0) (List.range as.length) := by
        apply List.map_congr_left; intro i _; simp
      rw [e, ih j]; simp

/-! ### `scatterAdd` is the transpose of the gather -/

theorem foldl_set_length (ps : List (Nat × ℝ)) (acc : List ℝ) :
    (ps.foldl (fun acc (p : Nat × ℝ) => acc.set p.1 (acc.getD p.1 0 + p.2)) acc).length = acc.length := by
  induction ps generalizing acc with
  | nil => rfl
  | cons p ps ih => rw [List.foldl_cons, ih, List.length_set]

theorem scatterAdd_length (d : Nat) (is : List Nat) (vals : List ℝ) : (scatterAdd d is vals).length = d := by
  unfold scatterAdd; rw [foldl_set_length, List.length_replicate]

theorem dot_foldl_set (ps : List (Nat × ℝ)) (acc u : List ℝ) (h : u.length = acc.length) :
    dot (ps.foldl (fun acc (p : Nat × ℝ) => acc.set p.1 (acc.getD p.1 0 + p.2)) acc) u
      = dot acc u + dot (ps.map Prod.snd) (ps.map fun p => u.getD p.1 0) := by
  induction ps generalizing acc with
  | nil => simp
  | cons p ps ih =>
    rw [List.foldl_cons, ih _ (by simpa using h), dot_set acc u p.1 _ h]
    simp only [List.map_cons, dot_cons]; ring

/-- `⟨scatterAdd d is v, u⟩ = ⟨v, gather is u⟩`: the scatter is the transpose of the column selection
    (repeated indices accumulate; an out-of-range index reads `0` and writes nothing). -/
theorem dot_scatterAdd (d : Nat) (is : List Nat) (vals u : List ℝ) (h : u.length = d) :
    dot (scatterAdd d is vals) u = dot vals (is.map fun i => u.getD i 0) := by
  unfold scatterAdd
  rw [dot_foldl_set _ _ _ (by simpa using h), dot_replicate_zero, zero_add]
  -- both sides truncate to `min is.length vals.length`
  induction is generalizing vals with
  | nil => simp
  | cons i is ih =>
    cases vals with
    | nil => simp
    | cons v vs => simp only [List.zip_cons_cons, List.map_cons, dot_cons, ih vs]

/-! ### selection is linear; the node wrapper -/

theorem select_none (x : List ℝ) : select .none x = x := rfl

theorem select_of_indices {ad : ActiveDims} (hn : ad ≠ .none) {x : List ℝ} {is : List Nat}
    (hi : ad.indices x.length = some is) : select ad x = is.map fun i => x.getD i 0 := by
  cases ad <;> simp_all [select]

theorem select_of_invalid {ad : ActiveDims} (hn : ad ≠ .none) {x : List ℝ}
    (hi : ad.indices x.length = Option.none) : select ad x = [] := by
  cases ad <;> simp_all [select]

theorem expand_none (d : Nat) (v : List ℝ) : expand .none d v = v := rfl

theorem expand_of_indices {ad : ActiveDims} (hn : ad ≠ .none) {d : Nat} {is : List Nat}
    (hi : ad.indices d = some is) (v : List ℝ) : expand ad d v = scatterAdd d is v := by
  cases ad <;> simp_all [expand]

theorem expand_of_invalid {ad : ActiveDims} (hn : ad ≠ .none) {d : Nat}
    (hi : ad.indices d = Option.none) (v : List ℝ) : expand ad d v = [] := by
  cases ad <;> simp_all [expand]

theorem indices_none (d : Nat) : ActiveDims.none.indices d = some (List.range d) := rfl

theorem select_length_eq (ad : ActiveDims) (x y : List ℝ) (h : x.length = y.length) :
    (select ad x).length = (select ad y).length := by
  by_cases hn : ad = .none
  · subst hn; simpa [select_none] using h
  · cases hi : ad.indices x.length with
    | none => rw [select_of_invalid hn hi, select_of_invalid hn (h ▸ hi)]
    | some is => rw [select_of_indices hn hi, select_of_indices hn (h ▸ hi)]; simp

/-- The width a node hands to its operands. -/
theorem select_length_of_indices (ad : ActiveDims) (y : List ℝ) {is : List Nat}
    (hi : ad.indices y.length = some is) : (select ad y).length = is.length := by
  by_cases hn : ad = .none
  · subst hn
    rw [indices_none] at hi
    have : is = List.range y.length := by simpa using hi.symm
    simp [select_none, this]
  · rw [select_of_indices hn hi]; simp

theorem select_lineAt (ad : ActiveDims) (y u : List ℝ) (h : u.length = y.length) (t : ℝ) :
    select ad (lineAt y u t) = lineAt (select ad y) (select ad u) t := by
  by_cases hn : ad = .none
  · subst hn; rfl
  · have hl : (lineAt y u t).length = y.length := by simp [h]
    cases hi : ad.indices y.length with
    | none =>
      rw [select_of_invalid hn (hl ▸ hi), select_of_invalid hn hi, select_of_invalid hn (h ▸ hi)]
      simp [lineAt]
    | some is =>
      rw [select_of_indices hn (hl ▸ hi), select_of_indices hn hi, select_of_indices hn (h ▸ hi)]
      exact map_getD_lineAt is y u h t

/-- Transport of a directional derivative through a node's column selection: if the operand
    function `F` has directional derivative `⟨G, ·⟩` at the selected point, the node
    `y ↦ F (select ad y)` has directional derivative `⟨expand ad d G, ·⟩`. -/
theorem dot_expand_select (ad : ActiveDims) (y u G : List ℝ) (h : u.length = y.length) :
    dot (expand ad y.length G) u = dot G (select ad u) := by
  by_cases hn : ad = .none
  · subst hn; rfl
  · cases hi : ad.indices y.length with
    | none => rw [expand_of_invalid hn hi, select_of_invalid hn (h ▸ hi)]; simp
    | some is =>
      rw [expand_of_indices hn hi, select_of_indices hn (h ▸ hi), dot_scatterAdd _ _ _ _ h]

theorem expand_length (ad : ActiveDims) (d : Nat) (G : List ℝ) {is : List Nat}
    (hi : ad.indices d = some is) (hG : G.length = is.length) : (expand ad d G).length = d := by
  by_cases hn : ad = .none
  · subst hn
    rw [indices_none] at hi
    have : is = List.range d := by simpa using hi.symm
    simp [expand_none, hG, this]
  · rw [expand_of_indices hn hi, scatterAdd_length]

/-! ### coordinate directions -/

theorem basis_succ_zero (d : Nat) : basis (d + 1) 0 = 1 :: List.replicate d 0 := by
  unfold basis
  rw [List.range_succ_eq_map]
  simp only [List.map_cons, List.map_map, if_true]
  congr 1
  apply List.ext_getElem <;> simp

theorem basis_succ_succ (d j : Nat) : basis (d + 1) (j + 1) = 0 :: basis d j := by
  unfold basis
  rw [List.range_succ_eq_map]
  simp only [List.map_cons, List.map_map]
  congr 1
  simp

theorem lineAt_replicate_zero (y : List ℝ) (t : ℝ) : lineAt y (List.replicate y.length 0) t = y := by
  induction y with
  | nil => simp [lineAt]
  | cons a as ih =>
    show (a + t * 0) :: lineAt as (List.replicate as.length 0) t = a :: as
    rw [ih, mul_zero, add_zero]

/-- Moving along the `j`-th coordinate direction is `List.set`. -/
theorem lineAt_basis (y : List ℝ) (j : Nat) (s : ℝ) :
    lineAt y (basis y.length j) s = y.set j (y.getD j 0 + s) := by
  induction y generalizing j with
  | nil => simp [lineAt]
  | cons a as ih =>
    cases j with
    | zero =>
      show lineAt (a :: as) (basis (as.length + 1) 0) s = _
      rw [basis_succ_zero]
      show (a + s * 1) :: lineAt as (List.replicate as.length 0) s = _
      rw [lineAt_replicate_zero]; simp
    | succ j =>
      show lineAt (a :: as) (basis (as.length + 1) (j + 1)) s = _
      rw [basis_succ_succ]
      show (a + s * 0) :: lineAt as (basis as.length j) s = _
      rw [ih j]; simp

/-! ### derivative of the distance along a line -/

/-- `Σ_k (y_k − x_k)·u_k`. -/
def ddot : List ℝ → List ℝ → List ℝ → ℝ
  | a :: as, b :: bs, c :: cs => (b - a) * c + ddot as bs cs
  | _, _, _ => 0

theorem ddot_basis (x y : List ℝ) (h : x.length = y.length) (j : Nat) :
    ddot x y (basis y.length j) = y.getD j 0 - x.getD j 0 := by
  induction x generalizing y j with
  | nil =>
    have : y = [] := List.length_eq_zero_iff.mp (by simpa using h.symm)
    subst this; simp [ddot, basis]
  | cons a as ih =>
    cases y with
    | nil => simp at h
    | cons b bs =>
      have h' : as.length = bs.length := by simpa using h
      cases j with
      | zero =>
        show ddot (a :: as) (b :: bs) (basis (bs.length + 1) 0) = _
        rw [basis_succ_zero]
        have hz : ∀ (p q : List ℝ), ddot p q (List.replicate q.length 0) = 0 := by
          intro p q
          induction p generalizing q with
          | nil => simp [ddot]
          | cons a as ih =>
            cases q with
            | nil => simp [ddot]
            | cons b bs => simp [ddot, List.replicate_succ, ih bs]
        simp [ddot, hz]
      | succ j =>
        show ddot (a :: as) (b :: bs) (basis (bs.length + 1) (j + 1)) = _
        rw [basis_succ_succ]
        simp [ddot, ih bs h' j]

theorem dot_distanceGrad (D : ℝ) (x y u : List ℝ) :
    dot (List.zipWith (fun yi xi => (yi - xi) / D) y x) u = ddot x y u / D := by
  induction x generalizing y u with
  | nil => cases y <;> simp [ddot]
  | cons a as ih =>
    cases y with
    | nil => simp [ddot]
    | cons b bs =>
      cases u with
      | nil => simp [ddot]
      | cons c cs => simp only [List.zipWith_cons_cons, dot_cons, ddot, ih bs cs]; ring

theorem sqdist_line_hasDerivAt (x y u : List ℝ) :
    HasDerivAt (fun t => sqdist x (lineAt y u t)) (2 * ddot x y u) 0 := by
  induction x generalizing y u with
  | nil => simpa [sqdist, ddot] using hasDerivAt_const (0:ℝ) (0:ℝ)
  | cons a as ih =>
    cases y with
    | nil => simpa [sqdist, ddot, lineAt] using hasDerivAt_const (0:ℝ) (0:ℝ)
    | cons b bs =>
      cases u with
      | nil => simpa [sqdist, ddot, lineAt] using hasDerivAt_const (0:ℝ) (0:ℝ)
      | cons c cs =>
        have h1 : HasDerivAt (fun t : ℝ => a - (b + t * c)) (-c) 0 := by
          have := (((hasDerivAt_id (0:ℝ)).mul_const c).const_add b).const_sub a
          simpa using this
        have h2 := (h1.pow 2).add (ih bs cs)
        show HasDerivAt (fun t => (a - (b + t * c)) ^ 2 + sqdist as (lineAt bs cs t)) _ 0
        have e : ddot (a :: as) (b :: bs) (c :: cs) = (b - a) * c + ddot as bs cs := rfl
        refine h2.congr_deriv ?_
        rw [e]; simp; ring

/-- Directional derivative of `util.distance` in its second argument:
    `d/dt distance x (y + t·u) |_{t=0} = ⟨y − x, u⟩ / distance x y`. -/
theorem distance_line_hasDerivAt (x y u : List ℝ) (hxy : x.length = y.length) (hu : u.length = y.length) :
    HasDerivAt (fun t => distance x (lineAt y u t)) (ddot x y u / distance x y) 0 := by
  have hfun : (fun t => distance x (lineAt y u t))
      = fun t => Real.sqrt (sqdist x (lineAt y u t) + distEps) := by
    funext t; exact distance_eq x _ (by simp [hxy, hu])
  have hpos : sqdist x (lineAt y u 0) + distEps ≠ 0 := by
    have := sqdist_nonneg x (lineAt y u 0); have := distEps_pos; linarith
  have h := ((sqdist_line_hasDerivAt x y u).add_const distEps).sqrt hpos
  rw [hfun]
  convert h using 1
  rw [lineAt_zero y u hu, distance_eq x y hxy]
  ring

/-! ### derivatives of the radial profiles (in the distance) -/

private theorem hasDerivAt_scaled (c ls s : ℝ) : HasDerivAt (fun s : ℝ => c * s / ls) (c / ls) s := by
  have := ((hasDerivAt_id s).const_mul c).div_const ls
  simpa using this

private theorem hasDerivAt_over (ls s : ℝ) : HasDerivAt (fun s : ℝ => s / ls) (1 / ls) s := by
  have := (hasDerivAt_id s).div_const ls
  simpa using this

/-- coded form: `r·dr·exp r` with `r = −factor·s`, `dr = factor` -/
theorem matern32Profile_hasDerivAt (ls s : ℝ) :
    HasDerivAt (fun s => matern32Profile ls s)
      (-(Real.sqrt 3 / ls) * s * (Real.sqrt 3 / ls) * Real.exp (-(Real.sqrt 3 / ls) * s)) s := by
  have hr := hasDerivAt_scaled (Real.sqrt 3) ls s
  have h : HasDerivAt (fun s : ℝ => (Real.sqrt 3 * s / ls + 1) * Real.exp (-(Real.sqrt 3 * s / ls))) _ s :=
    (hr.add_const 1).mul hr.neg.exp
  simp only [matern32Profile, sqrt_real, exp_real, lit3]
  refine h.congr_deriv ?_
  have e : -(Real.sqrt 3 / ls) * s = -(Real.sqrt 3 * s / ls) := by ring
  rw [e]; simp only [Pi.neg_apply]; ring

theorem matern52Profile_hasDerivAt (ls s : ℝ) :
    HasDerivAt (fun s => matern52Profile ls s)
      (-1 / 3 * Real.exp (-(Real.sqrt 5 / ls * s)) * (Real.sqrt 5 / ls * s) * (Real.sqrt 5 / ls * s + 1)
        * (Real.sqrt 5 / ls)) s := by
  have hr := hasDerivAt_scaled (Real.sqrt 5) ls s
  have h : HasDerivAt (fun s : ℝ => (Real.sqrt 5 * s / ls + Real.sqrt 5 * s / ls * (Real.sqrt 5 * s / ls) / 3 + 1)
      * Real.exp (-(Real.sqrt 5 * s / ls))) _ s :=
    (((hr.add ((hr.mul hr).div_const 3)).add_const 1)).mul hr.neg.exp
  simp only [matern52Profile, sqrt_real, exp_real, lit5, lit3]
  refine h.congr_deriv ?_
  have e : Real.sqrt 5 / ls * s = Real.sqrt 5 * s / ls := by ring
  rw [e]; simp only [Pi.neg_apply, Pi.add_apply, Pi.mul_apply]; ring

theorem expquadProfile_hasDerivAt (ls s : ℝ) :
    HasDerivAt (fun s => expquadProfile ls s)
      (-(s / ls) * (1 / ls) * Real.exp (-(s / ls * (s / ls)) / 2)) s := by
  have hr := hasDerivAt_over ls s
  have h : HasDerivAt (fun s : ℝ => Real.exp (-(s / ls * (s / ls)) / 2)) _ s :=
    ((hr.mul hr).neg.div_const 2).exp
  simp only [expquadProfile, exp_real, lit2]
  refine h.congr_deriv ?_
  simp only [Pi.neg_apply, Pi.mul_apply]; ring

theorem exponentialProfile_hasDerivAt (ls s : ℝ) :
    HasDerivAt (fun s => exponentialProfile ls s)
      (-1 / 2 * (1 / ls) * Real.exp (-(s / ls) / 2)) s := by
  have hr := hasDerivAt_over ls s
  have h : HasDerivAt (fun s : ℝ => Real.exp (-(s / ls) / 2)) _ s := (hr.neg.div_const 2).exp
  simp only [exponentialProfile, exp_real, lit2]
  refine h.congr_deriv ?_
  simp only [Pi.neg_apply]; ring

theorem ratquad_base_pos {a : ℝ} (ha : 0 < a) (ls s : ℝ) : 0 < s / ls * (s / ls) / (2 * a) + 1 := by
  have : 0 ≤ s / ls * (s / ls) / (2 * a) := by
    apply div_nonneg (mul_self_nonneg _) (by linarith)
  linarith

theorem ratquadProfile_hasDerivAt (a ls s : ℝ) (ha : 0 < a) :
    HasDerivAt (fun s => ratquadProfile a ls s)
      (-(s / ls) * (1 / ls) * (s / ls * (s / ls) / (2 * a) + 1) ^ (-a - 1)) s := by
  have hr := hasDerivAt_over ls s
  have hb : HasDerivAt (fun s : ℝ => s / ls * (s / ls) / (2 * a) + 1) _ s :=
    ((hr.mul hr).div_const (2 * a)).add_const 1
  have h := hb.rpow_const (p := -a) (Or.inl (ne_of_gt (ratquad_base_pos ha ls s)))
  simp only [ratquadProfile, rpow_real, lit2]
  refine h.congr_deriv ?_
  have ha' : a ≠ 0 := ne_of_gt ha
  field_simp
  ring

end Mellon
