/-
  C11 — Analytic kernel gradients equal the true derivatives for every expression.
  Property theorems only (helpers: KernelGradLemmas, KernelGradTreeLemmas, KernelGradZeroLemmas).

  All statements are about the model `Mellon.Cov.kGrad` (`cov.k_grad(x)(y)` for one pair of rows) at
  α = ℝ, for every expression tree of any depth and every active-dims form at every node — index
  lists with repeated and negative indices, masks and slices included.

  How the statement is organised.  `Cov.kGradE e` is the recursion of `Cov.kGrad` with the denominator
  guard `dist + e` of `util.distance_grad` as a parameter:
    * `kgrad_is_guarded_recursion`:  `kGrad = kGradE 1e-12`            (what the code computes);
    * `kgrad_exact_directional / _partial`:  `kGradE 0` IS the derivative of `k(x, ·)`, for every tree
      (sum rule, product rule, chain rule through powers, column selection ↔ scatter-add transpose);
    * `kgrad_radial_eq`: on each of the five distance-based leaves the guard multiplies the
      derivative by exactly `γ = dist/(dist + 1e-12)`, `1/(1+1e-6) ≤ γ < 1` (`gamma_bounds`);
    * `kgrad_linear_eq`, `kgrad_guard_free`: `Linear` and every tree without a distance-based leaf
      carry no factor at all (γ = 1): `kGrad` is the exact derivative;
    * `kgrad_add_rule … kgrad_pow_rule`, `kgrad_pow_rule_nonzero`: a sum / product / power node combines its
      operands' gradients by the exact sum / product / chain rule (no further factor, γ = 1; for a power:
      whenever the base value is non-zero — NEGATIVE values included — or the exponent is ≥ 1), so the only
      deviation of `kGrad` from the true gradient is the per-leaf factor γ;
    * `kgrad_close_directional / _partial`: consequently, for EVERY tree, `kGrad` is within
      `1e-6 · devBound` of the true derivative, `devBound` = the sum of the absolute contributions of the
      distance-based leaves — the exact content of "agrees with autodiff / finite differences";
    * powers (`Pow.k_grad`, guard `where((base_k == 0) & (p < 1), 0.0, p·base^(p−1)·base_grad)`):
      `kgrad_pow_base_zero_lt1` — a base value that is exactly `0` (float64: underflowed) under `p < 1` gives
      gradient exactly `0`; `kgrad_pow_guard_inactive(_of_ne)` — for every other base value the chain-rule
      formula is returned unchanged; `kgrad_pow_nat_directional / _partial`, `kgrad_pow_linear_eq` — for a
      natural-number exponent `m ≥ 1` that formula IS the derivative of `y ↦ k_base(x, y)^m` for a base value
      of ANY sign (negative, zero, positive); `Regular` (the hypothesis of the tree-level theorems) asks of
      a power node: base value > 0, or exponent a natural number ≥ 1 (`regular_of_smooth`: syntactic form
      that admits `Linear` under natural powers);
    * `kgrad_inactive_zero`, `kgrad_finite_coincident`, `kgrad_length`.
-/
import MellonProofs.KernelGradCloseLemmas

namespace Mellon.C11
open Mellon

/-! ### radial profiles: the five 1-D derivatives (in the distance `s`) -/

theorem profile_deriv_matern32 (ls s : ℝ) :
    HasDerivAt (fun s => matern32Profile ls s)
      (-(3 * s / ls ^ 2) * Real.exp (-(Real.sqrt 3 * s / ls))) s := by
  refine (matern32Profile_hasDerivAt ls s).congr_deriv ?_
  have h3 : Real.sqrt 3 * Real.sqrt 3 = 3 := Real.mul_self_sqrt (by norm_num)
  have e : -(Real.sqrt 3 / ls) * s = -(Real.sqrt 3 * s / ls) := by ring
  rw [e]
  have : -(Real.sqrt 3 * s / ls) * (Real.sqrt 3 / ls) = -((Real.sqrt 3 * Real.sqrt 3) * s / ls ^ 2) := by
    ring
  rw [this, h3]

theorem profile_deriv_matern52 (ls s : ℝ) :
    HasDerivAt (fun s => matern52Profile ls s)
      (-(5 * s / (3 * ls ^ 2)) * (1 + Real.sqrt 5 * s / ls) * Real.exp (-(Real.sqrt 5 * s / ls))) s := by
  refine (matern52Profile_hasDerivAt ls s).congr_deriv ?_
  have h5 : Real.sqrt 5 * Real.sqrt 5 = 5 := Real.mul_self_sqrt (by norm_num)
  have e : Real.sqrt 5 / ls * s = Real.sqrt 5 * s / ls := by ring
  rw [e]
  have : -1 / 3 * Real.exp (-(Real.sqrt 5 * s / ls)) * (Real.sqrt 5 * s / ls) * (Real.sqrt 5 * s / ls + 1)
        * (Real.sqrt 5 / ls)
      = -((Real.sqrt 5 * Real.sqrt 5) * s / (3 * ls ^ 2)) * (1 + Real.sqrt 5 * s / ls)
        * Real.exp (-(Real.sqrt 5 * s / ls)) := by ring
  rw [this, h5]

theorem profile_deriv_expquad (ls s : ℝ) :
    HasDerivAt (fun s => expquadProfile ls s)
      (-(s / ls ^ 2) * Real.exp (-(s ^ 2 / (2 * ls ^ 2)))) s := by
  refine (expquadProfile_hasDerivAt ls s).congr_deriv ?_
  have e : -(s / ls * (s / ls)) / 2 = -(s ^ 2 / (2 * ls ^ 2)) := by ring
  rw [e]; ring

theorem profile_deriv_exponential (ls s : ℝ) :
    HasDerivAt (fun s => exponentialProfile ls s)
      (-(1 / (2 * ls)) * Real.exp (-(s / (2 * ls)))) s := by
  refine (exponentialProfile_hasDerivAt ls s).congr_deriv ?_
  have e : -(s / ls) / 2 = -(s / (2 * ls)) := by ring
  rw [e]; ring

theorem profile_deriv_ratquad (a ls s : ℝ) (ha : 0 < a) :
    HasDerivAt (fun s => ratquadProfile a ls s)
      (-(s / ls ^ 2) * (1 + s ^ 2 / (2 * a * ls ^ 2)) ^ (-a - 1)) s := by
  refine (ratquadProfile_hasDerivAt a ls s ha).congr_deriv ?_
  have e : s / ls * (s / ls) / (2 * a) + 1 = 1 + s ^ 2 / (2 * a * ls ^ 2) := by ring
  rw [e]; ring

/-! ### the regularised distance -/

/-- The regulariser keeps the distance away from zero: `distance x y ≥ 1e-6 > 0`. -/
theorem dist_pos (x y : List ℝ) (h : x.length = y.length) : 0 < distance x y := distance_pos x y h

/-- `∂/∂y_j distance x y = (y_j − x_j)/distance x y`, everywhere (coincident points included). -/
theorem dist_deriv (x y : List ℝ) (h : x.length = y.length) (j : Nat) :
    HasDerivAt (fun t => distance x (y.set j t)) ((y.getD j 0 - x.getD j 0) / distance x y) (y.getD j 0) := by
  have hl := distance_line_hasDerivAt x y (basis y.length j) h (basis_length _ _)
  rw [ddot_basis x y h j] at hl
  have h0 : HasDerivAt (fun t => distance x (lineAt y (basis y.length j) t))
      ((y.getD j 0 - x.getD j 0) / distance x y) (y.getD j 0 - y.getD j 0) := by rw [sub_self]; exact hl
  have hc := HasDerivAt.comp_sub_const (y.getD j 0) (y.getD j 0) h0
  have hfun : (fun t => distance x (lineAt y (basis y.length j) (t - y.getD j 0)))
      = fun t => distance x (y.set j t) := by
    funext t; rw [lineAt_basis]; congr 2; ring
  rw [hfun] at hc
  exact hc

/-- Directional form: `d/dt distance x (y + t·u)|₀ = ⟨y − x, u⟩/distance x y`. -/
theorem dist_deriv_directional (x y u : List ℝ) (h : x.length = y.length) (hu : u.length = y.length) :
    HasDerivAt (fun t => distance x (lineAt y u t)) (ddot x y u / distance x y) 0 :=
  distance_line_hasDerivAt x y u h hu

/-- What `distance_grad` returns is that derivative times `dist/(dist + 1e-12)`. -/
theorem dist_grad_eq (x y : List ℝ) (h : x.length = y.length) (j : Nat) :
    (distanceGrad x y).2.getD j 0
      = distance x y / (distance x y + 1e-12) * ((y.getD j 0 - x.getD j 0) / distance x y) := by
  have hp := distance_pos x y h
  have he : (distEps : ℝ) = 1e-12 := rfl
  have hne : distance x y + 1e-12 ≠ 0 := by have := distEps_pos; rw [he] at this; linarith
  have key : ∀ (D : ℝ) (x y : List ℝ), x.length = y.length →
      (List.zipWith (fun yi xi => (yi - xi) / D) y x).getD j 0 = (y.getD j 0 - x.getD j 0) / D := by
    intro D x y hxy
    induction x generalizing y j with
    | nil =>
      have : y = [] := List.length_eq_zero_iff.mp (by simpa using hxy.symm)
      subst this; simp
    | cons a as ih =>
      cases y with
      | nil => simp at hxy
      | cons b bs =>
        cases j with
        | zero => simp
        | succ j => simpa using ih j bs (by simpa using hxy)
  show (List.zipWith (fun yi xi => (yi - xi) / (distance x y + distEps)) y x).getD j 0 = _
  rw [key _ x y h, he]
  field_simp

/-! ### the model is the guarded recursion; the unguarded recursion is the derivative -/

/-- `cov.k_grad` (model `Cov.kGrad`) is the gradient recursion with guard `1e-12`. -/
theorem kgrad_is_guarded_recursion (c : Cov ℝ) (x y : List ℝ) : c.kGrad x y = c.kGradE 1e-12 x y :=
  kGrad_eq_kGradE c x y

/-- **Every tree, every direction.**  With exact division the recursion (sum rule, product rule,
    chain rule through powers, scatter-add of the operands' gradients at every node) gives the
    directional derivative of `y ↦ k(x, y)`:  `d/dt k(x, y + t·u)|₀ = ⟨kGradE 0 c x y, u⟩`.
    Hypotheses: equal widths, indices in range (`WF`), `RatQuad` with `α > 0`, and at every power node
    a positive base value OR a natural-number exponent `m ≥ 1` over a base value of any sign (`Regular`;
    implied by `Positive` and by `Smooth`, see `regular_of_positive`, `regular_of_smooth`).  What is still
    excluded: a non-integer (or `< 1`) exponent over a base value `≤ 0` — there `base ** p` is `nan` in
    float64 (negative base) or not differentiable (zero base). -/
theorem kgrad_exact_directional (c : Cov ℝ) (x y u : List ℝ) (hxy : x.length = y.length)
    (hu : u.length = y.length) (hwf : c.WF y.length = true) (hreg : c.Regular x y) :
    HasDerivAt (fun t => c.k x (lineAt y u t)) (dot (c.kGradE 0 x y) u) 0 :=
  kGradE_zero_line c x y u hxy hu hwf hreg

/-- **Every tree, every coordinate.**  `(kGradE 0 c x y)[j] = ∂k(x, y)/∂y_j`. -/
theorem kgrad_exact_partial (c : Cov ℝ) (x y : List ℝ) (j : Nat) (hxy : x.length = y.length)
    (hwf : c.WF y.length = true) (hreg : c.Regular x y) :
    HasDerivAt (fun t => c.k x (y.set j t)) ((c.kGradE 0 x y).getD j 0) (y.getD j 0) :=
  kGradE_zero_partial c x y j hxy hwf hreg

theorem regular_of_positive (c : Cov ℝ) (h : c.Positive) (x y : List ℝ) : c.Regular x y :=
  Cov.Positive.regular h x y

/-- `Smooth`: any tree in which every `RatQuad` has `α > 0` and every power node has an everywhere-positive
    base or a natural-number exponent `m ≥ 1` (over any base, `Linear` included) is `Regular` at every
    pair of points — so `kgrad_exact_*`, `kgrad_close_*`, `kgrad_guard_free` apply to `Linear ** 2`,
    `(Linear + c) ** 3`, `(Linear * Matern52) ** 2 + …` at points with negative, zero and positive base
    values alike. -/
theorem regular_of_smooth (c : Cov ℝ) (h : c.Smooth) (x y : List ℝ) : c.Regular x y :=
  Cov.Smooth.regular h x y

/-! ### the factor γ on the distance-based leaves; no factor elsewhere -/

/-- **kgrad_eq, distance-based leaves** (any active-dims form, repeated indices included):
    `kGrad c x y [j] = γ · ∂k/∂y_j` with `γ = dist/(dist + 1e-12)`, `dist` the regularised distance of
    the leaf's own columns. -/
theorem kgrad_radial_eq (c : Cov ℝ) (hc : c.isRadial = true) (x y : List ℝ) (j : Nat)
    (hxy : x.length = y.length) (hwf : c.WF y.length = true) (hreg : c.Regular x y) :
    ∃ D : ℝ, HasDerivAt (fun t => c.k x (y.set j t)) D (y.getD j 0)
      ∧ (c.kGrad x y).getD j 0
          = distance (select c.ad x) (select c.ad y) / (distance (select c.ad x) (select c.ad y) + 1e-12) * D := by
  refine ⟨(c.kGradE 0 x y).getD j 0, kGradE_zero_partial c x y j hxy hwf hreg, ?_⟩
  have h := kGradE_radial_dot distEps (le_of_lt distEps_pos) c hc x y (basis y.length j) hxy (basis_length _ _)
  rw [dot_basis _ _ _ (kGradE_length _ c x y hxy hwf), dot_basis _ _ _ (kGradE_length _ c x y hxy hwf)] at h
  rw [kGrad_eq_kGradE, h]
  rfl

/-- Directional form of the same statement. -/
theorem kgrad_radial_directional (c : Cov ℝ) (hc : c.isRadial = true) (x y u : List ℝ)
    (hxy : x.length = y.length) (hu : u.length = y.length) :
    dot (c.kGrad x y) u = guardFactor 1e-12 c x y * dot (c.kGradE 0 x y) u := by
  rw [kGrad_eq_kGradE]
  exact kGradE_radial_dot distEps (le_of_lt distEps_pos) c hc x y u hxy hu

/-- `1/(1+1e-6) ≤ γ < 1`: the relative deviation from the true derivative is at most `1e-6`
    (attained at coincident points) and vanishes away from coincidence. -/
theorem gamma_bounds (x y : List ℝ) (h : x.length = y.length) :
    1 / (1 + 1e-6) ≤ distance x y / (distance x y + 1e-12)
      ∧ distance x y / (distance x y + 1e-12) < 1 := guard_bounds x y h

/-- `γ → 1` quantitatively: `1 − γ ≤ 1e-12 / dist`. -/
theorem gamma_far (x y : List ℝ) (h : x.length = y.length) :
    1 - distance x y / (distance x y + 1e-12) ≤ 1e-12 / distance x y := by
  have hp := distance_pos x y h
  have hq : (0:ℝ) < distance x y + 1e-12 := by positivity
  have e : 1 - distance x y / (distance x y + 1e-12) = 1e-12 / (distance x y + 1e-12) := by
    field_simp; ring
  rw [e]
  apply div_le_div_of_nonneg_left (by norm_num) hp (by linarith)

/-- **kgrad_eq, γ = 1 for `Linear`.** -/
theorem kgrad_linear_eq (ls : ℝ) (ad : ActiveDims) (x y : List ℝ) (j : Nat) (hxy : x.length = y.length)
    (hwf : (Cov.linear ls ad).WF y.length = true) :
    HasDerivAt (fun t => (Cov.linear ls ad).k x (y.set j t)) (((Cov.linear ls ad).kGrad x y).getD j 0)
      (y.getD j 0) := by
  have h := kGradE_zero_partial (.linear ls ad) x y j hxy hwf trivial
  rwa [kGrad_eq_kGradE, Cov.GuardFree.kGradE_eq (.linear ls ad) trivial distEps 0]

/-- **kgrad_eq, γ = 1 for every expression without a distance-based leaf.** -/
theorem kgrad_guard_free (c : Cov ℝ) (hc : c.GuardFree) (x y : List ℝ) (j : Nat) (hxy : x.length = y.length)
    (hwf : c.WF y.length = true) (hreg : c.Regular x y) :
    HasDerivAt (fun t => c.k x (y.set j t)) ((c.kGrad x y).getD j 0) (y.getD j 0) := by
  have h := kGradE_zero_partial c x y j hxy hwf hreg
  rwa [kGrad_eq_kGradE, Cov.GuardFree.kGradE_eq c hc distEps 0]

/-! ### nodes add no factor: sum rule, product rule, chain rule, with selection/scatter transport

`xs = select ad x`, `ys = select ad y`, `us = select ad u` are the node's own columns.  Together with
`kgrad_exact_directional` (same rules, exact leaves) these identities say that `kGrad` and the true
gradient obey the same recursion and differ only by the factors γ at the distance-based leaves. -/

theorem kgrad_add_rule (l r : Cov ℝ) (ad : ActiveDims) (x y u : List ℝ) (hxy : x.length = y.length)
    (hu : u.length = y.length) (hwf : (Cov.add l r ad).WF y.length = true) :
    dot ((Cov.add l r ad).kGrad x y) u
      = dot (l.kGrad (select ad x) (select ad y)) (select ad u)
        + dot (r.kGrad (select ad x) (select ad y)) (select ad u) := by
  obtain ⟨is, hi, hl, hr⟩ := wf_pair hwf
  have hw := select_length_of_indices ad y hi
  have hs := select_length_eq ad x y hxy
  simp only [Cov.kGrad]
  rw [dot_expand_select ad y u _ hu,
    dot_zipWith_left (· + ·) 1 1 (by intro p q; ring) _ _ _
      (by rw [kGrad_eq_kGradE, kGrad_eq_kGradE, kGradE_length _ l _ _ hs (hw ▸ hl),
            kGradE_length _ r _ _ hs (hw ▸ hr)])]
  ring

theorem kgrad_addC_rule (l : Cov ℝ) (c : ℝ) (ad : ActiveDims) (x y u : List ℝ) (hu : u.length = y.length) :
    dot ((Cov.addC l c ad).kGrad x y) u = dot (l.kGrad (select ad x) (select ad y)) (select ad u) := by
  simp only [Cov.kGrad]
  rw [dot_expand_select ad y u _ hu]

theorem kgrad_mul_rule (l r : Cov ℝ) (ad : ActiveDims) (x y u : List ℝ) (hxy : x.length = y.length)
    (hu : u.length = y.length) (hwf : (Cov.mul l r ad).WF y.length = true) :
    dot ((Cov.mul l r ad).kGrad x y) u
      = dot (l.kGrad (select ad x) (select ad y)) (select ad u) * r.k (select ad x) (select ad y)
        + l.k (select ad x) (select ad y) * dot (r.kGrad (select ad x) (select ad y)) (select ad u) := by
  obtain ⟨is, hi, hl, hr⟩ := wf_pair hwf
  have hw := select_length_of_indices ad y hi
  have hs := select_length_eq ad x y hxy
  simp only [Cov.kGrad]
  rw [dot_expand_select ad y u _ hu,
    dot_zipWith_left _ (r.k (select ad x) (select ad y)) (l.k (select ad x) (select ad y))
      (by intro p q; ring) _ _ _
      (by rw [kGrad_eq_kGradE, kGrad_eq_kGradE, kGradE_length _ l _ _ hs (hw ▸ hl),
            kGradE_length _ r _ _ hs (hw ▸ hr)])]
  ring

theorem kgrad_mulC_rule (l : Cov ℝ) (c : ℝ) (ad : ActiveDims) (x y u : List ℝ) (hu : u.length = y.length) :
    dot ((Cov.mulC l c ad).kGrad x y) u = dot (l.kGrad (select ad x) (select ad y)) (select ad u) * c := by
  simp only [Cov.kGrad]
  rw [dot_expand_select ad y u _ hu, dot_map_left (fun lg => lg * c) c (by intro gi; ring)]
  ring

/-- Chain rule at a power node, base value `≠ 0` (NEGATIVE values included) or exponent `≥ 1`: the coded
    gradient is `p · base^(p−1) · (base gradient)`, nothing is zeroed. -/
theorem kgrad_pow_rule_nonzero (l : Cov ℝ) (p : ℝ) (ad : ActiveDims) (x y u : List ℝ) (hu : u.length = y.length)
    (hb : l.k (select ad x) (select ad y) ≠ 0 ∨ 1 ≤ p) :
    dot ((Cov.pow l p ad).kGrad x y) u
      = p * (l.k (select ad x) (select ad y)) ^ (p - 1)
          * dot (l.kGrad (select ad x) (select ad y)) (select ad u) := by
  simp only [Cov.kGrad, rpow_real, if_neg (powGuard_inactive hb)]
  rw [dot_expand_select ad y u _ hu,
    dot_map_left (fun bg => p * l.k (select ad x) (select ad y) ^ (p - 1) * bg)
      (p * l.k (select ad x) (select ad y) ^ (p - 1)) (by intro gi; ring)]

theorem kgrad_pow_rule (l : Cov ℝ) (p : ℝ) (ad : ActiveDims) (x y u : List ℝ) (hu : u.length = y.length)
    (hb : 0 < l.k (select ad x) (select ad y)) :
    dot ((Cov.pow l p ad).kGrad x y) u
      = p * (l.k (select ad x) (select ad y)) ^ (p - 1)
          * dot (l.kGrad (select ad x) (select ad y)) (select ad u) :=
  kgrad_pow_rule_nonzero l p ad x y u hu (Or.inl (ne_of_gt hb))

/-- **The guard of `Pow.k_grad`** (`where((base_k == 0) & (p < 1), 0.0, …)`): where the base kernel value
    is exactly `0` — in float64 where the base underflowed to `0.0` — and the exponent is `p < 1` (where
    `p · 0^(p−1) · 0` would be `∞ · 0 = nan`), the gradient of the power node is exactly `0` in every
    entry.  This is the "finite everywhere" clause for powers.
    (The earlier guard `where(base_k > 0, …, 0.0)` zeroed the gradient for EVERY non-positive base value and
    every exponent; that statement is false for the present code, see `kgrad_pow_negative_base_example`.) -/
theorem kgrad_pow_base_zero_lt1 (l : Cov ℝ) (p : ℝ) (ad : ActiveDims) (x y : List ℝ)
    (hb : l.k (select ad x) (select ad y) = 0) (hp : p < 1) :
    ∀ v ∈ (Cov.pow l p ad).kGrad x y, v = 0 := by
  rw [kGrad_eq_kGradE]; exact kGradE_pow_zero_lt1_zero _ l p ad x y hb hp

/-- The guard of the model (`¬ 0 < b ∧ ¬ b < 0`, the model has `<` only) is `b = 0` over ℝ. -/
theorem kgrad_pow_guard_iff (b p : ℝ) : ((¬ (0 < b) ∧ ¬ (b < 0)) ∧ p < 1) ↔ (b = 0 ∧ p < 1) :=
  powGuard_iff b p

/-- … and the guarded value is what the chain rule gives whenever the chain rule applies: for a
    positive base the guard is inactive (`kgrad_pow_rule`), so `kgrad_exact_partial` covers power nodes
    of every exponent under a positive base. -/
theorem kgrad_pow_guard_inactive (l : Cov ℝ) (p : ℝ) (ad : ActiveDims) (x y : List ℝ)
    (hb : 0 < l.k (select ad x) (select ad y)) :
    (Cov.pow l p ad).kGrad x y
      = expand ad y.length ((l.kGrad (select ad x) (select ad y)).map fun bg =>
          p * (l.k (select ad x) (select ad y)) ^ (p - 1) * bg) := by
  simp only [Cov.kGrad, rpow_real, if_neg (powGuard_inactive (Or.inl (ne_of_gt hb)))]

/-- The guard is inactive for EVERY non-zero base value (negative ones included) and, at a zero base
    value, for every exponent `≥ 1`. -/
theorem kgrad_pow_guard_inactive_of_ne (l : Cov ℝ) (p : ℝ) (ad : ActiveDims) (x y : List ℝ)
    (hb : l.k (select ad x) (select ad y) ≠ 0 ∨ 1 ≤ p) :
    (Cov.pow l p ad).kGrad x y
      = expand ad y.length ((l.kGrad (select ad x) (select ad y)).map fun bg =>
          p * (l.k (select ad x) (select ad y)) ^ (p - 1) * bg) := by
  simp only [Cov.kGrad, rpow_real, if_neg (powGuard_inactive hb)]

/-! ### natural-number powers of a base of any sign

For `p = m ∈ ℕ`, `m ≥ 1`, the value `base ** m` is the ordinary `m`-fold product (`pow_value_nat`), which is
differentiable at every base value, and the coded factor `m · base^(m−1)` is the ordinary monomial too
(`pow_factor_nat`); both identities hold for negative and zero base values. -/

/-- The value of a natural power node is the monomial `base^m` (no `exp ∘ log` convention involved). -/
theorem pow_value_nat (l : Cov ℝ) (m : ℕ) (ad : ActiveDims) (x y : List ℝ) :
    (Cov.pow l (m : ℝ) ad).k x y = (l.k (select ad x) (select ad y)) ^ m := by
  simp only [Cov.k, rpow_real, Real.rpow_natCast]

/-- The coded chain-rule factor for a natural exponent `m ≥ 1`: `m · base^(m−1)` with the monomial. -/
theorem pow_factor_nat (b : ℝ) (m : ℕ) (hm : 1 ≤ m) :
    (m : ℝ) * b ^ ((m : ℝ) - 1) = (m : ℝ) * b ^ (m - 1) := by
  have e : ((m : ℝ) - 1) = ((m - 1 : ℕ) : ℝ) := by rw [Nat.cast_sub hm, Nat.cast_one]
  rw [e, Real.rpow_natCast]

/-- **Power rule, natural exponent, base of any sign (directional).**  For every operand `l` that is
    `Regular` at the point and every `m ≥ 1`: the monomial `y ↦ k_l(x, y)^m` has directional derivative
    `m · base^(m−1) · ⟨∇k_l, u⟩`, and that is exactly what the exact-division recursion returns for
    `Pow(l, m)` — whether the base value is negative, zero or positive. -/
theorem kgrad_pow_nat_directional (l : Cov ℝ) (m : ℕ) (hm : 1 ≤ m) (ad : ActiveDims) (x y u : List ℝ)
    (hxy : x.length = y.length) (hu : u.length = y.length)
    (hwf : (Cov.pow l (m : ℝ) ad).WF y.length = true)
    (hreg : l.Regular (select ad x) (select ad y)) :
    HasDerivAt (fun t => (l.k (select ad x) (select ad (lineAt y u t))) ^ m)
        ((m : ℝ) * (l.k (select ad x) (select ad y)) ^ (m - 1)
          * dot (l.kGradE 0 (select ad x) (select ad y)) (select ad u)) 0
      ∧ dot ((Cov.pow l (m : ℝ) ad).kGradE 0 x y) u
          = (m : ℝ) * (l.k (select ad x) (select ad y)) ^ (m - 1)
            * dot (l.kGradE 0 (select ad x) (select ad y)) (select ad u) := by
  have hval : dot ((Cov.pow l (m : ℝ) ad).kGradE 0 x y) u
      = (m : ℝ) * (l.k (select ad x) (select ad y)) ^ (m - 1)
        * dot (l.kGradE 0 (select ad x) (select ad y)) (select ad u) := by
    simp only [Cov.kGradE, rpow_real,
      if_neg (powGuard_inactive (b := l.k (select ad x) (select ad y)) (p := (m : ℝ))
        (Or.inr (by exact_mod_cast hm)))]
    rw [dot_expand_select ad y u _ hu,
      dot_map_left (fun bg => (m : ℝ) * l.k (select ad x) (select ad y) ^ ((m : ℝ) - 1) * bg)
        ((m : ℝ) * l.k (select ad x) (select ad y) ^ ((m : ℝ) - 1)) (by intro gi; ring),
      pow_factor_nat _ m hm]
  refine ⟨?_, hval⟩
  have h := kGradE_zero_line (Cov.pow l (m : ℝ) ad) x y u hxy hu hwf ⟨hreg, Or.inr ⟨m, hm, rfl⟩⟩
  rw [hval] at h
  have hfun : (fun t => (Cov.pow l (m : ℝ) ad).k x (lineAt y u t))
      = fun t => (l.k (select ad x) (select ad (lineAt y u t))) ^ m := by
    funext t; exact pow_value_nat l m ad x _
  rwa [hfun] at h

/-- **Power rule, natural exponent, base of any sign (entrywise).**  `(kGradE 0 (Pow(l, m)) x y)[j]` is the
    partial derivative `∂/∂y_j` of the monomial `k_l(x, y)^m`. -/
theorem kgrad_pow_nat_partial (l : Cov ℝ) (m : ℕ) (hm : 1 ≤ m) (ad : ActiveDims) (x y : List ℝ) (j : Nat)
    (hxy : x.length = y.length) (hwf : (Cov.pow l (m : ℝ) ad).WF y.length = true)
    (hreg : l.Regular (select ad x) (select ad y)) :
    HasDerivAt (fun t => (l.k (select ad x) (select ad (y.set j t))) ^ m)
      (((Cov.pow l (m : ℝ) ad).kGradE 0 x y).getD j 0) (y.getD j 0) := by
  have h := kGradE_zero_partial (Cov.pow l (m : ℝ) ad) x y j hxy hwf ⟨hreg, Or.inr ⟨m, hm, rfl⟩⟩
  have hfun : (fun t => (Cov.pow l (m : ℝ) ad).k x (y.set j t))
      = fun t => (l.k (select ad x) (select ad (y.set j t))) ^ m := by
    funext t; exact pow_value_nat l m ad x _
  rwa [hfun] at h

/-- **`Pow(Linear, m)`, the case of the repaired defect**: for every natural `m ≥ 1`, every length scale
    and every pair of points — negative, zero (orthogonal) and positive dot products alike — the CODED
    gradient `kGrad` (no guard factor: no distance-based leaf) is the partial derivative of
    `y ↦ (⟨x, y⟩/ls)^m`. -/
theorem kgrad_pow_linear_eq (ls : ℝ) (adl ad : ActiveDims) (m : ℕ) (hm : 1 ≤ m) (x y : List ℝ) (j : Nat)
    (hxy : x.length = y.length) (hwf : (Cov.pow (.linear ls adl) (m : ℝ) ad).WF y.length = true) :
    HasDerivAt (fun t => ((Cov.linear ls adl).k (select ad x) (select ad (y.set j t))) ^ m)
      (((Cov.pow (.linear ls adl) (m : ℝ) ad).kGrad x y).getD j 0) (y.getD j 0) := by
  have h := kgrad_pow_nat_partial (.linear ls adl) m hm ad x y j hxy hwf trivial
  rwa [kGrad_eq_kGradE, Cov.GuardFree.kGradE_eq (.pow (.linear ls adl) (m : ℝ) ad) (by simp [Cov.GuardFree]) distEps 0]

/-- The witness of the repaired defect, evaluated in the model: `(Linear(1.0) ** 2).k_grad([1,2])([-1,-1])`
    is `2 · (−3) · [1, 2] = [−6, −12]` (base value `⟨x, y⟩ = −3 < 0`; the former guard returned `[0, 0]`), and
    `(Linear(1.0) ** 1).k_grad([1,0])([0,1]) = [1, 0] = x/ls` at orthogonal points (base value exactly `0`). -/
theorem kgrad_pow_negative_base_example :
    (Cov.pow (.linear (1:ℝ) .none) 2 .none).kGrad [1, 2] [-1, -1] = [-6, -12]
    ∧ (Cov.pow (.linear (1:ℝ) .none) 1 .none).kGrad [1, 0] [0, 1] = [1, 0] := by
  constructor
  · simp only [Cov.kGrad, Cov.k, select, expand, dot, List.map, rpow_real]
    norm_num
  · simp only [Cov.kGrad, Cov.k, select, expand, dot, List.map, rpow_real]
    norm_num

/-- The statement that held for the former guard (`kgrad_pow_base_nonpos`: "base value not positive ⇒ every
    entry is 0, for every exponent") is FALSE for the present code. -/
theorem kgrad_pow_base_nonpos_is_false :
    ¬ ∀ (l : Cov ℝ) (p : ℝ) (ad : ActiveDims) (x y : List ℝ), ¬ 0 < l.k (select ad x) (select ad y) →
        ∀ v ∈ (Cov.pow l p ad).kGrad x y, v = 0 := by
  intro h
  have h1 := h (.linear 1 .none) 2 .none [1, 2] [-1, -1] (by simp [Cov.k, select, dot]; norm_num)
  rw [kgrad_pow_negative_base_example.1] at h1
  have := h1 (-6) (by simp)
  norm_num at this

/-- Selection is a linear coordinate map and the scatter-add its transpose:
    `⟨expand ad d G, u⟩ = ⟨G, select ad u⟩` (repeated indices accumulate). -/
theorem scatter_is_transpose_of_select (ad : ActiveDims) (y u G : List ℝ) (hu : u.length = y.length) :
    dot (expand ad y.length G) u = dot G (select ad u) := dot_expand_select ad y u G hu

/-! ### every tree, quantitatively -/

/-- **kgrad_eq for every tree (directional).**  The coded gradient differs from the true directional
    derivative by at most `1e-6 · ⟨devBound c x y, |u|⟩`, where `devBound` sums the absolute contributions
    of the distance-based leaves through the tree (`Linear` leaves contribute nothing). -/
theorem kgrad_close_directional (c : Cov ℝ) (x y u : List ℝ) (hxy : x.length = y.length)
    (hu : u.length = y.length) (hwf : c.WF y.length = true) (hreg : c.Regular x y) :
    ∃ Dv : ℝ, HasDerivAt (fun t => c.k x (lineAt y u t)) Dv 0
      ∧ |dot (c.kGrad x y) u - Dv| ≤ 1e-6 * dot (c.devBound x y) (absL u) := by
  refine ⟨_, kGradE_zero_line c x y u hxy hu hwf hreg, ?_⟩
  rw [kGrad_eq_kGradE]
  exact kGradE_close c x y u hxy hu hwf

/-- **kgrad_eq for every tree (entrywise).**  `|kGrad c x y [j] − ∂k/∂y_j| ≤ 1e-6 · devBound c x y [j]`. -/
theorem kgrad_close_partial (c : Cov ℝ) (x y : List ℝ) (j : Nat) (hxy : x.length = y.length)
    (hwf : c.WF y.length = true) (hreg : c.Regular x y) :
    ∃ Dv : ℝ, HasDerivAt (fun t => c.k x (y.set j t)) Dv (y.getD j 0)
      ∧ |(c.kGrad x y).getD j 0 - Dv| ≤ 1e-6 * (c.devBound x y).getD j 0 := by
  refine ⟨_, kGradE_zero_partial c x y j hxy hwf hreg, ?_⟩
  rw [kGrad_eq_kGradE]
  exact kGradE_close_entry c x y j hxy hwf

/-! ### exact zeros, coincident points, shape -/

/-- **Exact zeros in inactive dimensions**: a column that no leaf can reach through the chain of
    column selections has gradient entry exactly `0`. -/
theorem kgrad_inactive_zero (c : Cov ℝ) (x y : List ℝ) (j : Nat) (hxy : x.length = y.length)
    (hwf : c.WF y.length = true) (hj : ¬ c.Reaches y.length j) : (c.kGrad x y).getD j 0 = 0 := by
  rw [kGrad_eq_kGradE]; exact kGradE_unreached_zero _ c x y j hxy hwf hj

/-- Root-level special case: a column outside the root's own active dimensions. -/
theorem kgrad_inactive_zero_root (c : Cov ℝ) (x y : List ℝ) (j : Nat) (hxy : x.length = y.length)
    (hwf : c.WF y.length = true) (is : List Nat) (hi : c.ad.indices y.length = some is) (hj : j ∉ is) :
    (c.kGrad x y).getD j 0 = 0 := by
  apply kgrad_inactive_zero c x y j hxy hwf
  intro hr
  have hmem : ∀ {k : Nat}, is[k]? = some j → False := fun hk => hj (List.mem_iff_getElem?.mpr ⟨_, hk⟩)
  cases c <;> simp only [Cov.Reaches, Cov.ad] at hr hi <;> obtain ⟨is', hi', h⟩ := hr <;>
    (rw [hi] at hi'; cases hi')
  all_goals first
    | exact hj h
    | (obtain ⟨k, hk, _⟩ := h; exact hmem hk)

/-- **Finite at coincident points**: the denominator `dist + 1e-12` is positive everywhere … -/
theorem kgrad_denominator_pos (x y : List ℝ) (h : x.length = y.length) : 0 < distance x y + 1e-12 := by
  have := distance_pos x y h; positivity

/-- … and at `y = x` the gradient of every distance-based expression is exactly `0`. -/
theorem kgrad_finite_coincident (c : Cov ℝ) (hc : c.NoLinear) (x : List ℝ) :
    ∀ v ∈ c.kGrad x x, v = 0 := by
  rw [kGrad_eq_kGradE]; exact kGradE_coincident_zero _ c hc x

/-- Shape: one entry per feature of `y` (the `(n_x, n_y, ·)` axes are the two row loops). -/
theorem kgrad_length (c : Cov ℝ) (x y : List ℝ) (hxy : x.length = y.length) (hwf : c.WF y.length = true) :
    (c.kGrad x y).length = y.length := by
  rw [kGrad_eq_kGradE]; exact kGradE_length _ c x y hxy hwf

/-! ### non-vacuity -/

/-- a depth-2 tree with a repeated index list at the root and a negative index inside -/
noncomputable def exampleTree : Cov ℝ :=
  .mul (.pow (.matern52 2 (.idx (-1))) 0.5 .none) (.add (.expquad 1 .none) (.linear 3 (.list [0, 0])) .none)
    (.list [1, 1, 0])

example : exampleTree.WF 2 = true := by decide
example : Cov.Positive (.pow (.matern52 (2:ℝ) (.idx (-1))) 0.5 .none) := by
  simp [Cov.Positive]
example : (Cov.matern32 (1:ℝ) (.list [0, 0])).isRadial = true := rfl
example : (Cov.matern32 (1:ℝ) (.list [0, 0])).Regular [1, 2] [3, 4] := trivial
example : ¬ (Cov.matern32 (1:ℝ) (.idx 0)).Reaches 2 1 := by
  simp [Cov.Reaches, ActiveDims.indices, resolveIdx]
/-- a Linear base takes negative values (so `Regular`'s natural-exponent branch is not vacuous) … -/
example : (Cov.linear (1:ℝ) .none).k (select .none [1]) (select .none [-1]) < 0 := by
  simp [Cov.k, select, dot]
/-- … and the guard is reachable over ℝ: a Linear base at orthogonal points, exponent 1/2 -/
example : (Cov.linear (1:ℝ) .none).k (select .none [1, 0]) (select .none [0, 1]) = 0 ∧ (0.5:ℝ) < 1 := by
  constructor
  · simp [Cov.k, select, dot]
  · norm_num
example : Cov.Smooth (.add (.pow (.mul (.linear (1:ℝ) .none) (.matern52 1 .none) .none) 3 .none)
    (.pow (.addC (.linear 2 .none) 0.1 .none) 2 .none) .none) := by
  refine ⟨⟨⟨trivial, trivial⟩, Or.inr ⟨3, by norm_num, by norm_num⟩⟩, ⟨trivial, Or.inr ⟨2, by norm_num, by norm_num⟩⟩⟩
example : (Cov.pow (.linear (1:ℝ) .none) 2 .none).Regular [1, 2] [-1, -1] :=
  ⟨trivial, Or.inr ⟨2, by norm_num, by norm_num⟩⟩
example : Cov.GuardFree (.mulC (.linear (2:ℝ) .none) 3 (.idx 0)) := by simp [Cov.GuardFree]

end Mellon.C11
