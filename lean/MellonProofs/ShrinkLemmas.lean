/-
  MellonProofs.ShrinkLemmas — ridge shrinkage: for a positive semi-definite `K` and regularisers
  `0 ≤ s ≤ s'`, the fitted vector `K (K + s' I)⁻¹ r` is not longer than `K (K + s I)⁻¹ r`.
  Stated without inverses, for any solutions `w`, `w'` of the two regularised systems.
-/
import Mathlib.LinearAlgebra.Matrix.PosDef
import Mathlib.Algebra.Order.Star.Real
import Mathlib.Algebra.Order.Chebyshev

open Matrix
open scoped BigOperators

namespace Mellon.Shrink

variable {n : Nat}

theorem psd_quad_nonneg {K : Matrix (Fin n) (Fin n) ℝ} (hK : K.PosSemidef) (v : Fin n → ℝ) :
    0 ≤ v ⬝ᵥ (K *ᵥ v) := by
  have := hK.dotProduct_mulVec_nonneg v
  simpa using this

/-- **Ridge shrinkage.** -/
theorem shrink_mono (K : Matrix (Fin n) (Fin n) ℝ) (hK : K.PosSemidef) {s s' : ℝ} (hs : 0 ≤ s) (hss : s ≤ s')
    (w w' r : Fin n → ℝ) (hw : (K + s • (1 : Matrix (Fin n) (Fin n) ℝ)) *ᵥ w = r)
    (hw' : (K + s' • (1 : Matrix (Fin n) (Fin n) ℝ)) *ᵥ w' = r) :
    (K *ᵥ w') ⬝ᵥ (K *ᵥ w') ≤ (K *ᵥ w) ⬝ᵥ (K *ᵥ w) := by
  -- z = w − w', e = K z, g' = K w'
  set z : Fin n → ℝ := w - w' with hz
  set e : Fin n → ℝ := K *ᵥ z with he
  set g' : Fin n → ℝ := K *ᵥ w' with hg'
  have hg : K *ᵥ w = g' + e := by
    rw [he, hg', hz, Matrix.mulVec_sub]; abel
  -- the two systems: K z + s z = (s' − s) w'
  have hsys : e + s • z = (s' - s) • w' := by
    have h1 : K *ᵥ w + s • w = r := by
      rw [← hw, Matrix.add_mulVec, Matrix.smul_mulVec, Matrix.one_mulVec]
    have h2 : K *ᵥ w' + s' • w' = r := by
      rw [← hw', Matrix.add_mulVec, Matrix.smul_mulVec, Matrix.one_mulVec]
    have h3 : K *ᵥ w + s • w = K *ᵥ w' + s' • w' := h1.trans h2.symm
    have hw_eq : w = z + w' := by rw [hz]; abel
    rw [he, hz, Matrix.mulVec_sub]
    have : K *ᵥ w - K *ᵥ w' + s • (w - w') = (K *ᵥ w + s • w) - (K *ᵥ w' + s • w') := by
      rw [smul_sub]; abel
    rw [this, h3, sub_smul]; abel
  -- δ · ⟨g', e⟩ = ⟨K e, e⟩ + s ⟨e, e⟩ ≥ 0
  have hkey : (s' - s) * (g' ⬝ᵥ e) = e ⬝ᵥ (K *ᵥ e) + s * (e ⬝ᵥ e) := by
    have : (s' - s) • g' = K *ᵥ e + s • e := by
      rw [hg', ← Matrix.mulVec_smul, ← hsys, Matrix.mulVec_add, Matrix.mulVec_smul]
    calc (s' - s) * (g' ⬝ᵥ e) = ((s' - s) • g') ⬝ᵥ e := by rw [smul_dotProduct, smul_eq_mul]
      _ = (K *ᵥ e + s • e) ⬝ᵥ e := by rw [this]
      _ = e ⬝ᵥ (K *ᵥ e) + s * (e ⬝ᵥ e) := by
        rw [add_dotProduct, smul_dotProduct, smul_eq_mul, dotProduct_comm (K *ᵥ e) e]
  have hee0 : 0 ≤ e ⬝ᵥ e := by
    have := dotProduct_self_star_nonneg e; simpa using this
  have hnn : 0 ≤ e ⬝ᵥ (K *ᵥ e) + s * (e ⬝ᵥ e) :=
    add_nonneg (psd_quad_nonneg hK e) (mul_nonneg hs hee0)
  have hcross : 0 ≤ g' ⬝ᵥ e := by
    rcases (sub_nonneg.mpr hss).lt_or_eq with hpos | hzero
    · by_contra hneg
      have : (s' - s) * (g' ⬝ᵥ e) < 0 := mul_neg_of_pos_of_neg hpos (not_le.mp hneg)
      rw [hkey] at this; linarith
    · -- δ = 0: e = −s z, hence ⟨e,e⟩ = −s ⟨z, K z⟩ ≤ 0, so e = 0
      have hes : e = -(s • z) := by
        have := hsys; rw [← hzero, zero_smul] at this
        exact eq_neg_of_add_eq_zero_left this
      have hee : e ⬝ᵥ e = -(s * (z ⬝ᵥ (K *ᵥ z))) := by
        conv_lhs => lhs; rw [hes]
        rw [neg_dotProduct, smul_dotProduct, smul_eq_mul, he]
      have hle : e ⬝ᵥ e ≤ 0 := by
        rw [hee]; exact neg_nonpos.mpr (mul_nonneg hs (psd_quad_nonneg hK z))
      have hge : 0 ≤ e ⬝ᵥ e := by
        have := dotProduct_self_star_nonneg e; simpa using this
      have he0 : e = 0 := by
        have : e ⬝ᵥ e = 0 := le_antisymm hle hge
        exact dotProduct_self_eq_zero.mp this
      rw [he0, dotProduct_zero]
  rw [hg, add_dotProduct, dotProduct_add, dotProduct_add, dotProduct_comm e g']
  have hge : 0 ≤ e ⬝ᵥ e := by
    have := dotProduct_self_star_nonneg e; simpa using this
  linarith

/-- **Ridge error bound.** If `K ⪰ λ·I` (`λ ≥ 0`) and `(K + j·I) w = r` with `j > 0`, then `(λ + j)² ‖w‖² ≤ ‖r‖²`: the
    in-sample error `j·w` of the regularised solve is at most `j/(λ+j)·‖r‖` — proportional to the jitter. -/
theorem ridge_error_bound (K : Matrix (Fin n) (Fin n) ℝ) {lam j : ℝ} (hK : (K - lam • (1 : Matrix (Fin n) (Fin n) ℝ)).PosSemidef)
    (hlam : 0 ≤ lam) (hj : 0 < j) (w r : Fin n → ℝ) (hw : (K + j • (1 : Matrix (Fin n) (Fin n) ℝ)) *ᵥ w = r) :
    (lam + j) ^ 2 * (w ⬝ᵥ w) ≤ r ⬝ᵥ r := by
  have hq := psd_quad_nonneg hK w
  have hKw : w ⬝ᵥ (K *ᵥ w) = w ⬝ᵥ ((K - lam • (1 : Matrix (Fin n) (Fin n) ℝ)) *ᵥ w) + lam * (w ⬝ᵥ w) := by
    rw [Matrix.sub_mulVec, Matrix.smul_mulVec, Matrix.one_mulVec, dotProduct_sub, dotProduct_smul, smul_eq_mul]; ring
  have hrw : r ⬝ᵥ w = w ⬝ᵥ (K *ᵥ w) + j * (w ⬝ᵥ w) := by
    rw [← hw, Matrix.add_mulVec, Matrix.smul_mulVec, Matrix.one_mulVec, add_dotProduct, smul_dotProduct, smul_eq_mul,
      dotProduct_comm (K *ᵥ w) w]
  have hww : 0 ≤ w ⬝ᵥ w := by
    have := dotProduct_self_star_nonneg w; simpa using this
  have h1 : (lam + j) * (w ⬝ᵥ w) ≤ r ⬝ᵥ w := by rw [hrw, hKw]; nlinarith
  have hcs : (r ⬝ᵥ w) ^ 2 ≤ (r ⬝ᵥ r) * (w ⬝ᵥ w) := by
    simp only [dotProduct]
    have := Finset.sum_mul_sq_le_sq_mul_sq Finset.univ r w
    simpa [sq] using this
  by_cases hz : w ⬝ᵥ w = 0
  · rw [hz, mul_zero]
    have := dotProduct_self_star_nonneg r; simpa using this
  · have hpos : 0 < w ⬝ᵥ w := lt_of_le_of_ne hww (Ne.symm hz)
    have h0 : 0 ≤ (lam + j) * (w ⬝ᵥ w) := by positivity
    have h2 : ((lam + j) * (w ⬝ᵥ w)) ^ 2 ≤ (r ⬝ᵥ r) * (w ⬝ᵥ w) :=
      le_trans (pow_le_pow_left₀ h0 h1 2) hcs
    have h3 : (lam + j) ^ 2 * (w ⬝ᵥ w) * (w ⬝ᵥ w) ≤ (r ⬝ᵥ r) * (w ⬝ᵥ w) := by
      have : ((lam + j) * (w ⬝ᵥ w)) ^ 2 = (lam + j) ^ 2 * (w ⬝ᵥ w) * (w ⬝ᵥ w) := by ring
      rwa [this] at h2
    exact le_of_mul_le_mul_right h3 hpos

end Mellon.Shrink
