/-
  MellonProofs.PSDLemmas — positive semi-definiteness of kernel expressions.

  `PSDOn d k`: `k` is symmetric and every Gram matrix of `k` on points of width `d` is positive
  semi-definite.  Closure under sum, product (Schur product theorem), natural powers, non-negative
  constants, restriction to active columns, `exp ∘ k` (power series), and the two leaf kernels for which the
  statement is elementary: Linear and ExpQuad (`exp(−‖x−y‖²/2ℓ²)` = rank-one scaling of `exp(⟨x,y⟩/ℓ²)`).
  The other stationary leaves (Matérn 3/2, 5/2, Exponential, RatQuad) need Bochner / Schoenberg and stay a
  named hypothesis.
-/
import Mathlib.Analysis.Matrix.Order
import Mathlib.Analysis.SpecialFunctions.Exponential
import MellonProofs.KernelLemmas

open Mellon Matrix
open scoped BigOperators

namespace Mellon.PSD

/-- `k` is symmetric, and `Σᵢⱼ aᵢ aⱼ k(xᵢ, xⱼ) ≥ 0` for all points of width `d`. -/
def PSDOn (d : Nat) (k : List ℝ → List ℝ → ℝ) : Prop :=
  (∀ x y, k x y = k y x) ∧
  ∀ (n : Nat) (xs : Fin n → List ℝ) (a : Fin n → ℝ), (∀ i, (xs i).length = d) →
    0 ≤ ∑ i, ∑ j, a i * a j * k (xs i) (xs j)

/-- Gram matrix of `k` on the points `xs`. -/
def gramM {n : Nat} (k : List ℝ → List ℝ → ℝ) (xs : Fin n → List ℝ) : Matrix (Fin n) (Fin n) ℝ :=
  Matrix.of fun i j => k (xs i) (xs j)

theorem quad_eq {n : Nat} (M : Matrix (Fin n) (Fin n) ℝ) (a : Fin n → ℝ) :
    star a ⬝ᵥ (M *ᵥ a) = ∑ i, ∑ j, a i * a j * M i j := by
  simp only [dotProduct, Matrix.mulVec, Finset.mul_sum, Pi.star_apply, star_trivial]
  apply Finset.sum_congr rfl; intro i _
  apply Finset.sum_congr rfl; intro j _
  ring

theorem gramM_psd {d n : Nat} {k : List ℝ → List ℝ → ℝ} (h : PSDOn d k) (xs : Fin n → List ℝ)
    (hlen : ∀ i, (xs i).length = d) : (gramM k xs).PosSemidef := by
  refine Matrix.PosSemidef.of_dotProduct_mulVec_nonneg ?_ fun a => ?_
  · ext i j; simp [gramM, Matrix.conjTranspose_apply, h.1 (xs j) (xs i)]
  · rw [quad_eq]; simpa [gramM] using h.2 n xs a hlen

theorem psdOn_of_gram {d : Nat} {k : List ℝ → List ℝ → ℝ} (hs : ∀ x y, k x y = k y x)
    (h : ∀ (n : Nat) (xs : Fin n → List ℝ), (∀ i, (xs i).length = d) → (gramM k xs).PosSemidef) :
    PSDOn d k := by
  refine ⟨hs, fun n xs a hlen => ?_⟩
  have := (h n xs hlen).dotProduct_mulVec_nonneg a
  rw [quad_eq] at this
  simpa [gramM] using this

/-! ### closure properties -/

theorem psdOn_add {d} {k1 k2 : List ℝ → List ℝ → ℝ} (h1 : PSDOn d k1) (h2 : PSDOn d k2) :
    PSDOn d (fun x y => k1 x y + k2 x y) := by
  refine ⟨fun x y => by simp only []; rw [h1.1 x y, h2.1 x y], fun n xs a hlen => ?_⟩
  have e : ∑ i, ∑ j, a i * a j * (k1 (xs i) (xs j) + k2 (xs i) (xs j))
      = ∑ i, ∑ j, a i * a j * k1 (xs i) (xs j) + ∑ i, ∑ j, a i * a j * k2 (xs i) (xs j) := by
    rw [← Finset.sum_add_distrib]
    apply Finset.sum_congr rfl; intro i _
    rw [← Finset.sum_add_distrib]
    apply Finset.sum_congr rfl; intro j _
    ring
  rw [e]
  exact add_nonneg (h1.2 n xs a hlen) (h2.2 n xs a hlen)

theorem psdOn_const {d} {c : ℝ} (hc : 0 ≤ c) : PSDOn d (fun _ _ => c) := by
  refine ⟨fun _ _ => rfl, fun n xs a _ => ?_⟩
  have hsq : ∑ i, ∑ j, a i * a j * c = (∑ i, a i) ^ 2 * c := by
    rw [sq, Finset.sum_mul_sum, Finset.sum_mul]
    apply Finset.sum_congr rfl; intro i _
    rw [Finset.sum_mul]
  rw [hsq]; positivity

theorem psdOn_addC {d} {k : List ℝ → List ℝ → ℝ} (h : PSDOn d k) {c : ℝ} (hc : 0 ≤ c) :
    PSDOn d (fun x y => k x y + c) :=
  psdOn_add h (psdOn_const hc)

/-- **Schur product theorem** for kernels. -/
theorem psdOn_mul {d} {k1 k2 : List ℝ → List ℝ → ℝ} (h1 : PSDOn d k1) (h2 : PSDOn d k2) :
    PSDOn d (fun x y => k1 x y * k2 x y) := by
  apply psdOn_of_gram (fun x y => by rw [h1.1 x y, h2.1 x y])
  intro n xs hlen
  have e : gramM (fun x y => k1 x y * k2 x y) xs = Matrix.hadamard (gramM k1 xs) (gramM k2 xs) := by
    ext i j; simp [gramM, Matrix.hadamard]
  rw [e]
  exact (gramM_psd h1 xs hlen).hadamard (gramM_psd h2 xs hlen)

theorem psdOn_mulC {d} {k : List ℝ → List ℝ → ℝ} (h : PSDOn d k) {c : ℝ} (hc : 0 ≤ c) :
    PSDOn d (fun x y => k x y * c) :=
  psdOn_mul h (psdOn_const hc)

theorem psdOn_pow {d} {k : List ℝ → List ℝ → ℝ} (h : PSDOn d k) (m : Nat) :
    PSDOn d (fun x y => k x y ^ m) := by
  induction m with
  | zero => simpa using psdOn_const (d := d) (zero_le_one)
  | succ m ih =>
    have := psdOn_mul ih h
    simpa [pow_succ] using this

/-- Rank-one scaling `g(x) k(x,y) g(y)`. -/
theorem psdOn_scale {d} {k : List ℝ → List ℝ → ℝ} (h : PSDOn d k) (g : List ℝ → ℝ) :
    PSDOn d (fun x y => g x * k x y * g y) := by
  refine ⟨fun x y => by simp only []; rw [h.1 x y]; ring, fun n xs a hlen => ?_⟩
  have := h.2 n xs (fun i => a i * g (xs i)) hlen
  refine le_of_le_of_eq this ?_
  apply Finset.sum_congr rfl; intro i _
  apply Finset.sum_congr rfl; intro j _
  ring

/-- Composition with a map of the points that sends width `d` to width `d'` (active columns). -/
theorem psdOn_comap {d d'} {k : List ℝ → List ℝ → ℝ} (h : PSDOn d' k) (f : List ℝ → List ℝ)
    (hf : ∀ x, x.length = d → (f x).length = d') : PSDOn d (fun x y => k (f x) (f y)) :=
  ⟨fun x y => h.1 _ _, fun n xs a hlen => h.2 n (fun i => f (xs i)) a (fun i => hf _ (hlen i))⟩

/-- `exp ∘ k` is PSD when `k` is: `Σᵢⱼ aᵢaⱼ exp(kᵢⱼ) = Σₘ (1/m!) Σᵢⱼ aᵢaⱼ kᵢⱼᵐ`, every term non-negative by
    the Schur product theorem. -/
theorem psdOn_exp {d} {k : List ℝ → List ℝ → ℝ} (h : PSDOn d k) :
    PSDOn d (fun x y => Real.exp (k x y)) := by
  refine ⟨fun x y => by simp only []; rw [h.1 x y], fun n xs a hlen => ?_⟩
  have hs : ∀ i j : Fin n, HasSum (fun m : ℕ => a i * a j * (k (xs i) (xs j) ^ m / (m.factorial : ℝ)))
      (a i * a j * Real.exp (k (xs i) (xs j))) := by
    intro i j
    have := NormedSpace.expSeries_div_hasSum_exp (k (xs i) (xs j))
    rw [← Real.exp_eq_exp_ℝ] at this
    exact this.mul_left _
  have hsum : HasSum (fun m : ℕ => ∑ i, ∑ j, a i * a j * (k (xs i) (xs j) ^ m / (m.factorial : ℝ)))
      (∑ i, ∑ j, a i * a j * Real.exp (k (xs i) (xs j))) :=
    hasSum_sum fun i _ => hasSum_sum fun j _ => hs i j
  refine hsum.nonneg fun m => ?_
  have hm := (psdOn_pow h m).2 n xs a hlen
  have e : ∑ i, ∑ j, a i * a j * (k (xs i) (xs j) ^ m / (m.factorial : ℝ))
      = (∑ i, ∑ j, a i * a j * k (xs i) (xs j) ^ m) / (m.factorial : ℝ) := by
    rw [Finset.sum_div]
    apply Finset.sum_congr rfl; intro i _
    rw [Finset.sum_div]
    apply Finset.sum_congr rfl; intro j _
    ring
  rw [e]
  exact div_nonneg hm (Nat.cast_nonneg _)

/-! ### leaves -/

theorem dot_sum_left {n : Nat} (xs : Fin n → List ℝ) (a : Fin n → ℝ) (d : Nat)
    (hlen : ∀ i, (xs i).length = d) :
    ∃ v : List ℝ, v.length = d ∧ ∀ w : List ℝ, w.length = d → ∑ i, a i * dot (xs i) w = dot v w := by
  induction d generalizing xs with
  | zero =>
    refine ⟨[], rfl, fun w hw => ?_⟩
    have hw' : w = [] := List.length_eq_zero_iff.mp hw
    subst hw'
    have : ∀ i, xs i = [] := fun i => List.length_eq_zero_iff.mp (hlen i)
    simp [this, dot]
  | succ d ih =>
    have hne : ∀ i, xs i ≠ [] := fun i h => by have := hlen i; rw [h] at this; simp at this
    let hd : Fin n → ℝ := fun i => (xs i).head (hne i)
    let tl : Fin n → List ℝ := fun i => (xs i).tail
    have hcons : ∀ i, xs i = hd i :: tl i := fun i => (List.cons_head_tail (hne i)).symm
    obtain ⟨v, hv, hvw⟩ := ih tl (fun i => by simp [tl, hlen i])
    refine ⟨(∑ i, a i * hd i) :: v, by simp [hv], fun w hw => ?_⟩
    cases w with
    | nil => simp at hw
    | cons b bs =>
      have hbs : bs.length = d := by simpa using hw
      simp only [dot]
      rw [← hvw bs hbs, Finset.sum_mul, ← Finset.sum_add_distrib]
      apply Finset.sum_congr rfl
      intro i _
      rw [hcons i]; simp only [dot]; ring

/-- The dot-product kernel `⟨x,y⟩/c`, `c > 0`. -/
theorem psdOn_dot {d} {c : ℝ} (hc : 0 < c) : PSDOn d (fun x y => dot x y / c) := by
  refine ⟨fun x y => by simp only []; rw [dot_comm], fun n xs a hlen => ?_⟩
  obtain ⟨v, hv, hvw⟩ := dot_sum_left xs a d hlen
  have key : ∑ i, ∑ j, a i * a j * (dot (xs i) (xs j) / c) = dot v v / c := by
    have h1 : ∀ j, ∑ i, a i * dot (xs i) (xs j) = dot v (xs j) := fun j => hvw (xs j) (hlen j)
    have h2 : ∑ j, a j * dot (xs j) v = dot v v := hvw v hv
    calc ∑ i, ∑ j, a i * a j * (dot (xs i) (xs j) / c)
        = ∑ j, a j * (∑ i, a i * dot (xs i) (xs j)) / c := by
          rw [Finset.sum_comm]
          apply Finset.sum_congr rfl; intro j _
          rw [Finset.mul_sum, Finset.sum_div]
          apply Finset.sum_congr rfl; intro i _
          ring
      _ = ∑ j, a j * dot (xs j) v / c := by
          apply Finset.sum_congr rfl; intro j _
          rw [h1 j, dot_comm]
      _ = dot v v / c := by rw [← Finset.sum_div, h2]
  rw [key]
  exact div_nonneg (dot_self_nonneg v) (le_of_lt hc)

/-- The squared-exponential profile of the regularised distance:
    `exp(−(‖x−y‖² + ε)/(2ℓ²))` as it is computed by `util.distance` (`xx − 2xy + yy + ε`, clamped at 0). -/
theorem psdOn_expquad_raw {d} {ls : ℝ} (hls : 0 < ls) :
    PSDOn d (fun x y => Real.exp (-((dot x x - 2 * dot x y + dot y y + (distEps : ℝ)) / (ls * ls)) / 2)) := by
  have hc : 0 < ls * ls := mul_pos hls hls
  have base := psdOn_scale (psdOn_exp (psdOn_dot (d := d) hc))
    (fun x => Real.exp (-((dot x x + (distEps : ℝ) / 2) / (ls * ls)) / 2))
  refine ⟨fun x y => ?_, fun n xs a hlen => ?_⟩
  · simp only []; rw [dot_comm x y]; congr 1; ring
  · refine le_of_le_of_eq (base.2 n xs a hlen) ?_
    apply Finset.sum_congr rfl; intro i _
    apply Finset.sum_congr rfl; intro j _
    beta_reduce
    rw [← Real.exp_add, ← Real.exp_add]
    congr 2
    field_simp
    ring

end Mellon.PSD
