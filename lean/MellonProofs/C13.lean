/-
  C13 — Time arguments of time-aware predictors mean what they say.
  Property theorems only (helpers in TimeArgsLemmas.lean).  The model (`MellonModel/TimeArgs.lean`) is
  exact (no rounding is involved in the merge), so the statements hold for EVERY element type `τ`,
  every `n`, `f`, every shape and all data; the family routines (`_mean`, `_covariance`, the AD
  routines) are arbitrary functions (`Family`).
-/
import MellonProofs.TimeArgsLemmas

namespace Mellon.C13
open Mellon

variable {τ : Type} [IntCast τ]

/-! ### the calling conventions -/

/-- `Denotes n ts t`: the argument `t` is one of the documented ways of writing the time column `ts`
    for `n` rows — a per-row array / JAX array / list / tuple of shape `(n,)`, a column `(n,1)` (array
    or nested list), a Python or NumPy scalar (`int` or `float`), or a 0-d / `(1,)` / `(1,1)` / … array-like
    with a single element (any shape whose product is 1), broadcast to all rows. -/
inductive Denotes (n : Nat) : List τ → TimeArg τ → Prop
  | vec (ts : List τ) (h : ts.length = n) : Denotes n ts (.array [n] ts)
  | col (ts : List τ) (h : ts.length = n) : Denotes n ts (.array [n, 1] ts)
  | list (ts : List τ) (h : ts.length = n) : Denotes n ts (.pyList [n] ts)
  | nested (ts : List τ) (h : ts.length = n) : Denotes n ts (.pyList [n, 1] ts)
  | pyFloat (v : τ) : Denotes n (List.replicate n v) (.pyFloat v)
  | pyInt (v : Int) : Denotes n (List.replicate n (Int.cast v)) (.pyInt v)
  | one (s : List Nat) (hs : listProd s = 1) (v : τ) : Denotes n (List.replicate n v) (.array s [v])
  | oneList (s : List Nat) (hs : listProd s = 1) (v : τ) : Denotes n (List.replicate n v) (.pyList s [v])

theorem denotes_length {n : Nat} {ts : List τ} {t : TimeArg τ} (h : Denotes n ts t) : ts.length = n := by
  cases h <;> simp_all

/-- A time argument that denotes a column is never `None`. -/
theorem denotes_not_none {n : Nat} {ts : List τ} {t : TimeArg τ} (h : Denotes n ts t) :
    t.shape.isNone = false := by
  cases h <;> rfl

/-- Under `cast_scalar=True` every documented form passes the shape tests … -/
theorem denotes_shape_ok {n : Nat} {ts : List τ} {t : TimeArg τ} (h : Denotes n ts t) :
    timesErr? n (castShape n t.shape) = none := by
  cases h with
  | vec ts h | list ts h =>
    simp only [TimeArg.shape, castShape, listProd_singleton]
    split <;> simp [timesErr?]
  | col ts h | nested ts h =>
    simp only [TimeArg.shape, castShape, listProd_pair]
    split <;> simp [timesErr?]
  | pyFloat v | pyInt v => simp [TimeArg.shape, castShape, timesErr?]
  | one s hs v | oneList s hs v => simp [TimeArg.shape, castShape, hs, timesErr?]

/-- … and the column that is appended is exactly `ts`. -/
theorem denotes_column {n : Nat} {ts : List τ} {t : TimeArg τ} (h : Denotes n ts t) :
    timesColumn n true t = ts := by
  cases h with
  | vec ts h | list ts h =>
    simp only [timesColumn, TimeArg.shape, TShape.broadcasts, listProd_singleton, TimeArg.data, Bool.true_and]
    by_cases h1 : n = 1
    · subst h1
      obtain ⟨v, rfl⟩ := List.length_eq_one_iff.mp h
      simp
    · simp [h1]
  | col ts h | nested ts h =>
    simp only [timesColumn, TimeArg.shape, TShape.broadcasts, listProd_pair, TimeArg.data, Bool.true_and,
      Nat.mul_one]
    by_cases h1 : n = 1
    · subst h1
      obtain ⟨v, rfl⟩ := List.length_eq_one_iff.mp h
      simp
    · simp [h1]
  | pyFloat v | pyInt v => simp [timesColumn, TimeArg.shape, TShape.broadcasts, TimeArg.data]
  | one s hs v | oneList s hs v => simp [timesColumn, TimeArg.shape, TShape.broadcasts, TimeArg.data, hs]

/-! ### merge_forms_agree -/

/-- **merge_forms_agree.**  For `x` of shape `n × f` and every documented way `t` of writing the time
    column `ts` (per-row `(n,)`, `(n,1)`, list, nested list; scalar int/float; 0-d, `(1,)`, `(1,1)`, …),
    `validate_time_x(x, t, n_features=f+1, cast_scalar=True)` returns the `n × (f+1)` matrix `[x | ts]` —
    the same matrix that the trailing-column call `validate_time_x([x | ts], None, f+1)` returns. -/
theorem merge_forms_agree (n f : Nat) (rows : List (List τ)) (ts : List τ) (t : TimeArg τ)
    (h : Denotes n ts t) :
    validateTimeX (.mat n f rows) t (some (f + 1)) true = .ok ⟨n, f + 1, appendCol rows ts⟩
    ∧ validateTimeX (.mat n (f + 1) (appendCol rows ts)) .none (some (f + 1)) true
        = .ok ⟨n, f + 1, appendCol rows ts⟩ := by
  constructor
  · simp only [validateTimeX, xtErr?, if_true, denotes_shape_ok h, denotes_not_none h, featErr?,
      mergedVal, denotes_column h]
    simp
  · simp [validateTimeX, xtErr?, TimeArg.shape, castShape, timesErr?, TShape.isNone, featErr?, mergedVal]

/-- Without `n_features` (as in `compute_nn_distances_within_time_points`) and without
    `cast_scalar`, the per-row forms still give `[x | ts]`. -/
theorem merge_per_row_no_cast (n c : Nat) (rows : List (List τ)) (ts : List τ)
    (s : List Nat) (hs : s = [n] ∨ s = [n, 1]) (t : TimeArg τ) (ht : t = .array s ts ∨ t = .pyList s ts) :
    validateTimeX (.mat n c rows) t none false = .ok ⟨n, c + 1, appendCol rows ts⟩ := by
  rcases hs with rfl | rfl <;> rcases ht with rfl | rfl <;>
    simp [validateTimeX, xtErr?, TimeArg.shape, timesErr?, TShape.isNone, featErr?, mergedVal, timesColumn,
      TimeArg.data]

/-! ### refusals of the merge -/

/-- **wrong_length_refused.**  A 1-D or one-column time array-like of length `k` with `k ≠ n`
    (and `k ≠ 1`: one-element array-likes are the documented scalar forms) is refused with
    `ValueError`, whatever `n_features` is. -/
theorem wrong_length_refused (n c k : Nat) (rows : List (List τ)) (d : List τ) (nf : Option Nat)
    (hk : k ≠ n) (h1 : k ≠ 1) (s : List Nat) (hs : s = [k] ∨ s = [k, 1])
    (t : TimeArg τ) (ht : t = .array s d ∨ t = .pyList s d) :
    validateTimeX (.mat n c rows) t nf true = .err (.value .length) := by
  rcases hs with rfl | rfl <;> rcases ht with rfl | rfl <;>
    simp [validateTimeX, xtErr?, TimeArg.shape, castShape, listProd, h1, timesErr?, hk]

/-- Without `cast_scalar` every length `k ≠ n` is refused (including `k = 1`). -/
theorem wrong_length_refused_no_cast (n c k : Nat) (rows : List (List τ)) (d : List τ) (nf : Option Nat)
    (hk : k ≠ n) (s : List Nat) (hs : s = [k] ∨ s = [k, 1])
    (t : TimeArg τ) (ht : t = .array s d ∨ t = .pyList s d) :
    validateTimeX (.mat n c rows) t nf false = .err (.value .length) := by
  rcases hs with rfl | rfl <;> rcases ht with rfl | rfl <;>
    simp [validateTimeX, xtErr?, TimeArg.shape, timesErr?, hk]

/-- A time array-like with more than one element that is neither 1-D nor a single column is
    refused with `ValueError` as well. -/
theorem wrong_time_shape_refused (n c : Nat) (rows : List (List τ)) (d : List τ) (nf : Option Nat)
    (s : List Nat) (h1 : listProd s ≠ 1) (hs : ∀ k, s ≠ [k] ∧ s ≠ [k, 1])
    (t : TimeArg τ) (ht : t = .array s d ∨ t = .pyList s d) (cast : Bool) :
    ∃ k, validateTimeX (.mat n c rows) t nf cast = .err (.value k) := by
  have key : ∃ k, timesErr? n (.arr s) = some (.value k) := by
    match s, hs with
    | [], _ => exact ⟨_, rfl⟩
    | [k], hs => exact absurd rfl (hs k).1
    | [k, c'], hs =>
      by_cases hc : c' = 1
      · subst hc; exact absurd rfl (hs k).2
      · exact ⟨.timesCols, by simp [timesErr?, hc]⟩
    | _ :: _ :: _ :: _, _ => exact ⟨_, rfl⟩
  obtain ⟨k, hk⟩ := key
  refine ⟨k, ?_⟩
  rcases ht with rfl | rfl <;> cases cast <;>
    simp [validateTimeX, xtErr?, TimeArg.shape, castShape, h1, hk]

/-- Whatever `validate_time_x(…, n_features=nf)` accepts has exactly `nf` columns and the rows of `x`. -/
theorem accepted_has_nfeatures (x : XArg τ) (t : TimeArg τ) (nf : Nat) (cast : Bool) (M : Merged τ)
    (h : validateTimeX x t (some nf) cast = .ok M) :
    M.c = nf ∧ ((∃ n c rows, x = .mat n c rows ∧ M.n = n ∧ (M.c = c ∨ M.c = c + 1)) ∨
      (∃ data, x = .vec data ∧ t.shape.isNone = false ∧ M.n = data.length ∧ M.c = 2)) := by
  unfold validateTimeX at h
  split at h
  · cases h
  · rename_i hno
    injection h with h
    subst h
    cases x with
    | none => simp [xtErr?] at hno
    | pyScalar => simp [xtErr?] at hno
    | other k => simp [xtErr?] at hno
    | mat n c rows =>
      simp only [xtErr?] at hno
      split at hno
      · cases hno
      · simp only [featErr?] at hno
        by_cases hn : t.shape.isNone = true
        · simp only [hn, if_true, Bool.not_true] at hno
          have hc : c = nf := by
            by_contra hne
            simp [hne] at hno
            split at hno <;> cases hno
          refine ⟨by simp [mergedVal, hn, hc], Or.inl ⟨n, c, rows, rfl, by simp [mergedVal, hn], by simp [mergedVal, hn]⟩⟩
        · have hn' : t.shape.isNone = false := by simpa using hn
          simp only [hn', Bool.false_eq_true, if_false, Bool.not_false] at hno
          have hc : c + 1 = nf := by
            by_contra hne
            simp [hne] at hno
          refine ⟨by simp [mergedVal, hn', hc], Or.inl ⟨n, c, rows, rfl, by simp [mergedVal, hn'], by simp [mergedVal, hn']⟩⟩
    | vec data =>
      simp only [xtErr?] at hno
      by_cases hn : t.shape.isNone = true
      · simp [hn] at hno
      · have hn' : t.shape.isNone = false := by simpa using hn
        simp only [hn', Bool.false_eq_true, if_false] at hno
        split at hno
        · cases hno
        · simp only [featErr?] at hno
          have hc : 2 = nf := by
            by_contra hne
            simp [hne] at hno
          refine ⟨by simp [mergedVal, hn', hc], Or.inr ⟨data, rfl, hn', by simp [mergedVal, hn'], by simp [mergedVal, hn']⟩⟩

/-- A rank-1 `x` (one value per cell) is single-feature data when the time is given separately — it is validated and merged
    exactly like its column form — and is refused (the time column cannot be told from a feature) when it is not. -/
theorem vec_is_column_with_times (data : List τ) (t : TimeArg τ) (nf : Option Nat) (cast : Bool)
    (ht : t.shape.isNone = false) :
    validateTimeX (.vec data) t nf cast
      = validateTimeX (.mat data.length 1 (data.map fun v => [v])) t nf cast := by
  simp [validateTimeX, xtErr?, mergedVal, ht]

theorem vec_without_times_refused (data : List τ) (nf : Option Nat) (cast : Bool) :
    validateTimeX (.vec data) (.none : TimeArg τ) nf cast = .err (.value .xNdim) := by
  simp [validateTimeX, xtErr?, TimeArg.shape, TShape.isNone]

/-- **wrong_features_refused.**  `x` with a number of columns other than `f` (together with a valid
    time argument), other than `f + 1` (without one), or of a rank other than 2 is refused with `ValueError`. -/
theorem wrong_features_refused (n c f : Nat) (rows : List (List τ)) :
    (∀ ts t, Denotes n ts t → c ≠ f →
        ∃ k, validateTimeX (.mat n c rows) t (some (f + 1)) true = .err (.value k))
    ∧ (c ≠ f + 1 → ∃ k, validateTimeX (.mat n c rows) (.none : TimeArg τ) (some (f + 1)) true = .err (.value k))
    ∧ (∀ (d : Nat) (t : TimeArg τ) nf cast, validateTimeX (.other d : XArg τ) t nf cast = .err (.value .xNdim)) := by
  refine ⟨?_, ?_, ?_⟩
  · intro ts t h hc
    refine ⟨.features, ?_⟩
    simp only [validateTimeX, xtErr?, if_true, denotes_shape_ok h, denotes_not_none h, featErr?]
    simp [hc]
  · intro hc
    by_cases h2 : c = f
    · exact ⟨.missingTime, by
        simp [validateTimeX, xtErr?, TimeArg.shape, castShape, timesErr?, TShape.isNone, featErr?, h2]⟩
    · exact ⟨.features, by
        simp [validateTimeX, xtErr?, TimeArg.shape, castShape, timesErr?, TShape.isNone, featErr?, h2, hc]⟩
  · intro d t nf cast
    simp [validateTimeX, xtErr?]

/-! ### the eight methods -/

variable {Out : Type}

/-- **all_methods_merge.**  Every one of the eight methods first performs
    `validate_time_x(x, time, n_features=self.n_input_features, cast_scalar=True)`; a refusal of the
    merge is the refusal of the call, and otherwise the family routine of the method is applied to
    exactly the merged matrix (`routineVal`, spelled out per method below). -/
theorem all_methods_merge (P : Family τ Out) (m : Meth) (fl : Flags) (x : XArg τ) (tp : TimePass τ) :
    call P m fl x tp .absent =
      match validateTimeX x tp.value (some P.nFeatures) true with
      | .err e => .err e
      | .ok M =>
        match routineErr? P m fl with
        | some e => .err e
        | none => .ok (.single (routineVal P m fl M)) := by
  have hc : (m.timeRequired && tp.isAbsent) = false := by
    simp [Meth.timeRequired]
  simp only [call, hc, Bool.false_eq_true, if_false, body, bodyErr?, validateTimeX, bodyVal]
  cases h1 : xtErr? x tp.value.shape (some P.nFeatures) true with
  | some e => simp [TOutcome.map]
  | none =>
    cases h2 : routineErr? P m fl with
    | some e => simp [TOutcome.map]
    | none => simp [TOutcome.map]

omit [IntCast τ] in
/-- What each method hands to its family: the merged matrix itself, or (gradient, hessian, log-det)
    its state columns and its time column. -/
theorem routine_of_method (P : Family τ Out) (fl : Flags) (M : Merged τ) :
    routineVal P .mean fl M = (if fl.normalize = some true then P.meanNormalized M.rows else P.mean M.rows)
    ∧ routineVal P .covariance fl M = P.covariance fl.diag M.rows
    ∧ routineVal P .meanCovariance fl M = P.meanCovariance fl.diag M.rows
    ∧ routineVal P .uncertainty fl M = P.uncertainty fl.diag M.rows
    ∧ routineVal P .timeDerivative fl M = P.timeDerivative M.rows
    ∧ routineVal P .gradient fl M = P.gradient (stateCols M.rows) (timeCol M.rows)
    ∧ routineVal P .hessian fl M = P.hessian (stateCols M.rows) (timeCol M.rows)
    ∧ routineVal P .hessianLogDet fl M = P.hessianLogDet (stateCols M.rows) (timeCol M.rows) :=
  ⟨rfl, rfl, rfl, rfl, rfl, rfl, rfl, rfl⟩

omit [IntCast τ] in
/-- `X, time = Xnew[:, :-1], Xnew[:, -1]` recovers `x` and the time column from `[x | ts]`. -/
theorem split_merged (rows : List (List τ)) (ts : List τ) (h : rows.length = ts.length) :
    stateCols (appendCol rows ts) = rows ∧ timeCol (appendCol rows ts) = ts :=
  ⟨stateCols_appendCol rows ts h, timeCol_appendCol rows ts h⟩

/-- The AD routines call `self.mean(x[None, :], t)` row by row with a 0-d time: that inner merge
    restores the row `[xᵢ | tᵢ]` of the merged matrix. -/
theorem inner_remerge (f : Nat) (r : List τ) (t : τ) :
    validateTimeX (.mat 1 f [r]) (.array [] [t]) (some (f + 1)) true = .ok ⟨1, f + 1, [r ++ [t]]⟩ := by
  simp [validateTimeX, xtErr?, TimeArg.shape, castShape, listProd, timesErr?, TShape.isNone, featErr?,
    mergedVal, timesColumn, TShape.broadcasts, TimeArg.data, appendCol]

/-- **Every method gives the same result for every calling convention**: time as a per-row
    array-like, a column vector, a list, a scalar, a one-element array-like (positional or keyword)
    — and as the trailing column of `x`. -/
theorem method_forms_agree (P : Family τ Out) (m : Meth) (fl : Flags) (n f : Nat)
    (hP : P.nFeatures = f + 1) (rows : List (List τ)) (ts : List τ) (t : TimeArg τ) (h : Denotes n ts t) :
    call P m fl (.mat n f rows) (.keyword t) .absent
        = call P m fl (.mat n (f + 1) (appendCol rows ts)) (.positional .none) .absent
    ∧ call P m fl (.mat n f rows) (.positional t) .absent
        = call P m fl (.mat n (f + 1) (appendCol rows ts)) (.positional .none) .absent := by
  have e1 := (merge_forms_agree n f rows ts t h).1
  have e2 := (merge_forms_agree n f rows ts t h).2
  constructor <;>
  · rw [all_methods_merge P m fl _ _, all_methods_merge P m fl _ _]
    simp only [TimePass.value, hP, e1, e2]

omit [IntCast τ] in
/-- **time_default_is_none** (repair of finding H3-C2).  For each of the eight methods — the four
    derivative methods included, which used to raise `TypeError: missing 1 required positional
    argument: 'time'` — leaving `time` out is the call with `time=None`, by position or by keyword,
    with or without `multi_time`; so `p.gradient(Xt)` reads the time from the last column of `Xt` and,
    by `method_forms_agree`, equals every other way of giving the same times. -/
theorem time_default_is_none [IntCast τ] (P : Family τ Out) (m : Meth) (fl : Flags) (x : XArg τ) (mt : MultiArg τ) :
    call P m fl x .absent mt = call P m fl x (.positional .none) mt
    ∧ call P m fl x .absent mt = call P m fl x (.keyword .none) mt := by
  cases mt <;> simp [call, Meth.timeRequired, TimePass.value, TimePass.isAbsent]

/-! ### multi_time -/

/-- **both_time_and_multi_refused.**  For every method, every `x` (valid or not), every flag
    setting: a `time` that is not `None` — passed by position or by keyword — together with any
    `multi_time` raises `ValueError`. -/
theorem both_time_and_multi_refused (P : Family τ Out) (m : Meth) (fl : Flags) (x : XArg τ)
    (tp : TimePass τ) (mt : MultiArg τ) (ht : tp.value.shape.isNone = false) (hm : mt ≠ .absent) :
    call P m fl x tp mt = .err (.value .bothTimeMulti) := by
  cases mt with
  | absent => exact absurd rfl hm
  | pyScalar => simp [call, ht]
  | arr0 => simp [call, ht]
  | arr rs rws => simp [call, ht]

/-- In particular for a positional and for a keyword `time` in any documented form. -/
theorem both_refused_of_denotes (P : Family τ Out) (m : Meth) (fl : Flags) (x : XArg τ) (n : Nat)
    (ts : List τ) (t : TimeArg τ) (h : Denotes n ts t) (mt : MultiArg τ) (hm : mt ≠ .absent) :
    call P m fl x (.positional t) mt = .err (.value .bothTimeMulti)
    ∧ call P m fl x (.keyword t) mt = .err (.value .bothTimeMulti) :=
  ⟨both_time_and_multi_refused P m fl x _ mt (denotes_not_none h) hm,
   both_time_and_multi_refused P m fl x _ mt (denotes_not_none h) hm⟩

/-- **multi_time_stack.**  If `p.m(x, multi_time=A)` (no `time`) returns, then it has one entry along
    axis 1 per row of `A` and entry `k` is exactly what `p.m(x, time=A[k])` returns — repeats included,
    for every method, flag setting (`diag`, `normalize`) and row shape. -/
theorem multi_time_stack (P : Family τ Out) (m : Meth) (fl : Flags) (x : XArg τ) (tp : TimePass τ)
    (htp : tp.value.shape.isNone = true) (rs : List Nat) (rws : List (List τ)) (outs : List Out)
    (h : call P m fl x tp (.arr rs rws) = .ok (.stacked outs)) :
    outs.length = rws.length ∧
    ∀ k (hk : k < rws.length) (hk' : k < outs.length),
      call P m fl x (.keyword (.array rs rws[k])) .absent = .ok (.single outs[k])
      ∧ call P m fl x (.positional (.array rs rws[k])) .absent = .ok (.single outs[k]) := by
  simp only [call, htp, Bool.not_true, Bool.false_eq_true, if_false] at h
  cases hb : bodyErr? P m fl x (.arr rs) with
  | some e => simp [hb] at h
  | none =>
    simp only [hb] at h
    injection h with h
    injection h with h
    subst h
    refine ⟨by simp, ?_⟩
    intro k hk hk'
    have hreq : (m.timeRequired && (TimePass.keyword (TimeArg.array rs rws[k])).isAbsent) = false := by
      simp [TimePass.isAbsent]
    have hreq' : (m.timeRequired && (TimePass.positional (TimeArg.array rs rws[k])).isAbsent) = false := by
      simp [TimePass.isAbsent]
    constructor <;>
      simp [call, TimePass.isAbsent, body, TimePass.value, TimeArg.shape, hb, TOutcome.map]

/-- The refusals agree too: a `multi_time` call is refused exactly as the single-time call with a
    row of the same shape is (JAX decides refusals from shapes, once, also for an empty `multi_time`). -/
theorem multi_time_refusal (P : Family τ Out) (m : Meth) (fl : Flags) (x : XArg τ) (tp : TimePass τ)
    (htp : tp.value.shape.isNone = true) (rs : List Nat) (rws : List (List τ)) (e : Err) :
    call P m fl x tp (.arr rs rws) = .err e ↔
      ∀ r : List τ, call P m fl x (.keyword (.array rs r)) .absent = .err e := by
  have h1 : call P m fl x tp (.arr rs rws) =
      (match bodyErr? P m fl x (.arr rs) with
        | some e => .err e
        | none => .ok (.stacked (rws.map fun r => bodyVal P m fl x (.array rs r)))) := by
    simp only [call, htp, Bool.not_true, Bool.false_eq_true, if_false]
    cases bodyErr? P m fl x (.arr rs) <;> rfl
  have h2 : ∀ r : List τ, call P m fl x (.keyword (.array rs r)) .absent =
      (match bodyErr? P m fl x (.arr rs) with
        | some e => .err e
        | none => .ok (.single (bodyVal P m fl x (.array rs r)))) := by
    intro r
    simp only [call, TimePass.isAbsent, Bool.and_false, Bool.false_eq_true, if_false, body, TimePass.value,
      TimeArg.shape]
    cases bodyErr? P m fl x (.arr rs) <;> rfl
  rw [h1]
  simp only [h2]
  cases hb : bodyErr? P m fl x (.arr rs) with
  | some e' => simp
  | none => simp

/-- A 1-D `multi_time = [t₀, …]` of numbers: entry `k` is what the scalar call `time = tₖ` returns
    (Python float, positional or keyword). -/
theorem multi_time_stack_scalar (P : Family τ Out) (m : Meth) (fl : Flags) (x : XArg τ)
    (ts : List τ) (outs : List Out)
    (h : call P m fl x .absent (.arr [] (ts.map fun t => [t])) = .ok (.stacked outs)) :
    outs.length = ts.length ∧
    ∀ k (hk : k < ts.length) (hk' : k < outs.length),
      call P m fl x (.keyword (.pyFloat ts[k])) .absent = .ok (.single outs[k])
      ∧ call P m fl x (.positional (.pyFloat ts[k])) .absent = .ok (.single outs[k]) := by
  obtain ⟨hl, hs⟩ := multi_time_stack P m fl x .absent rfl [] _ outs h
  refine ⟨by simpa using hl, ?_⟩
  intro k hk hk'
  have := (hs k (by simpa using hk) hk').1
  simp only [List.getElem_map] at this
  -- a Python float and a 0-d array take the same path through the merge
  have hkw : call P m fl x (.keyword (.pyFloat ts[k])) .absent
      = call P m fl x (.keyword (.array [] [ts[k]])) .absent := by
    cases x <;>
      simp [call, TimePass.isAbsent, body, bodyErr?, bodyVal, TimePass.value, TimeArg.shape, xtErr?,
        castShape, listProd, mergedVal, TShape.isNone, timesColumn, TShape.broadcasts, TimeArg.data]
  have hpos : call P m fl x (.positional (.pyFloat ts[k])) .absent
      = call P m fl x (.keyword (.array [] [ts[k]])) .absent := by
    cases x <;>
      simp [call, TimePass.isAbsent, body, bodyErr?, bodyVal, TimePass.value, TimeArg.shape, xtErr?,
        castShape, listProd, mergedVal, TShape.isNone, timesColumn, TShape.broadcasts, TimeArg.data]
  exact ⟨hkw.trans this, hpos.trans this⟩

/-! ### non-vacuity (τ = Int) -/

/-- a 2 × 1 data set, times as an `(n,)` array, a list, a column and in `x` — all merge to `[[5,7],[6,8]]` -/
example : validateTimeX (.mat 2 1 [[5], [6]]) (.array [2] [7, 8] : TimeArg Int) (some 2) true
    = .ok ⟨2, 2, [[5, 7], [6, 8]]⟩ := by decide
example : Denotes 2 [7, 8] (.pyList [2, 1] [7, 8] : TimeArg Int) := .nested _ rfl
example : Denotes 3 [4, 4, 4] (.array [1, 1] [4] : TimeArg Int) := .one [1, 1] rfl 4
example : validateTimeX (.mat 3 1 [[5], [6], [7]]) (.array [1, 1] [4] : TimeArg Int) (some 2) true
    = .ok ⟨3, 2, [[5, 4], [6, 4], [7, 4]]⟩ := by decide
example : validateTimeX (.mat 3 1 [[5], [6], [7]]) (.pyInt 4 : TimeArg Int) (some 2) true
    = .ok ⟨3, 2, [[5, 4], [6, 4], [7, 4]]⟩ := by decide
/-- wrong length, wrong features, both -/
example : validateTimeX (.mat 3 1 [[5], [6], [7]]) (.array [2] [1, 2] : TimeArg Int) (some 2) true
    = .err (.value .length) := by decide
example : validateTimeX (.mat 3 2 [[5, 0], [6, 0], [7, 0]]) (.pyInt 1 : TimeArg Int) (some 2) true
    = .err (.value .features) := by decide

/-- a family that returns the matrix it is handed -/
def echo : Family Int (List (List Int)) where
  nFeatures := 2
  nObsOk := true
  mean := id
  meanNormalized := id
  covariance := fun _ => id
  meanCovariance := fun _ => id
  uncertainty := fun _ => id
  timeDerivative := id
  gradient := fun X t => appendCol X t
  hessian := fun X t => appendCol X t
  hessianLogDet := fun X t => appendCol X t

example : call echo .mean {} (.mat 2 1 [[5], [6]]) .absent (.arr [] [[1], [2], [1]])
    = .ok (.stacked [[[5, 1], [6, 1]], [[5, 2], [6, 2]], [[5, 1], [6, 1]]]) := by decide
example : call echo .gradient {} (.mat 2 1 [[5], [6]]) (.positional (.pyInt 3)) (.arr [] [[1], [2]])
    = .err (.value .bothTimeMulti) := by decide
example : call echo .hessian {} (.mat 2 1 [[5], [6]]) (.keyword (.pyList [2] [8, 9])) .absent
    = .ok (.single [[5, 8], [6, 9]]) := by decide

end Mellon.C13
