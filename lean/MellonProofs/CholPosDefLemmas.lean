/-
  MellonProofs.CholPosDefLemmas — the model's Cholesky factorisation succeeds on every symmetric
  positive definite matrix over ℝ (all pivots are positive): helper lemmas, reusable by any
  property that needs `chol? A = some _` without assuming it.
-/
import MellonProofs.LinalgProofs
open Finset
namespace Mellon

/-- Quadratic form `xᵀ A x` over the first `n` coordinates. -/
def quadForm {n : ℕ} (A : Mat ℝ n n) (x : ℕ → ℝ) : ℝ :=
  ∑ a ∈ range n, ∑ b ∈ range n, x a * A.el a b * x b

theorem sum_range_extend {f : ℕ → ℝ} {p n : ℕ} (hpn : p ≤ n) (h0 : ∀ a, p ≤ a → a < n → f a = 0) :
    ∑ a ∈ range n, f a = ∑ a ∈ range p, f a := by
  symm
  apply Finset.sum_subset
  · intro a ha; simp only [Finset.mem_range] at ha ⊢; omega
  · intro a ha hna
    simp only [Finset.mem_range] at ha hna
    exact h0 a (by omega) ha

/-- Every Cholesky pivot of a symmetric positive definite matrix is positive. -/
theorem cholPivot_pos_of_posDef {n : ℕ} (A : Mat ℝ n n) (hs : ∀ i j, A.el i j = A.el j i)
    (hpd : ∀ x : ℕ → ℝ, (∃ i, i < n ∧ x i ≠ 0) → 0 < quadForm A x) :
    ∀ i, i < n → 0 < A.el i i - ∑ k ∈ range i, (chol A).el i k * (chol A).el i k := by
  intro i
  induction i using Nat.strong_induction_on with
  | _ i ih =>
    intro hi
    set C := chol A with hC
    -- diagonal entries of the rows above are positive square roots of their pivots
    have hdiag : ∀ j, j < i → 0 < C.el j j ∧ C.el j j * C.el j j
        = A.el j j - ∑ k ∈ range j, C.el j k * C.el j k := by
      intro j hj
      have hjn : j < n := lt_trans hj hi
      have hp := ih j hj hjn
      have hjj : C.el j j = Real.sqrt (A.el j j - ∑ k ∈ range j, C.el j k * C.el j k) := by
        rw [hC, chol_el A hjn j]; simp
      rw [hjj]
      exact ⟨Real.sqrt_pos.mpr hp, Real.mul_self_sqrt (le_of_lt hp)⟩
    have hup : ∀ a k, a < k → C.el a k = 0 := fun a k h => chol_upper_zero A h
    -- partial products reproduce A for rows ≤ i against rows < i
    have hR : ∀ a b, b ≤ a → a ≤ i → b < i → ∑ k ∈ range (b + 1), C.el a k * C.el b k = A.el a b := by
      intro a b hba hai hbi
      have han : a < n := lt_of_le_of_lt hai hi
      rw [Finset.sum_range_succ]
      rcases Nat.lt_or_eq_of_le hba with hlt | heq
      · have hbb := (hdiag b hbi).1
        have hab : C.el a b = (A.el a b - ∑ k ∈ range b, C.el a k * C.el b k) / C.el b b := by
          have h0 := chol_el A han b
          rw [if_pos hlt] at h0
          exact h0
        rw [hab]; field_simp; ring
      · subst heq
        rw [(hdiag b hbi).2]; ring
    have hfull : ∀ a b, a ≤ i → b < i → b ≤ a → ∑ k ∈ range i, C.el a k * C.el b k = A.el a b := by
      intro a b hai hbi hba
      rw [← hR a b hba hai hbi]
      symm
      apply Finset.sum_subset
      · intro k hk; simp only [Finset.mem_range] at hk ⊢; omega
      · intro k hk hnk
        simp only [Finset.mem_range] at hk hnk
        rw [hup b k (by omega)]; ring
    have hfull' : ∀ a b, a < i → b < i → ∑ k ∈ range i, C.el a k * C.el b k = A.el a b := by
      intro a b ha hb
      rcases Nat.le_total b a with h | h
      · exact hfull a b (le_of_lt ha) hb h
      · rw [hs a b, ← hfull b a (le_of_lt hb) ha h]
        apply Finset.sum_congr rfl; intro k _; ring
    -- back substitution on the leading block: C_<ᵀ w = (row i of C)
    let Ci : Mat ℝ i i := Mat.ofFn fun a k => C.el a k
    let c : Vector ℝ i := vecOfFn fun k => C.el i k
    let w := solveUpperT Ci c
    have hw : ∀ k, k < i → ∑ a ∈ range i, C.el a k * w.nth a = C.el i k := by
      intro k hk
      have hkk : Ci.el k k ≠ 0 := by
        show (Mat.ofFn (n := i) (m := i) fun a k => C.el a k).el k k ≠ 0
        rw [el_ofFn]; simp only [hk, and_self, if_true]; exact ne_of_gt (hdiag k hk).1
      have spec := solveUpperT_spec Ci c hk hkk
      have hc : c.nth k = C.el i k := by
        show (vecOfFn (n := i) fun k => C.el i k).nth k = _
        rw [nth_vecOfFn]; simp [hk]
      rw [hc] at spec
      rw [← spec]
      symm
      have e : ∑ a ∈ Ico k i, Ci.el a k * (solveUpperT Ci c).nth a = ∑ a ∈ Ico k i, C.el a k * w.nth a := by
        apply Finset.sum_congr rfl
        intro a ha
        simp only [Finset.mem_Ico] at ha
        show (Mat.ofFn (n := i) (m := i) fun a k => C.el a k).el a k * _ = _
        rw [el_ofFn]; simp only [ha.2, hk, and_self, if_true]
        rfl
      rw [e]
      apply Finset.sum_subset
      · intro a ha; simp only [Finset.mem_Ico, Finset.mem_range] at ha ⊢; omega
      · intro a ha hna
        simp only [Finset.mem_Ico, Finset.mem_range] at ha hna
        rw [hup a k (by omega)]; ring
    -- the test vector
    set x : ℕ → ℝ := fun a => if a < i then -w.nth a else if a = i then 1 else 0 with hx
    have hxi : x i = 1 := by simp [hx]
    have hxlt : ∀ a, a < i → x a = -w.nth a := by intro a ha; simp [hx, ha]
    have hxgt : ∀ a, i < a → x a = 0 := by
      intro a ha
      have h1 : ¬ a < i := by omega
      have h2 : a ≠ i := by omega
      simp [hx, h1, h2]
    have hq := hpd x ⟨i, hi, by rw [hxi]; exact one_ne_zero⟩
    -- restrict the quadratic form to the first i+1 coordinates
    have hq1 : quadForm A x = ∑ a ∈ range (i + 1), ∑ b ∈ range (i + 1), x a * A.el a b * x b := by
      unfold quadForm
      rw [sum_range_extend (p := i + 1) (by omega)
        (fun a ha _ => by
          apply Finset.sum_eq_zero; intro b _; rw [hxgt a (by omega)]; ring)]
      apply Finset.sum_congr rfl
      intro a _
      exact sum_range_extend (p := i + 1) (by omega) (fun b hb _ => by rw [hxgt b (by omega)]; ring)
    -- expand in terms of w
    have hq2 : quadForm A x
        = (∑ a ∈ range i, ∑ b ∈ range i, w.nth a * A.el a b * w.nth b)
          - (∑ a ∈ range i, w.nth a * A.el a i) - (∑ b ∈ range i, A.el i b * w.nth b) + A.el i i := by
      rw [hq1, Finset.sum_range_succ]
      have hinner : ∀ a, ∑ b ∈ range (i + 1), x a * A.el a b * x b
          = -(∑ b ∈ range i, x a * A.el a b * w.nth b) + x a * A.el a i := by
        intro a
        rw [Finset.sum_range_succ, hxi, ← Finset.sum_neg_distrib]
        congr 1
        · apply Finset.sum_congr rfl
          intro b hb; rw [hxlt b (Finset.mem_range.mp hb)]; ring
        · ring
      rw [hinner i, hxi, Finset.sum_congr rfl (fun a _ => hinner a)]
      have houter : ∑ a ∈ range i, (-(∑ b ∈ range i, x a * A.el a b * w.nth b) + x a * A.el a i)
          = (∑ a ∈ range i, ∑ b ∈ range i, w.nth a * A.el a b * w.nth b) - ∑ a ∈ range i, w.nth a * A.el a i := by
        rw [← Finset.sum_sub_distrib]
        apply Finset.sum_congr rfl
        intro a ha
        rw [hxlt a (Finset.mem_range.mp ha)]
        have : ∑ b ∈ range i, -w.nth a * A.el a b * w.nth b = -∑ b ∈ range i, w.nth a * A.el a b * w.nth b := by
          rw [← Finset.sum_neg_distrib]; apply Finset.sum_congr rfl; intro b _; ring
        rw [this]; ring
      rw [houter]
      have : ∑ b ∈ range i, 1 * A.el i b * w.nth b = ∑ b ∈ range i, A.el i b * w.nth b := by
        apply Finset.sum_congr rfl; intro b _; ring
      rw [this]; ring
    have hT2 : ∑ b ∈ range i, A.el i b * w.nth b = ∑ k ∈ range i, C.el i k * C.el i k := by
      calc ∑ b ∈ range i, A.el i b * w.nth b
          = ∑ b ∈ range i, ∑ k ∈ range i, C.el i k * (C.el b k * w.nth b) := by
            apply Finset.sum_congr rfl
            intro b hb
            rw [← hfull i b (le_refl i) (Finset.mem_range.mp hb) (le_of_lt (Finset.mem_range.mp hb)),
              Finset.sum_mul]
            apply Finset.sum_congr rfl; intro k _; ring
        _ = ∑ k ∈ range i, C.el i k * ∑ b ∈ range i, C.el b k * w.nth b := by
            rw [Finset.sum_comm]; apply Finset.sum_congr rfl; intro k _; rw [Finset.mul_sum]
        _ = ∑ k ∈ range i, C.el i k * C.el i k := by
            apply Finset.sum_congr rfl; intro k hk; rw [hw k (Finset.mem_range.mp hk)]
    have hT3 : ∑ a ∈ range i, w.nth a * A.el a i = ∑ k ∈ range i, C.el i k * C.el i k := by
      rw [← hT2]; apply Finset.sum_congr rfl; intro a _; rw [hs a i]; ring
    have hT1 : ∑ a ∈ range i, ∑ b ∈ range i, w.nth a * A.el a b * w.nth b
        = ∑ k ∈ range i, C.el i k * C.el i k := by
      calc ∑ a ∈ range i, ∑ b ∈ range i, w.nth a * A.el a b * w.nth b
          = ∑ a ∈ range i, ∑ b ∈ range i, ∑ k ∈ range i, (C.el a k * w.nth a) * (C.el b k * w.nth b) := by
            apply Finset.sum_congr rfl; intro a ha
            apply Finset.sum_congr rfl; intro b hb
            rw [← hfull' a b (Finset.mem_range.mp ha) (Finset.mem_range.mp hb), Finset.mul_sum, Finset.sum_mul]
            apply Finset.sum_congr rfl; intro k _; ring
        _ = ∑ a ∈ range i, ∑ k ∈ range i, ∑ b ∈ range i, (C.el a k * w.nth a) * (C.el b k * w.nth b) := by
            apply Finset.sum_congr rfl; intro a _; rw [Finset.sum_comm]
        _ = ∑ k ∈ range i, ∑ a ∈ range i, ∑ b ∈ range i, (C.el a k * w.nth a) * (C.el b k * w.nth b) := by
            rw [Finset.sum_comm]
        _ = ∑ k ∈ range i, (∑ a ∈ range i, C.el a k * w.nth a) * (∑ b ∈ range i, C.el b k * w.nth b) := by
            apply Finset.sum_congr rfl; intro k _; rw [Finset.sum_mul_sum]
        _ = ∑ k ∈ range i, C.el i k * C.el i k := by
            apply Finset.sum_congr rfl; intro k hk; rw [hw k (Finset.mem_range.mp hk)]
    rw [hq2, hT1, hT2, hT3] at hq
    linarith

/-- `chol?` succeeds on every symmetric positive definite matrix. -/
theorem chol?_isSome_of_posDef {n : ℕ} (A : Mat ℝ n n) (hs : ∀ i j, A.el i j = A.el j i)
    (hpd : ∀ x : ℕ → ℝ, (∃ i, i < n ∧ x i ≠ 0) → 0 < quadForm A x) :
    ∃ C, chol? A = some C := by
  refine ⟨chol A, ?_⟩
  unfold chol?
  have hall : allBelow n (fun i => decide (0 < cholPivot A (chol A) i)) = true := by
    rw [allBelow_iff]
    intro i hi
    simp only [decide_eq_true_eq, cholPivot, nsum_eq_sum]
    exact cholPivot_pos_of_posDef A hs hpd i hi
  simp only [hall, if_true]

end Mellon
