/-
  MellonProofs.ParamsLemmas — inversion lemmas for the option-resolution model (C15).
-/
import MellonModel.Params
import Mathlib.Tactic

namespace Mellon

/-! ### families -/

def GPType.isFullFamily : GPType → Prop
  | .full => True | .fullNystroem => True | _ => False
def GPType.isSparseFamily : GPType → Prop
  | .sparseCholesky => True | .sparseNystroem => True | _ => False
def GPType.isNystroem : GPType → Prop
  | .fullNystroem => True | .sparseNystroem => True | _ => False

instance (g : GPType) : Decidable g.isFullFamily := by cases g <;> unfold GPType.isFullFamily <;> infer_instance
instance (g : GPType) : Decidable g.isSparseFamily := by cases g <;> unfold GPType.isSparseFamily <;> infer_instance
instance (g : GPType) : Decidable g.isNystroem := by cases g <;> unfold GPType.isNystroem <;> infer_instance

/-! ### validators -/

theorem validateLandmarkParams_ok {nl : Nat} {lm : Option Nat} :
    validateLandmarkParams nl lm = .ok () ↔ ∀ m, lm = some m → nl = m := by
  cases lm with
  | none => simp [validateLandmarkParams]
  | some m =>
    by_cases h : nl = m <;> simp [validateLandmarkParams, h]

theorem validateGpType_ok {gp : GPType} {n nl : Nat} :
    validateGpType gp n nl = .ok () ↔
      (gp.isFullFamily → nl = 0 ∨ n ≤ nl) ∧ (gp.isSparseFamily → 0 < nl ∧ nl < n) ∧ (gp = .fixed → nl ≠ 0) := by
  cases gp <;> simp only [validateGpType, GPType.isFullFamily, GPType.isSparseFamily]
  all_goals (split_ifs <;> simp_all <;> omega)

theorem validateRankParams_ok {gp : GPType} {n nl : Nat} {rank : RankV} :
    validateRankParams gp n rank nl = .ok () ↔ (gp.isNystroem ↔ rankIndicatesFull gp n rank nl = false) := by
  cases gp <;> cases h : rankIndicatesFull _ n rank nl <;> simp [validateRankParams, h, GPType.isNystroem]

theorem validateParams_ok {rank : RankV} {gp : GPType} {n nl : Nat} {lm : Option Nat} :
    validateParams rank gp n nl lm = .ok () ↔
      (∀ m, lm = some m → nl = m) ∧
      ((gp.isFullFamily → nl = 0 ∨ n ≤ nl) ∧ (gp.isSparseFamily → 0 < nl ∧ nl < n) ∧ (gp = .fixed → nl ≠ 0)) ∧
      (gp.isNystroem ↔ rankIndicatesFull gp n rank nl = false) := by
  rw [← validateLandmarkParams_ok, ← validateGpType_ok, ← validateRankParams_ok]
  unfold validateParams
  cases h1 : validateLandmarkParams nl lm with
  | error e => simp [bind, Except.bind]
  | ok u =>
    cases h2 : validateGpType gp n nl with
    | error e => simp [bind, Except.bind]
    | ok u2 =>
      cases h3 : validateRankParams gp n rank nl with
      | error e => simp [bind, Except.bind]
      | ok u3 => simp [bind, Except.bind]

/-! ### inversion of `prepare` -/

theorem prepare_ok {c : Config} {r : Resolved} (h : prepare c = .ok r) :
    ∃ nlUser rankUser gpUser,
      initNLandmarks c.nLandmarks = .ok nlUser ∧ validateRankOpt c.rank = .ok rankUser ∧
      initGpType c.gpType = .ok gpUser ∧
      r.nl = nlUser.getD (computeNLandmarks gpUser c.n c.landmarks) ∧
      r.rank = rankUser.getD (computeRank gpUser) ∧
      r.gp = gpUser.getD (gpTypeOf r.nl (some r.rank) c.n) ∧
      validateParams r.rank r.gp c.n r.nl c.landmarks = .ok () := by
  unfold prepare at h
  cases h1 : initNLandmarks c.nLandmarks with
  | error e => rw [h1] at h; simp at h
  | ok nlUser =>
    cases h2 : validateRankOpt c.rank with
    | error e => rw [h1, h2] at h; simp at h
    | ok rankUser =>
      cases h3 : initGpType c.gpType with
      | error e => rw [h1, h2, h3] at h; simp at h
      | ok gpUser =>
        rw [h1, h2, h3] at h
        simp only [] at h
        cases h4 : validateParams (rankUser.getD (computeRank gpUser))
            (gpUser.getD (gpTypeOf (nlUser.getD (computeNLandmarks gpUser c.n c.landmarks))
              (some (rankUser.getD (computeRank gpUser))) c.n)) c.n
            (nlUser.getD (computeNLandmarks gpUser c.n c.landmarks)) c.landmarks with
        | error e => rw [h4] at h; simp at h
        | ok u =>
          rw [h4] at h
          simp only [Except.ok.injEq] at h
          subst h
          exact ⟨nlUser, rankUser, gpUser, rfl, rfl, rfl, rfl, rfl, rfl, h4⟩

/-! ### landmarks -/

theorem computeLandmarks_ok {gp : GPType} {n nl : Nat} {lm : Option Nat}
    (h : computeLandmarks gp n nl = .ok lm) :
    (nl = 0 ∧ lm = none) ∨ (1 < nl ∧ n ≤ nl ∧ gp = .fixed ∧ lm = some n) ∨
    (1 < nl ∧ n ≤ nl ∧ gp ≠ .fixed ∧ lm = none) ∨ (1 < nl ∧ nl < n ∧ lm = some nl) := by
  unfold computeLandmarks at h
  by_cases h1 : nl = 0
  · rw [if_pos h1] at h
    simp only [Except.ok.injEq] at h
    exact Or.inl ⟨h1, h.symm⟩
  · rw [if_neg h1] at h
    by_cases h2 : nl ≤ 1
    · rw [if_pos h2] at h; simp at h
    · rw [if_neg h2] at h
      by_cases h3 : nl ≥ n
      · rw [if_pos h3] at h
        by_cases h4 : gp = .fixed
        · rw [if_pos h4] at h
          simp only [Except.ok.injEq] at h
          exact Or.inr (Or.inl ⟨by omega, h3, h4, h.symm⟩)
        · rw [if_neg h4] at h
          simp only [Except.ok.injEq] at h
          exact Or.inr (Or.inr (Or.inl ⟨by omega, h3, h4, h.symm⟩))
      · rw [if_neg h3] at h
        simp only [Except.ok.injEq] at h
        exact Or.inr (Or.inr (Or.inr ⟨by omega, by omega, h.symm⟩))

theorem landmarksStep_ok {lmUser : Option Nat} {gp : GPType} {n nl : Nat} {lm : Option Nat}
    (h : landmarksStep lmUser gp n nl = .ok lm) :
    (∃ m, lmUser = some m ∧ lm = some m) ∨ (lmUser = none ∧ computeLandmarks gp n nl = .ok lm) := by
  cases lmUser with
  | some m =>
    simp only [landmarksStep, Except.ok.injEq] at h
    exact Or.inl ⟨m, rfl, h.symm⟩
  | none => exact Or.inr ⟨rfl, h⟩

/-! ### `compute_L` -/

theorem computeL_inr {gp : GPType} {n : Nat} {rank : RankV} {lm : Option Nat} {kept rows cols : Nat}
    (h : computeL gp n rank lm kept = .inr (rows, cols)) :
    rows = n ∧ validateParams rank gp n (lm.getD n) lm = .ok () ∧
    (gp = .full → cols = n) ∧
    (gp = .fullNystroem → cols = nystroemCols rank n kept) ∧
    (gp = .sparseCholesky ∨ gp = .fixed → ∃ m, lm = some m ∧ cols = m) ∧
    (gp = .sparseNystroem → ∃ m, lm = some m ∧ cols = nystroemCols rank (min m n) kept) := by
  unfold computeL at h
  simp only [] at h
  cases hv : validateParams rank gp n (lm.getD n) lm with
  | error e => rw [hv] at h; simp at h
  | ok u =>
    rw [hv] at h
    cases gp <;> cases lm <;> simp at h <;> (obtain ⟨h1, h2⟩ := h; subst h1; subst h2; simp)

theorem computeL_internal {gp : GPType} {n : Nat} {rank : RankV} {lm : Option Nat} {kept : Nat}
    (h : computeL gp n rank lm kept = .inl .internal) :
    lm = none ∧ (gp = .sparseCholesky ∨ gp = .fixed ∨ gp = .sparseNystroem) ∧
    validateParams rank gp n n none = .ok () := by
  unfold computeL at h
  simp only [] at h
  cases hv : validateParams rank gp n (lm.getD n) lm with
  | error e => rw [hv] at h; simp at h
  | ok u =>
    rw [hv] at h
    cases gp <;> cases lm <;> simp at h <;> simp_all

/-! ### inversion of `resolveDensityLike` -/

theorem resolveDensityLike_ok {c : Config} {gp : GPType} {rows cols : Nat} {cls : PredFamily}
    (h : resolveDensityLike c = .ok gp rows cols cls) :
    ∃ r lm, prepare c = .ok r ∧ 2 ≤ c.n ∧ landmarksStep c.landmarks r.gp c.n r.nl = .ok lm ∧
      computeL r.gp c.n r.rank lm c.kept = .inr (rows, cols) ∧ cols ≠ 0 ∧
      ¬ (c.withUnc = true ∧ c.opt ≠ Opt.advi) ∧ gp = r.gp ∧ cls = predictorClass r.gp lm cols := by
  unfold resolveDensityLike at h
  cases hp : prepare c with
  | error e => rw [hp] at h; simp at h
  | ok r =>
    rw [hp] at h
    simp only [] at h
    by_cases hn : c.n < 2
    · rw [if_pos hn] at h; simp at h
    · rw [if_neg hn] at h
      cases hl : landmarksStep c.landmarks r.gp c.n r.nl with
      | error e => rw [hl] at h; simp at h
      | ok lm =>
        rw [hl] at h
        simp only [] at h
        cases hc : computeL r.gp c.n r.rank lm c.kept with
        | inl o =>
          rw [hc] at h
          simp only [] at h
          -- `o` would have to be `.ok`, but computeL only yields refusals / internal on the left
          unfold computeL at hc
          simp only [] at hc
          cases hv : validateParams r.rank r.gp c.n (lm.getD c.n) lm with
          | error e => rw [hv] at hc; simp at hc; subst hc; simp at h
          | ok u =>
            rw [hv] at hc
            cases hg : r.gp <;> cases lm <;> simp [hg] at hc <;> (subst hc; simp at h)
        | inr rc =>
          obtain ⟨rows', cols'⟩ := rc
          rw [hc] at h
          simp only [] at h
          by_cases h0 : cols' = 0
          · rw [if_pos h0] at h; simp at h
          · rw [if_neg h0] at h
            by_cases hu : c.withUnc = true ∧ c.opt ≠ Opt.advi
            · rw [if_pos hu] at h; simp at h
            · rw [if_neg hu] at h
              simp only [Outcome.ok.injEq] at h
              obtain ⟨h1, h2, h3, h4⟩ := h
              subst h2; subst h3
              exact ⟨r, lm, rfl, by omega, hl, hc, h0, hu, h1.symm, h4.symm⟩

theorem resolveDensityLike_internal {c : Config} (h : resolveDensityLike c = .internal) :
    ∃ r lm, prepare c = .ok r ∧ landmarksStep c.landmarks r.gp c.n r.nl = .ok lm ∧
      computeL r.gp c.n r.rank lm c.kept = .inl .internal := by
  unfold resolveDensityLike at h
  cases hp : prepare c with
  | error e => rw [hp] at h; simp at h
  | ok r =>
    rw [hp] at h
    simp only [] at h
    by_cases hn : c.n < 2
    · rw [if_pos hn] at h; simp at h
    · rw [if_neg hn] at h
      cases hl : landmarksStep c.landmarks r.gp c.n r.nl with
      | error e => rw [hl] at h; simp at h
      | ok lm =>
        rw [hl] at h
        simp only [] at h
        cases hc : computeL r.gp c.n r.rank lm c.kept with
        | inl o =>
          rw [hc] at h
          simp only [] at h
          subst h
          exact ⟨r, lm, rfl, hl, hc⟩
        | inr rc =>
          obtain ⟨rows', cols'⟩ := rc
          rw [hc] at h
          simp only [] at h
          split_ifs at h

/-! ### dispatch on the estimator -/

theorem resolve_densityLike {c : Config} (h : c.est ≠ .function) : resolve c = resolveDensityLike c := by
  unfold resolve
  cases he : c.est <;> simp_all

theorem resolve_function {c : Config} (h : c.est = .function) : resolve c = resolveFunction c := by
  unfold resolve
  rw [h]

/-! ### Nyström column count -/

theorem nystroemCols_le (rank : RankV) (bound kept : Nat) (hb : 1 ≤ bound) :
    nystroemCols rank bound kept ≤ bound := by
  unfold nystroemCols
  cases rank with
  | int r => simp only []; split_ifs <;> omega
  | flt q => simp only []; omega

/-! ### function estimator -/

/-- The noise description fits the number of conditioning points (`n` cells without landmarks,
    `m` landmarks otherwise). -/
def NoiseFits (n : Nat) (lm : Option Nat) (withUnc : Bool) (sigma : SigmaForm) : Prop :=
  match lm, sigma with
  | none, .matN _ => False
  | none, _ => True
  | some m, .scalar => withUnc = true → m = n
  | some m, .vecN => m = n
  | some m, .matN _ => m ≠ n
  | some _, .negative => True

theorem functionPredictor_internal_iff {gp : GPType} {n : Nat} {lm : Option Nat} {u : Bool}
    {s : SigmaForm} : functionPredictor gp n lm u s = .internal ↔ ¬ NoiseFits n lm u s := by
  cases lm <;> cases s <;> simp [functionPredictor, NoiseFits]

theorem resolveFunction_internal {c : Config} (h : resolveFunction c = .internal) :
    ∃ gp lm, functionPredictor gp c.n lm c.withUnc c.sigma = .internal := by
  unfold resolveFunction at h
  cases h1 : initNLandmarks c.nLandmarks with
  | error e => rw [h1] at h; simp at h
  | ok nlU =>
    cases h2 : initGpType c.gpType with
    | error e => rw [h1, h2] at h; simp at h
    | ok gpU =>
      rw [h1, h2] at h
      simp only [] at h
      split_ifs at h
      split at h
      · simp at h
      · exact ⟨_, _, h⟩

end Mellon
