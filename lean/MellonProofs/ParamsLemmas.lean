/-
  MellonProofs.ParamsLemmas — inversion lemmas for the option-resolution model (C15).
-/
import MellonModel.Params
import Mathlib.Tactic

namespace Mellon

/-! ### families -/

def GPType.isFullFamily : GPType → Prop
  | .full => True | .fullNystroem => True | _ => False
def GPType.isSparseFamily : GPType → Prop
  | .sparseCholesky => True | .sparseNystroem => True | _ => False
def GPType.isNystroem : GPType → Prop
  | .fullNystroem => True | .sparseNystroem => True | _ => False

instance (g : GPType) : Decidable g.isFullFamily := by cases g <;> unfold GPType.isFullFamily <;> infer_instance
instance (g : GPType) : Decidable g.isSparseFamily := by cases g <;> unfold GPType.isSparseFamily <;> infer_instance
instance (g : GPType) : Decidable g.isNystroem := by cases g <;> unfold GPType.isNystroem <;> infer_instance

/-! ### validators -/

theorem validateLandmarkParams_ok {nl : Nat} {lm : Option Nat} :
    validateLandmarkParams nl lm = .ok () ↔ ∀ m, lm = some m → nl = m := by
  cases lm with
  | none => simp [validateLandmarkParams]
  | some m =>
    by_cases h : nl = m <;> simp [validateLandmarkParams, h]

theorem validateGpType_ok {gp : GPType} {n nl : Nat} :
    validateGpType gp n nl = .ok () ↔
      (gp.isFullFamily → nl = 0 ∨ n ≤ nl) ∧ (gp.isSparseFamily → 0 < nl ∧ nl < n) ∧ (gp = .fixed → nl ≠ 0) := by
  cases gp <;> simp only [validateGpType, GPType.isFullFamily, GPType.isSparseFamily]
  all_goals (split_ifs <;> simp_all <;> omega)

theorem validateRankParams_ok {gp : GPType} {n nl : Nat} {rank : RankV} :
    validateRankParams gp n rank nl = .ok () ↔
      rank.isNegative = false ∧ (gp.isNystroem ↔ rankIndicatesFull gp n rank nl = false) := by
  unfold validateRankParams
  cases hneg : rank.isNegative
  · cases gp <;> cases h : rankIndicatesFull _ n rank nl <;> simp [h, GPType.isNystroem]
  · simp

theorem validateParams_ok {rank : RankV} {gp : GPType} {n nl : Nat} {lm : Option Nat} :
    validateParams rank gp n nl lm = .ok () ↔
      (∀ m, lm = some m → nl = m ∨ (gp = .fixed ∧ m = n ∧ n < nl)) ∧
      ((gp.isFullFamily → nl = 0 ∨ n ≤ nl) ∧ (gp.isSparseFamily → 0 < nl ∧ nl < n) ∧ (gp = .fixed → nl ≠ 0)) ∧
      (rank.isNegative = false ∧ (gp.isNystroem ↔ rankIndicatesFull gp n rank nl = false)) := by
  rw [← validateGpType_ok, ← validateRankParams_ok]
  unfold validateParams
  by_cases hc : gp = .fixed ∧ lm = some n ∧ n < nl
  · rw [if_pos hc]
    have hA : ∀ m, lm = some m → nl = m ∨ (gp = .fixed ∧ m = n ∧ n < nl) := by
      intro m hm
      rw [hc.2.1] at hm
      exact Or.inr ⟨hc.1, (Option.some.inj hm).symm, hc.2.2⟩
    cases h2 : validateGpType gp n nl with
    | error e => simp [bind, Except.bind, pure, Except.pure]
    | ok u2 =>
      cases h3 : validateRankParams gp n rank nl with
      | error e => simp [bind, Except.bind, pure, Except.pure]
      | ok u3 => simpa [bind, Except.bind, pure, Except.pure] using hA
  · rw [if_neg hc]
    have hE : (∀ m, lm = some m → nl = m ∨ (gp = .fixed ∧ m = n ∧ n < nl)) ↔
        validateLandmarkParams nl lm = .ok () := by
      rw [validateLandmarkParams_ok]
      constructor
      · intro h m hm
        rcases h m hm with h | ⟨h1, h2, h3⟩
        · exact h
        · exact absurd ⟨h1, by rw [hm, h2], h3⟩ hc
      · intro h m hm; exact Or.inl (h m hm)
    rw [hE]
    cases h1 : validateLandmarkParams nl lm with
    | error e => simp [bind, Except.bind]
    | ok u =>
      cases h2 : validateGpType gp n nl with
      | error e => simp [bind, Except.bind]
      | ok u2 =>
        cases h3 : validateRankParams gp n rank nl with
        | error e => simp [bind, Except.bind]
        | ok u3 => simp [bind, Except.bind]

/-! ### inversion of `prepare` -/

theorem prepare_ok {c : Config} {r : Resolved} (h : prepare c = .ok r) :
    ∃ nlUser rankUser gpUser,
      initNLandmarks c.nLandmarks = .ok nlUser ∧ validateRankOpt c.rank = .ok rankUser ∧
      initGpType c.gpType = .ok gpUser ∧
      r.nl = nlUser.getD (computeNLandmarks gpUser c.n c.landmarks) ∧
      r.rank = rankUser.getD (computeRank gpUser) ∧
      r.gp = gpUser.getD (gpTypeOf r.nl (some r.rank) c.n) ∧
      validateParams r.rank r.gp c.n r.nl c.landmarks = .ok () := by
  unfold prepare at h
  cases h1 : initNLandmarks c.nLandmarks with
  | error e => rw [h1] at h; simp at h
  | ok nlUser =>
    cases h2 : validateRankOpt c.rank with
    | error e => rw [h1, h2] at h; simp at h
    | ok rankUser =>
      cases h3 : initGpType c.gpType with
      | error e => rw [h1, h2, h3] at h; simp at h
      | ok gpUser =>
        rw [h1, h2, h3] at h
        simp only [] at h
        cases h4 : validateParams (rankUser.getD (computeRank gpUser))
            (gpUser.getD (gpTypeOf (nlUser.getD (computeNLandmarks gpUser c.n c.landmarks))
              (some (rankUser.getD (computeRank gpUser))) c.n)) c.n
            (nlUser.getD (computeNLandmarks gpUser c.n c.landmarks)) c.landmarks with
        | error e => rw [h4] at h; split_ifs at h
        | ok u =>
          rw [h4] at h
          split_ifs at h
          simp only [Except.ok.injEq] at h
          subst h
          exact ⟨nlUser, rankUser, gpUser, rfl, rfl, rfl, rfl, rfl, rfl, h4⟩

/-! ### landmarks -/

theorem computeLandmarks_ok {gp : GPType} {n nl : Nat} {lm : Option Nat}
    (h : computeLandmarks gp n nl = .ok lm) :
    (nl = 0 ∧ lm = none) ∨ (1 < nl ∧ n ≤ nl ∧ gp = .fixed ∧ lm = some n) ∨
    (1 < nl ∧ n ≤ nl ∧ gp ≠ .fixed ∧ lm = none) ∨ (1 < nl ∧ nl < n ∧ lm = some nl) := by
  unfold computeLandmarks at h
  by_cases h1 : nl = 0
  · rw [if_pos h1] at h
    simp only [Except.ok.injEq] at h
    exact Or.inl ⟨h1, h.symm⟩
  · rw [if_neg h1] at h
    by_cases h2 : nl ≤ 1
    · rw [if_pos h2] at h; simp at h
    · rw [if_neg h2] at h
      by_cases h3 : nl ≥ n
      · rw [if_pos h3] at h
        by_cases h4 : gp = .fixed
        · rw [if_pos h4] at h
          simp only [Except.ok.injEq] at h
          exact Or.inr (Or.inl ⟨by omega, h3, h4, h.symm⟩)
        · rw [if_neg h4] at h
          simp only [Except.ok.injEq] at h
          exact Or.inr (Or.inr (Or.inl ⟨by omega, h3, h4, h.symm⟩))
      · rw [if_neg h3] at h
        simp only [Except.ok.injEq] at h
        exact Or.inr (Or.inr (Or.inr ⟨by omega, by omega, h.symm⟩))

theorem landmarksStep_ok {lmUser : Option Nat} {gp : GPType} {n nl : Nat} {lm : Option Nat}
    (h : landmarksStep lmUser gp n nl = .ok lm) :
    (∃ m, lmUser = some m ∧ lm = some m) ∨ (lmUser = none ∧ computeLandmarks gp n nl = .ok lm) := by
  cases lmUser with
  | some m =>
    simp only [landmarksStep, Except.ok.injEq] at h
    exact Or.inl ⟨m, rfl, h.symm⟩
  | none => exact Or.inr ⟨rfl, h⟩

/-! ### `compute_L` -/

theorem computeL_inr {gp : GPType} {n : Nat} {rank : RankV} {lm : Option Nat} {kept rows cols : Nat}
    (h : computeL gp n rank lm kept = .inr (rows, cols)) :
    rows = n ∧ validateParams rank gp n (lm.getD n) lm = .ok () ∧
    (gp = .full → cols = n) ∧
    (gp = .fullNystroem → cols = nystroemCols rank n kept) ∧
    (gp = .sparseCholesky ∨ gp = .fixed → ∃ m, lm = some m ∧ cols = m) ∧
    (gp = .sparseNystroem → ∃ m, lm = some m ∧ cols = nystroemCols rank (min m n) kept) := by
  unfold computeL at h
  simp only [] at h
  cases hv : validateParams rank gp n (lm.getD n) lm with
  | error e => rw [hv] at h; simp at h
  | ok u =>
    rw [hv] at h
    cases gp <;> cases lm <;> simp at h <;> (obtain ⟨h1, h2⟩ := h; subst h1; subst h2; simp)

theorem computeL_internal {gp : GPType} {n : Nat} {rank : RankV} {lm : Option Nat} {kept : Nat}
    (h : computeL gp n rank lm kept = .inl .internal) :
    lm = none ∧ (gp = .sparseCholesky ∨ gp = .fixed ∨ gp = .sparseNystroem) ∧
    validateParams rank gp n n none = .ok () := by
  unfold computeL at h
  simp only [] at h
  cases hv : validateParams rank gp n (lm.getD n) lm with
  | error e => rw [hv] at h; simp at h
  | ok u =>
    rw [hv] at h
    cases gp <;> cases lm <;> simp at h <;> simp_all

/-! ### inversion of `resolveDensityLike` -/

theorem resolveDensityLike_ok {c : Config} {gp : GPType} {rows cols : Nat} {cls : PredFamily}
    (h : resolveDensityLike c = .ok gp rows cols cls) :
    ∃ r lm, prepare c = .ok r ∧ 2 ≤ c.n ∧ landmarksStep c.landmarks r.gp c.n r.nl = .ok lm ∧
      computeL r.gp c.n r.rank lm c.kept = .inr (rows, cols) ∧ cols ≠ 0 ∧
      ¬ (c.withUnc = true ∧ c.opt ≠ Opt.advi) ∧ gp = r.gp ∧ cls = predictorClass r.gp lm cols := by
  unfold resolveDensityLike at h
  cases hp : prepare c with
  | error e => rw [hp] at h; simp at h
  | ok r =>
    rw [hp] at h
    simp only [] at h
    by_cases hn : c.n < 2
    · rw [if_pos hn] at h; simp at h
    · rw [if_neg hn] at h
      cases hl : landmarksStep c.landmarks r.gp c.n r.nl with
      | error e => rw [hl] at h; simp at h
      | ok lm =>
        rw [hl] at h
        simp only [] at h
        cases hc : computeL r.gp c.n r.rank lm c.kept with
        | inl o =>
          rw [hc] at h
          simp only [] at h
          -- `o` would have to be `.ok`, but computeL only yields refusals / internal on the left
          unfold computeL at hc
          simp only [] at hc
          cases hv : validateParams r.rank r.gp c.n (lm.getD c.n) lm with
          | error e => rw [hv] at hc; simp at hc; subst hc; simp at h
          | ok u =>
            rw [hv] at hc
            cases hg : r.gp <;> cases lm <;> simp [hg] at hc <;> (subst hc; simp at h)
        | inr rc =>
          obtain ⟨rows', cols'⟩ := rc
          rw [hc] at h
          simp only [] at h
          by_cases h0 : cols' = 0
          · rw [if_pos h0] at h; simp at h
          · rw [if_neg h0] at h
            by_cases hu : c.withUnc = true ∧ c.opt ≠ Opt.advi
            · rw [if_pos hu] at h; simp at h
            · rw [if_neg hu] at h
              simp only [Outcome.ok.injEq] at h
              obtain ⟨h1, h2, h3, h4⟩ := h
              subst h2; subst h3
              exact ⟨r, lm, rfl, by omega, hl, hc, h0, hu, h1.symm, h4.symm⟩

theorem resolveDensityLike_internal {c : Config} (h : resolveDensityLike c = .internal) :
    ∃ r lm, prepare c = .ok r ∧ landmarksStep c.landmarks r.gp c.n r.nl = .ok lm ∧
      computeL r.gp c.n r.rank lm c.kept = .inl .internal := by
  unfold resolveDensityLike at h
  cases hp : prepare c with
  | error e => rw [hp] at h; simp at h
  | ok r =>
    rw [hp] at h
    simp only [] at h
    by_cases hn : c.n < 2
    · rw [if_pos hn] at h; simp at h
    · rw [if_neg hn] at h
      cases hl : landmarksStep c.landmarks r.gp c.n r.nl with
      | error e => rw [hl] at h; simp at h
      | ok lm =>
        rw [hl] at h
        simp only [] at h
        cases hc : computeL r.gp c.n r.rank lm c.kept with
        | inl o =>
          rw [hc] at h
          simp only [] at h
          subst h
          exact ⟨r, lm, rfl, hl, hc⟩
        | inr rc =>
          obtain ⟨rows', cols'⟩ := rc
          rw [hc] at h
          simp only [] at h
          split_ifs at h

/-! ### the inducing points of the sparse and fixed types -/

/-- For a validated sparse or fixed type the landmark step always yields landmarks: the ones given,
    else all `n` cells (`fixed` with `n_landmarks ≥ n`), else `n_landmarks` k-means centres. -/
theorem inducing_points {c : Config} {r : Resolved} (hp : prepare c = .ok r) {lm : Option Nat}
    (hl : landmarksStep c.landmarks r.gp c.n r.nl = .ok lm)
    (hg : r.gp.isSparseFamily ∨ r.gp = .fixed) :
    lm = some (c.landmarks.getD (if c.n ≤ r.nl then c.n else r.nl)) ∧
    (r.gp.isSparseFamily → lm = some r.nl) ∧ 0 < r.nl := by
  obtain ⟨_, _, _, _, _, _, _, _, _, hv⟩ := prepare_ok hp
  rw [validateParams_ok] at hv
  obtain ⟨hlm, ⟨_, hsp, hfx⟩, _⟩ := hv
  have hpos : 0 < r.nl := by
    rcases hg with hg | hg
    · exact (hsp hg).1
    · exact Nat.pos_of_ne_zero (hfx hg)
  have hlt : r.gp.isSparseFamily → r.nl < c.n := fun h => (hsp h).2
  have hnf : r.gp.isSparseFamily → r.gp ≠ .fixed := by
    intro h hf; rw [hf] at h; exact h
  rcases landmarksStep_ok hl with ⟨m', hu, hm'⟩ | ⟨hu, hcl⟩
  · refine ⟨by rw [hm', hu]; rfl, fun hs => ?_, hpos⟩
    rcases hlm m' hu with this | ⟨hfx', _, _⟩
    · rw [hm', this]
    · exact absurd hfx' (hnf hs)
  · rw [hu]
    simp only [Option.getD_none]
    rcases computeLandmarks_ok hcl with ⟨h0, _⟩ | ⟨_, h2, hfix, hn'⟩ | ⟨_, h2, hnfix, _⟩ | ⟨_, h2, hn'⟩
    · omega
    · refine ⟨by rw [hn', if_pos h2], fun hs => absurd hfix (hnf hs), hpos⟩
    · rcases hg with hg | hg
      · have := hlt hg; omega
      · exact absurd hg hnfix
    · refine ⟨by rw [hn', if_neg (by omega)], fun _ => hn', hpos⟩

/-! ### dispatch on the estimator -/

theorem resolve_densityLike {c : Config} (h : c.est ≠ .function) : resolve c = resolveDensityLike c := by
  unfold resolve
  cases he : c.est <;> simp_all

theorem resolve_function {c : Config} (h : c.est = .function) : resolve c = resolveFunction c := by
  unfold resolve
  rw [h]

/-! ### Nyström column count -/

theorem nystroemCols_le (rank : RankV) (bound kept : Nat) (hb : 1 ≤ bound) :
    nystroemCols rank bound kept ≤ bound := by
  unfold nystroemCols
  cases rank with
  | int r => simp only []; split_ifs <;> omega
  | flt q => simp only []; omega

/-! ### function estimator -/

theorem functionPredictor_ne_internal (gp : GPType) (n : Nat) (lm : Option Nat) (s : SigmaForm) :
    functionPredictor gp n lm s ≠ .internal := by
  unfold functionPredictor
  split_ifs
  · simp
  · cases lm <;> simp

theorem functionPredictor_ok {gp gp' : GPType} {n rows cols : Nat} {lm : Option Nat} {s : SigmaForm}
    {cls : PredFamily} (h : functionPredictor gp n lm s = .ok gp' rows cols cls) :
    gp' = gp ∧ rows = n ∧ cls = (if gp = .full ∨ gp = .fullNystroem then PredFamily.full
        else if lm.isSome = true then PredFamily.landmarks else PredFamily.full) ∧
    cols = (if gp = .full ∨ gp = .fullNystroem then n else lm.getD n) := by
  unfold functionPredictor at h
  by_cases hg : gp = .full ∨ gp = .fullNystroem
  · rw [if_pos hg] at h
    simp only [Outcome.ok.injEq] at h
    obtain ⟨h1, h2, h3, h4⟩ := h
    simp [hg, h1.symm, h2.symm, h3.symm, h4.symm]
  · rw [if_neg hg] at h
    cases lm with
    | none =>
      simp only [Outcome.ok.injEq] at h
      obtain ⟨h1, h2, h3, h4⟩ := h
      simp [hg, h1.symm, h2.symm, h3.symm, h4.symm]
    | some m =>
      simp only [Outcome.ok.injEq] at h
      obtain ⟨h1, h2, h3, h4⟩ := h
      simp [hg, h1.symm, h2.symm, h3.symm, h4.symm]

theorem effConfig_function {c : Config} (h : c.est = .function) :
    effConfig c = { c with rank := .flt 1 } := by
  unfold effConfig; rw [if_pos h]

theorem effConfig_other {c : Config} (h : c.est ≠ .function) : effConfig c = c := by
  unfold effConfig; rw [if_neg h]

theorem effConfig_n (c : Config) : (effConfig c).n = c.n := by
  unfold effConfig; split_ifs <;> rfl

theorem effConfig_landmarks (c : Config) : (effConfig c).landmarks = c.landmarks := by
  unfold effConfig; split_ifs <;> rfl

theorem effConfig_gpType (c : Config) : (effConfig c).gpType = c.gpType := by
  unfold effConfig; split_ifs <;> rfl

theorem effConfig_nLandmarks (c : Config) : (effConfig c).nLandmarks = c.nLandmarks := by
  unfold effConfig; split_ifs <;> rfl

theorem resolveFunction_ne_internal (c : Config) : resolveFunction c ≠ .internal := by
  unfold resolveFunction
  cases h1 : initNLandmarks c.nLandmarks with
  | error e => simp
  | ok nlU =>
    cases h2 : initGpType c.gpType with
    | error e => simp
    | ok gpU =>
      simp only []
      by_cases hs : c.sigma = .negative ∨ c.sigma.isMat = true
      · rw [if_pos hs]; simp
      · rw [if_neg hs]
        by_cases hn : gpU = some .fullNystroem ∨ gpU = some .sparseNystroem
        · rw [if_pos hn]; simp
        · rw [if_neg hn]
          cases hp : prepare { c with rank := .flt 1 } with
          | error e => simp
          | ok r =>
            simp only []
            by_cases h2n : c.n < 2
            · rw [if_pos h2n]; simp
            · rw [if_neg h2n]
              cases hl : landmarksStep c.landmarks r.gp c.n r.nl with
              | error e => simp
              | ok lm =>
                simp only []
                split_ifs
                · simp
                · exact functionPredictor_ne_internal _ _ _ _

theorem resolveFunction_ok {c : Config} {gp : GPType} {rows cols : Nat} {cls : PredFamily}
    (h : resolveFunction c = .ok gp rows cols cls) :
    ∃ r lm, prepare { c with rank := .flt 1 } = .ok r ∧ 2 ≤ c.n ∧
      landmarksStep c.landmarks r.gp c.n r.nl = .ok lm ∧
      functionPredictor r.gp c.n lm c.sigma = .ok gp rows cols cls ∧
      ¬ r.gp.isNystroem ∧ c.sigma.wrongLength c.n = false := by
  unfold resolveFunction at h
  cases h1 : initNLandmarks c.nLandmarks with
  | error e => rw [h1] at h; simp at h
  | ok nlU =>
    cases h2 : initGpType c.gpType with
    | error e => rw [h1, h2] at h; simp at h
    | ok gpU =>
      rw [h1, h2] at h
      simp only [] at h
      by_cases hs : c.sigma = .negative ∨ c.sigma.isMat = true
      · rw [if_pos hs] at h; simp at h
      · rw [if_neg hs] at h
        by_cases hn : gpU = some .fullNystroem ∨ gpU = some .sparseNystroem
        · rw [if_pos hn] at h; simp at h
        · rw [if_neg hn] at h
          cases hp : prepare { c with rank := .flt 1 } with
          | error e => rw [hp] at h; simp at h
          | ok r =>
            rw [hp] at h
            simp only [] at h
            by_cases h2n : c.n < 2
            · rw [if_pos h2n] at h; simp at h
            · rw [if_neg h2n] at h
              cases hl : landmarksStep c.landmarks r.gp c.n r.nl with
              | error e => rw [hl] at h; simp at h
              | ok lm =>
                rw [hl] at h
                simp only [] at h
                by_cases hw : c.sigma.wrongLength c.n = true
                · rw [if_pos hw] at h; simp at h
                rw [if_neg hw] at h
                refine ⟨r, lm, rfl, by omega, hl, h, ?_, by simpa using hw⟩
                -- rank 1.0 indicates full rank, so a validated type is not a Nyström type
                obtain ⟨_, rkU, _, _, hro, _, _, hrk, _, hv⟩ := prepare_ok hp
                rw [validateParams_ok] at hv
                intro hN
                have hf := hv.2.2.2.mp hN
                have hr1 : r.rank = .flt 1 := by
                  rw [hrk]
                  simp only [validateRankOpt, Except.ok.injEq] at hro
                  subst hro
                  rfl
                rw [hr1] at hf
                simp [rankIndicatesFull] at hf

end Mellon
