/-
  MellonProofs.SerialLemmas — helper lemmas for C19 / C07: lists, `nest`/`parseNested`, the
  JSON-like fragment, the value round trip `deserialize (normF f (makeSerializable v))`.
-/
import MellonModel.Serial

namespace Mellon

/-! ### the mutual list helpers are maps -/

theorem normFL_eq_map (f : UInt64 → UInt64) (xs : List PyVal) : PyVal.normFL f xs = xs.map (PyVal.normF f) := by
  induction xs with
  | nil => rfl
  | cons x xs ih => simp [PyVal.normFL, ih]

theorem makeSerializableL_eq_map (xs : List PyVal) : makeSerializableL xs = xs.map makeSerializable := by
  induction xs with
  | nil => rfl
  | cons x xs ih => simp [makeSerializableL, ih]

theorem normFL_length (f : UInt64 → UInt64) (xs : List PyVal) : (PyVal.normFL f xs).length = xs.length := by
  simp [normFL_eq_map]

/-! ### duplicate-free lists are fixed by set construction -/

theorem dedupPy_of_nodup : ∀ xs : List PyVal, nodupPy xs = true → dedupPy xs = xs
  | [], _ => rfl
  | x :: xs, h => by
    simp only [nodupPy, Bool.and_eq_true] at h
    simp only [dedupPy, dedupPy_of_nodup xs h.2]
    congr 1
    rw [List.filter_eq_self]
    intro y hy
    exact (List.all_eq_true.mp h.1) y hy

/-! ### chunks -/

theorem chunk_length {β : Type} (n k : Nat) (xs : List β) : (chunk n k xs).length = n := by
  induction n generalizing xs with
  | zero => rfl
  | succ n ih => simp [chunk, ih]

theorem chunk_flatten {β : Type} : ∀ (n k : Nat) (xs : List β), xs.length = n * k → (chunk n k xs).flatten = xs
  | 0, k, xs, h => by
    have : xs = [] := List.length_eq_zero_iff.mp (by simpa using h)
    simp [chunk, this]
  | n+1, k, xs, h => by
    have hd : (xs.drop k).length = n * k := by
      rw [List.length_drop, h, Nat.succ_mul]; omega
    simp only [chunk, List.flatten_cons, chunk_flatten n k (xs.drop k) hd, List.take_append_drop]

theorem chunk_mem_length {β : Type} : ∀ (n k : Nat) (xs : List β), xs.length = n * k →
    ∀ c ∈ chunk n k xs, c.length = k
  | 0, _, _, _, c, hc => by simp [chunk] at hc
  | n+1, k, xs, h, c, hc => by
    have hd : (xs.drop k).length = n * k := by
      rw [List.length_drop, h, Nat.succ_mul]; omega
    simp only [chunk, List.mem_cons] at hc
    rcases hc with rfl | hc
    · rw [List.length_take, h, Nat.succ_mul]; omega
    · exact chunk_mem_length n k (xs.drop k) hd c hc

theorem chunk_map {β γ : Type} (g : β → γ) : ∀ (n k : Nat) (xs : List β),
    chunk n k (xs.map g) = (chunk n k xs).map (List.map g)
  | 0, _, _ => rfl
  | n+1, k, xs => by
    have ih := chunk_map g n k (xs.drop k)
    simp only [chunk, List.map_cons]
    rw [← ih]
    simp [List.map_take, List.map_drop]

/-! ### `tolist` then `jnp.array` -/

/-- The shape `jnp.array` infers from `x.tolist()`: everything after the first zero extent is lost. -/
def inferShape : List Nat → List Nat
  | [] => []
  | n :: rest => if n = 0 then [0] else n :: inferShape rest

theorem parseNested_toPy (x : Scalar) : parseNested x.toPy = some ([], [x]) := by
  cases x <;> rfl

theorem parseNestedL_chunks (rest : List Nat)
    (ih : ∀ c : List Scalar, c.length = prodL rest → parseNested (nest rest c) = some (inferShape rest, c)) :
    ∀ cs : List (List Scalar), (∀ c ∈ cs, c.length = prodL rest) →
      parseNestedL (cs.map (nest rest))
        = some (if cs = [] then Option.none else some (inferShape rest), cs.length, cs.flatten)
  | [], _ => rfl
  | c :: cs, h => by
    have hc := ih c (h c (by simp))
    have hcs := parseNestedL_chunks rest ih cs (fun c' hc' => h c' (by simp [hc']))
    simp only [List.map_cons, parseNestedL, hc, hcs]
    by_cases hnil : cs = []
    · subst hnil; simp
    · simp [hnil]

theorem parseNested_nest : ∀ (sh : List Nat) (d : List Scalar), d.length = prodL sh →
    parseNested (nest sh d) = some (inferShape sh, d)
  | [], d, h => by
    match d, h with
    | [x], _ => simp [nest, parseNested_toPy, inferShape]
  | n :: rest, d, h => by
    have hlen : d.length = n * prodL rest := by simpa [prodL] using h
    have key := parseNestedL_chunks rest (parseNested_nest rest) (chunk n (prodL rest) d)
      (chunk_mem_length n (prodL rest) d hlen)
    simp only [nest, parseNested, key, chunk_flatten n (prodL rest) d hlen, chunk_length]
    by_cases hn : n = 0
    · subst hn
      have : d = [] := List.length_eq_zero_iff.mp (by simpa using hlen)
      simp [chunk, inferShape, this]
    · have hne : chunk n (prodL rest) d ≠ [] := by
        intro e
        have := chunk_length n (prodL rest) d
        rw [e] at this
        exact hn (by simpa using this.symm)
      simp [hne, inferShape, hn]

theorem normF_toPy (f : UInt64 → UInt64) (x : Scalar) : PyVal.normF f x.toPy = (x.mapF f).toPy := by
  cases x <;> rfl

theorem normF_nest (f : UInt64 → UInt64) : ∀ (sh : List Nat) (d : List Scalar),
    PyVal.normF f (nest sh d) = nest sh (d.map (Scalar.mapF f))
  | [], d => by
    cases d with
    | nil => rfl
    | cons x xs => simp [nest, normF_toPy]
  | n :: rest, d => by
    simp only [nest, PyVal.normF, normFL_eq_map, List.map_map, chunk_map]
    congr 1
    apply List.map_congr_left
    intro c _
    exact normF_nest f rest c

/-! ### the JSON-like fragment: what `json.dumps` accepts and what the text gives back -/

mutual
/-- None, bool, int, float, str, lists and string-keyed dicts of such. -/
def PyVal.jsonLike : PyVal → Bool
  | .none | .bool _ | .int _ | .float _ | .str _ => true
  | .list xs => PyVal.jsonLikeL xs
  | .dict kvs => PyVal.jsonLikeK kvs
  | _ => false
def PyVal.jsonLikeL : List PyVal → Bool
  | [] => true
  | x :: xs => PyVal.jsonLike x && PyVal.jsonLikeL xs
def PyVal.jsonLikeK : List (String × PyVal) → Bool
  | [] => true
  | (_, v) :: r => PyVal.jsonLike v && PyVal.jsonLikeK r
end

mutual
theorem toJson_jsonLike : ∀ v : PyVal, v.jsonLike = true →
    ∃ j, toJson v = .ok j ∧ ofJson (jsonCanon j) = PyVal.norm v
  | .none, _ => ⟨.null, rfl, rfl⟩
  | .bool b, _ => ⟨.bool b, rfl, rfl⟩
  | .int i, _ => ⟨.int i, rfl, rfl⟩
  | .float b, _ => ⟨.float b, rfl, rfl⟩
  | .str s, _ => ⟨.str s, rfl, rfl⟩
  | .list xs, h => by
    obtain ⟨js, h1, h2⟩ := toJsonL_jsonLike xs (by simpa [PyVal.jsonLike] using h)
    exact ⟨.arr js, by simp [toJson, h1, Except.map], by simp [jsonCanon, ofJson, h2, PyVal.norm, PyVal.normF]⟩
  | .dict kvs, h => by
    obtain ⟨js, h1, h2⟩ := toJsonK_jsonLike kvs (by simpa [PyVal.jsonLike] using h)
    exact ⟨.obj js, by simp [toJson, h1, Except.map], by simp [jsonCanon, ofJson, h2, PyVal.norm, PyVal.normF]⟩
theorem toJsonL_jsonLike : ∀ xs : List PyVal, PyVal.jsonLikeL xs = true →
    ∃ js, toJsonL xs = .ok js ∧ ofJsonL (jsonCanonL js) = PyVal.normFL canonNaN xs
  | [], _ => ⟨[], rfl, rfl⟩
  | x :: xs, h => by
    simp only [PyVal.jsonLikeL, Bool.and_eq_true] at h
    obtain ⟨j, h1, h2⟩ := toJson_jsonLike x h.1
    obtain ⟨js, h3, h4⟩ := toJsonL_jsonLike xs h.2
    refine ⟨j :: js, by simp [toJsonL, h1, h3], ?_⟩
    simp only [jsonCanonL, ofJsonL, PyVal.normFL, h4]
    rw [h2]
theorem toJsonK_jsonLike : ∀ kvs : List (String × PyVal), PyVal.jsonLikeK kvs = true →
    ∃ js, toJsonK kvs = .ok js ∧ ofJsonK (jsonCanonK js) = PyVal.normFK canonNaN kvs
  | [], _ => ⟨[], rfl, rfl⟩
  | (k, v) :: r, h => by
    simp only [PyVal.jsonLikeK, Bool.and_eq_true] at h
    obtain ⟨j, h1, h2⟩ := toJson_jsonLike v h.1
    obtain ⟨js, h3, h4⟩ := toJsonK_jsonLike r h.2
    refine ⟨(k, j) :: js, by simp [toJsonK, h1, h3], ?_⟩
    simp only [jsonCanonK, ofJsonK, PyVal.normFK, h4]
    rw [h2]
end

/-- Through any codec that meets the text contract, a JSON-like value comes back as its normal form. -/
theorem jsonPass_jsonLike {Text : Type} (C : JsonCodec Text) (v : PyVal) (h : v.jsonLike = true) :
    jsonPass C v = .ok v.norm := by
  obtain ⟨j, h1, h2⟩ := toJson_jsonLike v h
  simp [jsonPass, h1, C.spec, h2]

/-! ### `make_serializable` of a well-formed value is JSON-like -/

theorem jsonLike_toPy (x : Scalar) : x.toPy.jsonLike = true := by cases x <;> rfl

theorem jsonLikeL_map {β : Type} (g : β → PyVal) (h : ∀ b, (g b).jsonLike = true) :
    ∀ l : List β, PyVal.jsonLikeL (l.map g) = true
  | [] => rfl
  | b :: l => by simp [PyVal.jsonLikeL, h b, jsonLikeL_map g h l]

theorem jsonLike_nest : ∀ (sh : List Nat) (d : List Scalar), (nest sh d).jsonLike = true
  | [], [] => rfl
  | [], x :: _ => jsonLike_toPy x
  | n :: rest, d => by
    simp only [nest, PyVal.jsonLike]
    exact jsonLikeL_map (nest rest) (jsonLike_nest rest) _

theorem jsonLike_ms_atom (x : PyVal) (h : x.atom = true) : (makeSerializable x).jsonLike = true := by
  cases x <;> simp_all [PyVal.atom, makeSerializable, PyVal.jsonLike]

theorem jsonLikeL_ms_atoms : ∀ xs : List PyVal, xs.all PyVal.atom = true →
    PyVal.jsonLikeL (makeSerializableL xs) = true
  | [], _ => rfl
  | x :: xs, h => by
    simp only [List.all_cons, Bool.and_eq_true] at h
    simp [makeSerializableL, PyVal.jsonLikeL, jsonLike_ms_atom x h.1, jsonLikeL_ms_atoms xs h.2]

mutual
theorem jsonLike_ms (f : UInt64 → UInt64) : ∀ v : PyVal, v.WF f = true → (makeSerializable v).jsonLike = true
  | .none, _ | .bool _, _ | .int _, _ | .float _, _ | .str _, _ | .npInt _, _ | .npFloat _, _ | .npBool _, _ => rfl
  | .arr dt sh d, _ => by
    simp only [makeSerializable, PyVal.jsonLike, PyVal.jsonLikeK, jsonLike_nest, Bool.and_true, Bool.true_and]
    exact jsonLikeL_map (fun n : Nat => PyVal.int (Int.ofNat n)) (fun _ => rfl) sh
  | .slice a b c, h => by
    simp only [PyVal.WF, Bool.and_eq_true] at h
    simp [makeSerializable, PyVal.jsonLike, PyVal.jsonLikeK, PyVal.jsonLikeL, jsonLike_ms f a h.1.1,
      jsonLike_ms f b h.1.2, jsonLike_ms f c h.2]
  | .dict kvs, h => by
    simp only [PyVal.WF, Bool.and_eq_true] at h
    simp [makeSerializable, PyVal.jsonLike, PyVal.jsonLikeK, jsonLikeK_ms f kvs h.1]
  | .set xs, h => by
    simp only [PyVal.WF, Bool.and_eq_true] at h
    simp [makeSerializable, PyVal.jsonLike, PyVal.jsonLikeK, jsonLikeL_ms_atoms xs h.1]
  | .list xs, h => by
    simp only [PyVal.WF] at h
    simp [makeSerializable, PyVal.jsonLike, jsonLikeL_ms f xs h]
  | .tuple xs, h => by
    simp only [PyVal.WF] at h
    simp [makeSerializable, PyVal.jsonLike, jsonLikeL_ms f xs h]
  | .opaque _, h => by simp [PyVal.WF] at h
theorem jsonLikeL_ms (f : UInt64 → UInt64) : ∀ xs : List PyVal, PyVal.WFL f xs = true →
    PyVal.jsonLikeL (makeSerializableL xs) = true
  | [], _ => rfl
  | x :: xs, h => by
    simp only [PyVal.WFL, Bool.and_eq_true] at h
    simp [makeSerializableL, PyVal.jsonLikeL, jsonLike_ms f x h.1, jsonLikeL_ms f xs h.2]
theorem jsonLikeK_ms (f : UInt64 → UInt64) : ∀ kvs : List (String × PyVal), PyVal.WFK f kvs = true →
    PyVal.jsonLikeK (makeSerializableK kvs) = true
  | [], _ => rfl
  | (k, v) :: r, h => by
    simp only [PyVal.WFK, Bool.and_eq_true] at h
    simp [makeSerializableK, PyVal.jsonLikeK, jsonLike_ms f v h.1, jsonLikeK_ms f r h.2]
end

/-! ### `deserialize` undoes `make_serializable`, whatever the transport does to float bits -/

theorem natsOfPy_ints : ∀ sh : List Nat, natsOfPy (sh.map fun n : Nat => PyVal.int (n : Int)) = some sh
  | [] => rfl
  | n :: sh => by
    have ih := natsOfPy_ints sh
    have h : ¬ ((n : Int) < 0) := by omega
    simp only [List.map_cons, natsOfPy, h, if_false, ih, Option.map_some, Int.toNat_natCast]

theorem normFL_ints (f : UInt64 → UInt64) (sh : List Nat) :
    PyVal.normFL f (sh.map fun n : Nat => PyVal.int (n : Int)) = sh.map fun n : Nat => PyVal.int (n : Int) := by
  induction sh with
  | nil => rfl
  | cons n sh ih => simp only [List.map_cons, PyVal.normFL, PyVal.normF, ih]

theorem ofName_name (dt : Dtype) : Dtype.ofName? dt.name = some dt := by cases dt <;> decide

theorem dtype_mapF (f : UInt64 → UInt64) (s : Scalar) : (s.mapF f).dtype = s.dtype := by cases s <;> rfl

theorem cast_self (s : Scalar) : Scalar.cast s.dtype s = some s := by cases s <;> rfl

theorem mapM_cast_self (dt : Dtype) : ∀ d : List Scalar, d.all (fun s => s.dtype == dt) = true →
    d.mapM (Scalar.cast dt) = some d
  | [], _ => rfl
  | s :: d, h => by
    simp only [List.all_cons, Bool.and_eq_true, beq_iff_eq] at h
    have h1 : Scalar.cast dt s = some s := by rw [← h.1]; exact cast_self s
    simp [List.mapM_cons, h1, mapM_cast_self dt d h.2]

theorem all_dtype_mapF (f : UInt64 → UInt64) (dt : Dtype) (d : List Scalar)
    (h : d.all (fun s => s.dtype == dt) = true) : (d.map (Scalar.mapF f)).all (fun s => s.dtype == dt) = true := by
  simp only [List.all_map, List.all_eq_true, Function.comp] at *
  intro s hs
  simpa [dtype_mapF] using h s hs

theorem deser_ms_atom (f : UInt64 → UInt64) (x : PyVal) (h : x.atom = true) :
    deserialize (PyVal.normF f (makeSerializable x)) = .ok (PyVal.normF f x) := by
  cases x <;> simp_all [PyVal.atom, makeSerializable, PyVal.normF, deserialize, strToNone]

theorem deserL_ms_atoms (f : UInt64 → UInt64) : ∀ xs : List PyVal, xs.all PyVal.atom = true →
    deserializeL (PyVal.normFL f (makeSerializableL xs)) = .ok (PyVal.normFL f xs)
  | [], _ => rfl
  | x :: xs, h => by
    simp only [List.all_cons, Bool.and_eq_true] at h
    simp [makeSerializableL, PyVal.normFL, deserializeL, deser_ms_atom f x h.1, deserL_ms_atoms f xs h.2]

theorem hashable_normF_atom (f : UInt64 → UInt64) (x : PyVal) (h : x.atom = true) :
    (PyVal.normF f x).hashable = true := by
  cases x <;> simp_all [PyVal.atom, PyVal.normF, PyVal.hashable]

theorem hashableL_normFL_atoms (f : UInt64 → UInt64) : ∀ xs : List PyVal, xs.all PyVal.atom = true →
    PyVal.hashableL (PyVal.normFL f xs) = true
  | [], _ => rfl
  | x :: xs, h => by
    simp only [List.all_cons, Bool.and_eq_true] at h
    simp [PyVal.normFL, PyVal.hashableL, hashable_normF_atom f x h.1, hashableL_normFL_atoms f xs h.2]

mutual
/-- The core of `value_roundtrip`: for ANY action `f` of the transport on float bits. -/
theorem deser_ms (f : UInt64 → UInt64) : ∀ v : PyVal, v.WF f = true →
    deserialize (PyVal.normF f (makeSerializable v)) = .ok (PyVal.normF f v)
  | .none, _ => by simp [makeSerializable, PyVal.normF, deserialize, strToNone]
  | .bool _, _ | .int _, _ | .float _, _ | .npInt _, _ | .npFloat _, _ | .npBool _, _ => by
    simp [makeSerializable, PyVal.normF, deserialize, strToNone]
  | .str s, h => by
    have hs : s ≠ "None" := by simpa [PyVal.WF] using h
    simp [makeSerializable, PyVal.normF, deserialize, strToNone, hs]
  | .arr dt sh d, h => by
    simp only [PyVal.WF, Bool.and_eq_true, beq_iff_eq] at h
    have hlen : (d.map (Scalar.mapF f)).length = prodL sh := by simpa using h.1
    have hall := all_dtype_mapF f dt d h.2
    simp [makeSerializable, PyVal.normF, PyVal.normFK, normF_nest, normFL_ints, deserialize, deserArr, alookup,
      parseNested_nest sh _ hlen, ofName_name, mapM_cast_self dt _ hall, natsOfPy_ints, h.1]
  | .slice a b c, h => by
    simp only [PyVal.WF, Bool.and_eq_true] at h
    simp [makeSerializable, PyVal.normF, PyVal.normFK, PyVal.normFL, deserialize, alookup, deserSliceData,
      deserializeL, deser_ms f a h.1.1, deser_ms f b h.1.2, deser_ms f c h.2, Except.bind, mkSlice]
  | .dict kvs, h => by
    simp only [PyVal.WF, Bool.and_eq_true] at h
    simp [makeSerializable, PyVal.normF, PyVal.normFK, deserialize, alookup, deserDictData,
      deserK_ms f kvs h.1, Except.map]
  | .set xs, h => by
    simp only [PyVal.WF, Bool.and_eq_true] at h
    simp [makeSerializable, PyVal.normF, PyVal.normFK, deserialize, alookup, deserSetData,
      deserL_ms_atoms f xs h.1, Except.bind, mkSet, hashableL_normFL_atoms f xs h.1, dedupPy_of_nodup _ h.2]
  | .list xs, h => by
    simp only [PyVal.WF] at h
    simp [makeSerializable, PyVal.normF, deserialize, deserL_ms f xs h, Except.map]
  | .tuple xs, h => by
    simp only [PyVal.WF] at h
    simp [makeSerializable, PyVal.normF, deserialize, deserL_ms f xs h, Except.map]
  | .opaque _, h => by simp [PyVal.WF] at h
theorem deserL_ms (f : UInt64 → UInt64) : ∀ xs : List PyVal, PyVal.WFL f xs = true →
    deserializeL (PyVal.normFL f (makeSerializableL xs)) = .ok (PyVal.normFL f xs)
  | [], _ => rfl
  | x :: xs, h => by
    simp only [PyVal.WFL, Bool.and_eq_true] at h
    simp [makeSerializableL, PyVal.normFL, deserializeL, deser_ms f x h.1, deserL_ms f xs h.2]
theorem deserK_ms (f : UInt64 → UInt64) : ∀ kvs : List (String × PyVal), PyVal.WFK f kvs = true →
    deserializeK (PyVal.normFK f (makeSerializableK kvs)) = .ok (PyVal.normFK f kvs)
  | [], _ => rfl
  | (k, v) :: r, h => by
    simp only [PyVal.WFK, Bool.and_eq_true] at h
    simp [makeSerializableK, PyVal.normFK, deserializeK, deser_ms f v h.1, deserK_ms f r h.2]
end

/-! ### active dims as Python objects -/

theorem intsOfPy_ints : ∀ zs : List Int, intsOfPy (zs.map PyVal.int) = some zs
  | [] => rfl
  | z :: zs => by simp [intsOfPy, intsOfPy_ints zs]

theorem boolsOfScalars_b : ∀ bs : List Bool, boolsOfScalars (bs.map Scalar.b) = some bs
  | [] => rfl
  | b :: bs => by simp [boolsOfScalars, boolsOfScalars_b bs]

theorem WFL_ints (f : UInt64 → UInt64) : ∀ zs : List Int, PyVal.WFL f (zs.map PyVal.int) = true
  | [] => rfl
  | z :: zs => by simp [PyVal.WFL, PyVal.WF, WFL_ints f zs]

theorem normFL_intsZ (f : UInt64 → UInt64) : ∀ zs : List Int, PyVal.normFL f (zs.map PyVal.int) = zs.map PyVal.int
  | [] => rfl
  | z :: zs => by simp [PyVal.normFL, PyVal.normF, normFL_intsZ f zs]

theorem map_mapF_b (f : UInt64 → UInt64) : ∀ bs : List Bool, (bs.map Scalar.b).map (Scalar.mapF f) = bs.map Scalar.b
  | [] => rfl
  | b :: bs => by
    have ih := map_mapF_b f bs
    simp only [List.map_cons, Scalar.mapF, ih]

theorem WF_optInt (f : UInt64 → UInt64) (a : Option Int) : (optIntToPy a).WF f = true := by cases a <;> rfl

theorem normF_optInt (f : UInt64 → UInt64) (a : Option Int) : PyVal.normF f (optIntToPy a) = optIntToPy a := by
  cases a <;> rfl

theorem pyToOptInt_optInt (a : Option Int) : pyToOptInt (optIntToPy a) = some a := by cases a <;> rfl

theorem WF_adToPy (f : UInt64 → UInt64) (ad : ActiveDims) : (adToPy ad).WF f = true := by
  cases ad with
  | none => rfl
  | idx z => rfl
  | list zs => simp [adToPy, PyVal.WF, WFL_ints]
  | mask bs => simp [adToPy, PyVal.WF, prodL, Scalar.dtype]
  | slice a b c => simp [adToPy, PyVal.WF, WF_optInt]

theorem normF_adToPy (f : UInt64 → UInt64) (ad : ActiveDims) : PyVal.normF f (adToPy ad) = adToPy ad := by
  cases ad with
  | none => rfl
  | idx z => rfl
  | list zs => simp [adToPy, PyVal.normF, normFL_intsZ]
  | mask bs => simp only [adToPy, PyVal.normF, map_mapF_b]
  | slice a b c => simp [adToPy, PyVal.normF, normF_optInt]

theorem pyToAd_adToPy (ad : ActiveDims) : pyToAd (adToPy ad) = some ad := by
  cases ad with
  | none => rfl
  | idx z => rfl
  | list zs => simp [adToPy, pyToAd, intsOfPy_ints]
  | mask bs => simp [adToPy, pyToAd, boolsOfScalars_b]
  | slice a b c => simp [adToPy, pyToAd, pyToOptInt_optInt]

theorem deser_ms_ad (f : UInt64 → UInt64) (ad : ActiveDims) :
    deserialize (PyVal.normF f (makeSerializable (adToPy ad))) = .ok (adToPy ad) := by
  rw [deser_ms f _ (WF_adToPy f ad), normF_adToPy]

/-! ### kernel states -/

theorem normF_metaDict (f : UInt64 → UInt64) (m : Meta) (c mo : String) :
    PyVal.normF f (metaDict m c mo) = metaDict m c mo := by
  simp [metaDict, PyVal.normF, PyVal.normFK]

theorem isKernelState_dict_type (rest : List (String × PyVal)) :
    isKernelState (.dict (("type", .str "mellon.Covariance") :: rest)) = true := by
  simp [isKernelState, alookup]

theorem isKernelState_ms (f : UInt64 → UInt64) (c : PyVal) :
    isKernelState (PyVal.normF f (makeSerializable c)) = false := by
  cases c <;> simp [makeSerializable, PyVal.normF, PyVal.normFK, isKernelState, alookup]

theorem isKernelState_covToDict (f : UInt64 → UInt64) (m : Meta) (c : Cov PyVal) :
    isKernelState (PyVal.normF f (covToDict m c)) = true := by
  cases c <;> simp [covToDict, leafState, pairState, PyVal.normF, PyVal.normFK, isKernelState, alookup]

theorem jsonLike_metaDict (m : Meta) (c mo : String) : (metaDict m c mo).jsonLike = true := by
  simp [metaDict, PyVal.jsonLike, PyVal.jsonLikeK]

theorem jsonLike_covToDict (f : UInt64 → UInt64) (m : Meta) : ∀ c : Cov PyVal, c.paramsWF f = true →
    (covToDict m c).jsonLike = true := by
  intro c
  induction c with
  | matern32 ls ad | matern52 ls ad | expquad ls ad | exponential ls ad | linear ls ad =>
    intro h
    simp only [Cov.paramsWF] at h
    simp [covToDict, leafState, leafData, PyVal.jsonLike, PyVal.jsonLikeK, jsonLike_metaDict,
      jsonLike_ms f _ (WF_adToPy f ad), jsonLike_ms f ls h]
  | ratquad a ls ad =>
    intro h
    simp only [Cov.paramsWF, Bool.and_eq_true] at h
    simp [covToDict, leafState, leafData, PyVal.jsonLike, PyVal.jsonLikeK, jsonLike_metaDict,
      jsonLike_ms f _ (WF_adToPy f ad), jsonLike_ms f ls h.2, jsonLike_ms f a h.1]
  | add l r ad ihl ihr | mul l r ad ihl ihr =>
    intro h
    simp only [Cov.paramsWF, Bool.and_eq_true] at h
    simp [covToDict, pairState, PyVal.jsonLike, PyVal.jsonLikeK, jsonLike_metaDict,
      jsonLike_ms f _ (WF_adToPy f ad), ihl h.1, ihr h.2]
  | addC l c ad ih | mulC l c ad ih | pow l c ad ih =>
    intro h
    simp only [Cov.paramsWF, Bool.and_eq_true] at h
    simp [covToDict, pairState, PyVal.jsonLike, PyVal.jsonLikeK, jsonLike_metaDict,
      jsonLike_ms f _ (WF_adToPy f ad), ih h.1, jsonLike_ms f c h.2]

/-! Class lookup of the nine classes `to_dict` writes. -/
theorem covClass_add (mo : String) : covClass "Add" mo = .ok (.pair .add) := by simp [covClass]
theorem covClass_mul (mo : String) : covClass "Mul" mo = .ok (.pair .mul) := by simp [covClass]
theorem covClass_pow (mo : String) : covClass "Pow" mo = .ok (.pair .pow) := by simp [covClass]
theorem covClass_matern32 : covClass "Matern32" "mellon.cov" = .ok (.leaf .matern32) := by
  simp [covClass, baseCovNonKernelGlobals]
theorem covClass_matern52 : covClass "Matern52" "mellon.cov" = .ok (.leaf .matern52) := by
  simp [covClass, baseCovNonKernelGlobals]
theorem covClass_expquad : covClass "ExpQuad" "mellon.cov" = .ok (.leaf .expquad) := by
  simp [covClass, baseCovNonKernelGlobals]
theorem covClass_exponential : covClass "Exponential" "mellon.cov" = .ok (.leaf .exponential) := by
  simp [covClass, baseCovNonKernelGlobals]
theorem covClass_ratquad : covClass "RatQuad" "mellon.cov" = .ok (.leaf .ratquad) := by
  simp [covClass, baseCovNonKernelGlobals]
theorem covClass_linear : covClass "Linear" "mellon.cov" = .ok (.leaf .linear) := by
  simp [covClass, baseCovNonKernelGlobals]

set_option linter.unusedSimpArgs false in
/-- `from_dict` undoes `to_dict`, whatever the transport does to float bits. -/
theorem covFromDict_covToDict (f : UInt64 → UInt64) (m : Meta) : ∀ c : Cov PyVal, c.paramsWF f = true →
    covFromDict (PyVal.normF f (covToDict m c)) = .ok (c.mapP (PyVal.normF f)) := by
  intro c
  induction c with
  | matern32 ls ad | matern52 ls ad | expquad ls ad | exponential ls ad | linear ls ad =>
    intro h
    simp only [Cov.paramsWF] at h
    simp [covToDict, leafState, leafData, PyVal.normF, PyVal.normFK, covFromDict, isKernelState_dict_type,
      alookup, stateClass, strField, refuseMalformed, metaDict, covClass_add, covClass_mul, covClass_pow, covClass_matern32, covClass_matern52,
      covClass_expquad, covClass_exponential, covClass_ratquad, covClass_linear, leafFromState, deserializeK, deser_ms_ad, deser_ms f ls h,
      pyToAd_adToPy, Cov.mapP]
  | ratquad a ls ad =>
    intro h
    simp only [Cov.paramsWF, Bool.and_eq_true] at h
    simp [covToDict, leafState, leafData, PyVal.normF, PyVal.normFK, covFromDict, isKernelState_dict_type,
      alookup, stateClass, strField, refuseMalformed, metaDict, covClass_add, covClass_mul, covClass_pow, covClass_matern32, covClass_matern52,
      covClass_expquad, covClass_exponential, covClass_ratquad, covClass_linear, leafFromState, deserializeK, deser_ms_ad, deser_ms f ls h.2,
      deser_ms f a h.1, pyToAd_adToPy, Cov.mapP]
  | add l r ad ihl ihr | mul l r ad ihl ihr =>
    intro h
    simp only [Cov.paramsWF, Bool.and_eq_true] at h
    simp [covToDict, pairState, PyVal.normF, PyVal.normFK, covFromDict, isKernelState_dict_type,
      alookup, stateClass, strField, refuseMalformed, metaDict, covClass_add, covClass_mul, covClass_pow, covClass_matern32, covClass_matern52,
      covClass_expquad, covClass_exponential, covClass_ratquad, covClass_linear, covFromKey, covRightFromKey, isKernelState_covToDict,
      ihl h.1, ihr h.2, deserAd, deser_ms_ad, pyToAd_adToPy, buildPair, Cov.mapP, Except.map]
  | addC l c ad ih | mulC l c ad ih | pow l c ad ih =>
    intro h
    simp only [Cov.paramsWF, Bool.and_eq_true] at h
    simp [covToDict, pairState, PyVal.normF, PyVal.normFK, covFromDict, isKernelState_dict_type,
      alookup, stateClass, strField, refuseMalformed, metaDict, covClass_add, covClass_mul, covClass_pow, covClass_matern32, covClass_matern52,
      covClass_expquad, covClass_exponential, covClass_ratquad, covClass_linear, covFromKey, covRightFromKey, isKernelState_ms,
      ih h.1, deser_ms f c h.2, deserAd, deser_ms_ad, pyToAd_adToPy, buildPair, Cov.mapP, Except.map]

/-! ### further facts used by the property theorems -/

mutual
theorem normF_id_jsonLike : ∀ w : PyVal, w.jsonLike = true → PyVal.normF id w = w
  | .none, _ | .bool _, _ | .int _, _ | .float _, _ | .str _, _ => rfl
  | .list xs, h => by
    simp only [PyVal.jsonLike] at h
    simp [PyVal.normF, normFL_id_jsonLikeL xs h]
  | .dict kvs, h => by
    simp only [PyVal.jsonLike] at h
    simp [PyVal.normF, normFK_id_jsonLikeK kvs h]
theorem normFL_id_jsonLikeL : ∀ xs : List PyVal, PyVal.jsonLikeL xs = true → PyVal.normFL id xs = xs
  | [], _ => rfl
  | x :: xs, h => by
    simp only [PyVal.jsonLikeL, Bool.and_eq_true] at h
    simp [PyVal.normFL, normF_id_jsonLike x h.1, normFL_id_jsonLikeL xs h.2]
theorem normFK_id_jsonLikeK : ∀ kvs : List (String × PyVal), PyVal.jsonLikeK kvs = true → PyVal.normFK id kvs = kvs
  | [], _ => rfl
  | (k, v) :: r, h => by
    simp only [PyVal.jsonLikeK, Bool.and_eq_true] at h
    simp [PyVal.normFK, normF_id_jsonLike v h.1, normFK_id_jsonLikeK r h.2]
end

theorem canonNaN_idem (b : UInt64) : canonNaN (canonNaN b) = canonNaN b := by
  unfold canonNaN
  by_cases h : isNaNBits b = true
  · have : isNaNBits 0x7ff8000000000000 = true := by decide
    simp [h, this]
  · simp [h]

theorem mapF_canon_idem (s : Scalar) : (s.mapF canonNaN).mapF canonNaN = s.mapF canonNaN := by
  cases s <;> simp [Scalar.mapF, canonNaN_idem]

mutual
theorem norm_idem : ∀ v : PyVal, v.norm.norm = v.norm
  | .none | .bool _ | .int _ | .str _ | .npInt _ | .npBool _ | .opaque _ => rfl
  | .float b | .npFloat b => by simp [PyVal.norm, PyVal.normF, canonNaN_idem]
  | .arr dt sh d => by
    simp only [PyVal.norm, PyVal.normF, List.map_map]
    congr 1
    apply List.map_congr_left
    intro s _
    exact mapF_canon_idem s
  | .slice a b c => by
    have h1 := norm_idem a
    have h2 := norm_idem b
    have h3 := norm_idem c
    simp only [PyVal.norm] at h1 h2 h3
    simp only [PyVal.norm, PyVal.normF, h1, h2, h3]
  | .dict kvs => by
    have := normK_idem kvs
    simp only [PyVal.norm, PyVal.normF] at *
    rw [this]
  | .set xs => by
    have := normL_idem xs
    simp only [PyVal.norm, PyVal.normF] at *
    rw [this]
  | .list xs => by
    have := normL_idem xs
    simp only [PyVal.norm, PyVal.normF] at *
    rw [this]
  | .tuple xs => by
    have := normL_idem xs
    simp only [PyVal.norm, PyVal.normF] at *
    rw [this]
theorem normL_idem : ∀ xs : List PyVal, PyVal.normFL canonNaN (PyVal.normFL canonNaN xs) = PyVal.normFL canonNaN xs
  | [] => rfl
  | x :: xs => by
    have h1 := norm_idem x
    have h2 := normL_idem xs
    simp only [PyVal.norm] at h1
    simp only [PyVal.normFL, h1, h2]
theorem normK_idem : ∀ kvs : List (String × PyVal),
    PyVal.normFK canonNaN (PyVal.normFK canonNaN kvs) = PyVal.normFK canonNaN kvs
  | [] => rfl
  | (k, v) :: r => by
    have h1 := norm_idem v
    have h2 := normK_idem r
    simp only [PyVal.norm] at h1
    simp only [PyVal.normFK, h1, h2]
end

theorem mapP_mapP {α β γ : Type} (g : α → β) (h : β → γ) (c : Cov α) : (c.mapP g).mapP h = c.mapP (h ∘ g) := by
  induction c with
  | matern32 | matern52 | expquad | exponential | ratquad | linear => rfl
  | add l r ad ihl ihr | mul l r ad ihl ihr => simp [Cov.mapP, ihl, ihr]
  | addC l c ad ih | mulC l c ad ih | pow l c ad ih => simp [Cov.mapP, ih]

theorem paramsWF_covOfBits (f : UInt64 → UInt64) (c : Cov UInt64) : (covOfBits c).paramsWF f = true := by
  unfold covOfBits
  induction c with
  | matern32 | matern52 | expquad | exponential | ratquad | linear => rfl
  | add l r ad ihl ihr | mul l r ad ihl ihr => simp [Cov.mapP, Cov.paramsWF, ihl, ihr]
  | addC l c ad ih | mulC l c ad ih | pow l c ad ih => simp [Cov.mapP, Cov.paramsWF, ih, PyVal.WF]

theorem covFromKey_eq (key : String) : ∀ kvs : List (String × PyVal),
    covFromKey key kvs = match alookup key kvs with
      | some v => covFromDict v
      | Option.none => .error (.valueError "missing-field")
  | [] => rfl
  | (k, v) :: rest => by
    by_cases h : k = key
    · simp [covFromKey, alookup, h]
    · simp [covFromKey, alookup, h, covFromKey_eq key rest]

theorem covRightFromKey_none : ∀ kvs : List (String × PyVal), alookup "right_data" kvs = none →
    covRightFromKey kvs = .error (.valueError "missing-field")
  | [], _ => rfl
  | (k, v) :: rest, h => by
    by_cases hk : k = "right_data"
    · simp [alookup, hk] at h
    · simp only [alookup, hk, if_false] at h
      simp [covRightFromKey, hk, covRightFromKey_none rest h]

theorem intsOfPy_normFL (f : UInt64 → UInt64) : ∀ xs : List PyVal, intsOfPy (PyVal.normFL f xs) = intsOfPy xs
  | [] => rfl
  | x :: xs => by
    have ih := intsOfPy_normFL f xs
    cases x <;> simp [PyVal.normFL, PyVal.normF, intsOfPy, ih]

theorem boolsOfPy_normFL (f : UInt64 → UInt64) : ∀ xs : List PyVal, boolsOfPy (PyVal.normFL f xs) = boolsOfPy xs
  | [] => rfl
  | x :: xs => by
    have ih := boolsOfPy_normFL f xs
    cases x <;> simp [PyVal.normFL, PyVal.normF, boolsOfPy, ih]

theorem intsOfScalars_mapF (f : UInt64 → UInt64) : ∀ d : List Scalar,
    intsOfScalars (d.map (Scalar.mapF f)) = intsOfScalars d
  | [] => rfl
  | s :: d => by
    have ih := intsOfScalars_mapF f d
    cases s <;> simp [Scalar.mapF, intsOfScalars, ih]

theorem boolsOfScalars_mapF (f : UInt64 → UInt64) : ∀ d : List Scalar,
    boolsOfScalars (d.map (Scalar.mapF f)) = boolsOfScalars d
  | [] => rfl
  | s :: d => by
    have ih := boolsOfScalars_mapF f d
    cases s <;> simp [Scalar.mapF, boolsOfScalars, ih]

theorem pyToOptInt_normF (f : UInt64 → UInt64) (a : PyVal) : pyToOptInt (PyVal.normF f a) = pyToOptInt a := by
  cases a <;> rfl

theorem pyToAd_normF (f : UInt64 → UInt64) (p : PyVal) : pyToAd (PyVal.normF f p) = pyToAd p := by
  cases p
  case list xs => simp [PyVal.normF, pyToAd, intsOfPy_normFL, boolsOfPy_normFL]
  case tuple xs => simp [PyVal.normF, pyToAd, intsOfPy_normFL, boolsOfPy_normFL]
  case slice a b c => simp [PyVal.normF, pyToAd, pyToOptInt_normF]
  case arr dt sh d =>
    cases dt with
    | f64 => rcases sh with _ | ⟨n, _ | ⟨n2, r⟩⟩ <;> simp [PyVal.normF, pyToAd]
    | bool => rcases sh with _ | ⟨n, _ | ⟨n2, r⟩⟩ <;> simp [PyVal.normF, pyToAd, boolsOfScalars_mapF]
    | i64 =>
      rcases sh with _ | ⟨n, _ | ⟨n2, r⟩⟩
      · rcases d with _ | ⟨s, _ | ⟨s2, r⟩⟩
        · rfl
        · cases s <;> simp [PyVal.normF, pyToAd, Scalar.mapF]
        · simp [PyVal.normF, pyToAd]
      · simp [PyVal.normF, pyToAd, intsOfScalars_mapF]
      · simp [PyVal.normF, pyToAd]
  all_goals rfl

end Mellon
