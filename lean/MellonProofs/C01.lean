/-
  C01 — Out-of-sample prediction is the exact GP conditional mean.
  Property theorems only.  Everything is about the model (`MellonModel/Conditional.lean`) at α = ℝ,
  for all sizes `n m d c q`, all data, all kernel expressions, all noise forms.
-/
import MellonProofs.ConditionalLemmas
import MellonProofs.CholPosDefLemmas
import MellonProofs.SchurLemmas

open Matrix

namespace Mellon.C01
open Mellon

variable {n m d c q : Nat}

/-! ### the regularised system of the full GP -/

/-- The matrix `K + N` whose Cholesky factor `_FullConditional` computes when no factor is passed:
    `N = jitter·I` when the values are the mean, otherwise the noise of `sigma` / `y_cov_factor`
    with its diagonal floored at `jitter`. -/
noncomputable def fullSystem (cov : Cov ℝ) (x : Mat ℝ n d) (sigma : Sigma ℝ n) (jitter : ℝ)
    (ycf : Option (AnyMat ℝ)) (yIsMean : Bool) : Except CondErr (Mat ℝ n n) :=
  if yIsMean then addVariance (gram cov x x) Option.none jitter
  else
    match sigmaToYCovFactor sigma ycf with
    | .error e => .error e
    | .ok F => addVariance (gram cov x x) (some F) jitter

theorem condL_none_spec {cov : Cov ℝ} {x : Mat ℝ n d} {sigma : Sigma ℝ n} {jitter : ℝ}
    {ycf : Option (AnyMat ℝ)} {yIsMean : Bool} {L : Mat ℝ n n} {s' : Sigma ℝ n}
    {y' : Option (AnyMat ℝ)}
    (h : condL cov x Option.none sigma jitter ycf yIsMean = .ok (L, s', y')) :
    ∃ K' : Mat ℝ n n, fullSystem cov x sigma jitter ycf yIsMean = .ok K' ∧ IsCholOf L K'
      ∧ (toM K').IsSymm := by
  unfold condL at h
  simp only at h
  unfold fullSystem
  by_cases hm : yIsMean
  · simp only [hm, if_true] at h ⊢
    split at h
    · rename_i L' hL'
      have hLL : L' = L := by
        have := Except.ok.inj h; exact (Prod.mk.inj this).1
      subst hLL
      obtain ⟨K', hK', hchol⟩ := getL_spec hL'
      exact ⟨K', hK', hchol, addVariance_symm cov x jitter _ hK'⟩
    · cases h
  · simp only [hm, if_false, Bool.false_eq_true] at h ⊢
    split at h
    · cases h
    · rename_i F hF
      rw [hF]
      simp only
      split at h
      · rename_i L' hL'
        have hLL : L' = L := by
          have := Except.ok.inj h; exact (Prod.mk.inj this).1
        subst hLL
        obtain ⟨K', hK', hchol⟩ := getL_spec hL'
        exact ⟨K', hK', hchol, addVariance_symm cov x jitter _ hK'⟩
      · cases h

/-- **Full GP.** When `_FullConditional` is built without a precomputed factor, its weights solve
    the regularised normal equations `(K + N) · W = Y − mu` (one column per value column). -/
theorem full_weights_solve {cov : Cov ℝ} {x : Mat ℝ n d} {y : Mat ℝ n c} {mu : ℝ} {sigma : Sigma ℝ n}
    {jitter : ℝ} {ycf : Option (AnyMat ℝ)} {yIsMean withUnc : Bool} {s : CondState ℝ n d c}
    (h : fullCondInit cov x y mu Option.none sigma jitter ycf yIsMean withUnc = .ok s) :
    ∃ K' : Mat ℝ n n, fullSystem cov x sigma jitter ycf yIsMean = .ok K'
      ∧ toM K' * toM s.weights = toM (residual y mu)
      ∧ s.xb = x ∧ s.mu = mu ∧ s.cov = cov := by
  unfold fullCondInit at h
  split at h
  · cases h
  · rename_i L s' y' hc
    obtain ⟨K', hK', hchol, hsym⟩ := condL_none_spec hc
    have hw : toM K' * toM (choSolveM L (residual y mu)) = toM (residual y mu) :=
      choSolveM_mul hchol hsym _
    refine ⟨K', hK', ?_⟩
    simp only at h
    split at h
    · have hs := Except.ok.inj h; subst hs; exact ⟨hw, rfl, rfl, rfl⟩
    · split at h
      · cases h
      · have hs := Except.ok.inj h; subst hs; exact ⟨hw, rfl, rfl, rfl⟩

/-- With a precomputed factor `L` (lower triangular, non-zero diagonal) the weights solve
    `L Lᵀ · W = Y − mu` — the factor is used as given. -/
theorem full_weights_solve_given {cov : Cov ℝ} {x : Mat ℝ n d} {y : Mat ℝ n c} {mu : ℝ}
    {L : Mat ℝ n n} (hL : LowerNonsing L) {sigma : Sigma ℝ n} {jitter : ℝ} {ycf : Option (AnyMat ℝ)}
    {yIsMean : Bool} {s : CondState ℝ n d c}
    (h : fullCondInit cov x y mu (some L) sigma jitter ycf yIsMean false = .ok s) :
    toM L * (toM L)ᵀ * toM s.weights = toM (residual y mu) := by
  unfold fullCondInit condL at h
  simp only [Bool.not_false, if_true] at h
  have hs := Except.ok.inj h; subst hs
  simp only
  unfold choSolveM
  rw [Matrix.mul_assoc, solveUpperTM_mul hL, solveLowerM_mul hL]

/-- **Well-posed inputs are accepted.** If the regularised matrix `K + N` is positive definite
    (as it is for a positive semi-definite kernel and a positive jitter), `_FullConditional` is
    built — the `ValueError` branch ("Covariance not positively definite") is taken only when it is
    not. -/
theorem full_accepts_posdef {cov : Cov ℝ} {x : Mat ℝ n d} (y : Mat ℝ n c) (mu : ℝ) {sigma : Sigma ℝ n}
    {jitter : ℝ} {ycf : Option (AnyMat ℝ)} {yIsMean : Bool} {K' : Mat ℝ n n}
    (hK : fullSystem cov x sigma jitter ycf yIsMean = .ok K')
    (hpd : ∀ v : ℕ → ℝ, (∃ i, i < n ∧ v i ≠ 0) → 0 < quadForm K' v) :
    ∃ s, fullCondInit cov x y mu Option.none sigma jitter ycf yIsMean false = .ok s := by
  have hsymM : ∀ F, addVariance (gram cov x x) F jitter = .ok K' → ∀ i j, K'.el i j = K'.el j i := by
    intro F hF i j
    have hs := addVariance_symm cov x jitter F hF
    by_cases hi : i < n
    · by_cases hj : j < n
      · have := congrFun (congrFun hs ⟨j, hj⟩) ⟨i, hi⟩
        simpa using this
      · rw [el_of_ge_col K' i (Nat.le_of_not_lt hj), el_of_ge_row K' (Nat.le_of_not_lt hj) i]
    · rw [el_of_ge_row K' (Nat.le_of_not_lt hi) j, el_of_ge_col K' j (Nat.le_of_not_lt hi)]
  unfold fullSystem at hK
  unfold fullCondInit condL
  by_cases hm : yIsMean
  · simp only [hm, if_true] at hK ⊢
    obtain ⟨C, hC⟩ := chol?_isSome_of_posDef K' (hsymM _ hK) hpd
    simp only [getL, hK, bind, Except.bind, hC, Bool.not_false, if_true]
    exact ⟨_, rfl⟩
  · simp only [hm, if_false, Bool.false_eq_true] at hK ⊢
    split at hK
    · cases hK
    · rename_i F hF
      obtain ⟨C, hC⟩ := chol?_isSome_of_posDef K' (hsymM _ hK) hpd
      simp only [hF, getL, hK, bind, Except.bind, hC, Bool.not_false, if_true]
      exact ⟨_, rfl⟩

/-! ### noise forms -/

/-- Values are the mean: `N = jitter · I`. -/
theorem noise_mean (cov : Cov ℝ) (x : Mat ℝ n d) (sigma : Sigma ℝ n) (jitter : ℝ)
    (ycf : Option (AnyMat ℝ)) :
    ∃ K', fullSystem cov x sigma jitter ycf true = .ok K'
      ∧ toM K' = toM (gram cov x x) + jitter • (1 : Matrix (Fin n) (Fin n) ℝ) :=
  ⟨stabilize (gram cov x x) jitter, rfl, toM_stabilize _ _⟩

/-- Scalar noise level: `N = max(σ², jitter) · I` (the clamp is per diagonal entry). -/
theorem noise_scalar (cov : Cov ℝ) (x : Mat ℝ n d) (σ jitter : ℝ) :
    ∃ K', fullSystem cov x (.scalar σ) jitter Option.none false = .ok K'
      ∧ toM K' = toM (gram cov x x) + (max (σ * σ) jitter) • (1 : Matrix (Fin n) (Fin n) ℝ) := by
  unfold fullSystem
  simp only [Bool.false_eq_true, if_false, sigmaToYCovFactor, sigmaFactor]
  unfold addVariance
  simp only [ne_eq, not_true_eq_false, if_false]
  refine ⟨_, rfl, ?_⟩
  ext i k
  simp only [toM_apply, el_ofFn, i.isLt, k.isLt, and_self, if_true, Matrix.add_apply,
    Matrix.smul_apply, Matrix.one_apply, smul_eq_mul]
  by_cases hik : i = k
  · subst hik
    simp only [if_true, mul_one]
    rw [sigmaFactor_scalar_gramEl σ i i i.isLt i.isLt]
    simp only [if_true]
    by_cases hlt : σ * σ < jitter
    · simp only [hlt, if_true, max_eq_right (le_of_lt hlt)]; ring
    · simp only [hlt, if_false, max_eq_left (not_lt.mp hlt)]; ring
  · have hne : ¬ (i.val = k.val) := fun hh => hik (Fin.ext hh)
    simp only [hne, hik, if_false, mul_zero, add_zero]
    rw [sigmaFactor_scalar_gramEl σ i k i.isLt k.isLt]
    simp [hne]

/-- Zero noise (or any `σ² < jitter`): the regulariser is exactly `jitter`. -/
theorem noise_below_jitter (cov : Cov ℝ) (x : Mat ℝ n d) (σ jitter : ℝ) (h : σ * σ ≤ jitter) :
    ∃ K', fullSystem cov x (.scalar σ) jitter Option.none false = .ok K'
      ∧ toM K' = toM (gram cov x x) + jitter • (1 : Matrix (Fin n) (Fin n) ℝ) := by
  obtain ⟨K', h1, h2⟩ := noise_scalar cov x σ jitter
  exact ⟨K', h1, by rw [h2, max_eq_right h]⟩

/-- Per-cell noise vector: `N = diag(max(σᵢ², jitter))`. -/
theorem noise_vector (cov : Cov ℝ) (x : Mat ℝ n d) (σ : Vector ℝ n) (jitter : ℝ) :
    ∃ K', fullSystem cov x (.vec σ) jitter Option.none false = .ok K'
      ∧ toM K' = toM (gram cov x x)
          + Matrix.diagonal (fun i : Fin n => max (σ.nth i * σ.nth i) jitter) := by
  unfold fullSystem
  simp only [Bool.false_eq_true, if_false, sigmaToYCovFactor, sigmaFactor]
  unfold addVariance
  simp only [ne_eq, not_true_eq_false, if_false]
  refine ⟨_, rfl, ?_⟩
  ext i k
  simp only [toM_apply, el_ofFn, i.isLt, k.isLt, and_self, if_true, Matrix.add_apply,
    Matrix.diagonal_apply]
  by_cases hik : i = k
  · subst hik
    simp only [if_true]
    rw [sigmaFactor_vec_gramEl σ i i i.isLt i.isLt]
    simp only [if_true]
    by_cases hlt : σ.nth i * σ.nth i < jitter
    · simp only [hlt, if_true, max_eq_right (le_of_lt hlt)]; ring
    · simp only [hlt, if_false, max_eq_left (not_lt.mp hlt)]; ring
  · have hne : ¬ (i.val = k.val) := fun hh => hik (Fin.ext hh)
    simp only [hne, hik, if_false, add_zero]
    rw [sigmaFactor_vec_gramEl σ i k i.isLt k.isLt]
    simp [hne]

/-- Neither a noise level nor "values are the mean": refused (`ValueError`). -/
theorem noise_missing_refused (cov : Cov ℝ) (x : Mat ℝ n d) (y : Mat ℝ n c) (mu jitter : ℝ)
    (withUnc : Bool) :
    fullCondInit cov x y mu Option.none .none jitter Option.none false withUnc
      = .error .noUncertaintyInput := by
  simp [fullCondInit, condL, sigmaToYCovFactor]

/-! ### evaluation: prior mean plus cross-covariances times weights, row by row -/

/-- `predictor(x*) = mu + Σⱼ k(x*, basisⱼ) · wⱼ`. -/
theorem mean_formula (s : CondState ℝ m d c) (xq : List ℝ) (col : Nat) :
    s.mean1 xq col = s.mu + ∑ j ∈ Finset.range m, s.cov.k xq (s.xb.row j) * s.weights.el j col := by
  unfold CondState.mean1; rw [nsum_eq_sum]

/-- Row `i` of a batch prediction is the single-point prediction at row `i`. -/
theorem mean_rowwise (s : CondState ℝ m d c) (Xq : Mat ℝ q d) (i col : Nat) (hi : i < q) (hc : col < c) :
    (s.mean Xq).el i col = s.mean1 (Xq.row i) col := by
  simp [CondState.mean, hi, hc]

/-- The value of a query row does not depend on which other rows are in the batch or their order:
    equal rows in two batches (of any sizes) get equal values. -/
theorem mean_batch_independent (s : CondState ℝ m d c) {q' : Nat} (Xq : Mat ℝ q d) (Xq' : Mat ℝ q' d)
    (i i' col : Nat) (hi : i < q) (hi' : i' < q') (hc : col < c) (hrow : Xq.row i = Xq'.row i') :
    (s.mean Xq).el i col = (s.mean Xq').el i' col := by
  rw [mean_rowwise s Xq i col hi hc, mean_rowwise s Xq' i' col hi' hc, hrow]

/-! ### DTC (inducing points) -/

/-- The DTC regulariser outside the per-cell branch (`lmPerCell … = none`: a scalar sigma, an explicit factor,
    or values that are the mean): `jitter·I` when the values are the mean, otherwise the floored noise of the
    landmark-sized factor (`sigma·I_m` for a scalar sigma). -/
noncomputable def dtcNoise (m : Nat) {n : Nat} (sigma : Sigma ℝ n) (jitter : ℝ) (ycf : Option (AnyMat ℝ))
    (yIsMean : Bool) : Except CondErr (Matrix (Fin m) (Fin m) ℝ) :=
  if yIsMean then .ok (jitter • (1 : Matrix (Fin m) (Fin m) ℝ))
  else
    match sigmaToYCovFactorRows m sigma ycf with
    | .error e => .error e
    | .ok F => if F.r = m then .ok (noiseOf m F jitter) else .error .noiseShape

theorem lmLLB_spec {AAt : Mat ℝ m m} {sigma : Sigma ℝ n} {jitter : ℝ} {ycf : Option (AnyMat ℝ)}
    {yIsMean : Bool} {LLB : Mat ℝ m m}
    (h : lmLLB AAt sigma jitter ycf yIsMean = .ok LLB) :
    ∃ N, dtcNoise m sigma jitter ycf yIsMean = .ok N ∧ toM LLB = toM AAt + N ∧ N.IsSymm := by
  unfold lmLLB at h
  unfold dtcNoise
  by_cases hm : yIsMean
  · simp only [hm, if_true] at h ⊢
    have hL : LLB = stabilize AAt jitter := (Except.ok.inj h).symm
    subst hL
    exact ⟨_, rfl, toM_stabilize _ _, (Matrix.isSymm_one).smul jitter⟩
  · simp only [hm, if_false, Bool.false_eq_true] at h ⊢
    split at h
    · cases h
    · rename_i F hF
      rw [hF]
      simp only
      split at h
      · cases h
      · obtain ⟨hr, hK⟩ := addVariance_some _ F jitter h
        simp only [hr, if_true]
        exact ⟨_, rfl, hK, noiseOf_symm m F jitter⟩

/-- Scalar noise level: the DTC regulariser is `max(σ², jitter) · I_m`. -/
theorem dtc_noise_scalar (m : Nat) {n : Nat} (σ jitter : ℝ) :
    dtcNoise m (Sigma.scalar σ : Sigma ℝ n) jitter Option.none false
      = .ok ((max (σ * σ) jitter) • (1 : Matrix (Fin m) (Fin m) ℝ)) := by
  unfold dtcNoise
  simp only [Bool.false_eq_true, if_false, sigmaToYCovFactorRows, sigmaFactorRows, if_true]
  congr 1
  ext i k
  simp only [noiseOf, Matrix.smul_apply, Matrix.one_apply, smul_eq_mul]
  by_cases hik : i = k
  · subst hik
    simp only [if_true, mul_one]
    rw [sigmaFactor_scalar_gramEl σ i i i.isLt i.isLt]
    simp only [if_true]
    by_cases hlt : σ * σ < jitter
    · simp only [hlt, if_true, max_eq_right (le_of_lt hlt)]
    · simp only [hlt, if_false, max_eq_left (not_lt.mp hlt)]
  · have hne : ¬ (i.val = k.val) := fun hh => hik (Fin.ext hh)
    simp only [hik, if_false, mul_zero]
    rw [sigmaFactor_scalar_gramEl σ i k i.isLt k.isLt]
    simp [hne]

/-- The two branches are exhaustive: either the per-cell branch is taken with the sigma vector, or it is not. -/
theorem perCell_cases (sigma : Sigma ℝ n) (ycf : Option (AnyMat ℝ)) (yIsMean : Bool) :
    lmPerCell sigma ycf yIsMean = Option.none
      ∨ ∃ v, sigma = .vec v ∧ ycf = Option.none ∧ yIsMean = false ∧ lmPerCell sigma ycf yIsMean = some v := by
  unfold lmPerCell
  cases yIsMean with
  | true => left; simp
  | false =>
    cases ycf with
    | some M => left; simp
    | none =>
      cases sigma with
      | none => left; simp
      | scalar s => left; simp
      | vec v => right; exact ⟨v, rfl, rfl, rfl, by simp⟩

theorem perCell_vec (v : Vector ℝ n) : lmPerCell (.vec v) Option.none false = some v := by
  simp [lmPerCell]

theorem perCell_mean (sigma : Sigma ℝ n) (ycf : Option (AnyMat ℝ)) : lmPerCell sigma ycf true = Option.none := by
  simp [lmPerCell]

theorem perCell_scalar (σ : ℝ) (ycf : Option (AnyMat ℝ)) (yIsMean : Bool) :
    lmPerCell (Sigma.scalar σ : Sigma ℝ n) ycf yIsMean = Option.none := by
  unfold lmPerCell; cases yIsMean <;> cases ycf <;> simp

theorem perCell_factor (sigma : Sigma ℝ n) (M : AnyMat ℝ) (yIsMean : Bool) :
    lmPerCell sigma (some M) yIsMean = Option.none := by
  unfold lmPerCell; cases yIsMean <;> simp

/-- **DTC, scalar noise / explicit factor / values are the mean** (every case outside the per-cell branch; the
    per-cell branch is `dtc_percell_weights_solve`, and `perCell_cases` shows the two are exhaustive).  The weights
    of `_LandmarksConditional` solve the inducing-point normal equations
    `(L N Lᵀ + K_uf K_fu) · W = K_uf (Y − mu)` where `L Lᵀ = K_uu + jitter·I` and `N` is the
    regulariser (`N = s·I` gives the textbook `s·K̃_uu + K_uf K_fu`). -/
theorem dtc_weights_solve {cov : Cov ℝ} {x : Mat ℝ n d} {xu : Mat ℝ m d} {y : Mat ℝ n c} {mu : ℝ}
    {sigma : Sigma ℝ n} {jitter : ℝ} {ycf : Option (AnyMat ℝ)} {yIsMean withUnc : Bool}
    {s : CondState ℝ m d c}
    (h : lmCondInit cov x xu y mu sigma jitter ycf yIsMean withUnc = .ok s)
    (hpc : lmPerCell sigma ycf yIsMean = Option.none) :
    ∃ (L : Mat ℝ m m) (N : Matrix (Fin m) (Fin m) ℝ),
      toM L * (toM L)ᵀ = toM (gram cov xu xu) + jitter • (1 : Matrix (Fin m) (Fin m) ℝ)
      ∧ dtcNoise m sigma jitter ycf yIsMean = .ok N
      ∧ (toM L * N * (toM L)ᵀ + toM (gram cov xu x) * (toM (gram cov xu x))ᵀ) * toM s.weights
          = toM (gram cov xu x) * toM (residual y mu)
      ∧ s.xb = xu ∧ s.mu = mu ∧ s.cov = cov := by
  obtain ⟨L, hL, hbr⟩ := lmCondInit_ok h
  obtain ⟨hLns, hLLt⟩ := getL_none_LLt hL
  rcases hbr with ⟨_, hcore⟩ | ⟨v, hv, _⟩
  · obtain ⟨LLB, LB, hLLB, hLB, hw, hxb, hmu, hcov, _, _, _⟩ := lmCore_ok hcore
    obtain ⟨N, hN, hLLBeq, hNsym⟩ := lmLLB_spec hLLB
    have hLA : toM L * toM (solveLowerM L (gram cov xu x)) = toM (gram cov xu x) := solveLowerM_mul hLns _
    have hLLB' : toM LLB = toM (solveLowerM L (gram cov xu x)) * (toM (solveLowerM L (gram cov xu x)))ᵀ + N := by
      rw [hLLBeq, matMulT_toM]
    have key := dtc_solve hLns hLA (chol?_spec hLB) hLLB' hNsym (residual y mu)
    rw [← hw] at key
    exact ⟨L, N, hLLt, hN, key, hxb, hmu, hcov⟩
  · rw [hpc] at hv; cases hv

/-- **Heteroscedastic DTC (per-cell noise).**  For a per-cell sigma vector (`y_is_mean = False`, no explicit factor)
    the weights of `_LandmarksConditional` satisfy

      `(K̃_uu + K_uf D⁻¹ K_fu) · W = K_uf D⁻¹ (Y − mu)`,   `D = diag(max(σᵢ², jitter))`,  `K̃_uu = K_uu + jitter·I`

    (one noise level per CELL, for every number of landmarks `m < n`, `m = n`, `m > n`): the inducing-point
    conditional mean with heteroscedastic observation noise.  Obtained as the code computes it: `L Lᵀ = K̃_uu`,
    `A_w = L⁻¹ K_uf D^-1/2`, `r_w = D^-1/2 (Y − mu)`, `(I + A_w A_wᵀ) z = A_w r_w`, `W = L⁻ᵀ z`. -/
theorem dtc_percell_weights_solve {cov : Cov ℝ} {x : Mat ℝ n d} {xu : Mat ℝ m d} {y : Mat ℝ n c} {mu : ℝ}
    {v : Vector ℝ n} {jitter : ℝ} {withUnc : Bool} {s : CondState ℝ m d c}
    (h : lmCondInit cov x xu y mu (.vec v) jitter Option.none false withUnc = .ok s) :
    (toM (gram cov xu xu) + jitter • (1 : Matrix (Fin m) (Fin m) ℝ)
        + toM (gram cov xu x) * Matrix.diagonal (fun i : Fin n => (max (v.nth i * v.nth i) jitter)⁻¹)
            * (toM (gram cov xu x))ᵀ) * toM s.weights
      = toM (gram cov xu x) * Matrix.diagonal (fun i : Fin n => (max (v.nth i * v.nth i) jitter)⁻¹)
          * toM (residual y mu)
    ∧ s.xb = xu ∧ s.mu = mu ∧ s.cov = cov := by
  obtain ⟨L, hL, hbr⟩ := lmCondInit_ok h
  obtain ⟨hLns, hLLt⟩ := getL_none_LLt hL
  rcases hbr with ⟨hnone, _⟩ | ⟨v', hv', hcore⟩
  · rw [perCell_vec] at hnone; cases hnone
  · rw [perCell_vec] at hv'
    have hvv : v = v' := Option.some.inj hv'
    subst hvv
    obtain ⟨LLB, LB, hLLB, hLB, hw, hxb, hmu, hcov, _, _, _⟩ := lmCore_ok hcore
    have hLLBe : LLB = _ := (Except.ok.inj hLLB).symm
    set S := Matrix.diagonal (toV (cellScale v jitter)) with hS
    set A := solveLowerM L (gram cov xu x) with hA
    have hLA0 : toM L * toM A = toM (gram cov xu x) := solveLowerM_mul hLns _
    have hLA : toM L * toM (scaleCols A (cellScale v jitter))
        = toM (scaleCols (gram cov xu x) (cellScale v jitter)) := by
      rw [toM_scaleCols, toM_scaleCols, ← Matrix.mul_assoc, hLA0]
    have hLLB' : toM LLB = toM (scaleCols A (cellScale v jitter)) * (toM (scaleCols A (cellScale v jitter)))ᵀ
        + (1 : Matrix (Fin m) (Fin m) ℝ) := by
      rw [hLLBe, toM_addEye, matMulT_toM]
    have key := dtc_solve hLns hLA (chol?_spec hLB) hLLB' Matrix.isSymm_one
      (scaleRows (residual y mu) (cellScale v jitter))
    rw [← hw, Matrix.mul_one, hLLt, toM_scaleCols, toM_scaleRows, ← hS] at key
    have hSS : S * S = Matrix.diagonal (fun i : Fin n => (max (v.nth i * v.nth i) jitter)⁻¹) :=
      cellScale_sq v jitter
    have hSt : Sᵀ = S := Matrix.diagonal_transpose _
    refine ⟨?_, hxb, hmu, hcov⟩
    rw [← hSS]
    calc (toM (gram cov xu xu) + jitter • (1 : Matrix (Fin m) (Fin m) ℝ)
            + toM (gram cov xu x) * (S * S) * (toM (gram cov xu x))ᵀ) * toM s.weights
        = (toM (gram cov xu xu) + jitter • (1 : Matrix (Fin m) (Fin m) ℝ)
            + toM (gram cov xu x) * S * (toM (gram cov xu x) * S)ᵀ) * toM s.weights := by
          rw [Matrix.transpose_mul, hSt]; simp only [Matrix.mul_assoc]
      _ = toM (gram cov xu x) * S * (S * toM (residual y mu)) := key
      _ = toM (gram cov xu x) * (S * S) * toM (residual y mu) := by simp only [Matrix.mul_assoc]

/-- **A constant per-cell vector is the scalar.**  If all entries of the vector equal `σ` (and the regulariser
    `max(σ², jitter)` is positive, e.g. `jitter > 0`), the per-cell branch and the scalar branch of
    `_LandmarksConditional` produce the same weights. -/
theorem dtc_const_vector_weights {cov : Cov ℝ} {x : Mat ℝ n d} {xu : Mat ℝ m d} {y : Mat ℝ n c} {mu : ℝ}
    {v : Vector ℝ n} {σ jitter : ℝ} {withUnc withUnc' : Bool} {s s' : CondState ℝ m d c}
    (hv : ∀ i, i < n → v.nth i = σ) (hpos : 0 < max (σ * σ) jitter)
    (h : lmCondInit cov x xu y mu (.vec v) jitter Option.none false withUnc = .ok s)
    (h' : lmCondInit cov x xu y mu (.scalar σ) jitter Option.none false withUnc' = .ok s') :
    toM s.weights = toM s'.weights := by
  obtain ⟨hvec, _, _, _⟩ := dtc_percell_weights_solve h
  obtain ⟨L, N, hLLt, hN, hsc, _, _, _⟩ := dtc_weights_solve h' (perCell_scalar σ Option.none false)
  rw [dtc_noise_scalar] at hN
  have hNe : N = (max (σ * σ) jitter) • (1 : Matrix (Fin m) (Fin m) ℝ) := (Except.ok.inj hN).symm
  subst hNe
  set t := max (σ * σ) jitter with ht
  set Kuf := toM (gram cov xu x) with hKuf
  set Kt := toM (gram cov xu xu) + jitter • (1 : Matrix (Fin m) (Fin m) ℝ) with hKt
  have hD : Matrix.diagonal (fun i : Fin n => (max (v.nth i * v.nth i) jitter)⁻¹)
      = t⁻¹ • (1 : Matrix (Fin n) (Fin n) ℝ) := by
    ext i k
    simp only [Matrix.diagonal_apply, Matrix.smul_apply, Matrix.one_apply, smul_eq_mul]
    by_cases hik : i = k
    · subst hik; simp [hv i i.isLt, ht]
    · simp [hik]
  rw [hD] at hvec
  -- the scalar system is `t` times the per-cell one
  set M := t • Kt + Kuf * Kufᵀ with hM
  have hsc' : M * toM s'.weights = Kuf * toM (residual y mu) := by
    rw [hM, ← hsc, Matrix.mul_smul, Matrix.mul_one, Matrix.smul_mul, hLLt]
  have hvec' : M * toM s.weights = Kuf * toM (residual y mu) := by
    have := congrArg (fun X => t • X) hvec
    simp only [Matrix.mul_smul, Matrix.mul_one, ← Matrix.smul_mul, smul_add, smul_smul,
      mul_inv_cancel₀ (ne_of_gt hpos), one_smul] at this
    rw [hM]; exact this
  -- `M = L (t I + A Aᵀ) Lᵀ` is invertible
  obtain ⟨L2, hL2, hbr⟩ := lmCondInit_ok h'
  obtain ⟨hLns, hLLt2⟩ := getL_none_LLt hL2
  have hdetM : IsUnit M.det := by
    have hpd : M.PosDef := by
      rw [hM]
      have h1 : (t • Kt).PosDef := by
        rw [hKt, ← hLLt2]
        exact (LLt_posDef hLns).smul hpos
      have h2 : (Kuf * Kufᵀ).PosSemidef := by
        have := Matrix.posSemidef_self_mul_conjTranspose Kuf
        simpa [Matrix.conjTranspose_eq_transpose_of_trivial] using this
      exact h1.add_posSemidef h2
    exact (Matrix.isUnit_iff_isUnit_det _).mp hpd.isUnit
  calc toM s.weights = M⁻¹ * (M * toM s.weights) := by
        rw [← Matrix.mul_assoc, Matrix.nonsing_inv_mul _ hdetM, Matrix.one_mul]
    _ = M⁻¹ * (M * toM s'.weights) := by rw [hvec', hsc']
    _ = toM s'.weights := by rw [← Matrix.mul_assoc, Matrix.nonsing_inv_mul _ hdetM, Matrix.one_mul]

/-- Non-vacuity of the per-cell branch: a vector, no factor, values not the mean select it. -/
example (v : Vector ℝ 3) : lmPerCell (.vec v) Option.none false = some v := perCell_vec v

/-! ### Cholesky-latent formulation -/

/-- **Latent form.** The weights of `_LandmarksConditionalCholesky` solve `Lᵀ · W = Z` for the
    factor in use (given, or computed as the Cholesky factor of the regularised landmark kernel). -/
theorem latent_weights_solve_given {cov : Cov ℝ} {xu : Mat ℝ m d} {z : Mat ℝ m c} {mu : ℝ} {nObs : Nat}
    {L : Mat ℝ m m} (hL : LowerNonsing L) {sigma : Sigma ℝ m} {jitter : ℝ} {yIsMean : Bool}
    {s : CondState ℝ m d c}
    (h : lmCholCondInit cov xu z mu nObs (some L) sigma jitter yIsMean false = .ok s) :
    (toM L)ᵀ * toM s.weights = toM z ∧ s.nObs = nObs ∧ s.xb = xu := by
  unfold lmCholCondInit condL at h
  simp only [Bool.not_false, if_true] at h
  have hs := Except.ok.inj h; subst hs
  exact ⟨solveUpperTM_mul hL z, rfl, rfl⟩

theorem latent_weights_solve {cov : Cov ℝ} {xu : Mat ℝ m d} {z : Mat ℝ m c} {mu : ℝ} {nObs : Nat}
    {sigma : Sigma ℝ m} {jitter : ℝ} {yIsMean withUnc : Bool} {s : CondState ℝ m d c}
    (h : lmCholCondInit cov xu z mu nObs Option.none sigma jitter yIsMean withUnc = .ok s) :
    ∃ (L K' : Mat ℝ m m), fullSystem cov xu sigma jitter Option.none yIsMean = .ok K'
      ∧ toM L * (toM L)ᵀ = toM K'
      ∧ (toM L)ᵀ * toM s.weights = toM z ∧ s.nObs = nObs ∧ s.xb = xu := by
  unfold lmCholCondInit at h
  split at h
  · cases h
  · rename_i L s' y' hc
    obtain ⟨K', hK', hchol, hsym⟩ := condL_none_spec hc
    have hw : (toM L)ᵀ * toM (solveUpperTM L z) = toM z := solveUpperTM_mul hchol.lowerNonsing z
    refine ⟨L, K', hK', hchol.mul_transpose hsym, ?_⟩
    simp only at h
    split at h
    · have hs := Except.ok.inj h; subst hs; exact ⟨hw, rfl, rfl⟩
    · split at h
      · cases h
      · have hs := Except.ok.inj h; subst hs; exact ⟨hw, rfl, rfl⟩

/-! ### family dispatch -/

theorem dispatch_full (pre : Option Nat) : dispatchFamily Option.none pre = .full := rfl

theorem dispatch_cholesky (mm : Nat) : dispatchFamily (some mm) (some mm) = .landmarksCholesky := by
  simp [dispatchFamily]

theorem dispatch_landmarks (mm r : Nat) (h : r ≠ mm) : dispatchFamily (some mm) (some r) = .landmarks := by
  simp [dispatchFamily, h]

theorem dispatch_landmarks_nopre (mm : Nat) : dispatchFamily (some mm) Option.none = .landmarks := rfl

/-! ### non-vacuity: a concrete 1-point full GP is accepted -/

example : LowerNonsing (n := 1) (Mat.ofFn fun _ _ => (2:ℝ)) :=
  ⟨fun i j hij => by
      rcases Nat.lt_or_ge i 1 with hi | hi
      · have : ¬ j < 1 := by omega
        simp [hi, this]
      · simp [Nat.not_lt.mpr hi],
   fun i hi => by simp [hi]⟩

end Mellon.C01
