import MellonProofs.LinalgProofs
import MellonModel.Conditional
namespace Mellon.C01
end Mellon.C01
