/-
  MellonProofs.ConditionalLemmas — helper lemmas about noise assembly, `getL`, `condL` and the DTC
  algebra (property theorems are in C01/C02/C06/C09/C16).
-/
import MellonProofs.MatrixBridge
import MellonProofs.KernelLemmas
import MellonModel.Conditional

open Finset Matrix

namespace Mellon

/-! ### Gram matrices -/

theorem gram_el {n m d : Nat} (c : Cov ℝ) (X : Mat ℝ n d) (Y : Mat ℝ m d) (i j : Nat) (hi : i < n)
    (hj : j < m) : (gram c X Y).el i j = c.k (X.row i) (Y.row j) := by
  simp [gram, hi, hj]

theorem gram_symm {n d : Nat} (c : Cov ℝ) (X : Mat ℝ n d) : (toM (gram c X X)).IsSymm := by
  ext i j
  simp only [Matrix.transpose_apply, toM_apply]
  rw [gram_el c X X j i j.isLt i.isLt, gram_el c X X i j i.isLt j.isLt, cov_k_symm]

theorem gram_transpose {n m d : Nat} (c : Cov ℝ) (X : Mat ℝ n d) (Y : Mat ℝ m d) :
    (toM (gram c X Y))ᵀ = toM (gram c Y X) := by
  ext i j
  simp only [Matrix.transpose_apply, toM_apply]
  rw [gram_el c X Y j i j.isLt i.isLt, gram_el c Y X i j i.isLt j.isLt, cov_k_symm]

/-! ### stabilize / add_variance -/

theorem toM_stabilize {n : Nat} (A : Mat ℝ n n) (j : ℝ) :
    toM (stabilize A j) = toM A + j • (1 : Matrix (Fin n) (Fin n) ℝ) := by
  ext i k
  simp only [toM_apply, stabilize, el_ofFn, i.isLt, k.isLt, and_self, if_true, Matrix.add_apply,
    Matrix.smul_apply, Matrix.one_apply, smul_eq_mul]
  by_cases h : i = k
  · subst h; simp
  · have : ¬ (i.val = k.val) := fun hh => h (Fin.ext hh)
    simp [h, this]

/-- The noise matrix `add_variance` adds for a factor `M` with `n` rows: `M Mᵀ` with the diagonal
    floored at `jitter`. -/
noncomputable def noiseOf (n : Nat) (M : AnyMat ℝ) (j : ℝ) : Matrix (Fin n) (Fin n) ℝ := fun i k =>
  if i = k then (if M.gramEl i i < j then j else M.gramEl i i) else M.gramEl i k

theorem gramEl_comm (M : AnyMat ℝ) (i k : Nat) : M.gramEl i k = M.gramEl k i := by
  unfold AnyMat.gramEl
  apply nsum_congr; intro t _; ring

theorem noiseOf_symm (n : Nat) (M : AnyMat ℝ) (j : ℝ) : (noiseOf n M j).IsSymm := by
  ext i k
  simp only [Matrix.transpose_apply, noiseOf]
  by_cases h : i = k
  · subst h; rfl
  · have h' : ¬ k = i := fun hh => h hh.symm
    simp only [h, h', if_false]
    exact gramEl_comm M k i

theorem addVariance_some {n : Nat} (K : Mat ℝ n n) (M : AnyMat ℝ) (j : ℝ) {K' : Mat ℝ n n}
    (h : addVariance K (some M) j = .ok K') : M.r = n ∧ toM K' = toM K + noiseOf n M j := by
  unfold addVariance at h
  simp only at h
  split at h
  · cases h
  · rename_i hr
    have hr' : M.r = n := by simpa using hr
    refine ⟨hr', ?_⟩
    have hK : K' = _ := (Except.ok.inj h).symm
    subst hK
    ext i k
    simp only [toM_apply, el_ofFn, i.isLt, k.isLt, and_self, if_true, Matrix.add_apply, noiseOf]
    by_cases hik : i = k
    · subst hik
      simp only [if_true]
      by_cases hlt : M.gramEl i i < j
      · simp only [hlt, if_true]; ring
      · simp only [hlt, if_false]; ring
    · have : ¬ (i.val = k.val) := fun hh => hik (Fin.ext hh)
      simp [hik, this]

theorem addVariance_none {n : Nat} (K : Mat ℝ n n) (j : ℝ) :
    addVariance K Option.none j = .ok (stabilize K j) := rfl

/-! ### sigma factors -/

theorem sigmaFactor_scalar_gramEl {n : Nat} (s : ℝ) (i k : Nat) (hi : i < n) (hk : k < n) :
    (⟨n, n, Mat.ofFn fun i k => if i = k then s else 0⟩ : AnyMat ℝ).gramEl i k
      = if i = k then s * s else 0 := by
  unfold AnyMat.gramEl AnyMat.el
  simp only [nsum_eq_sum, el_ofFn]
  by_cases hik : i = k
  · subst hik
    simp only [if_true]
    rw [Finset.sum_eq_single i]
    · simp [hi]
    · intro t _ hti
      have : ¬ i = t := fun h => hti h.symm
      simp [this]
    · intro h; exact absurd (Finset.mem_range.mpr hi) h
  · simp only [hik, if_false]
    apply Finset.sum_eq_zero
    intro t _
    by_cases h1 : i = t
    · have : ¬ k = t := fun h => hik (h1.trans h.symm)
      simp [this]
    · simp [h1]

theorem sigmaFactor_vec_gramEl {n : Nat} (v : Vector ℝ n) (i k : Nat) (hi : i < n) (hk : k < n) :
    (⟨n, n, Mat.ofFn fun i k => if i = k then v.nth i else 0⟩ : AnyMat ℝ).gramEl i k
      = if i = k then v.nth i * v.nth i else 0 := by
  unfold AnyMat.gramEl AnyMat.el
  simp only [nsum_eq_sum, el_ofFn]
  by_cases hik : i = k
  · subst hik
    simp only [if_true]
    rw [Finset.sum_eq_single i]
    · simp [hi]
    · intro t _ hti
      have : ¬ i = t := fun h => hti h.symm
      simp [this]
    · intro h; exact absurd (Finset.mem_range.mpr hi) h
  · simp only [hik, if_false]
    apply Finset.sum_eq_zero
    intro t _
    by_cases h1 : i = t
    · have : ¬ k = t := fun h => hik (h1.trans h.symm)
      simp [this]
    · simp [h1]

/-! ### `getL` -/

theorem getL_spec {n d : Nat} {c : Cov ℝ} {x : Mat ℝ n d} {j : ℝ} {F : Option (AnyMat ℝ)}
    {L : Mat ℝ n n} (h : getL c x j F = .ok L) :
    ∃ K' : Mat ℝ n n, addVariance (gram c x x) F j = .ok K' ∧ IsCholOf L K' := by
  unfold getL at h
  simp only [bind, Except.bind] at h
  split at h
  · cases h
  · rename_i K' hK'
    refine ⟨K', hK', ?_⟩
    split at h
    · rename_i L' hL'
      have : L' = L := Except.ok.inj h
      subst this
      exact chol?_spec hL'
    · cases h

/-- The regularised matrix of `_get_L` is symmetric. -/
theorem addVariance_symm {n d : Nat} (c : Cov ℝ) (x : Mat ℝ n d) (j : ℝ) (F : Option (AnyMat ℝ))
    {K' : Mat ℝ n n} (h : addVariance (gram c x x) F j = .ok K') : (toM K').IsSymm := by
  cases F with
  | none =>
    rw [addVariance_none] at h
    have : K' = stabilize (gram c x x) j := (Except.ok.inj h).symm
    subst this
    rw [toM_stabilize]
    exact (gram_symm c x).add ((Matrix.isSymm_one).smul j)
  | some M =>
    obtain ⟨_, hK⟩ := addVariance_some _ M j h
    rw [hK]
    exact (gram_symm c x).add (noiseOf_symm n M j)

/-! ### the DTC algebra, for an arbitrary right-hand side -/

/-- If `L A = K_uf`, `LB LBᵀ = A Aᵀ + N` and `W = L⁻ᵀ (LB LBᵀ)⁻¹ A R`, then
    `(L N Lᵀ + K_uf K_fu) W = K_uf R`. -/
theorem dtc_solve {n m p : Nat} {L LB : Mat ℝ m m} {A : Mat ℝ m n} {Kuf : Mat ℝ m n} {LLB : Mat ℝ m m}
    {N : Matrix (Fin m) (Fin m) ℝ} (hL : LowerNonsing L) (hLA : toM L * toM A = toM Kuf)
    (hLB : IsCholOf LB LLB) (hLLB : toM LLB = toM A * (toM A)ᵀ + N) (hN : N.IsSymm) (R : Mat ℝ n p) :
    (toM L * N * (toM L)ᵀ + toM Kuf * (toM Kuf)ᵀ) * toM (lmWeights L LB A R) = toM Kuf * toM R := by
  have hsymB : (toM LLB).IsSymm := by
    rw [hLLB]
    have hAA : (toM A * (toM A)ᵀ).IsSymm := by
      rw [Matrix.IsSymm, Matrix.transpose_mul, Matrix.transpose_transpose]
    exact hAA.add hN
  have hz : toM LLB * toM (choSolveM LB (matMul A R)) = toM A * toM R := by
    rw [choSolveM_mul hLB hsymB, matMul_toM]
  have hLtW : (toM L)ᵀ * toM (lmWeights L LB A R) = toM (choSolveM LB (matMul A R)) :=
    solveUpperTM_mul hL _
  rw [← hLA, Matrix.transpose_mul]
  calc (toM L * N * (toM L)ᵀ + toM L * toM A * ((toM A)ᵀ * (toM L)ᵀ)) * toM (lmWeights L LB A R)
      = toM L * ((toM A * (toM A)ᵀ + N) * ((toM L)ᵀ * toM (lmWeights L LB A R))) := by
        simp only [Matrix.add_mul, Matrix.mul_add, Matrix.mul_assoc]
        rw [add_comm]
    _ = toM L * (toM LLB * toM (choSolveM LB (matMul A R))) := by rw [hLtW, hLLB]
    _ = toM L * toM A * toM R := by rw [hz, Matrix.mul_assoc]

/-! ### the whitening of the per-cell branch -/

theorem toM_scaleCols {m n : Nat} (A : Mat ℝ m n) (s : Vector ℝ n) :
    toM (scaleCols A s) = toM A * Matrix.diagonal (toV s) := by
  ext i k
  simp only [toM_apply, scaleCols, el_ofFn, i.isLt, k.isLt, and_self, if_true, Matrix.mul_diagonal, toV_apply]

theorem toM_scaleRows {n c : Nat} (R : Mat ℝ n c) (s : Vector ℝ n) :
    toM (scaleRows R s) = Matrix.diagonal (toV s) * toM R := by
  ext i k
  simp only [toM_apply, scaleRows, el_ofFn, i.isLt, k.isLt, and_self, if_true, Matrix.diagonal_mul, toV_apply]
  ring

theorem toM_addEye {m : Nat} (A : Mat ℝ m m) : toM (addEye A) = toM A + 1 := by
  ext i k
  simp only [toM_apply, addEye, el_ofFn, i.isLt, k.isLt, and_self, if_true, Matrix.add_apply, Matrix.one_apply]
  by_cases h : i = k
  · subst h; simp
  · have : ¬ (i.val = k.val) := fun hh => h (Fin.ext hh)
    simp [h, this]

/-- Over ℝ the floored variance is `max(σᵢ², jitter)`. -/
theorem cellVariance_real {n : Nat} (v : Vector ℝ n) (jitter : ℝ) (i : Nat) :
    cellVariance v jitter i = max (v.nth i * v.nth i) jitter := by
  unfold cellVariance
  simp only
  split_ifs with h
  · exact (max_eq_right (le_of_lt h)).symm
  · exact (max_eq_left (not_lt.mp h)).symm

theorem cellVariance_nonneg {n : Nat} (v : Vector ℝ n) (jitter : ℝ) (i : Nat) : 0 ≤ cellVariance v jitter i := by
  rw [cellVariance_real]
  exact le_trans (mul_self_nonneg _) (le_max_left _ _)

/-- `D^-1/2 · D^-1/2 = D⁻¹` with `D = diag(max(σᵢ², jitter))` (no sign condition on `jitter`: `σᵢ² ≥ 0`). -/
theorem cellScale_sq {n : Nat} (v : Vector ℝ n) (jitter : ℝ) :
    Matrix.diagonal (toV (cellScale v jitter)) * Matrix.diagonal (toV (cellScale v jitter))
      = Matrix.diagonal (fun i : Fin n => (max (v.nth i * v.nth i) jitter)⁻¹) := by
  rw [Matrix.diagonal_mul_diagonal]
  congr 1
  funext i
  simp only [toV_apply, cellScale, nth_vecOfFn, i.isLt, if_true, sqrt_real]
  rw [← cellVariance_real v jitter i]
  have h0 := cellVariance_nonneg v jitter i
  rw [one_div, ← mul_inv, Real.mul_self_sqrt h0]

/-! ### `lmCore` / `lmCondInit`: what an accepted construction consists of -/

theorem lmCore_ok {n m d c : Nat} {cov : Cov ℝ} {xu : Mat ℝ m d} {mu jitter : ℝ} {L : Mat ℝ m m}
    {A : Mat ℝ m n} {r : Mat ℝ n c} {LLB? : Except CondErr (Mat ℝ m m)} {sigmaU : Sigma ℝ n}
    {ycfU : Option (AnyMat ℝ)} {withUnc : Bool} {s : CondState ℝ m d c}
    (h : lmCore cov xu mu jitter L A r LLB? sigmaU ycfU withUnc = .ok s) :
    ∃ LLB LB, LLB? = .ok LLB ∧ chol? LLB = some LB ∧ s.weights = lmWeights L LB A r
      ∧ s.xb = xu ∧ s.mu = mu ∧ s.cov = cov ∧ s.nObs = n
      ∧ (withUnc = false → s.L = Option.none ∧ s.W = Option.none)
      ∧ (withUnc = true → ∃ W, lmUnc L LB A sigmaU ycfU = .ok W ∧ s.L = some L ∧ s.W = some W) := by
  unfold lmCore at h
  split at h
  · cases h
  · rename_i LLB
    split at h
    · cases h
    · rename_i LB hLB
      refine ⟨LLB, LB, rfl, hLB, ?_⟩
      simp only at h
      cases withUnc with
      | false =>
        simp only [Bool.not_false, if_true] at h
        have hs := (Except.ok.inj h).symm; subst hs
        exact ⟨rfl, rfl, rfl, rfl, rfl, fun _ => ⟨rfl, rfl⟩, fun hh => by cases hh⟩
      | true =>
        simp only [Bool.not_true, Bool.false_eq_true, if_false] at h
        split at h
        · cases h
        · rename_i W hW
          have hs := (Except.ok.inj h).symm; subst hs
          exact ⟨rfl, rfl, rfl, rfl, rfl, fun hh => (by cases hh), fun _ => ⟨W, hW, rfl, rfl⟩⟩

/-- Without uncertainty the construction succeeds as soon as `LLB` is there and factorises; the right-hand side
    does not matter. -/
theorem lmCore_false_eq {n m d c : Nat} (cov : Cov ℝ) (xu : Mat ℝ m d) (mu jitter : ℝ) (L : Mat ℝ m m)
    (A : Mat ℝ m n) (r : Mat ℝ n c) {LLB LB : Mat ℝ m m} (sigmaU : Sigma ℝ n) (ycfU : Option (AnyMat ℝ))
    (hLB : chol? LLB = some LB) :
    lmCore cov xu mu jitter L A r (.ok LLB) sigmaU ycfU false
      = .ok { cov := cov, xb := xu, weights := lmWeights L LB A r, mu := mu, jitter := jitter, nObs := n,
              L := Option.none, W := Option.none } := by
  unfold lmCore
  simp only [hLB, Bool.not_false, if_true]

/-- The two branches of `_LandmarksConditional.__init__`. -/
theorem lmCondInit_ok {n m d c : Nat} {cov : Cov ℝ} {x : Mat ℝ n d} {xu : Mat ℝ m d} {y : Mat ℝ n c} {mu : ℝ}
    {sigma : Sigma ℝ n} {jitter : ℝ} {ycf : Option (AnyMat ℝ)} {yIsMean withUnc : Bool} {s : CondState ℝ m d c}
    (h : lmCondInit cov x xu y mu sigma jitter ycf yIsMean withUnc = .ok s) :
    ∃ L, getL cov xu jitter Option.none = .ok L ∧
      ((lmPerCell sigma ycf yIsMean = Option.none ∧
          lmCore cov xu mu jitter L (solveLowerM L (gram cov xu x)) (residual y mu)
            (lmLLB (matMulT (solveLowerM L (gram cov xu x)) (solveLowerM L (gram cov xu x))) sigma jitter ycf yIsMean)
            sigma ycf withUnc = .ok s)
       ∨ (∃ v, lmPerCell sigma ycf yIsMean = some v ∧
          lmCore cov xu mu jitter L (scaleCols (solveLowerM L (gram cov xu x)) (cellScale v jitter))
            (scaleRows (residual y mu) (cellScale v jitter))
            (.ok (addEye (matMulT (scaleCols (solveLowerM L (gram cov xu x)) (cellScale v jitter))
                                  (scaleCols (solveLowerM L (gram cov xu x)) (cellScale v jitter)))))
            (.vec (cellNoise v jitter)) Option.none withUnc = .ok s)) := by
  unfold lmCondInit at h
  split at h
  · cases h
  · rename_i L hL
    refine ⟨L, hL, ?_⟩
    simp only at h
    split at h
    · rename_i v hv
      exact Or.inr ⟨v, hv, h⟩
    · rename_i hnone
      exact Or.inl ⟨hnone, h⟩

/-- `K̃_uu = K_uu + jitter·I = L Lᵀ` for the factor of `_get_L(xu, cov_func, jitter)`. -/
theorem getL_none_LLt {m d : Nat} {cov : Cov ℝ} {xu : Mat ℝ m d} {jitter : ℝ} {L : Mat ℝ m m}
    (hL : getL cov xu jitter Option.none = .ok L) :
    LowerNonsing L ∧ toM L * (toM L)ᵀ = toM (gram cov xu xu) + jitter • (1 : Matrix (Fin m) (Fin m) ℝ) := by
  obtain ⟨Kuu', hKuu', hchol⟩ := getL_spec hL
  rw [addVariance_none] at hKuu'
  have hKuu : Kuu' = stabilize (gram cov xu xu) jitter := (Except.ok.inj hKuu').symm
  subst hKuu
  have hsymU : (toM (stabilize (gram cov xu xu) jitter)).IsSymm :=
    addVariance_symm cov xu jitter Option.none (addVariance_none _ _)
  have hLLt := hchol.mul_transpose hsymU
  rw [toM_stabilize] at hLLt
  exact ⟨hchol.lowerNonsing, hLLt⟩

/-- `W` of the DTC family: the noise factor `F` (one row per cell) pushed through the solve of the weights. -/
theorem lmUnc_spec {n m : Nat} {L LB : Mat ℝ m m} {A : Mat ℝ m n} {sigmaU : Sigma ℝ n} {ycfU : Option (AnyMat ℝ)}
    {W : AnyMat ℝ} (h : lmUnc L LB A sigmaU ycfU = .ok W) :
    ∃ F : AnyMat ℝ, sigmaToYCovFactor sigmaU ycfU = .ok F ∧ F.r = n ∧ W.c = F.c
      ∧ (Mat.ofFn (n := m) (m := F.c) fun i k => W.el i k)
          = lmWeights L LB A (Mat.ofFn (n := n) (m := F.c) fun i k => F.el i k) := by
  unfold lmUnc at h
  split at h
  · cases h
  · rename_i F hF
    split at h
    · cases h
    · rename_i AF hAF
      have hWW := (Except.ok.inj h).symm; subst hWW
      unfold matMulAny at hAF
      split at hAF
      · cases hAF
      · rename_i hFr
        have hFr' : F.r = n := by simpa using hFr
        have hAFeq := (Except.ok.inj hAF).symm; subst hAFeq
        refine ⟨F, hF, hFr', rfl, ?_⟩
        have hAF : (Mat.ofFn (n := m) (m := F.c) fun i k => nsum n fun t => A.el i t * F.el t k)
            = matMul A (Mat.ofFn (n := n) (m := F.c) fun i k => F.el i k) := by
          apply mat_ext
          intro i k hi hk
          simp only [matMul, el_ofFn, hi, hk, and_self, if_true]
          apply nsum_congr
          intro t ht
          simp [ht]
        simp only [AnyMat.el] at hAF
        simp only [solveUpperTAny, choSolveAny, AnyMat.el, ofFn_el, lmWeights, hAF]

end Mellon
