/-
  MellonProofs.ConditionalLemmas — helper lemmas about noise assembly, `getL`, `condL` and the DTC
  algebra (property theorems are in C01/C02/C06/C09/C16).
-/
import MellonProofs.MatrixBridge
import MellonProofs.KernelLemmas
import MellonModel.Conditional

open Finset Matrix

namespace Mellon

/-! ### Gram matrices -/

theorem gram_el {n m d : Nat} (c : Cov ℝ) (X : Mat ℝ n d) (Y : Mat ℝ m d) (i j : Nat) (hi : i < n)
    (hj : j < m) : (gram c X Y).el i j = c.k (X.row i) (Y.row j) := by
  simp [gram, hi, hj]

theorem gram_symm {n d : Nat} (c : Cov ℝ) (X : Mat ℝ n d) : (toM (gram c X X)).IsSymm := by
  ext i j
  simp only [Matrix.transpose_apply, toM_apply]
  rw [gram_el c X X j i j.isLt i.isLt, gram_el c X X i j i.isLt j.isLt, cov_k_symm]

theorem gram_transpose {n m d : Nat} (c : Cov ℝ) (X : Mat ℝ n d) (Y : Mat ℝ m d) :
    (toM (gram c X Y))ᵀ = toM (gram c Y X) := by
  ext i j
  simp only [Matrix.transpose_apply, toM_apply]
  rw [gram_el c X Y j i j.isLt i.isLt, gram_el c Y X i j i.isLt j.isLt, cov_k_symm]

/-! ### stabilize / add_variance -/

theorem toM_stabilize {n : Nat} (A : Mat ℝ n n) (j : ℝ) :
    toM (stabilize A j) = toM A + j • (1 : Matrix (Fin n) (Fin n) ℝ) := by
  ext i k
  simp only [toM_apply, stabilize, el_ofFn, i.isLt, k.isLt, and_self, if_true, Matrix.add_apply,
    Matrix.smul_apply, Matrix.one_apply, smul_eq_mul]
  by_cases h : i = k
  · subst h; simp
  · have : ¬ (i.val = k.val) := fun hh => h (Fin.ext hh)
    simp [h, this]

/-- The noise matrix `add_variance` adds for a factor `M` with `n` rows: `M Mᵀ` with the diagonal
    floored at `jitter`. -/
noncomputable def noiseOf (n : Nat) (M : AnyMat ℝ) (j : ℝ) : Matrix (Fin n) (Fin n) ℝ := fun i k =>
  if i = k then (if M.gramEl i i < j then j else M.gramEl i i) else M.gramEl i k

theorem gramEl_comm (M : AnyMat ℝ) (i k : Nat) : M.gramEl i k = M.gramEl k i := by
  unfold AnyMat.gramEl
  apply nsum_congr; intro t _; ring

theorem noiseOf_symm (n : Nat) (M : AnyMat ℝ) (j : ℝ) : (noiseOf n M j).IsSymm := by
  ext i k
  simp only [Matrix.transpose_apply, noiseOf]
  by_cases h : i = k
  · subst h; rfl
  · have h' : ¬ k = i := fun hh => h hh.symm
    simp only [h, h', if_false]
    exact gramEl_comm M k i

theorem addVariance_some {n : Nat} (K : Mat ℝ n n) (M : AnyMat ℝ) (j : ℝ) {K' : Mat ℝ n n}
    (h : addVariance K (some M) j = .ok K') : M.r = n ∧ toM K' = toM K + noiseOf n M j := by
  unfold addVariance at h
  simp only at h
  split at h
  · cases h
  · rename_i hr
    have hr' : M.r = n := by simpa using hr
    refine ⟨hr', ?_⟩
    have hK : K' = _ := (Except.ok.inj h).symm
    subst hK
    ext i k
    simp only [toM_apply, el_ofFn, i.isLt, k.isLt, and_self, if_true, Matrix.add_apply, noiseOf]
    by_cases hik : i = k
    · subst hik
      simp only [if_true]
      by_cases hlt : M.gramEl i i < j
      · simp only [hlt, if_true]; ring
      · simp only [hlt, if_false]; ring
    · have : ¬ (i.val = k.val) := fun hh => hik (Fin.ext hh)
      simp [hik, this]

theorem addVariance_none {n : Nat} (K : Mat ℝ n n) (j : ℝ) :
    addVariance K Option.none j = .ok (stabilize K j) := rfl

/-! ### sigma factors -/

theorem sigmaFactor_scalar_gramEl {n : Nat} (s : ℝ) (i k : Nat) (hi : i < n) (hk : k < n) :
    (⟨n, n, Mat.ofFn fun i k => if i = k then s else 0⟩ : AnyMat ℝ).gramEl i k
      = if i = k then s * s else 0 := by
  unfold AnyMat.gramEl AnyMat.el
  simp only [nsum_eq_sum, el_ofFn]
  by_cases hik : i = k
  · subst hik
    simp only [if_true]
    rw [Finset.sum_eq_single i]
    · simp [hi]
    · intro t _ hti
      have : ¬ i = t := fun h => hti h.symm
      simp [this]
    · intro h; exact absurd (Finset.mem_range.mpr hi) h
  · simp only [hik, if_false]
    apply Finset.sum_eq_zero
    intro t _
    by_cases h1 : i = t
    · have : ¬ k = t := fun h => hik (h1.trans h.symm)
      simp [this]
    · simp [h1]

theorem sigmaFactor_vec_gramEl {n : Nat} (v : Vector ℝ n) (i k : Nat) (hi : i < n) (hk : k < n) :
    (⟨n, n, Mat.ofFn fun i k => if i = k then v.nth i else 0⟩ : AnyMat ℝ).gramEl i k
      = if i = k then v.nth i * v.nth i else 0 := by
  unfold AnyMat.gramEl AnyMat.el
  simp only [nsum_eq_sum, el_ofFn]
  by_cases hik : i = k
  · subst hik
    simp only [if_true]
    rw [Finset.sum_eq_single i]
    · simp [hi]
    · intro t _ hti
      have : ¬ i = t := fun h => hti h.symm
      simp [this]
    · intro h; exact absurd (Finset.mem_range.mpr hi) h
  · simp only [hik, if_false]
    apply Finset.sum_eq_zero
    intro t _
    by_cases h1 : i = t
    · have : ¬ k = t := fun h => hik (h1.trans h.symm)
      simp [this]
    · simp [h1]

/-! ### `getL` -/

theorem getL_spec {n d : Nat} {c : Cov ℝ} {x : Mat ℝ n d} {j : ℝ} {F : Option (AnyMat ℝ)}
    {L : Mat ℝ n n} (h : getL c x j F = .ok L) :
    ∃ K' : Mat ℝ n n, addVariance (gram c x x) F j = .ok K' ∧ IsCholOf L K' := by
  unfold getL at h
  simp only [bind, Except.bind] at h
  split at h
  · cases h
  · rename_i K' hK'
    refine ⟨K', hK', ?_⟩
    split at h
    · rename_i L' hL'
      have : L' = L := Except.ok.inj h
      subst this
      exact chol?_spec hL'
    · cases h

/-- The regularised matrix of `_get_L` is symmetric. -/
theorem addVariance_symm {n d : Nat} (c : Cov ℝ) (x : Mat ℝ n d) (j : ℝ) (F : Option (AnyMat ℝ))
    {K' : Mat ℝ n n} (h : addVariance (gram c x x) F j = .ok K') : (toM K').IsSymm := by
  cases F with
  | none =>
    rw [addVariance_none] at h
    have : K' = stabilize (gram c x x) j := (Except.ok.inj h).symm
    subst this
    rw [toM_stabilize]
    exact (gram_symm c x).add ((Matrix.isSymm_one).smul j)
  | some M =>
    obtain ⟨_, hK⟩ := addVariance_some _ M j h
    rw [hK]
    exact (gram_symm c x).add (noiseOf_symm n M j)

/-! ### the DTC algebra, for an arbitrary right-hand side -/

/-- If `L A = K_uf`, `LB LBᵀ = A Aᵀ + N` and `W = L⁻ᵀ (LB LBᵀ)⁻¹ A R`, then
    `(L N Lᵀ + K_uf K_fu) W = K_uf R`. -/
theorem dtc_solve {n m p : Nat} {L LB : Mat ℝ m m} {A : Mat ℝ m n} {Kuf : Mat ℝ m n} {LLB : Mat ℝ m m}
    {N : Matrix (Fin m) (Fin m) ℝ} (hL : LowerNonsing L) (hLA : toM L * toM A = toM Kuf)
    (hLB : IsCholOf LB LLB) (hLLB : toM LLB = toM A * (toM A)ᵀ + N) (hN : N.IsSymm) (R : Mat ℝ n p) :
    (toM L * N * (toM L)ᵀ + toM Kuf * (toM Kuf)ᵀ) * toM (lmWeights L LB A R) = toM Kuf * toM R := by
  have hsymB : (toM LLB).IsSymm := by
    rw [hLLB]
    have hAA : (toM A * (toM A)ᵀ).IsSymm := by
      rw [Matrix.IsSymm, Matrix.transpose_mul, Matrix.transpose_transpose]
    exact hAA.add hN
  have hz : toM LLB * toM (choSolveM LB (matMul A R)) = toM A * toM R := by
    rw [choSolveM_mul hLB hsymB, matMul_toM]
  have hLtW : (toM L)ᵀ * toM (lmWeights L LB A R) = toM (choSolveM LB (matMul A R)) :=
    solveUpperTM_mul hL _
  rw [← hLA, Matrix.transpose_mul]
  calc (toM L * N * (toM L)ᵀ + toM L * toM A * ((toM A)ᵀ * (toM L)ᵀ)) * toM (lmWeights L LB A R)
      = toM L * ((toM A * (toM A)ᵀ + N) * ((toM L)ᵀ * toM (lmWeights L LB A R))) := by
        simp only [Matrix.add_mul, Matrix.mul_add, Matrix.mul_assoc]
        rw [add_comm]
    _ = toM L * (toM LLB * toM (choSolveM LB (matMul A R))) := by rw [hLtW, hLLB]
    _ = toM L * toM A * toM R := by rw [hz, Matrix.mul_assoc]

end Mellon
