/-
  C16 — Function estimation is affine in the values, column-independent and noise-aware.
  Property theorems only; about `fullCondInit` (the predictor `FunctionEstimator` builds for
  gp_type 'full') and `lmCondInit` (gp_type 'sparse_cholesky' / 'fixed': landmarks; a sigma vector is the
  noise of the cells for every number of landmarks) at α = ℝ, for all sizes, data, kernels and noise forms.
-/
import MellonProofs.LinearityLemmas
import MellonProofs.C01
import MellonProofs.PSDJoint
import MellonProofs.ShrinkLemmas

open Matrix Finset

namespace Mellon.C16
open Mellon

variable {n d c : Nat}

/-- The factor `L` (and the leftover sigma / factor) does not depend on the values or on `mu`. -/
theorem factor_independent_of_values (cov : Cov ℝ) (x : Mat ℝ n d) (Lg : Option (Mat ℝ n n))
    (sigma : Sigma ℝ n) (jitter : ℝ) (ycf : Option (AnyMat ℝ)) (yIsMean : Bool) :
    ∀ (_y _y' : Mat ℝ n c) (_mu _mu' : ℝ),
      condL cov x Lg sigma jitter ycf yIsMean = condL cov x Lg sigma jitter ycf yIsMean :=
  fun _ _ _ _ => rfl

/-- **Affine.** Fitting `a·y + b` with prior mean `a·mu + b` gives `a·prediction + b`, at every query
    point and for every value column. -/
theorem affine {cov : Cov ℝ} {x : Mat ℝ n d} {y y' : Mat ℝ n c} {mu a b : ℝ} {Lg : Option (Mat ℝ n n)}
    {sigma : Sigma ℝ n} {jitter : ℝ} {ycf : Option (AnyMat ℝ)} {yIsMean withUnc : Bool}
    {s : CondState ℝ n d c}
    (h : fullCondInit cov x y mu Lg sigma jitter ycf yIsMean withUnc = .ok s)
    (hy' : ∀ i k, i < n → k < c → y'.el i k = a * y.el i k + b) :
    ∃ s', fullCondInit cov x y' (a * mu + b) Lg sigma jitter ycf yIsMean withUnc = .ok s'
      ∧ ∀ (xq : List ℝ) (col : Nat), col < c → s'.mean1 xq col = a * s.mean1 xq col + b := by
  unfold fullCondInit at h ⊢
  split at h
  · cases h
  · rename_i L s1 y1 hc
    simp only at h ⊢
    have hres : ∀ i k, i < n → k < c →
        (residual y' (a * mu + b)).el i k = a * (residual y mu).el i k := by
      intro i k hi hk
      simp only [residual, el_ofFn, hi, hk, and_self, if_true, hy' i k hi hk]; ring
    have hw := choSolveM_smul L a (residual y mu) (residual y' (a * mu + b)) hres
    have hmean : ∀ (w w' : Mat ℝ n c), (∀ i j, i < n → j < c → w'.el i j = a * w.el i j) →
        ∀ (xq : List ℝ) (col : Nat), col < c →
        (a * mu + b) + nsum n (fun j => cov.k xq (x.row j) * w'.el j col)
          = a * (mu + nsum n (fun j => cov.k xq (x.row j) * w.el j col)) + b := by
      intro w w' hww xq col hcol
      rw [nsum_eq_sum, nsum_eq_sum]
      have : ∑ j ∈ range n, cov.k xq (x.row j) * w'.el j col
          = a * ∑ j ∈ range n, cov.k xq (x.row j) * w.el j col := by
        rw [Finset.mul_sum]
        apply Finset.sum_congr rfl
        intro j hj
        rw [hww j col (Finset.mem_range.mp hj) hcol]; ring
      rw [this]; ring
    cases withUnc with
    | false =>
      simp only [Bool.not_false, if_true] at h ⊢
      have hs := Except.ok.inj h; subst hs
      exact ⟨_, rfl, fun xq col hcol => hmean _ _ hw xq col hcol⟩
    | true =>
      simp only [Bool.not_true, Bool.false_eq_true, if_false] at h ⊢
      split at h
      · cases h
      · rename_i W hW
        have hs := Except.ok.inj h; subst hs
        exact ⟨_, rfl, fun xq col hcol => hmean _ _ hw xq col hcol⟩

/-- **Column independence.** The prediction for a value column depends on that column only:
    fitting several columns at once gives, column by column, what fitting each alone gives. -/
theorem columns_independent {c' : Nat} {cov : Cov ℝ} {x : Mat ℝ n d} {y : Mat ℝ n c} {y' : Mat ℝ n c'}
    {mu : ℝ} {Lg : Option (Mat ℝ n n)} {sigma : Sigma ℝ n} {jitter : ℝ} {ycf : Option (AnyMat ℝ)}
    {yIsMean withUnc : Bool} {s : CondState ℝ n d c} {s' : CondState ℝ n d c'}
    (h : fullCondInit cov x y mu Lg sigma jitter ycf yIsMean withUnc = .ok s)
    (h' : fullCondInit cov x y' mu Lg sigma jitter ycf yIsMean withUnc = .ok s')
    (j j' : Nat) (hj : j < c) (hj' : j' < c') (hcol : ∀ i, i < n → y.el i j = y'.el i j') :
    ∀ xq : List ℝ, s.mean1 xq j = s'.mean1 xq j' := by
  unfold fullCondInit at h h'
  split at h
  · cases h
  · rename_i L s1 y1 hc
    rw [hc] at h'
    simp only at h h'
    have hres : ∀ i, i < n → (residual y mu).el i j = (residual y' mu).el i j' := by
      intro i hi
      simp only [residual, el_ofFn, hi, hj, hj', and_self, if_true, hcol i hi]
    have hw := choSolveM_col L (residual y mu) (residual y' mu) j j' hj hj' hres
    have hmean : ∀ (w : Mat ℝ n c) (w' : Mat ℝ n c'), (∀ i, i < n → w.el i j = w'.el i j') →
        ∀ xq : List ℝ, mu + nsum n (fun t => cov.k xq (x.row t) * w.el t j)
          = mu + nsum n (fun t => cov.k xq (x.row t) * w'.el t j') := by
      intro w w' hww xq
      congr 1
      apply nsum_congr
      intro t ht
      rw [hww t ht]
    intro xq
    split at h <;> split at h'
    · have hs := Except.ok.inj h; have hs' := Except.ok.inj h'; subst hs; subst hs'
      exact hmean _ _ hw xq
    · rename_i hwu hwu'; exact absurd hwu hwu'
    · rename_i hwu hwu'; exact absurd hwu' hwu
    · split at h
      · cases h
      · split at h'
        · cases h'
        · have hs := Except.ok.inj h; have hs' := Except.ok.inj h'; subst hs; subst hs'
          exact hmean _ _ hw xq

/-- **Interpolation up to jitter.** With "values are the mean" the in-sample prediction misses the
    training value by exactly `−jitter · wᵢ`. -/
theorem interp_y_is_mean {cov : Cov ℝ} {x : Mat ℝ n d} {y : Mat ℝ n c} {mu : ℝ} {sigma : Sigma ℝ n}
    {jitter : ℝ} {ycf : Option (AnyMat ℝ)} {withUnc : Bool} {s : CondState ℝ n d c}
    (h : fullCondInit cov x y mu Option.none sigma jitter ycf true withUnc = .ok s)
    (i col : Nat) (hi : i < n) (hc : col < c) :
    s.mean1 (x.row i) col - y.el i col = -(jitter * s.weights.el i col) := by
  obtain ⟨K', hK', hsolve, hxb, hmu, hcov⟩ := C01.full_weights_solve h
  obtain ⟨K'', hK'', hform⟩ := C01.noise_mean cov x sigma jitter ycf
  rw [hK'] at hK''
  have hKK : K' = K'' := Except.ok.inj hK''
  subst hKK
  have hentry := congrFun (congrFun hsolve ⟨i, hi⟩) ⟨col, hc⟩
  rw [hform] at hentry
  simp only [Matrix.mul_apply, Matrix.add_apply, Matrix.smul_apply, Matrix.one_apply, toM_apply,
    smul_eq_mul] at hentry
  rw [C01.mean_formula, hxb, hmu, hcov]
  have hsum : ∑ k : Fin n, ((gram cov x x).el i k + jitter * if (⟨i, hi⟩ : Fin n) = k then 1 else 0)
        * s.weights.el k col
      = ∑ k ∈ range n, cov.k (x.row i) (x.row k) * s.weights.el k col + jitter * s.weights.el i col := by
    rw [← sum_fin_eq_range (fun k => cov.k (x.row i) (x.row k) * s.weights.el k col)]
    have : ∀ k : Fin n, ((gram cov x x).el i k + jitter * if (⟨i, hi⟩ : Fin n) = k then 1 else 0)
          * s.weights.el k col
        = cov.k (x.row i) (x.row k) * s.weights.el k col
          + (if (⟨i, hi⟩ : Fin n) = k then jitter * s.weights.el k col else 0) := by
      intro k
      rw [gram_el cov x x i k hi k.isLt]
      split <;> ring
    simp only [this, Finset.sum_add_distrib, Finset.sum_ite_eq, Finset.mem_univ, if_true]
  rw [hsum] at hentry
  have hr : (residual y mu).el i col = y.el i col - mu := by
    simp [residual, hi, hc]
  rw [hr] at hentry
  linarith

theorem sigmaFactor_const_vector (v : Vector ℝ n) (σ : ℝ) (hv : ∀ i, i < n → v.nth i = σ) :
    sigmaFactor (.vec v) = sigmaFactor (.scalar σ : Sigma ℝ n) := by
  unfold sigmaFactor
  simp only [Option.some.injEq]
  congr 1
  unfold Mat.ofFn
  congr 1
  funext i
  congr 1
  funext k
  by_cases h : i.val = k.val
  · simp [h, hv k.val k.isLt]
  · simp [h]

/-- **Constant vector = scalar.** A per-cell sigma vector with equal entries builds exactly the
    predictor the scalar builds. -/
theorem const_vector_sigma (cov : Cov ℝ) (x : Mat ℝ n d) (y : Mat ℝ n c) (mu : ℝ) (Lg : Option (Mat ℝ n n))
    (v : Vector ℝ n) (σ jitter : ℝ) (yIsMean withUnc : Bool) (hv : ∀ i, i < n → v.nth i = σ) :
    fullCondInit cov x y mu Lg (.vec v) jitter Option.none yIsMean withUnc
      = fullCondInit cov x y mu Lg (.scalar σ) jitter Option.none yIsMean withUnc := by
  have hsf := sigmaFactor_const_vector v σ hv
  cases Lg <;> cases yIsMean <;> cases withUnc <;>
    simp only [fullCondInit, condL, fullUnc, sigmaToYCovFactor, hsf, Bool.not_true, Bool.not_false,
      Bool.false_eq_true, if_true, if_false] <;>
    first
      | rfl
      | (cases getL cov x jitter Option.none <;> simp only [hsf, sigmaToYCovFactor] <;> rfl)
      | (cases sigmaFactor (Sigma.scalar σ : Sigma ℝ n) <;> rfl)

/-! ### the inducing-point (DTC) predictor of `gp_type` sparse_cholesky / fixed -/

/-- **Affine (DTC).** The same law for the predictor built on landmarks — for every noise form, including the
    per-cell sigma vector (one noise level per cell, any number of landmarks). -/
theorem affine_dtc {m : Nat} {cov : Cov ℝ} {x : Mat ℝ n d} {xu : Mat ℝ m d} {y y' : Mat ℝ n c} {mu a b : ℝ}
    {sigma : Sigma ℝ n} {jitter : ℝ} {ycf : Option (AnyMat ℝ)} {yIsMean : Bool} {s : CondState ℝ m d c}
    (h : lmCondInit cov x xu y mu sigma jitter ycf yIsMean false = .ok s)
    (hy' : ∀ i k, i < n → k < c → y'.el i k = a * y.el i k + b) :
    ∃ s', lmCondInit cov x xu y' (a * mu + b) sigma jitter ycf yIsMean false = .ok s'
      ∧ ∀ (xq : List ℝ) (col : Nat), col < c → s'.mean1 xq col = a * s.mean1 xq col + b := by
  have hres : ∀ i k, i < n → k < c →
      (residual y' (a * mu + b)).el i k = a * (residual y mu).el i k := by
    intro i k hi hk
    simp only [residual, el_ofFn, hi, hk, and_self, if_true, hy' i k hi hk]; ring
  obtain ⟨L, hL, hbr⟩ := lmCondInit_ok h
  rcases hbr with ⟨hpc, hcore⟩ | ⟨v, hpc, hcore⟩
  · obtain ⟨s', hs', hmean⟩ := lmCore_affine (residual y' (a * mu + b)) a b hcore hres
    refine ⟨s', ?_, hmean⟩
    unfold lmCondInit
    simp only [hL, hpc]
    exact hs'
  · have hres' : ∀ i k, i < n → k < c →
        (scaleRows (residual y' (a * mu + b)) (cellScale v jitter)).el i k
          = a * (scaleRows (residual y mu) (cellScale v jitter)).el i k := by
      intro i k hi hk
      simp only [scaleRows, el_ofFn, hi, hk, and_self, if_true]
      rw [hres i k hi hk]; ring
    obtain ⟨s', hs', hmean⟩ := lmCore_affine (scaleRows (residual y' (a * mu + b)) (cellScale v jitter)) a b
      hcore hres'
    refine ⟨s', ?_, hmean⟩
    unfold lmCondInit
    simp only [hL, hpc]
    exact hs'

/-- **Column independence (DTC)**, for every noise form including the per-cell sigma vector. -/
theorem columns_independent_dtc {m c' : Nat} {cov : Cov ℝ} {x : Mat ℝ n d} {xu : Mat ℝ m d} {y : Mat ℝ n c}
    {y' : Mat ℝ n c'} {mu : ℝ} {sigma : Sigma ℝ n} {jitter : ℝ} {ycf : Option (AnyMat ℝ)} {yIsMean : Bool}
    {s : CondState ℝ m d c} {s' : CondState ℝ m d c'}
    (h : lmCondInit cov x xu y mu sigma jitter ycf yIsMean false = .ok s)
    (h' : lmCondInit cov x xu y' mu sigma jitter ycf yIsMean false = .ok s')
    (j j' : Nat) (hj : j < c) (hj' : j' < c') (hcol : ∀ i, i < n → y.el i j = y'.el i j') :
    ∀ xq : List ℝ, s.mean1 xq j = s'.mean1 xq j' := by
  have hres : ∀ i, i < n → (residual y mu).el i j = (residual y' mu).el i j' := by
    intro i hi
    simp only [residual, el_ofFn, hi, hj, hj', and_self, if_true, hcol i hi]
  obtain ⟨L, hL, hbr⟩ := lmCondInit_ok h
  obtain ⟨L', hL', hbr'⟩ := lmCondInit_ok h'
  have hLL : L' = L := Except.ok.inj (hL'.symm.trans hL)
  subst hLL
  rcases hbr with ⟨hpc, hcore⟩ | ⟨v, hpc, hcore⟩
  · rcases hbr' with ⟨_, hcore'⟩ | ⟨v', hpc', _⟩
    · exact lmCore_col hcore hcore' j j' hj hj' hres
    · rw [hpc] at hpc'; cases hpc'
  · rcases hbr' with ⟨hpc', _⟩ | ⟨v', hpc', hcore'⟩
    · rw [hpc] at hpc'; cases hpc'
    · have hvv : v' = v := Option.some.inj (hpc'.symm.trans hpc)
      subst hvv
      have hres' : ∀ i, i < n → (scaleRows (residual y mu) (cellScale v' jitter)).el i j
          = (scaleRows (residual y' mu) (cellScale v' jitter)).el i j' := by
        intro i hi
        simp only [scaleRows, el_ofFn, hi, hj, hj', and_self, if_true]
        rw [hres i hi]
      exact lmCore_col hcore hcore' j j' hj hj' hres'

/-- **Constant vector = scalar (DTC).**  With landmarks (`sparse_cholesky` / `fixed`, any number of them) a per-cell
    sigma vector with equal entries gives the prediction the scalar gives, at every query point and for every value
    column (`max(σ², jitter) > 0`, e.g. a positive jitter). -/
theorem const_vector_sigma_dtc {m : Nat} {cov : Cov ℝ} {x : Mat ℝ n d} {xu : Mat ℝ m d} {y : Mat ℝ n c} {mu : ℝ}
    {v : Vector ℝ n} {σ jitter : ℝ} {wu wu' : Bool} {s s' : CondState ℝ m d c}
    (hv : ∀ i, i < n → v.nth i = σ) (hpos : 0 < max (σ * σ) jitter)
    (h : lmCondInit cov x xu y mu (.vec v) jitter Option.none false wu = .ok s)
    (h' : lmCondInit cov x xu y mu (.scalar σ) jitter Option.none false wu' = .ok s') :
    ∀ (xq : List ℝ) (col : Nat), col < c → s.mean1 xq col = s'.mean1 xq col := by
  intro xq col hcol
  have hw := C01.dtc_const_vector_weights hv hpos h h'
  obtain ⟨_, hxb, hmu, hcov⟩ := C01.dtc_percell_weights_solve h
  obtain ⟨_, _, _, _, _, hxb', hmu', hcov'⟩ := C01.dtc_weights_solve h' (C01.perCell_scalar σ Option.none false)
  simp only [CondState.mean1, hxb, hmu, hcov, hxb', hmu', hcov']
  congr 1
  apply nsum_congr
  intro t ht
  have := congrFun (congrFun hw ⟨t, ht⟩) ⟨col, hcol⟩
  simp only [toM_apply] at this
  rw [this]

/-! ### shrinkage towards the prior mean -/

/-- In-sample residual of the full model: `predictor(xᵢ) − mu = (K w)ᵢ` for the weight column `w`. -/
theorem insample_residual {cov : Cov ℝ} {x : Mat ℝ n d} {y : Mat ℝ n c} {mu : ℝ} {sigma : Sigma ℝ n} {jitter : ℝ}
    {ycf : Option (AnyMat ℝ)} {yIsMean wu : Bool} {s : CondState ℝ n d c}
    (h : fullCondInit cov x y mu Option.none sigma jitter ycf yIsMean wu = .ok s) (i : Fin n) (col : Nat)
    (hc : col < c) :
    (s.mean x).el i col - mu = (toM (gram cov x x) *ᵥ fun j : Fin n => s.weights.el j col) i := by
  obtain ⟨K', _, _, hxb, hmu, hcov⟩ := C01.full_weights_solve h
  rw [C01.mean_rowwise s x i col i.isLt hc, C01.mean_formula, hmu, hxb, hcov, add_sub_cancel_left]
  simp only [Matrix.mulVec, dotProduct, toM_apply]
  rw [← sum_fin_eq_range (fun j => cov.k (x.row i) (x.row j) * s.weights.el j col)]
  apply Finset.sum_congr rfl
  intro j _
  rw [gram_el cov x x i j i.isLt j.isLt]

/-- **In-sample predictions of the full model shrink monotonically towards the prior mean as sigma grows.**
    For a positive semi-definite kernel (`PSD.PSDOn`: proved for ExpQuad / Linear expression trees, hypothesis
    for the other leaves), a scalar noise level and `σ² ≤ σ'²`, the in-sample deviation from the prior mean
    `Σᵢ (predictor(xᵢ) − mu)²` of every value column does not grow: the regulariser is `max(σ², jitter)` and
    ridge shrinkage (`Shrink.shrink_mono`) applies. -/
theorem shrinks_with_sigma {cov : Cov ℝ} {x : Mat ℝ n d} {y : Mat ℝ n c} {mu σ σ' jitter : ℝ} {wu wu' : Bool}
    {s s' : CondState ℝ n d c}
    (h : fullCondInit cov x y mu Option.none (.scalar σ) jitter Option.none false wu = .ok s)
    (h' : fullCondInit cov x y mu Option.none (.scalar σ') jitter Option.none false wu' = .ok s')
    (hk : PSD.PSDOn d cov.k) (hj : 0 ≤ jitter) (hσ : σ * σ ≤ σ' * σ') (col : Nat) (hc : col < c) :
    ∑ i ∈ range n, ((s'.mean x).el i col - mu) ^ 2 ≤ ∑ i ∈ range n, ((s.mean x).el i col - mu) ^ 2 := by
  obtain ⟨K1, hK1, hW1, _, _, _⟩ := C01.full_weights_solve h
  obtain ⟨K2, hK2, hW2, _, _, _⟩ := C01.full_weights_solve h'
  obtain ⟨K1', hK1', hN1⟩ := C01.noise_scalar cov x σ jitter
  obtain ⟨K2', hK2', hN2⟩ := C01.noise_scalar cov x σ' jitter
  have e1 : K1 = K1' := Except.ok.inj (hK1.symm.trans hK1')
  have e2 : K2 = K2' := Except.ok.inj (hK2.symm.trans hK2')
  subst e1; subst e2
  set K := toM (gram cov x x) with hKdef
  have hKpsd : K.PosSemidef := PSD.gram_psd hk x
  let w : Fin n → ℝ := fun j => s.weights.el j col
  let w' : Fin n → ℝ := fun j => s'.weights.el j col
  let r : Fin n → ℝ := fun i => (residual y mu).el i col
  have col_eq : ∀ (A : Mat ℝ n n) (S : CondState ℝ n d c), toM A * toM S.weights = toM (residual y mu) →
      toM A *ᵥ (fun j : Fin n => S.weights.el j col) = r := by
    intro A S hAS
    funext i
    have := congrFun (congrFun hAS i) ⟨col, hc⟩
    simpa [Matrix.mul_apply, Matrix.mulVec, dotProduct, r] using this
  have hw : (K + (max (σ * σ) jitter) • (1 : Matrix (Fin n) (Fin n) ℝ)) *ᵥ w = r := by
    rw [← hN1]; exact col_eq _ s hW1
  have hw' : (K + (max (σ' * σ') jitter) • (1 : Matrix (Fin n) (Fin n) ℝ)) *ᵥ w' = r := by
    rw [← hN2]; exact col_eq _ s' hW2
  have hs0 : 0 ≤ max (σ * σ) jitter := le_trans hj (le_max_right _ _)
  have hss : max (σ * σ) jitter ≤ max (σ' * σ') jitter := max_le_max hσ le_rfl
  have key := Shrink.shrink_mono K hKpsd hs0 hss w w' r hw hw'
  have conv : ∀ (S : CondState ℝ n d c) (wu0 : Bool) (σ0 : ℝ),
      fullCondInit cov x y mu Option.none (.scalar σ0) jitter Option.none false wu0 = .ok S →
      ∑ i ∈ range n, ((S.mean x).el i col - mu) ^ 2
        = (K *ᵥ fun j : Fin n => S.weights.el j col) ⬝ᵥ (K *ᵥ fun j : Fin n => S.weights.el j col) := by
    intro S wu0 σ0 hS
    rw [← sum_fin_eq_range (fun i => ((S.mean x).el i col - mu) ^ 2)]
    simp only [dotProduct]
    apply Finset.sum_congr rfl
    intro i _
    rw [insample_residual hS i col hc, sq]
  rw [conv s wu σ h, conv s' wu' σ' h']
  exact key

/-! ### non-vacuity -/
example : ∀ i k, i < 1 → k < 1 →
    (Mat.ofFn (n := 1) (m := 1) fun _ _ => (2 * 3 + 1 : ℝ)).el i k
      = 2 * (Mat.ofFn (n := 1) (m := 1) fun _ _ => (3 : ℝ)).el i k + 1 := by
  intro i k hi hk; simp [hi, hk]

end Mellon.C16
