import MellonProofs.Real
import MellonModel.Kernel
namespace Mellon.C05
end Mellon.C05
