/-
  C05 — Kernels compute their documented closed forms and are valid covariances.
  Property theorems only (helpers are in KernelLemmas.lean).  All statements are about the model
  `Mellon.Cov` at α = ℝ, for every expression tree, every point and every active-dims form.
-/
import MellonProofs.KernelLemmas
import MellonProofs.PSDJoint

namespace Mellon.C05
open Mellon

/-! ### distance -/

/-- `util.distance` is the Euclidean distance up to the 1e-12 squared-distance regulariser. -/
theorem dist_eq (x y : List ℝ) (h : x.length = y.length) :
    distance x y = Real.sqrt (sqdist x y + 1e-12) := distance_eq x y h

theorem dist_symm (x y : List ℝ) : distance x y = distance y x := distance_symm x y

/-- Coincident points are at distance `√1e-12 = 1e-6`. -/
theorem dist_self (x : List ℝ) : distance x x = Real.sqrt 1e-12 := distance_self x

/-! ### closed forms of the six kernels (`sel` = the node's own active columns) -/

theorem matern32_closed_form (ls : ℝ) (ad : ActiveDims) (x y : List ℝ) :
    (Cov.matern32 ls ad).k x y
      = (1 + Real.sqrt 3 * distance (select ad x) (select ad y) / ls)
          * Real.exp (-(Real.sqrt 3 * distance (select ad x) (select ad y) / ls)) := by
  simp only [Cov.k, matern32Profile_eq]

theorem matern52_closed_form (ls : ℝ) (ad : ActiveDims) (x y : List ℝ) :
    (Cov.matern52 ls ad).k x y
      = (1 + Real.sqrt 5 * distance (select ad x) (select ad y) / ls
            + 5 * distance (select ad x) (select ad y) ^ 2 / (3 * ls ^ 2))
          * Real.exp (-(Real.sqrt 5 * distance (select ad x) (select ad y) / ls)) := by
  simp only [Cov.k, matern52Profile_eq]

theorem expquad_closed_form (ls : ℝ) (ad : ActiveDims) (x y : List ℝ) :
    (Cov.expquad ls ad).k x y
      = Real.exp (-(distance (select ad x) (select ad y) ^ 2 / (2 * ls ^ 2))) := by
  simp only [Cov.k, expquadProfile_eq]

theorem exponential_closed_form (ls : ℝ) (ad : ActiveDims) (x y : List ℝ) :
    (Cov.exponential ls ad).k x y
      = Real.exp (-(distance (select ad x) (select ad y) / (2 * ls))) := by
  simp only [Cov.k, exponentialProfile_eq]

/-- The exponent is `−α` (the docstring of `RatQuad` prints `−α·l`; the code and this model use `−α`). -/
theorem ratquad_closed_form (alpha ls : ℝ) (ad : ActiveDims) (x y : List ℝ) :
    (Cov.ratquad alpha ls ad).k x y
      = (1 + distance (select ad x) (select ad y) ^ 2 / (2 * alpha * ls ^ 2)) ^ (-alpha) := by
  simp only [Cov.k, ratquadProfile_eq]

theorem linear_closed_form (ls : ℝ) (ad : ActiveDims) (x y : List ℝ) :
    (Cov.linear ls ad).k x y = dot (select ad x) (select ad y) / ls := rfl

/-! ### algebra nodes: pointwise sum / product / power on the node's own columns -/

theorem add_k (l r : Cov ℝ) (ad : ActiveDims) (x y : List ℝ) :
    (Cov.add l r ad).k x y = l.k (select ad x) (select ad y) + r.k (select ad x) (select ad y) := rfl

theorem addC_k (l : Cov ℝ) (c : ℝ) (ad : ActiveDims) (x y : List ℝ) :
    (Cov.addC l c ad).k x y = l.k (select ad x) (select ad y) + c := rfl

theorem mul_k (l r : Cov ℝ) (ad : ActiveDims) (x y : List ℝ) :
    (Cov.mul l r ad).k x y = l.k (select ad x) (select ad y) * r.k (select ad x) (select ad y) := rfl

theorem mulC_k (l : Cov ℝ) (c : ℝ) (ad : ActiveDims) (x y : List ℝ) :
    (Cov.mulC l c ad).k x y = l.k (select ad x) (select ad y) * c := rfl

theorem pow_k (l : Cov ℝ) (p : ℝ) (ad : ActiveDims) (x y : List ℝ) :
    (Cov.pow l p ad).k x y = (l.k (select ad x) (select ad y)) ^ p := rfl

/-- The time-aware covariance is (state kernel on all but the last column) × (time kernel on the
    last column). -/
theorem time_cov (base : ℝ → ActiveDims → Cov ℝ) (ls lsT : ℝ) (x y : List ℝ) :
    (timeCov base ls lsT).k x y
      = (base ls (.slice none (some (-1)) none)).k x y * (base lsT (.idx (-1))).k x y := rfl

theorem rangeList_nat (fuel s e : Nat) (h : e - s ≤ fuel) :
    rangeList fuel (s : Int) (e : Int) 1 = List.range' s (e - s) := by
  induction fuel generalizing s with
  | zero =>
    have : e - s = 0 := by omega
    simp [rangeList, this]
  | succ f ih =>
    unfold rangeList
    by_cases hlt : s < e
    · have c1 : ((1:Int) > 0 ∧ (s:Int) < (e:Int)) := by omega
      simp only [c1, true_or, if_true]
      have hds : e - s = (e - (s + 1)) + 1 := by omega
      rw [hds, List.range'_succ]
      congr 1
      have := ih (s + 1) (by omega)
      simpa using this
    · have c1 : ¬ (((1:Int) > 0 ∧ (s:Int) < (e:Int)) ∨ ((1:Int) < 0 ∧ (s:Int) > (e:Int))) := by omega
      have : e - s = 0 := by omega
      simp only [c1, if_false, this, List.range'_zero]

/-- With width `d + 1`, `slice(None, -1)` selects columns `0 … d-1` and index `-1` column `d`. -/
theorem time_cov_columns (d : Nat) :
    (ActiveDims.slice none (some (-1)) none).indices (d + 1) = some (List.range d)
    ∧ (ActiveDims.idx (-1)).indices (d + 1) = some [d] := by
  constructor
  · simp only [ActiveDims.indices, sliceIndices, Option.getD_none]
    have h1 : ¬ ((1:Int) = 0) := by decide
    have h2 : decide ((1:Int) < 0) = false := by decide
    simp only [h1, if_false, h2, adjustBound]
    have h3 : ((-1 : Int) < 0) := by decide
    have h4 : ¬ ((-1 : Int) + ((d + 1 : Nat) : Int) < 0) := by omega
    simp only [h3, if_true, h4, if_false, Bool.false_eq_true]
    have h5 : (-1 : Int) + ((d + 1 : Nat) : Int) = (d : Int) := by omega
    rw [h5]
    have := rangeList_nat (d + 1 + 1) 0 d (by omega)
    simp only [Nat.cast_zero, Nat.sub_zero] at this
    rw [this, List.range_eq_range']
  · simp only [ActiveDims.indices, resolveIdx]
    have h1 : ¬ ((0:Int) ≤ -1 ∧ (-1:Int) < ((d+1 : Nat) : Int)) := by omega
    have h2 : ((-1:Int) < 0 ∧ -((d+1 : Nat) : Int) ≤ -1) := by omega
    simp only [h1, if_false, h2, and_self, if_true, Option.map_some]
    congr 2
    omega

/-! ### symmetry, for every expression tree -/

theorem k_symm (c : Cov ℝ) (x y : List ℝ) : c.k x y = c.k y x := cov_k_symm c x y

/-! ### stationary kernels: values in (0, 1], unit self-covariance up to the regulariser -/

/-- The five distance-based kernels. -/
inductive Stationary : Cov ℝ → Prop
  | matern32 {ls ad} : 0 < ls → Stationary (.matern32 ls ad)
  | matern52 {ls ad} : 0 < ls → Stationary (.matern52 ls ad)
  | expquad {ls ad} : 0 < ls → Stationary (.expquad ls ad)
  | exponential {ls ad} : 0 < ls → Stationary (.exponential ls ad)
  | ratquad {a ls ad} : 0 < a → 0 < ls → Stationary (.ratquad a ls ad)

theorem stationary_range {c : Cov ℝ} (h : Stationary c) (x y : List ℝ) :
    0 < c.k x y ∧ c.k x y ≤ 1 := by
  cases h with
  | matern32 hls => exact matern32Profile_range hls (distance_nonneg _ _)
  | matern52 hls => exact matern52Profile_range hls (distance_nonneg _ _)
  | expquad hls => exact expquadProfile_range hls (distance_nonneg _ _)
  | exponential hls => exact exponentialProfile_range hls (distance_nonneg _ _)
  | ratquad ha hls => exact ratquadProfile_range ha hls (distance_nonneg _ _)

/-- Self-covariance is the profile at the regulariser distance `1e-6`: in `(0, 1]`, and it is
    `1` up to a term that vanishes with `1e-6/ls`. -/
theorem self_cov_matern32 (ls : ℝ) (ad : ActiveDims) (hls : 0 < ls) (x : List ℝ) :
    1 - (Real.sqrt 3 * Real.sqrt 1e-12 / ls) ^ 2 ≤ (Cov.matern32 ls ad).k x x
      ∧ (Cov.matern32 ls ad).k x x ≤ 1 := by
  refine ⟨?_, (stationary_range (.matern32 hls) x x).2⟩
  rw [matern32_closed_form, distance_self]
  have hd : (distEps : ℝ) = 1e-12 := rfl
  rw [hd]
  set r := Real.sqrt 3 * Real.sqrt 1e-12 / ls with hr
  have hr0 : 0 ≤ r := by positivity
  have h1 : 1 - r ≤ Real.exp (-r) := by linarith [Real.add_one_le_exp (-r)]
  calc 1 - r ^ 2 = (1 + r) * (1 - r) := by ring
    _ ≤ (1 + r) * Real.exp (-r) := by
        exact mul_le_mul_of_nonneg_left h1 (by linarith)

theorem self_cov_expquad (ls : ℝ) (ad : ActiveDims) (hls : 0 < ls) (x : List ℝ) :
    1 - 1e-12 / (2 * ls ^ 2) ≤ (Cov.expquad ls ad).k x x ∧ (Cov.expquad ls ad).k x x ≤ 1 := by
  refine ⟨?_, (stationary_range (.expquad hls) x x).2⟩
  rw [expquad_closed_form, distance_self]
  have hd : (distEps : ℝ) = 1e-12 := rfl
  rw [hd, Real.sq_sqrt (by norm_num)]
  linarith [Real.add_one_le_exp (-(1e-12 / (2 * ls ^ 2)))]

/-! ### diag shortcut and inactive dimensions -/

/-- `cov.diag(X)ᵢ = k(Xᵢ, Xᵢ)` — the diagonal of `cov(X, X)`. -/
theorem diag_eq {n d : Nat} (c : Cov ℝ) (X : Mat ℝ n d) (i : Nat) (hi : i < n) :
    (gramDiag c X).nth i = (gram c X X).el i i := by
  simp [gramDiag, gram, hi]

/-- Inactive dimensions never influence a value: the kernel only sees the selected columns of its
    root node. -/
theorem inactive_irrelevant (c : Cov ℝ) (x x' y y' : List ℝ)
    (hx : select c.ad x = select c.ad x') (hy : select c.ad y = select c.ad y') :
    c.k x y = c.k x' y' := by
  cases c <;> simp only [Cov.k, Cov.ad] at * <;> rw [hx, hy]

/-! ### positive semi-definiteness (partial: see DESIGN.md §3) -/

/-- Gram matrices of `k` are positive semi-definite. -/
def PSDKernel (k : List ℝ → List ℝ → ℝ) : Prop :=
  ∀ (n : Nat) (xs : Fin n → List ℝ) (a : Fin n → ℝ), 0 ≤ ∑ i, ∑ j, a i * a j * k (xs i) (xs j)

theorem dot_sum_left {n : Nat} (xs : Fin n → List ℝ) (a : Fin n → ℝ) (d : Nat)
    (hlen : ∀ i, (xs i).length = d) :
    ∃ v : List ℝ, v.length = d ∧ ∀ w : List ℝ, w.length = d → ∑ i, a i * dot (xs i) w = dot v w := by
  induction d generalizing xs with
  | zero =>
    refine ⟨[], rfl, fun w hw => ?_⟩
    have hw' : w = [] := List.length_eq_zero_iff.mp hw
    subst hw'
    have : ∀ i, xs i = [] := fun i => List.length_eq_zero_iff.mp (hlen i)
    simp [this, dot]
  | succ d ih =>
    have hne : ∀ i, xs i ≠ [] := fun i h => by have := hlen i; rw [h] at this; simp at this
    let hd : Fin n → ℝ := fun i => (xs i).head (hne i)
    let tl : Fin n → List ℝ := fun i => (xs i).tail
    have hcons : ∀ i, xs i = hd i :: tl i := fun i => (List.cons_head_tail (hne i)).symm
    obtain ⟨v, hv, hvw⟩ := ih tl (fun i => by simp [tl, hlen i])
    refine ⟨(∑ i, a i * hd i) :: v, by simp [hv], fun w hw => ?_⟩
    cases w with
    | nil => simp at hw
    | cons b bs =>
      have hbs : bs.length = d := by simpa using hw
      simp only [dot]
      rw [← hvw bs hbs, Finset.sum_mul, ← Finset.sum_add_distrib]
      apply Finset.sum_congr rfl
      intro i _
      rw [hcons i]; simp only [dot]; ring

/-- The Linear kernel (no active-dims restriction, equal-width points, `ls > 0`) is PSD:
    `Σᵢⱼ aᵢaⱼ⟨xᵢ,xⱼ⟩/ls = ‖Σᵢ aᵢxᵢ‖²/ls`. -/
theorem psd_linear (ls : ℝ) (hls : 0 < ls) (n d : Nat) (xs : Fin n → List ℝ) (a : Fin n → ℝ)
    (hlen : ∀ i, (xs i).length = d) :
    0 ≤ ∑ i, ∑ j, a i * a j * (Cov.linear ls .none).k (xs i) (xs j) := by
  obtain ⟨v, hv, hvw⟩ := dot_sum_left xs a d hlen
  have key : ∑ i, ∑ j, a i * a j * (Cov.linear ls .none).k (xs i) (xs j) = dot v v / ls := by
    have h1 : ∀ j, ∑ i, a i * dot (xs i) (xs j) = dot v (xs j) := fun j => hvw (xs j) (hlen j)
    have h2 : ∑ j, a j * dot (xs j) v = dot v v := hvw v hv
    calc ∑ i, ∑ j, a i * a j * (Cov.linear ls .none).k (xs i) (xs j)
        = ∑ j, a j * (∑ i, a i * dot (xs i) (xs j)) / ls := by
          rw [Finset.sum_comm]
          apply Finset.sum_congr rfl; intro j _
          rw [Finset.mul_sum, Finset.sum_div]
          apply Finset.sum_congr rfl; intro i _
          simp only [Cov.k, select]; ring
      _ = ∑ j, a j * dot (xs j) v / ls := by
          apply Finset.sum_congr rfl; intro j _
          rw [h1 j, dot_comm]
      _ = dot v v / ls := by rw [← Finset.sum_div, h2]
  rw [key]
  exact div_nonneg (dot_self_nonneg v) (le_of_lt hls)

/-- PSD kernels are closed under sums … -/
theorem psd_add {k1 k2 : List ℝ → List ℝ → ℝ} (h1 : PSDKernel k1) (h2 : PSDKernel k2) :
    PSDKernel (fun x y => k1 x y + k2 x y) := by
  intro n xs a
  have e : ∑ i, ∑ j, a i * a j * (k1 (xs i) (xs j) + k2 (xs i) (xs j))
      = ∑ i, ∑ j, a i * a j * k1 (xs i) (xs j) + ∑ i, ∑ j, a i * a j * k2 (xs i) (xs j) := by
    rw [← Finset.sum_add_distrib]
    apply Finset.sum_congr rfl; intro i _
    rw [← Finset.sum_add_distrib]
    apply Finset.sum_congr rfl; intro j _
    ring
  show 0 ≤ ∑ i, ∑ j, a i * a j * (k1 (xs i) (xs j) + k2 (xs i) (xs j))
  rw [e]
  exact add_nonneg (h1 n xs a) (h2 n xs a)

/-- … under adding a non-negative constant … -/
theorem psd_addC {k : List ℝ → List ℝ → ℝ} (h : PSDKernel k) {c : ℝ} (hc : 0 ≤ c) :
    PSDKernel (fun x y => k x y + c) := by
  intro n xs a
  have hsq : ∑ i, ∑ j, a i * a j * c = (∑ i, a i) ^ 2 * c := by
    rw [sq, Finset.sum_mul_sum, Finset.sum_mul]
    apply Finset.sum_congr rfl; intro i _
    rw [Finset.sum_mul]
  have hcn : 0 ≤ ∑ i, ∑ j, a i * a j * c := by rw [hsq]; positivity
  have e : ∑ i, ∑ j, a i * a j * (k (xs i) (xs j) + c)
      = ∑ i, ∑ j, a i * a j * k (xs i) (xs j) + ∑ i, ∑ j, a i * a j * c := by
    rw [← Finset.sum_add_distrib]
    apply Finset.sum_congr rfl; intro i _
    rw [← Finset.sum_add_distrib]
    apply Finset.sum_congr rfl; intro j _
    ring
  show 0 ≤ ∑ i, ∑ j, a i * a j * (k (xs i) (xs j) + c)
  rw [e]
  exact add_nonneg (h n xs a) hcn

/-- … under multiplication by a non-negative constant … -/
theorem psd_mulC {k : List ℝ → List ℝ → ℝ} (h : PSDKernel k) {c : ℝ} (hc : 0 ≤ c) :
    PSDKernel (fun x y => k x y * c) := by
  intro n xs a
  have e : ∑ i, ∑ j, a i * a j * (k (xs i) (xs j) * c)
      = (∑ i, ∑ j, a i * a j * k (xs i) (xs j)) * c := by
    rw [Finset.sum_mul]
    apply Finset.sum_congr rfl; intro i _
    rw [Finset.sum_mul]
    apply Finset.sum_congr rfl; intro j _
    ring
  show 0 ≤ ∑ i, ∑ j, a i * a j * (k (xs i) (xs j) * c)
  rw [e]
  exact mul_nonneg (h n xs a) hc

/-- … and under restriction to active columns. -/
theorem psd_select {k : List ℝ → List ℝ → ℝ} (h : PSDKernel k) (ad : ActiveDims) :
    PSDKernel (fun x y => k (select ad x) (select ad y)) :=
  fun n xs a => h n (fun i => select ad (xs i)) a

/-! ### positive semi-definiteness of whole expressions (`MellonProofs/PSDLemmas`, `PSDTree`, `PSDJoint`) -/

/-- **Schur product theorem**: the product node of two PSD kernels is PSD. -/
theorem psd_mul {d : Nat} {k1 k2 : List ℝ → List ℝ → ℝ} (h1 : PSD.PSDOn d k1) (h2 : PSD.PSDOn d k2) :
    PSD.PSDOn d (fun x y => k1 x y * k2 x y) := PSD.psdOn_mul h1 h2

/-- Natural powers of a PSD kernel are PSD. -/
theorem psd_pow_nat {d : Nat} {k : List ℝ → List ℝ → ℝ} (h : PSD.PSDOn d k) (m : Nat) :
    PSD.PSDOn d (fun x y => k x y ^ m) := PSD.psdOn_pow h m

/-- **ExpQuad is PSD** — as computed, with the `1e-12` regulariser inside the distance and any `active_dims`:
    `exp(−(‖x−y‖²+ε)/2ℓ²) = g(x) g(y) exp(⟨x,y⟩/ℓ²)`, and `exp` of a PSD kernel is PSD (power series + Schur
    product). -/
theorem psd_expquad {ls : ℝ} (hls : 0 < ls) (ad : ActiveDims) (d : Nat) : PSD.PSDOn d (Cov.expquad ls ad).k :=
  PSD.psdOn_expquad_leaf hls ad d

/-- **Every Gram matrix `cov_func(X, X)` of a kernel expression is positive semi-definite**, for expressions
    built from ExpQuad / Linear leaves (`ls > 0`), sums, products, non-negative scalar operands and natural
    exponents, with any `active_dims` at any node; `hyp` admits further leaves whose PSD-ness is assumed (the
    Matérn, Exponential and RatQuad kernels: Bochner's theorem is not available). -/
theorem gram_psd_of_tree {hyp : Cov ℝ → Prop} (hleaf : ∀ c, hyp c → ∀ d, PSD.PSDOn d c.k) {c : Cov ℝ}
    (h : PSD.PSDTree hyp c) {n d : Nat} (X : Mat ℝ n d) : (toM (gram c X X)).PosSemidef :=
  PSD.gram_psd (PSD.psdTree_psdOn hleaf h d) X

/-- … with no hypothesis for ExpQuad / Linear expressions. -/
theorem gram_psd_closed_tree {c : Cov ℝ} (h : PSD.PSDTree (fun _ => False) c) {n d : Nat} (X : Mat ℝ n d) :
    (toM (gram c X X)).PosSemidef :=
  PSD.gram_psd (PSD.psdTree_psdOn_closed h d) X

/-- The time-aware kernel `compute_cov_func(curry, ls, ls_time)` — state kernel on all but the last column times time
    kernel on the last — is positive semi-definite for the ExpQuad family: every Gram matrix on (state, time) points. -/
theorem timeCov_expquad_psd {ls lsTime : ℝ} (hls : 0 < ls) (hlt : 0 < lsTime) {n d : Nat} (X : Mat ℝ n d) :
    (toM (gram (timeCov Cov.expquad ls lsTime) X X)).PosSemidef := by
  apply gram_psd_closed_tree
  unfold timeCov
  exact .mul (.expquad hls) (.expquad hlt)

/-! ### non-vacuity -/

example : PSD.PSDTree (fun _ => False)
    (.mul (.pow (.expquad (2:ℝ) (.idx (-1))) ((2 : Nat) : ℝ) .none)
      (.addC (.add (.expquad 1 .none) (.linear 3 (.list [0, 0])) .none) 0.5 .none) .none) :=
  .mul (.pow 2 (.expquad (by norm_num))) (.addC (.add (.expquad (by norm_num)) (.linear (by norm_num))) (by norm_num))


example : Stationary (.matern52 (2:ℝ) .none) := .matern52 (by norm_num)
example : ([1, 2] : List ℝ).length = ([3, 4] : List ℝ).length := rfl

end Mellon.C05
