/-
  C06 — Predictive uncertainty is a valid covariance, consistent with the mean function.
  Property theorems only; the evaluation code is identical in the three families, so the
  statements are about `CondState` (any family) plus what each `*Init` stores in `L` and `W`.
-/
import MellonProofs.LinearityLemmas
import MellonProofs.SchurLemmas
import MellonProofs.C01
import Mathlib.LinearAlgebra.Matrix.PosDef
import Mathlib.Algebra.Order.Star.Real
import MellonProofs.PSDJoint
import MellonProofs.InducingMonoLemmas

open Matrix Finset

namespace Mellon.C06
open Mellon

variable {n m d c q : Nat}

/-! ### posterior covariance -/

/-- `covariance(X*, diag=False) = K** − AᵀA` with `L A = K_b*`, i.e. `K** − K*b (L Lᵀ)⁻¹ K_b*`. -/
theorem cov_formula (s : CondState ℝ m d c) {L : Mat ℝ m m} (hsL : s.L = some L) (hL : LowerNonsing L)
    (Xq : Mat ℝ q d) :
    ∃ C : Mat ℝ q q, s.covariance Xq = .ok C
      ∧ toM C = toM (gram s.cov Xq Xq) - (toM (s.covA L Xq))ᵀ * toM (s.covA L Xq)
      ∧ toM L * toM (s.covA L Xq) = toM (gram s.cov s.xb Xq) := by
  refine ⟨Mat.ofFn fun i k => s.cov.k (Xq.row i) (Xq.row k)
      - nsum m fun t => (s.covA L Xq).el t i * (s.covA L Xq).el t k, ?_, ?_, ?_⟩
  · simp only [CondState.covariance, hsL]
  · ext i k
    simp only [toM_apply, el_ofFn, i.isLt, k.isLt, and_self, if_true, Matrix.sub_apply, Matrix.mul_apply,
      Matrix.transpose_apply, nsum_eq_sum]
    rw [gram_el s.cov Xq Xq i k i.isLt k.isLt,
      sum_fin_eq_range (fun t => (s.covA L Xq).el t i * (s.covA L Xq).el t k)]
  · exact solveLowerM_mul hL _

/-- The posterior covariance is symmetric. -/
theorem cov_symm (s : CondState ℝ m d c) (Xq : Mat ℝ q d) {C : Mat ℝ q q} (h : s.covariance Xq = .ok C) :
    (toM C).IsSymm := by
  unfold CondState.covariance at h
  split at h
  · cases h
  · have hC := (Except.ok.inj h).symm; subst hC
    ext i k
    simp only [Matrix.transpose_apply, toM_apply, el_ofFn, i.isLt, k.isLt, and_self, if_true]
    rw [cov_k_symm]
    congr 1
    apply nsum_congr; intro t _; ring

/-- `covariance(X*)` (diag=True) is the diagonal of `covariance(X*, diag=False)`. -/
theorem cov_diag (s : CondState ℝ m d c) (Xq : Mat ℝ q d) {C : Mat ℝ q q} {v : Vector ℝ q}
    (hC : s.covariance Xq = .ok C) (hv : s.variance Xq = .ok v) (i : Nat) (hi : i < q) :
    v.nth i = C.el i i := by
  unfold CondState.covariance at hC
  unfold CondState.variance at hv
  split at hC
  · cases hC
  · rename_i L hL
    rw [hL] at hv
    have h1 := (Except.ok.inj hC).symm; subst h1
    have h2 := (Except.ok.inj hv).symm; subst h2
    simp [hi]

/-- Each variance is at most the prior variance `k(x,x)`. -/
theorem var_le_prior (s : CondState ℝ m d c) (Xq : Mat ℝ q d) {v : Vector ℝ q}
    (hv : s.variance Xq = .ok v) (i : Nat) (hi : i < q) :
    v.nth i ≤ s.cov.k (Xq.row i) (Xq.row i) := by
  unfold CondState.variance at hv
  split at hv
  · cases hv
  · rename_i L hL
    have h2 := (Except.ok.inj hv).symm; subst h2
    simp only [nth_vecOfFn, hi, if_true, nsum_eq_sum]
    have : 0 ≤ ∑ t ∈ range m, (s.covA L Xq).el t i * (s.covA L Xq).el t i :=
      Finset.sum_nonneg (fun t _ => mul_self_nonneg _)
    linarith

/-- **The posterior covariance is positive semi-definite** whenever the joint matrix
    `[[L Lᵀ, K_b*], [K_*b, K**]]` is — i.e. for a positive semi-definite kernel (named hypothesis for
    the five stationary kernels, DESIGN.md §3; `L Lᵀ` is the regularised kernel on the basis points). -/
theorem cov_psd (s : CondState ℝ m d c) {L : Mat ℝ m m} (hsL : s.L = some L) (hL : LowerNonsing L)
    (Xq : Mat ℝ q d) {C : Mat ℝ q q} (hC : s.covariance Xq = .ok C)
    (hjoint : (Matrix.fromBlocks (toM L * (toM L)ᵀ) (toM (gram s.cov s.xb Xq))
        (toM (gram s.cov s.xb Xq))ᵀ (toM (gram s.cov Xq Xq))).PosSemidef) :
    (toM C).PosSemidef := by
  obtain ⟨C', hC', hform, hLA⟩ := cov_formula s hsL hL Xq
  rw [hC] at hC'
  have : C = C' := Except.ok.inj hC'
  subst this
  rw [hform]
  exact schur_psd hL _ _ _ hLA hjoint

/-- Hence every variance is non-negative (and at most the prior variance, `var_le_prior`). -/
theorem var_nonneg (s : CondState ℝ m d c) {L : Mat ℝ m m} (hsL : s.L = some L) (hL : LowerNonsing L)
    (Xq : Mat ℝ q d) {C : Mat ℝ q q} (hC : s.covariance Xq = .ok C)
    (hjoint : (Matrix.fromBlocks (toM L * (toM L)ᵀ) (toM (gram s.cov s.xb Xq))
        (toM (gram s.cov s.xb Xq))ᵀ (toM (gram s.cov Xq Xq))).PosSemidef)
    (i : Nat) (hi : i < q) : 0 ≤ C.el i i := by
  have := (cov_psd s hsL hL Xq hC hjoint).diag_nonneg (i := ⟨i, hi⟩)
  simpa using this

/-- **Posterior covariance PSD from the kernel alone.**  When `L Lᵀ` is the kernel on the basis points plus a
    positive semi-definite regulariser `N` (what every constructor builds: `full_LLt`, `getL_spec`) and the
    kernel is positive semi-definite (`PSD.PSDOn`; proved for expressions over ExpQuad / Linear leaves by
    `PSD.psdTree_psdOn`), the posterior covariance is positive semi-definite. -/
theorem cov_psd_of_psd_kernel (s : CondState ℝ m d c) {L : Mat ℝ m m} (hsL : s.L = some L) (hL : LowerNonsing L)
    (Xq : Mat ℝ q d) {C : Mat ℝ q q} (hC : s.covariance Xq = .ok C)
    (hk : PSD.PSDOn d s.cov.k) {N : Matrix (Fin m) (Fin m) ℝ} (hN : N.PosSemidef)
    (hLLt : toM L * (toM L)ᵀ = toM (gram s.cov s.xb s.xb) + N) : (toM C).PosSemidef := by
  refine cov_psd s hsL hL Xq hC ?_
  rw [hLLt]
  have := PSD.joint_reg_psd hk s.xb Xq hN (Matrix.PosSemidef.zero (n := Fin q) (R := ℝ))
  simpa using this

/-- … and every posterior variance is non-negative. -/
theorem var_nonneg_of_psd_kernel (s : CondState ℝ m d c) {L : Mat ℝ m m} (hsL : s.L = some L)
    (hL : LowerNonsing L) (Xq : Mat ℝ q d) {C : Mat ℝ q q} (hC : s.covariance Xq = .ok C)
    (hk : PSD.PSDOn d s.cov.k) {N : Matrix (Fin m) (Fin m) ℝ} (hN : N.PosSemidef)
    (hLLt : toM L * (toM L)ᵀ = toM (gram s.cov s.xb s.xb) + N) (i : Nat) (hi : i < q) : 0 ≤ C.el i i := by
  have := (cov_psd_of_psd_kernel s hsL hL Xq hC hk hN hLLt).diag_nonneg (i := ⟨i, hi⟩)
  simpa using this

/-- **At conditioning points the covariance is the regulariser minus a Gram term**: with `L Lᵀ = K_bb + N`
    (`N` symmetric) the posterior covariance at the basis points themselves is `N − BᵀB` with `L B = N`
    (equivalently `N − N (K_bb + N)⁻¹ N`). -/
theorem cov_at_conditioning (s : CondState ℝ m d c) {L : Mat ℝ m m} (hsL : s.L = some L) (hL : LowerNonsing L)
    {C : Mat ℝ m m} (hC : s.covariance s.xb = .ok C) {N : Matrix (Fin m) (Fin m) ℝ} (hN : N.IsSymm)
    (hLLt : toM L * (toM L)ᵀ = toM (gram s.cov s.xb s.xb) + N) :
    ∃ B : Matrix (Fin m) (Fin m) ℝ, toM L * B = N ∧ toM C = N - Bᵀ * B := by
  obtain ⟨C', hC', hform, hLA⟩ := cov_formula s hsL hL s.xb
  rw [hC] at hC'
  have : C = C' := Except.ok.inj hC'
  subst this
  have hdet := lowerNonsing_isUnit_det hL
  set Lm := toM L with hLm
  set A := toM (s.covA L s.xb) with hA
  set K := toM (gram s.cov s.xb s.xb) with hK
  have hinv : Lm⁻¹ * Lm = 1 := Matrix.nonsing_inv_mul _ hdet
  have hinv' : Lm * Lm⁻¹ = 1 := Matrix.mul_nonsing_inv _ hdet
  refine ⟨Lm⁻¹ * N, by rw [← Matrix.mul_assoc, hinv', Matrix.one_mul], ?_⟩
  -- A = L⁻¹ K = L⁻¹ (L Lᵀ − N) = Lᵀ − L⁻¹ N
  have hAeq : A = Lmᵀ - Lm⁻¹ * N := by
    have h1 : A = Lm⁻¹ * K := by
      rw [← hLA, ← Matrix.mul_assoc, hinv, Matrix.one_mul]
    have h2 : K = Lm * Lmᵀ - N := by rw [hLLt]; abel
    rw [h1, h2, Matrix.mul_sub, ← Matrix.mul_assoc, hinv, Matrix.one_mul]
  rw [hform, hAeq]
  have hLB : Lm * (Lm⁻¹ * N) = N := by rw [← Matrix.mul_assoc, hinv', Matrix.one_mul]
  have hBL : (Lm⁻¹ * N)ᵀ * Lmᵀ = N := by
    rw [← Matrix.transpose_mul, hLB, hN.eq]
  have hK2 : K = Lm * Lmᵀ - N := by rw [hLLt]; abel
  rw [hK2, Matrix.transpose_sub, Matrix.transpose_transpose, Matrix.sub_mul, Matrix.mul_sub, Matrix.mul_sub,
    hLB, hBL]
  abel

/-- **Variances at conditioning points are at most the regulariser's diagonal** — for jitter-only
    regularisation (`N = jitter · I`): `var(x_b) ≤ jitter`; together with `var_nonneg_of_psd_kernel` they
    are "of the order of the jitter". -/
theorem var_at_conditioning_le (s : CondState ℝ m d c) {L : Mat ℝ m m} (hsL : s.L = some L)
    (hL : LowerNonsing L) {C : Mat ℝ m m} (hC : s.covariance s.xb = .ok C)
    {N : Matrix (Fin m) (Fin m) ℝ} (hN : N.IsSymm)
    (hLLt : toM L * (toM L)ᵀ = toM (gram s.cov s.xb s.xb) + N) (i : Fin m) : C.el i i ≤ N i i := by
  obtain ⟨B, _, hCB⟩ := cov_at_conditioning s hsL hL hC hN hLLt
  have h := congrFun (congrFun hCB i) i
  simp only [toM_apply, Matrix.sub_apply, Matrix.mul_apply, Matrix.transpose_apply] at h
  rw [h]
  have : 0 ≤ ∑ t, B t i * B t i := Finset.sum_nonneg fun t _ => mul_self_nonneg _
  linarith

/-- … in particular `var(x_b) ≤ jitter` when the regulariser is `jitter · I`. -/
theorem var_at_conditioning_le_jitter (s : CondState ℝ m d c) {L : Mat ℝ m m} (hsL : s.L = some L)
    (hL : LowerNonsing L) {C : Mat ℝ m m} (hC : s.covariance s.xb = .ok C) {jitter : ℝ}
    (hLLt : toM L * (toM L)ᵀ = toM (gram s.cov s.xb s.xb) + jitter • (1 : Matrix (Fin m) (Fin m) ℝ))
    (i : Fin m) : C.el i i ≤ jitter := by
  have hsym : (jitter • (1 : Matrix (Fin m) (Fin m) ℝ)).IsSymm := by
    rw [Matrix.IsSymm, Matrix.transpose_smul, Matrix.transpose_one]
  have := var_at_conditioning_le s hsL hL hC hsym hLLt i
  simpa using this

/-- The explained variance at a query row, `Σₜ Aₜᵢ²` with `L A = K_b*`, as `z · k` for the solution of
    `(L Lᵀ) z = k`, `k` the cross-covariance column of that row. -/
theorem explained_as_quad {L : Mat ℝ m m} (hL : LowerNonsing L) (A Kbq : Matrix (Fin m) (Fin q) ℝ)
    (hLA : toM L * A = Kbq) (i : Fin q) :
    ∃ z : Fin m → ℝ, (toM L * (toM L)ᵀ) *ᵥ z = (fun t => Kbq t i) ∧ z ⬝ᵥ (fun t => Kbq t i) = ∑ t, A t i * A t i := by
  have hdet := lowerNonsing_isUnit_det hL
  set Lm := toM L
  have hdetT : IsUnit (Lmᵀ).det := by rw [Matrix.det_transpose]; exact hdet
  let a : Fin m → ℝ := fun t => A t i
  have hcol : Lm *ᵥ a = fun t => Kbq t i := by
    funext t
    have := congrFun (congrFun hLA t) i
    simpa [Matrix.mul_apply, Matrix.mulVec, dotProduct] using this
  refine ⟨(Lmᵀ)⁻¹ *ᵥ a, ?_, ?_⟩
  · rw [Matrix.mulVec_mulVec, Matrix.mul_assoc, Matrix.mul_nonsing_inv _ hdetT, Matrix.mul_one, hcol]
  · rw [← hcol, Matrix.dotProduct_mulVec, ← Matrix.mulVec_transpose, Matrix.mulVec_mulVec,
      Matrix.mul_nonsing_inv _ hdetT, Matrix.one_mulVec]
    rfl

/-- **Variances never increase when inducing points are added.**  `s` conditions on `m` basis points, `s'`
    on `m + k` whose first `m` are those of `s`, with the same kernel and regularisers that agree on the
    common block (e.g. `jitter · I` for both); then every posterior variance of `s'` is at most that of `s`. -/
theorem var_antitone_in_inducing {k : Nat} (s : CondState ℝ m d c) (s' : CondState ℝ (m + k) d c)
    (hcov : s'.cov = s.cov) (hrows : ∀ i : Fin m, s'.xb.row (i : Nat) = s.xb.row i)
    {L : Mat ℝ m m} {L' : Mat ℝ (m + k) (m + k)} (hsL : s.L = some L) (hsL' : s'.L = some L')
    (hL : LowerNonsing L) (hL' : LowerNonsing L')
    {N : Matrix (Fin m) (Fin m) ℝ} {N' : Matrix (Fin (m + k)) (Fin (m + k)) ℝ}
    (hNN : ∀ i j : Fin m, N i j = N' (Fin.castAdd k i) (Fin.castAdd k j))
    (hLLt : toM L * (toM L)ᵀ = toM (gram s.cov s.xb s.xb) + N)
    (hLLt' : toM L' * (toM L')ᵀ = toM (gram s'.cov s'.xb s'.xb) + N')
    (Xq : Mat ℝ q d) {C C' : Mat ℝ q q} (hC : s.covariance Xq = .ok C) (hC' : s'.covariance Xq = .ok C')
    (i : Fin q) : C'.el i i ≤ C.el i i := by
  obtain ⟨C0, hC0, hform, hLA⟩ := cov_formula s hsL hL Xq
  obtain ⟨C0', hC0', hform', hLA'⟩ := cov_formula s' hsL' hL' Xq
  rw [hC] at hC0; rw [hC'] at hC0'
  have e1 : C = C0 := Except.ok.inj hC0
  have e2 : C' = C0' := Except.ok.inj hC0'
  subst e1; subst e2
  obtain ⟨z, hz, hzq⟩ := explained_as_quad hL _ _ hLA i
  obtain ⟨u, hu, huq⟩ := explained_as_quad hL' _ _ hLA' i
  -- L' L'ᵀ is positive semi-definite
  have hM : (toM L' * (toM L')ᵀ).PosSemidef := by
    have := Matrix.posSemidef_self_mul_conjTranspose (toM L')
    rwa [Matrix.conjTranspose_eq_transpose_of_trivial] at this
  have hA : ∀ a b : Fin m, (toM L * (toM L)ᵀ) a b
      = (toM L' * (toM L')ᵀ) (Fin.castAdd k a) (Fin.castAdd k b) := by
    intro a b
    rw [hLLt, hLLt', Matrix.add_apply, Matrix.add_apply, hNN a b, toM_apply, toM_apply,
      gram_el s.cov s.xb s.xb a b a.isLt b.isLt,
      gram_el s'.cov s'.xb s'.xb _ _ (Fin.castAdd k a).isLt (Fin.castAdd k b).isLt, hcov]
    simp only [Fin.val_castAdd]
    rw [hrows a, hrows b]
  have hv : (fun t : Fin m => toM (gram s.cov s.xb Xq) t i)
      = fun t : Fin m => toM (gram s'.cov s'.xb Xq) (Fin.castAdd k t) i := by
    funext t
    rw [toM_apply, toM_apply, gram_el s.cov s.xb Xq t i t.isLt i.isLt,
      gram_el s'.cov s'.xb Xq _ i (Fin.castAdd k t).isLt i.isLt, hcov]
    simp only [Fin.val_castAdd]
    rw [hrows t]
  have key := InducingMono.quad_inv_mono (toM L' * (toM L')ᵀ) hM (toM L * (toM L)ᵀ) hA u
    (fun t => toM (gram s'.cov s'.xb Xq) t i) hu z (by rw [hz, hv])
  rw [← hv, hzq, huq] at key
  simp only [toM_apply] at key
  have hCi := congrFun (congrFun hform i) i
  have hCi' := congrFun (congrFun hform' i) i
  simp only [toM_apply, Matrix.sub_apply, Matrix.mul_apply, Matrix.transpose_apply] at hCi hCi'
  rw [hCi, hCi', hcov]
  linarith

/-! ### covariance of the mean -/

/-- The factor `cov_L = k(X*, basis) @ W` as a matrix. -/
noncomputable def covLMat (s : CondState ℝ m d c) (W : AnyMat ℝ) (Xq : Mat ℝ q d) :
    Matrix (Fin q) (Fin W.c) ℝ := fun i k => s.covL W Xq i k

/-- `mean_covariance(X*, diag=False) = (K*b W)(K*b W)ᵀ`. -/
theorem meancov_formula (s : CondState ℝ m d c) {W : AnyMat ℝ} (hW : s.W = some W) (Xq : Mat ℝ q d) :
    ∃ M : Mat ℝ q q, s.meanCovariance Xq = .ok M ∧ toM M = covLMat s W Xq * (covLMat s W Xq)ᵀ := by
  refine ⟨Mat.ofFn fun i k => nsum W.c fun t =>
      (Mat.ofFn (n := q) (m := W.c) fun i k => s.covL W Xq i k).el i t
        * (Mat.ofFn (n := q) (m := W.c) fun i k => s.covL W Xq i k).el k t, ?_, ?_⟩
  · simp only [CondState.meanCovariance, hW]
  ext i k
  simp only [toM_apply, el_ofFn, i.isLt, k.isLt, and_self, if_true, Matrix.mul_apply,
    Matrix.transpose_apply, nsum_eq_sum, covLMat]
  rw [sum_fin_eq_range (fun t => s.covL W Xq i t * s.covL W Xq k t)]
  apply Finset.sum_congr rfl
  intro t ht
  have : t < W.c := Finset.mem_range.mp ht
  simp [this]

/-- The covariance of the mean is symmetric positive semi-definite — unconditionally. -/
theorem meancov_psd (s : CondState ℝ m d c) (Xq : Mat ℝ q d) {M : Mat ℝ q q}
    (h : s.meanCovariance Xq = .ok M) : (toM M).PosSemidef := by
  unfold CondState.meanCovariance at h
  split at h
  · cases h
  · rename_i W hW
    obtain ⟨M', hM', hform⟩ := meancov_formula s hW Xq
    unfold CondState.meanCovariance at hM'
    rw [hW] at hM'
    have : M = M' := by
      have h1 := Except.ok.inj h; have h2 := Except.ok.inj hM'; rw [← h1, ← h2]
    subst this
    rw [hform]
    have := Matrix.posSemidef_self_mul_conjTranspose (covLMat s W Xq)
    simpa [Matrix.conjTranspose_eq_transpose_of_trivial] using this

theorem meancov_symm (s : CondState ℝ m d c) (Xq : Mat ℝ q d) {M : Mat ℝ q q}
    (h : s.meanCovariance Xq = .ok M) : (toM M).IsSymm := by
  have := (meancov_psd s Xq h).isHermitian
  show (toM M)ᵀ = toM M
  simpa [Matrix.IsHermitian, Matrix.conjTranspose_eq_transpose_of_trivial] using this

/-- `mean_covariance(X*)` (diag=True) is the diagonal of the full one. -/
theorem meancov_diag (s : CondState ℝ m d c) (Xq : Mat ℝ q d) {M : Mat ℝ q q} {v : Vector ℝ q}
    (hM : s.meanCovariance Xq = .ok M) (hv : s.meanVariance Xq = .ok v) (i : Nat) (hi : i < q) :
    v.nth i = M.el i i := by
  unfold CondState.meanCovariance at hM
  unfold CondState.meanVariance at hv
  split at hM
  · cases hM
  · rename_i W hW
    rw [hW] at hv
    have h1 := (Except.ok.inj hM).symm; subst h1
    have h2 := (Except.ok.inj hv).symm; subst h2
    simp [hi]

/-! ### what `W` is: the input covariance factor pushed through the solve of the mean -/

/-- Full GP: `W` solves `(K + N) W = Σ_L` where `Σ_L` is the stated input-covariance factor
    (`sigma·I`, `diag(sigma)`, or the supplied `L · diag(std)`). -/
theorem full_W_solves {cov : Cov ℝ} {x : Mat ℝ n d} {y : Mat ℝ n c} {mu : ℝ} {sigma : Sigma ℝ n}
    {jitter : ℝ} {ycf : Option (AnyMat ℝ)} {yIsMean : Bool} {s : CondState ℝ n d c}
    (h : fullCondInit cov x y mu Option.none sigma jitter ycf yIsMean true = .ok s) :
    ∃ (K' L : Mat ℝ n n) (F W : AnyMat ℝ), C01.fullSystem cov x sigma jitter ycf yIsMean = .ok K'
      ∧ s.L = some L ∧ toM L * (toM L)ᵀ = toM K' ∧ s.W = some W ∧ W.c = F.c
      ∧ ∀ i k, i < n → k < F.c → ∑ t ∈ range n, K'.el i t * W.el t k = F.el i k := by
  unfold fullCondInit at h
  split at h
  · cases h
  · rename_i L s1 y1 hc
    obtain ⟨K', hK', hchol, hsym⟩ := C01.condL_none_spec hc
    simp only [Bool.not_true, Bool.false_eq_true, if_false] at h
    split at h
    · cases h
    · rename_i W hW
      have hs := Except.ok.inj h; subst hs
      unfold fullUnc at hW
      split at hW
      · cases hW
      · rename_i F hF
        split at hW
        · cases hW
        · have hWW := (Except.ok.inj hW).symm; subst hWW
          refine ⟨K', L, F, _, hK', rfl, hchol.mul_transpose hsym, rfl, rfl, ?_⟩
          intro i k hi hk
          have hmul := choSolveM_mul hchol hsym (Mat.ofFn (n := n) (m := F.c) fun i k => F.el i k)
          have hentry := congrFun (congrFun hmul ⟨i, hi⟩) ⟨k, hk⟩
          simp only [Matrix.mul_apply, toM_apply, el_ofFn, hi, hk, and_self, if_true] at hentry
          rw [sum_fin_eq_range (fun t => K'.el i t *
            (choSolveM L (Mat.ofFn (n := n) (m := F.c) fun i k => F.el i k)).el t k)] at hentry
          simpa [choSolveAny, AnyMat.el] using hentry

/-- DTC outside the per-cell branch (scalar sigma, explicit factor, or values that are the mean; the per-cell branch is
    `dtc_percell_W_solves`): the factor `W` solves the same inducing-point system as the weights, with the input factor
    `Σ_L` (one row per cell: `sigma·I_n`, `diag(sigma)`, or the supplied `L·diag(std)`) as right-hand side:
    `(L N Lᵀ + K_uf K_fu) W = K_uf Σ_L`. -/
theorem dtc_W_solves {cov : Cov ℝ} {x : Mat ℝ n d} {xu : Mat ℝ m d} {y : Mat ℝ n c} {mu : ℝ}
    {sigma : Sigma ℝ n} {jitter : ℝ} {ycf : Option (AnyMat ℝ)} {yIsMean : Bool} {s : CondState ℝ m d c}
    (h : lmCondInit cov x xu y mu sigma jitter ycf yIsMean true = .ok s)
    (hpc : lmPerCell sigma ycf yIsMean = Option.none) :
    ∃ (L : Mat ℝ m m) (N : Matrix (Fin m) (Fin m) ℝ) (F W : AnyMat ℝ),
      C01.dtcNoise m sigma jitter ycf yIsMean = .ok N ∧ sigmaToYCovFactor sigma ycf = .ok F
      ∧ s.L = some L ∧ s.W = some W ∧ F.r = n ∧ W.c = F.c
      ∧ (toM L * N * (toM L)ᵀ + toM (gram cov xu x) * (toM (gram cov xu x))ᵀ)
            * toM (Mat.ofFn (n := m) (m := F.c) fun i k => W.el i k)
          = toM (gram cov xu x) * toM (Mat.ofFn (n := n) (m := F.c) fun i k => F.el i k) := by
  obtain ⟨L, hL, hbr⟩ := lmCondInit_ok h
  obtain ⟨hLns, _⟩ := getL_none_LLt hL
  rcases hbr with ⟨_, hcore⟩ | ⟨v, hv, _⟩
  · obtain ⟨LLB, LB, hLLB, hLB, _, _, _, _, _, _, hunc⟩ := lmCore_ok hcore
    obtain ⟨W, hW, hsL, hsW⟩ := hunc rfl
    obtain ⟨N, hN, hLLBeq, hNsym⟩ := C01.lmLLB_spec hLLB
    obtain ⟨F, hF, hFr, hWc, hWeq⟩ := lmUnc_spec hW
    have hLA : toM L * toM (solveLowerM L (gram cov xu x)) = toM (gram cov xu x) := solveLowerM_mul hLns _
    have hLLB' : toM LLB = toM (solveLowerM L (gram cov xu x)) * (toM (solveLowerM L (gram cov xu x)))ᵀ + N := by
      rw [hLLBeq, matMulT_toM]
    have key := dtc_solve (p := F.c) hLns hLA (chol?_spec hLB) hLLB' hNsym
      (Mat.ofFn (n := n) (m := F.c) fun i k => F.el i k)
    refine ⟨L, N, F, W, hN, hF, hsL, hsW, hFr, hWc, ?_⟩
    rw [hWeq]
    exact key
  · rw [hpc] at hv; cases hv

/-- **DTC with per-cell noise.**  For a per-cell sigma vector the propagated factor `W` (`m × n`, one column per cell) solves
    the heteroscedastic inducing-point system of the weights (`C01.dtc_percell_weights_solve`) with the stated noise as
    right-hand side:

      `(K̃_uu + K_uf D⁻¹ K_fu) · W = K_uf D⁻¹ diag(σ)`,   `D = diag(max(σᵢ², jitter))`.

    With `M = (K̃_uu + K_uf D⁻¹ K_fu)⁻¹ K_uf D⁻¹` the linear map from the values to the weights, `W = M diag(σ)`, hence
    `W Wᵀ = M diag(σ²) Mᵀ`: `mean_covariance = J diag(σ²) Jᵀ` with `J = K_*u M` the linear map from the values to the predicted
    mean — the STATED noise, also for cells whose `σᵢ²` lies below the jitter (the floor `D` only enters the weights). -/
theorem dtc_percell_W_solves {cov : Cov ℝ} {x : Mat ℝ n d} {xu : Mat ℝ m d} {y : Mat ℝ n c} {mu : ℝ}
    {v : Vector ℝ n} {jitter : ℝ} {s : CondState ℝ m d c}
    (h : lmCondInit cov x xu y mu (.vec v) jitter Option.none false true = .ok s) :
    ∃ (L : Mat ℝ m m) (W : AnyMat ℝ), s.L = some L ∧ s.W = some W ∧ W.c = n
      ∧ toM L * (toM L)ᵀ = toM (gram cov xu xu) + jitter • (1 : Matrix (Fin m) (Fin m) ℝ)
      ∧ (toM (gram cov xu xu) + jitter • (1 : Matrix (Fin m) (Fin m) ℝ)
          + toM (gram cov xu x) * Matrix.diagonal (fun i : Fin n => (max (v.nth i * v.nth i) jitter)⁻¹)
              * (toM (gram cov xu x))ᵀ) * toM (Mat.ofFn (n := m) (m := n) fun i k => W.el i k)
        = toM (gram cov xu x)
            * Matrix.diagonal (fun i : Fin n => (max (v.nth i * v.nth i) jitter)⁻¹)
            * Matrix.diagonal (fun i : Fin n => v.nth i) := by
  obtain ⟨L, hL, hbr⟩ := lmCondInit_ok h
  obtain ⟨hLns, hLLt⟩ := getL_none_LLt hL
  rcases hbr with ⟨hnone, _⟩ | ⟨v', hv', hcore⟩
  · rw [C01.perCell_vec] at hnone; cases hnone
  · rw [C01.perCell_vec] at hv'
    have hvv : v = v' := Option.some.inj hv'
    subst hvv
    obtain ⟨LLB, LB, hLLB, hLB, _, _, _, _, _, _, hunc⟩ := lmCore_ok hcore
    obtain ⟨W, hW, hsL, hsW⟩ := hunc rfl
    obtain ⟨F, hF, hFr, hWc, hWeq⟩ := lmUnc_spec hW
    -- the factor is the stated noise in whitened units, diag(σᵢ · scaleᵢ)
    have hFe : F = ⟨n, n, Mat.ofFn fun i k => if i = k then (cellNoise v jitter).nth i else 0⟩ := by
      simp only [sigmaToYCovFactor, sigmaFactor] at hF
      exact (Except.ok.inj hF).symm
    subst hFe
    have hLLBe : LLB = _ := (Except.ok.inj hLLB).symm
    set S := Matrix.diagonal (toV (cellScale v jitter)) with hS
    set A := solveLowerM L (gram cov xu x) with hA
    have hLA0 : toM L * toM A = toM (gram cov xu x) := solveLowerM_mul hLns _
    have hLA : toM L * toM (scaleCols A (cellScale v jitter))
        = toM (scaleCols (gram cov xu x) (cellScale v jitter)) := by
      rw [toM_scaleCols, toM_scaleCols, ← Matrix.mul_assoc, hLA0]
    have hLLB' : toM LLB = toM (scaleCols A (cellScale v jitter)) * (toM (scaleCols A (cellScale v jitter)))ᵀ
        + (1 : Matrix (Fin m) (Fin m) ℝ) := by
      rw [hLLBe, toM_addEye, matMulT_toM]
    have key := dtc_solve (p := n) hLns hLA (chol?_spec hLB) hLLB' Matrix.isSymm_one
      (Mat.ofFn (n := n) (m := n) fun i k => if i = k then (cellNoise v jitter).nth i else 0)
    have hT : toM (Mat.ofFn (n := n) (m := n) fun i k => if i = k then (cellNoise v jitter).nth i else 0)
        = S * Matrix.diagonal (fun i : Fin n => v.nth i) := by
      rw [hS, Matrix.diagonal_mul_diagonal]
      ext i k
      simp only [toM_apply, el_ofFn, i.isLt, k.isLt, and_self, if_true, Matrix.diagonal_apply]
      by_cases hik : i = k
      · subst hik
        simp only [if_true, toV_apply, cellNoise, nth_vecOfFn, i.isLt]
        ring
      · have : ¬ (i.val = k.val) := fun hh => hik (Fin.ext hh)
        simp [hik, this]
    simp only [AnyMat.el] at hWeq key
    rw [ofFn_el (Mat.ofFn (n := n) (m := n) fun i k => if i = k then (cellNoise v jitter).nth i else 0)] at hWeq
    rw [← hWeq, Matrix.mul_one, hLLt, toM_scaleCols, hT, ← hS] at key
    have hSS : S * S = Matrix.diagonal (fun i : Fin n => (max (v.nth i * v.nth i) jitter)⁻¹) :=
      cellScale_sq v jitter
    have hSt : Sᵀ = S := Matrix.diagonal_transpose _
    refine ⟨L, W, hsL, hsW, hWc, hLLt, ?_⟩
    rw [← hSS]
    calc (toM (gram cov xu xu) + jitter • (1 : Matrix (Fin m) (Fin m) ℝ)
            + toM (gram cov xu x) * (S * S) * (toM (gram cov xu x))ᵀ)
              * toM (Mat.ofFn (n := m) (m := n) fun i k => W.M.el i k)
        = (toM (gram cov xu xu) + jitter • (1 : Matrix (Fin m) (Fin m) ℝ)
            + toM (gram cov xu x) * S * (toM (gram cov xu x) * S)ᵀ)
              * toM (Mat.ofFn (n := m) (m := n) fun i k => W.M.el i k) := by
          rw [Matrix.transpose_mul, hSt]; simp only [Matrix.mul_assoc]
      _ = toM (gram cov xu x) * S * (S * Matrix.diagonal (fun i : Fin n => v.nth i)) := key
      _ = toM (gram cov xu x) * (S * S) * Matrix.diagonal (fun i : Fin n => v.nth i) := by
          simp only [Matrix.mul_assoc]

/-- Latent form: `W` solves `Lᵀ W = diag(std)` (the latent posterior standard deviations). -/
theorem latent_W_solves {cov : Cov ℝ} {xu : Mat ℝ m d} {z : Mat ℝ m c} {mu : ℝ} {nObs : Nat}
    {L : Mat ℝ m m} (hL : LowerNonsing L) {sigma : Sigma ℝ m} {jitter : ℝ} {yIsMean : Bool}
    {s : CondState ℝ m d c}
    (h : lmCholCondInit cov xu z mu nObs (some L) sigma jitter yIsMean true = .ok s) :
    ∃ (Stds W : AnyMat ℝ), sigmaFactor sigma = some Stds ∧ s.W = some W ∧ s.L = some L
      ∧ ∀ i k, i < m → k < Stds.c → ∑ t ∈ range m, L.el t i * W.el t k = Stds.el i k := by
  unfold lmCholCondInit condL at h
  simp only [Bool.not_true, Bool.false_eq_true, if_false] at h
  split at h
  · cases h
  · rename_i Stds hS
    have hs := Except.ok.inj h; subst hs
    refine ⟨Stds, _, hS, rfl, rfl, ?_⟩
    intro i k hi hk
    have hmul := solveUpperTM_mul hL (Mat.ofFn (n := m) (m := Stds.c) fun i k => Stds.el i k)
    have hentry := congrFun (congrFun hmul ⟨i, hi⟩) ⟨k, hk⟩
    simp only [Matrix.mul_apply, Matrix.transpose_apply, toM_apply, el_ofFn, hi, hk, and_self,
      if_true] at hentry
    rw [sum_fin_eq_range (fun t => L.el t i *
      (solveUpperTM L (Mat.ofFn (n := m) (m := Stds.c) fun i k => Stds.el i k)).el t k)] at hentry
    simpa [solveUpperTAny, AnyMat.el] using hentry

/-- **Linear propagation.** Shifting the training values by a column `f` of the input factor moves
    the prediction at `x*` by `Σⱼ k(x*, xⱼ) (K+N)⁻¹ f`: the weights are additive in the values, so
    `mean_covariance = J Σ Jᵀ` with `J` the linear map of the mean. -/
theorem mean_shift_linear {cov : Cov ℝ} {x : Mat ℝ n d} {y y' f : Mat ℝ n c} {mu : ℝ}
    {Lg : Option (Mat ℝ n n)} {sigma : Sigma ℝ n} {jitter : ℝ} {ycf : Option (AnyMat ℝ)} {yIsMean : Bool}
    {s s' sf : CondState ℝ n d c}
    (h : fullCondInit cov x y mu Lg sigma jitter ycf yIsMean false = .ok s)
    (h' : fullCondInit cov x y' mu Lg sigma jitter ycf yIsMean false = .ok s')
    (hf : fullCondInit cov x f 0 Lg sigma jitter ycf yIsMean false = .ok sf)
    (hy' : ∀ i k, i < n → k < c → y'.el i k = y.el i k + f.el i k) :
    ∀ (xq : List ℝ) (col : Nat), col < c → s'.mean1 xq col - s.mean1 xq col = sf.mean1 xq col := by
  unfold fullCondInit at h h' hf
  split at h
  · cases h
  · rename_i L s1 y1 hc
    try rw [hc] at h'
    try rw [hc] at hf
    simp only [Bool.not_false, if_true] at h h' hf
    have e1 := (Except.ok.inj h).symm; subst e1
    have e2 := (Except.ok.inj h').symm; subst e2
    have e3 := (Except.ok.inj hf).symm; subst e3
    intro xq col hcol
    have hres : ∀ i k, i < n → k < c →
        (residual y' mu).el i k = (residual y mu).el i k + (residual f 0).el i k := by
      intro i k hi hk
      simp only [residual, el_ofFn, hi, hk, and_self, if_true, hy' i k hi hk]; ring
    have hw := choSolveM_add L (residual y' mu) (residual y mu) (residual f 0) hres
    simp only [CondState.mean1, nsum_eq_sum]
    have : ∑ j ∈ range n, cov.k xq (x.row j) * (choSolveM L (residual y' mu)).el j col
        = ∑ j ∈ range n, cov.k xq (x.row j) * (choSolveM L (residual y mu)).el j col
          + ∑ j ∈ range n, cov.k xq (x.row j) * (choSolveM L (residual f 0)).el j col := by
      rw [← Finset.sum_add_distrib]
      apply Finset.sum_congr rfl
      intro j hj
      rw [hw j col (Finset.mem_range.mp hj) hcol]; ring
    rw [this]; ring

/-! ### total uncertainty and guards -/

/-- `uncertainty = covariance + mean_covariance`, entry by entry. -/
theorem uncertainty_sum (s : CondState ℝ m d c) (Xq : Mat ℝ q d) {C M U : Mat ℝ q q}
    (hC : s.covariance Xq = .ok C) (hM : s.meanCovariance Xq = .ok M) (hU : s.uncertainty Xq = .ok U)
    (i k : Nat) (hi : i < q) (hk : k < q) : U.el i k = C.el i k + M.el i k := by
  unfold CondState.uncertainty at hU
  rw [hC, hM] at hU
  simp only [bind, Except.bind, pure, Except.pure] at hU
  have := (Except.ok.inj hU).symm; subst this
  simp [hi, hk]

/-- The total uncertainty is never below the posterior variance: `uncertaintyᵢᵢ ≥ covarianceᵢᵢ` (the covariance of the mean is
    positive semi-definite, unconditionally), and the total uncertainty matrix is positive semi-definite whenever the posterior
    covariance is. -/
theorem uncertainty_ge_covariance (s : CondState ℝ m d c) (Xq : Mat ℝ q d) {C M U : Mat ℝ q q}
    (hC : s.covariance Xq = .ok C) (hM : s.meanCovariance Xq = .ok M) (hU : s.uncertainty Xq = .ok U)
    (i : Nat) (hi : i < q) : C.el i i ≤ U.el i i := by
  rw [uncertainty_sum s Xq hC hM hU i i hi hi]
  have := (meancov_psd s Xq hM).diag_nonneg (i := ⟨i, hi⟩)
  simp only [toM_apply] at this
  linarith

theorem uncertainty_psd (s : CondState ℝ m d c) (Xq : Mat ℝ q d) {C M U : Mat ℝ q q}
    (hC : s.covariance Xq = .ok C) (hM : s.meanCovariance Xq = .ok M) (hU : s.uncertainty Xq = .ok U)
    (hCpsd : (toM C).PosSemidef) : (toM U).PosSemidef := by
  have e : toM U = toM C + toM M := by
    ext i k
    simp only [toM_apply, Matrix.add_apply]
    exact uncertainty_sum s Xq hC hM hU i k i.isLt k.isLt
  rw [e]
  exact hCpsd.add (meancov_psd s Xq hM)

/-- A predictor built without uncertainty refuses covariance, mean covariance and uncertainty. -/
theorem guards (s : CondState ℝ m d c) (hL : s.L = Option.none) (hW : s.W = Option.none) (Xq : Mat ℝ q d) :
    s.covariance Xq = .error .noCovariance ∧ s.variance Xq = .error .noCovariance
      ∧ s.meanCovariance Xq = .error .noUncertainty ∧ s.meanVariance Xq = .error .noUncertainty
      ∧ s.uncertainty Xq = .error .noCovariance := by
  refine ⟨by simp [CondState.covariance, hL], by simp [CondState.variance, hL],
    by simp [CondState.meanCovariance, hW], by simp [CondState.meanVariance, hW], ?_⟩
  simp [CondState.uncertainty, CondState.covariance, hL, bind, Except.bind]

/-- Building without uncertainty stores neither `L` nor `W`. -/
theorem built_without_uncertainty {cov : Cov ℝ} {x : Mat ℝ n d} {y : Mat ℝ n c} {mu : ℝ}
    {Lg : Option (Mat ℝ n n)} {sigma : Sigma ℝ n} {jitter : ℝ} {ycf : Option (AnyMat ℝ)} {yIsMean : Bool}
    {s : CondState ℝ n d c}
    (h : fullCondInit cov x y mu Lg sigma jitter ycf yIsMean false = .ok s) :
    s.L = Option.none ∧ s.W = Option.none := by
  unfold fullCondInit at h
  split at h
  · cases h
  · simp only [Bool.not_false, if_true] at h
    have := (Except.ok.inj h).symm; subst this
    exact ⟨rfl, rfl⟩

end Mellon.C06
