/-
  MellonProofs.StagedLemmas — helper lemmas for C18: compute-if-None preparation on the caches
  (preservation, idempotence, seeding with precomputed values), the invariant of the staged state machine
  and its preservation by every operation, success lemmas for the stages.
-/
import MellonModel.Staged

namespace Mellon.Staged
variable {Attr V : Type} [DecidableEq Attr]

/-! ### `_prepare_attribute` / `prepare_inference` on the caches -/

@[simp] theorem orCompute_some (v : V) (f : Option V) : orCompute (some v) f = some v := rfl
@[simp] theorem orCompute_none (f : Option V) : orCompute none f = f := rfl

theorem stepAttr_other (P : Pipeline Attr) (Fn : Funs Attr V) (d : Nat) (a b : Attr) (c : Cache Attr V)
    (h : b ≠ a) : stepAttr P Fn d a c b = c b := by
  simp [stepAttr, h]

theorem stepAttr_self (P : Pipeline Attr) (Fn : Funs Attr V) (d : Nat) (a : Attr) (c : Cache Attr V) :
    stepAttr P Fn d a c a = orCompute (c a) (Fn.F a d (view (P.reads a) c)) := by
  simp [stepAttr]

/-- compute-if-None never overwrites -/
theorem stepAttr_keeps (P : Pipeline Attr) (Fn : Funs Attr V) (d : Nat) (a b : Attr) (c : Cache Attr V) (v : V)
    (h : c b = some v) : stepAttr P Fn d a c b = some v := by
  by_cases hb : b = a
  · subst hb; rw [stepAttr_self, h]; rfl
  · rw [stepAttr_other P Fn d a b c hb, h]

theorem stepAttr_fix (P : Pipeline Attr) (Fn : Funs Attr V) (d : Nat) (a : Attr) (c : Cache Attr V)
    (h : c a = none → Fn.F a d (view (P.reads a) c) = none) : stepAttr P Fn d a c = c := by
  funext b
  by_cases hb : b = a
  · subst hb
    rw [stepAttr_self]
    cases hc : c b with
    | some v => rfl
    | none => simp [h hc]
  · exact stepAttr_other P Fn d a b c hb

theorem prepL_notMem (P : Pipeline Attr) (Fn : Funs Attr V) (d : Nat) (as : List Attr) (c : Cache Attr V) (b : Attr)
    (h : b ∉ as) : prepL P Fn d as c b = c b := by
  induction as generalizing c with
  | nil => rfl
  | cons a as ih =>
    simp only [List.mem_cons, not_or] at h
    simp only [prepL]
    rw [ih _ h.2, stepAttr_other P Fn d a b c h.1]

theorem prepL_keeps (P : Pipeline Attr) (Fn : Funs Attr V) (d : Nat) (as : List Attr) (c : Cache Attr V) (b : Attr)
    (v : V) (h : c b = some v) : prepL P Fn d as c b = some v := by
  induction as generalizing c with
  | nil => exact h
  | cons a as ih =>
    simp only [prepL]
    exact ih _ (stepAttr_keeps P Fn d a b c v h)

theorem prepL_append (P : Pipeline Attr) (Fn : Funs Attr V) (d : Nat) (as bs : List Attr) (c : Cache Attr V) :
    prepL P Fn d (as ++ bs) c = prepL P Fn d bs (prepL P Fn d as c) := by
  induction as generalizing c with
  | nil => rfl
  | cons a as ih => simp only [List.cons_append, prepL]; exact ih _

theorem prepL_fix (P : Pipeline Attr) (Fn : Funs Attr V) (d : Nat) (as : List Attr) (c : Cache Attr V)
    (h : ∀ a ∈ as, stepAttr P Fn d a c = c) : prepL P Fn d as c = c := by
  induction as with
  | nil => rfl
  | cons a as ih =>
    simp only [prepL]
    rw [h a (List.mem_cons_self)]
    exact ih (fun b hb => h b (List.mem_cons_of_mem _ hb))

theorem view_congr (rs : List Attr) (c c' : Cache Attr V) (h : ∀ b ∈ rs, c b = c' b) : view rs c = view rs c' := by
  funext b
  unfold view
  by_cases hb : b ∈ rs
  · simp [hb, h b hb]
  · simp [hb]

/-- The structural condition under which prepared caches are stable: the stage order has no repetition and
    every compute function either reads only attributes prepared before it, or never returns `None`
    (`compute_n_landmarks`, `compute_rank` read `gp_type` / `landmarks`, which come later). -/
structure WellStaged (P : Pipeline Attr) (Fn : Funs Attr V) : Prop where
  nodup : P.order.Nodup
  early : ∀ pre a post, P.order = pre ++ a :: post →
    (∀ b ∈ P.reads a, b ∈ pre) ∨ (∀ d vw, (Fn.F a d vw).isSome = true)

/-- the cache at the moment attribute `a` is prepared, and the final value of `a` -/
theorem prepAll_at (P : Pipeline Attr) (Fn : Funs Attr V) (hW : WellStaged P Fn) (d : Nat) (c : Cache Attr V)
    (pre : List Attr) (a : Attr) (post : List Attr) (ho : P.order = pre ++ a :: post) :
    prepAll P Fn d c a = stepAttr P Fn d a (prepL P Fn d pre c) a ∧
    (∀ b ∈ pre, prepAll P Fn d c b = prepL P Fn d pre c b) ∧
    (∀ b, b ∉ pre → prepL P Fn d pre c b = c b) := by
  have hnd := hW.nodup
  rw [ho] at hnd
  have hnd' := List.nodup_append.mp hnd
  have ha_post : a ∉ post := (List.nodup_cons.mp hnd'.2.1).1
  refine ⟨?_, ?_, fun b hb => prepL_notMem P Fn d pre c b hb⟩
  · unfold prepAll
    rw [ho, prepL_append]
    simp only [prepL]
    exact prepL_notMem P Fn d post _ a ha_post
  · intro b hb
    unfold prepAll
    rw [ho, prepL_append]
    apply prepL_notMem
    intro hmem
    exact hnd'.2.2 b hb b hmem rfl

/-- preparing twice is preparing once (`prepare_inference` / `fit` again on a prepared estimator) -/
theorem prepAll_idem (P : Pipeline Attr) (Fn : Funs Attr V) (hW : WellStaged P Fn) (d : Nat) (c : Cache Attr V) :
    prepAll P Fn d (prepAll P Fn d c) = prepAll P Fn d c := by
  apply prepL_fix
  intro a ha
  obtain ⟨pre, post, ho⟩ := List.append_of_mem ha
  obtain ⟨hRa, hpre, hnot⟩ := prepAll_at P Fn hW d c pre a post ho
  apply stepAttr_fix
  intro hnone
  -- the final value of `a` is None: so it was None when prepared and its computation gave None
  rw [hRa, stepAttr_self] at hnone
  have hMa : prepL P Fn d pre c a = none := by
    cases hm : prepL P Fn d pre c a with
    | none => rfl
    | some v => rw [hm] at hnone; cases hnone
  rw [hMa, orCompute_none] at hnone
  rcases hW.early pre a post ho with hearly | htotal
  · have hv : view (P.reads a) (prepAll P Fn d c) = view (P.reads a) (prepL P Fn d pre c) :=
      view_congr _ _ _ (fun b hb => hpre b (hearly b hb))
    rw [hv, hnone]
  · have := htotal d (view (P.reads a) (prepL P Fn d pre c))
    rw [hnone] at this; cases this


theorem orCompute_self (o : Option V) : orCompute o o = o := by cases o <;> rfl

theorem seed_aux (P : Pipeline Attr) (Fn : Funs Attr V) (hW : WellStaged P Fn) (d : Nat) (c : Cache Attr V)
    (S : List Attr)
    (hS : ∀ pre a post, P.order = pre ++ a :: post → ∀ b ∈ P.reads a, b ∉ pre → b ∈ S →
      c b = prepAll P Fn d c b ∨ (c a).isSome = true) :
    ∀ post pre, P.order = pre ++ post → ∀ cur : Cache Attr V,
      (∀ b ∈ pre, cur b = prepAll P Fn d c b) →
      (∀ b, b ∉ pre → cur b = seed S c (prepAll P Fn d c) b) →
      prepL P Fn d post cur = prepAll P Fn d c := by
  intro post
  induction post with
  | nil =>
    intro pre ho cur h1 h2
    simp only [List.append_nil] at ho
    funext b
    simp only [prepL]
    by_cases hb : b ∈ pre
    · exact h1 b hb
    · rw [h2 b hb]
      have hR : prepAll P Fn d c b = c b := by
        unfold prepAll; exact prepL_notMem P Fn d _ c b (by rw [ho]; exact hb)
      unfold seed
      rw [hR]
      split
      · exact orCompute_self _
      · rfl
  | cons a post ih =>
    intro pre ho cur h1 h2
    simp only [prepL]
    have ho' : P.order = (pre ++ [a]) ++ post := by rw [ho]; simp
    obtain ⟨hRa, hpre, hnot⟩ := prepAll_at P Fn hW d c pre a post ho
    have hnd := hW.nodup
    rw [ho] at hnd
    have hnd' := List.nodup_append.mp hnd
    have ha_pre : a ∉ pre := fun hm => hnd'.2.2 a hm a List.mem_cons_self rfl
    apply ih (pre ++ [a]) ho'
    · intro b hb
      rcases List.mem_append.mp hb with hb | hb
      · have hba : b ≠ a := fun h => ha_pre (h ▸ hb)
        rw [stepAttr_other P Fn d a b cur hba]; exact h1 b hb
      · have hba : b = a := by simpa using hb
        subst hba
        rw [stepAttr_self, h2 b ha_pre, hRa, stepAttr_self, hnot b ha_pre]
        cases hc : c b with
        | some v =>
          have : seed S c (prepAll P Fn d c) b = some v := by
            unfold seed; split <;> simp [hc]
          rw [this]; rfl
        | none =>
          simp only [orCompute_none]
          cases hs : seed S c (prepAll P Fn d c) b with
          | some w =>
            -- seeded with the fitted model's value
            simp only [orCompute_some]
            unfold seed at hs
            split at hs
            · rw [hc, orCompute_none, hRa, stepAttr_self, hnot b ha_pre, hc, orCompute_none] at hs
              exact hs.symm
            · rw [hc] at hs; cases hs
          | none =>
            simp only [orCompute_none]
            congr 1
            apply view_congr
            intro r hr
            by_cases hrp : r ∈ pre
            · rw [h1 r hrp, hpre r hrp]
            · rw [h2 r hrp, hnot r hrp]
              unfold seed
              split
              · rename_i hrS
                rcases hS pre b post ho r hr hrp hrS with heq | hsome
                · rw [← heq]; exact orCompute_self _
                · rw [hc] at hsome; cases hsome
              · rfl
    · intro b hb
      simp only [List.mem_append, List.mem_singleton, not_or] at hb
      rw [stepAttr_other P Fn d a b cur hb.2]
      exact h2 b hb.1

/-- A fresh estimator that is handed any subset `S` of a fitted model's intermediates prepares to exactly
    the fitted model's caches — provided no compute function reads, *before it is prepared*, a seeded
    attribute that the original model did not have at that time (`n_landmarks` reads `landmarks`). -/
theorem prepAll_seed (P : Pipeline Attr) (Fn : Funs Attr V) (hW : WellStaged P Fn) (d : Nat) (c : Cache Attr V)
    (S : List Attr)
    (hS : ∀ pre a post, P.order = pre ++ a :: post → ∀ b ∈ P.reads a, b ∉ pre → b ∈ S →
      c b = prepAll P Fn d c b ∨ (c a).isSome = true) :
    prepAll P Fn d (seed S c (prepAll P Fn d c)) = prepAll P Fn d c := by
  unfold prepAll
  exact seed_aux P Fn hW d c S hS P.order [] rfl _ (by intro b hb; cases hb) (by intro b _; rfl)

end Mellon.Staged
namespace Mellon.Staged
variable {Attr V : Type} [DecidableEq Attr]

/-! ### what one-shot fitting computes from (constructor arguments, data set) -/

section ref
variable (P : Pipeline Attr) (Fn : Funs Attr V) (d : Nat) (init : Cache Attr V)

def refCache : Cache Attr V := prepAll P Fn d init
def refPre : V := Fn.opt (view P.optReads (refCache P Fn d init))
def refFit : V := Fn.post (view P.postReads (refCache P Fn d init)) (refPre P Fn d init)
def refPred : V :=
  Fn.cond d (view P.condReads (refCache P Fn d init)) (refPre P Fn d init)
    (if Fn.condNeedsY (view P.condReads (refCache P Fn d init)) then some (refFit P Fn d init) else none)

/-- The configuration is one on which a one-shot fit goes through: after preparation the optimiser,
    the post-processing and the predictor construction find the attributes they need. -/
def Legal : Prop :=
  allSet P.optReads (refCache P Fn d init) = true ∧ allSet P.postReads (refCache P Fn d init) = true ∧
  allSet P.condReq (refCache P Fn d init) = true

/-- `loss_func` (more generally: something the optimiser needs) is not a constructor argument, so a fresh
    estimator cannot run inference before it has been prepared. -/
def NotPreparedAtInit : Prop := allSet P.optReads init = false

/-- Every filled cache of the estimator equals what one-shot fitting computes from the constructor
    arguments and the data set `d`; the bound object holds `d`. -/
structure Inv (s : State Attr V) : Prop where
  x_ok : ∀ t, s.x = some t → t.content = d ∧ t.jax = true
  cache_ok : s.cache = init ∨ (s.cache = refCache P Fn d init ∧ s.x ≠ none)
  pre_ok : ∀ v, s.pre = some v → v = refPre P Fn d init ∧ s.cache = refCache P Fn d init ∧ s.x ≠ none
  fitted_ok : ∀ v, s.fitted = some v → v = refFit P Fn d init ∧ s.pre ≠ none
  pred_ok : ∀ v, s.predictor = some v → v = refPred P Fn d init

end ref

/-- every data object mentioned by the operation holds the data set `d` -/
def Op.onData (d : Nat) : Op → Prop
  | .setX (some t) => t.content = d
  | .prepare (some t) => t.content = d
  | .fit (some t) _ => t.content = d
  | .fitPredict (some t) _ => t.content = d
  | _ => True

variable (P : Pipeline Attr) (Fn : Funs Attr V) (d : Nat) (init : Cache Attr V)

theorem inv_init (n : Nat) : Inv P Fn d init (initState init n) where
  x_ok := by intro t h; cases h
  cache_ok := Or.inl rfl
  pre_ok := by intro v h; cases h
  fitted_ok := by intro v h; cases h
  pred_ok := by intro v h; cases h

theorem canon_ok (s : State Attr V) (t : Tok) (h : t.content = d) :
    (canon s t).1.content = d ∧ (canon s t).1.jax = true := by
  unfold canon
  by_cases hj : t.jax = true
  · simp [hj, h]
  · simp [hj, h]

theorem inv_bindX {s : State Attr V} (hI : Inv P Fn d init s) (t : Tok) (ht : t.content = d) (hx : s.x = none)
    (hc : s.cache = init) : Inv P Fn d init (bindX s t) := by
  refine ⟨?_, Or.inl hc, ?_, ?_, ?_⟩
  · intro t' h
    simp only [bindX] at h
    injection h with h; subst h
    exact canon_ok d s t ht
  · intro v h
    have := hI.pre_ok v h
    exact absurd hx this.2.2
  · intro v h
    have := hI.fitted_ok v h
    refine ⟨this.1, this.2⟩
  · exact hI.pred_ok

/-- an unbound estimator has not been prepared -/
theorem Inv.unbound_cache {s : State Attr V} (hI : Inv P Fn d init s) (hx : s.x = none) : s.cache = init := by
  rcases hI.cache_ok with h | ⟨_, h⟩
  · exact h
  · exact absurd hx h

theorem inv_setX {s : State Attr V} (hI : Inv P Fn d init s) (a : Option Tok)
    (ha : ∀ t, a = some t → t.content = d) : Inv P Fn d init (doSetX s a).2 := by
  unfold doSetX
  cases hx : s.x with
  | some b =>
    cases a with
    | some t => simp only; split <;> exact hI
    | none => exact hI
  | none =>
    cases a with
    | some t => exact inv_bindX P Fn d init hI t (ha t rfl) hx (hI.unbound_cache P Fn d init hx)
    | none => exact hI

theorem inv_prepare (hW : WellStaged P Fn) {s : State Attr V} (hI : Inv P Fn d init s) (a : Option Tok)
    (ha : ∀ t, a = some t → t.content = d) : Inv P Fn d init (doPrepare P Fn s a).2 := by
  have hI1 := inv_setX P Fn d init hI a ha
  unfold doPrepare
  cases hs : doSetX s a with
  | mk o s1 =>
    rw [hs] at hI1
    simp only at hI1
    cases o with
    | ok =>
      simp only
      cases hx : s1.x with
      | none => exact hI1
      | some b =>
        simp only
        have hb := hI1.x_ok b hx
        have hc : prepAll P Fn b.content s1.cache = refCache P Fn d init := by
          rw [hb.1]
          rcases hI1.cache_ok with h | ⟨h, _⟩
          · rw [h]; rfl
          · rw [h]; exact prepAll_idem P Fn hW d init
        refine ⟨?_, Or.inr ⟨hc, by simp⟩, ?_, ?_, ?_⟩
        · intro t h
          simp only at h
          exact hI1.x_ok t (hx.trans h)
        · intro v h
          have := hI1.pre_ok v h
          exact ⟨this.1, hc, by simp⟩
        · exact hI1.fitted_ok
        · exact hI1.pred_ok
    | valueError => exact hI1
    | error => exact hI1

theorem inv_run (hN : NotPreparedAtInit P init) {s : State Attr V} (hI : Inv P Fn d init s) :
    Inv P Fn d init (doRun P Fn s).2 := by
  unfold doRun
  by_cases h : allSet P.optReads s.cache = true
  · rw [if_pos h]
    have hc : s.cache = refCache P Fn d init ∧ s.x ≠ none := by
      rcases hI.cache_ok with h' | h'
      · rw [h'] at h; unfold NotPreparedAtInit at hN; rw [hN] at h; cases h
      · exact h'
    refine ⟨hI.x_ok, hI.cache_ok, ?_, ?_, hI.pred_ok⟩
    · intro v hv
      simp only at hv
      injection hv with hv
      refine ⟨?_, hc.1, hc.2⟩
      rw [← hv, hc.1]; rfl
    · intro v hv
      exact ⟨(hI.fitted_ok v hv).1, by simp⟩
  · rw [if_neg h]; exact hI

theorem inv_buildPredictor {s : State Attr V} (hI : Inv P Fn d init s) :
    Inv P Fn d init (buildPredictor P Fn s).2 := by
  unfold buildPredictor
  split
  · rename_i b p hx hp
    simp only
    split
    · rename_i hg
      refine ⟨hI.x_ok, hI.cache_ok, hI.pre_ok, hI.fitted_ok, ?_⟩
      intro v hv
      simp only at hv
      injection hv with hv
      obtain ⟨hp1, hc, _⟩ := hI.pre_ok p hp
      have hb := (hI.x_ok b hx).1
      rw [← hv, hc, hp1, hb]
      unfold refPred
      congr 1
      by_cases hy : Fn.condNeedsY (view P.condReads (refCache P Fn d init)) = true
      · simp only [hy, if_true]
        rw [hc, hy] at hg
        simp only [Bool.and_eq_true, Bool.not_true, Bool.false_or] at hg
        cases hf : s.fitted with
        | none => rw [hf] at hg; simp at hg
        | some w => rw [(hI.fitted_ok w hf).1]
      · simp [hy]
    · exact hI
  · exact hI

theorem inv_process {s : State Attr V} (hI : Inv P Fn d init s) (b : Bool) :
    Inv P Fn d init (doProcess P Fn s b).2 := by
  unfold doProcess
  split
  · rename_i p hp
    split
    · obtain ⟨hp1, hc, hx⟩ := hI.pre_ok p hp
      have hI1 : Inv P Fn d init { s with fitted := some (Fn.post (view P.postReads s.cache) p) } := by
        refine ⟨hI.x_ok, hI.cache_ok, hI.pre_ok, ?_, hI.pred_ok⟩
        intro v hv
        simp only at hv
        injection hv with hv
        refine ⟨?_, by simp [hp]⟩
        rw [← hv, hc, hp1]; rfl
      simp only
      cases b
      · exact ⟨hI1.x_ok, hI1.cache_ok, hI1.pre_ok, hI1.fitted_ok, by intro v hv; cases hv⟩
      · exact inv_buildPredictor P Fn d init hI1
    · exact hI
  · exact hI

theorem inv_predict {s : State Attr V} (hI : Inv P Fn d init s) : Inv P Fn d init (doPredict P Fn s).2 := by
  unfold doPredict
  split
  · exact hI
  · exact inv_buildPredictor P Fn d init hI

theorem inv_fit (hW : WellStaged P Fn) (hN : NotPreparedAtInit P init) {s : State Attr V}
    (hI : Inv P Fn d init s) (a : Option Tok) (ha : ∀ t, a = some t → t.content = d) (b : Bool) :
    Inv P Fn d init (doFit P Fn s a b).2 := by
  have h1 := inv_prepare P Fn d init hW hI a ha
  unfold doFit
  cases hp : doPrepare P Fn s a with
  | mk o s1 =>
    rw [hp] at h1
    cases o with
    | ok =>
      simp only
      have h2 := inv_run P Fn d init hN h1
      cases hr : doRun P Fn s1 with
      | mk o2 s2 =>
        rw [hr] at h2
        cases o2 with
        | ok => exact inv_process P Fn d init h2 b
        | valueError => exact h2
        | error => exact h2
    | valueError => exact h1
    | error => exact h1

theorem inv_nextId {s : State Attr V} (hI : Inv P Fn d init s) (n : Nat) : Inv P Fn d init { s with nextId := n } :=
  ⟨hI.x_ok, hI.cache_ok, hI.pre_ok, hI.fitted_ok, hI.pred_ok⟩

theorem inv_fitPredict (hW : WellStaged P Fn) (hN : NotPreparedAtInit P init) {s : State Attr V}
    (hI : Inv P Fn d init s) (a : Option Tok) (ha : ∀ t, a = some t → t.content = d) (b : Bool) :
    Inv P Fn d init (doFitPredict P Fn s a b).2 := by
  unfold doFitPredict
  cases hx : s.x with
  | some b' =>
    cases a with
    | some t =>
      simp only
      split
      · exact inv_fit P Fn d init hW hN hI _ ha b
      · exact hI
    | none => exact inv_fit P Fn d init hW hN hI none (by intro t h; cases h) b
  | none =>
    cases a with
    | some t =>
      simp only
      have hI' : Inv P Fn d init
          { x := none, cache := s.cache, pre := s.pre, fitted := s.fitted, predictor := s.predictor,
            nextId := (canon s t).2 } := by
        have := inv_nextId P Fn d init hI (canon s t).2
        rw [hx] at this
        exact this
      apply inv_fit P Fn d init hW hN hI'
      intro t' h
      injection h with h
      rw [← h]
      exact (canon_ok d s t (ha t rfl)).1
    | none => exact hI

theorem inv_step' (hW : WellStaged P Fn) (hN : NotPreparedAtInit P init) {s : State Attr V}
    (hI : Inv P Fn d init s) (op : Op) (hop : op.onData d) : Inv P Fn d init (step P Fn s op).2 := by
  cases op with
  | setX a =>
    apply inv_setX P Fn d init hI a
    intro t h; subst h; exact hop
  | prepare a =>
    apply inv_prepare P Fn d init hW hI a
    intro t h; subst h; exact hop
  | run => exact inv_run P Fn d init hN hI
  | process b => exact inv_process P Fn d init hI b
  | fit a b =>
    apply inv_fit P Fn d init hW hN hI a _ b
    intro t h; subst h; exact hop
  | predict => exact inv_predict P Fn d init hI
  | fitPredict a b =>
    apply inv_fitPredict P Fn d init hW hN hI a _ b
    intro t h; subst h; exact hop


/-! ### when the stages succeed -/

theorem canon_content (s : State Attr V) (t : Tok) : (canon s t).1.content = t.content := by
  unfold canon; split <;> rfl

theorem doRun_ok {s : State Attr V} (h : allSet P.optReads s.cache = true) :
    doRun P Fn s = (.ok, { s with pre := some (Fn.opt (view P.optReads s.cache)) }) := by
  unfold doRun; rw [if_pos h]

theorem buildPredictor_ok {s : State Attr V} {b : Tok} {p : V} (hx : s.x = some b) (hp : s.pre = some p)
    (hq : allSet P.condReq s.cache = true)
    (hy : Fn.condNeedsY (view P.condReads s.cache) = true → s.fitted.isSome = true) :
    buildPredictor P Fn s = (.ok, { s with predictor := some (Fn.cond b.content (view P.condReads s.cache) p
      (if Fn.condNeedsY (view P.condReads s.cache) then s.fitted else none)) }) := by
  unfold buildPredictor
  rw [hx, hp]
  simp only
  have : (allSet P.condReq s.cache && (!Fn.condNeedsY (view P.condReads s.cache) || s.fitted.isSome)) = true := by
    rw [hq]
    cases hn : Fn.condNeedsY (view P.condReads s.cache)
    · rfl
    · simp [hy hn]
  rw [if_pos this]

theorem doProcess_ok {s : State Attr V} {p : V} (hp : s.pre = some p) (h : allSet P.postReads s.cache = true)
    (build : Bool) :
    doProcess P Fn s build =
      if build then buildPredictor P Fn { s with fitted := some (Fn.post (view P.postReads s.cache) p) }
      else (.ok, { s with fitted := some (Fn.post (view P.postReads s.cache) p), predictor := none }) := by
  unfold doProcess
  rw [hp]
  simp only
  rw [if_pos h]

/-- `fit` on an estimator whose preparation yields the reference caches -/
theorem doFit_after_prepare {s s1 : State Attr V} {a : Option Tok} {b0 : Tok} (build : Bool)
    (hprep : doPrepare P Fn s a = (.ok, s1)) (hc : s1.cache = refCache P Fn d init) (hx : s1.x = some b0)
    (hb : b0.content = d) (hL : Legal P Fn d init) :
    doFit P Fn s a build =
      (.ok, { s1 with pre := some (refPre P Fn d init), fitted := some (refFit P Fn d init),
                      predictor := if build then some (refPred P Fn d init) else none }) := by
  obtain ⟨h1, h2, h3⟩ := hL
  unfold doFit
  rw [hprep]
  simp only
  rw [doRun_ok P Fn (by rw [hc]; exact h1)]
  simp only
  rw [doProcess_ok P Fn (p := Fn.opt (view P.optReads s1.cache)) rfl (by rw [hc]; exact h2)]
  cases build
  · simp only [Bool.false_eq_true, if_false]
    rw [hc]; rfl
  · simp only [if_true]
    have hbp := buildPredictor_ok P Fn
      (s := { s1 with pre := some (Fn.opt (view P.optReads s1.cache)),
                      fitted := some (Fn.post (view P.postReads s1.cache) (Fn.opt (view P.optReads s1.cache))) })
      (b := b0) (p := Fn.opt (view P.optReads s1.cache)) hx rfl (by simp only; rw [hc]; exact h3)
      (by intro _; rfl)
    rw [hbp]
    simp only [hc, hb]
    rfl


theorem doPrepare_ok_spec (hW : WellStaged P Fn) {s s' : State Attr V} (hI : Inv P Fn d init s) {a : Option Tok}
    (ha : ∀ t, a = some t → t.content = d) (h : doPrepare P Fn s a = (.ok, s')) :
    s'.cache = refCache P Fn d init ∧ ∃ b, s'.x = some b ∧ b.content = d := by
  have hI1 := inv_setX P Fn d init hI a ha
  unfold doPrepare at h
  cases hs : doSetX s a with
  | mk o s1 =>
    rw [hs] at h hI1
    simp only at hI1
    cases o with
    | ok =>
      simp only at h
      cases hx : s1.x with
      | none => rw [hx] at h; cases h
      | some b =>
        rw [hx] at h
        simp only at h
        injection h with _ h
        subst h
        have hb := hI1.x_ok b hx
        refine ⟨?_, b, rfl, hb.1⟩
        simp only
        rw [hb.1]
        rcases hI1.cache_ok with h | ⟨h, _⟩
        · rw [h]; rfl
        · rw [h]; exact prepAll_idem P Fn hW d init
    | valueError => cases h
    | error => cases h

theorem doPrepare_bound {s : State Attr V} {b : Tok} (hx : s.x = some b) :
    doPrepare P Fn s none = (.ok, { s with cache := prepAll P Fn b.content s.cache }) := by
  simp only [doPrepare, doSetX, hx]

/-! ### a decidable sufficient condition for `WellStaged` -/

/-- walk the stage order: every attribute reads only attributes prepared before it, or is declared total -/
def checkFrom (P : Pipeline Attr) (tot : List Attr) : List Attr → List Attr → Bool
  | _, [] => true
  | pre, a :: rest =>
    ((P.reads a).all (fun b => pre.contains b) || tot.contains a) && checkFrom P tot (pre ++ [a]) rest

theorem checkFrom_sound (P : Pipeline Attr) (tot : List Attr) :
    ∀ rest pre0, checkFrom P tot pre0 rest = true → ∀ pre a post, rest = pre ++ a :: post →
      (∀ b ∈ P.reads a, b ∈ pre0 ++ pre) ∨ a ∈ tot := by
  intro rest
  induction rest with
  | nil => intro pre0 _ pre a post h; cases pre <;> cases h
  | cons r rest ih =>
    intro pre0 hck pre a post h
    simp only [checkFrom, Bool.and_eq_true, Bool.or_eq_true] at hck
    cases pre with
    | nil =>
      simp only [List.nil_append, List.cons.injEq] at h
      obtain ⟨rfl, _⟩ := h
      rcases hck.1 with h1 | h1
      · left
        intro b hb
        have := List.all_eq_true.mp h1 b hb
        simpa using this
      · right; simpa using h1
    | cons p pre =>
      simp only [List.cons_append, List.cons.injEq] at h
      obtain ⟨rfl, h⟩ := h
      rcases ih (pre0 ++ [r]) hck.2 pre a post h with h1 | h1
      · left
        intro b hb
        have := h1 b hb
        simp only [List.append_assoc, List.singleton_append] at this
        exact this
      · exact Or.inr h1

theorem wellStaged_of_check (P : Pipeline Attr) (Fn : Funs Attr V) (tot : List Attr) (hnd : P.order.Nodup)
    (hck : checkFrom P tot [] P.order = true) (htot : ∀ a ∈ tot, ∀ d vw, (Fn.F a d vw).isSome = true) :
    WellStaged P Fn where
  nodup := hnd
  early := by
    intro pre a post ho
    rcases checkFrom_sound P tot P.order [] hck pre a post ho with h | h
    · left; simpa using h
    · right; exact htot a h

end Mellon.Staged
