/-
  MellonProofs.Real — the real-number instantiation of the scalar interface and the bridge
  lemmas between the executable containers (`Vector`, `nsum`, `build`) and Mathlib's `Finset.sum`.
-/
import MellonModel.Linalg
import Mathlib.Analysis.SpecialFunctions.Pow.Real
import Mathlib.Analysis.SpecialFunctions.Gamma.Basic
import Mathlib.Analysis.SpecialFunctions.Sqrt
import Mathlib.Algebra.BigOperators.Intervals
import Mathlib.Tactic

open Finset

namespace Mellon

noncomputable instance instTranscReal : Transc ℝ where
  sqrt := Real.sqrt
  exp := Real.exp
  log := Real.log
  rpow := fun x y => x ^ y
  lgamma := fun x => Real.log (Real.Gamma x)
  pi := Real.pi

@[simp] theorem sqrt_real (x : ℝ) : (sqrt x : ℝ) = Real.sqrt x := rfl
@[simp] theorem exp_real (x : ℝ) : (exp x : ℝ) = Real.exp x := rfl
@[simp] theorem log_real (x : ℝ) : (log x : ℝ) = Real.log x := rfl
@[simp] theorem rpow_real (x y : ℝ) : (rpow x y : ℝ) = x ^ y := rfl
@[simp] theorem lgamma_real (x : ℝ) : (lgamma x : ℝ) = Real.log (Real.Gamma x) := rfl
@[simp] theorem pi_real : (Transc.pi : ℝ) = Real.pi := rfl

section generic
variable {β : Type}

theorem nthD_of_lt {n : Nat} (v : Vector β n) {k : Nat} (h : k < n) (d : β) : v.nthD k d = v[k] := by
  simp [Vector.nthD, h]

theorem nthD_of_ge {n : Nat} (v : Vector β n) {k : Nat} (h : n ≤ k) (d : β) : v.nthD k d = d := by
  simp [Vector.nthD, Nat.not_lt.mpr h]

theorem nthD_push {n : Nat} (v : Vector β n) (x : β) (k : Nat) (d : β) :
    (v.push x).nthD k d = if k < n then v.nthD k d else if k = n then x else d := by
  unfold Vector.nthD
  by_cases h1 : k < n
  · simp [h1, Nat.lt_succ_of_lt h1, Vector.getElem_push]
  · by_cases h2 : k = n
    · subst h2; simp
    · have : ¬ k < n + 1 := by omega
      simp [h1, h2, this]

theorem buildD_nthD (d : β) (f : Nat → (Nat → β) → β) (n k : Nat) :
    (buildD d f n).nthD k d = if k < n then f k (fun j => (buildD d f k).nthD j d) else d := by
  induction n with
  | zero => simp [Vector.nthD]
  | succ n ih =>
    show ((buildD d f n).push _).nthD k d = _
    rw [nthD_push]
    by_cases h1 : k < n
    · simp [h1, Nat.lt_succ_of_lt h1, ih]
    · by_cases h2 : k = n
      · subst h2; simp
      · have : ¬ k < n + 1 := by omega
        simp [h1, h2, this]

/-- The prefix handed to `f k` agrees with the final vector below `k`. -/
theorem buildD_prefix (d : β) (f : Nat → (Nat → β) → β) {n k j : Nat} (hk : k ≤ n) (hj : j < k) :
    (buildD d f k).nthD j d = (buildD d f n).nthD j d := by
  rw [buildD_nthD, buildD_nthD]; simp [hj, Nat.lt_of_lt_of_le hj hk]

theorem nthD_ofFn {n : Nat} (f : Fin n → β) (k : Nat) (d : β) :
    (Vector.ofFn f).nthD k d = if h : k < n then f ⟨k, h⟩ else d := by
  unfold Vector.nthD; split <;> simp

end generic

section real

theorem nsum_eq_sum (n : Nat) (f : Nat → ℝ) : nsum n f = ∑ k ∈ range n, f k := by
  induction n with
  | zero => simp [nsum]
  | succ n ih => simp [nsum, ih, Finset.sum_range_succ]

theorem nsum_congr {n : Nat} {f g : Nat → ℝ} (h : ∀ k, k < n → f k = g k) : nsum n f = nsum n g := by
  rw [nsum_eq_sum, nsum_eq_sum]; exact Finset.sum_congr rfl (fun k hk => h k (Finset.mem_range.mp hk))

@[simp] theorem nth_vecOfFn {n : Nat} (f : Nat → ℝ) (k : Nat) :
    (vecOfFn (n := n) f).nth k = if k < n then f k else 0 := by
  unfold vecOfFn Vector.nth; rw [nthD_ofFn]; split <;> rfl

theorem nth_of_ge {n : Nat} (v : Vector ℝ n) {k : Nat} (h : n ≤ k) : v.nth k = 0 := nthD_of_ge v h 0

@[simp] theorem el_ofFn {n m : Nat} (f : Nat → Nat → ℝ) (i j : Nat) :
    (Mat.ofFn (n := n) (m := m) f).el i j = if i < n ∧ j < m then f i j else 0 := by
  unfold Mat.ofFn Mat.el Vector.nth
  by_cases hi : i < n
  · simp only [hi, dite_true, Vector.getElem_ofFn, true_and]
    rw [nthD_ofFn]; split <;> rfl
  · simp [hi]

theorem el_of_ge_row {n m : Nat} (A : Mat ℝ n m) {i : Nat} (h : n ≤ i) (j : Nat) : A.el i j = 0 := by
  simp [Mat.el, Nat.not_lt.mpr h]

theorem el_of_ge_col {n m : Nat} (A : Mat ℝ n m) (i : Nat) {j : Nat} (h : m ≤ j) : A.el i j = 0 := by
  unfold Mat.el; split
  · exact nth_of_ge _ h
  · rfl

theorem build_nth (f : Nat → (Nat → ℝ) → ℝ) (n k : Nat) :
    (build f n).nth k = if k < n then f k (fun j => (build f k).nth j) else 0 :=
  buildD_nthD 0 f n k

end real

end Mellon
