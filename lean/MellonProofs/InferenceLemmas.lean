/-
  MellonProofs.InferenceLemmas — specification vocabulary and helper lemmas for C03
  (the documented Bayesian model behind `mellon.inference` and the defaults of `mellon.parameters`).
-/
import MellonProofs.KernelLemmas
import MellonProofs.LinalgProofs
import MellonProofs.CholPosDefLemmas
import MellonModel.Inference
import Mathlib.MeasureTheory.Integral.Gamma
import Mathlib.Probability.Distributions.Gaussian.Real

open Finset

namespace Mellon

@[simp] theorem lit10 : (10.0 : ℝ) = 10 := by norm_num
theorem lit001 : (0.01 : ℝ) = 1 / 100 := by norm_num

/-! ### specification vocabulary -/

/-- Volume of the unit ball in `d` dimensions, `π^{d/2} / Γ(d/2 + 1)`. -/
noncomputable def ballVol (d : ℝ) : ℝ := Real.pi ^ (d / 2) / Real.Gamma (d / 2 + 1)

/-- Density of the distance `r` to the nearest neighbour in a homogeneous Poisson process of
    intensity `ρ` when the ball of radius `r` has volume `V·r^d`:
    `ρ·d·V·r^{d−1}·exp(−ρ·V·r^d)`. -/
noncomputable def nnDensityV (V ρ d r : ℝ) : ℝ := ρ * d * V * r ^ (d - 1) * Real.exp (-(ρ * V * r ^ d))

/-- The same with the Euclidean ball constant `V_d`. -/
noncomputable def nnDensity (ρ d r : ℝ) : ℝ := nnDensityV (ballVol d) ρ d r

/-- Poisson probability mass function `e^{−λ} λ^j / j!`. -/
noncomputable def poissonPmf (lam : ℝ) (j : ℕ) : ℝ := Real.exp (-lam) * lam ^ j / (j.factorial : ℝ)

/-- Log-density of the standard normal distribution on `ℝ^m` (product of `m` standard normals,
    Mathlib's `gaussianPDFReal 0 1`). -/
noncomputable def stdNormalLogpdf (m : ℕ) (z : ℕ → ℝ) : ℝ :=
  ∑ k ∈ range m, Real.log (ProbabilityTheory.gaussianPDFReal 0 1 (z k))

theorem ballVol_pos {d : ℝ} (hd : 0 < d) : 0 < ballVol d := by
  unfold ballVol
  have h1 : 0 < Real.pi ^ (d / 2) := Real.rpow_pos_of_pos Real.pi_pos _
  have h2 : 0 < Real.Gamma (d / 2 + 1) := Real.Gamma_pos_of_pos (by linarith)
  exact div_pos h1 h2

theorem ballConst_eq {d : ℝ} (hd : 0 < d) : ballConst d = Real.log (ballVol d) := by
  unfold ballConst ballVol
  have h1 : 0 < Real.pi ^ (d / 2) := Real.rpow_pos_of_pos Real.pi_pos _
  have h2 : 0 < Real.Gamma (d / 2 + 1) := Real.Gamma_pos_of_pos (by linarith)
  rw [Real.log_div (ne_of_gt h1) (ne_of_gt h2), Real.log_rpow Real.pi_pos]
  simp only [log_real, lgamma_real, pi_real, lit2]
  ring

theorem nnLogV_eq {r d : ℝ} (hr : 0 < r) (hd : 0 < d) : nnLogV r d = Real.log (ballVol d * r ^ d) := by
  unfold nnLogV
  rw [ballConst_eq hd, Real.log_mul (ne_of_gt (ballVol_pos hd)) (ne_of_gt (Real.rpow_pos_of_pos hr d)),
    Real.log_rpow hr, log_real]
  ring

/-- The closed-form MLE is minus the log-volume of the ball through the nearest neighbour. -/
theorem mle_eq_neg_logV (r d : ℝ) : mle r d = -nnLogV r d := by
  unfold mle nnLogV ballConst
  simp only [log_real, lgamma_real, pi_real, lit2]
  ring

/-- One summand of the code's likelihood is the log of the documented density. -/
theorem nnTerm_eq_log_density {r d : ℝ} (hr : 0 < r) (hd : 0 < d) (u : ℝ) :
    nnTerm r d u = Real.log (nnDensity (Real.exp u) d r) := by
  have hV := ballVol_pos hd
  have hrd : 0 < r ^ d := Real.rpow_pos_of_pos hr d
  have hrd1 : 0 < r ^ (d - 1) := Real.rpow_pos_of_pos hr _
  unfold nnDensity nnDensityV
  have hpos : 0 < Real.exp u * d * ballVol d * r ^ (d - 1) := by positivity
  rw [Real.log_mul (ne_of_gt hpos) (ne_of_gt (Real.exp_pos _)), Real.log_exp,
    Real.log_mul (by positivity) (ne_of_gt hrd1), Real.log_mul (by positivity) (ne_of_gt hV),
    Real.log_mul (ne_of_gt (Real.exp_pos u)) (ne_of_gt hd), Real.log_exp, Real.log_rpow hr]
  unfold nnTerm nnLogVdr
  rw [nnLogV_eq hr hd, exp_real, Real.exp_add, Real.exp_log (by positivity), ballConst_eq hd, log_real,
    log_real]
  ring

/-- `t + 1 ≤ e^t`, packaged for the likelihood: the summand as a function of the log-density. -/
theorem nnTerm_le_max (r d u : ℝ) : nnTerm r d u ≤ nnTerm r d (mle r d) := by
  unfold nnTerm
  rw [mle_eq_neg_logV]
  simp only [exp_real, neg_add_cancel, Real.exp_zero]
  have := Real.add_one_le_exp (u + nnLogV r d)
  linarith

theorem nnTerm_eq_max_iff (r d u : ℝ) : nnTerm r d u = nnTerm r d (mle r d) ↔ u = mle r d := by
  constructor
  · intro h
    by_contra hne
    have hne' : u + nnLogV r d ≠ 0 := by
      intro h0
      apply hne
      rw [mle_eq_neg_logV]; linarith
    have := Real.add_one_lt_exp hne'
    unfold nnTerm at h
    rw [mle_eq_neg_logV] at h
    simp only [exp_real, neg_add_cancel, Real.exp_zero] at h
    linarith
  · intro h; rw [h]

/-! ### standard normal -/

theorem log_gaussianPDFReal_std (x : ℝ) :
    Real.log (ProbabilityTheory.gaussianPDFReal 0 1 x) = -(1 / 2) * (x * x) - (1 / 2) * Real.log (2 * Real.pi) := by
  unfold ProbabilityTheory.gaussianPDFReal
  have h2pi : 0 < 2 * Real.pi := by positivity
  simp only [NNReal.coe_one, mul_one, sub_zero]
  rw [Real.log_mul (by positivity) (ne_of_gt (Real.exp_pos _)), Real.log_exp, Real.log_inv,
    Real.log_sqrt (le_of_lt h2pi)]
  ring

theorem stdNormalLogpdf_eq (m : ℕ) (z : ℕ → ℝ) :
    stdNormalLogpdf m z = -(1 / 2) * (∑ k ∈ range m, z k * z k) - (m / 2) * Real.log (2 * Real.pi) := by
  unfold stdNormalLogpdf
  simp_rw [log_gaussianPDFReal_std]
  rw [Finset.sum_sub_distrib, ← Finset.mul_sum, Finset.sum_const, Finset.card_range, nsmul_eq_mul]
  ring

theorem normalLogpdfOf_eq (k : ℕ) (ss : ℝ) :
    normalLogpdfOf k ss = -(1 / 2) * ss - (k / 2) * Real.log (2 * Real.pi) := by
  unfold normalLogpdfOf
  simp only [log_real, pi_real, lit2]

theorem sumSq_eq {m : ℕ} (z : Vector ℝ m) : sumSq z = ∑ k ∈ range m, z.nth k * z.nth k := by
  unfold sumSq; rw [nsum_eq_sum]

/-! ### the density integrates to one -/

theorem nnDensityV_integral {V ρ d : ℝ} (hV : 0 < V) (hρ : 0 < ρ) (hd : 0 < d) :
    ∫ r in Set.Ioi (0 : ℝ), nnDensityV V ρ d r = 1 := by
  have hb : 0 < ρ * V := mul_pos hρ hV
  have key := integral_rpow_mul_exp_neg_mul_rpow (p := d) (q := d - 1) (b := ρ * V) hd (by linarith) hb
  have e : ∀ r : ℝ, nnDensityV V ρ d r = (ρ * d * V) * (r ^ (d - 1) * Real.exp (-(ρ * V) * r ^ d)) := by
    intro r; unfold nnDensityV; rw [neg_mul]; ring
  simp_rw [e]
  rw [MeasureTheory.integral_const_mul, key]
  have h1 : (d - 1 + 1) / d = 1 := by rw [sub_add_cancel]; exact div_self (ne_of_gt hd)
  have h2 : -(d - 1 + 1) / d = -1 := by rw [sub_add_cancel, neg_div, div_self (ne_of_gt hd)]
  rw [h1, h2, Real.Gamma_one, Real.rpow_neg_one]
  field_simp

/-! ### sorting -/

theorem sortAsc_perm (l : List ℝ) : (sortAsc l).Perm l := List.mergeSort_perm l _

theorem sortAsc_sorted (l : List ℝ) : (sortAsc l).Pairwise (· ≤ ·) := by
  have h := List.pairwise_mergeSort (le := fun a b : ℝ => !decide (b < a))
    (by
      intro a b c hab hbc
      simp only [Bool.not_eq_true', decide_eq_false_iff_not, not_lt] at hab hbc ⊢
      exact le_trans hab hbc)
    (by
      intro a b
      simp only [Bool.or_eq_true, Bool.not_eq_true', decide_eq_false_iff_not, not_lt]
      exact le_total a b) l
  unfold sortAsc
  refine List.Pairwise.imp ?_ h
  intro a b hab
  simpa using hab

theorem sortAsc_length (l : List ℝ) : (sortAsc l).length = l.length := (sortAsc_perm l).length_eq

theorem mem_sortAsc {l : List ℝ} {a : ℝ} : a ∈ sortAsc l ↔ a ∈ l := (sortAsc_perm l).mem_iff

/-- The head of a sorted list is a lower bound of all entries. -/
theorem sorted_head_le {s : List ℝ} (hs : s.Pairwise (· ≤ ·)) {a : ℝ} (ha : a ∈ s) : s.getD 0 0 ≤ a := by
  cases s with
  | nil => simp at ha
  | cons b t =>
    simp only [List.getD_cons_zero]
    rcases List.mem_cons.mp ha with h | h
    · rw [h]
    · exact (List.pairwise_cons.mp hs).1 a h

theorem sorted_getD_mono {s : List ℝ} (hs : s.Pairwise (· ≤ ·)) {i j : ℕ} (hij : i ≤ j) (hj : j < s.length) :
    s.getD i 0 ≤ s.getD j 0 := by
  have hi : i < s.length := lt_of_le_of_lt hij hj
  have gi : s.getD i 0 = s[i] := by simp [List.getD_eq_getElem?_getD, hi]
  have gj : s.getD j 0 = s[j] := by simp [List.getD_eq_getElem?_getD, hj]
  rw [gi, gj]
  rcases Nat.lt_or_eq_of_le hij with h | h
  · exact List.pairwise_iff_getElem.mp hs i j hi hj h
  · subst h; exact le_refl _

/-! ### Cholesky solve of a symmetric system -/

/-- `C Cᵀ = A` entrywise on the whole square when `A` is symmetric. -/
theorem chol_prod_full {n : ℕ} {C A : Mat ℝ n n} (h : IsCholOf C A) (hs : ∀ i j, A.el i j = A.el j i)
    {i k : ℕ} (hi : i < n) (hk : k < n) :
    ∑ j ∈ range n, C.el i j * C.el k j = A.el i k := by
  have main : ∀ i k, k ≤ i → i < n → ∑ j ∈ range n, C.el i j * C.el k j = A.el i k := by
    intro i k hki hi
    rw [← h.prod_lower i k hki hi]
    symm
    apply Finset.sum_subset
    · intro j hj; simp only [Finset.mem_range] at hj ⊢; omega
    · intro j hj hnj
      simp only [Finset.mem_range] at hj hnj
      rw [h.upper_zero k j (by omega)]; ring
  rcases Nat.le_total k i with hki | hik
  · exact main i k hki hi
  · rw [hs i k, ← main k i hik hk]
    apply Finset.sum_congr rfl; intro j _; ring

/-- `cho_solve`: `A z = b` row by row. -/
theorem choSolve_spec {n : ℕ} {C A : Mat ℝ n n} (h : IsCholOf C A) (hs : ∀ i j, A.el i j = A.el j i)
    (b : Vector ℝ n) {i : ℕ} (hi : i < n) :
    ∑ k ∈ range n, A.el i k * (choSolve C b).nth k = b.nth i := by
  unfold choSolve
  set y := solveLower C b with hy
  set z := solveUpperT C y with hz
  have hdiag : ∀ j, j < n → C.el j j ≠ 0 := fun j hj => ne_of_gt (h.diag_pos j hj)
  -- Cᵀ z = y with the sum over the whole range
  have hU : ∀ j, j < n → ∑ k ∈ range n, C.el k j * z.nth k = y.nth j := by
    intro j hj
    rw [← solveUpperT_spec C y hj (hdiag j hj)]
    symm
    apply Finset.sum_subset
    · intro k hk; simp only [Finset.mem_Ico, Finset.mem_range] at hk ⊢; omega
    · intro k hk hnk
      simp only [Finset.mem_Ico, Finset.mem_range] at hk hnk
      rw [h.upper_zero k j (by omega)]; ring
  have hL : ∑ j ∈ range n, C.el i j * y.nth j = b.nth i := by
    rw [← solveLower_spec C b hi (hdiag i hi)]
    symm
    apply Finset.sum_subset
    · intro k hk; simp only [Finset.mem_range] at hk ⊢; omega
    · intro k hk hnk
      simp only [Finset.mem_range] at hk hnk
      rw [h.upper_zero i k (by omega)]; ring
  calc ∑ k ∈ range n, A.el i k * z.nth k
      = ∑ k ∈ range n, (∑ j ∈ range n, C.el i j * C.el k j) * z.nth k := by
        apply Finset.sum_congr rfl
        intro k hk
        rw [chol_prod_full h hs hi (Finset.mem_range.mp hk)]
    _ = ∑ k ∈ range n, ∑ j ∈ range n, C.el i j * (C.el k j * z.nth k) := by
        apply Finset.sum_congr rfl
        intro k _
        rw [Finset.sum_mul]
        apply Finset.sum_congr rfl; intro j _; ring
    _ = ∑ j ∈ range n, C.el i j * ∑ k ∈ range n, C.el k j * z.nth k := by
        rw [Finset.sum_comm]
        apply Finset.sum_congr rfl; intro j _
        rw [Finset.mul_sum]
    _ = ∑ j ∈ range n, C.el i j * y.nth j := by
        apply Finset.sum_congr rfl
        intro j hj
        rw [hU j (Finset.mem_range.mp hj)]
    _ = b.nth i := hL

/-! ### ridge regression -/

/-- Pure algebra: if `z0` satisfies the normal equations `(LᵀL + I) z0 = Lᵀ t`, the ridge objective
    at any `z'` exceeds the one at `z0` by `‖L(z'−z0)‖² + ‖z'−z0‖²`. -/
theorem ridge_objective_diff (n m : ℕ) (L : ℕ → ℕ → ℝ) (t z0 z' : ℕ → ℝ)
    (hne : ∀ a, a < m →
      (∑ i ∈ range n, L i a * (∑ b ∈ range m, L i b * z0 b)) + z0 a = ∑ i ∈ range n, L i a * t i) :
    (∑ i ∈ range n, ((∑ b ∈ range m, L i b * z' b) - t i) ^ 2 + ∑ b ∈ range m, z' b ^ 2)
      - (∑ i ∈ range n, ((∑ b ∈ range m, L i b * z0 b) - t i) ^ 2 + ∑ b ∈ range m, z0 b ^ 2)
      = ∑ i ∈ range n, (∑ b ∈ range m, L i b * (z' b - z0 b)) ^ 2 + ∑ b ∈ range m, (z' b - z0 b) ^ 2 := by
  set u : ℕ → ℝ := fun i => (∑ b ∈ range m, L i b * z0 b) - t i with hu
  set v : ℕ → ℝ := fun i => ∑ b ∈ range m, L i b * (z' b - z0 b) with hv
  set dl : ℕ → ℝ := fun b => z' b - z0 b with hdl
  have hLz' : ∀ i, (∑ b ∈ range m, L i b * z' b) - t i = u i + v i := by
    intro i
    simp only [hu, hv]
    have : ∑ b ∈ range m, L i b * z' b
        = ∑ b ∈ range m, L i b * z0 b + ∑ b ∈ range m, L i b * (z' b - z0 b) := by
      rw [← Finset.sum_add_distrib]; apply Finset.sum_congr rfl; intro b _; ring
    rw [this]; ring
  -- the cross term vanishes by the normal equations
  have hcol : ∀ b, b < m → ∑ i ∈ range n, L i b * u i = -z0 b := by
    intro b hb
    have := hne b hb
    simp only [hu]
    have e : ∑ i ∈ range n, L i b * ((∑ b ∈ range m, L i b * z0 b) - t i)
        = ∑ i ∈ range n, L i b * (∑ b ∈ range m, L i b * z0 b) - ∑ i ∈ range n, L i b * t i := by
      rw [← Finset.sum_sub_distrib]; apply Finset.sum_congr rfl; intro i _; ring
    rw [e]; linarith
  have cross : ∑ i ∈ range n, u i * v i = -∑ b ∈ range m, dl b * z0 b := by
    calc ∑ i ∈ range n, u i * v i
        = ∑ i ∈ range n, ∑ b ∈ range m, dl b * (L i b * u i) := by
          apply Finset.sum_congr rfl; intro i _
          simp only [hv, hdl]
          rw [Finset.mul_sum]; apply Finset.sum_congr rfl; intro b _; ring
      _ = ∑ b ∈ range m, dl b * ∑ i ∈ range n, L i b * u i := by
          rw [Finset.sum_comm]; apply Finset.sum_congr rfl; intro b _; rw [Finset.mul_sum]
      _ = ∑ b ∈ range m, dl b * (-z0 b) := by
          apply Finset.sum_congr rfl; intro b hb; rw [hcol b (Finset.mem_range.mp hb)]
      _ = -∑ b ∈ range m, dl b * z0 b := by
          rw [← Finset.sum_neg_distrib]; apply Finset.sum_congr rfl; intro b _; ring
  have e1 : ∑ i ∈ range n, ((∑ b ∈ range m, L i b * z' b) - t i) ^ 2
      = ∑ i ∈ range n, u i ^ 2 + 2 * ∑ i ∈ range n, u i * v i + ∑ i ∈ range n, v i ^ 2 := by
    rw [Finset.mul_sum, ← Finset.sum_add_distrib, ← Finset.sum_add_distrib]
    apply Finset.sum_congr rfl; intro i _; rw [hLz' i]; ring
  have e2 : ∑ b ∈ range m, z' b ^ 2
      = ∑ b ∈ range m, z0 b ^ 2 + 2 * ∑ b ∈ range m, dl b * z0 b + ∑ b ∈ range m, dl b ^ 2 := by
    rw [Finset.mul_sum, ← Finset.sum_add_distrib, ← Finset.sum_add_distrib]
    apply Finset.sum_congr rfl; intro b _; simp only [hdl]; ring
  rw [e1, e2, cross]
  ring

theorem ridgeGram_el {n m : ℕ} (L : Mat ℝ n m) {a b : ℕ} (ha : a < m) (hb : b < m) :
    (ridgeGram L).el a b = (∑ i ∈ range n, L.el i a * L.el i b) + (if a = b then 1 else 0) := by
  unfold ridgeGram
  rw [el_ofFn]
  simp only [ha, hb, and_self, if_true, nsum_eq_sum]

theorem ridgeGram_symm {n m : ℕ} (L : Mat ℝ n m) (a b : ℕ) : (ridgeGram L).el a b = (ridgeGram L).el b a := by
  by_cases ha : a < m
  · by_cases hb : b < m
    · rw [ridgeGram_el L ha hb, ridgeGram_el L hb ha]
      congr 1
      · apply Finset.sum_congr rfl; intro i _; ring
      · by_cases hab : a = b
        · subst hab; rfl
        · have : ¬ b = a := fun h => hab h.symm
          simp [hab, this]
    · rw [el_of_ge_col _ _ (Nat.le_of_not_lt hb), el_of_ge_row _ (Nat.le_of_not_lt hb)]
  · rw [el_of_ge_row _ (Nat.le_of_not_lt ha), el_of_ge_col _ _ (Nat.le_of_not_lt ha)]

/-- The model's ridge start satisfies the normal equations `(LᵀL + I) z = Lᵀ t`. -/
theorem ridgeInit_normal_eq {n m : ℕ} {L : Mat ℝ n m} {t : Vector ℝ n} {z0 : Vector ℝ m}
    (h : ridgeInit L t = some z0) {a : ℕ} (ha : a < m) :
    (∑ i ∈ range n, L.el i a * (∑ b ∈ range m, L.el i b * z0.nth b)) + z0.nth a
      = ∑ i ∈ range n, L.el i a * t.nth i := by
  unfold ridgeInit at h
  cases hc : chol? (ridgeGram L) with
  | none => rw [hc] at h; simp at h
  | some C =>
    rw [hc] at h
    simp only [Option.map_some, Option.some.injEq] at h
    have spec := choSolve_spec (chol?_spec hc) (ridgeGram_symm L) (ridgeRhs L t) ha
    rw [h] at spec
    have hr : (ridgeRhs L t).nth a = ∑ i ∈ range n, L.el i a * t.nth i := by
      unfold ridgeRhs; rw [nth_vecOfFn]; simp only [ha, if_true, nsum_eq_sum]
    rw [hr] at spec
    rw [← spec]
    have e : ∑ b ∈ range m, (ridgeGram L).el a b * z0.nth b
        = ∑ b ∈ range m, ((∑ i ∈ range n, L.el i a * L.el i b) * z0.nth b
            + (if a = b then z0.nth b else 0)) := by
      apply Finset.sum_congr rfl
      intro b hb
      rw [ridgeGram_el L ha (Finset.mem_range.mp hb)]
      split <;> ring
    rw [e, Finset.sum_add_distrib, Finset.sum_ite_eq (range m) a (fun b => z0.nth b)]
    simp only [Finset.mem_range, ha, if_true]
    congr 1
    calc ∑ i ∈ range n, L.el i a * ∑ b ∈ range m, L.el i b * z0.nth b
        = ∑ i ∈ range n, ∑ b ∈ range m, L.el i a * L.el i b * z0.nth b := by
          apply Finset.sum_congr rfl; intro i _
          rw [Finset.mul_sum]; apply Finset.sum_congr rfl; intro b _; ring
      _ = ∑ b ∈ range m, ∑ i ∈ range n, L.el i a * L.el i b * z0.nth b := Finset.sum_comm
      _ = ∑ b ∈ range m, (∑ i ∈ range n, L.el i a * L.el i b) * z0.nth b := by
          apply Finset.sum_congr rfl; intro b _; rw [Finset.sum_mul]

/-! ### Poisson summand -/

theorem poissonPred_eq {dim ld s : ℝ} (hdim : 0 < dim) (hs : 0 < s) :
    poissonPred dim ld s = Real.log (Real.exp ld * ballVol dim * s ^ dim) := by
  have hV := ballVol_pos hdim
  have hsd : 0 < s ^ dim := Real.rpow_pos_of_pos hs dim
  rw [Real.log_mul (by positivity) (ne_of_gt hsd), Real.log_mul (ne_of_gt (Real.exp_pos _)) (ne_of_gt hV),
    Real.log_exp, Real.log_rpow hs, ← ballConst_eq hdim]
  unfold poissonPred ballConst
  simp only [log_real, lgamma_real, pi_real, lit2]
  ring

/-- The code's summand is the Poisson log-pmf plus `log j` (it subtracts `log Γ(j) = log (j−1)!`
    where the pmf has `log j!`). -/
theorem poissonTerm_eq {dim ld s : ℝ} (hdim : 0 < dim) (hs : 0 < s) (j : ℕ) :
    poissonTerm dim ld s (j + 1)
      = Real.log (poissonPmf (Real.exp ld * ballVol dim * s ^ dim) (j + 1)) + Real.log ((j : ℝ) + 1) := by
  have hV := ballVol_pos hdim
  have hsd : 0 < s ^ dim := Real.rpow_pos_of_pos hs dim
  set lam := Real.exp ld * ballVol dim * s ^ dim with hlam
  have hlpos : 0 < lam := by positivity
  unfold poissonTerm
  rw [poissonPred_eq hdim hs, ← hlam]
  unfold poissonPmf
  have hf : (0 : ℝ) < ((j + 1).factorial : ℝ) := by exact_mod_cast Nat.factorial_pos (j + 1)
  rw [Real.log_div (by positivity) (ne_of_gt hf), Real.log_mul (ne_of_gt (Real.exp_pos _)) (by positivity),
    Real.log_exp, Real.log_pow, exp_real, Real.exp_log hlpos, lgamma_real]
  have hg : Real.Gamma (((j + 1 : ℕ) : ℝ)) = (j.factorial : ℝ) := by
    push_cast; exact Real.Gamma_nat_eq_factorial j
  rw [hg]
  have hfac : Real.log ((j + 1).factorial : ℝ) = Real.log ((j : ℝ) + 1) + Real.log (j.factorial : ℝ) := by
    rw [Nat.factorial_succ]; push_cast
    rw [Real.log_mul (by positivity) (by exact_mod_cast (Nat.factorial_pos j).ne')]
  rw [hfac]
  push_cast
  ring

theorem sum_log_succ (k : ℕ) : ∑ j ∈ range k, Real.log ((j : ℝ) + 1) = Real.log (k.factorial : ℝ) := by
  induction k with
  | zero => simp
  | succ k ih =>
    rw [Finset.sum_range_succ, ih, Nat.factorial_succ]; push_cast
    rw [Real.log_mul (by positivity) (by exact_mod_cast (Nat.factorial_pos k).ne')]
    ring

/-! ### containers -/

theorem toList_vecOfFn {n : ℕ} (f : ℕ → ℝ) : (vecOfFn (n := n) f).toList = (List.range n).map f := by
  apply List.ext_getElem
  · simp
  · intro i h1 h2
    simp [vecOfFn]

theorem take_one_getD (s : List ℝ) : (s.take 1).getD 0 0 = s.getD 0 0 := by
  cases s <;> simp

/-! ### defaults -/

theorem computeLs_eq {n : ℕ} (r : Vector ℝ n) (hr : ∀ i, i < n → 0 < r.nth i) :
    computeLs r = Real.exp 3 * (∏ i ∈ range n, r.nth i) ^ ((1 : ℝ) / n) := by
  have hprod : 0 < ∏ i ∈ range n, r.nth i :=
    Finset.prod_pos fun i hi => hr i (Finset.mem_range.mp hi)
  unfold computeLs
  rw [exp_real, lit3, nsum_eq_sum, Real.exp_add, Real.rpow_def_of_pos hprod,
    Real.log_prod (fun i hi => ne_of_gt (hr i (Finset.mem_range.mp hi)))]
  simp only [log_real]
  rw [mul_comm]
  congr 2
  ring

/-- The interpolation weight of `quantile01` over ℝ is `((n−1) mod 100)/100`. -/
theorem quantile_weight (n1 : ℕ) : (0.01 : ℝ) * (n1 : ℝ) - ((n1 / 100 : ℕ) : ℝ) = ((n1 % 100 : ℕ) : ℝ) / 100 := by
  have h : (n1 : ℝ) = 100 * ((n1 / 100 : ℕ) : ℝ) + ((n1 % 100 : ℕ) : ℝ) := by
    exact_mod_cast (Nat.div_add_mod n1 100).symm
  rw [lit001]
  linarith

theorem quantile01_eq (l : List ℝ) :
    quantile01 l
      = (sortAsc l).getD ((l.length - 1) / 100) 0 * (1 - (((l.length - 1) % 100 : ℕ) : ℝ) / 100)
        + (sortAsc l).getD (if (l.length - 1) % 100 = 0 then (l.length - 1) / 100 else (l.length - 1) / 100 + 1) 0
          * ((((l.length - 1) % 100 : ℕ) : ℝ) / 100) := by
  unfold quantile01
  simp only [quantile_weight]

/-! ### nearest neighbours -/

theorem mem_othersDist {n d : ℕ} (X : Mat ℝ n d) (i : ℕ) (a : ℝ) :
    a ∈ othersDist X i ↔ ∃ j, j < n ∧ j ≠ i ∧ eucl (rowList X i) (rowList X j) = a := by
  unfold othersDist
  simp only [List.mem_map, List.mem_filter, List.mem_range, decide_eq_true_eq, and_assoc]

theorem othersDist_length {n d : ℕ} (X : Mat ℝ n d) {i : ℕ} (hi : i < n) : (othersDist X i).length = n - 1 := by
  unfold othersDist
  rw [List.length_map]
  have h : ∀ m, i < m → ((List.range m).filter (· ≠ i)).length = m - 1 := by
    intro m
    induction m with
    | zero => intro h; omega
    | succ m ih =>
      intro hm
      rw [List.range_succ, List.filter_append, List.length_append]
      rcases Nat.lt_succ_iff_lt_or_eq.mp hm with h | h
      · rw [ih h]
        have : m ≠ i := by omega
        simp [this]; omega
      · subst h
        have hall : (List.range i).filter (· ≠ i) = List.range i := by
          apply List.filter_eq_self.mpr
          intro a ha; have := List.mem_range.mp ha
          simp; omega
        rw [hall]; simp
  exact h n hi

theorem sqd_eq_sqdist (x y : List ℝ) : sqd x y = sqdist x y := by
  induction x generalizing y with
  | nil => cases y <;> simp [sqd, sqdist]
  | cons a as ih =>
    cases y with
    | nil => simp [sqd, sqdist]
    | cons b bs => simp only [sqd, sqdist, ih bs]; ring


/-! ### the ridge system is positive definite, so the start value always exists -/

/-- `LᵀL + I` is positive definite. -/
theorem ridgeGram_posDef {n m : ℕ} (L : Mat ℝ n m) (x : ℕ → ℝ) (hx : ∃ a, a < m ∧ x a ≠ 0) :
    0 < quadForm (ridgeGram L) x := by
  have e : quadForm (ridgeGram L) x
      = ∑ i ∈ range n, (∑ a ∈ range m, L.el i a * x a) ^ 2 + ∑ a ∈ range m, x a ^ 2 := by
    unfold quadForm
    have h1 : ∀ a ∈ range m, ∑ b ∈ range m, x a * (ridgeGram L).el a b * x b
        = (∑ b ∈ range m, ∑ i ∈ range n, (L.el i a * x a) * (L.el i b * x b)) + x a ^ 2 := by
      intro a ha
      have ha' := Finset.mem_range.mp ha
      have : ∀ b ∈ range m, x a * (ridgeGram L).el a b * x b
          = (∑ i ∈ range n, (L.el i a * x a) * (L.el i b * x b)) + (if a = b then x a * x b else 0) := by
        intro b hb
        rw [ridgeGram_el L ha' (Finset.mem_range.mp hb), mul_add, add_mul, Finset.mul_sum, Finset.sum_mul]
        congr 1
        · apply Finset.sum_congr rfl; intro i _; ring
        · split <;> ring
      rw [Finset.sum_congr rfl this, Finset.sum_add_distrib, Finset.sum_ite_eq (range m) a (fun b => x a * x b)]
      simp only [ha, if_true]; ring
    rw [Finset.sum_congr rfl h1, Finset.sum_add_distrib]
    congr 1
    calc ∑ a ∈ range m, ∑ b ∈ range m, ∑ i ∈ range n, (L.el i a * x a) * (L.el i b * x b)
        = ∑ a ∈ range m, ∑ i ∈ range n, ∑ b ∈ range m, (L.el i a * x a) * (L.el i b * x b) := by
          apply Finset.sum_congr rfl; intro a _; rw [Finset.sum_comm]
      _ = ∑ i ∈ range n, ∑ a ∈ range m, ∑ b ∈ range m, (L.el i a * x a) * (L.el i b * x b) := by
          rw [Finset.sum_comm]
      _ = ∑ i ∈ range n, (∑ a ∈ range m, L.el i a * x a) ^ 2 := by
          apply Finset.sum_congr rfl; intro i _; rw [sq, Finset.sum_mul_sum]
  rw [e]
  obtain ⟨a, ha, hxa⟩ := hx
  have h1 : 0 ≤ ∑ i ∈ range n, (∑ a ∈ range m, L.el i a * x a) ^ 2 := Finset.sum_nonneg fun _ _ => sq_nonneg _
  have h2 : 0 < ∑ a ∈ range m, x a ^ 2 := by
    apply Finset.sum_pos'
    · intro b _; exact sq_nonneg _
    · exact ⟨a, Finset.mem_range.mpr ha, by positivity⟩
  linarith

/-- The ridge start always exists over ℝ. -/
theorem ridgeInit_isSome {n m : ℕ} (L : Mat ℝ n m) (t : Vector ℝ n) : ∃ z0, ridgeInit L t = some z0 := by
  obtain ⟨C, hC⟩ := chol?_isSome_of_posDef (ridgeGram L) (ridgeGram_symm L) (ridgeGram_posDef L)
  exact ⟨choSolve C (ridgeRhs L t), by unfold ridgeInit; rw [hC]; rfl⟩

/-! ### shifting a list shifts its order statistics and its 1st percentile -/

theorem sortAsc_map_sub (l : List ℝ) (c : ℝ) : sortAsc (l.map (· - c)) = (sortAsc l).map (· - c) := by
  apply List.Perm.eq_of_pairwise (le := (· ≤ ·))
  · intro x y _ _ h1 h2; exact le_antisymm h1 h2
  · exact sortAsc_sorted _
  · exact (List.pairwise_map).mpr ((sortAsc_sorted l).imp (by intro x y h; linarith))
  · exact (sortAsc_perm _).trans ((sortAsc_perm l).map _).symm

theorem quantile01_map_sub (l : List ℝ) (hl : 0 < l.length) (c : ℝ) :
    quantile01 (l.map (· - c)) = quantile01 l - c := by
  rw [quantile01_eq, quantile01_eq, sortAsc_map_sub, List.length_map]
  have hlen := sortAsc_length l
  have key : ∀ i, i < l.length → ((sortAsc l).map (· - c)).getD i 0 = (sortAsc l).getD i 0 - c := by
    intro i hi
    have hi' : i < (sortAsc l).length := by rw [hlen]; exact hi
    simp [List.getD_eq_getElem?_getD, List.getElem?_eq_getElem hi']
  have alg : ∀ p q w c : ℝ, (p - c) * (1 - w) + (q - c) * w = p * (1 - w) + q * w - c := by
    intros; ring
  rw [key _ (by omega), key _ (by split_ifs <;> omega)]
  exact alg _ _ _ _

end Mellon
