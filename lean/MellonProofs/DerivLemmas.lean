/-
  MellonProofs.DerivLemmas — helpers of C12: the autodiff contract, list bookkeeping for rows and
  the time column, linearity of the conditional mean, kernel symmetry.
-/
import MellonModel.Deriv
import MellonProofs.KernelGradCloseLemmas

namespace Mellon

/-! ### the contract of JAX autodiff -/

/-- `jax.jacrev` / `jax.jacfwd` return derivatives: the result has one entry per coordinate of the
    row, and whenever the function has a partial derivative in coordinate `j` at the row, entry `j`
    is that derivative. -/
structure DiffContract (D : Diff ℝ) : Prop where
  width : ∀ (f : List ℝ → ℝ) (x : List ℝ), (D.jac f x).length = x.length
  partialDeriv : ∀ (f : List ℝ → ℝ) (x : List ℝ) (j : Nat) (d : ℝ), j < x.length →
    HasDerivAt (fun t => f (x.set j t)) d (x.getD j 0) → (D.jac f x).getD j 0 = d

/-- The contract is satisfiable: coordinate-wise `deriv`. -/
noncomputable def derivDiff : Diff ℝ :=
  ⟨fun f x => (List.range x.length).map fun j => deriv (fun t => f (x.set j t)) (x.getD j 0)⟩

theorem derivDiff_contract : DiffContract derivDiff := by
  constructor
  · intro f x; simp [derivDiff]
  · intro f x j d hj hd
    simp only [derivDiff, List.getD_eq_getElem?_getD, List.getElem?_map]
    rw [List.getElem?_range hj]
    simpa [List.getD_eq_getElem?_getD] using hd.deriv

/-! ### rows, `set`, and the appended time column -/

theorem set_getD_self (x : List ℝ) (j : Nat) : x.set j (x.getD j 0) = x := by
  induction x generalizing j with
  | nil => simp
  | cons a as ih =>
    cases j with
    | zero => simp
    | succ j => simpa using ih j

theorem set_append_left (x : List ℝ) (t : ℝ) (j : Nat) (s : ℝ) (hj : j < x.length) :
    (x ++ [t]).set j s = x.set j s ++ [t] := by
  rw [List.set_append_left _ _ hj]

theorem set_append_last (x : List ℝ) (t s : ℝ) : (x ++ [t]).set x.length s = x ++ [s] := by
  rw [List.set_append_right _ _ (le_refl _)]; simp

theorem getD_append_last (x : List ℝ) (t : ℝ) : (x ++ [t]).getD x.length 0 = t := by
  simp [List.getD_eq_getElem?_getD]

theorem getD_append_left (x : List ℝ) (t : ℝ) (j : Nat) (hj : j < x.length) :
    (x ++ [t]).getD j 0 = x.getD j 0 := by
  simp [List.getD_eq_getElem?_getD, List.getElem?_append_left hj]

theorem mergeTime_getD (X : List (List ℝ)) (ts : List ℝ) (i : Nat) (hX : i < X.length) (ht : i < ts.length) :
    (mergeTime X ts).getD i [] = X.getD i [] ++ [ts.getD i 0] := by
  simp [mergeTime, List.getD_eq_getElem?_getD, hX, ht]

/-! ### kernel symmetry (re-stated here; also C05.k_symm) -/

theorem Cov.k_symm' (c : Cov ℝ) (x y : List ℝ) : c.k x y = c.k y x := by
  induction c generalizing x y with
  | matern32 ls ad => simp only [Cov.k, distance_symm]
  | matern52 ls ad => simp only [Cov.k, distance_symm]
  | expquad ls ad => simp only [Cov.k, distance_symm]
  | exponential ls ad => simp only [Cov.k, distance_symm]
  | ratquad a ls ad => simp only [Cov.k, distance_symm]
  | linear ls ad => simp only [Cov.k, dot_comm]
  | add l r ad ihl ihr => simp only [Cov.k]; rw [ihl, ihr]
  | addC l c ad ih => simp only [Cov.k]; rw [ih]
  | mul l r ad ihl ihr => simp only [Cov.k]; rw [ihl, ihr]
  | mulC l c ad ih => simp only [Cov.k]; rw [ih]
  | pow l p ad ih => simp only [Cov.k]; rw [ih]

/-! ### linearity: derivative of `Σ_j f_j·w_j` and entries of `Σ_j w_j·v_j` -/

theorem wsum_hasDerivAt (pts : List (List ℝ)) (w : List ℝ) (F : List ℝ → ℝ → ℝ) (G : List ℝ → ℝ) (t0 : ℝ)
    (h : ∀ pt ∈ pts, HasDerivAt (F pt) (G pt) t0) :
    HasDerivAt (fun t => wsum pts w (fun pt => F pt t)) (wsum pts w G) t0 := by
  induction pts generalizing w with
  | nil => simpa [wsum] using hasDerivAt_const t0 (0:ℝ)
  | cons p ps ih =>
    cases w with
    | nil => simpa [wsum] using hasDerivAt_const t0 (0:ℝ)
    | cons wj ws =>
      simp only [wsum]
      exact ((h p (by simp)).mul_const wj).add (ih ws (fun pt hpt => h pt (by simp [hpt])))

theorem wvsum_length (d : Nat) (pts : List (List ℝ)) (w : List ℝ) (g : List ℝ → List ℝ)
    (h : ∀ pt ∈ pts, (g pt).length = d) : (wvsum d pts w g).length = d := by
  induction pts generalizing w with
  | nil => simp [wvsum]
  | cons p ps ih =>
    cases w with
    | nil => simp [wvsum]
    | cons wj ws =>
      simp only [wvsum, List.length_zipWith, List.length_map]
      rw [h p (by simp), ih ws (fun pt hpt => h pt (by simp [hpt]))]; simp

theorem getD_zipWith_add (a b : List ℝ) (j : Nat) (h : a.length = b.length) :
    (List.zipWith (· + ·) a b).getD j 0 = a.getD j 0 + b.getD j 0 := by
  induction a generalizing b j with
  | nil =>
    have : b = [] := List.length_eq_zero_iff.mp (by simpa using h.symm)
    subst this; simp
  | cons x xs ih =>
    cases b with
    | nil => simp at h
    | cons y ys =>
      cases j with
      | zero => simp
      | succ j => simpa using ih ys j (by simpa using h)

theorem getD_map_mul (a : List ℝ) (c : ℝ) (j : Nat) : (a.map (· * c)).getD j 0 = a.getD j 0 * c := by
  simp only [List.getD_eq_getElem?_getD, List.getElem?_map]
  cases a[j]? <;> simp

theorem getD_map_mul_left (a : List ℝ) (c : ℝ) (j : Nat) :
    (a.map fun g => c * g).getD j 0 = c * a.getD j 0 := by
  simp only [List.getD_eq_getElem?_getD, List.getElem?_map]
  cases a[j]? <;> simp

/-- entry `j` of `Σ_i w_i·g(p_i)` is `Σ_i g(p_i)[j]·w_i`. -/
theorem wvsum_getD (d : Nat) (pts : List (List ℝ)) (w : List ℝ) (g : List ℝ → List ℝ) (j : Nat)
    (h : ∀ pt ∈ pts, (g pt).length = d) :
    (wvsum d pts w g).getD j 0 = wsum pts w (fun pt => (g pt).getD j 0) := by
  induction pts generalizing w with
  | nil => simp only [wvsum, wsum]; exact getD_replicate_zero d j
  | cons p ps ih =>
    cases w with
    | nil => simp only [wvsum, wsum]; exact getD_replicate_zero d j
    | cons wj ws =>
      have hps : ∀ pt ∈ ps, (g pt).length = d := fun pt hpt => h pt (by simp [hpt])
      simp only [wvsum, wsum]
      rw [getD_zipWith_add _ _ _ (by rw [List.length_map, h p (by simp), wvsum_length d ps ws g hps]),
        getD_map_mul, ih ws hps]

/-! ### the conditional mean and its exact-division gradient -/

/-- `GPMean.meanGrad` with the guard of `distance_grad` as a parameter (`meanGrad = meanGradE 1e-12`). -/
noncomputable def GPMean.meanGradE (e : ℝ) (p : GPMean ℝ) (x : List ℝ) : List ℝ :=
  wvsum x.length p.pts p.weights (fun pt => p.cov.kGradE e pt x)

noncomputable def GPMean.callGradE (e : ℝ) (kind : PredKind) (p : GPMean ℝ) (x : List ℝ) : List ℝ :=
  match kind with
  | .exp => (p.meanGradE e x).map fun g => Real.exp (p.mean x) * g
  | _ => p.meanGradE e x

theorem GPMean.meanGrad_eq (p : GPMean ℝ) (x : List ℝ) : p.meanGrad x = p.meanGradE distEps x := by
  unfold GPMean.meanGrad GPMean.meanGradE
  congr 1
  funext pt
  exact kGrad_eq_kGradE p.cov pt x

theorem GPMean.callGrad_eq (kind : PredKind) (p : GPMean ℝ) (x : List ℝ) :
    p.callGrad kind x = p.callGradE distEps kind x := by
  cases kind <;> simp [GPMean.callGrad, GPMean.callGradE, GPMean.meanGrad_eq]

/-- Hypotheses under which the kernel is differentiable in the query row at `x`: conditioning
    points of the same width, indices in range, regular at each pair. -/
structure GPMean.Smooth (p : GPMean ℝ) (x : List ℝ) : Prop where
  width : ∀ pt ∈ p.pts, pt.length = x.length
  wf : p.cov.WF x.length = true
  regular : ∀ pt ∈ p.pts, p.cov.Regular pt x

theorem GPMean.mean_set_symm (p : GPMean ℝ) (x : List ℝ) :
    p.mean x = p.mu + wsum p.pts p.weights (fun pt => p.cov.k pt x) := by
  unfold GPMean.mean
  congr 2
  funext pt
  exact Cov.k_symm' _ _ _

/-- **Closed form from linearity**: `∂ mean(x*)/∂x*_j = Σ_i w_i · (∇_y k(p_i, y)|_{y=x*})_j`. -/
theorem GPMean.mean_partial (p : GPMean ℝ) (x : List ℝ) (j : Nat) (hs : p.Smooth x) :
    HasDerivAt (fun t => p.mean (x.set j t)) ((p.meanGradE 0 x).getD j 0) (x.getD j 0) := by
  have hfun : (fun t => p.mean (x.set j t))
      = fun t => p.mu + wsum p.pts p.weights (fun pt => p.cov.k pt (x.set j t)) := by
    funext t; exact p.mean_set_symm _
  rw [hfun]
  have hlen : ∀ pt ∈ p.pts, (p.cov.kGradE 0 pt x).length = x.length :=
    fun pt hpt => kGradE_length 0 p.cov pt x (hs.width pt hpt) hs.wf
  unfold GPMean.meanGradE
  rw [wvsum_getD x.length p.pts p.weights _ j hlen]
  apply HasDerivAt.const_add
  apply wsum_hasDerivAt p.pts p.weights (fun pt t => p.cov.k pt (x.set j t))
  intro pt hpt
  exact kGradE_zero_partial p.cov pt x j (hs.width pt hpt) hs.wf (hs.regular pt hpt)

theorem GPMean.meanGradE_length (e : ℝ) (p : GPMean ℝ) (x : List ℝ) (hs : p.Smooth x) :
    (p.meanGradE e x).length = x.length :=
  wvsum_length _ _ _ _ (fun pt hpt => kGradE_length e p.cov pt x (hs.width pt hpt) hs.wf)

/-! ### the executable closed form is close to the exact one -/

theorem wsum_close (pts : List (List ℝ)) (w : List ℝ) (f g b : List ℝ → ℝ) (ρ : ℝ)
    (h : ∀ pt ∈ pts, |f pt - g pt| ≤ ρ * b pt) :
    |wsum pts w f - wsum pts w g| ≤ ρ * wsum pts (absL w) b := by
  induction pts generalizing w with
  | nil => simp [wsum]
  | cons p ps ih =>
    cases w with
    | nil => simp [wsum, absL]
    | cons wj ws =>
      have h1 := h p (by simp)
      have h2 := ih ws (fun pt hpt => h pt (by simp [hpt]))
      simp only [wsum, absL, List.map_cons] at h2 ⊢
      have e : f p * wj + wsum ps ws f - (g p * wj + wsum ps ws g)
          = (f p - g p) * wj + (wsum ps ws f - wsum ps ws g) := by ring
      rw [e]
      have t1 : |(f p - g p) * wj| ≤ ρ * b p * |wj| := by
        rw [abs_mul]; exact mul_le_mul_of_nonneg_right h1 (abs_nonneg _)
      calc |(f p - g p) * wj + (wsum ps ws f - wsum ps ws g)|
          ≤ |(f p - g p) * wj| + |wsum ps ws f - wsum ps ws g| := abs_add_le _ _
        _ ≤ ρ * (b p * |wj| + wsum ps (List.map (fun a => |a|) ws) b) := by
            have := h2; nlinarith

/-- The executable closed form of `∇ mean` (kernel gradients of `cov.k_grad`, guard `1e-12`) is within
    `1e-6 · Σ_i |w_i|·devBound_i` of the exact gradient. -/
theorem GPMean.meanGrad_close (p : GPMean ℝ) (x : List ℝ) (j : Nat) (hs : p.Smooth x) :
    |(p.meanGrad x).getD j 0 - (p.meanGradE 0 x).getD j 0|
      ≤ 1e-6 * wsum p.pts (absL p.weights) (fun pt => (p.cov.devBound pt x).getD j 0) := by
  rw [p.meanGrad_eq]
  have hlen : ∀ e, ∀ pt ∈ p.pts, (p.cov.kGradE e pt x).length = x.length :=
    fun e pt hpt => kGradE_length e p.cov pt x (hs.width pt hpt) hs.wf
  unfold GPMean.meanGradE
  rw [wvsum_getD x.length p.pts p.weights _ j (hlen _), wvsum_getD x.length p.pts p.weights _ j (hlen _)]
  apply wsum_close
  intro pt hpt
  exact kGradE_close_entry p.cov pt x j (hs.width pt hpt) hs.wf

end Mellon
