/-
  MellonProofs.PersistLemmas — helper lemmas for C07: state round trip of a predictor object,
  stability of the data dict, suffix reasoning on file names, allocation ids.
-/
import MellonProofs.SerialLemmas
import MellonModel.Persist

namespace Mellon

/-! ### class names -/

theorem ofName_name_pred (c : PredClass) : PredClass.ofName? c.name = some c := by
  cases c <;> decide

theorem predClassLookup_name (c : PredClass) : predClassLookup predModule c.name = .ok c := by
  simp [predClassLookup, ofName_name_pred]

/-! ### the state dict and its way back -/

/-- The state `__getstate__` builds from a data dict. -/
def stateOf (m : Meta) (cls : PredClass) (data : List (String × PyVal)) (cov : Cov PyVal) : PyVal :=
  .dict [("data", .dict (makeSerializableK data)), ("cov_func", covToDict m cov),
         ("metadata", metaDict m cls.name predModule)]

theorem predGetState_eq (m : Meta) (p : Pred) (data : List (String × PyVal)) (h : predData p = .ok data) :
    predGetState m p = .ok (stateOf m p.cls data p.cov) := by
  simp [predGetState, h, stateOf]

theorem normF_stateOf (f : UInt64 → UInt64) (m : Meta) (cls : PredClass) (data : List (String × PyVal))
    (cov : Cov PyVal) :
    PyVal.normF f (stateOf m cls data cov)
      = .dict [("data", .dict (PyVal.normFK f (makeSerializableK data))),
               ("cov_func", PyVal.normF f (covToDict m cov)), ("metadata", metaDict m cls.name predModule)] := by
  simp [stateOf, PyVal.normF, PyVal.normFK, normF_metaDict]

theorem jsonLike_stateOf (f : UInt64 → UInt64) (m : Meta) (cls : PredClass) (data : List (String × PyVal))
    (cov : Cov PyVal) (hd : PyVal.WFK f data = true) (hc : cov.paramsWF f = true) :
    (stateOf m cls data cov).jsonLike = true := by
  simp [stateOf, PyVal.jsonLike, PyVal.jsonLikeK, jsonLikeK_ms f data hd, jsonLike_covToDict f m cov hc,
    jsonLike_metaDict]

theorem predSetState_stateOf (f : UInt64 → UInt64) (m : Meta) (cls cls' : PredClass)
    (data : List (String × PyVal)) (cov : Cov PyVal) (hd : PyVal.WFK f data = true) (hc : cov.paramsWF f = true) :
    predSetState cls' (PyVal.normF f (stateOf m cls data cov))
      = .ok ⟨cls', PyVal.normFK f data, cov.mapP (PyVal.normF f)⟩ := by
  rw [normF_stateOf]
  simp [predSetState, alookup, deserK_ms f data hd, covFromDict_covToDict f m cov hc]

theorem predFromDict_stateOf (f : UInt64 → UInt64) (m : Meta) (cls : PredClass)
    (data : List (String × PyVal)) (cov : Cov PyVal) (hd : PyVal.WFK f data = true) (hc : cov.paramsWF f = true)
    (hv : versionLt14 m.version = some false) :
    predFromDict (PyVal.normF f (stateOf m cls data cov))
      = .ok ⟨cls, PyVal.normFK f data, cov.mapP (PyVal.normF f)⟩ := by
  have h := predSetState_stateOf f m cls cls data cov hd hc
  rw [normF_stateOf] at h ⊢
  simp [predFromDict, alookup, metaDict, metaStr, hv, predClassLookup_name]
  simpa [metaDict] using h

/-! ### `alookup` / `dictSet` / `normFK` -/

theorem alookup_dictSet_same (k : String) (v : PyVal) : ∀ d : List (String × PyVal),
    alookup k (dictSet k v d) = some v
  | [] => by simp [dictSet, alookup]
  | (k', v') :: r => by
    by_cases h : k' = k
    · simp [dictSet, alookup, h]
    · simp [dictSet, alookup, h, alookup_dictSet_same k v r]

theorem alookup_dictSet_other (k k2 : String) (v : PyVal) (hne : k2 ≠ k) : ∀ d : List (String × PyVal),
    alookup k2 (dictSet k v d) = alookup k2 d
  | [] => by simp [dictSet, alookup, Ne.symm hne]
  | (k', v') :: r => by
    by_cases h : k' = k
    · subst h
      simp [dictSet, alookup, Ne.symm hne]
    · by_cases h2 : k' = k2
      · subst h2
        simp [dictSet, alookup, h]
      · simp [dictSet, alookup, h, h2, alookup_dictSet_other k k2 v hne r]

theorem alookup_normFK (f : UInt64 → UInt64) (k : String) : ∀ d : List (String × PyVal),
    alookup k (PyVal.normFK f d) = (alookup k d).map (PyVal.normF f)
  | [] => rfl
  | (k', v') :: r => by
    by_cases h : k' = k
    · simp [PyVal.normFK, alookup, h]
    · simp [PyVal.normFK, alookup, h, alookup_normFK f k r]

theorem normFK_dictSet (f : UInt64 → UInt64) (k : String) (v : PyVal) : ∀ d : List (String × PyVal),
    PyVal.normFK f (dictSet k v d) = dictSet k (PyVal.normF f v) (PyVal.normFK f d)
  | [] => rfl
  | (k', v') :: r => by
    by_cases h : k' = k
    · simp [dictSet, PyVal.normFK, h]
    · simp [dictSet, PyVal.normFK, h, normFK_dictSet f k v r]

/-- What `predData` returns, spelled out. -/
theorem predData_spec (p : Pred) (data : List (String × PyVal)) (h : predData p = .ok data) :
    ∃ sv names d0 nif nobs,
      alookup "_state_variables" p.attrs = some sv ∧ stateVarNames sv = .ok names
      ∧ dataDict p.attrs names = .ok d0
      ∧ alookup "n_input_features" p.attrs = some nif ∧ alookup "n_obs" p.attrs = some nobs
      ∧ data = dictSet "_state_variables" sv (dictSet "n_obs" nobs (dictSet "n_input_features" nif d0)) := by
  unfold predData getAttr at h
  cases hsv : alookup "_state_variables" p.attrs with
  | none => simp [hsv] at h
  | some sv =>
    simp only [hsv] at h
    cases hn : stateVarNames sv with
    | error e => simp [hn] at h
    | ok names =>
      simp only [hn] at h
      cases hd : dataDict p.attrs names with
      | error e => simp [hd] at h
      | ok d0 =>
        simp only [hd] at h
        cases hnif : alookup "n_input_features" p.attrs with
        | none => simp [hnif] at h
        | some nif =>
          cases hnobs : alookup "n_obs" p.attrs with
          | none => simp [hnif, hnobs] at h
          | some nobs =>
            simp only [hnif, hnobs] at h
            refine ⟨sv, names, d0, nif, nobs, rfl, hn, hd, rfl, rfl, ?_⟩
            injection h with h
            exact h.symm

theorem predData_n_obs (p : Pred) (data : List (String × PyVal)) (h : predData p = .ok data) :
    alookup "n_obs" data = alookup "n_obs" p.attrs
    ∧ alookup "n_input_features" data = alookup "n_input_features" p.attrs
    ∧ alookup "_state_variables" data = alookup "_state_variables" p.attrs := by
  obtain ⟨sv, names, d0, nif, nobs, h1, _, _, h4, h5, rfl⟩ := predData_spec p data h
  refine ⟨?_, ?_, ?_⟩
  · rw [alookup_dictSet_other _ _ _ (by decide), alookup_dictSet_same, h5]
  · rw [alookup_dictSet_other _ _ _ (by decide), alookup_dictSet_other _ _ _ (by decide), alookup_dictSet_same, h4]
  · rw [alookup_dictSet_same, h1]

/-! ### the data dict of a reloaded predictor is the normal form of the original data dict -/

theorem strsOfPy_normFL (f : UInt64 → UInt64) : ∀ xs : List PyVal, strsOfPy (PyVal.normFL f xs) = strsOfPy xs
  | [] => rfl
  | x :: xs => by
    have ih := strsOfPy_normFL f xs
    cases x <;> simp [PyVal.normFL, PyVal.normF, strsOfPy, ih]

theorem stateVarNames_normF (f : UInt64 → UInt64) (sv : PyVal) : stateVarNames (PyVal.normF f sv) = stateVarNames sv := by
  cases sv <;> simp [PyVal.normF, stateVarNames, strsOfPy_normFL]

theorem dataDict_lookup (attrs : List (String × PyVal)) : ∀ (names : List String) (d0 : List (String × PyVal)),
    dataDict attrs names = .ok d0 → ∀ k ∈ names, alookup k d0 = alookup k attrs
  | [], _, _, k, hk => by simp at hk
  | n :: ns, d0, h, k, hk => by
    unfold dataDict getAttr at h
    cases hn : alookup n attrs with
    | none => simp [hn] at h
    | some v =>
      cases hr : dataDict attrs ns with
      | error e => simp [hn, hr] at h
      | ok r =>
        simp only [hn, hr] at h
        injection h with h
        subst h
        by_cases hkn : n = k
        · subst hkn; simp [alookup, hn]
        · have hk' : k ∈ ns := by
            rcases List.mem_cons.mp hk with e | e
            · exact absurd e.symm hkn
            · exact e
          simp [alookup, hkn, dataDict_lookup attrs ns r hr k hk']

theorem dataDict_map (f : UInt64 → UInt64) (attrs attrs' : List (String × PyVal)) :
    ∀ (names : List String) (d0 : List (String × PyVal)), dataDict attrs names = .ok d0 →
      (∀ k ∈ names, alookup k attrs' = (alookup k attrs).map (PyVal.normF f)) →
      dataDict attrs' names = .ok (PyVal.normFK f d0)
  | [], d0, h, _ => by
    simp only [dataDict] at h
    injection h with h
    subst h
    rfl
  | n :: ns, d0, h, hl => by
    unfold dataDict getAttr at h
    cases hn : alookup n attrs with
    | none => simp [hn] at h
    | some v =>
      cases hr : dataDict attrs ns with
      | error e => simp [hn, hr] at h
      | ok r =>
        simp only [hn, hr] at h
        injection h with h
        subst h
        have h1 := hl n (by simp)
        rw [hn] at h1
        have h2 := dataDict_map f attrs attrs' ns r hr (fun k hk => hl k (by simp [hk]))
        simp [dataDict, getAttr, h1, h2, PyVal.normFK]

theorem predData_normalized (f : UInt64 → UInt64) (p : Pred) (data : List (String × PyVal))
    (h : predData p = .ok data) (cov' : Cov PyVal) :
    predData ⟨p.cls, PyVal.normFK f data, cov'⟩ = .ok (PyVal.normFK f data) := by
  obtain ⟨sv, names, d0, nif, nobs, h1, h2, h3, h4, h5, hdata⟩ := predData_spec p data h
  obtain ⟨g1, g2, g3⟩ := predData_n_obs p data h
  have key : ∀ k ∈ names, alookup k (PyVal.normFK f data) = (alookup k p.attrs).map (PyVal.normF f) := by
    intro k hk
    rw [alookup_normFK]
    congr 1
    by_cases e1 : k = "_state_variables"
    · subst e1; exact g3
    · by_cases e2 : k = "n_obs"
      · subst e2; exact g1
      · by_cases e3 : k = "n_input_features"
        · subst e3; exact g2
        · rw [hdata, alookup_dictSet_other _ _ _ e1, alookup_dictSet_other _ _ _ e2,
            alookup_dictSet_other _ _ _ e3]
          exact dataDict_lookup p.attrs names d0 h3 k hk
  have hd := dataDict_map f p.attrs (PyVal.normFK f data) names d0 h3 key
  simp only [predData, getAttr, alookup_normFK, g1, g2, g3, h1, h4, h5, Option.map_some,
    stateVarNames_normF, h2, hd]
  rw [hdata, normFK_dictSet, normFK_dictSet, normFK_dictSet]

/-! ### `make_serializable` commutes with the normal form -/

theorem ms_normF_atom (f : UInt64 → UInt64) (x : PyVal) (h : x.atom = true) :
    makeSerializable (PyVal.normF f x) = PyVal.normF f (makeSerializable x) := by
  cases x <;> simp_all [PyVal.atom, makeSerializable, PyVal.normF]

theorem msL_normFL_atoms (f : UInt64 → UInt64) : ∀ xs : List PyVal, xs.all PyVal.atom = true →
    makeSerializableL (PyVal.normFL f xs) = PyVal.normFL f (makeSerializableL xs)
  | [], _ => rfl
  | x :: xs, h => by
    simp only [List.all_cons, Bool.and_eq_true] at h
    simp [PyVal.normFL, makeSerializableL, ms_normF_atom f x h.1, msL_normFL_atoms f xs h.2]

mutual
theorem ms_normF (f : UInt64 → UInt64) : ∀ v : PyVal, v.WF f = true →
    makeSerializable (PyVal.normF f v) = PyVal.normF f (makeSerializable v)
  | .none, _ | .bool _, _ | .int _, _ | .float _, _ | .str _, _ | .npInt _, _ | .npFloat _, _ | .npBool _, _ => rfl
  | .arr dt sh d, _ => by
    simp [makeSerializable, PyVal.normF, PyVal.normFK, normF_nest, normFL_ints]
  | .slice a b c, h => by
    simp only [PyVal.WF, Bool.and_eq_true] at h
    simp [makeSerializable, PyVal.normF, PyVal.normFK, PyVal.normFL, ms_normF f a h.1.1, ms_normF f b h.1.2,
      ms_normF f c h.2]
  | .dict kvs, h => by
    simp only [PyVal.WF, Bool.and_eq_true] at h
    simp [makeSerializable, PyVal.normF, PyVal.normFK, msK_normFK f kvs h.1]
  | .set xs, h => by
    simp only [PyVal.WF, Bool.and_eq_true] at h
    simp [makeSerializable, PyVal.normF, PyVal.normFK, msL_normFL_atoms f xs h.1]
  | .list xs, h => by
    simp only [PyVal.WF] at h
    simp [makeSerializable, PyVal.normF, msL_normFL f xs h]
  | .tuple xs, h => by
    simp only [PyVal.WF] at h
    simp [makeSerializable, PyVal.normF, msL_normFL f xs h]
  | .opaque _, h => by simp [PyVal.WF] at h
theorem msL_normFL (f : UInt64 → UInt64) : ∀ xs : List PyVal, PyVal.WFL f xs = true →
    makeSerializableL (PyVal.normFL f xs) = PyVal.normFL f (makeSerializableL xs)
  | [], _ => rfl
  | x :: xs, h => by
    simp only [PyVal.WFL, Bool.and_eq_true] at h
    simp [PyVal.normFL, makeSerializableL, ms_normF f x h.1, msL_normFL f xs h.2]
theorem msK_normFK (f : UInt64 → UInt64) : ∀ kvs : List (String × PyVal), PyVal.WFK f kvs = true →
    makeSerializableK (PyVal.normFK f kvs) = PyVal.normFK f (makeSerializableK kvs)
  | [], _ => rfl
  | (k, v) :: r, h => by
    simp only [PyVal.WFK, Bool.and_eq_true] at h
    simp [PyVal.normFK, makeSerializableK, ms_normF f v h.1, msK_normFK f r h.2]
end

theorem ms_adToPy_normF (f : UInt64 → UInt64) (ad : ActiveDims) :
    PyVal.normF f (makeSerializable (adToPy ad)) = makeSerializable (adToPy ad) := by
  rw [← ms_normF f _ (WF_adToPy f ad), normF_adToPy]

theorem covToDict_mapP_normF (f : UInt64 → UInt64) (m : Meta) : ∀ c : Cov PyVal, c.paramsWF f = true →
    covToDict m (c.mapP (PyVal.normF f)) = PyVal.normF f (covToDict m c) := by
  intro c
  induction c with
  | matern32 ls ad | matern52 ls ad | expquad ls ad | exponential ls ad | linear ls ad =>
    intro h
    simp only [Cov.paramsWF] at h
    simp [Cov.mapP, covToDict, leafState, leafData, PyVal.normF, PyVal.normFK, normF_metaDict, ms_adToPy_normF,
      ms_normF f ls h]
  | ratquad a ls ad =>
    intro h
    simp only [Cov.paramsWF, Bool.and_eq_true] at h
    simp [Cov.mapP, covToDict, leafState, leafData, PyVal.normF, PyVal.normFK, normF_metaDict, ms_adToPy_normF,
      ms_normF f ls h.2, ms_normF f a h.1]
  | add l r ad ihl ihr | mul l r ad ihl ihr =>
    intro h
    simp only [Cov.paramsWF, Bool.and_eq_true] at h
    simp [Cov.mapP, covToDict, pairState, PyVal.normF, PyVal.normFK, normF_metaDict, ms_adToPy_normF, ihl h.1, ihr h.2]
  | addC l c ad ih | mulC l c ad ih | pow l c ad ih =>
    intro h
    simp only [Cov.paramsWF, Bool.and_eq_true] at h
    simp [Cov.mapP, covToDict, pairState, PyVal.normF, PyVal.normFK, normF_metaDict, ms_adToPy_normF, ih h.1,
      ms_normF f c h.2]

/-! ### file-name suffixes -/

theorem endsWith_iff (name suf : List Char) : endsWith name suf = true ↔ suf <:+ name := by
  unfold endsWith
  exact List.isSuffixOf_iff_suffix

theorem endsWith_append (name suf : List Char) : endsWith (name ++ suf) suf = true :=
  (endsWith_iff _ _).mpr (List.suffix_append name suf)

/-- A name cannot end in both `.gz` and `.bz2`. -/
theorem not_gz_and_bz2 (name : List Char) (h1 : endsWith name sfxGz = true) (h2 : endsWith name sfxBz2 = true) : False := by
  rw [endsWith_iff] at h1 h2
  have h := List.suffix_of_suffix_length_le h1 h2 (by decide)
  have : sfxGz.isSuffixOf sfxBz2 = true := List.isSuffixOf_iff_suffix.mpr h
  exact absurd this (by decide)

theorem gz_of_bz2 (name : List Char) (h : endsWith name sfxBz2 = true) : endsWith name sfxGz = false := by
  cases hg : endsWith name sfxGz with
  | false => rfl
  | true => exact (not_gz_and_bz2 name hg h).elim

theorem bz2_of_gz (name : List Char) (h : endsWith name sfxGz = true) : endsWith name sfxBz2 = false := by
  cases hb : endsWith name sfxBz2 with
  | false => rfl
  | true => exact (not_gz_and_bz2 name h hb).elim

/-- The extension a format is recognised by. -/
def extOf : Fmt → Option (List Char)
  | .plain => none
  | .gzip => some sfxGz
  | .bz2 => some sfxBz2

/-- `name` carries the extension of `fmt` (for `plain`: neither compressed extension). -/
def extMatches (name : List Char) : Fmt → Bool
  | .plain => !endsWith name sfxGz && !endsWith name sfxBz2
  | .gzip => endsWith name sfxGz
  | .bz2 => endsWith name sfxBz2

theorem readSelect_none_of_ext (name : List Char) (fmt : Fmt) (h : extMatches name fmt = true) :
    readSelect name none = fmt := by
  cases fmt with
  | plain =>
    simp only [extMatches, Bool.and_eq_true, Bool.not_eq_true'] at h
    simp [readSelect, h.1, h.2]
  | gzip =>
    simp only [extMatches] at h
    simp [readSelect, h]
  | bz2 =>
    simp only [extMatches] at h
    simp [readSelect, h, gz_of_bz2 name h]

theorem readSelect_keyword (name : List Char) :
    readSelect name (some "gzip") = .gzip ∧ readSelect name (some "bz2") = .bz2 := by
  constructor <;> simp [readSelect]

/-! ### allocation ids -/

mutual
theorem copy_ids_ge : ∀ (v : LVal) (n : Nat),
    n ≤ (v.copy n).2 ∧ ∀ i ∈ (v.copy n).1.ids, n ≤ i ∧ i < (v.copy n).2
  | .atom _, n => by simp [LVal.copy, LVal.ids]
  | .nparr _ _ _ _, n => by simp [LVal.copy, LVal.ids]
  | .set _ _, n => by simp [LVal.copy, LVal.ids]
  | .list _ xs, n => by
    have ih := copyL_ids_ge xs (n + 1)
    simp only [LVal.copy, LVal.ids, List.mem_cons]
    refine ⟨by omega, ?_⟩
    intro i hi
    rcases hi with rfl | hi
    · omega
    · have := ih.2 i hi
      omega
  | .dict _ kvs, n => by
    have ih := copyK_ids_ge kvs (n + 1)
    simp only [LVal.copy, LVal.ids, List.mem_cons]
    refine ⟨by omega, ?_⟩
    intro i hi
    rcases hi with rfl | hi
    · omega
    · have := ih.2 i hi
      omega
theorem copyL_ids_ge : ∀ (xs : List LVal) (n : Nat),
    n ≤ (LVal.copyL xs n).2 ∧ ∀ i ∈ LVal.idsL (LVal.copyL xs n).1, n ≤ i ∧ i < (LVal.copyL xs n).2
  | [], n => by simp [LVal.copyL, LVal.idsL]
  | v :: r, n => by
    have h1 := copy_ids_ge v n
    have h2 := copyL_ids_ge r (v.copy n).2
    simp only [LVal.copyL, LVal.idsL, List.mem_append]
    refine ⟨by omega, ?_⟩
    intro i hi
    rcases hi with hi | hi
    · have := h1.2 i hi
      omega
    · have := h2.2 i hi
      omega
theorem copyK_ids_ge : ∀ (kvs : List (String × LVal)) (n : Nat),
    n ≤ (LVal.copyK kvs n).2 ∧ ∀ i ∈ LVal.idsK (LVal.copyK kvs n).1, n ≤ i ∧ i < (LVal.copyK kvs n).2
  | [], n => by simp [LVal.copyK, LVal.idsK]
  | (k, v) :: r, n => by
    have h1 := copy_ids_ge v n
    have h2 := copyK_ids_ge r (v.copy n).2
    simp only [LVal.copyK, LVal.idsK, List.mem_append]
    refine ⟨by omega, ?_⟩
    intro i hi
    rcases hi with hi | hi
    · have := h1.2 i hi
      omega
    · have := h2.2 i hi
      omega
end

theorem mapF_id (s : Scalar) : s.mapF id = s := by cases s <;> rfl

mutual
/-- The labelled copy is the value-level state round trip (ties the allocation model to `Serial`). -/
theorem copy_erase : ∀ (v : LVal) (n : Nat), v.erase.WF id = true → (v.copy n).1.erase = PyVal.normF id v.erase
  | .atom _, _, _ => rfl
  | .nparr _ dt sh d, _, _ => by
    simp only [LVal.copy, LVal.erase, PyVal.normF]
    congr 1
    conv => lhs; rw [← List.map_id d]
    exact List.map_congr_left (fun s _ => (mapF_id s).symm)
  | .set _ xs, _, h => by
    simp only [LVal.erase, PyVal.WF, Bool.and_eq_true] at h
    simp [LVal.copy, LVal.erase, PyVal.normF, dedupPy_of_nodup _ h.2]
  | .list _ xs, n, h => by
    simp only [LVal.erase, PyVal.WF] at h
    simp [LVal.copy, LVal.erase, PyVal.normF, copyL_erase xs (n + 1) h]
  | .dict _ kvs, n, h => by
    simp only [LVal.erase, PyVal.WF, Bool.and_eq_true] at h
    simp [LVal.copy, LVal.erase, PyVal.normF, copyK_erase kvs (n + 1) h.1]
theorem copyL_erase : ∀ (xs : List LVal) (n : Nat), PyVal.WFL id (LVal.eraseL xs) = true →
    LVal.eraseL (LVal.copyL xs n).1 = PyVal.normFL id (LVal.eraseL xs)
  | [], _, _ => rfl
  | v :: r, n, h => by
    simp only [LVal.eraseL, PyVal.WFL, Bool.and_eq_true] at h
    simp [LVal.copyL, LVal.eraseL, PyVal.normFL, copy_erase v n h.1, copyL_erase r (v.copy n).2 h.2]
theorem copyK_erase : ∀ (kvs : List (String × LVal)) (n : Nat), PyVal.WFK id (LVal.eraseK kvs) = true →
    LVal.eraseK (LVal.copyK kvs n).1 = PyVal.normFK id (LVal.eraseK kvs)
  | [], _, _ => rfl
  | (k, v) :: r, n, h => by
    simp only [LVal.eraseK, PyVal.WFK, Bool.and_eq_true] at h
    simp [LVal.copyK, LVal.eraseK, PyVal.normFK, copy_erase v n h.1, copyK_erase r (v.copy n).2 h.2]
end

/-! ### legacy dicts -/

theorem deserializeK_append : ∀ (d e d' e' : List (String × PyVal)),
    deserializeK d = .ok d' → deserializeK e = .ok e' → deserializeK (d ++ e) = .ok (d' ++ e')
  | [], e, d', e', h1, h2 => by
    simp only [deserializeK] at h1
    injection h1 with h1
    subst h1
    simpa using h2
  | (k, v) :: r, e, d', e', h1, h2 => by
    simp only [deserializeK] at h1
    cases hv : deserialize v with
    | error err => simp [hv] at h1
    | ok y =>
      cases hr : deserializeK r with
      | error err => simp [hv, hr] at h1
      | ok ys =>
        simp only [hv, hr] at h1
        injection h1 with h1
        subst h1
        simp [deserializeK, hv, deserializeK_append r e ys e' hr h2]

theorem keysOf_append (d e : List (String × PyVal)) : keysOf (d ++ e) = keysOf d ++ keysOf e := by
  induction d with
  | nil => rfl
  | cons kv r ih => cases kv; simp [keysOf, ih]

theorem alookup_append_none (k : String) : ∀ (d e : List (String × PyVal)), alookup k d = none →
    alookup k (d ++ e) = alookup k e
  | [], _, _ => rfl
  | (k', v) :: r, e, h => by
    by_cases hk : k' = k
    · simp [alookup, hk] at h
    · simp only [alookup, hk, if_false] at h
      simp [alookup, hk, alookup_append_none k r e h]

end Mellon
