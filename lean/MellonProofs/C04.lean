/-
  C04 — Covariance factor L: L Lᵀ is the specified approximation, never above K.
  Property theorems only (model: MellonModel/Decomp.lean, α = ℝ).  `eigh` / `qr` enter through their
  contract (orthonormal eigenvectors with `A = V diag(s) Vᵀ`; `QᵀQ = 1`).
-/
import MellonProofs.ConditionalLemmas
import MellonProofs.SchurLemmas
import MellonProofs.PSDJoint
import MellonModel.Decomp
import Mathlib.LinearAlgebra.Matrix.PosDef
import Mathlib.Algebra.Order.Star.Real
import Mathlib.LinearAlgebra.Matrix.NonsingularInverse
import Mathlib.LinearAlgebra.Matrix.Block

open Matrix Finset

namespace Mellon.C04
open Mellon

variable {n m d p : Nat}

/-! ### full -/

/-- **full.** `L Lᵀ = K + max(σ², jitter)·I`, `L` lower triangular with positive diagonal. -/
theorem full_LLt {cov : Cov ℝ} {x : Mat ℝ n d} {sigma jitter : ℝ} {L : Mat ℝ n n}
    (h : fullRank cov x sigma jitter = some L) :
    toM L * (toM L)ᵀ = toM (gram cov x x) + (max (sigma * sigma) jitter) • (1 : Matrix (Fin n) (Fin n) ℝ)
      ∧ LowerNonsing L ∧ ∀ i, i < n → 0 < L.el i i := by
  unfold fullRank at h
  have hchol := chol?_spec h
  have hsym : (toM (stabilize (gram cov x x) (regSigma2 sigma jitter))).IsSymm := by
    rw [toM_stabilize]
    exact (gram_symm cov x).add ((Matrix.isSymm_one).smul _)
  have hreg : regSigma2 sigma jitter = max (sigma * sigma) jitter := by
    unfold regSigma2
    by_cases hlt : sigma * sigma < jitter
    · simp only [hlt, if_true, max_eq_right (le_of_lt hlt)]
    · simp only [hlt, if_false, max_eq_left (not_lt.mp hlt)]
  refine ⟨?_, hchol.lowerNonsing, hchol.diag_pos⟩
  rw [hchol.mul_transpose hsym, toM_stabilize, hreg]

/-- With the estimators' `sigma = 0` and a positive jitter the regulariser is the jitter. -/
theorem full_LLt_jitter {cov : Cov ℝ} {x : Mat ℝ n d} {jitter : ℝ} (hj : 0 ≤ jitter) {L : Mat ℝ n n}
    (h : fullRank cov x 0 jitter = some L) :
    toM L * (toM L)ᵀ = toM (gram cov x x) + jitter • (1 : Matrix (Fin n) (Fin n) ℝ) := by
  have := (full_LLt h).1
  simpa [max_eq_right hj] using this

/-! ### inducing points (sparse_cholesky, fixed) -/

theorem toM_transpose {a b : Nat} (A : Mat ℝ a b) : toM (Mat.transpose A) = (toM A)ᵀ := by
  ext i j
  simp [Mat.transpose, i.isLt, j.isLt]

/-- **inducing points.** `L = K_xu Lp⁻ᵀ`: `L Lpᵀ = K_xu` where `Lp` is the factor in use — the
    Cholesky factor of `K_uu + max(σ²,jitter)·I` when none is supplied. -/
theorem inducing_factor {cov : Cov ℝ} {x : Mat ℝ n d} {xu : Mat ℝ m d} {sigma jitter : ℝ} {L : Mat ℝ n m}
    (h : standardLowRank cov x xu Option.none sigma jitter = some L) :
    ∃ Lp : Mat ℝ m m, fullRank cov xu sigma jitter = some Lp
      ∧ toM L * (toM Lp)ᵀ = toM (gram cov x xu)
      ∧ toM Lp * (toM Lp)ᵀ
          = toM (gram cov xu xu) + (max (sigma * sigma) jitter) • (1 : Matrix (Fin m) (Fin m) ℝ) := by
  unfold standardLowRank at h
  simp only at h
  split at h
  · cases h
  · rename_i Lp hLp
    have hL : L = Mat.transpose (solveLowerM Lp (gram cov xu x)) := (Option.some.inj h).symm
    obtain ⟨hLLt, hLN, _⟩ := full_LLt hLp
    refine ⟨Lp, hLp, ?_, hLLt⟩
    have h1 : toM Lp * toM (solveLowerM Lp (gram cov xu x)) = toM (gram cov xu x) := solveLowerM_mul hLN _
    rw [hL, toM_transpose, ← Matrix.transpose_mul, h1, gram_transpose]

/-- **user-supplied `Lp`** is used as given: `L Lpᵀ = K_xu`. -/
theorem lp_passthrough {cov : Cov ℝ} {x : Mat ℝ n d} {xu : Mat ℝ m d} {sigma jitter : ℝ} {Lp : Mat ℝ m m}
    (hLp : LowerNonsing Lp) {L : Mat ℝ n m}
    (h : standardLowRank cov x xu (some Lp) sigma jitter = some L) :
    toM L * (toM Lp)ᵀ = toM (gram cov x xu) := by
  unfold standardLowRank at h
  simp only at h
  have hL : L = Mat.transpose (solveLowerM Lp (gram cov xu x)) := (Option.some.inj h).symm
  have h1 : toM Lp * toM (solveLowerM Lp (gram cov xu x)) = toM (gram cov xu x) := solveLowerM_mul hLp _
  rw [hL, toM_transpose, ← Matrix.transpose_mul, h1, gram_transpose]

/-- A lower-triangular matrix with non-zero diagonal is invertible. -/
theorem lowerNonsing_det {k : Nat} {L : Mat ℝ k k} (hL : LowerNonsing L) : IsUnit (toM L).det := by
  have htri : (toM L).IsLowerTriangular := by
    intro i j hij
    have : i.val < j.val := hij
    exact hL.upper_zero i j this
  rw [Matrix.det_of_isLowerTriangular _ htri, isUnit_iff_ne_zero]
  exact Finset.prod_ne_zero_iff.mpr (fun i _ => hL.diag_ne i i.isLt)

/-- Hence `L Lᵀ = K_xu (K_uu + s·I)⁻¹ K_ux` — the Nyström projection. -/
theorem inducing_LLt {cov : Cov ℝ} {x : Mat ℝ n d} {xu : Mat ℝ m d} {sigma jitter : ℝ} {L : Mat ℝ n m}
    (h : standardLowRank cov x xu Option.none sigma jitter = some L) :
    toM L * (toM L)ᵀ
      = toM (gram cov x xu)
        * (toM (gram cov xu xu) + (max (sigma * sigma) jitter) • (1 : Matrix (Fin m) (Fin m) ℝ))⁻¹
        * toM (gram cov xu x) := by
  obtain ⟨Lp, hLp, hLLp, hKuu⟩ := inducing_factor h
  obtain ⟨_, hLN, _⟩ := full_LLt hLp
  have hdet := lowerNonsing_det hLN
  have hdetT : IsUnit ((toM Lp)ᵀ).det := by rwa [Matrix.det_transpose]
  -- L = K_xu (Lpᵀ)⁻¹
  have hL : toM L = toM (gram cov x xu) * ((toM Lp)ᵀ)⁻¹ := by
    rw [← hLLp, Matrix.mul_assoc, Matrix.mul_nonsing_inv _ hdetT, Matrix.mul_one]
  rw [← hKuu, Matrix.mul_inv_rev]
  conv_lhs => rw [hL]
  rw [Matrix.transpose_mul, Matrix.transpose_nonsing_inv, Matrix.transpose_transpose,
    gram_transpose]
  simp only [Matrix.mul_assoc]

/-- **never above K (inducing points).** If the joint Gram matrix of landmarks and cells,
    `[[K_uu + s·I, K_ux], [K_xu, K_xx + jitter·I]]`, is positive semi-definite — which is what a valid
    (PSD) kernel provides; for the five stationary kernels this is the named hypothesis of DESIGN.md §3 —
    then `(K + jitter·I) − L Lᵀ` is positive semi-definite. -/
theorem inducing_loewner {cov : Cov ℝ} {x : Mat ℝ n d} {xu : Mat ℝ m d} {sigma jitter : ℝ} {L : Mat ℝ n m}
    (h : standardLowRank cov x xu Option.none sigma jitter = some L)
    (hjoint : (Matrix.fromBlocks
        (toM (gram cov xu xu) + (max (sigma * sigma) jitter) • (1 : Matrix (Fin m) (Fin m) ℝ))
        (toM (gram cov xu x)) (toM (gram cov xu x))ᵀ
        (toM (gram cov x x) + jitter • (1 : Matrix (Fin n) (Fin n) ℝ))).PosSemidef) :
    (toM (gram cov x x) + jitter • (1 : Matrix (Fin n) (Fin n) ℝ) - toM L * (toM L)ᵀ).PosSemidef := by
  unfold standardLowRank at h
  simp only at h
  split at h
  · cases h
  · rename_i Lp hLp
    have hL : L = Mat.transpose (solveLowerM Lp (gram cov xu x)) := (Option.some.inj h).symm
    obtain ⟨hLLt, hLN, _⟩ := full_LLt hLp
    have h1 : toM Lp * toM (solveLowerM Lp (gram cov xu x)) = toM (gram cov xu x) := solveLowerM_mul hLN _
    rw [← hLLt] at hjoint
    have := schur_psd hLN (toM (solveLowerM Lp (gram cov xu x))) (toM (gram cov xu x)) _ h1 hjoint
    rw [hL, toM_transpose, Matrix.transpose_transpose]
    exact this

/-- **never above K, from the kernel alone.**  For a positive semi-definite kernel (`PSD.PSDOn`: proved for
    every expression over ExpQuad / Linear leaves, sums, products, non-negative scalars and natural powers —
    `PSD.psdTree_psdOn` — and assumed for the Matérn / Exponential / RatQuad leaves) and `jitter ≥ 0`, the
    inducing-point factor satisfies `(K + jitter·I) − L Lᵀ ⪰ 0`; no matrix hypothesis is left. -/
theorem inducing_loewner_of_psd_kernel {cov : Cov ℝ} {x : Mat ℝ n d} {xu : Mat ℝ m d} {sigma jitter : ℝ}
    {L : Mat ℝ n m} (h : standardLowRank cov x xu Option.none sigma jitter = some L)
    (hk : PSD.PSDOn d cov.k) (hj : 0 ≤ jitter) :
    (toM (gram cov x x) + jitter • (1 : Matrix (Fin n) (Fin n) ℝ) - toM L * (toM L)ᵀ).PosSemidef :=
  inducing_loewner h
    (PSD.joint_reg_psd hk xu x (PSD.smul_one_psd (le_trans hj (le_max_right _ _))) (PSD.smul_one_psd hj))

/-- … in particular for every kernel expression built from ExpQuad and Linear leaves. -/
theorem inducing_loewner_closed_tree {cov : Cov ℝ} {x : Mat ℝ n d} {xu : Mat ℝ m d} {sigma jitter : ℝ}
    {L : Mat ℝ n m} (h : standardLowRank cov x xu Option.none sigma jitter = some L)
    (ht : PSD.PSDTree (fun _ => False) cov) (hj : 0 ≤ jitter) :
    (toM (gram cov x x) + jitter • (1 : Matrix (Fin n) (Fin n) ℝ) - toM L * (toM L)ᵀ).PosSemidef :=
  inducing_loewner_of_psd_kernel h (PSD.psdTree_psdOn_closed ht d) hj

/-! ### Nyström assembly -/

/-- **rank-reduced.** `L = V_p √S_p` has `L Lᵀ = V_p S_p V_pᵀ` (retained eigenvalues are positive). -/
theorem nystroem_LLt (V : Mat ℝ n p) (s : Vector ℝ p) (hs : ∀ k, k < p → 0 ≤ s.nth k) :
    toM (nystroemFactor V s) * (toM (nystroemFactor V s))ᵀ
      = toM V * Matrix.diagonal (fun k : Fin p => s.nth k) * (toM V)ᵀ := by
  ext i j
  simp only [Matrix.mul_apply, Matrix.transpose_apply, toM_apply, nystroemFactor, el_ofFn, i.isLt, j.isLt,
    true_and, Matrix.diagonal_apply, Finset.sum_ite_eq, Finset.mem_univ, if_true, sqrt_real]
  apply Finset.sum_congr rfl
  intro k _
  simp only [k.isLt, if_true]
  have := Real.mul_self_sqrt (hs k k.isLt)
  rw [Finset.sum_eq_single k]
  · simp only [if_true]
    calc V.el i k * Real.sqrt (s.nth k) * (V.el j k * Real.sqrt (s.nth k))
        = V.el i k * (Real.sqrt (s.nth k) * Real.sqrt (s.nth k)) * V.el j k := by ring
      _ = V.el i k * s.nth k * V.el j k := by rw [this]
  · intro b _ hb; simp [hb]
  · intro hk; exact absurd (Finset.mem_univ k) hk

/-- **never above K (spectral form).** If `A = V diag(s) Vᵀ` (the `eigh` contract) and the factor
    keeps the eigen-pairs in `keep`, then `A − L Lᵀ = V diag(s·[¬keep]) Vᵀ`, which is positive
    semi-definite as soon as the discarded eigenvalues are non-negative. -/
theorem truncation_psd (V : Matrix (Fin n) (Fin n) ℝ) (s : Fin n → ℝ) (keep : Fin n → Bool)
    (hdisc : ∀ i, keep i = false → 0 ≤ s i) :
    (V * Matrix.diagonal s * Vᵀ
      - V * Matrix.diagonal (fun i => if keep i then s i else 0) * Vᵀ).PosSemidef := by
  have e : V * Matrix.diagonal s * Vᵀ - V * Matrix.diagonal (fun i => if keep i then s i else 0) * Vᵀ
      = V * Matrix.diagonal (fun i => if keep i then 0 else s i) * Vᵀ := by
    rw [← Matrix.sub_mul, ← Matrix.mul_sub]
    congr 2
    ext i j
    simp only [Matrix.sub_apply, Matrix.diagonal_apply]
    by_cases hij : i = j
    · subst hij; cases keep i <;> simp
    · simp [hij]
  rw [e]
  have hD : (Matrix.diagonal (fun i => if keep i then 0 else s i)).PosSemidef := by
    apply Matrix.PosSemidef.diagonal
    intro i
    cases hk : keep i
    · simpa [hk] using hdisc i hk
    · simp [hk]
  have := hD.mul_mul_conjTranspose_same V
  simpa [Matrix.conjTranspose_eq_transpose_of_trivial] using this

/-- The retained part reproduces the kept eigen-pairs: `(V diag(s·[keep]) Vᵀ) vᵢ = sᵢ vᵢ` for kept
    `i`, when the eigenvectors are orthonormal. -/
theorem truncation_eigenpairs (V : Matrix (Fin n) (Fin n) ℝ) (s : Fin n → ℝ) (keep : Fin n → Bool)
    (horth : Vᵀ * V = 1) (i : Fin n) (hi : keep i = true) :
    (V * Matrix.diagonal (fun i => if keep i then s i else 0) * Vᵀ) *ᵥ (fun r => V r i)
      = fun r => s i * V r i := by
  have hcol : Vᵀ *ᵥ (fun r => V r i) = fun k => if k = i then 1 else 0 := by
    ext k
    have := congrFun (congrFun horth k) i
    simp only [Matrix.mul_apply, Matrix.transpose_apply, Matrix.one_apply] at this
    simpa [Matrix.mulVec, dotProduct] using this
  rw [← Matrix.mulVec_mulVec, ← Matrix.mulVec_mulVec, hcol]
  ext r
  simp only [Matrix.mulVec, dotProduct, Matrix.diagonal_apply]
  have : ∀ k, (∑ j, (if k = j then (if keep k then s k else 0) else 0) * (if j = i then (1:ℝ) else 0))
      = if k = i then s i else 0 := by
    intro k
    rw [Finset.sum_eq_single k]
    · by_cases hki : k = i
      · subst hki; simp [hi]
      · simp [hki]
    · intro b _ hb; simp [Ne.symm hb]
    · intro hk; exact absurd (Finset.mem_univ k) hk
  simp only [this]
  rw [Finset.sum_eq_single i]
  · simp [mul_comm]
  · intro b _ hb; simp [hb]
  · intro hk; exact absurd (Finset.mem_univ i) hk

/-- **improved Nyström.** `L = Q V √S` has `L Lᵀ = Q (V S Vᵀ) Qᵀ`. -/
theorem modified_LLt (Q : Mat ℝ n m) (V : Mat ℝ m p) (S : Vector ℝ p) (hS : ∀ k, k < p → 0 ≤ S.nth k) :
    toM (modifiedFactor Q V S) * (toM (modifiedFactor Q V S))ᵀ
      = toM Q * (toM V * Matrix.diagonal (fun k : Fin p => S.nth k) * (toM V)ᵀ) * (toM Q)ᵀ := by
  have hfac : toM (modifiedFactor Q V S) = toM (nystroemFactor (matMul Q V) S) := by
    ext i k
    simp only [toM_apply, modifiedFactor, nystroemFactor, matMul, el_ofFn, i.isLt, k.isLt, and_self, if_true]
  rw [hfac, nystroem_LLt _ _ hS, matMul_toM, Matrix.transpose_mul]
  simp only [Matrix.mul_assoc]

/-- **never above K (improved Nyström / sparse_nystroem).** The factor is `L = Q V_p √S_p` with `A = K_xu Lp⁻ᵀ = Q R`
    (QR contract: the Nyström projection is `A Aᵀ = Q (R Rᵀ) Qᵀ`) and `R Rᵀ = V diag(s) Vᵀ` (eigh contract), so
    `L Lᵀ = Q V diag(s·[keep]) Vᵀ Qᵀ` (`modified_LLt`).  If the projection is not above `K'` (`inducing_loewner`,
    `K' = K + jitter·I`) and the discarded eigenvalues are non-negative, the rank-reduced factor is not above `K'`
    either: `K' − L Lᵀ = (K' − P) + Q V diag(s·[¬keep]) Vᵀ Qᵀ`. -/
theorem modified_loewner {m : Nat} (K' : Matrix (Fin n) (Fin n) ℝ) (Q : Matrix (Fin n) (Fin m) ℝ)
    (V : Matrix (Fin m) (Fin m) ℝ) (s : Fin m → ℝ) (keep : Fin m → Bool)
    (hproj : (K' - Q * (V * Matrix.diagonal s * Vᵀ) * Qᵀ).PosSemidef)
    (hdisc : ∀ i, keep i = false → 0 ≤ s i) :
    (K' - Q * (V * Matrix.diagonal (fun i => if keep i then s i else 0) * Vᵀ) * Qᵀ).PosSemidef := by
  have hT := truncation_psd V s keep hdisc
  have hQ := hT.mul_mul_conjTranspose_same Q
  rw [Matrix.conjTranspose_eq_transpose_of_trivial] at hQ
  have e : K' - Q * (V * Matrix.diagonal (fun i => if keep i then s i else 0) * Vᵀ) * Qᵀ
      = (K' - Q * (V * Matrix.diagonal s * Vᵀ) * Qᵀ)
        + Q * (V * Matrix.diagonal s * Vᵀ - V * Matrix.diagonal (fun i => if keep i then s i else 0) * Vᵀ) * Qᵀ := by
    rw [Matrix.mul_sub, Matrix.sub_mul]; abel
  rw [e]
  exact hproj.add hQ

/-! ### shapes and dispatch of `compute_L` / `compute_Lp` -/

/-- One row per cell; as many columns as cells (full), inducing points (sparse_cholesky, fixed) or
    retained rank (Nyström types). -/
theorem shape_promise (gp : GPType) (nn mm pp : Nat) :
    (computeLShape gp nn mm pp).1 = nn ∧
    (computeLShape gp nn mm pp).2 =
      match gp with
      | .full => nn
      | .sparseCholesky | .fixed => mm
      | .fullNystroem | .sparseNystroem => pp := by
  cases gp <;> exact ⟨rfl, rfl⟩

/-- A user-supplied `Lp` must be `n × n` for `full` and `m × m` for `sparse_cholesky` / `fixed`;
    anything else is refused (`ValueError`). -/
theorem lp_shape_refused (gp : GPType) (nn mm r cc : Nat) :
    lpShapeOk gp nn mm r cc = false ↔
      (gp = .full ∧ ¬ (r = nn ∧ cc = nn)) ∨
      ((gp = .sparseCholesky ∨ gp = .fixed) ∧ ¬ (r = mm ∧ cc = mm)) := by
  cases gp <;> simp [lpShapeOk]

theorem dispatch_routine :
    computeLRoutine .full false = .fullRank ∧ computeLRoutine .full true = .lpPassThrough
    ∧ (∀ b, computeLRoutine .fullNystroem b = .fullNystroem)
    ∧ (∀ b, computeLRoutine .sparseCholesky b = .standardLowRank)
    ∧ (∀ b, computeLRoutine .fixed b = .standardLowRank)
    ∧ (∀ b, computeLRoutine .sparseNystroem b = .modifiedLowRank)
    ∧ computeLpRoutine .full = .fullRankCells
    ∧ computeLpRoutine .sparseCholesky = .fullRankLandmarks ∧ computeLpRoutine .fixed = .fullRankLandmarks
    ∧ computeLpRoutine .fullNystroem = .none ∧ computeLpRoutine .sparseNystroem = .none := by
  refine ⟨rfl, rfl, fun _ => rfl, fun _ => rfl, fun _ => rfl, fun _ => rfl, rfl, rfl, rfl, rfl, rfl⟩

end Mellon.C04
