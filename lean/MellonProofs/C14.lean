/-
  C14 — Within-time-point neighbour distances and sampling normalisation.
  Property theorems only (helpers in TimeNNLemmas.lean).  Statements are about the model
  `MellonModel/TimeNN.lean` at α = ℝ, for every data set (any number of cells, any state
  dimension), every assignment of time stamps from any linearly ordered type θ (so: unsorted,
  non-integer, any number of time points of any sizes), every `d` form and every target form.
-/
import MellonProofs.TimeNNLemmas

namespace Mellon.C14
open Mellon

variable {θ : Type} [LinearOrder θ]

/-! ### time stamps -/

/-- The model's `unique` satisfies the contract of `jnp.unique`: strictly increasing, same members. -/
theorem unique_times_spec (times : List θ) :
    (uniqueSorted times).Pairwise (· < ·) ∧ ∀ t, t ∈ uniqueSorted times ↔ t ∈ times :=
  ⟨sorted_uniqueSorted times, fun t => mem_uniqueSorted t times⟩

/-- The position of a time stamp among the sorted unique stamps — the index used for list / array
    targets — is the number of strictly earlier time points ("ordered from earliest to latest"). -/
theorem rank_is_number_of_earlier_time_points (times : List θ) (k : Nat)
    (hk : k < (uniqueSorted times).length) :
    ((uniqueSorted times).filter (· < (uniqueSorted times)[k])).length = k :=
  rank_eq_count_lt _ (sorted_uniqueSorted times) k hk

/-- The metric is the Euclidean one. -/
theorem euclid_is_euclidean (x y : List ℝ) : euclid x y = Real.sqrt (sqdist x y) := euclid_eq x y

/-! ### nn_within_spec -/

/-- **nn_within_spec.**  Without normalisation the output has one entry per cell, in the original
    order, and entry `i` is the distance to the closest OTHER cell with the same time stamp: it is
    attained by such a cell and is a lower bound for all of them. -/
theorem nn_within_spec (c : Cells ℝ θ) (d : DArg ℝ) (res : List ℝ)
    (h : nnCells c d (.off : NormArg ℝ θ) = .ok res) :
    res.length = c.times.length ∧
    ∀ i (hi : i < c.times.length), ∃ v, res[i]? = some v ∧
      (∃ j, ∃ hj : j < c.times.length, j ≠ i ∧ c.times[j] = c.times[i] ∧
          v = euclid (c.pts.getD i []) (c.pts.getD j [])) ∧
      (∀ j (hj : j < c.times.length), j ≠ i → c.times[j] = c.times[i] →
          v ≤ euclid (c.pts.getD i []) (c.pts.getD j [])) := by
  obtain ⟨hlen, hspec⟩ := nnCells_spec c d .off res h
  refine ⟨hlen, ?_⟩
  intro i hi
  obtain ⟨k, g, hk, hkv, hg, hr⟩ := hspec i hi
  have h2 := groupVals_ok_size c d .off _ _ k g hg
  have hgv := groupVals_off c d _ _ k g hg
  obtain ⟨hex, hle⟩ := nnOf_spec c.pts (groupIdx c.times c.times[i]) i (nodup_groupIdx _ _) h2
  refine ⟨g i, hr, ?_, ?_⟩
  · obtain ⟨j, hj, hji, hv⟩ := hex
    have hjt := (mem_groupIdx c.times _ j).mp hj
    obtain ⟨hjl, hjv⟩ := List.getElem?_eq_some_iff.mp hjt
    exact ⟨j, hjl, hji, hjv, by rw [hgv]; exact hv⟩
  · intro j hj hji hjt
    rw [hgv]
    apply hle j _ hji
    rw [mem_groupIdx]
    rw [← hjt]
    exact List.getElem?_eq_getElem hj

/-- **singleton_refused.**  A time point with a single cell is refused: `ValueError` without
    normalisation, and no normalisation setting makes the call succeed. -/
theorem singleton_refused (c : Cells ℝ θ) (d : DArg ℝ) (t : θ) (h1 : (groupIdx c.times t).length = 1) :
    nnCells c d (.off : NormArg ℝ θ) = .error .singleton
    ∧ ∀ (norm : NormArg ℝ θ) (res : List ℝ), nnCells c d norm ≠ .ok res := by
  have hne : groupIdx c.times t ≠ [] := by intro h; rw [h] at h1; simp at h1
  obtain ⟨i, hi⟩ := List.exists_mem_of_ne_nil _ hne
  have hil := groupIdx_lt c.times t i hi
  have hit : c.times[i] = t := by
    have := (mem_groupIdx c.times t i).mp hi
    exact (List.getElem?_eq_some_iff.mp this).2
  have hno : ∀ (norm : NormArg ℝ θ) (res : List ℝ), nnCells c d norm ≠ .ok res := by
    intro norm res h
    obtain ⟨_, hspec⟩ := nnCells_spec c d norm res h
    obtain ⟨k, g, hk, hkv, hg, hr⟩ := hspec i hil
    have := groupVals_ok_size c d norm _ _ k g hg
    rw [hit, h1] at this
    omega
  refine ⟨?_, hno⟩
  cases hres : nnCells c d (.off : NormArg ℝ θ) with
  | ok res => exact absurd hres (hno _ res)
  | error e =>
    have hn : c.times.length ≠ 0 := by omega
    unfold nnCells at hres
    simp only [hn, if_false, validateNormalize, except_pure, NormArg.isOn, Bool.false_eq_true] at hres
    rw [nnLoop_off_err c d _ _ _ _ e hres]

/-! ### normalisation -/

/-- **factor_eq.**  With normalisation on, a successful call returns, cell by cell,
    `(n_t / N_t)^(1/dᵢ)` times the un-normalised distance (which exists: the un-normalised call
    succeeds too), where `n_t` is the number of cells at the cell's time point and `N_t` the target
    count of that time point, looked up at its rank `k` among the sorted unique time stamps. -/
theorem factor_eq (c : Cells ℝ θ) (d : DArg ℝ) (norm : NormArg ℝ θ) (hon : norm.isOn = true)
    (out : List ℝ) (h : nnCells c d norm = .ok out) :
    ∃ raw, nnCells c .none (.off : NormArg ℝ θ) = .ok raw ∧
      raw.length = c.times.length ∧ out.length = c.times.length ∧
      ∀ i (hi : i < c.times.length), ∃ k, ∃ hk : k < (uniqueSorted c.times).length,
        (uniqueSorted c.times)[k] = c.times[i] ∧
        ∃ Nt r, targetCount norm c.times[i] k
                  ((c.times.length : ℝ) / ((uniqueSorted c.times).length : ℝ)) = .ok Nt ∧
          raw[i]? = some r ∧
          out[i]? = some (normFactor ((groupIdx c.times c.times[i]).length : ℝ) Nt (dAt d i) * r) := by
  obtain ⟨hn, hsz⟩ := nnCells_ok_inv c d norm out h
  obtain ⟨raw, hraw⟩ := nnCells_off_ok c .none hn hsz
  obtain ⟨hlr, hsr⟩ := nnCells_spec c .none .off raw hraw
  obtain ⟨hlo, hso⟩ := nnCells_spec c d norm out h
  refine ⟨raw, hraw, hlr, hlo, ?_⟩
  intro i hi
  obtain ⟨k, g, hk, hkv, hg, hr⟩ := hso i hi
  obtain ⟨k', g', hk', hkv', hg', hr'⟩ := hsr i hi
  obtain ⟨Nt, hN, hgv⟩ := groupVals_on c d norm hon _ _ k g hg
  have hgv' := groupVals_off c .none _ _ k' g' hg'
  refine ⟨k, hk, hkv, Nt, g' i, hN, hr', ?_⟩
  rw [hr, hgv, hgv']

/-- `N_t` for `normalize=True`: the across-time average count `n / #time points`. -/
theorem target_true (t : θ) (k : Nat) (avg : ℝ) :
    targetCount (.avg : NormArg ℝ θ) t k avg = .ok avg := rfl

/-- `N_t` for a list / array: the entry at the rank of the time point (earliest first). -/
theorem target_seq (kind : SeqKind) (vs : List ℝ) (t : θ) (k : Nat) (avg : ℝ) (hk : k < vs.length) :
    targetCount (.seq kind vs : NormArg ℝ θ) t k avg = .ok vs[k] := by
  simp [targetCount, List.getElem?_eq_getElem hk]

/-- `N_t` for a dict: the entry of the time point. -/
theorem target_dict (es : List (θ × ℝ)) (hnd : (es.map (·.1)).Nodup) (t : θ) (v : ℝ) (hmem : (t, v) ∈ es)
    (k : Nat) (avg : ℝ) : targetCount (.dict es : NormArg ℝ θ) t k avg = .ok v := by
  have : es.find? (fun e => decide (e.1 = t)) = some (t, v) := by
    induction es with
    | nil => simp at hmem
    | cons e es ih =>
      simp only [List.map_cons, List.nodup_cons] at hnd
      rcases List.mem_cons.mp hmem with rfl | hm
      · simp
      · have hne : ¬ e.1 = t := by
          intro he
          apply hnd.1
          rw [he]
          exact List.mem_map.mpr ⟨(t, v), hm, rfl⟩
        simp [hne, ih hnd.2 hm]
  simp [targetCount, this]

/-- **missing_key_refused.**  A dict target that lacks the time stamp of some cell is refused with
    `ValueError`. -/
theorem missing_key_refused (c : Cells ℝ θ) (d : DArg ℝ) (es : List (θ × ℝ)) (i : Nat)
    (hi : i < c.times.length) (hmiss : ∀ e ∈ es, e.1 ≠ c.times[i]) :
    nnCells c d (.dict es) = .error .missingKey := by
  have hn : c.times.length ≠ 0 := by omega
  have hmem : c.times[i] ∈ uniqueSorted c.times := (mem_uniqueSorted _ _).mpr (List.getElem_mem hi)
  unfold nnCells
  simp [hn, missing_key_validate es _ _ hmem hmiss]

/-- **wrong_length_refused.**  A target sequence of ANY sized form (list, JAX array, tuple, NumPy
    array) whose length is not the number of time points is refused with `ValueError` — too long
    and too short alike.  (Before the repair of /repo this held for lists and JAX arrays only.) -/
theorem wrong_length_refused (c : Cells ℝ θ) (d : DArg ℝ) (kind : SeqKind)
    (vs : List ℝ) (hn : c.times.length ≠ 0)
    (hlen : vs.length ≠ (uniqueSorted c.times).length) :
    nnCells c d (.seq kind vs) = .error .wrongLength := by
  unfold nnCells
  simp [hn, wrong_length_validate kind vs _ hlen]

/-- After the length check `normalize[rank]` is always in range: no call ends in `IndexError`. -/
theorem index_error_unreachable (c : Cells ℝ θ) (d : DArg ℝ) (norm : NormArg ℝ θ) :
    nnCells c d norm ≠ .error .indexError := by
  intro h
  unfold nnCells at h
  by_cases hn : c.times.length = 0
  · simp [hn] at h
  · simp only [hn, if_false] at h
    cases hv : validateNormalize norm (uniqueSorted c.times) with
    | error e =>
      simp only [hv, except_throw] at h
      injection h with h
      subst h
      cases norm with
      | off => simp [validateNormalize] at hv
      | avg => simp [validateNormalize] at hv
      | dict es => simp only [validateNormalize] at hv; split at hv <;> simp at hv
      | seq k vs => simp only [validateNormalize] at hv; split at hv <;> simp at hv
    | ok u =>
      simp only [hv, except_pure, except_throw] at h
      cases hd : (if norm.isOn = true then validateD c.times.length d else Except.ok ()) with
      | error e =>
        simp only [hd] at h
        injection h with h
        subst h
        cases hon : norm.isOn with
        | false => simp [hon] at hd
        | true =>
          simp only [hon, if_true] at hd
          cases d with
          | none => simp [validateD] at hd
          | scalar v => simp only [validateD] at hd; split at hd <;> simp at hd
          | perCell vs =>
            simp only [validateD] at hd
            split at hd
            · simp at hd
            · split at hd <;> simp at hd
      | ok u' =>
        simp only [hd] at h
        obtain ⟨k, hk, hg⟩ := nnLoop_err_position c d norm _ _ 0 _ _ h
        obtain ⟨kind, vs, rfl, hlen⟩ := groupVals_indexError c d _ _ _ _ hg
        simp only [validateNormalize] at hv
        split at hv
        · simp at hv
        · rename_i hl
          have : vs.length = (uniqueSorted c.times).length := by simpa using hl
          omega

/-- The former counterexamples are now refused (regression witnesses, replayed by the harness):
    a NumPy array of three targets for two time points, and the tuple `(2, 7)` for the two cells
    `0`, `1` at ONE time point. -/
theorem wrong_length_witnesses_refused :
    validateNormalize (.seq .numpyArray [10, 20, 30] : NormArg ℝ ℤ) [0, 1] = .error .wrongLength
    ∧ nnCells (⟨[[0], [1]], [0, 0]⟩ : Cells ℝ ℤ) (.scalar 1) (.seq .tuple [2, 7]) = .error .wrongLength := by
  constructor
  · simp [validateNormalize]
  · apply wrong_length_refused
    · simp
    · have hu : uniqueSorted ([0, 0] : List ℤ) = [0] := by decide
      simp [hu]

/-- **norm_density_scales.**  `mle(out) = mle(nn) + log(N_t / n_t)`: the normalisation multiplies
    the nearest-neighbour MLE density by exactly `N_t / n_t` (direction and exponent `1/d`). -/
theorem norm_density_scales (r nt Nt d : ℝ) (hr : 0 < r) (hnt : 0 < nt) (hNt : 0 < Nt) (hd : d ≠ 0) :
    mleNN (normFactor nt Nt d * r) d = mleNN r d + Real.log (Nt / nt)
    ∧ Real.exp (mleNN (normFactor nt Nt d * r) d) = Nt / nt * Real.exp (mleNN r d) := by
  have h := mle_norm r nt Nt d hr hnt hNt hd
  refine ⟨h, ?_⟩
  rw [h, Real.exp_add, Real.exp_log (div_pos hNt hnt)]
  ring

/-! ### `n_obs` -/

/-- **n_obs_eq** (`True`, `False`, `None`): cells per time point. -/
theorem n_obs_eq_default (times : List θ) (norm : NormArg ℝ θ) (h : norm = .off ∨ norm = .avg) :
    avgCellCount times norm = .ok ((times.length : ℝ) / ((uniqueSorted times).length : ℝ)) := by
  rcases h with rfl | rfl <;> rfl

/-- **n_obs_eq** (list, JAX array, tuple, NumPy array with one target per time point): the mean
    of the targets. -/
theorem n_obs_eq_seq (times : List θ) (k : SeqKind) (vs : List ℝ)
    (hlen : vs.length = (uniqueSorted times).length) :
    avgCellCount times (.seq k vs) = .ok (lsum vs / (vs.length : ℝ)) := by
  simp [avgCellCount, validateNormalize, hlen]

/-- … and a wrong length is refused here as well. -/
theorem n_obs_seq_wrong_length_refused (times : List θ) (k : SeqKind) (vs : List ℝ)
    (hlen : vs.length ≠ (uniqueSorted times).length) :
    avgCellCount times (.seq k vs) = .error .wrongLength := by
  simp [avgCellCount, validateNormalize, hlen]

/-- **n_obs_eq** (dict), full strength: for every dict that covers the time points of the data —
    extra keys or not — `n_obs` is the average over the time points present of their targets. -/
theorem n_obs_eq_dict (times : List θ) (es : List (θ × ℝ))
    (hcov : ∀ t ∈ times, ∃ e ∈ es, e.1 = t) :
    avgCellCount times (.dict es)
      = .ok (lsum ((uniqueSorted times).map (dictVal es)) / ((uniqueSorted times).length : ℝ)) := by
  have hall : ((uniqueSorted times).all fun t => es.any fun e => decide (e.1 = t)) = true := by
    rw [List.all_eq_true]
    intro t ht
    obtain ⟨e, he, het⟩ := hcov t ((mem_uniqueSorted t times).mp ht)
    rw [List.any_eq_true]
    exact ⟨e, he, by simpa using het⟩
  simp [avgCellCount, validateNormalize, hall]

/-- Entries for time stamps that do not occur in the data do not influence `n_obs`. -/
theorem n_obs_dict_extra_keys_irrelevant (times : List θ) (es extra : List (θ × ℝ))
    (hcov : ∀ t ∈ times, ∃ e ∈ es, e.1 = t) :
    avgCellCount times (.dict (es ++ extra)) = avgCellCount times (.dict es) := by
  have hcov' : ∀ t ∈ times, ∃ e ∈ es ++ extra, e.1 = t := by
    intro t ht
    obtain ⟨e, he, het⟩ := hcov t ht
    exact ⟨e, List.mem_append_left _ he, het⟩
  rw [n_obs_eq_dict times _ hcov', n_obs_eq_dict times _ hcov]
  congr 3
  apply List.map_congr_left
  intro t ht
  obtain ⟨e, he, het⟩ := hcov t ((mem_uniqueSorted t times).mp ht)
  have hsome : (es.find? fun e => decide (e.1 = t)).isSome = true := by
    rw [List.find?_isSome]
    exact ⟨e, he, by simpa using het⟩
  obtain ⟨e', he'⟩ := Option.isSome_iff_exists.mp hsome
  simp [dictVal, List.find?_append, he']

/-- A dict lacking a time point of the data is refused (`ValueError`) here as well. -/
theorem n_obs_dict_missing_key_refused (times : List θ) (es : List (θ × ℝ)) (t : θ) (ht : t ∈ times)
    (hmiss : ∀ e ∈ es, e.1 ≠ t) :
    avgCellCount times (.dict es) = .error .missingKey := by
  simp [avgCellCount, missing_key_validate es _ t ((mem_uniqueSorted t times).mpr ht) hmiss]

/-- The former counterexample (times `[0, 0]`, targets `{0: 30, 9: 1000}`) now gives the average
    target `30` (regression witness, replayed by the harness). -/
theorem n_obs_dict_witness :
    avgCellCount ([0, 0] : List ℤ) (.dict [(0, (30 : ℝ)), (9, 1000)]) = .ok 30 := by
  have h : uniqueSorted ([0, 0] : List ℤ) = [0] := by decide
  simp [avgCellCount, validateNormalize, h, dictVal, lsum]

/-! ### the estimator: `ls`, explicit distances, the two ways of passing times -/

/-- **ls_uses_raw.**  Whatever the normalisation, the length-scale heuristic is
    `compute_ls(un-normalised distances) · ls_factor` (when normalisation is off, `stored` are the
    un-normalised distances themselves). -/
theorem ls_uses_raw (c : Cells ℝ θ) (norm : NormArg ℝ θ) (stored raw : List ℝ) (lsFactor : ℝ)
    (hraw : nnCells c .none (.off : NormArg ℝ θ) = .ok raw) (hst : norm.isOn = false → stored = raw) :
    tsLs c norm stored lsFactor = .ok (tsComputeLs raw * lsFactor) := by
  unfold tsLs
  cases hon : norm.isOn with
  | true => simp [hraw]
  | false => simp [hst hon]

/-- **given_nn_untouched.**  Explicitly supplied nearest-neighbour distances are used as they are. -/
theorem given_nn_untouched (c : Cells ℝ θ) (d : DArg ℝ) (norm : NormArg ℝ θ) (v : List ℝ) :
    tsNN c d norm (some v) = .ok v := rfl

/-- Times as a trailing column of `x`, as an `(n,)` / `(n,1)` array or as a (nested) list: the same
    cells, hence the same result (values and refusals). -/
theorem times_forms_agree (key : ℝ → θ) (n f : Nat) (rows : List (List ℝ)) (ts : List ℝ)
    (s : List Nat) (hs : s = [n] ∨ s = [n, 1]) (t : TimeArg ℝ) (ht : t = .array s ts ∨ t = .pyList s ts)
    (d : DArg ℝ) (norm : NormArg ℝ θ) :
    nnWithinTimePoints key (.mat n f rows) t d norm
      = nnWithinTimePoints key (.mat n (f + 1) (appendCol rows ts)) .none d norm := by
  have e1 : validateTimeX (.mat n f rows) t none false = .ok ⟨n, f + 1, appendCol rows ts⟩ := by
    rcases hs with rfl | rfl <;> rcases ht with rfl | rfl <;>
      simp [validateTimeX, xtErr?, TimeArg.shape, timesErr?, TShape.isNone, featErr?, mergedVal, timesColumn,
        TimeArg.data]
  have e2 : validateTimeX (.mat n (f + 1) (appendCol rows ts)) (.none : TimeArg ℝ) none false
      = .ok ⟨n, f + 1, appendCol rows ts⟩ := by
    simp [validateTimeX, xtErr?, TimeArg.shape, timesErr?, TShape.isNone, featErr?, mergedVal]
  simp only [nnWithinTimePoints, e1, e2]

omit [LinearOrder θ] in
/-- … and the cells are the rows of `x` with the given time stamps. -/
theorem cells_of_merged (key : ℝ → θ) (n f : Nat) (rows : List (List ℝ)) (ts : List ℝ)
    (h : rows.length = ts.length) :
    cellsOf key ⟨n, f + 1, appendCol rows ts⟩ = ⟨rows, ts.map key⟩ := by
  simp [cellsOf, stateCols_appendCol rows ts h, timeCol_appendCol rows ts h]

/-! ### non-vacuity -/

/-- three cells at time 0 in 1-D: positions 0, 1, 3 -/
example : (groupIdx ([0, 5, 0, 0] : List ℤ) 0) = [0, 2, 3] := by decide
example : uniqueSorted ([2, 0, 2, 1, 0] : List ℤ) = [0, 1, 2] := by decide
example : (0 : ℝ) < 1 ∧ (0 : ℝ) < 2 ∧ (0 : ℝ) < 3 ∧ (2 : ℝ) ≠ 0 := by norm_num
example : ∀ t ∈ ([0, 0] : List ℤ), ∃ e ∈ [((0 : ℤ), (30 : ℝ)), (9, 1000)], e.1 = t := by decide

end Mellon.C14
