/-
  MellonProofs.SchurLemmas — Schur-complement facts for factors coming from the model's triangular
  solves (helper lemmas for C04 "never above K" and C06 "posterior covariance is PSD").
-/
import MellonProofs.MatrixBridge
import Mathlib.LinearAlgebra.Matrix.PosDef
import Mathlib.LinearAlgebra.Matrix.SchurComplement
import Mathlib.Algebra.Order.Star.Real
import Mathlib.LinearAlgebra.Matrix.NonsingularInverse
import Mathlib.LinearAlgebra.Matrix.Block

open Matrix

namespace Mellon

variable {m q : Nat}

theorem lowerNonsing_isUnit_det {L : Mat ℝ m m} (hL : LowerNonsing L) : IsUnit (toM L).det := by
  have htri : (toM L).IsLowerTriangular := by
    intro i j hij
    have : i.val < j.val := hij
    exact hL.upper_zero i j this
  rw [Matrix.det_of_isLowerTriangular _ htri, isUnit_iff_ne_zero]
  exact Finset.prod_ne_zero_iff.mpr (fun i _ => hL.diag_ne i i.isLt)

/-- `L Lᵀ` is positive definite for a non-singular lower-triangular `L`. -/
theorem LLt_posDef {L : Mat ℝ m m} (hL : LowerNonsing L) : (toM L * (toM L)ᵀ).PosDef := by
  have hdet := lowerNonsing_isUnit_det hL
  have hinj : Function.Injective (toM L).vecMul :=
    Matrix.vecMul_injective_iff_isUnit.mpr ((Matrix.isUnit_iff_isUnit_det _).mpr hdet)
  have := Matrix.PosDef.mul_conjTranspose_self (toM L) hinj
  simpa [Matrix.conjTranspose_eq_transpose_of_trivial] using this

/-- If `L A = B` then `AᵀA = Bᵀ (L Lᵀ)⁻¹ B`. -/
theorem factor_gram {L : Mat ℝ m m} (hL : LowerNonsing L) (A B : Matrix (Fin m) (Fin q) ℝ)
    (hLA : toM L * A = B) : Aᵀ * A = Bᵀ * (toM L * (toM L)ᵀ)⁻¹ * B := by
  have hdet := lowerNonsing_isUnit_det hL
  have hdetT : IsUnit ((toM L)ᵀ).det := by rwa [Matrix.det_transpose]
  have hA : A = (toM L)⁻¹ * B := by
    rw [← hLA, ← Matrix.mul_assoc, Matrix.nonsing_inv_mul _ hdet, Matrix.one_mul]
  rw [Matrix.mul_inv_rev]
  conv_lhs => rw [hA]
  rw [Matrix.transpose_mul, Matrix.transpose_nonsing_inv]
  simp only [Matrix.mul_assoc]

/-- **Schur complement.** If the joint matrix `[[L Lᵀ, B], [Bᵀ, D]]` is positive semi-definite, then
    so is `D − AᵀA` for `A = L⁻¹B`. -/
theorem schur_psd {L : Mat ℝ m m} (hL : LowerNonsing L) (A B : Matrix (Fin m) (Fin q) ℝ)
    (D : Matrix (Fin q) (Fin q) ℝ) (hLA : toM L * A = B)
    (hjoint : (Matrix.fromBlocks (toM L * (toM L)ᵀ) B Bᵀ D).PosSemidef) :
    (D - Aᵀ * A).PosSemidef := by
  have hPD := LLt_posDef hL
  have hdet : IsUnit (toM L * (toM L)ᵀ).det := by
    rw [Matrix.det_mul, Matrix.det_transpose]
    exact (lowerNonsing_isUnit_det hL).mul (lowerNonsing_isUnit_det hL)
  haveI : Invertible (toM L * (toM L)ᵀ) := Matrix.invertibleOfIsUnitDet _ hdet
  have hB : Bᴴ = Bᵀ := Matrix.conjTranspose_eq_transpose_of_trivial B
  have := (Matrix.PosDef.fromBlocks₁₁ B D hPD).mp (by rwa [hB])
  rw [hB] at this
  rw [factor_gram hL A B hLA]
  exact this

end Mellon
